(* Proofs for C06: the invariant [Inv] of Model/AnalysisSpec.v is established by
   [init] and preserved by every step of the collector on a stream the parser can
   emit ([step_inv], [run_inv], [reachable_inv]); the recipe that is returned
   satisfies [recipe_ok] ([analyse_ok]), which gives [blind_indexing]; the code
   before the repair c9128f1 did not ([no_empty_refuted_before_fix]). *)
From CL Require Import Base.StrLemmas Model.AnalysisSpec.
From Coq Require Import Lia ZArith.
Open Scope nat_scope.

(* ------------------------------------------------------------------ lists *)
Lemma nth_error_app_last {A} (l : list A) (x : A) : nth_error (l ++ [x]) (length l) = Some x.
Proof. rewrite nth_error_app2 by lia. now rewrite Nat.sub_diag. Qed.

Lemma nth_error_app_cases {A} (l : list A) (x : A) k c :
  nth_error (l ++ [x]) k = Some c ->
  (k < length l /\ nth_error l k = Some c) \/ (k = length l /\ c = x).
Proof.
  intro H. destruct (Nat.lt_ge_cases k (length l)) as [L|L].
  - left. split; [exact L|]. now rewrite nth_error_app1 in H.
  - right. rewrite nth_error_app2 in H by exact L.
    destruct (k - length l) as [|d] eqn:E.
    + simpl in H. split; [lia|congruence].
    + simpl in H. destruct d; discriminate.
Qed.

Lemma nth_error_lt {A} (l : list A) k c : nth_error l k = Some c -> k < length l.
Proof. intro H. apply nth_error_Some. congruence. Qed.

Lemma upd_nth_length {A} (l : list A) j x : length (upd_nth l j x) = length l.
Proof. revert j. induction l; intros [|j]; simpl; auto. Qed.

Lemma upd_nth_same {A} (l : list A) j x : j < length l -> nth_error (upd_nth l j x) j = Some x.
Proof. revert j. induction l; intros [|j] H; simpl in *; try lia; auto. apply IHl. lia. Qed.

Lemma upd_nth_other {A} (l : list A) j k x : k <> j -> nth_error (upd_nth l j x) k = nth_error l k.
Proof.
  revert j k. induction l; intros [|j] [|k] H; simpl; auto; try congruence.
Qed.

(* lookups in  upd_nth tbl j d ++ [x] *)
Lemma lookup_upd_app {A} (tbl : list A) j d x k :
  j < length tbl ->
  (k < length tbl /\ k <> j /\ nth_error (upd_nth tbl j d ++ [x]) k = nth_error tbl k) \/
  (k = j /\ nth_error (upd_nth tbl j d ++ [x]) k = Some d) \/
  (k = length tbl /\ nth_error (upd_nth tbl j d ++ [x]) k = Some x) \/
  (length tbl < k /\ nth_error (upd_nth tbl j d ++ [x]) k = None).
Proof.
  intro Hj. destruct (Nat.lt_trichotomy k (length tbl)) as [L|[L|L]].
  - destruct (Nat.eq_dec k j) as [->|N].
    + right; left. split; [reflexivity|].
      rewrite nth_error_app1 by (rewrite upd_nth_length; exact Hj). now apply upd_nth_same.
    + left. repeat split; auto.
      rewrite nth_error_app1 by (rewrite upd_nth_length; exact L). now apply upd_nth_other.
  - right; right; left. split; [exact L|]. subst k.
    pose proof (nth_error_app_last (upd_nth tbl j d) x) as E.
    rewrite upd_nth_length in E. exact E.
  - right; right; right. split; [exact L|]. apply nth_error_None.
    rewrite app_length, upd_nth_length. simpl. lia.
Qed.

Lemma rposition_some {A} (p : A -> bool) l i :
  rposition p l = Some i -> exists a, nth_error l i = Some a /\ p a = true.
Proof.
  revert i. induction l as [|a r IH]; simpl; intros i H; [discriminate|].
  destruct (rposition p r) as [k|] eqn:E.
  - injection H as <-. simpl. now apply IH.
  - destruct (p a) eqn:P; [|discriminate]. injection H as <-. exists a. now split.
Qed.

(* ------------------------------------------------------------------ indices / incr_below *)
Lemma indices_app k a b : indices k (a ++ b) = indices k a ++ indices k b.
Proof.
  induction a as [|x a IH]; simpl; [reflexivity|].
  destruct (item_index k x); simpl; now rewrite IH.
Qed.

Lemma incr_below_mono l n m : incr_below l n -> n <= m -> incr_below l m.
Proof. induction l; simpl; intros H L; [exact I|]. destruct H as (H1 & H2 & H3). repeat split; auto; lia. Qed.

Lemma incr_below_all l n x : incr_below l n -> In x l -> x < n.
Proof.
  induction l; simpl; intros H Hin; [contradiction|]. destruct H as (H1 & H2 & H3).
  destruct Hin as [->|Hin]; auto.
Qed.

Lemma incr_below_snoc l n : incr_below l n -> incr_below (l ++ [n]) (S n).
Proof.
  induction l as [|a r IH]; simpl; intro H.
  - repeat split; auto.
  - destruct H as (H1 & H2 & H3). repeat split; [lia| |auto].
    apply Forall_app. split; [exact H2|]. constructor; [exact H1|constructor].
Qed.

Lemma incr_below_prefix a b n : incr_below (a ++ b) n -> incr_below a n.
Proof.
  induction a as [|x a IH]; simpl; intro H; [exact I|]. destruct H as (H1 & H2 & H3).
  apply Forall_app in H2. repeat split; tauto.
Qed.

Lemma In_indices k it i l : In it l -> item_index k it = Some i -> In i (indices k l).
Proof.
  induction l as [|x l IH]; simpl; intros Hin E; [contradiction|].
  destruct Hin as [->|Hin].
  - rewrite E. now left.
  - destruct (item_index k x); [right|]; auto.
Qed.

(* ------------------------------------------------------------------ occurrences *)
Lemma content_occs_app si prev r1 r2 :
  content_occs si prev (r1 ++ r2) = content_occs si prev r1 ++ content_occs si (prev ++ r1) r2.
Proof.
  revert prev. induction r1 as [|c r1 IH]; intro prev; simpl.
  - now rewrite app_nil_r.
  - rewrite IH, <- !app_assoc. reflexivity.
Qed.

Lemma sections_occs_app si a b :
  sections_occs si (a ++ b) = sections_occs si a ++ sections_occs (si + length a) b.
Proof.
  revert si. induction a as [|s a IH]; intro si; simpl.
  - now rewrite Nat.add_0_r.
  - rewrite IH, <- app_assoc. replace (S si + length a) with (si + S (length a)) by lia. reflexivity.
Qed.

Lemma sections_occs_last secs cur :
  sections_occs 0 (secs ++ [cur]) = sections_occs 0 secs ++ content_occs (length secs) [] (sec_content cur).
Proof. rewrite sections_occs_app. simpl. now rewrite app_nil_r. Qed.

(* ------------------------------------------------------------------ component tables *)
Lemma NoDup_snoc {A} (l : list A) x : NoDup l -> ~ In x l -> NoDup (l ++ [x]).
Proof.
  induction l as [|a l IH]; simpl; intros ND NI.
  - constructor; [intros []|constructor].
  - inversion ND; subst. constructor.
    + rewrite in_app_iff. simpl. intros [H|[H|[]]]; [contradiction|]. apply NI. now left.
    + apply IH; auto.
Qed.

(* a component that nobody can refer to yet and that is not a component reference *)
Definition fresh_rel (c : component) : Prop :=
  match c_rel c with
  | RDef rf _ => rf = []
  | RRef _ tg => m_ref (c_mods c) = true /\ tg <> TgComponent
  end.

Lemma rel_ok_push tbl new : rel_ok tbl -> fresh_rel new -> rel_ok (tbl ++ [new]).
Proof.
  intros H F i c Hn. apply nth_error_app_cases in Hn as [[L Hn]|[-> ->]].
  - specialize (H i c Hn). destruct (c_rel c) as [rf d|j tg].
    + destruct H as [ND Hiff]. split; auto. intro k. rewrite Hiff. split; intros (c' & Hk & Hr).
      * exists c'. split; auto. rewrite nth_error_app1; auto. eapply nth_error_lt; eauto.
      * apply nth_error_app_cases in Hk as [[Lk Hk]|[-> ->]]; [exists c'; auto|].
        unfold fresh_rel in F. rewrite Hr in F. destruct F as [_ F]. congruence.
    + destruct H as [M Ht]. split; auto. intro E. destruct (Ht E) as (Lt & d & Hd & Hdef).
      split; auto. exists d. split; auto. rewrite nth_error_app1; auto. eapply nth_error_lt; eauto.
  - unfold fresh_rel in F. destruct (c_rel new) as [rf d|j tg] eqn:E.
    + subst rf. split; [constructor|]. intro k. split; [intros []|]. intros (c' & Hk & Hr).
      apply nth_error_app_cases in Hk as [[Lk Hk]|[-> ->]].
      * specialize (H k c' Hk). rewrite Hr in H. destruct H as [_ H]. destruct (H eq_refl) as [Lt _]. lia.
      * congruence.
    + destruct F as [M Ntg]. split; auto. intro; contradiction.
Qed.

Lemma rel_ok_link tbl j def rf dis new :
  rel_ok tbl -> nth_error tbl j = Some def -> c_rel def = RDef rf dis ->
  c_rel new = RRef j TgComponent -> m_ref (c_mods new) = true ->
  rel_ok (upd_nth tbl j (set_rel def (RDef (rf ++ [length tbl]) dis)) ++ [new]).
Proof.
  intros H Hj Hdef Hnew M.
  set (def' := set_rel def (RDef (rf ++ [length tbl]) dis)).
  assert (Lj : j < length tbl) by (eapply nth_error_lt; eauto).
  assert (Hnotj : forall k c', nth_error tbl k = Some c' -> forall i tg, c_rel c' = RRef i tg -> k <> j).
  { intros k c' Hk i tg Hr ->. congruence. }
  intros i c Hn.
  destruct (lookup_upd_app tbl j def' new i Lj) as [(L & N & E)|[(-> & E)|[(-> & E)|(L & E)]]];
    rewrite E in Hn; [| | |discriminate].
  - specialize (H i c Hn). destruct (c_rel c) as [rf_i d_i|j' tg].
    + destruct H as [ND Hiff]. split; auto. intro k. rewrite Hiff. split; intros (c' & Hk & Hr).
      * exists c'. split; auto.
        destruct (lookup_upd_app tbl j def' new k Lj) as [(L' & N' & E')|[(-> & E')|[(-> & E')|(L' & E')]]].
        -- now rewrite E'.
        -- exfalso. eapply Hnotj; eauto.
        -- apply nth_error_lt in Hk. lia.
        -- apply nth_error_lt in Hk. lia.
      * destruct (lookup_upd_app tbl j def' new k Lj) as [(L' & N' & E')|[(-> & E')|[(-> & E')|(L' & E')]]];
          rewrite E' in Hk; [| | |discriminate].
        -- exists c'; auto.
        -- injection Hk as <-. simpl in Hr. discriminate.
        -- injection Hk as <-. rewrite Hnew in Hr. injection Hr as <-. congruence.
    + destruct H as [M' Ht]. split; auto. intro Etg. destruct (Ht Etg) as (Lt & d & Hd & Hdd).
      split; auto. destruct (Nat.eq_dec j' j) as [->|Nj].
      * exists def'. split; [|reflexivity].
        rewrite nth_error_app1 by (rewrite upd_nth_length; exact Lj). now apply upd_nth_same.
      * exists d. split; auto.
        rewrite nth_error_app1 by (rewrite upd_nth_length; eapply nth_error_lt; eauto).
        rewrite upd_nth_other; auto.
  - injection Hn as <-. simpl. pose proof (H j def Hj) as Hd. rewrite Hdef in Hd. destruct Hd as [ND Hiff].
    split.
    + apply NoDup_snoc; auto. intro Hin. apply Hiff in Hin as (c' & Hk & _). apply nth_error_lt in Hk. lia.
    + intro k. rewrite in_app_iff. split.
      * intros [Hin|[<-|[]]].
        -- apply Hiff in Hin as (c' & Hk & Hr). exists c'. split; auto.
           destruct (lookup_upd_app tbl j def' new k Lj) as [(L' & N' & E')|[(-> & E')|[(-> & E')|(L' & E')]]].
           ++ now rewrite E'.
           ++ exfalso. eapply Hnotj; eauto.
           ++ apply nth_error_lt in Hk. lia.
           ++ apply nth_error_lt in Hk. lia.
        -- exists new. split; auto.
           pose proof (nth_error_app_last (upd_nth tbl j def') new) as E'.
           rewrite upd_nth_length in E'. exact E'.
      * intros (c' & Hk & Hr).
        destruct (lookup_upd_app tbl j def' new k Lj) as [(L' & N' & E')|[(-> & E')|[(-> & E')|(L' & E')]]];
          rewrite E' in Hk; [| | |discriminate].
        -- left. apply Hiff. exists c'; auto.
        -- injection Hk as <-. simpl in Hr. discriminate.
        -- right. now left.
  - injection Hn as <-. rewrite Hnew. split; auto. intros _. split; [exact Lj|].
    exists def'. split; [|reflexivity].
    rewrite nth_error_app1 by (rewrite upd_nth_length; exact Lj). now apply upd_nth_same.
Qed.

(* old entries keep the kind of their relation *)
Definition tbl_ext (tbl tbl' : list component) : Prop :=
  forall i c, nth_error tbl i = Some c -> exists c', nth_error tbl' i = Some c' /\ rel_kind c' = rel_kind c.

Lemma tbl_ext_push tbl new : tbl_ext tbl (tbl ++ [new]).
Proof.
  intros i c H. exists c. split; auto. rewrite nth_error_app1; auto. eapply nth_error_lt; eauto.
Qed.

Lemma tbl_ext_link tbl j def rf dis rf' new :
  nth_error tbl j = Some def -> c_rel def = RDef rf dis ->
  tbl_ext tbl (upd_nth tbl j (set_rel def (RDef rf' dis)) ++ [new]).
Proof.
  intros Hj Hdef i c H. assert (Li : i < length tbl) by (eapply nth_error_lt; eauto).
  rewrite nth_error_app1 by (rewrite upd_nth_length; exact Li).
  destruct (Nat.eq_dec i j) as [->|N].
  - rewrite upd_nth_same by exact Li. eexists. split; [reflexivity|].
    rewrite Hj in H. injection H as <-. unfold rel_kind. simpl. now rewrite Hdef.
  - rewrite upd_nth_other by exact N. exists c. now split.
Qed.

Lemma occ_ok_ext tbl tbl' o :
  tbl_ext tbl tbl' -> (forall i, o_item o = IIngredient i -> i < length tbl) ->
  occ_ok tbl o -> occ_ok tbl' o.
Proof.
  unfold occ_ok. intros X R H. destruct (o_item o) as [ | i | | | ]; auto.
  intros c' Hc'. specialize (R i eq_refl).
  destruct (nth_error tbl i) as [c|] eqn:E; [|apply nth_error_None in E; lia].
  destruct (X i c E) as (c'' & Hc'' & K). rewrite Hc' in Hc''. injection Hc'' as <-.
  rewrite K. now apply H.
Qed.

(* ------------------------------------------------------------------ validity of a table *)
Section Valid.
Variable ci_key : str -> str.

Lemma valid_tbl_push tbl new :
  valid_tbl ci_key tbl ->
  m_ref (c_mods new) = negb (is_definition (c_rel new)) ->
  (forall j, c_rel new <> RRef j TgComponent) ->
  valid_tbl ci_key (tbl ++ [new]).
Proof.
  intros H M R i c Hn. apply nth_error_app_cases in Hn as [[L Hn]|[-> ->]].
  - destruct (H i c Hn) as [A B]. split; auto. intros j Hr. destruct (B j Hr) as (d & Hd & K).
    exists d. split; auto. rewrite nth_error_app1; auto. eapply nth_error_lt; eauto.
  - split; auto. intros j Hr. exfalso. eapply R; eauto.
Qed.

Lemma valid_tbl_link tbl j def rf dis rf' new :
  valid_tbl ci_key tbl -> nth_error tbl j = Some def -> c_rel def = RDef rf dis ->
  c_rel new = RRef j TgComponent -> m_ref (c_mods new) = true ->
  ci_key (c_name new) = ci_key (c_name def) ->
  valid_tbl ci_key (upd_nth tbl j (set_rel def (RDef rf' dis)) ++ [new]).
Proof.
  intros H Hj Hdef Hnew M K.
  set (def' := set_rel def (RDef rf' dis)).
  assert (Lj : j < length tbl) by (eapply nth_error_lt; eauto).
  assert (Hdef' : nth_error (upd_nth tbl j def' ++ [new]) j = Some def').
  { rewrite nth_error_app1 by (rewrite upd_nth_length; exact Lj). now apply upd_nth_same. }
  intros i c Hn.
  destruct (lookup_upd_app tbl j def' new i Lj) as [(L & N & E)|[(-> & E)|[(-> & E)|(L & E)]]];
    rewrite E in Hn; [| | |discriminate].
  - destruct (H i c Hn) as [A B]. split; auto. intros j' Hr. destruct (B j' Hr) as (d & Hd & Kd).
    destruct (Nat.eq_dec j' j) as [->|Nj].
    + exists def'. split; auto. rewrite Hj in Hd. injection Hd as <-. exact Kd.
    + exists d. split; auto.
      rewrite nth_error_app1 by (rewrite upd_nth_length; eapply nth_error_lt; eauto).
      rewrite upd_nth_other; auto.
  - injection Hn as <-. destruct (H j def Hj) as [A _]. rewrite Hdef in A. split; [exact A|].
    intros j' Hr. simpl in Hr. discriminate.
  - injection Hn as <-. rewrite Hnew. split; [exact M|]. intros j' Hr. injection Hr as <-.
    exists def'. split; auto.
Qed.

(* ------------------------------------------------------------------ frame lemmas *)
Notation Inv := (Inv ci_key).

Lemma Inv_frame s s' :
  Inv s ->
  a_sections s' = a_sections s -> a_cur s' = a_cur s ->
  a_ingredients s' = a_ingredients s -> a_cookware s' = a_cookware s ->
  a_timers s' = a_timers s -> a_inline s' = a_inline s ->
  a_block s' = a_block s -> a_counter s' = a_counter s ->
  (a_errors s' = false -> a_errors s = false) ->
  Inv s'.
Proof.
  intros [Ho Hri Hrc Hrf Hs Hc Hn Hne Hb Ht Hv] E1 E2 E3 E4 E5 E6 E7 E8 E9.
  constructor; unfold state_occs, state_len in *; rewrite ?E1, ?E2, ?E3, ?E4, ?E5, ?E6, ?E7, ?E8; auto.
Qed.

Lemma Inv_add_error s e : Inv s -> Inv (add_error s e).
Proof.
  intro H. eapply Inv_frame; eauto. simpl. intro E. now apply orb_false_iff in E.
Qed.

Lemma Inv_set_modes s d u : Inv s -> Inv (set_modes s d u).
Proof. intro H. eapply Inv_frame; eauto. Qed.

Lemma Inv_set_halted s : Inv s -> Inv (set_halted s).
Proof. intro H. eapply Inv_frame; eauto. Qed.

(* replacing the block buffer by one without items *)
Lemma Inv_set_block_nil s b : Inv s -> block_items b = [] -> Inv (set_block s b).
Proof.
  intros [Ho Hri Hrc Hrf Hs Hc Hn Hne Hb Ht Hv] E.
  constructor; unfold state_occs, state_len in *; simpl; rewrite ?E; simpl; auto.
  - intro k. specialize (Ho k). rewrite map_app, indices_app in Ho. apply incr_below_prefix in Ho.
    now rewrite app_nil_r.
  - apply Forall_app in Hrf. rewrite app_nil_r. tauto.
Qed.

End Valid.

(* ------------------------------------------------------------------ sections and blocks *)
Lemma section_empty_content s : section_is_empty s = true -> sec_content s = [].
Proof. unfold section_is_empty. destruct (sec_name s), (sec_content s); auto; discriminate. Qed.

Lemma occs_pushed s :
  sections_occs 0 (pushed_sections s) = sections_occs 0 (a_sections s ++ [a_cur s]).
Proof.
  unfold pushed_sections. destruct (section_is_empty (a_cur s)) eqn:E; [|reflexivity].
  rewrite sections_occs_last, (section_empty_content _ E). simpl. now rewrite app_nil_r.
Qed.

Lemma step_numbers_app a b : step_numbers (a ++ b) = step_numbers a ++ step_numbers b.
Proof. induction a as [|[st|t] a IH]; simpl; auto. now rewrite IH. Qed.

Section Steps.
Variable ci_key : str -> str.
Notation Inv := (Inv ci_key).

Lemma Inv_section s name :
  Inv s -> a_block s = None ->
  Inv (set_sections s (pushed_sections s) {| sec_name := name; sec_content := [] |} 1).
Proof.
  intros [Ho Hri Hrc Hrf Hs Hc Hn Hne Hb Ht Hv] B.
  assert (E : state_occs (set_sections s (pushed_sections s) {| sec_name := name; sec_content := [] |} 1)
              = state_occs s).
  { unfold state_occs. simpl. rewrite B. simpl. rewrite sections_occs_last. simpl.
    now rewrite !app_nil_r, occs_pushed. }
  constructor.
  - rewrite E. exact Ho.
  - exact Hri.
  - exact Hrc.
  - rewrite E. exact Hrf.
  - simpl. unfold pushed_sections. destruct (section_is_empty (a_cur s)); auto.
    apply Forall_app. split; auto.
  - simpl. split; [reflexivity|constructor].
  - reflexivity.
  - simpl. unfold pushed_sections. destruct (section_is_empty (a_cur s)) eqn:X; auto.
    apply Forall_app. split; auto.
  - simpl. rewrite B. constructor.
  - exact Ht.
  - exact Hv.
Qed.

Definition pushed_state (s : astate) (c : content) : astate :=
  set_block (set_sections s (a_sections s)
               {| sec_name := sec_name (a_cur s); sec_content := sec_content (a_cur s) ++ [c] |}
               (if is_step c then S (a_counter s) else a_counter s)) None.

Lemma Inv_push_content s c :
  Inv s ->
  match c with
  | CStep st => a_block s = Some (BStep (st_items st)) /\ st_number st = a_counter s /\ st_items st <> []
  | CText t => block_items (a_block s) = [] /\ t <> []
  end ->
  Inv (pushed_state s c).
Proof.
  intros [Ho Hri Hrc Hrf Hs Hc Hn Hne Hb Ht Hv] P.
  assert (E : state_occs (pushed_state s c) = state_occs s).
  { unfold state_occs, pushed_state. simpl. rewrite !sections_occs_last. simpl.
    rewrite content_occs_app. simpl. rewrite !app_nil_r, <- app_assoc. f_equal. f_equal.
    destruct c as [st|t]; simpl.
    - destruct P as (B & _). now rewrite B.
    - destruct P as (B & _). now rewrite B. }
  constructor.
  - rewrite E. exact Ho.
  - exact Hri.
  - exact Hrc.
  - rewrite E. exact Hrf.
  - exact Hs.
  - destruct Hc as [Hnum Hcont]. simpl. split.
    + unfold numbered in *. simpl. rewrite step_numbers_app. destruct c as [st|t]; simpl.
      * destruct P as (_ & Num & _). rewrite app_length. simpl. rewrite Nat.add_1_r, seq_S.
        rewrite <- Hnum. f_equal. f_equal. rewrite Num, Hn. reflexivity.
      * now rewrite !app_nil_r.
    + apply Forall_app. split; auto. constructor; [|constructor].
      destruct c as [st|t]; simpl.
      * destruct P as (B & _ & NE). split; auto. rewrite B in Hb. exact Hb.
      * tauto.
  - simpl. rewrite step_numbers_app, app_length. destruct c as [st|t]; simpl; lia.
  - exact Hne.
  - simpl. constructor.
  - exact Ht.
  - exact Hv.
Qed.

End Steps.

(* ------------------------------------------------------------------ pushing an item *)
Lemma tbl_ext_refl tbl : tbl_ext tbl tbl.
Proof. intros i c H. exists c. now split. Qed.

Section Items.
Variable ci_key : str -> str.
Variable find_iq : str -> option (str * str).
Variable unit_class : str -> N.
Variable input : str.
Variable x : aext.
Notation Inv := (Inv ci_key).

Lemma Inv_push_item s s' items it :
  Inv s -> a_block s = Some (BStep items) ->
  a_sections s' = a_sections s -> a_cur s' = a_cur s -> a_counter s' = a_counter s ->
  a_block s' = Some (BStep (items ++ [it])) ->
  (forall k, match item_index k it with
             | Some i => i = state_len s k /\ state_len s' k = S (state_len s k)
             | None => state_len s k <= state_len s' k
             end) ->
  item_nonempty it ->
  rel_ok (a_ingredients s') -> rel_ok (a_cookware s') ->
  tbl_ext (a_ingredients s) (a_ingredients s') ->
  occ_ok (a_ingredients s') (mk_occ (length (a_sections s)) (sec_content (a_cur s)) it) ->
  Forall timer_ok (a_timers s') ->
  (a_errors s' = false -> valid_tbl ci_key (a_ingredients s') /\ valid_tbl ci_key (a_cookware s')) ->
  Inv s'.
Proof.
  intros [Ho Hri Hrc Hrf Hs Hc Hn Hne Hb Ht Hv] B E1 E2 E3 B' Hlen NE Ri Rc X O T V.
  assert (E : state_occs s' = state_occs s ++ [mk_occ (length (a_sections s)) (sec_content (a_cur s)) it]).
  { unfold state_occs. rewrite B', E1, E2, B. simpl. rewrite map_app. simpl. now rewrite app_assoc. }
  constructor; auto.
  - intro k. rewrite E, map_app, indices_app. simpl. specialize (Hlen k). specialize (Ho k).
    destruct (item_index k it) as [i|].
    + destruct Hlen as [-> Hl]. rewrite Hl. now apply incr_below_snoc.
    + rewrite app_nil_r. eapply incr_below_mono; eauto.
  - rewrite E. apply Forall_app. split; [|constructor; [exact O|constructor]].
    apply Forall_forall. intros o Hin. eapply occ_ok_ext; eauto.
    + intros i Ei. apply (incr_below_all _ _ _ (Ho KIng)).
      eapply In_indices; [apply in_map; exact Hin|]. rewrite Ei. reflexivity.
    + rewrite Forall_forall in Hrf. now apply Hrf.
  - now rewrite E1.
  - now rewrite E2.
  - now rewrite E3, E2.
  - now rewrite E1.
  - rewrite B'. simpl. apply Forall_app. split; [|constructor; [exact NE|constructor]].
    rewrite B in Hb. exact Hb.
Qed.

(* ---- specifications of the resolution functions ---- *)
Lemma step_indices_from_spec b l i :
  In i (step_indices_from b l) -> b <= i /\ exists st, nth_error l (i - b) = Some (CStep st).
Proof.
  revert b. induction l as [|c l IH]; simpl; intros b H; [contradiction|].
  apply in_app_iff in H as [H|H].
  - destruct c as [st|t]; simpl in H; [|contradiction]. destruct H as [<-|[]].
    split; [lia|]. rewrite Nat.sub_diag. simpl. eauto.
  - destruct (IH _ H) as (L & st & Hst). split; [lia|]. exists st.
    replace (i - b) with (S (i - S b)) by lia. exact Hst.
Qed.

Lemma step_indices_spec l i :
  In i (step_indices l) -> exists st, nth_error l i = Some (CStep st).
Proof.
  intro H. apply step_indices_from_spec in H as (_ & st & Hst). rewrite Nat.sub_0_r in Hst. eauto.
Qed.

Definition target_ok (s : astate) (c : component) : Prop :=
  match rel_kind c with
  | Some (j, TgStep) => exists st, nth_error (sec_content (a_cur s)) j = Some (CStep st)
  | Some (j, TgSection) => j < length (a_sections s)
  | _ => True
  end.

Lemma resolve_intermediate_ref_spec s d rel :
  resolve_intermediate_ref s d = Done (Some rel) ->
  exists j tg, rel = RRef j tg /\ tg <> TgComponent /\
    match tg with
    | TgStep => exists st, nth_error (sec_content (a_cur s)) j = Some (CStep st)
    | TgSection => j < length (a_sections s)
    | TgComponent => True
    end.
Proof.
  unfold resolve_intermediate_ref. destruct (ir_val d <? 0)%Z; [discriminate|].
  destruct (Z.to_nat (ir_val d)) as [|v1] eqn:V; [discriminate|].
  destruct (ir_kind d), (ir_mode d).
  - destruct (nth_error (step_indices (sec_content (a_cur s))) v1) as [i|] eqn:E; [|discriminate].
    intro H. injection H as <-. exists i, TgStep. repeat split; [discriminate|].
    apply step_indices_spec. eapply nth_error_In; eauto.
  - destruct (nth_error (rev (step_indices (sec_content (a_cur s)))) v1) as [i|] eqn:E; [|discriminate].
    intro H. injection H as <-. exists i, TgStep. repeat split; [discriminate|].
    apply step_indices_spec. apply in_rev. eapply nth_error_In; eauto.
  - destruct (length (a_sections s) <=? v1) eqn:E; [discriminate|].
    intro H. injection H as <-. exists v1, TgSection. repeat split; [discriminate|].
    apply Nat.leb_gt in E. exact E.
  - destruct (length (a_sections s) <? S v1) eqn:E; [discriminate|].
    intro H. injection H as <-. eexists _, TgSection. repeat split; [discriminate|].
    apply Nat.ltb_ge in E. lia.
Qed.

Lemma same_name_spec tbl name j :
  same_name ci_key tbl name = Some j ->
  exists o, nth_error tbl j = Some o /\ m_ref (c_mods o) = false /\ ci_key name = ci_key (c_name o).
Proof.
  unfold same_name. intro H. apply rposition_some in H as (o & Ho & P).
  apply andb_true_iff in P as [P1 P2]. exists o. repeat split; auto.
  - now apply negb_true_iff in P1.
  - now apply str_eqb_eq.
Qed.

Lemma resolve_reference_spec s tbl inh new r :
  resolve_reference ci_key s tbl inh new = Done r ->
  match rs_target r with
  | None => rs_new r = new /\ (rs_err r = false -> m_ref (c_mods new) = false)
  | Some (j, _) =>
      exists o, nth_error tbl j = Some o /\ m_ref (c_mods o) = false /\
        ci_key (c_name new) = ci_key (c_name o) /\
        c_rel (rs_new r) = RRef j TgComponent /\ m_ref (c_mods (rs_new r)) = true /\
        c_name (rs_new r) = c_name new /\ c_qty (rs_new r) = c_qty new
  end.
Proof.
  unfold resolve_reference.
  destruct (m_new (c_mods new) && m_ref (c_mods new)) eqn:E1.
  { intro H. injection H as <-. simpl. split; auto. discriminate. }
  destruct (m_new (c_mods new)) eqn:E2.
  { intro H. injection H as <-. simpl. split; [reflexivity|intros _; exact E1]. }
  destruct (negb _) eqn:E3.
  { intro H. injection H as <-. simpl. split; [reflexivity|]. intros _.
    apply negb_true_iff in E3. apply orb_false_iff in E3 as [E3 _]. apply orb_false_iff in E3 as [E3 _]. exact E3. }
  destruct (same_name ci_key tbl (c_name new)) as [j|] eqn:E4.
  - destruct (same_name_spec _ _ _ E4) as (o & Ho & Mo & K). rewrite Ho, Mo.
    intro H. injection H as <-. simpl. exists o. repeat split; auto.
    apply orb_true_r.
  - intro H. injection H as <-. simpl. split; auto. discriminate.
Qed.

Lemma link_reference_spec tbl new j hn ul tbl' e :
  link_reference tbl new j hn ul = Done (tbl', e) ->
  exists def rf dis, nth_error tbl j = Some def /\ c_rel def = RDef rf dis /\
    tbl' = upd_nth tbl j (set_rel def (RDef (rf ++ [length tbl]) dis)).
Proof.
  unfold link_reference. destruct (nth_error tbl j) as [def|]; [|discriminate].
  destruct (c_rel def) as [rf dis|] eqn:E; [|discriminate].
  destruct (ul && is_some (c_qty new) && negb (forallb (fun k => k <? length tbl) rf));
    [discriminate|]. intro H. inversion H; subst.
  exists def, rf, dis. auto.
Qed.

(* what pushing one component does to its table *)
Definition tbl_step (tbl tbl' : list component) (err : bool) : Prop :=
  length tbl' = S (length tbl) /\ rel_ok tbl' /\ tbl_ext tbl tbl' /\
  (valid_tbl ci_key tbl -> err = false -> valid_tbl ci_key tbl').

Lemma tbl_step_plain tbl new err :
  rel_ok tbl -> fresh_rel new ->
  (err = false -> m_ref (c_mods new) = negb (is_definition (c_rel new))) ->
  tbl_step tbl (tbl ++ [new]) err.
Proof.
  intros R F M. split; [|split; [|split]].
  - rewrite app_length. simpl. lia.
  - now apply rel_ok_push.
  - apply tbl_ext_push.
  - intros V E. apply valid_tbl_push; auto. intros j Hr. unfold fresh_rel in F. rewrite Hr in F.
    destruct F as [_ F]. congruence.
Qed.

(* resolve_reference followed by the back link: common to ingredients and cookware *)
Lemma tbl_step_resolved s tbl inh new d r :
  rel_ok tbl -> c_rel new = RDef [] d ->
  resolve_reference ci_key s tbl inh new = Done r ->
  match rs_target r with
  | Some (j, _) =>
      forall hn ul tbl' e, link_reference tbl (rs_new r) j hn ul = Done (tbl', e) ->
        tbl_step tbl (tbl' ++ [rs_new r]) (rs_err r || e) /\
        rel_kind (rs_new r) = Some (j, TgComponent)
  | None => tbl_step tbl (tbl ++ [rs_new r]) (rs_err r) /\ rel_kind (rs_new r) = None
  end.
Proof.
  intros R D H. apply resolve_reference_spec in H.
  destruct (rs_target r) as [[j imp]|].
  - destruct H as (o & Ho & Mo & K & Hrel & Hm & Hname & _).
    intros hn ul tbl' e L. apply link_reference_spec in L as (def & rf & dis & Hd & Hdr & ->).
    rewrite Ho in Hd. injection Hd as <-. split.
    + split; [|split; [|split]].
      * rewrite app_length, upd_nth_length. simpl. lia.
      * eapply rel_ok_link; eauto.
      * eapply tbl_ext_link; eauto.
      * intros V _. eapply valid_tbl_link; eauto. now rewrite Hname.
    + unfold rel_kind. now rewrite Hrel.
  - destruct H as [-> M]. split.
    + apply tbl_step_plain; auto.
      * unfold fresh_rel. now rewrite D.
      * intro E. rewrite D. simpl. auto.
    + unfold rel_kind. now rewrite D.
Qed.

Lemma Inv_push_ingredient s items tbl' e :
  Inv s -> a_block s = Some (BStep items) ->
  tbl_step (a_ingredients s) tbl' e ->
  (forall c, nth_error tbl' (length (a_ingredients s)) = Some c -> target_ok s c) ->
  Inv (set_block (add_error (set_ingredients s tbl') e)
         (Some (BStep (items ++ [IIngredient (length (a_ingredients s))])))).
Proof.
  intros I B (L & R & X & V) T. pose proof I as [Ho Hri Hrc Hrf Hs Hc Hn Hne Hb Ht Hv].
  apply (Inv_push_item s _ items (IIngredient (length (a_ingredients s)))); try reflexivity; try exact I; auto.
  - intros [ | | | ]; simpl; auto.
  - simpl. intro E. apply orb_false_iff in E as [E1 E2]. destruct (Hv E1). split; auto.
Qed.

Lemma Inv_push_cookware s items tbl' e :
  Inv s -> a_block s = Some (BStep items) ->
  tbl_step (a_cookware s) tbl' e ->
  Inv (set_block (add_error (set_cookware s tbl') e)
         (Some (BStep (items ++ [ICookware (length (a_cookware s))])))).
Proof.
  intros I B (L & R & X & V). pose proof I as [Ho Hri Hrc Hrf Hs Hc Hn Hne Hb Ht Hv].
  apply (Inv_push_item s _ items (ICookware (length (a_cookware s)))); try reflexivity; try exact I;
    try apply tbl_ext_refl; auto.
  - intros [ | | | ]; simpl; auto.
  - simpl. intro E. apply orb_false_iff in E as [E1 E2]. destruct (Hv E1). split; auto.
Qed.

Lemma ingredient_inv s ig s1 i items :
  Inv s -> a_block s = Some (BStep items) ->
  ingredient ci_key x s ig = Done (s1, i) ->
  Inv (set_block s1 (Some (BStep (items ++ [IIngredient i])))).
Proof.
  intros I B. pose proof I as [Ho Hri Hrc Hrf Hs Hc Hn Hne Hb Ht Hv].
  unfold ingredient.
  set (new := {| c_name := _; c_alias := _; c_qty := _; c_note := _; c_rref := _; c_mods := _; c_rel := _ |}).
  destruct (pi_inter ig) as [d|].
  - destruct (negb (m_ref (c_mods new))) eqn:M; [discriminate|]. apply negb_false_iff in M.
    destruct (resolve_intermediate_ref s d) as [[rel|]|] eqn:E; simpl; [| |discriminate].
    + intro H. injection H as <- <-.
      apply resolve_intermediate_ref_spec in E as (j & tg & -> & Ntg & T).
      apply Inv_push_ingredient; auto.
      * apply tbl_step_plain; auto; try (intros _; simpl; exact M).
        unfold fresh_rel. simpl. auto.
      * intros c Hc'. rewrite nth_error_app_last in Hc'. injection Hc' as <-.
        unfold target_ok, rel_kind. simpl. destruct tg; auto.
    + intro H. injection H as <- <-.
      apply Inv_push_ingredient; auto.
      * apply tbl_step_plain; auto; try (rewrite orb_true_r; discriminate).
        unfold fresh_rel. simpl. auto.
      * intros c Hc'. rewrite nth_error_app_last in Hc'. injection Hc' as <-.
        unfold target_ok, rel_kind. simpl. auto.
  - destruct (resolve_reference ci_key s (a_ingredients s) inherit_ingredient new) as [r|] eqn:E;
      simpl; [|discriminate].
    assert (D : c_rel new = RDef [] (negb (dm_eqb (a_define s) DMComponents))) by reflexivity.
    pose proof (tbl_step_resolved _ _ _ _ _ _ Hri D E) as T.
    destruct (rs_target r) as [[j imp]|].
    + destruct (link_reference _ _ _ _ _) as [[tbl' e]|] eqn:L; simpl; [|discriminate].
      intro H. injection H as <- <-. destruct (T _ _ _ _ L) as [T1 T2].
      apply Inv_push_ingredient; auto.
      intros c Hc'. destruct T1 as (Len & _).
      assert (Hl : length tbl' = length (a_ingredients s)) by (rewrite app_length in Len; simpl in Len; lia).
      rewrite <- Hl, nth_error_app_last in Hc'. injection Hc' as <-.
      unfold target_ok. now rewrite T2.
    + intro H. injection H as <- <-. destruct T as [T1 T2].
      apply Inv_push_ingredient; auto.
      intros c Hc'. rewrite nth_error_app_last in Hc'. injection Hc' as <-.
      unfold target_ok. now rewrite T2.
Qed.

Lemma cookware_inv s cw s1 i items :
  Inv s -> a_block s = Some (BStep items) ->
  cookware ci_key s cw = Done (s1, i) ->
  Inv (set_block s1 (Some (BStep (items ++ [ICookware i])))).
Proof.
  intros I B. pose proof I as [Ho Hri Hrc Hrf Hs Hc Hn Hne Hb Ht Hv].
  unfold cookware.
  set (new := {| c_name := _; c_alias := _; c_qty := _; c_note := _; c_rref := _; c_mods := _; c_rel := _ |}).
  destruct (resolve_reference ci_key s (a_cookware s) inherit_cookware new) as [r|] eqn:E;
    simpl; [|discriminate].
  assert (D : c_rel new = RDef [] (negb (dm_eqb (a_define s) DMComponents))) by reflexivity.
  pose proof (tbl_step_resolved _ _ _ _ _ _ Hrc D E) as T.
  destruct (rs_target r) as [[j imp]|].
  - destruct (link_reference _ _ _ _ _) as [[tbl' e]|] eqn:L; simpl; [|discriminate].
    intro H. injection H as <- <-. destruct (T _ _ _ _ L) as [T1 T2].
    apply Inv_push_cookware; auto.
  - intro H. injection H as <- <-. destruct T as [T1 T2].
    apply Inv_push_cookware; auto.
Qed.

(* ---- timers, text items, inline quantities ---- *)
Lemma timer_inv s t s1 i items :
  Inv s -> a_block s = Some (BStep items) ->
  item_event_ok (ETimer t) = true ->
  timer unit_class x s t = (s1, i) ->
  Inv (set_block s1 (Some (BStep (items ++ [ITimer i])))).
Proof.
  intros I B Ok. pose proof I as [Ho Hri Hrc Hrf Hs Hc Hn Hne Hb Ht Hv].
  unfold timer.
  set (err := match option_map (quantity_info false) (pt_quantity t) with Some _ => _ | None => _ end).
  clearbody err. intro H. injection H as <- <-.
  apply (Inv_push_item s _ items (ITimer (length (a_timers s)))); try reflexivity; try exact I; auto.
  - intros [ | | | ]; cbn; auto. rewrite app_length. cbn. split; [reflexivity|lia].
  - apply tbl_ext_refl.
  - cbn. apply Forall_app. split; [exact Ht|]. constructor; [|constructor].
    unfold timer_ok. cbn. cbn in Ok. destruct (pt_name t), (pt_quantity t); cbn in *;
      try discriminate; try (left; discriminate); right; discriminate.
  - cbn. intro E. apply orb_false_iff in E as [E1 E2]. exact (Hv E1).
Qed.

Lemma text_item_inv s items tx :
  Inv s -> a_block s = Some (BStep items) -> tx <> [] ->
  Inv (set_block s (Some (BStep (items ++ [IText tx])))).
Proof.
  intros I B NE. pose proof I as [Ho Hri Hrc Hrf Hs Hc Hn Hne Hb Ht Hv].
  apply (Inv_push_item s _ items (IText tx)); try reflexivity; try exact I; auto.
  - intros [ | | | ]; cbn; auto.
  - apply tbl_ext_refl.
Qed.

Lemma inline_item_inv s items :
  Inv s -> a_block s = Some (BStep items) ->
  Inv (set_block (set_inline s (S (a_inline s))) (Some (BStep (items ++ [IInline (a_inline s)])))).
Proof.
  intros I B. pose proof I as [Ho Hri Hrc Hrf Hs Hc Hn Hne Hb Ht Hv].
  apply (Inv_push_item s _ items (IInline (a_inline s))); try reflexivity; try exact I; auto.
  - intros [ | | | ]; cbn; auto.
  - apply tbl_ext_refl.
Qed.

Lemma is_nil_false {A} (l : list A) : is_nil l = false -> l <> [].
Proof. destruct l; [discriminate|]. intros _. discriminate. Qed.

Lemma split_iq_inv fuel : forall hay items n items' n' s,
  Inv (set_block (set_inline s n) (Some (BStep items))) ->
  split_iq find_iq fuel hay items n = Done (items', n') ->
  Inv (set_block (set_inline s n') (Some (BStep items'))).
Proof.
  induction fuel as [|f IH]; intros hay items n items' n' s I; cbn [split_iq].
  - destruct (find_iq hay) as [[before after]|]; [discriminate|].
    intro H. injection H as <- <-.
    destruct (is_nil hay) eqn:E; [exact I|].
    exact (text_item_inv _ items hay I eq_refl (is_nil_false _ E)).
  - destruct (find_iq hay) as [[before after]|].
    + apply IH.
      assert (I1 : Inv (set_block (set_inline s n)
                          (Some (BStep (if is_nil before then items else items ++ [IText before]))))).
      { destruct (is_nil before) eqn:E; [exact I|].
        exact (text_item_inv _ items before I eq_refl (is_nil_false _ E)). }
      exact (inline_item_inv _ _ I1 eq_refl).
    + intro H. injection H as <- <-.
      destruct (is_nil hay) eqn:E; [exact I|].
      exact (text_item_inv _ items hay I eq_refl (is_nil_false _ E)).
Qed.

Lemma in_step_inv s e items s' :
  Inv s -> a_block s = Some (BStep items) -> item_event_ok e = true ->
  in_step ci_key find_iq unit_class x s e items = Done s' -> Inv s'.
Proof.
  intros I B Ok. destruct e; cbn [in_step]; try discriminate.
  - destruct (dm_eqb (a_define s) DMComponents); [intro H; injection H as <-; exact I|].
    destruct (x_inline x).
    + destruct (split_iq _ _ _ _ _) as [[items' n']|] eqn:E; cbn [obind]; [|discriminate].
      intro H. injection H as <-. eapply split_iq_inv; [|exact E].
      eapply Inv_frame; eauto.
    + intro H. injection H as <-. apply text_item_inv; auto.
      cbn in Ok. apply is_nil_false. now apply negb_true_iff in Ok.
  - destruct (ingredient ci_key x s i) as [[s1 k]|] eqn:E; cbn [obind]; [|discriminate].
    intro H. injection H as <-. eapply ingredient_inv; eauto.
  - destruct (cookware ci_key s c) as [[s1 k]|] eqn:E; cbn [obind]; [|discriminate].
    intro H. injection H as <-. eapply cookware_inv; eauto.
  - destruct (timer unit_class x s t) as [s1 k] eqn:E.
    intro H. injection H as <-. eapply timer_inv; eauto.
Qed.

Lemma in_text_inv c s e tx s' :
  Inv s -> in_text input c s e tx = Done s' -> Inv s'.
Proof.
  intros I. unfold in_text.
  assert (C : forall sp,
    (if negb (dm_eqb (a_define s) DMText) then Panic site_nontext_in_text
     else match byte_slice input sp with
          | Some sl => Done (set_block s (Some (BText (tx ++ comp_src c sl))))
          | None => Panic site_in_text_slice
          end) = Done s' -> Inv s').
  { intro sp. destruct (negb _); [discriminate|]. destruct (byte_slice input sp); [|discriminate].
    intro H. injection H as <-. now apply Inv_set_block_nil. }
  destruct e; try discriminate; try apply C.
  intro H. injection H as <-. now apply Inv_set_block_nil.
Qed.

(* ---- the End event ---- *)
Variable cfg : acfg.
Variable yaml_ok : str -> bool.
Hypothesis cfg_text : skip_empty_text cfg = true.
Hypothesis cfg_step : skip_empty_step cfg = true.

Lemma finish_block_inv s c s' :
  Inv s ->
  match c with
  | CStep st => a_block s = Some (BStep (st_items st)) /\ st_number st = a_counter s
  | CText t => block_items (a_block s) = []
  end ->
  finish_block cfg s c = Done s' -> Inv s' /\ a_block s' = None.
Proof.
  intros I P. unfold finish_block.
  destruct (negb (skipped cfg c) && _) eqn:G.
  - apply andb_true_iff in G as [G _]. apply negb_true_iff in G.
    assert (Ipush : Inv (pushed_state s c)).
    { apply Inv_push_content; [exact I|]. destruct c as [st|t]; cbn in G.
      - rewrite cfg_step in G. cbn in G. destruct P. repeat split; auto. now apply is_nil_false.
      - rewrite cfg_text in G. cbn in G. split; auto. now apply is_nil_false. }
    destruct c as [st|t]; cbn [is_step].
    + destruct (_ <=? _)%N; [discriminate|]. intro H. injection H as <-. split; [exact Ipush|reflexivity].
    + intro H. injection H as <-. split; [exact Ipush|reflexivity].
  - intro H. injection H as <-. split; [|reflexivity]. now apply Inv_set_block_nil.
Qed.

Lemma end_block_inv s k s' :
  Inv s -> end_block cfg s k = Done s' -> Inv s' /\ a_block s' = None.
Proof.
  intros I. unfold end_block. destruct (a_block s) as [[items|t]|] eqn:B; [| |discriminate].
  - destruct (block_kind_eqb k BKStep); [|discriminate].
    apply finish_block_inv; auto.
  - destruct (_ || _); [|discriminate].
    apply finish_block_inv; auto. cbn. now rewrite B.
Qed.

(* ---- the shape of the stream and the block buffer ---- *)
Definition linked (p : pstate) (s : astate) : Prop :=
  a_halted s = true \/ (p = POut -> a_block s = None).

Lemma metadata_block s k v : a_block (metadata x s k v) = a_block s.
Proof.
  unfold metadata.
  repeat match goal with |- context [if ?b then _ else _] => destruct b end; reflexivity.
Qed.

Lemma metadata_inv s k v : Inv s -> Inv (metadata x s k v).
Proof.
  intro I. unfold metadata.
  repeat match goal with |- context [if ?b then _ else _] => destruct b end;
    auto using Inv_add_error, Inv_set_modes.
Qed.

Theorem step_inv p s e p' s' :
  Inv s -> linked p s -> shape_step p e = Some p' ->
  step ci_key yaml_ok find_iq unit_class input x cfg s e = Done s' ->
  Inv s' /\ linked p' s'.
Proof.
  intros I L Sh. unfold step. destruct (a_halted s) eqn:Hh.
  { intro H. injection H as <-. split; [exact I|]. left. exact Hh. }
  destruct L as [L|L]; [congruence|].
  destruct e; cbn [shape_step] in Sh.
  - (* EYaml *) destruct p; [|discriminate]. injection Sh as <-.
    intro H. injection H as <-. split; [now apply Inv_add_error|]. right. intros _. now apply L.
  - (* EMetadata *) destruct p; [|discriminate]. injection Sh as <-.
    intro H. injection H as <-. split; [now apply metadata_inv|]. right. intros _.
    rewrite metadata_block. now apply L.
  - (* ESection *) destruct p; [|discriminate]. injection Sh as <-.
    intro H. injection H as <-. split; [apply Inv_section; auto|]. right. intros _. cbn. now apply L.
  - (* EStart *) destruct p; [|discriminate]. injection Sh as <-.
    intro H. injection H as <-. split; [|right; discriminate].
    apply Inv_set_block_nil; auto. destruct (dm_eqb _ _); [reflexivity|]. destruct k; reflexivity.
  - (* EEnd *) destruct p as [|k']; [discriminate|]. destruct (block_kind_eqb k k'); [|discriminate].
    injection Sh as <-. intro H. apply end_block_inv in H; auto. destruct H as [I' B']. split; auto.
    right. intros _. exact B'.
  - (* EText *) destruct p as [|k']; [discriminate|].
    destruct (item_event_ok (EText t)) eqn:Ok; [|discriminate]. injection Sh as <-.
    destruct (a_block s) as [[items|tx]|] eqn:B; [| |discriminate]; intro H.
    + split; [eapply in_step_inv; eauto|right; discriminate].
    + split; [eapply in_text_inv; eauto|right; discriminate].
  - (* EIngredient *) destruct p as [|[|]]; try discriminate.
    destruct (item_event_ok (EIngredient i)) eqn:Ok; [|discriminate]. injection Sh as <-.
    destruct (a_block s) as [[items|tx]|] eqn:B; [| |discriminate]; intro H.
    + split; [eapply in_step_inv; eauto|right; discriminate].
    + split; [eapply in_text_inv; eauto|right; discriminate].
  - (* ECookware *) destruct p as [|[|]]; try discriminate.
    destruct (item_event_ok (ECookware c)) eqn:Ok; [|discriminate]. injection Sh as <-.
    destruct (a_block s) as [[items|tx]|] eqn:B; [| |discriminate]; intro H.
    + split; [eapply in_step_inv; eauto|right; discriminate].
    + split; [eapply in_text_inv; eauto|right; discriminate].
  - (* ETimer *) destruct p as [|[|]]; try discriminate.
    destruct (item_event_ok (ETimer t)) eqn:Ok; [|discriminate]. injection Sh as <-.
    destruct (a_block s) as [[items|tx]|] eqn:B; [| |discriminate]; intro H.
    + split; [eapply in_step_inv; eauto|right; discriminate].
    + split; [eapply in_text_inv; eauto|right; discriminate].
  - (* EError *) injection Sh as <-. intro H. injection H as <-. split; [now apply Inv_set_halted|].
    left. reflexivity.
  - (* EWarning *) injection Sh as <-. intro H. injection H as <-. split; [exact I|right; exact L].
Qed.

Lemma run_inv evs : forall p s p' s',
  Inv s -> linked p s -> shape_run p evs = Some p' ->
  run ci_key yaml_ok find_iq unit_class input x cfg s evs = Done s' ->
  Inv s' /\ linked p' s'.
Proof.
  induction evs as [|e r IH]; intros p s p' s' I L; cbn [shape_run run].
  - intros H1 H2. injection H1 as <-. injection H2 as <-. now split.
  - destruct (shape_step p e) as [p1|] eqn:Sh; [|discriminate].
    destruct (step _ _ _ _ _ _ _ s e) as [s1|] eqn:St; cbn [obind]; [|discriminate].
    destruct (step_inv _ _ _ _ _ I L Sh St) as [I1 L1]. now apply IH.
Qed.

End Items.

(* ------------------------------------------------------------------ the recipe that is returned *)
Lemma rel_ok_nil : rel_ok [].
Proof. intros [|i] c H; discriminate. Qed.

Section Main.
Variable ci_key : str -> str.
Variable yaml_ok : str -> bool.
Variable find_iq : str -> option (str * str).
Variable unit_class : str -> N.
Variable input : str.
Variable x : aext.
Notation Inv := (Inv ci_key).

Lemma Inv_init : Inv init.
Proof.
  constructor; cbn; try (exact rel_ok_nil); try (constructor; fail); try reflexivity.
  - split; [reflexivity|constructor].
  - intros _. split; intros [|i] c H; discriminate.
Qed.

Lemma linked_init : linked POut init.
Proof. right. reflexivity. Qed.

Theorem reachable_inv cfg evs s :
  skip_empty_text cfg = true -> skip_empty_step cfg = true ->
  parser_shaped_prefix evs ->
  run ci_key yaml_ok find_iq unit_class input x cfg init evs = Done s -> Inv s.
Proof.
  intros C1 C2 [p Sh] R.
  exact (proj1 (run_inv ci_key find_iq unit_class input x cfg yaml_ok C1 C2 evs POut init p s
                  Inv_init linked_init Sh R)).
Qed.

Lemma Inv_output s r :
  Inv s -> output s = Some r ->
  recipe_ok r /\ (a_errors s = false -> recipe_valid_ok ci_key r).
Proof.
  intros [Ho Hri Hrc Hrf Hs Hc Hn Hne Hb Ht Hv]. unfold output.
  destruct (a_halted s); [discriminate|]. intro H. injection H as <-.
  split; [constructor; cbn|exact Hv]; auto.
  - intro k. rewrite occs_pushed. specialize (Ho k). unfold state_occs in Ho.
    rewrite map_app, indices_app in Ho. apply incr_below_prefix in Ho.
    destruct k; exact Ho.
  - rewrite occs_pushed. unfold state_occs in Hrf. apply Forall_app in Hrf. tauto.
  - unfold pushed_sections. destruct (section_is_empty (a_cur s)); auto.
    apply Forall_app. split; auto.
  - unfold pushed_sections. destruct (section_is_empty (a_cur s)) eqn:E; auto.
    apply Forall_app. split; auto.
Qed.

Theorem analyse_ok cfg evs r v :
  skip_empty_text cfg = true -> skip_empty_step cfg = true ->
  parser_shaped_prefix evs ->
  analyse ci_key yaml_ok find_iq unit_class input x cfg evs = Done (Some r, v) ->
  recipe_ok r /\ (v = true -> recipe_valid_ok ci_key r).
Proof.
  intros C1 C2 Sh. unfold analyse.
  destruct (run _ _ _ _ _ _ _ init evs) as [s|] eqn:R; cbn [obind]; [|discriminate].
  intro H. injection H as Ho <-.
  pose proof (reachable_inv cfg evs s C1 C2 Sh R) as I.
  destruct (Inv_output s r I Ho) as [A B]. split; [exact A|].
  unfold is_valid. intro V. apply andb_true_iff in V as [_ V]. apply negb_true_iff in V. auto.
Qed.

(* ---- the behaviour before the repair c9128f1: empty content was pushed ---- *)
Definition ev_blank_text_block : list event := [EStart BKText; EEnd BKText].      (* ">" *)
Definition ev_lone_escape : list event := [EStart BKStep; EEnd BKStep].           (* "\" *)

Lemma recipe_ok_no_empty r sec c :
  recipe_ok r -> In sec (r_sections r) -> In c (sec_content sec) -> content_is_empty c = false.
Proof.
  intros [_ _ _ _ Hs _ _] H1 H2. rewrite Forall_forall in Hs. destruct (Hs sec H1) as [_ Hc].
  rewrite Forall_forall in Hc. specialize (Hc c H2). destruct c as [st|t]; cbn in *.
  - destruct Hc as [Hc _]. destruct (st_items st); [congruence|reflexivity].
  - destruct t; [congruence|reflexivity].
Qed.

Theorem no_empty_refuted_before_fix :
  (exists r, parser_shaped ev_blank_text_block /\
     analyse ci_key yaml_ok find_iq unit_class input x cfg0 ev_blank_text_block = Done (Some r, true) /\
     ~ recipe_ok r) /\
  (exists r, parser_shaped ev_lone_escape /\
     analyse ci_key yaml_ok find_iq unit_class input x cfg0 ev_lone_escape = Done (Some r, true) /\
     ~ recipe_ok r).
Proof.
  split; eexists; (split; [reflexivity|split; [vm_compute; reflexivity|]]); intro H.
  - assert (E := recipe_ok_no_empty _ {| sec_name := None; sec_content := [CText []] |} (CText []) H).
    cbn in E. assert (true = false) by (apply E; left; reflexivity). discriminate.
  - assert (E := recipe_ok_no_empty _ {| sec_name := None;
                    sec_content := [CStep {| st_items := []; st_number := 1 |}] |}
                    (CStep {| st_items := []; st_number := 1 |}) H).
    cbn in E. assert (true = false) by (apply E; left; reflexivity). discriminate.
Qed.

(* with the repair the same streams give a recipe without sections *)
Example fixed_witnesses :
  analyse ci_key yaml_ok find_iq unit_class input x cfgF ev_blank_text_block
    = Done (Some {| r_sections := []; r_ingredients := []; r_cookware := []; r_timers := []; r_inline := 0 |}, true) /\
  analyse ci_key yaml_ok find_iq unit_class input x cfgF ev_lone_escape
    = Done (Some {| r_sections := []; r_ingredients := []; r_cookware := []; r_timers := []; r_inline := 0 |}, true).
Proof. split; vm_compute; reflexivity. Qed.

End Main.

(* ------------------------------------------------------------------ blind indexing *)
Lemma nth_error_firstn_some {A} (l : list A) n j a :
  nth_error (firstn n l) j = Some a -> j < n /\ nth_error l j = Some a.
Proof.
  revert n j. induction l as [|y l IH]; intros [|n] [|j]; cbn; try discriminate.
  - intro H. split; [lia|exact H].
  - intro H. apply IH in H as [H1 H2]. split; [lia|exact H2].
Qed.

Lemma content_occs_intro si prev rest ci st it :
  nth_error rest ci = Some (CStep st) -> In it (st_items st) ->
  In (mk_occ si (prev ++ firstn ci rest) it) (content_occs si prev rest).
Proof.
  revert prev ci. induction rest as [|c rest IH]; intros prev [|ci]; cbn [nth_error]; try discriminate.
  - intro H. injection H as ->. intro Hin. cbn. rewrite app_nil_r. apply in_or_app. left.
    apply in_map. exact Hin.
  - intros H Hin. cbn [content_occs firstn]. apply in_or_app. right.
    replace (prev ++ c :: firstn ci rest) with ((prev ++ [c]) ++ firstn ci rest)
      by (rewrite <- app_assoc; reflexivity).
    now apply IH.
Qed.

Lemma sections_occs_intro b secs si sec ci st it :
  nth_error secs si = Some sec -> nth_error (sec_content sec) ci = Some (CStep st) ->
  In it (st_items st) ->
  In (mk_occ (b + si) (firstn ci (sec_content sec)) it) (sections_occs b secs).
Proof.
  revert b si. induction secs as [|s secs IH]; intros b [|si]; cbn [nth_error]; try discriminate.
  - intro H. injection H as ->. intros H1 H2. cbn. apply in_or_app. left. rewrite Nat.add_0_r.
    exact (content_occs_intro b [] _ ci st it H1 H2).
  - intros H H1 H2. cbn. apply in_or_app. right.
    replace (b + S si) with (S b + si) by lia. now apply IH.
Qed.

(* what a consumer that indexes without checking may rely on, per component table *)
Definition rel_blind (tbl : list component) (i : nat) (c : component) : Prop :=
  match c_rel c with
  | RRef j TgComponent =>
      j < i /\ exists d, nth_error tbl j = Some d /\ is_definition (c_rel d) = true
  | RDef rf _ =>
      forall k, In k rf -> i < k /\ exists c', nth_error tbl k = Some c' /\ c_rel c' = RRef i TgComponent
  | _ => True
  end.

Lemma rel_ok_blind tbl i c : rel_ok tbl -> nth_error tbl i = Some c -> rel_blind tbl i c.
Proof.
  intros R H. pose proof (R i c H) as Hc. unfold rel_blind. destruct (c_rel c) as [rf d|j tg].
  - destruct Hc as [_ Hiff]. intros k Hk. apply Hiff in Hk as (c' & Hk & Hr).
    split; [|eauto]. pose proof (R k c' Hk) as Hc'. rewrite Hr in Hc'. destruct Hc' as [_ Hc'].
    now destruct (Hc' eq_refl).
  - destruct tg; auto. destruct Hc as [_ Hc]. now apply Hc.
Qed.

Definition blind_indexing_ok (r : recipe) : Prop :=
  forall si sec ci st it,
    nth_error (r_sections r) si = Some sec ->
    nth_error (sec_content sec) ci = Some (CStep st) ->
    In it (st_items st) ->
    match it with
    | IText _ => True
    | IIngredient i =>
        exists c, nth_error (r_ingredients r) i = Some c /\ rel_blind (r_ingredients r) i c /\
          match c_rel c with
          | RRef j TgStep => j < ci /\ exists st', nth_error (sec_content sec) j = Some (CStep st')
          | RRef j TgSection => j < si /\ exists sec', nth_error (r_sections r) j = Some sec'
          | _ => True
          end
    | ICookware i => exists c, nth_error (r_cookware r) i = Some c /\ rel_blind (r_cookware r) i c
    | ITimer i => exists t, nth_error (r_timers r) i = Some t
    | IInline i => i < r_inline r
    end.

Lemma nth_error_exists {A} (l : list A) i : i < length l -> exists a, nth_error l i = Some a.
Proof.
  intro H. destruct (nth_error l i) as [a|] eqn:E; [eauto|]. apply nth_error_None in E. lia.
Qed.

Theorem blind_indexing r : recipe_ok r -> blind_indexing_ok r.
Proof.
  intros [Ho Hri Hrc Hrf Hs Hne Ht] si sec ci st it H1 H2 H3.
  pose proof (sections_occs_intro 0 _ _ _ _ _ _ H1 H2 H3) as Hin. cbn [Nat.add] in Hin.
  assert (Hidx : forall k i, item_index k it = Some i -> i < table_len r k).
  { intros k i E. apply (incr_below_all _ _ _ (Ho k)).
    eapply In_indices; [|exact E]. apply (in_map o_item) in Hin. exact Hin. }
  destruct it as [tx|i|i|i|i]; auto.
  - specialize (Hidx KIng i eq_refl). cbn in Hidx.
    destruct (nth_error_exists _ _ Hidx) as [c Hc]. exists c. split; [exact Hc|].
    split; [now apply rel_ok_blind|].
    rewrite Forall_forall in Hrf. specialize (Hrf _ Hin). unfold occ_ok in Hrf. cbn in Hrf.
    specialize (Hrf c Hc). unfold rel_kind in Hrf. destruct (c_rel c) as [rf d|j tg]; auto.
    destruct tg; auto.
    + destruct Hrf as [st' Hst']. apply nth_error_firstn_some in Hst' as [L Hst']. eauto.
    + split; [exact Hrf|]. apply nth_error_exists. apply nth_error_lt in H1. lia.
  - specialize (Hidx KCw i eq_refl). cbn in Hidx.
    destruct (nth_error_exists _ _ Hidx) as [c Hc]. exists c. split; [exact Hc|].
    now apply rel_ok_blind.
  - specialize (Hidx KTm i eq_refl). cbn in Hidx. now apply nth_error_exists.
  - exact (Hidx KIq i eq_refl).
Qed.

(* ------------------------------------------------------------------ the boolean twin decides recipe_ok *)
Lemma incr_below_b_spec l n : incr_below_b l n = true <-> incr_below l n.
Proof.
  induction l as [|a r IH]; cbn [incr_below_b incr_below]; [tauto|].
  rewrite !andb_true_iff, Nat.ltb_lt, forallb_forall, Forall_forall, IH.
  split.
  - intros [[H1 H2] H3]. repeat split; auto. intros y Hy. apply Nat.ltb_lt. auto.
  - intros (H1 & H2 & H3). repeat split; auto. intros y Hy. apply Nat.ltb_lt. auto.
Qed.

Lemma nat_mem_spec v l : nat_mem v l = true <-> In v l.
Proof.
  induction l as [|y r IH]; cbn [nat_mem In]; [split; [discriminate|tauto]|].
  rewrite orb_true_iff, Nat.eqb_eq, IH. split; intros [H|H]; auto.
Qed.

Lemma nodup_b_spec l : nodup_b l = true <-> NoDup l.
Proof.
  induction l as [|y r IH]; cbn [nodup_b]; [split; [constructor|reflexivity]|].
  rewrite andb_true_iff, negb_true_iff, IH. split.
  - intros [H1 H2]. constructor; auto. intro Hin. apply nat_mem_spec in Hin. congruence.
  - intro H. inversion H; subst. split; auto.
    destruct (nat_mem y r) eqn:E; auto. apply nat_mem_spec in E. contradiction.
Qed.

Lemma enumerate_from_spec {A} (l : list A) : forall b i c,
  In (i, c) (enumerate_from b l) <-> b <= i /\ nth_error l (i - b) = Some c.
Proof.
  induction l as [|a r IH]; intros b i c; cbn [enumerate_from In].
  - split; [tauto|]. intros [_ H]. destruct (i - b); discriminate.
  - rewrite IH. split.
    + intros [H|[H1 H2]].
      * injection H as <- <-. rewrite Nat.sub_diag. split; [lia|reflexivity].
      * split; [lia|]. replace (i - b) with (S (i - S b)) by lia. exact H2.
    + intros [H1 H2]. destruct (Nat.eq_dec i b) as [->|N].
      * rewrite Nat.sub_diag in H2. left. cbn in H2. congruence.
      * right. split; [lia|]. replace (i - b) with (S (i - S b)) in H2 by lia. exact H2.
Qed.

Lemma enumerate_spec {A} (l : list A) i c : In (i, c) (enumerate_from 0 l) <-> nth_error l i = Some c.
Proof. rewrite enumerate_from_spec, Nat.sub_0_r. split; [tauto|]. intro H. split; [lia|exact H]. Qed.

Lemma refers_to_spec tbl i k :
  refers_to tbl i k = true <-> exists c', nth_error tbl k = Some c' /\ c_rel c' = RRef i TgComponent.
Proof.
  unfold refers_to. destruct (nth_error tbl k) as [c'|].
  - destruct (c_rel c') as [rf d|j tg] eqn:E.
    + split; [discriminate|]. intros (c'' & H & R). injection H as <-. congruence.
    + destruct tg.
      * rewrite Nat.eqb_eq. split.
        -- intros ->. eauto.
        -- intros (c'' & H & R). injection H as <-. congruence.
      * split; [discriminate|]. intros (c'' & H & R). injection H as <-. congruence.
      * split; [discriminate|]. intros (c'' & H & R). injection H as <-. congruence.
  - split; [discriminate|]. intros (c'' & H & R). discriminate.
Qed.

Lemma target_eqb_spec a b : target_eqb a b = true <-> a = b.
Proof. destruct a, b; cbn; split; congruence. Qed.

Lemma rel_ok_b_spec tbl : rel_ok_b tbl = true <-> rel_ok tbl.
Proof.
  unfold rel_ok_b, rel_ok. rewrite forallb_forall. split.
  - intros H i c Hn. specialize (H (i, c) (proj2 (enumerate_spec tbl i c) Hn)). cbn beta iota in H.
    destruct (c_rel c) as [rf d|j tg].
    + apply andb_true_iff in H as [H H3]. apply andb_true_iff in H as [H1 H2].
      split; [now apply nodup_b_spec|]. intro k. split.
      * intro Hin. rewrite forallb_forall in H2. apply refers_to_spec. auto.
      * intros (c' & Hk & Hr). rewrite forallb_forall in H3.
        specialize (H3 (k, c') (proj2 (enumerate_spec tbl k c') Hk)). cbn [fst] in H3.
        assert (R : refers_to tbl i k = true) by (apply refers_to_spec; eauto).
        rewrite R in H3. cbn in H3. now apply nat_mem_spec.
    + apply andb_true_iff in H as [H1 H2]. split; [exact H1|]. intros ->. cbn in H2.
      apply andb_true_iff in H2 as [H2 H3]. apply Nat.ltb_lt in H2. split; [exact H2|].
      destruct (nth_error tbl j) as [d|]; [eauto|discriminate].
  - intros H [i c] Hin. apply enumerate_spec in Hin. specialize (H i c Hin).
    destruct (c_rel c) as [rf d|j tg].
    + destruct H as [ND Hiff]. rewrite !andb_true_iff. repeat split.
      * now apply nodup_b_spec.
      * apply forallb_forall. intros k Hk. apply refers_to_spec. now apply Hiff.
      * apply forallb_forall. intros [k c'] Hk. cbn [fst].
        destruct (refers_to tbl i k) eqn:R; [|reflexivity]. cbn.
        apply nat_mem_spec. apply Hiff. now apply refers_to_spec.
    + destruct H as [M Ht]. rewrite M. cbn [andb]. destruct tg; cbn [target_eqb negb orb]; auto.
      destruct (Ht eq_refl) as (L & d & Hd & Hdd). rewrite Hd, Hdd.
      apply Nat.ltb_lt in L. now rewrite L.
Qed.

Lemma occ_ok_b_spec ings o : occ_ok_b ings o = true <-> occ_ok ings o.
Proof.
  unfold occ_ok_b, occ_ok. destruct (o_item o) as [ |i| | | ]; try (split; auto; fail).
  destruct (nth_error ings i) as [c|].
  - split.
    + intros H c' E. injection E as <-. destruct (rel_kind c) as [[j tg]|]; auto. destruct tg; auto.
      * destruct (nth_error (o_prev o) j) as [[st|t]|]; try discriminate. eauto.
      * now apply Nat.ltb_lt.
    + intro H. specialize (H c eq_refl). destruct (rel_kind c) as [[j tg]|]; auto. destruct tg; auto.
      * destruct H as [st ->]. reflexivity.
      * now apply Nat.ltb_lt.
  - split; auto. intros _ c E. discriminate.
Qed.

Lemma list_nat_eqb_spec a : forall b, list_nat_eqb a b = true <-> a = b.
Proof.
  induction a as [|v a IH]; intros [|y b]; cbn [list_nat_eqb]; try (split; congruence).
  rewrite andb_true_iff, Nat.eqb_eq, IH. split; [intros [-> ->]; reflexivity|]. intro H. injection H. auto.
Qed.

Lemma is_nil_spec {A} (l : list A) : negb (is_nil l) = true <-> l <> [].
Proof. destruct l; cbn; split; congruence. Qed.

Lemma item_nonempty_b_spec it : item_nonempty_b it = true <-> item_nonempty it.
Proof. destruct it; cbn [item_nonempty_b item_nonempty]; try tauto. apply is_nil_spec. Qed.

Lemma forallb_Forall_iff {A} (f : A -> bool) (P : A -> Prop) l :
  (forall a, f a = true <-> P a) -> (forallb f l = true <-> Forall P l).
Proof.
  intro H. rewrite forallb_forall, Forall_forall. split; intros G a Ha; apply H; auto.
Qed.

Lemma content_nonempty_b_spec c : content_nonempty_b c = true <-> content_nonempty c.
Proof.
  destruct c as [st|t]; cbn [content_nonempty_b content_nonempty].
  - rewrite andb_true_iff, is_nil_spec, (forallb_Forall_iff _ _ _ item_nonempty_b_spec). tauto.
  - apply is_nil_spec.
Qed.

Lemma section_ok_b_spec s : section_ok_b s = true <-> section_ok s.
Proof.
  unfold section_ok_b, section_ok, numbered.
  rewrite andb_true_iff, list_nat_eqb_spec, (forallb_Forall_iff _ _ _ content_nonempty_b_spec). tauto.
Qed.

Lemma timer_ok_b_spec t : timer_ok_b t = true <-> timer_ok t.
Proof.
  unfold timer_ok_b, timer_ok. destruct (tm_name t), (tm_qty t); cbn; split; auto;
    try (intros _; left; discriminate); try (intros _; right; discriminate).
  - discriminate.
  - intros [H|H]; congruence.
Qed.

Theorem recipe_ok_b_spec r : recipe_ok_b r = true <-> recipe_ok r.
Proof.
  unfold recipe_ok_b. rewrite !andb_true_iff.
  rewrite !rel_ok_b_spec.
  rewrite (forallb_Forall_iff _ _ _ (occ_ok_b_spec (r_ingredients r))).
  rewrite (forallb_Forall_iff _ _ _ section_ok_b_spec).
  rewrite (forallb_Forall_iff _ _ _ timer_ok_b_spec).
  rewrite (forallb_Forall_iff (fun s => negb (section_is_empty s)) (fun s => section_is_empty s = false)
             (r_sections r) (fun s => negb_true_iff (section_is_empty s))).
  split.
  - intros [[[[[[H1 H2] H3] H4] H5] H6] H7]. constructor; auto.
    intro k. apply incr_below_b_spec. rewrite forallb_forall in H1. apply H1.
    destruct k; cbn; auto.
  - intros [H1 H2 H3 H4 H5 H6 H7]. repeat split; auto.
    apply forallb_forall. intros k _. apply incr_below_b_spec. apply H1.
Qed.

Section ValidB.
Variable ci_key : str -> str.

Lemma valid_tbl_b_spec tbl : valid_tbl_b ci_key tbl = true <-> valid_tbl ci_key tbl.
Proof.
  unfold valid_tbl_b, valid_tbl. rewrite forallb_forall. split.
  - intros H i c Hn. specialize (H c (nth_error_In _ _ Hn)).
    apply andb_true_iff in H as [H1 H2]. apply Bool.eqb_prop in H1. split; [exact H1|].
    intros j Hr. rewrite Hr in H2. destruct (nth_error tbl j) as [d|]; [|discriminate].
    exists d. split; auto. now apply str_eqb_eq.
  - intros H c Hin. apply In_nth_error in Hin as [i Hn]. destruct (H i c Hn) as [H1 H2].
    apply andb_true_iff. split; [rewrite H1; apply Bool.eqb_reflx|].
    destruct (c_rel c) as [rf d|j tg]; auto. destruct tg; auto.
    destruct (H2 j eq_refl) as (d & Hd & K). rewrite Hd. now apply str_eqb_eq.
Qed.

End ValidB.

(* each clause of the statement can fail: recipes the predicate rejects *)
Definition bad_comp (m : modifiers) (rel : relation) : component :=
  {| c_name := [97%N]; c_alias := None; c_qty := None; c_note := None; c_rref := false;
     c_mods := m; c_rel := rel |}.
Definition bad_recipe (items : list item) (number : nat) (ings : list component) (tms : list rtimer) : recipe :=
  {| r_sections := [{| sec_name := None;
                       sec_content := [CStep {| st_items := items; st_number := number |}] |}];
     r_ingredients := ings; r_cookware := []; r_timers := tms; r_inline := 0 |}.

Example recipe_ok_sensitive :
  (* a well-formed one *)
  recipe_ok (bad_recipe [IIngredient 0; IText [32%N]; IIngredient 1] 1
               [bad_comp mods_empty (RDef [1] true); bad_comp M_ref_only (RRef 0 TgComponent)] []) /\
  (* index out of range *)
  ~ recipe_ok (bad_recipe [IIngredient 0] 1 [] []) /\
  (* out of document order *)
  ~ recipe_ok (bad_recipe [IIngredient 1; IIngredient 0] 1
                 [bad_comp mods_empty (RDef [] true); bad_comp mods_empty (RDef [] true)] []) /\
  (* no back link *)
  ~ recipe_ok (bad_recipe [IIngredient 0; IIngredient 1] 1
                 [bad_comp mods_empty (RDef [] true); bad_comp M_ref_only (RRef 0 TgComponent)] []) /\
  (* back link listed twice *)
  ~ recipe_ok (bad_recipe [IIngredient 0; IIngredient 1] 1
                 [bad_comp mods_empty (RDef [1; 1] true); bad_comp M_ref_only (RRef 0 TgComponent)] []) /\
  (* reference to a reference *)
  ~ recipe_ok (bad_recipe [IIngredient 0; IIngredient 1; IIngredient 2] 1
                 [bad_comp mods_empty (RDef [1] true); bad_comp M_ref_only (RRef 0 TgComponent);
                  bad_comp M_ref_only (RRef 1 TgComponent)] []) /\
  (* step reference to the step itself / section reference to the section itself *)
  ~ recipe_ok (bad_recipe [IIngredient 0] 1 [bad_comp M_ref_only (RRef 0 TgStep)] []) /\
  ~ recipe_ok (bad_recipe [IIngredient 0] 1 [bad_comp M_ref_only (RRef 0 TgSection)] []) /\
  (* wrong step number, empty step, empty text item, timer without name and quantity *)
  ~ recipe_ok (bad_recipe [IText [32%N]] 2 [] []) /\
  ~ recipe_ok (bad_recipe [] 1 [] []) /\
  ~ recipe_ok (bad_recipe [IText []] 1 [] []) /\
  ~ recipe_ok (bad_recipe [ITimer 0] 1 [] [{| tm_name := None; tm_qty := None |}]).
Proof.
  split; [apply recipe_ok_b_spec; vm_compute; reflexivity|].
  repeat split; intro H; apply recipe_ok_b_spec in H; vm_compute in H; discriminate.
Qed.
