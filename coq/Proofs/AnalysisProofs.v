(* Proofs for C06: the invariant [Inv] of Model/AnalysisSpec.v is established by
   [init] and preserved by every step of the collector. *)
From CL Require Import Base.StrLemmas Model.AnalysisSpec.
From Coq Require Import Lia ZArith.
Open Scope nat_scope.

(* ------------------------------------------------------------------ lists *)
Lemma nth_error_app_last {A} (l : list A) (x : A) : nth_error (l ++ [x]) (length l) = Some x.
Proof. rewrite nth_error_app2 by lia. now rewrite Nat.sub_diag. Qed.

Lemma nth_error_app_cases {A} (l : list A) (x : A) k c :
  nth_error (l ++ [x]) k = Some c ->
  (k < length l /\ nth_error l k = Some c) \/ (k = length l /\ c = x).
Proof.
  intro H. destruct (Nat.lt_ge_cases k (length l)) as [L|L].
  - left. split; [exact L|]. now rewrite nth_error_app1 in H.
  - right. rewrite nth_error_app2 in H by exact L.
    destruct (k - length l) as [|d] eqn:E.
    + simpl in H. split; [lia|congruence].
    + simpl in H. destruct d; discriminate.
Qed.

Lemma nth_error_lt {A} (l : list A) k c : nth_error l k = Some c -> k < length l.
Proof. intro H. apply nth_error_Some. congruence. Qed.

Lemma upd_nth_length {A} (l : list A) j x : length (upd_nth l j x) = length l.
Proof. revert j. induction l; intros [|j]; simpl; auto. Qed.

Lemma upd_nth_same {A} (l : list A) j x : j < length l -> nth_error (upd_nth l j x) j = Some x.
Proof. revert j. induction l; intros [|j] H; simpl in *; try lia; auto. apply IHl. lia. Qed.

Lemma upd_nth_other {A} (l : list A) j k x : k <> j -> nth_error (upd_nth l j x) k = nth_error l k.
Proof.
  revert j k. induction l; intros [|j] [|k] H; simpl; auto; try congruence.
Qed.

(* lookups in  upd_nth tbl j d ++ [x] *)
Lemma lookup_upd_app {A} (tbl : list A) j d x k :
  j < length tbl ->
  (k < length tbl /\ k <> j /\ nth_error (upd_nth tbl j d ++ [x]) k = nth_error tbl k) \/
  (k = j /\ nth_error (upd_nth tbl j d ++ [x]) k = Some d) \/
  (k = length tbl /\ nth_error (upd_nth tbl j d ++ [x]) k = Some x) \/
  (length tbl < k /\ nth_error (upd_nth tbl j d ++ [x]) k = None).
Proof.
  intro Hj. destruct (Nat.lt_trichotomy k (length tbl)) as [L|[L|L]].
  - destruct (Nat.eq_dec k j) as [->|N].
    + right; left. split; [reflexivity|].
      rewrite nth_error_app1 by (rewrite upd_nth_length; exact Hj). now apply upd_nth_same.
    + left. repeat split; auto.
      rewrite nth_error_app1 by (rewrite upd_nth_length; exact L). now apply upd_nth_other.
  - right; right; left. split; [exact L|]. subst k.
    pose proof (nth_error_app_last (upd_nth tbl j d) x) as E.
    rewrite upd_nth_length in E. exact E.
  - right; right; right. split; [exact L|]. apply nth_error_None.
    rewrite app_length, upd_nth_length. simpl. lia.
Qed.

Lemma rposition_some {A} (p : A -> bool) l i :
  rposition p l = Some i -> exists a, nth_error l i = Some a /\ p a = true.
Proof.
  revert i. induction l as [|a r IH]; simpl; intros i H; [discriminate|].
  destruct (rposition p r) as [k|] eqn:E.
  - injection H as <-. simpl. now apply IH.
  - destruct (p a) eqn:P; [|discriminate]. injection H as <-. exists a. now split.
Qed.

(* ------------------------------------------------------------------ indices / incr_below *)
Lemma indices_app k a b : indices k (a ++ b) = indices k a ++ indices k b.
Proof.
  induction a as [|x a IH]; simpl; [reflexivity|].
  destruct (item_index k x); simpl; now rewrite IH.
Qed.

Lemma incr_below_mono l n m : incr_below l n -> n <= m -> incr_below l m.
Proof. induction l; simpl; intros H L; [exact I|]. destruct H as (H1 & H2 & H3). repeat split; auto; lia. Qed.

Lemma incr_below_all l n x : incr_below l n -> In x l -> x < n.
Proof.
  induction l; simpl; intros H Hin; [contradiction|]. destruct H as (H1 & H2 & H3).
  destruct Hin as [->|Hin]; auto.
Qed.

Lemma incr_below_snoc l n : incr_below l n -> incr_below (l ++ [n]) (S n).
Proof.
  induction l as [|a r IH]; simpl; intro H.
  - repeat split; auto.
  - destruct H as (H1 & H2 & H3). repeat split; [lia| |auto].
    apply Forall_app. split; [exact H2|]. constructor; [exact H1|constructor].
Qed.

Lemma incr_below_prefix a b n : incr_below (a ++ b) n -> incr_below a n.
Proof.
  induction a as [|x a IH]; simpl; intro H; [exact I|]. destruct H as (H1 & H2 & H3).
  apply Forall_app in H2. repeat split; tauto.
Qed.

Lemma In_indices k it i l : In it l -> item_index k it = Some i -> In i (indices k l).
Proof.
  induction l as [|x l IH]; simpl; intros Hin E; [contradiction|].
  destruct Hin as [->|Hin].
  - rewrite E. now left.
  - destruct (item_index k x); [right|]; auto.
Qed.

(* ------------------------------------------------------------------ occurrences *)
Lemma content_occs_app si prev r1 r2 :
  content_occs si prev (r1 ++ r2) = content_occs si prev r1 ++ content_occs si (prev ++ r1) r2.
Proof.
  revert prev. induction r1 as [|c r1 IH]; intro prev; simpl.
  - now rewrite app_nil_r.
  - rewrite IH, <- !app_assoc. reflexivity.
Qed.

Lemma sections_occs_app si a b :
  sections_occs si (a ++ b) = sections_occs si a ++ sections_occs (si + length a) b.
Proof.
  revert si. induction a as [|s a IH]; intro si; simpl.
  - now rewrite Nat.add_0_r.
  - rewrite IH, <- app_assoc. replace (S si + length a) with (si + S (length a)) by lia. reflexivity.
Qed.

Lemma sections_occs_last secs cur :
  sections_occs 0 (secs ++ [cur]) = sections_occs 0 secs ++ content_occs (length secs) [] (sec_content cur).
Proof. rewrite sections_occs_app. simpl. now rewrite app_nil_r. Qed.

(* ------------------------------------------------------------------ component tables *)
Lemma NoDup_snoc {A} (l : list A) x : NoDup l -> ~ In x l -> NoDup (l ++ [x]).
Proof.
  induction l as [|a l IH]; simpl; intros ND NI.
  - constructor; [intros []|constructor].
  - inversion ND; subst. constructor.
    + rewrite in_app_iff. simpl. intros [H|[H|[]]]; [contradiction|]. apply NI. now left.
    + apply IH; auto.
Qed.

(* a component that nobody can refer to yet and that is not a component reference *)
Definition fresh_rel (c : component) : Prop :=
  match c_rel c with
  | RDef rf _ => rf = []
  | RRef _ tg => m_ref (c_mods c) = true /\ tg <> TgComponent
  end.

Lemma rel_ok_push tbl new : rel_ok tbl -> fresh_rel new -> rel_ok (tbl ++ [new]).
Proof.
  intros H F i c Hn. apply nth_error_app_cases in Hn as [[L Hn]|[-> ->]].
  - specialize (H i c Hn). destruct (c_rel c) as [rf d|j tg].
    + destruct H as [ND Hiff]. split; auto. intro k. rewrite Hiff. split; intros (c' & Hk & Hr).
      * exists c'. split; auto. rewrite nth_error_app1; auto. eapply nth_error_lt; eauto.
      * apply nth_error_app_cases in Hk as [[Lk Hk]|[-> ->]]; [exists c'; auto|].
        unfold fresh_rel in F. rewrite Hr in F. destruct F as [_ F]. congruence.
    + destruct H as [M Ht]. split; auto. intro E. destruct (Ht E) as (Lt & d & Hd & Hdef).
      split; auto. exists d. split; auto. rewrite nth_error_app1; auto. eapply nth_error_lt; eauto.
  - unfold fresh_rel in F. destruct (c_rel new) as [rf d|j tg] eqn:E.
    + subst rf. split; [constructor|]. intro k. split; [intros []|]. intros (c' & Hk & Hr).
      apply nth_error_app_cases in Hk as [[Lk Hk]|[-> ->]].
      * specialize (H k c' Hk). rewrite Hr in H. destruct H as [_ H]. destruct (H eq_refl) as [Lt _]. lia.
      * congruence.
    + destruct F as [M Ntg]. split; auto. intro; contradiction.
Qed.

Lemma rel_ok_link tbl j def rf dis new :
  rel_ok tbl -> nth_error tbl j = Some def -> c_rel def = RDef rf dis ->
  c_rel new = RRef j TgComponent -> m_ref (c_mods new) = true ->
  rel_ok (upd_nth tbl j (set_rel def (RDef (rf ++ [length tbl]) dis)) ++ [new]).
Proof.
  intros H Hj Hdef Hnew M.
  set (def' := set_rel def (RDef (rf ++ [length tbl]) dis)).
  assert (Lj : j < length tbl) by (eapply nth_error_lt; eauto).
  assert (Hnotj : forall k c', nth_error tbl k = Some c' -> forall i tg, c_rel c' = RRef i tg -> k <> j).
  { intros k c' Hk i tg Hr ->. congruence. }
  intros i c Hn.
  destruct (lookup_upd_app tbl j def' new i Lj) as [(L & N & E)|[(-> & E)|[(-> & E)|(L & E)]]];
    rewrite E in Hn; [| | |discriminate].
  - specialize (H i c Hn). destruct (c_rel c) as [rf_i d_i|j' tg].
    + destruct H as [ND Hiff]. split; auto. intro k. rewrite Hiff. split; intros (c' & Hk & Hr).
      * exists c'. split; auto.
        destruct (lookup_upd_app tbl j def' new k Lj) as [(L' & N' & E')|[(-> & E')|[(-> & E')|(L' & E')]]].
        -- now rewrite E'.
        -- exfalso. eapply Hnotj; eauto.
        -- apply nth_error_lt in Hk. lia.
        -- apply nth_error_lt in Hk. lia.
      * destruct (lookup_upd_app tbl j def' new k Lj) as [(L' & N' & E')|[(-> & E')|[(-> & E')|(L' & E')]]];
          rewrite E' in Hk; [| | |discriminate].
        -- exists c'; auto.
        -- injection Hk as <-. simpl in Hr. discriminate.
        -- injection Hk as <-. rewrite Hnew in Hr. injection Hr as <-. congruence.
    + destruct H as [M' Ht]. split; auto. intro Etg. destruct (Ht Etg) as (Lt & d & Hd & Hdd).
      split; auto. destruct (Nat.eq_dec j' j) as [->|Nj].
      * exists def'. split; [|reflexivity].
        rewrite nth_error_app1 by (rewrite upd_nth_length; exact Lj). now apply upd_nth_same.
      * exists d. split; auto.
        rewrite nth_error_app1 by (rewrite upd_nth_length; eapply nth_error_lt; eauto).
        rewrite upd_nth_other; auto.
  - injection Hn as <-. simpl. pose proof (H j def Hj) as Hd. rewrite Hdef in Hd. destruct Hd as [ND Hiff].
    split.
    + apply NoDup_snoc; auto. intro Hin. apply Hiff in Hin as (c' & Hk & _). apply nth_error_lt in Hk. lia.
    + intro k. rewrite in_app_iff. split.
      * intros [Hin|[<-|[]]].
        -- apply Hiff in Hin as (c' & Hk & Hr). exists c'. split; auto.
           destruct (lookup_upd_app tbl j def' new k Lj) as [(L' & N' & E')|[(-> & E')|[(-> & E')|(L' & E')]]].
           ++ now rewrite E'.
           ++ exfalso. eapply Hnotj; eauto.
           ++ apply nth_error_lt in Hk. lia.
           ++ apply nth_error_lt in Hk. lia.
        -- exists new. split; auto.
           pose proof (nth_error_app_last (upd_nth tbl j def') new) as E'.
           rewrite upd_nth_length in E'. exact E'.
      * intros (c' & Hk & Hr).
        destruct (lookup_upd_app tbl j def' new k Lj) as [(L' & N' & E')|[(-> & E')|[(-> & E')|(L' & E')]]];
          rewrite E' in Hk; [| | |discriminate].
        -- left. apply Hiff. exists c'; auto.
        -- injection Hk as <-. simpl in Hr. discriminate.
        -- right. now left.
  - injection Hn as <-. rewrite Hnew. split; auto. intros _. split; [exact Lj|].
    exists def'. split; [|reflexivity].
    rewrite nth_error_app1 by (rewrite upd_nth_length; exact Lj). now apply upd_nth_same.
Qed.

(* old entries keep the kind of their relation *)
Definition tbl_ext (tbl tbl' : list component) : Prop :=
  forall i c, nth_error tbl i = Some c -> exists c', nth_error tbl' i = Some c' /\ rel_kind c' = rel_kind c.

Lemma tbl_ext_push tbl new : tbl_ext tbl (tbl ++ [new]).
Proof.
  intros i c H. exists c. split; auto. rewrite nth_error_app1; auto. eapply nth_error_lt; eauto.
Qed.

Lemma tbl_ext_link tbl j def rf dis rf' new :
  nth_error tbl j = Some def -> c_rel def = RDef rf dis ->
  tbl_ext tbl (upd_nth tbl j (set_rel def (RDef rf' dis)) ++ [new]).
Proof.
  intros Hj Hdef i c H. assert (Li : i < length tbl) by (eapply nth_error_lt; eauto).
  rewrite nth_error_app1 by (rewrite upd_nth_length; exact Li).
  destruct (Nat.eq_dec i j) as [->|N].
  - rewrite upd_nth_same by exact Li. eexists. split; [reflexivity|].
    rewrite Hj in H. injection H as <-. unfold rel_kind. simpl. now rewrite Hdef.
  - rewrite upd_nth_other by exact N. exists c. now split.
Qed.

Lemma occ_ok_ext tbl tbl' o :
  tbl_ext tbl tbl' -> (forall i, o_item o = IIngredient i -> i < length tbl) ->
  occ_ok tbl o -> occ_ok tbl' o.
Proof.
  unfold occ_ok. intros X R H. destruct (o_item o) as [ | i | | | ]; auto.
  intros c' Hc'. specialize (R i eq_refl).
  destruct (nth_error tbl i) as [c|] eqn:E; [|apply nth_error_None in E; lia].
  destruct (X i c E) as (c'' & Hc'' & K). rewrite Hc' in Hc''. injection Hc'' as <-.
  rewrite K. now apply H.
Qed.

(* ------------------------------------------------------------------ validity of a table *)
Section Valid.
Variable ci_key : str -> str.

Lemma valid_tbl_push tbl new :
  valid_tbl ci_key tbl ->
  m_ref (c_mods new) = negb (is_definition (c_rel new)) ->
  (forall j, c_rel new <> RRef j TgComponent) ->
  valid_tbl ci_key (tbl ++ [new]).
Proof.
  intros H M R i c Hn. apply nth_error_app_cases in Hn as [[L Hn]|[-> ->]].
  - destruct (H i c Hn) as [A B]. split; auto. intros j Hr. destruct (B j Hr) as (d & Hd & K).
    exists d. split; auto. rewrite nth_error_app1; auto. eapply nth_error_lt; eauto.
  - split; auto. intros j Hr. exfalso. eapply R; eauto.
Qed.

Lemma valid_tbl_link tbl j def rf dis rf' new :
  valid_tbl ci_key tbl -> nth_error tbl j = Some def -> c_rel def = RDef rf dis ->
  c_rel new = RRef j TgComponent -> m_ref (c_mods new) = true ->
  ci_key (c_name new) = ci_key (c_name def) ->
  valid_tbl ci_key (upd_nth tbl j (set_rel def (RDef rf' dis)) ++ [new]).
Proof.
  intros H Hj Hdef Hnew M K.
  set (def' := set_rel def (RDef rf' dis)).
  assert (Lj : j < length tbl) by (eapply nth_error_lt; eauto).
  assert (Hdef' : nth_error (upd_nth tbl j def' ++ [new]) j = Some def').
  { rewrite nth_error_app1 by (rewrite upd_nth_length; exact Lj). now apply upd_nth_same. }
  intros i c Hn.
  destruct (lookup_upd_app tbl j def' new i Lj) as [(L & N & E)|[(-> & E)|[(-> & E)|(L & E)]]];
    rewrite E in Hn; [| | |discriminate].
  - destruct (H i c Hn) as [A B]. split; auto. intros j' Hr. destruct (B j' Hr) as (d & Hd & Kd).
    destruct (Nat.eq_dec j' j) as [->|Nj].
    + exists def'. split; auto. rewrite Hj in Hd. injection Hd as <-. exact Kd.
    + exists d. split; auto.
      rewrite nth_error_app1 by (rewrite upd_nth_length; eapply nth_error_lt; eauto).
      rewrite upd_nth_other; auto.
  - injection Hn as <-. destruct (H j def Hj) as [A _]. rewrite Hdef in A. split; [exact A|].
    intros j' Hr. simpl in Hr. discriminate.
  - injection Hn as <-. rewrite Hnew. split; [exact M|]. intros j' Hr. injection Hr as <-.
    exists def'. split; auto.
Qed.

(* ------------------------------------------------------------------ frame lemmas *)
Notation Inv := (Inv ci_key).

Lemma Inv_frame s s' :
  Inv s ->
  a_sections s' = a_sections s -> a_cur s' = a_cur s ->
  a_ingredients s' = a_ingredients s -> a_cookware s' = a_cookware s ->
  a_timers s' = a_timers s -> a_inline s' = a_inline s ->
  a_block s' = a_block s -> a_counter s' = a_counter s ->
  (a_errors s' = false -> a_errors s = false) ->
  Inv s'.
Proof.
  intros [Ho Hri Hrc Hrf Hs Hc Hn Hne Hb Ht Hv] E1 E2 E3 E4 E5 E6 E7 E8 E9.
  constructor; unfold state_occs, state_len in *; rewrite ?E1, ?E2, ?E3, ?E4, ?E5, ?E6, ?E7, ?E8; auto.
Qed.

Lemma Inv_add_error s e : Inv s -> Inv (add_error s e).
Proof.
  intro H. eapply Inv_frame; eauto. simpl. intro E. now apply orb_false_iff in E.
Qed.

Lemma Inv_set_modes s d u : Inv s -> Inv (set_modes s d u).
Proof. intro H. eapply Inv_frame; eauto. Qed.

Lemma Inv_set_halted s : Inv s -> Inv (set_halted s).
Proof. intro H. eapply Inv_frame; eauto. Qed.

(* replacing the block buffer by one without items *)
Lemma Inv_set_block_nil s b : Inv s -> block_items b = [] -> Inv (set_block s b).
Proof.
  intros [Ho Hri Hrc Hrf Hs Hc Hn Hne Hb Ht Hv] E.
  constructor; unfold state_occs, state_len in *; simpl; rewrite ?E; simpl; auto.
  - intro k. specialize (Ho k). rewrite map_app, indices_app in Ho. apply incr_below_prefix in Ho.
    now rewrite app_nil_r.
  - apply Forall_app in Hrf. rewrite app_nil_r. tauto.
Qed.

End Valid.

(* ------------------------------------------------------------------ sections and blocks *)
Lemma section_empty_content s : section_is_empty s = true -> sec_content s = [].
Proof. unfold section_is_empty. destruct (sec_name s), (sec_content s); auto; discriminate. Qed.

Lemma occs_pushed s :
  sections_occs 0 (pushed_sections s) = sections_occs 0 (a_sections s ++ [a_cur s]).
Proof.
  unfold pushed_sections. destruct (section_is_empty (a_cur s)) eqn:E; [|reflexivity].
  rewrite sections_occs_last, (section_empty_content _ E). simpl. now rewrite app_nil_r.
Qed.

Lemma step_numbers_app a b : step_numbers (a ++ b) = step_numbers a ++ step_numbers b.
Proof. induction a as [|[st|t] a IH]; simpl; auto. now rewrite IH. Qed.

Section Steps.
Variable ci_key : str -> str.
Notation Inv := (Inv ci_key).

Lemma Inv_section s name :
  Inv s -> a_block s = None ->
  Inv (set_sections s (pushed_sections s) {| sec_name := name; sec_content := [] |} 1).
Proof.
  intros [Ho Hri Hrc Hrf Hs Hc Hn Hne Hb Ht Hv] B.
  assert (E : state_occs (set_sections s (pushed_sections s) {| sec_name := name; sec_content := [] |} 1)
              = state_occs s).
  { unfold state_occs. simpl. rewrite B. simpl. rewrite sections_occs_last. simpl.
    now rewrite !app_nil_r, occs_pushed. }
  constructor.
  - rewrite E. exact Ho.
  - exact Hri.
  - exact Hrc.
  - rewrite E. exact Hrf.
  - simpl. unfold pushed_sections. destruct (section_is_empty (a_cur s)); auto.
    apply Forall_app. split; auto.
  - simpl. split; [reflexivity|constructor].
  - reflexivity.
  - simpl. unfold pushed_sections. destruct (section_is_empty (a_cur s)) eqn:X; auto.
    apply Forall_app. split; auto.
  - simpl. rewrite B. constructor.
  - exact Ht.
  - exact Hv.
Qed.

Definition pushed_state (s : astate) (c : content) : astate :=
  set_block (set_sections s (a_sections s)
               {| sec_name := sec_name (a_cur s); sec_content := sec_content (a_cur s) ++ [c] |}
               (if is_step c then S (a_counter s) else a_counter s)) None.

Lemma Inv_push_content s c :
  Inv s ->
  match c with
  | CStep st => a_block s = Some (BStep (st_items st)) /\ st_number st = a_counter s /\ st_items st <> []
  | CText t => block_items (a_block s) = [] /\ t <> []
  end ->
  Inv (pushed_state s c).
Proof.
  intros [Ho Hri Hrc Hrf Hs Hc Hn Hne Hb Ht Hv] P.
  assert (E : state_occs (pushed_state s c) = state_occs s).
  { unfold state_occs, pushed_state. simpl. rewrite !sections_occs_last. simpl.
    rewrite content_occs_app. simpl. rewrite !app_nil_r, <- app_assoc. f_equal. f_equal.
    destruct c as [st|t]; simpl.
    - destruct P as (B & _). now rewrite B.
    - destruct P as (B & _). now rewrite B. }
  constructor.
  - rewrite E. exact Ho.
  - exact Hri.
  - exact Hrc.
  - rewrite E. exact Hrf.
  - exact Hs.
  - destruct Hc as [Hnum Hcont]. simpl. split.
    + unfold numbered in *. simpl. rewrite step_numbers_app. destruct c as [st|t]; simpl.
      * destruct P as (_ & Num & _). rewrite app_length. simpl. rewrite Nat.add_1_r, seq_S.
        rewrite <- Hnum. f_equal. f_equal. rewrite Num, Hn. reflexivity.
      * now rewrite !app_nil_r.
    + apply Forall_app. split; auto. constructor; [|constructor].
      destruct c as [st|t]; simpl.
      * destruct P as (B & _ & NE). split; auto. rewrite B in Hb. exact Hb.
      * tauto.
  - simpl. rewrite step_numbers_app, app_length. destruct c as [st|t]; simpl; lia.
  - exact Hne.
  - simpl. constructor.
  - exact Ht.
  - exact Hv.
Qed.

End Steps.

(* ------------------------------------------------------------------ pushing an item *)
Lemma tbl_ext_refl tbl : tbl_ext tbl tbl.
Proof. intros i c H. exists c. now split. Qed.

Section Items.
Variable ci_key : str -> str.
Variable find_iq : str -> option (str * str).
Variable unit_class : str -> N.
Variable input : str.
Variable x : aext.
Notation Inv := (Inv ci_key).

Lemma Inv_push_item s s' items it :
  Inv s -> a_block s = Some (BStep items) ->
  a_sections s' = a_sections s -> a_cur s' = a_cur s -> a_counter s' = a_counter s ->
  a_block s' = Some (BStep (items ++ [it])) ->
  (forall k, match item_index k it with
             | Some i => i = state_len s k /\ state_len s' k = S (state_len s k)
             | None => state_len s k <= state_len s' k
             end) ->
  item_nonempty it ->
  rel_ok (a_ingredients s') -> rel_ok (a_cookware s') ->
  tbl_ext (a_ingredients s) (a_ingredients s') ->
  occ_ok (a_ingredients s') (mk_occ (length (a_sections s)) (sec_content (a_cur s)) it) ->
  Forall timer_ok (a_timers s') ->
  (a_errors s' = false -> valid_tbl ci_key (a_ingredients s') /\ valid_tbl ci_key (a_cookware s')) ->
  Inv s'.
Proof.
  intros [Ho Hri Hrc Hrf Hs Hc Hn Hne Hb Ht Hv] B E1 E2 E3 B' Hlen NE Ri Rc X O T V.
  assert (E : state_occs s' = state_occs s ++ [mk_occ (length (a_sections s)) (sec_content (a_cur s)) it]).
  { unfold state_occs. rewrite B', E1, E2, B. simpl. rewrite map_app. simpl. now rewrite app_assoc. }
  constructor; auto.
  - intro k. rewrite E, map_app, indices_app. simpl. specialize (Hlen k). specialize (Ho k).
    destruct (item_index k it) as [i|].
    + destruct Hlen as [-> Hl]. rewrite Hl. now apply incr_below_snoc.
    + rewrite app_nil_r. eapply incr_below_mono; eauto.
  - rewrite E. apply Forall_app. split; [|constructor; [exact O|constructor]].
    apply Forall_forall. intros o Hin. eapply occ_ok_ext; eauto.
    + intros i Ei. apply (incr_below_all _ _ _ (Ho KIng)).
      eapply In_indices; [apply in_map; exact Hin|]. rewrite Ei. reflexivity.
    + rewrite Forall_forall in Hrf. now apply Hrf.
  - now rewrite E1.
  - now rewrite E2.
  - now rewrite E3, E2.
  - now rewrite E1.
  - rewrite B'. simpl. apply Forall_app. split; [|constructor; [exact NE|constructor]].
    rewrite B in Hb. exact Hb.
Qed.

(* ---- specifications of the resolution functions ---- *)
Lemma step_indices_from_spec b l i :
  In i (step_indices_from b l) -> b <= i /\ exists st, nth_error l (i - b) = Some (CStep st).
Proof.
  revert b. induction l as [|c l IH]; simpl; intros b H; [contradiction|].
  apply in_app_iff in H as [H|H].
  - destruct c as [st|t]; simpl in H; [|contradiction]. destruct H as [<-|[]].
    split; [lia|]. rewrite Nat.sub_diag. simpl. eauto.
  - destruct (IH _ H) as (L & st & Hst). split; [lia|]. exists st.
    replace (i - b) with (S (i - S b)) by lia. exact Hst.
Qed.

Lemma step_indices_spec l i :
  In i (step_indices l) -> exists st, nth_error l i = Some (CStep st).
Proof.
  intro H. apply step_indices_from_spec in H as (_ & st & Hst). rewrite Nat.sub_0_r in Hst. eauto.
Qed.

Definition target_ok (s : astate) (c : component) : Prop :=
  match rel_kind c with
  | Some (j, TgStep) => exists st, nth_error (sec_content (a_cur s)) j = Some (CStep st)
  | Some (j, TgSection) => j < length (a_sections s)
  | _ => True
  end.

Lemma resolve_intermediate_ref_spec s d rel :
  resolve_intermediate_ref s d = Done (Some rel) ->
  exists j tg, rel = RRef j tg /\ tg <> TgComponent /\
    match tg with
    | TgStep => exists st, nth_error (sec_content (a_cur s)) j = Some (CStep st)
    | TgSection => j < length (a_sections s)
    | TgComponent => True
    end.
Proof.
  unfold resolve_intermediate_ref. destruct (ir_val d <? 0)%Z; [discriminate|].
  destruct (Z.to_nat (ir_val d)) as [|v1] eqn:V; [discriminate|].
  destruct (ir_kind d), (ir_mode d).
  - destruct (nth_error (step_indices (sec_content (a_cur s))) v1) as [i|] eqn:E; [|discriminate].
    intro H. injection H as <-. exists i, TgStep. repeat split; [discriminate|].
    apply step_indices_spec. eapply nth_error_In; eauto.
  - destruct (nth_error (rev (step_indices (sec_content (a_cur s)))) v1) as [i|] eqn:E; [|discriminate].
    intro H. injection H as <-. exists i, TgStep. repeat split; [discriminate|].
    apply step_indices_spec. apply in_rev. eapply nth_error_In; eauto.
  - destruct (length (a_sections s) <=? v1) eqn:E; [discriminate|].
    intro H. injection H as <-. exists v1, TgSection. repeat split; [discriminate|].
    apply Nat.leb_gt in E. exact E.
  - destruct (length (a_sections s) <? S v1) eqn:E; [discriminate|].
    intro H. injection H as <-. eexists _, TgSection. repeat split; [discriminate|].
    apply Nat.ltb_ge in E. lia.
Qed.

Lemma same_name_spec tbl name j :
  same_name ci_key tbl name = Some j ->
  exists o, nth_error tbl j = Some o /\ m_ref (c_mods o) = false /\ ci_key name = ci_key (c_name o).
Proof.
  unfold same_name. intro H. apply rposition_some in H as (o & Ho & P).
  apply andb_true_iff in P as [P1 P2]. exists o. repeat split; auto.
  - now apply negb_true_iff in P1.
  - now apply str_eqb_eq.
Qed.

Lemma resolve_reference_spec s tbl inh new r :
  resolve_reference ci_key s tbl inh new = Done r ->
  match rs_target r with
  | None => rs_new r = new /\ (rs_err r = false -> m_ref (c_mods new) = false)
  | Some (j, _) =>
      exists o, nth_error tbl j = Some o /\ m_ref (c_mods o) = false /\
        ci_key (c_name new) = ci_key (c_name o) /\
        c_rel (rs_new r) = RRef j TgComponent /\ m_ref (c_mods (rs_new r)) = true /\
        c_name (rs_new r) = c_name new /\ c_qty (rs_new r) = c_qty new
  end.
Proof.
  unfold resolve_reference.
  destruct (m_new (c_mods new) && m_ref (c_mods new)) eqn:E1.
  { intro H. injection H as <-. simpl. split; auto. discriminate. }
  destruct (m_new (c_mods new)) eqn:E2.
  { intro H. injection H as <-. simpl. split; [reflexivity|intros _; exact E1]. }
  destruct (negb _) eqn:E3.
  { intro H. injection H as <-. simpl. split; [reflexivity|]. intros _.
    apply negb_true_iff in E3. apply orb_false_iff in E3 as [E3 _]. apply orb_false_iff in E3 as [E3 _]. exact E3. }
  destruct (same_name ci_key tbl (c_name new)) as [j|] eqn:E4.
  - destruct (same_name_spec _ _ _ E4) as (o & Ho & Mo & K). rewrite Ho, Mo.
    intro H. injection H as <-. simpl. exists o. repeat split; auto.
    apply orb_true_r.
  - intro H. injection H as <-. simpl. split; auto. discriminate.
Qed.

Lemma link_reference_spec tbl new j hn ul tbl' e :
  link_reference tbl new j hn ul = Done (tbl', e) ->
  exists def rf dis, nth_error tbl j = Some def /\ c_rel def = RDef rf dis /\
    tbl' = upd_nth tbl j (set_rel def (RDef (rf ++ [length tbl]) dis)).
Proof.
  unfold link_reference. destruct (nth_error tbl j) as [def|]; [|discriminate].
  destruct (c_rel def) as [rf dis|] eqn:E; [|discriminate].
  destruct (ul && is_some (c_qty new) && negb (forallb (fun k => k <? length tbl) rf));
    [discriminate|]. intro H. inversion H; subst.
  exists def, rf, dis. auto.
Qed.

(* what pushing one component does to its table *)
Definition tbl_step (tbl tbl' : list component) (err : bool) : Prop :=
  length tbl' = S (length tbl) /\ rel_ok tbl' /\ tbl_ext tbl tbl' /\
  (valid_tbl ci_key tbl -> err = false -> valid_tbl ci_key tbl').

Lemma tbl_step_plain tbl new err :
  rel_ok tbl -> fresh_rel new ->
  (err = false -> m_ref (c_mods new) = negb (is_definition (c_rel new))) ->
  tbl_step tbl (tbl ++ [new]) err.
Proof.
  intros R F M. split; [|split; [|split]].
  - rewrite app_length. simpl. lia.
  - now apply rel_ok_push.
  - apply tbl_ext_push.
  - intros V E. apply valid_tbl_push; auto. intros j Hr. unfold fresh_rel in F. rewrite Hr in F.
    destruct F as [_ F]. congruence.
Qed.

(* resolve_reference followed by the back link: common to ingredients and cookware *)
Lemma tbl_step_resolved s tbl inh new d r :
  rel_ok tbl -> c_rel new = RDef [] d ->
  resolve_reference ci_key s tbl inh new = Done r ->
  match rs_target r with
  | Some (j, _) =>
      forall hn ul tbl' e, link_reference tbl (rs_new r) j hn ul = Done (tbl', e) ->
        tbl_step tbl (tbl' ++ [rs_new r]) (rs_err r || e) /\
        rel_kind (rs_new r) = Some (j, TgComponent)
  | None => tbl_step tbl (tbl ++ [rs_new r]) (rs_err r) /\ rel_kind (rs_new r) = None
  end.
Proof.
  intros R D H. apply resolve_reference_spec in H.
  destruct (rs_target r) as [[j imp]|].
  - destruct H as (o & Ho & Mo & K & Hrel & Hm & Hname & _).
    intros hn ul tbl' e L. apply link_reference_spec in L as (def & rf & dis & Hd & Hdr & ->).
    rewrite Ho in Hd. injection Hd as <-. split.
    + split; [|split; [|split]].
      * rewrite app_length, upd_nth_length. simpl. lia.
      * eapply rel_ok_link; eauto.
      * eapply tbl_ext_link; eauto.
      * intros V _. eapply valid_tbl_link; eauto. now rewrite Hname.
    + unfold rel_kind. now rewrite Hrel.
  - destruct H as [-> M]. split.
    + apply tbl_step_plain; auto.
      * unfold fresh_rel. now rewrite D.
      * intro E. rewrite D. simpl. auto.
    + unfold rel_kind. now rewrite D.
Qed.

Lemma Inv_push_ingredient s items tbl' e :
  Inv s -> a_block s = Some (BStep items) ->
  tbl_step (a_ingredients s) tbl' e ->
  (forall c, nth_error tbl' (length (a_ingredients s)) = Some c -> target_ok s c) ->
  Inv (set_block (add_error (set_ingredients s tbl') e)
         (Some (BStep (items ++ [IIngredient (length (a_ingredients s))])))).
Proof.
  intros I B (L & R & X & V) T. pose proof I as [Ho Hri Hrc Hrf Hs Hc Hn Hne Hb Ht Hv].
  apply (Inv_push_item s _ items (IIngredient (length (a_ingredients s)))); try reflexivity; try exact I; auto.
  - intros [ | | | ]; simpl; auto.
  - simpl. intro E. apply orb_false_iff in E as [E1 E2]. destruct (Hv E1). split; auto.
Qed.

Lemma Inv_push_cookware s items tbl' e :
  Inv s -> a_block s = Some (BStep items) ->
  tbl_step (a_cookware s) tbl' e ->
  Inv (set_block (add_error (set_cookware s tbl') e)
         (Some (BStep (items ++ [ICookware (length (a_cookware s))])))).
Proof.
  intros I B (L & R & X & V). pose proof I as [Ho Hri Hrc Hrf Hs Hc Hn Hne Hb Ht Hv].
  apply (Inv_push_item s _ items (ICookware (length (a_cookware s)))); try reflexivity; try exact I;
    try apply tbl_ext_refl; auto.
  - intros [ | | | ]; simpl; auto.
  - simpl. intro E. apply orb_false_iff in E as [E1 E2]. destruct (Hv E1). split; auto.
Qed.

Lemma ingredient_inv s ig s1 i items :
  Inv s -> a_block s = Some (BStep items) ->
  ingredient ci_key x s ig = Done (s1, i) ->
  Inv (set_block s1 (Some (BStep (items ++ [IIngredient i])))).
Proof.
  intros I B. pose proof I as [Ho Hri Hrc Hrf Hs Hc Hn Hne Hb Ht Hv].
  unfold ingredient.
  set (new := {| c_name := _; c_alias := _; c_qty := _; c_note := _; c_rref := _; c_mods := _; c_rel := _ |}).
  destruct (pi_inter ig) as [d|].
  - destruct (negb (m_ref (c_mods new))) eqn:M; [discriminate|]. apply negb_false_iff in M.
    destruct (resolve_intermediate_ref s d) as [[rel|]|] eqn:E; simpl; [| |discriminate].
    + intro H. injection H as <- <-.
      apply resolve_intermediate_ref_spec in E as (j & tg & -> & Ntg & T).
      apply Inv_push_ingredient; auto.
      * apply tbl_step_plain; auto; try (intros _; simpl; exact M).
        unfold fresh_rel. simpl. auto.
      * intros c Hc'. rewrite nth_error_app_last in Hc'. injection Hc' as <-.
        unfold target_ok, rel_kind. simpl. destruct tg; auto.
    + intro H. injection H as <- <-.
      apply Inv_push_ingredient; auto.
      * apply tbl_step_plain; auto; try (rewrite orb_true_r; discriminate).
        unfold fresh_rel. simpl. auto.
      * intros c Hc'. rewrite nth_error_app_last in Hc'. injection Hc' as <-.
        unfold target_ok, rel_kind. simpl. auto.
  - destruct (resolve_reference ci_key s (a_ingredients s) inherit_ingredient new) as [r|] eqn:E;
      simpl; [|discriminate].
    assert (D : c_rel new = RDef [] (negb (dm_eqb (a_define s) DMComponents))) by reflexivity.
    pose proof (tbl_step_resolved _ _ _ _ _ _ Hri D E) as T.
    destruct (rs_target r) as [[j imp]|].
    + destruct (link_reference _ _ _ _ _) as [[tbl' e]|] eqn:L; simpl; [|discriminate].
      intro H. injection H as <- <-. destruct (T _ _ _ _ L) as [T1 T2].
      apply Inv_push_ingredient; auto.
      intros c Hc'. destruct T1 as (Len & _).
      assert (Hl : length tbl' = length (a_ingredients s)) by (rewrite app_length in Len; simpl in Len; lia).
      rewrite <- Hl, nth_error_app_last in Hc'. injection Hc' as <-.
      unfold target_ok. now rewrite T2.
    + intro H. injection H as <- <-. destruct T as [T1 T2].
      apply Inv_push_ingredient; auto.
      intros c Hc'. rewrite nth_error_app_last in Hc'. injection Hc' as <-.
      unfold target_ok. now rewrite T2.
Qed.

Lemma cookware_inv s cw s1 i items :
  Inv s -> a_block s = Some (BStep items) ->
  cookware ci_key s cw = Done (s1, i) ->
  Inv (set_block s1 (Some (BStep (items ++ [ICookware i])))).
Proof.
  intros I B. pose proof I as [Ho Hri Hrc Hrf Hs Hc Hn Hne Hb Ht Hv].
  unfold cookware.
  set (new := {| c_name := _; c_alias := _; c_qty := _; c_note := _; c_rref := _; c_mods := _; c_rel := _ |}).
  destruct (resolve_reference ci_key s (a_cookware s) inherit_cookware new) as [r|] eqn:E;
    simpl; [|discriminate].
  assert (D : c_rel new = RDef [] (negb (dm_eqb (a_define s) DMComponents))) by reflexivity.
  pose proof (tbl_step_resolved _ _ _ _ _ _ Hrc D E) as T.
  destruct (rs_target r) as [[j imp]|].
  - destruct (link_reference _ _ _ _ _) as [[tbl' e]|] eqn:L; simpl; [|discriminate].
    intro H. injection H as <- <-. destruct (T _ _ _ _ L) as [T1 T2].
    apply Inv_push_cookware; auto.
  - intro H. injection H as <- <-. destruct T as [T1 T2].
    apply Inv_push_cookware; auto.
Qed.
