(* Property C17, text mode: a blank or comment-only line between blocks, recipe level, NO hypothesis
   about modes.

   The event-level proof (Proofs/EditSimDoc.v [extra_line_blocks]) goes through the UNSHIFTED token
   list [ta ++ tl ++ tb], which is the token list of no source; the component sources cannot be
   followed through it.  Here the block loop is followed directly along [reach]: up to the place of
   the inserted line the two loops cut the SAME blocks out of the same tokens ([next_block_local]:
   where a block ends depends on what follows only through the kind of the next token), at the
   place itself the edited side skips the line ([split_blind_after_aux], [blocks_blind_leading]),
   after it the tokens are the shifted ones ([ksim]: Proofs/EditTextSim.v [blocks_loop_p]).  Every
   block is parsed on both sides from [ksim]-related located tokens, so the component sources are
   related as in Proofs/EditTextSim.v ([crel]). *)
From Coq Require Import Lia.
From CL Require Import Base.StrLemmas Model.Lexer Model.PText Model.CommentMask Model.Parser Model.Edits Model.EventBridge
  Proofs.LexerProofs Proofs.MaskProofs Proofs.EditProofs Proofs.EditParserProofs Proofs.EditLink Proofs.ParserFM Proofs.ParserOrder
  Proofs.ParserSeg Proofs.EditSimDefs Proofs.EditSimBlock Proofs.EditSimDoc Proofs.EditSimAll Proofs.EditSimFM2 Proofs.EditSimExtra
  Proofs.EditInsDoc Proofs.EditAnalysis Proofs.EditTextFrame Proofs.EditTextSim Proofs.EditTextAnalysis Proofs.EditTextLex
  Proofs.EditTextCrlf.
From CL Require Model.Analysis.
Open Scope N_scope.

Lemma blank_line_shift n l : blank_line l -> blank_line (shift n l).
Proof.
  intros (w & nl & -> & K & Hw). exists (shift n w), (shift_tok n nl). unfold shift. rewrite map_app. cbn [map].
  split; [reflexivity|]. split; [exact K|]. rewrite forallb_forall in *. intros t Ht. apply in_map_iff in Ht as (t0 & <- & H0).
  exact (Hw t0 H0).
Qed.

Lemma Forall_krel_ksim l : Forall (fun t => krel t t) l -> ksim l l.
Proof. induction 1; constructor; assumption. Qed.

Lemma ksim_nil_l r' : ksim [] r' -> r' = [].
Proof. intro H. inversion H. reflexivity. Qed.

Section X.
  Variable src1 src2 : str.
  Variable D1 D2 : list tok.
  Variable cfg : pcfg.
  Hypothesis HD1 : segx src1 D1.
  Hypothesis HD2 : segx src2 D2.
  Hypothesis ingredient_rel : MR (orel erel) (ingredient_p cfg) (ingredient_p cfg).
  Hypothesis cookware_rel : MR (orel erel) (cookware_p cfg) (cookware_p cfg).
  Hypothesis timer_rel : MR (orel erel) (timer_p cfg) (timer_p cfg).

  Notation ER := (evrel src1 src2 D1 D2).

  Lemma blocks_loop_p2 f1 f2 ts1 ts2 old evs1 evs2 :
    ksim ts1 ts2 -> sr D1 ts1 -> sr D2 ts2 -> ER evs1 evs2 ->
    OR ER (blocks_loop cfg f1 ts1 old evs1) (blocks_loop cfg f2 ts2 old evs2).
  Proof.
    intros K G1 G2 He. unfold OR.
    destruct (blocks_loop cfg f1 ts1 old evs1) as [e1|] eqn:E1; [|exact I].
    destruct (blocks_loop cfg f2 ts2 old evs2) as [e2|] eqn:E2; [|exact I].
    pose proof (blocks_loop_fuel cfg f1 (Nat.max f1 f2) ts1 old evs1 e1 E1 (Nat.le_max_l _ _)) as X1.
    pose proof (blocks_loop_fuel cfg f2 (Nat.max f1 f2) ts2 old evs2 e2 E2 (Nat.le_max_r _ _)) as X2.
    pose proof (blocks_loop_p src1 src2 D1 D2 cfg HD1 HD2 ingredient_rel cookware_rel timer_rel (Nat.max f1 f2)
                  ts1 ts2 old evs1 evs2 K G1 G2 He) as R.
    unfold OR in R. rewrite X1, X2 in R. exact R.
  Qed.

  Lemma blocks_x l' : blank_line l' ->
    forall ts r, reach ts r ->
    forall pre r' f1 f2 old evs1 evs2,
      ts = pre ++ r -> (pre = [] \/ exists p nl, pre = p ++ [nl] /\ kind nl = KNewline) ->
      Forall (fun t => krel t t) pre -> ksim r r' ->
      sr D1 (pre ++ r) -> sr D2 (pre ++ l' ++ r') -> ER evs1 evs2 ->
      OR ER (blocks_loop cfg f1 (pre ++ r) old evs1) (blocks_loop cfg f2 (pre ++ l' ++ r') old evs2).
  Proof.
    intros Hl ts r Hreach.
    induction Hreach as [ts | ts blk r0 r Hnb Hreach IH]; intros pre r' f1 f2 old evs1 evs2 Hts Hpre Kp Kr G1 G2 He.
    - symmetry in Hts. apply app_same_tail in Hts. subst pre. cbn [app] in *.
      rewrite (blocks_blind_leading cfg l' r' f2 old evs2 Hl).
      apply blocks_loop_p2; [exact Kr | exact G1 | | exact He].
      apply (sr_mid D2 (l' ++ r') l' r' [] G2). rewrite app_nil_r. reflexivity.
    - subst ts. destruct f1 as [|f1]; [exact I|].
      destruct f2 as [|f2]; [unfold OR; destruct (blocks_loop cfg (S f1) (pre ++ r) old evs1); exact I|].
      cbn [blocks_loop]. rewrite Hnb.
      destruct (reach_suffix _ _ Hreach) as [pre' Hr0].
      destruct (next_block_consumed _ _ _ _ Hnb) as (mid & Hsplit & Hmid).
      pose proof (next_block_len _ _ _ _ Hnb) as Hlen.
      destruct (next_block_app _ _ _ _ Hnb) as (p & q & Happ).
      assert (Hpre_eq : pre = mid ++ pre').
      { rewrite Hr0, app_assoc in Hsplit. apply app_inv_tail in Hsplit. exact Hsplit. }
      assert (Hmid_eq : mid = p ++ blk ++ q).
      { rewrite Hsplit in Happ. replace (p ++ blk ++ q ++ r0) with ((p ++ blk ++ q) ++ r0) in Happ by (rewrite <- !app_assoc; reflexivity).
        apply app_inv_tail in Happ. exact Happ. }
      assert (Hprene : pre <> []).
      { intros ->. cbn [app] in Hlen. rewrite Hr0, app_length in Hlen. lia. }
      assert (Hq : nl_end pre).
      { destruct Hpre as [-> | (p0 & nl & -> & Hk)]; [contradiction|]. apply nl_end_snoc. exact Hk. }
      (* the block is the same on both sides *)
      assert (Kb : ksim blk blk).
      { apply Forall_krel_ksim. rewrite Hpre_eq, Hmid_eq in Kp. apply Forall_app in Kp as [Kp _].
        apply Forall_app in Kp as [_ Kp]. apply Forall_app in Kp as [Kp _]. exact Kp. }
      assert (Gb1 : sr D1 blk).
      { apply (sr_mid D1 (pre ++ r) p blk (q ++ pre' ++ r) G1). rewrite Hpre_eq, Hmid_eq, <- !app_assoc. reflexivity. }
      assert (Gb2 : sr D2 blk).
      { apply (sr_mid D2 (pre ++ l' ++ r') p blk (q ++ pre' ++ l' ++ r') G2). rewrite Hpre_eq, Hmid_eq, <- !app_assoc. reflexivity. }
      pose proof (run_block_p src1 src2 D1 D2 blk blk evs1 evs2 _ _ Kb Gb1 Gb2 He
                    (parse_block_p src1 src2 D1 D2 cfg HD1 HD2 ingredient_rel cookware_rel timer_rel old)) as R.
      unfold OR in R.
      assert (Hlr : length r = length r') by exact (ksim_length _ _ Kr).
      destruct (nil_or_not pre') as [-> | Hne'].
      + (* the block ends where the line is inserted *)
        cbn [app] in Hr0. subst r0. rewrite app_nil_r in Hpre_eq. subst mid.
        assert (NB2 : exists rest2, next_block (S (length (pre ++ l' ++ r'))) (pre ++ l' ++ r') = Some (blk, rest2)
                                    /\ (rest2 = r' \/ rest2 = l' ++ r')).
        { destruct (split_blind_after_aux l' r blk Hl (S (length (pre ++ r))) pre (S (length (pre ++ l' ++ r))) Hprene Hq Hnb)
            as (r2 & E2 & Hr2); [lia | lia|].
          assert (Hlen2 : length (pre ++ l' ++ r) = length (pre ++ l' ++ r')) by (rewrite !app_length, Hlr; reflexivity).
          destruct Hr2 as [-> | ->].
          - (* the line was swallowed by the block's trailing line ends *)
            exists r'. split; [|left; reflexivity].
            destruct r as [|x r1].
            + apply ksim_nil_l in Kr. subst r'. exact E2.
            + destruct r' as [|y r1']; [inversion Kr|].
              replace (pre ++ l' ++ x :: r1) with ((pre ++ l') ++ x :: r1) in E2 by (rewrite <- app_assoc; reflexivity).
              replace (pre ++ l' ++ y :: r1') with ((pre ++ l') ++ y :: r1') by (rewrite <- app_assoc; reflexivity).
              apply (next_block_local (x :: r1) (y :: r1') blk ltac:(discriminate) ltac:(discriminate)
                       (single_marker_rel _ _ Kr) (S (length ((pre ++ l') ++ x :: r1))) (pre ++ l'));
                [apply app_ne_l; exact Hprene
                | apply nl_end_app; [exact Hq|]; destruct Hl as (w & nl & -> & Kn & _); apply nl_end_snoc; exact Kn
                | exact E2
                | lia
                | lia ].
          - exists (l' ++ r'). split; [|right; reflexivity].
            apply (next_block_local (l' ++ r) (l' ++ r') blk (app_ne_l _ _ (blank_line_nonempty _ Hl))
                     (app_ne_l _ _ (blank_line_nonempty _ Hl)))
              with (f := S (length (pre ++ l' ++ r))); [|exact Hprene | exact Hq | exact E2 | lia | rewrite <- Hlen2; lia].
            rewrite !marker_app by exact (blank_line_nonempty _ Hl). reflexivity. }
        destruct NB2 as (rest2 & NB2 & Hrest). rewrite NB2.
        destruct (run_block blk evs1 (parse_block cfg old)) as [e1|]; cbn [obind]; [|exact I].
        destruct (run_block blk evs2 (parse_block cfg old)) as [e2|]; cbn [obind];
          [|unfold OR; destruct (blocks_loop cfg f1 r old e1); exact I].
        assert (Gr1 : sr D1 r). { apply (sr_mid D1 (pre ++ r) pre r [] G1). rewrite app_nil_r. reflexivity. }
        assert (Gr2 : sr D2 r'). { apply (sr_mid D2 (pre ++ l' ++ r') (pre ++ l') r' [] G2). rewrite app_nil_r, <- app_assoc. reflexivity. }
        destruct Hrest as [-> | ->].
        * apply blocks_loop_p2; assumption.
        * rewrite (blocks_blind_leading cfg l' r' f2 old e2 Hl). apply blocks_loop_p2; assumption.
      + (* the block ends before the place *)
        assert (Hr0ne : r0 <> []) by (rewrite Hr0; apply app_ne_l; exact Hne').
        assert (Hmidne : mid <> []).
        { intros ->. cbn [app] in Hsplit. rewrite Hsplit in Hlen. lia. }
        assert (NB2 : next_block (S (length (mid ++ pre' ++ l' ++ r'))) (mid ++ pre' ++ l' ++ r') = Some (blk, pre' ++ l' ++ r')).
        { apply (next_block_local r0 (pre' ++ l' ++ r') blk Hr0ne (app_ne_l _ _ Hne')) with
            (f := S (length (pre ++ r))); [|exact Hmidne | exact (Hmid Hr0ne) | | rewrite <- Hsplit; lia | lia].
          - rewrite Hr0, !marker_app by exact Hne'. reflexivity.
          - rewrite <- Hsplit. exact Hnb. }
        rewrite Hpre_eq, <- app_assoc, NB2.
        destruct (run_block blk evs1 (parse_block cfg old)) as [e1|]; cbn [obind]; [|exact I].
        destruct (run_block blk evs2 (parse_block cfg old)) as [e2|]; cbn [obind];
          [|unfold OR; destruct (blocks_loop cfg f1 r0 old e1); exact I].
        rewrite Hr0. apply IH; [exact Hr0 | | | exact Kr | | | exact R].
        * right. apply nl_end_inv; [exact Hne'|]. rewrite Hpre_eq in Hq. apply nl_end_app_r in Hq. exact Hq.
        * rewrite Hpre_eq in Kp. apply Forall_app in Kp as [_ Kp]. exact Kp.
        * apply (sr_mid D1 (pre ++ r) mid (pre' ++ r) [] G1). rewrite Hpre_eq, app_nil_r, <- app_assoc. reflexivity.
        * apply (sr_mid D2 (pre ++ l' ++ r') mid (pre' ++ l' ++ r') [] G2). rewrite Hpre_eq, app_nil_r, <- app_assoc. reflexivity.
  Qed.
End X.

(* ------------------------------------------------------------------ documents *)
Section XDoc.
  Variable U : N -> ucls.
  Variable cfg : pcfg.
  Hypothesis special_breaks : forall c, special c = true -> is_word_char U c = false /\ is_lex_ws U c = false.
  Hypothesis eol_breaks : forall c, (c =? 10) || (c =? 13) = true -> is_word_char U c = false /\ is_lex_ws U c = false.

  Lemma evrel_rev' s1 s2 d1 d2 e1 e2 : evrel s1 s2 d1 d2 e1 e2 -> evrel s1 s2 d1 d2 (rev e1) (rev e2).
  Proof. intros [A B]. split; apply Forall2_rev'; assumption. Qed.

  (* the block loop on the tokens of [a ++ b] and of [a ++ l ++ b], lexed at any offset *)
  Lemma extra_line_blocks_p s1 s2 a l b off ta tl tb old evs1 evs2 :
    lex_at U a off = Some ta -> lex_at U l 0 = Some tl -> lex_at U b (off + blen a) = Some tb ->
    (ta = [] \/ exists p nl, ta = p ++ [nl] /\ kind nl = KNewline) -> blank_line tl ->
    reach (ta ++ tb) tb ->
    exists t1 t2,
      lex_at U (a ++ b) off = Some t1 /\ lex_at U (a ++ l ++ b) off = Some t2
      /\ (segx s1 t1 -> segx s2 t2 -> evrel s1 s2 t1 t2 evs1 evs2 ->
          OR (evrel s1 s2 t1 t2) (blocks_loop cfg (S (length t1)) t1 old evs1) (blocks_loop cfg (S (length t2)) t2 old evs2)).
  Proof.
    intros La Ll Lb Hta Hl Hreach.
    pose proof (lex_nonempty U _ _ _ La) as Na. pose proof (lex_nonempty U _ _ _ Lb) as Nb.
    pose proof (lex_newline_ok U _ _ _ La) as Oa. pose proof (lex_newline_ok U _ _ _ Lb) as Ob.
    assert (Hlne : l <> []).
    { intro E. subst l. cbn in Ll. inversion Ll; subst tl. destruct Hl as (w & nl & E & _). destruct w; discriminate. }
    assert (L1 : lex_at U (a ++ b) off = Some (ta ++ tb)).
    { destruct b as [|d y].
      - cbn in Lb. inversion Lb; subst. rewrite !app_nil_r. exact La.
      - apply (lex_app U special_breaks eol_breaks a off ta d y tb La); [apply safe_end_newline; exact Hta | exact Lb]. }
    assert (L2 : lex_at U (a ++ l ++ b) off = Some (ta ++ shift (off + blen a) tl ++ shift (blen l) tb)).
    { destruct b as [|d y].
      - cbn in Lb. inversion Lb; subst. rewrite app_nil_r. cbn [shift map]. rewrite app_nil_r.
        apply (lex_append U special_breaks eol_breaks a l off ta tl La Ll). apply safe_end_newline. exact Hta.
      - apply (lex_insert U special_breaks eol_breaks a l (d :: y) off ta tl tb d y eq_refl La Ll Hlne Lb).
        + apply safe_end_newline. exact Hta.
        + apply safe_end_newline. right. apply blank_line_ends. exact Hl. }
    eexists. eexists. split; [exact L1|]. split; [exact L2|]. intros G1 G2 He.
    apply (blocks_x s1 s2 _ _ cfg G1 G2 (ingredient_ksim cfg) (cookware_ksim cfg) (timer_ksim cfg)
             (shift (off + blen a) tl) (blank_line_shift _ _ Hl) (ta ++ tb) tb Hreach ta (shift (blen l) tb));
      [reflexivity | exact Hta | | apply ksim_shift_r; assumption | apply sr_refl | apply sr_refl | exact He].
    clear -Na Oa. induction ta as [|t r IH]; [constructor|]. inversion Na; inversion Oa; subst.
    constructor; [apply krel_refl; assumption | apply IH; assumption].
  Qed.

  Theorem extra_line_text_mode ac ci_key yaml_ok find_iq unit_class x Y ystr yeqb yaml a l b ta tl tb :
    p_strict_escape cfg = false -> Analysis.text_raw ac = false ->
    parse_frontmatter cfg (a ++ b) = None ->
    Forall (fun y => is_fence y = false) (lines_inclusive l) ->
    lex_at U a 0 = Some ta -> lex_at U l 0 = Some tl -> lex_at U b (blen a) = Some tb ->
    (ta = [] \/ exists p nl, ta = p ++ [nl] /\ kind nl = KNewline) -> blank_line tl ->
    reach (ta ++ tb) tb ->
    crlf_blind yaml_ok -> crlf_blind yaml ->
    same_parse_upto drop_cr ac U cfg ci_key yaml_ok find_iq unit_class x Y ystr yeqb yaml (a ++ b) (a ++ l ++ b).
  Proof.
    intros Hs Hr F1 Hf La Ll Lb Hta Hl Hreach By Bm.
    assert (F2 : parse_frontmatter cfg (a ++ l ++ b) = None).
    { apply parse_frontmatter_insert_none;
        [exact (lex_ends_line U a 0 ta La Hta) | exact (blank_line_text U l tl Ll Hl) | exact Hf | exact F1]. }
    destruct (extra_line_blocks_p (a ++ b) (a ++ l ++ b) a l b 0 ta tl tb true [] [] La Ll Lb Hta Hl Hreach)
      as (t1 & t2 & L1 & L2 & R).
    apply (evrel_parse ac U cfg ci_key yaml_ok find_iq unit_class x Y ystr yeqb yaml _ _ t1 t2); try assumption;
      [exact (lex_local_lexed U _ _ _ special_breaks L1) | exact (lex_local_lexed U _ _ _ special_breaks L2)|].
    unfold events. rewrite F1, F2, L1, L2.
    specialize (R (lex_segx U _ _ L1) (lex_segx U _ _ L2) (conj (Forall2_nil _) (Forall2_nil _))).
    unfold OR in *. destruct (blocks_loop cfg _ t1 true []) as [e1|]; cbn [obind]; [|exact I].
    destruct (blocks_loop cfg _ t2 true []) as [e2|]; cbn [obind]; [|exact I]. apply evrel_rev'. exact R.
  Qed.

  Theorem extra_line_text_mode_fm ac ci_key yaml_ok find_iq unit_class x Y ystr yeqb yaml s fm a l b ta tl tb :
    p_strict_escape cfg = false -> Analysis.text_raw ac = false ->
    parse_frontmatter cfg s = Some fm -> cook_text fm = a ++ b -> a ++ b <> [] ->
    lex_at U a (cook_off fm) = Some ta -> lex_at U l 0 = Some tl -> lex_at U b (cook_off fm + blen a) = Some tb ->
    (ta = [] \/ exists p nl, ta = p ++ [nl] /\ kind nl = KNewline) -> blank_line tl ->
    reach (ta ++ tb) tb ->
    crlf_blind yaml_ok -> crlf_blind yaml ->
    same_parse_upto drop_cr ac U cfg ci_key yaml_ok find_iq unit_class x Y ystr yeqb yaml
      s (take_bytes s (cook_off fm) ++ a ++ l ++ b).
  Proof.
    intros Hs Hr F C Hne La Ll Lb Hta Hl Hreach By Bm.
    assert (Hc : cook_text fm <> []) by (rewrite C; exact Hne).
    destruct (parse_frontmatter_insert_some_nonempty cfg s fm a l b F C Hc) as (fm' & F' & Hy & Hyo & Hct & Hco).
    set (s2 := take_bytes s (cook_off fm) ++ a ++ l ++ b) in *.
    set (y := EvYaml (text_from_str (yaml_text fm) (yaml_off fm))).
    destruct (extra_line_blocks_p s s2 a l b (cook_off fm) ta tl tb false [y] [y] La Ll Lb Hta Hl Hreach)
      as (t1 & t2 & L1 & L2 & R).
    apply (evrel_parse ac U cfg ci_key yaml_ok find_iq unit_class x Y ystr yeqb yaml _ _ t1 t2); try assumption;
      [exact (lex_local_lexed U _ _ _ special_breaks L1) | exact (lex_local_lexed U _ _ _ special_breaks L2)|].
    destruct (parse_frontmatter_located cfg s fm F) as [(pre1 & Es1 & Hp1) _].
    destruct (parse_frontmatter_located cfg s2 fm' F') as [(pre2 & Es2 & Hp2) _].
    assert (G1 : segx s t1).
    { exists (cook_off fm), (cook_off fm + blen (a ++ b)). rewrite Es1 at 1. rewrite C. exact (lex_at_seg U _ _ _ pre1 L1 Hp1). }
    assert (G2 : segx s2 t2).
    { exists (cook_off fm), (cook_off fm + blen (a ++ l ++ b)). rewrite Es2 at 1. rewrite Hct. rewrite Hco in Hp2.
      exact (lex_at_seg U _ _ _ pre2 L2 Hp2). }
    assert (E0 : evrel s s2 t1 t2 [y] [y]).
    { split; (constructor; [|constructor]); [reflexivity | exact I]. }
    specialize (R G1 G2 E0).
    unfold events. rewrite F, F', C, Hct, Hco, Hy, Hyo, L1, L2. fold y.
    unfold OR in *. destruct (blocks_loop cfg _ t1 false _) as [e1|]; cbn [obind]; [|exact I].
    destruct (blocks_loop cfg _ t2 false _) as [e2|]; cbn [obind]; [|exact I]. apply evrel_rev'. exact R.
  Qed.
End XDoc.
