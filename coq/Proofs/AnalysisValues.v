(* The analysis pass moves quantity values from the events into the recipe unchanged.

   Model/Analysis.v keeps in [qi_value] the value a quantity of the recipe holds (Quantity<ScalableValue>
   { value: Fixed(v) | Linear(v), unit }).  Here: for EVERY event sequence (no shape hypothesis), every
   extension record, behaviour switch and oracle,
   - one call of [ingredient] / [cookware] / [timer] appends one entry whose quantity is the event's
     quantity read by [quantity_info] / [value_info] - so its value is the event's value, whatever the
     reference resolution did - at the index it returns, and changes the quantity of no earlier entry
     (the back link written into a definition is a relation only);
   - no other event touches the quantities of the three tables;
   - hence every quantity of a returned recipe is the quantity of a component event of the stream. *)
From Coq Require Import ZArith List Lia.
From CL Require Import Model.Analysis.
Import ListNotations.
Open Scope N_scope.

Definition igr_qty (ig : p_ingredient) : option qinfo := option_map (quantity_info true) (pi_quantity ig).
Definition cw_qty (cw : p_cookware) : option qinfo := option_map (value_info false) (pc_quantity cw).
Definition timer_qty (t : p_timer) : option qinfo := option_map (quantity_info false) (pt_quantity t).

(* what [quantity_info] / [value_info] keep of the event's quantity: the value itself *)
Lemma value_info_value b v : qi_value (value_info b v) = qv_value v.
Proof. reflexivity. Qed.
Lemma quantity_info_value b q : qi_value (quantity_info b q) = qv_value (pq_value q).
Proof. reflexivity. Qed.
Lemma quantity_info_unit b q : qi_unit (quantity_info b q) = option_map text_trimmed (pq_unit q).
Proof. reflexivity. Qed.

Lemma map_qty_upd (tbl : list component) j def r :
  nth_error tbl j = Some def -> map c_qty (upd_nth tbl j (set_rel def r)) = map c_qty tbl.
Proof.
  revert j. induction tbl as [|a t IH]; intros [|j] H; cbn in *; try discriminate.
  - injection H as ->. reflexivity.
  - f_equal. apply IH. exact H.
Qed.

(* the three quantity columns of the collector state *)
Definition qcols (s : astate) : list (option qinfo) * list (option qinfo) * list (option qinfo) :=
  (map c_qty (a_ingredients s), map c_qty (a_cookware s), map tm_qty (a_timers s)).

Section Values.
  Variable ci_key : str -> str.
  Variable yaml_ok : str -> bool.
  Variable find_iq : str -> option (str * str).
  Variable unit_class : str -> N.
  Variable input : str.
  Variable x : aext.
  Variable cfg : acfg.

  Lemma resolve_reference_qty s tbl inh new r :
    resolve_reference ci_key s tbl inh new = Done r -> c_qty (rs_new r) = c_qty new.
  Proof.
    unfold resolve_reference. intro H.
    repeat match type of H with
           | context [match ?y with _ => _ end] => destruct y eqn:?; try discriminate H
           end; injection H as <-; reflexivity.
  Qed.

  Lemma link_reference_qty tbl new j hn ul tbl' e :
    link_reference tbl new j hn ul = Done (tbl', e) -> map c_qty tbl' = map c_qty tbl.
  Proof.
    unfold link_reference. intro H.
    destruct (nth_error tbl j) as [def|] eqn:En; [|discriminate].
    destruct (c_rel def); [|discriminate].
    match type of H with context [if ?c then _ else _] => destruct c end; [discriminate|].
    injection H as <- _. apply map_qty_upd. exact En.
  Qed.

  Theorem ingredient_value s ig s' i :
    ingredient ci_key x s ig = Done (s', i) ->
    i = length (a_ingredients s) /\
    qcols s' = (map c_qty (a_ingredients s) ++ [igr_qty ig], map c_qty (a_cookware s), map tm_qty (a_timers s)).
  Proof.
    unfold ingredient, qcols. intro H. cbv zeta in H.
    destruct (pi_inter ig) as [d|].
    - match type of H with context [if ?c then _ else _] => destruct c end; [discriminate|].
      unfold obind in H. destruct (resolve_intermediate_ref s d) as [r|]; [|discriminate].
      destruct r as [rel|]; injection H as <- <-; split; try reflexivity;
        cbn [a_ingredients a_cookware a_timers add_error set_ingredients]; rewrite map_app; reflexivity.
    - unfold obind in H.
      match type of H with context [resolve_reference ?a ?b ?c ?d ?e] =>
        destruct (resolve_reference a b c d e) as [r|] eqn:Er; [|discriminate] end.
      apply resolve_reference_qty in Er. cbn [c_qty] in Er.
      destruct (rs_target r) as [[j im]|].
      + match type of H with context [link_reference ?a ?b ?c ?d ?e] =>
          destruct (link_reference a b c d e) as [[tbl' e']|] eqn:El; [|discriminate] end.
        apply link_reference_qty in El. injection H as <- <-. split; [reflexivity|].
        cbn [a_ingredients a_cookware a_timers add_error set_ingredients]. rewrite map_app, El. cbn [map]. rewrite Er. reflexivity.
      + injection H as <- <-. split; [reflexivity|].
        cbn [a_ingredients a_cookware a_timers add_error set_ingredients]. rewrite map_app. cbn [map]. rewrite Er. reflexivity.
  Qed.

  Theorem cookware_value s cw s' i :
    cookware ci_key s cw = Done (s', i) ->
    i = length (a_cookware s) /\
    qcols s' = (map c_qty (a_ingredients s), map c_qty (a_cookware s) ++ [cw_qty cw], map tm_qty (a_timers s)).
  Proof.
    unfold cookware, qcols. intro H. cbv zeta in H. unfold obind in H.
    match type of H with context [resolve_reference ?a ?b ?c ?d ?e] =>
      destruct (resolve_reference a b c d e) as [r|] eqn:Er; [|discriminate] end.
    apply resolve_reference_qty in Er. cbn [c_qty] in Er.
    destruct (rs_target r) as [[j im]|].
    - match type of H with context [link_reference ?a ?b ?c ?d ?e] =>
        destruct (link_reference a b c d e) as [[tbl' e']|] eqn:El; [|discriminate] end.
      apply link_reference_qty in El. injection H as <- <-. split; [reflexivity|].
      cbn [a_ingredients a_cookware a_timers add_error set_cookware]. rewrite map_app, El. cbn [map]. rewrite Er. reflexivity.
    - injection H as <- <-. split; [reflexivity|].
      cbn [a_ingredients a_cookware a_timers add_error set_cookware]. rewrite map_app. cbn [map]. rewrite Er. reflexivity.
  Qed.

  Theorem timer_value s t :
    snd (timer unit_class x s t) = length (a_timers s) /\
    qcols (fst (timer unit_class x s t))
    = (map c_qty (a_ingredients s), map c_qty (a_cookware s), map tm_qty (a_timers s) ++ [timer_qty t]).
  Proof.
    unfold timer, qcols. cbn [fst snd a_ingredients a_cookware a_timers add_error set_timers]. split; [reflexivity|].
    rewrite map_app. reflexivity.
  Qed.

  (* one event: the quantity columns grow by the quantity of that event, or stay *)
  Definition qcols_step (s : astate) (e : event) (s' : astate) : Prop :=
    qcols s' = qcols s \/
    (exists ig, e = EIngredient ig /\
       qcols s' = (map c_qty (a_ingredients s) ++ [igr_qty ig], map c_qty (a_cookware s), map tm_qty (a_timers s))) \/
    (exists cw, e = ECookware cw /\
       qcols s' = (map c_qty (a_ingredients s), map c_qty (a_cookware s) ++ [cw_qty cw], map tm_qty (a_timers s))) \/
    (exists t, e = ETimer t /\
       qcols s' = (map c_qty (a_ingredients s), map c_qty (a_cookware s), map tm_qty (a_timers s) ++ [timer_qty t])).

  Lemma step_values s e s' :
    step ci_key yaml_ok find_iq unit_class input x cfg s e = Done s' -> qcols_step s e s'.
  Proof.
    unfold step. intro H. destruct (a_halted s); [injection H as <-; left; reflexivity|].
    destruct e.
    - injection H as <-. left. reflexivity.
    - injection H as <-. left. unfold metadata.
      repeat match goal with |- context [if ?c then _ else _] => destruct c end; reflexivity.
    - injection H as <-. left. reflexivity.
    - injection H as <-. left. reflexivity.
    - left. unfold end_block, finish_block in H.
      repeat match type of H with
             | context [match ?y with _ => _ end] => destruct y; try discriminate H
             end; injection H as <-; reflexivity.
    - left. destruct (a_block s) as [[items|tx]|]; [| |discriminate].
      + unfold in_step, obind in H.
        repeat match type of H with
               | context [match ?y with _ => _ end] => destruct y; try discriminate H
               end; injection H as <-; reflexivity.
      + injection H as <-. reflexivity.
    - destruct (a_block s) as [[items|tx]|]; [| |discriminate].
      + right. left. exists i. split; [reflexivity|]. unfold in_step, obind in H.
        destruct (ingredient ci_key x s i) as [[s1 k]|] eqn:E; [|discriminate]. injection H as <-.
        apply ingredient_value in E. exact (proj2 E).
      + left. unfold in_text in H.
        repeat match type of H with
               | context [match ?y with _ => _ end] => destruct y; try discriminate H
               end; injection H as <-; reflexivity.
    - destruct (a_block s) as [[items|tx]|]; [| |discriminate].
      + right. right. left. exists c. split; [reflexivity|]. unfold in_step, obind in H.
        destruct (cookware ci_key s c) as [[s1 k]|] eqn:E; [|discriminate]. injection H as <-.
        apply cookware_value in E. exact (proj2 E).
      + left. unfold in_text in H.
        repeat match type of H with
               | context [match ?y with _ => _ end] => destruct y; try discriminate H
               end; injection H as <-; reflexivity.
    - destruct (a_block s) as [[items|tx]|]; [| |discriminate].
      + right. right. right. exists t. split; [reflexivity|]. unfold in_step in H.
        pose proof (timer_value s t) as [_ E]. destruct (timer unit_class x s t) as [s1 k]. injection H as <-. exact E.
      + left. unfold in_text in H.
        repeat match type of H with
               | context [match ?y with _ => _ end] => destruct y; try discriminate H
               end; injection H as <-; reflexivity.
    - injection H as <-. left. reflexivity.
    - injection H as <-. left. reflexivity.
  Qed.

  (* every quantity of the three tables is the quantity of a component event among [E] *)
  Definition from_events (E : list event) (s : astate) : Prop :=
    Forall (fun o => exists ig, In (EIngredient ig) E /\ o = igr_qty ig) (map c_qty (a_ingredients s)) /\
    Forall (fun o => exists cw, In (ECookware cw) E /\ o = cw_qty cw) (map c_qty (a_cookware s)) /\
    Forall (fun o => exists t, In (ETimer t) E /\ o = timer_qty t) (map tm_qty (a_timers s)).

  Lemma step_from E s e s' :
    In e E -> from_events E s -> step ci_key yaml_ok find_iq unit_class input x cfg s e = Done s' -> from_events E s'.
  Proof.
    intros Hin (Hi & Hc & Ht) H. apply step_values in H. unfold from_events, qcols_step, qcols in *.
    destruct H as [H|[(ig & -> & H)|[(cw & -> & H)|(t & -> & H)]]]; injection H as -> -> ->; repeat split; try assumption;
      apply Forall_app; (split; [assumption|]); (apply Forall_cons; [|apply Forall_nil]); eexists; (split; [exact Hin|reflexivity]).
  Qed.

  Lemma run_from E : forall evs s s',
    incl evs E -> from_events E s -> run ci_key yaml_ok find_iq unit_class input x cfg s evs = Done s' -> from_events E s'.
  Proof.
    induction evs as [|e r IH]; intros s s' Hin Hs H; cbn [run] in H.
    - injection H as <-. exact Hs.
    - unfold obind in H. destruct (step ci_key yaml_ok find_iq unit_class input x cfg s e) as [s1|] eqn:E1; [|discriminate].
      apply (IH s1 s'); [intros a Ha; apply Hin; right; exact Ha| |exact H].
      eapply step_from; [apply Hin; left; reflexivity|exact Hs|exact E1].
  Qed.

  Theorem analyse_values evs r v :
    analyse ci_key yaml_ok find_iq unit_class input x cfg evs = Done (Some r, v) ->
    Forall (fun c => exists ig, In (EIngredient ig) evs /\ c_qty c = igr_qty ig) (r_ingredients r) /\
    Forall (fun c => exists cw, In (ECookware cw) evs /\ c_qty c = cw_qty cw) (r_cookware r) /\
    Forall (fun t => exists pt, In (ETimer pt) evs /\ tm_qty t = timer_qty pt) (r_timers r).
  Proof.
    unfold analyse, obind. intro H.
    destruct (run ci_key yaml_ok find_iq unit_class input x cfg init evs) as [s|] eqn:E; [|discriminate].
    injection H as Ho _. unfold output in Ho. destruct (a_halted s); [discriminate|]. injection Ho as <-.
    cbn [r_ingredients r_cookware r_timers].
    assert (F : from_events evs s).
    { eapply run_from; [apply incl_refl| |exact E]. repeat split; constructor. }
    destruct F as (Fi & Fc & Ft). rewrite Forall_map in Fi, Fc, Ft. repeat split; assumption.
  Qed.
End Values.
