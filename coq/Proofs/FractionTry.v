(* Proofs about Number::try_approx, successive calls of it, FractionsConfigHelper::define and
   ScaledQuantity::try_fraction as modelled in Model/Fraction.v (property C12): whatever number is
   approximated - a plain one or a stored fraction with a recorded error - and however often, its exact
   value is kept; each successful call returns a number of the shape new_approx promises.
   [same_value], [after_calls], [params_ok], [values_kept] are the vocabulary of the statements; they are
   spelled out again in Properties/C12.v. *)
From Coq Require Import List NArith ZArith QArith Qround Qabs Bool Lia Lqa.
From CL Require Import Base.Chars Gen.FracConsts Model.Fraction Proofs.FractionProofs.
Import ListNotations.
Local Open Scope Q_scope.

(* ---------- values of type f64 up to equality of rationals ---------- *)
Definition same_value (a b : f64) : Prop :=
  match a, b with
  | Fin p, Fin q => p == q
  | NaN, NaN | PInf, PInf | NInf, NInf => True
  | _, _ => False
  end.

Lemma same_value_refl a : same_value a a.
Proof. destruct a; cbn; auto. reflexivity. Qed.

Lemma same_value_sym a b : same_value a b -> same_value b a.
Proof. destruct a, b; cbn; auto. intro H. symmetry. exact H. Qed.

Lemma same_value_trans a b c : same_value a b -> same_value b c -> same_value a c.
Proof. destruct a, b, c; cbn; auto; try tauto. intros H1 H2. rewrite H1. exact H2. Qed.

(* ---------- one call ---------- *)
Lemma try_approx_inv c x acc md mw y ok :
  try_approx c x acc md mw = Done (y, ok) ->
  (ok = false /\ y = x) \/
  (ok = true /\ exists v a, value x = Fin v /\ acc = Fin a
                  /\ new_approx c (Fin v) (Fin a) md mw = Done (Some y)).
Proof.
  unfold try_approx.
  destruct (new_approx c (value x) acc md mw) as [[f|]|s] eqn:E; cbn [obind]; try discriminate.
  - intro H. injection H as <- <-. right. split; [reflexivity|].
    destruct acc as [a| | |]; try (cbn in E; discriminate).
    destruct (value x) as [v| | |] eqn:V.
    + exists v, a. auto.
    + exfalso. unfold new_approx in E.
      destruct (negb (Qle_bool acc_lo a && Qle_bool a acc_hi)); [discriminate|].
      destruct (negb (md <=? assert_max_den)%N); discriminate.
    + exfalso. unfold new_approx in E.
      destruct (negb (Qle_bool acc_lo a && Qle_bool a acc_hi)); [discriminate|].
      destruct (negb (md <=? assert_max_den)%N); discriminate.
    + exfalso. unfold new_approx in E.
      destruct (negb (Qle_bool acc_lo a && Qle_bool a acc_hi)); [discriminate|].
      destruct (negb (md <=? assert_max_den)%N); discriminate.
  - intro H. injection H as <- <-. left. auto.
Qed.

Lemma try_approx_value c x acc md mw y ok :
  try_approx c x acc md mw = Done (y, ok) -> same_value (value y) (value x).
Proof.
  intro H. apply try_approx_inv in H.
  destruct H as [[_ ->] | (_ & v & a & V & _ & H)]; [apply same_value_refl|].
  apply new_approx_inv in H. destruct H as (_ & _ & _ & _ & _ & R).
  destruct (approx_exact _ _ _ _ _ R) as (q & -> & E). rewrite V. exact E.
Qed.

Lemma try_approx_success c x acc md mw y :
  try_approx c x acc md mw = Done (y, true) ->
  exists v a, value x = Fin v /\ acc = Fin a /\ 0 < v
    /\ Qabs (err_of y) <= a * v /\ shape v md mw y.
Proof.
  intro H. apply try_approx_inv in H.
  destruct H as [[H _] | (_ & v & a & V & A & H)]; [discriminate|].
  exists v, a. split; [exact V|]. split; [exact A|].
  apply new_approx_inv in H. destruct H as (V0 & [A1 _] & _ & _ & W & R).
  destruct consts_facts as (_ & _ & _ & L & _).
  split; [exact V0|]. split.
  - apply (approx_within v a md mw y V0); [lra | exact R].
  - exact (approx_shape _ _ _ _ _ W R).
Qed.

Lemma try_approx_declined c x acc md mw y :
  try_approx c x acc md mw = Done (y, false) -> y = x.
Proof.
  intro H. apply try_approx_inv in H.
  destruct H as [[_ H] | (H & _)]; [exact H | discriminate].
Qed.

Lemma try_approx_no_panic c x acc md mw :
  acc_lo <= acc <= acc_hi -> (md <= assert_max_den)%N ->
  exists r, try_approx c x (Fin acc) md mw = Done r.
Proof.
  intros A M. unfold try_approx.
  destruct (approx_no_panic c (value x) acc md mw A M) as ([f|] & ->); cbn [obind]; eexists; reflexivity.
Qed.


(* ---------- successive calls ---------- *)

Fixpoint after_calls (v0 : f64) (x : number) (ps : list params) (tr : list (number * bool)) : Prop :=
  match ps, tr with
  | [], [] => True
  | (acc, md, mw) :: ps', (y, ok) :: tr' =>
      same_value (value y) v0
      /\ (if ok : bool
          then exists v a, same_value (Fin v) v0 /\ acc = Fin a /\ 0 < v
                 /\ Qabs (err_of y) <= a * v /\ shape v md mw y
          else y = x)
      /\ after_calls v0 y ps' tr'
  | _, _ => False
  end.

Lemma try_approx_seq_spec c ps : forall x v0 tr,
  same_value (value x) v0 ->
  try_approx_seq c x ps = Done tr -> after_calls v0 x ps tr.
Proof.
  induction ps as [|[[acc md] mw] ps IH]; intros x v0 tr S H.
  - cbn in H. injection H as <-. exact I.
  - cbn [try_approx_seq] in H.
    destruct (try_approx c x acc md mw) as [[y ok]|s] eqn:E; cbn [obind fst] in H; [|discriminate].
    destruct (try_approx_seq c y ps) as [tl|s] eqn:E2; cbn [obind] in H; [|discriminate].
    injection H as <-. cbn [after_calls].
    assert (SY : same_value (value y) v0).
    { eapply same_value_trans; [eapply try_approx_value; exact E | exact S]. }
    split; [exact SY|]. split; [|exact (IH y v0 tl SY E2)].
    destruct ok.
    + destruct (try_approx_success _ _ _ _ _ _ E) as (v & a & V & A & V0 & W & Sh).
      exists v, a. rewrite <- V. auto.
    + exact (try_approx_declined _ _ _ _ _ _ E).
Qed.

Definition params_ok (p : params) : Prop :=
  match p with (acc, md, _) => (exists a, acc = Fin a /\ acc_lo <= a <= acc_hi) /\ (md <= assert_max_den)%N end.

Lemma try_approx_seq_no_panic c ps : forall x,
  Forall params_ok ps -> exists tr, try_approx_seq c x ps = Done tr.
Proof.
  induction ps as [|[[acc md] mw] ps IH]; intros x F.
  - eexists. reflexivity.
  - inversion F as [|p l P F']. subst. cbn [params_ok] in P. destruct P as [(a & -> & A) M]. cbn [try_approx_seq].
    destruct (try_approx_no_panic c x a md mw A M) as (r & ->). cbn [obind].
    destruct (IH (fst r) F') as (tl & ->). cbn [obind]. eexists. reflexivity.
Qed.

Lemma last_cons {A} (a : A) l d : last (a :: l) d = last l a.
Proof.
  revert a d. induction l as [|b l IH]; intros a d; [reflexivity|].
  change (last (a :: b :: l) d) with (last (b :: l) d). rewrite (IH b d), (IH b a). reflexivity.
Qed.

Lemma try_approx_seq_last_gen c ps : forall x b tr,
  try_approx_seq c x ps = Done tr -> same_value (value (fst (last tr (x, b)))) (value x).
Proof.
  induction ps as [|[[acc md] mw] ps IH]; intros x b tr H.
  - cbn in H. injection H as <-. apply same_value_refl.
  - cbn [try_approx_seq] in H.
    destruct (try_approx c x acc md mw) as [[y ok]|s] eqn:E; cbn [obind fst] in H; [|discriminate].
    destruct (try_approx_seq c y ps) as [tl|s] eqn:E2; cbn [obind] in H; [|discriminate].
    injection H as <-. rewrite last_cons.
    eapply same_value_trans; [exact (IH y ok tl E2)|]. eapply try_approx_value. exact E.
Qed.

Lemma try_approx_seq_last c x ps tr :
  try_approx_seq c x ps = Done tr -> same_value (value (fst (last tr (x, false)))) (value x).
Proof. apply try_approx_seq_last_gen. Qed.

Lemma try_approx_seq_total c x ps :
  Forall (fun p : params => match p with (acc, md, _) =>
            (exists a, acc = Fin a /\ 0 <= a <= 1) /\ (md <= 64)%N end) ps ->
  exists tr, try_approx_seq c x ps = Done tr.
Proof.
  intro F. apply try_approx_seq_no_panic. destruct consts_facts as (L & U & D & _).
  eapply Forall_impl; [|exact F]. intros [[acc md] mw] [(a & -> & A1 & A2) M]. cbn [params_ok].
  split; [exists a; split; [reflexivity|split; lra] | lia].
Qed.

(* ---------- define, try_fraction ---------- *)

Lemma clamp_consts :
  acc_lo <= clamp_acc_lo /\ clamp_acc_hi <= acc_hi /\ (clamp_den_hi <= assert_max_den)%N
  /\ clamp_acc_lo <= default_accuracy <= clamp_acc_hi.
Proof.
  pose proof consts_sound as H. unfold consts_soundb in H.
  repeat (apply andb_prop in H; destruct H as [H ?]).
  repeat split; try (apply Qle_bool_iff; assumption). apply N.leb_le; assumption.
Qed.

Definition clamp_bounds_ok : bool := Qle_bool clamp_acc_lo clamp_acc_hi && (clamp_den_lo <=? clamp_den_hi)%N.
Lemma clamp_bounds : clamp_bounds_ok = true.
Proof. vm_compute. reflexivity. Qed.

Lemma clamp_f_range lo hi x : lo <= hi ->
  x <> NaN -> exists a, clamp_f lo hi x = Fin a /\ lo <= a <= hi.
Proof.
  intros LH NN. destruct x as [q| | |]; cbn [clamp_f].
  - destruct (Qlt_bool q lo) eqn:A.
    + exists lo. split; [reflexivity|]. split; [apply Qle_refl|exact LH].
    + apply Qlt_bool_false in A. destruct (Qlt_bool hi q) eqn:B.
      * exists hi. split; [reflexivity|]. split; [exact LH|apply Qle_refl].
      * apply Qlt_bool_false in B. exists q. auto.
  - congruence.
  - exists hi. split; [reflexivity|]. split; [exact LH|apply Qle_refl].
  - exists lo. split; [reflexivity|]. split; [apply Qle_refl|exact LH].
Qed.

Lemma clamp_n_range lo hi x : (lo <= hi)%N -> (lo <= clamp_n lo hi x <= hi)%N.
Proof.
  intro LH. unfold clamp_n. destruct (x <? lo)%N eqn:A; [lia|]. apply N.ltb_ge in A.
  destruct (hi <? x)%N eqn:B; [lia|]. apply N.ltb_ge in B. lia.
Qed.

Lemma define_range h :
  fh_accuracy h <> Some NaN ->
  (exists a, fc_accuracy (define h) = Fin a /\ acc_lo <= a <= acc_hi)
  /\ (fc_max_den (define h) <= assert_max_den)%N.
Proof.
  intro NN. destruct clamp_consts as (L & U & D & _).
  pose proof clamp_bounds as B. unfold clamp_bounds_ok in B. apply andb_prop in B. destruct B as [B1 B2].
  apply Qle_bool_iff in B1. apply N.leb_le in B2. split.
  - cbn [define fc_accuracy].
    destruct (clamp_f_range clamp_acc_lo clamp_acc_hi (opt_or (fh_accuracy h) (Fin default_accuracy)) B1) as (a & -> & A1 & A2).
    { destruct (fh_accuracy h) as [x|]; cbn [opt_or]; congruence. }
    exists a. split; [reflexivity|]. split; lra.
  - cbn [define fc_max_den].
    pose proof (clamp_n_range clamp_den_lo clamp_den_hi (opt_or (fh_max_den h) default_max_den) B2). lia.
Qed.

(* the numbers of a value, pointwise *)
Definition values_kept (v v' : qvalue) : Prop :=
  match v, v' with
  | VNumber n, VNumber n' => same_value (value n') (value n)
  | VRange s e, VRange s' e' => same_value (value s') (value s) /\ same_value (value e') (value e)
  | VText, VText => True
  | _, _ => False
  end.

Lemma values_kept_refl v : values_kept v v.
Proof. destruct v; cbn; auto using same_value_refl. Qed.

Lemma try_fraction_spec c fc v v' ok :
  try_fraction c fc v = Done (v', ok) ->
  values_kept v v' /\ (ok = false -> v' = v).
Proof.
  unfold try_fraction. destruct (negb (fc_enabled fc)).
  { intro H. injection H as <- <-. split; [apply values_kept_refl|reflexivity]. }
  destruct v as [n|s e|].
  - destruct (try_approx c n _ _ _) as [[y b]|st] eqn:E; cbn [obind fst snd]; [|discriminate].
    intro H. injection H as <- <-. split.
    + cbn. eapply try_approx_value. exact E.
    + intros ->. f_equal. eapply try_approx_declined. exact E.
  - destruct (try_approx c s _ _ _) as [[y b]|st] eqn:E; cbn [obind fst snd]; [|discriminate].
    destruct b.
    + intro H. injection H as <- <-. split; [|discriminate].
      cbn. split; [eapply try_approx_value; exact E|apply same_value_refl].
    + apply try_approx_declined in E. subst y.
      destruct (try_approx c e _ _ _) as [[z b]|st] eqn:E2; cbn [obind fst snd]; [|discriminate].
      intro H. injection H as <- <-. split.
      * cbn. split; [apply same_value_refl|eapply try_approx_value; exact E2].
      * intros ->. f_equal. eapply try_approx_declined. exact E2.
  - intro H. injection H as <- <-. split; [exact I|reflexivity].
Qed.

Lemma try_fraction_no_panic c h v :
  fh_accuracy h <> Some NaN -> exists r, try_fraction c (define h) v = Done r.
Proof.
  intro NN. destruct (define_range h NN) as ((a & A & AR) & M).
  unfold try_fraction. destruct (negb (fc_enabled (define h))); [eexists; reflexivity|].
  rewrite A. destruct v as [n|s e|]; [| |eexists; reflexivity].
  - destruct (try_approx_no_panic c n a _ (fc_max_whole (define h)) AR M) as (r & ->). cbn [obind]. eexists. reflexivity.
  - destruct (try_approx_no_panic c s a _ (fc_max_whole (define h)) AR M) as (r & ->). cbn [obind].
    destruct (snd r); [eexists; reflexivity|].
    destruct (try_approx_no_panic c e a _ (fc_max_whole (define h)) AR M) as (r2 & ->). cbn [obind]. eexists. reflexivity.
Qed.
