(* The extra hypothesis of Proofs/ParserCoverChars.v holds for the character classification
   dumped from the implementation (Gen/CharClass.v, regenerated on every run): a letter or digit
   is not white space (char::is_whitespace, Base/Chars.v uni_ws) and is not the backslash.
   Finite check over the table; code points outside the table have no class. *)
From CL Require Import Base.StrLemmas Model.Lexer Model.CommentMask Proofs.MaskProofs Proofs.MaskGen
  Gen.CharClass.

Definition alnum_plain_ok (c : N) (u : ucls) : bool :=
  implb (u_alnum u) (negb (uni_ws c) && negb (c =? 92)).

Lemma gen_alnum_plain_table : forallb (fun kv => alnum_plain_ok (fst kv) (snd kv)) cls_table = true.
Proof. vm_compute. reflexivity. Qed.

Lemma gen_alnum_plain : forall c, u_alnum (U c) = true -> uni_ws c = false /\ (c =? 92) = false.
Proof.
  intros c A. pose proof (lookup_in alnum_plain_ok cls_table gen_alnum_plain_table c (fun x => eq_refl)) as H.
  fold (U c) in H. unfold alnum_plain_ok in H. rewrite A in H. cbn [implb] in H.
  apply andb_true_iff in H as [H1 H2]. apply negb_true_iff in H1. apply negb_true_iff in H2. split; assumption.
Qed.
