(* C02, converse half at document level: a generic event postcondition for ANY source.
   Given a predicate P on parser events that holds for everything the block parsers push
   themselves and for what the three component parsers return under the configuration c,
   every event of [events U c s] satisfies P.  Instances: with COMPONENT_ALIAS off no component
   ever carries an alias (`|` stays in the name); with RANGE_VALUES off no quantity is a range
   (`2-3` is a text value). *)
From CL Require Import Base.StrLemmas Model.Parser Proofs.ParserGates Proofs.C02Invariance Proofs.C02Wide Proofs.C02Quiet.

Section Post.
  Variable c : pcfg.
  Variable P : pevent -> Prop.
  Hypothesis Pdiag : forall d, P (EvDiag d).
  Hypothesis Pstart : forall b, P (EvStart b).
  Hypothesis Pend : forall b, P (EvEnd b).
  Hypothesis Ptext : forall t, P (EvText t).
  Hypothesis Psection : forall n, P (EvSection n).
  Hypothesis Pmeta : forall k v, P (EvMetadata k v).
  Hypothesis Pyaml : forall t, P (EvYaml t).
  Definition oP (o : option pevent) : Prop := match o with Some ev => P ev | None => True end.
  Hypothesis Hing : retk oP (ingredient_p c).
  Hypothesis Hcw : retk oP (cookware_p c).
  Hypothesis Htm : retk oP (timer_p c).

  Definition evp {A} (m : M A) : Prop :=
    forall s a s', m s = Done (a, s') -> Forall P (b_evs s) -> Forall P (b_evs s').

  Lemma evp_bind {A B} (m : M A) (f : A -> M B) : evp m -> (forall a, evp (f a)) -> evp (bind m f).
  Proof.
    intros Hm Hf s b s2 H G. apply bind_inv in H. destruct H as [a [s1 [E1 E2]]].
    exact (Hf a _ _ _ E2 (Hm _ _ _ E1 G)).
  Qed.
  Lemma evp_same {A} (m : M A) : (forall s a s', m s = Done (a, s') -> b_evs s' = b_evs s) -> evp m.
  Proof. intros H s a s' E G. rewrite (H _ _ _ E). exact G. Qed.

  Ltac same := apply evp_same; intros s r0 s' H;
    cbv beta delta [ret get peek at_kind rest all_tokens parsed current_offset panic] in H; inversion H; reflexivity.

  Lemma evp_ret {A} (a : A) : evp (ret a). Proof. same. Qed.
  Lemma evp_peek : evp peek. Proof. same. Qed.
  Lemma evp_at_kind k : evp (at_kind k). Proof. same. Qed.
  Lemma evp_rest : evp rest. Proof. same. Qed.
  Lemma evp_all_tokens : evp all_tokens. Proof. same. Qed.
  Lemma evp_current_offset : evp current_offset. Proof. same. Qed.
  Lemma evp_panic {A} p : evp (@panic A p). Proof. intros s a s' H. discriminate. Qed.
  Lemma evp_lift {A} (o : outcome A) : evp (lift o).
  Proof. apply evp_same. intros s a s' H. unfold lift in H. destruct o; inversion H. reflexivity. Qed.
  Lemma evp_textM cfg off ts : evp (textM cfg off ts). Proof. apply evp_lift. Qed.
  Lemma evp_event ev : P ev -> evp (event ev).
  Proof. intros Hp s a s' H G. unfold event in H. inversion H; subst. cbn [b_evs]. constructor; assumption. Qed.
  Lemma evp_error k l : evp (error k l). Proof. apply evp_event, Pdiag. Qed.
  Lemma evp_warn k l : evp (warn k l). Proof. apply evp_event, Pdiag. Qed.
  Lemma evp_next_token : evp next_token.
  Proof. apply evp_same. intros s a s' H. unfold next_token in H. destruct (b_rest s); inversion H; reflexivity. Qed.
  Lemma evp_bump_any : evp bump_any.
  Proof. unfold bump_any. apply evp_bind; [apply evp_next_token|]. intros [t|]; [apply evp_ret | apply evp_panic]. Qed.
  Lemma evp_bump k : evp (bump k).
  Proof. unfold bump. apply evp_bind; [apply evp_bump_any|]. intros t. destruct (tk_eqb _ _); [apply evp_ret | apply evp_panic]. Qed.
  Lemma evp_consume k : evp (consume k).
  Proof.
    unfold consume. apply evp_bind; [apply evp_at_kind|]. intros [|]; [|apply evp_ret].
    apply evp_bind; [apply evp_bump_any | intros; apply evp_ret].
  Qed.
  Lemma evp_until f : evp (until f).
  Proof.
    apply evp_same. intros s a s' H. unfold until in H. destruct (position f (b_rest s)); inversion H; subst;
      [apply advance_evs | reflexivity].
  Qed.
  Lemma evp_consume_while f : evp (consume_while f).
  Proof. apply evp_same. intros s a s' H. rewrite consume_while_exact in H. inversion H; subst. apply advance_evs. Qed.
  Lemma evp_with_recover {A} (m : M (option A)) : evp m -> evp (with_recover m).
  Proof.
    intros Hm s a s' H G. unfold with_recover in H.
    destruct (m s) as [[[x|] s1]|] eqn:E; inversion H; subst; [|cbn [b_evs]]; exact (Hm _ _ _ E G).
  Qed.
  Lemma evp_obindM {A B} (m : M (option A)) (f : A -> M (option B)) :
    evp m -> (forall a, evp (f a)) -> evp (obindM m f).
  Proof. intros Hm Hf. unfold obindM. apply evp_bind; [exact Hm|]. intros [a|]; [apply Hf | apply evp_ret]. Qed.
  Lemma evp_sub_block {A} ts (m : M A) : evp m -> evp (sub_block ts m).
  Proof.
    intros Hm s a s' H G. unfold sub_block in H. destruct ts; [discriminate|].
    match type of H with match m ?st with _ => _ end = _ => destruct (m st) as [[x s2]|] eqn:E end; inversion H; subst.
    cbn [b_evs]. exact (Hm _ _ _ E G).
  Qed.

  Ltac evp_auto :=
    repeat first
      [ apply evp_ret | apply evp_error | apply evp_warn | apply evp_peek | apply evp_at_kind
      | apply evp_rest | apply evp_all_tokens | apply evp_current_offset | apply evp_panic | apply evp_textM
      | apply evp_lift | apply evp_bump_any | apply evp_bump | apply evp_consume | apply evp_until
      | apply evp_consume_while
      | match goal with
        | |- evp (event (EvDiag _)) => apply evp_event, Pdiag
        | |- evp (event (EvStart _)) => apply evp_event, Pstart
        | |- evp (event (EvEnd _)) => apply evp_event, Pend
        | |- evp (event (EvText _)) => apply evp_event, Ptext
        | |- evp (sub_block _ _) => apply evp_sub_block
        | |- evp (with_recover _) => apply evp_with_recover
        | |- evp (obindM _ _) => apply evp_obindM; [|intros]
        | |- evp (bind _ _) => apply evp_bind; [|intros]
        | |- evp (match ?x with _ => _ end) => destruct x
        | |- evp (if ?x then _ else _) => destruct x
        | |- evp (let '(_, _) := ?x in _) => destruct x
        end ].

  Lemma evp_comp_body : evp comp_body. Proof. unfold comp_body. evp_auto. Qed.
  Lemma evp_note cfg : evp (note cfg). Proof. unfold note. evp_auto. Qed.
  Lemma evp_check_note cfg : evp (check_note cfg). Proof. unfold check_note. evp_auto. Qed.
  Lemma evp_parse_alias cfg ts off : evp (parse_alias cfg ts off). Proof. unfold parse_alias. evp_auto. Qed.
  Lemma evp_check_empty_name t : evp (check_empty_name t). Proof. unfold check_empty_name. evp_auto. Qed.
  Lemma evp_parse_inter ts : evp (parse_inter ts). Proof. unfold parse_inter. cbv zeta. evp_auto. Qed.
  Lemma evp_modifiers_loop cfg fuel : forall acc, evp (modifiers_loop cfg fuel acc).
  Proof. induction fuel as [|f IH]; intros acc; cbn [modifiers_loop]; evp_auto; try apply IH. Qed.
  Lemma evp_modifiers cfg : evp (modifiers cfg).
  Proof. unfold modifiers. evp_auto; try apply evp_modifiers_loop. Qed.
  Lemma evp_parse_mods_loop cfg fuel : forall ts msp mods inter, evp (parse_mods_loop cfg fuel ts msp mods inter).
  Proof. induction fuel as [|f IH]; intros; cbn [parse_mods_loop]; evp_auto; try apply IH; try apply evp_parse_inter. Qed.
  Lemma evp_parse_modifiers cfg mts mpos : evp (parse_modifiers cfg mts mpos).
  Proof. unfold parse_modifiers. evp_auto. apply evp_parse_mods_loop. Qed.
  Lemma evp_scaling_lock : evp scaling_lock. Proof. unfold scaling_lock, ws_comments. evp_auto. Qed.
  Lemma evp_parse_regular_quantity cfg : evp (parse_regular_quantity cfg).
  Proof.
    unfold parse_regular_quantity, value_p, parse_value, text_value, consume_rest.
    repeat first [apply evp_scaling_lock | progress evp_auto].
  Qed.
  Lemma evp_parse_advanced_quantity cfg : evp (parse_advanced_quantity cfg).
  Proof.
    unfold parse_advanced_quantity, ws_comments, consume_rest.
    repeat first [apply evp_scaling_lock | progress evp_auto].
  Qed.
  Lemma evp_parse_quantity cfg ts : evp (parse_quantity cfg ts).
  Proof.
    unfold parse_quantity.
    repeat first [apply evp_parse_regular_quantity | apply evp_parse_advanced_quantity | progress evp_auto].
  Qed.
  Ltac evp_comp :=
    repeat first [ apply evp_modifiers | apply evp_comp_body | apply evp_note | apply evp_check_note | apply evp_parse_alias
                 | apply evp_check_empty_name | apply evp_parse_modifiers | apply evp_parse_quantity
                 | progress evp_auto ].
  Lemma evp_ingredient_p cfg : evp (ingredient_p cfg). Proof. unfold ingredient_p. evp_comp. Qed.
  Lemma evp_cookware_p cfg : evp (cookware_p cfg). Proof. unfold cookware_p. evp_comp. Qed.
  Lemma evp_timer_p cfg : evp (timer_p cfg). Proof. unfold timer_p. evp_comp. Qed.
  Lemma evp_metadata_entry cfg : evp (metadata_entry cfg).
  Proof. unfold metadata_entry, consume_rest. evp_auto. Qed.
  Lemma evp_section_p cfg : evp (section_p cfg).
  Proof. unfold section_p, ws_comments. evp_auto. Qed.
  Lemma evp_text_block_loop cfg fuel : evp (text_block_loop cfg fuel).
  Proof. induction fuel as [|f IH]; cbn [text_block_loop]; evp_auto; try apply IH. Qed.
  Lemma evp_parse_text_block cfg : evp (parse_text_block cfg).
  Proof. unfold parse_text_block. evp_auto. apply evp_text_block_loop. Qed.

  Lemma evp_step_loop fuel : evp (step_loop c fuel).
  Proof.
    induction fuel as [|f IH]; cbn [step_loop]; [apply evp_panic|].
    apply evp_bind; [apply evp_rest|]. intros r. destruct r; [apply evp_ret|].
    apply evp_bind; [apply evp_peek|]. intros k.
    intros s u s' E G. apply bind_inv in E. destruct E as [comp [s2 [E2 E]]].
    assert (H2 : Forall P (b_evs s2) /\ oP comp).
    { destruct k; try (unfold ret in E2; inversion E2; subst; split; [exact G | exact I]).
      - split; [exact (evp_with_recover _ (evp_ingredient_p c) _ _ _ E2 G) | exact (retk_with_recover oP _ I Hing _ _ _ E2)].
      - split; [exact (evp_with_recover _ (evp_cookware_p c) _ _ _ E2 G) | exact (retk_with_recover oP _ I Hcw _ _ _ E2)].
      - split; [exact (evp_with_recover _ (evp_timer_p c) _ _ _ E2 G) | exact (retk_with_recover oP _ I Htm _ _ _ E2)]. }
    destruct H2 as [G2 Pc].
    match type of E with ?m s2 = _ => assert (T : evp m) end; [|exact (T _ _ _ E G2)].
    destruct comp as [ev|].
    - apply evp_bind; [apply evp_event, Pc | intros; apply IH].
    - apply evp_bind; [apply evp_current_offset|]. intros st. apply evp_bind; [apply evp_bump_any|]. intros tk.
      apply evp_bind; [apply evp_consume_while|]. intros more. apply evp_bind; [apply evp_textM|]. intros tx.
      apply evp_bind; [destruct (frags tx); [apply evp_ret | apply evp_event, Ptext] | intros; apply IH].
  Qed.

  Lemma evp_parse_step : evp (parse_step c).
  Proof. unfold parse_step. evp_auto. apply evp_step_loop. Qed.

  Lemma evp_parse_multiline_block : evp (parse_multiline_block c).
  Proof.
    unfold parse_multiline_block, consume_rest. evp_auto; first [apply evp_parse_text_block | apply evp_parse_step].
  Qed.

  Lemma evp_parse_block old : evp (parse_block c old).
  Proof.
    unfold parse_block. apply evp_bind; [apply evp_peek|]. intros k.
    intros s u s' E G. apply bind_inv in E. destruct E as [mos [s2 [E2 E]]].
    assert (H2 : Forall P (b_evs s2) /\ oP mos).
    { destruct k; try (unfold ret in E2; inversion E2; subst; split; [exact G | exact I]).
      - split.
        + refine (evp_with_recover _ _ _ _ _ E2 G). apply evp_obindM; [apply evp_metadata_entry|].
          intros ev. destruct ev; try apply evp_ret. destruct (meta_kept c old key); apply evp_ret.
        + unfold with_recover in E2.
          match type of E2 with match ?m s with _ => _ end = _ => destruct (m s) as [[[x|] sx]|] eqn:Ei end;
            inversion E2; subst; [|exact I].
          apply obindM_inv in Ei. destruct Ei as [ev0 [s3 [Em Ef]]].
          pose proof (retk_metadata_entry c _ _ _ Em) as Hk. cbn [is_meta_or_none] in Hk.
          destruct ev0; try contradiction.
          destruct (meta_kept c old key); unfold ret in Ef; inversion Ef. apply Pmeta.
      - split; [exact (evp_with_recover _ (evp_section_p c) _ _ _ E2 G)|].
        assert (R : retk oP (section_p c)).
        { unfold section_p. repeat first [ apply retk_panic | (apply retk_ret; first [exact I | apply Psection])
            | match goal with
              | |- retk _ (obindM _ _) => apply retk_obindM_skip; [exact I | intros]
              | |- retk _ (bind _ _) => apply retk_bind_skip; intros
              | |- retk _ (match ?x with _ => _ end) => destruct x
              end ]. }
        exact (retk_with_recover oP _ I R _ _ _ E2). }
    destruct H2 as [G2 Pc].
    match type of E with ?m s2 = _ => assert (T : evp m) end; [|exact (T _ _ _ E G2)].
    destruct mos as [ev|]; [apply evp_event, Pc | apply evp_parse_multiline_block].
  Qed.

  Lemma run_block_post old ts evs evs' :
    run_block ts evs (parse_block c old) = Done evs' -> Forall P evs -> Forall P evs'.
  Proof.
    intros E G. unfold run_block in E. destruct ts as [|t r]; [discriminate|].
    match type of E with match ?m with _ => _ end = _ => destruct m as [[u s']|] eqn:Em end; [|discriminate].
    destruct (b_rest s'); inversion E; subst. exact (evp_parse_block old _ _ _ Em G).
  Qed.

  Lemma blocks_loop_post old fuel : forall ts evs evs',
    blocks_loop c fuel ts old evs = Done evs' -> Forall P evs -> Forall P evs'.
  Proof.
    induction fuel as [|f IH]; intros ts evs evs' E G; cbn [blocks_loop] in E; [discriminate|].
    destruct (next_block (S (length ts)) ts) as [[blk r]|]; [|inversion E; subst; exact G].
    destruct (run_block blk evs (parse_block c old)) as [evs1|] eqn:Er; cbn [obind] in E; [|discriminate].
    exact (IH _ _ _ E (run_block_post old blk evs evs1 Er G)).
  Qed.

  Theorem events_post U s evs : events U c s = Done evs -> Forall P evs.
  Proof.
    intro E. unfold events in E. destruct (parse_frontmatter c s) as [fm|].
    - destruct (lex_at U (cook_text fm) (cook_off fm)) as [ts|]; [|discriminate].
      match type of E with obind ?b _ = _ => destruct b as [revs|] eqn:Eb end; cbn [obind] in E; inversion E; subst.
      apply Forall_rev. refine (blocks_loop_post false _ ts _ revs Eb _). constructor; [apply Pyaml | constructor].
    - destruct (lex_at U s 0) as [ts|]; [|discriminate].
      match type of E with obind ?b _ = _ => destruct b as [revs|] eqn:Eb end; cbn [obind] in E; inversion E; subst.
      apply Forall_rev. exact (blocks_loop_post true _ ts _ revs Eb (Forall_nil _)).
  Qed.
End Post.

(* ---------------------------------------------------------------- COMPONENT_ALIAS off: `|` stays in the name *)
Definition Palias (ev : pevent) : Prop :=
  match ev with
  | EvIngredient i => i_alias i = None
  | EvCookware k => c_alias k = None
  | _ => True
  end.

Lemma parse_alias_off_none c ts off s name alias s' :
  has c X_COMPONENT_ALIAS = false -> parse_alias c ts off s = Done ((name, alias), s') -> alias = None.
Proof.
  intros H E. rewrite (alias_off c ts off H) in E. apply bind_inv in E. destruct E as [nt [s1 [_ E]]].
  unfold ret in E. inversion E. reflexivity.
Qed.

Lemma ingredient_alias_off c : has c X_COMPONENT_ALIAS = false -> retk (oP Palias) (ingredient_p c).
Proof.
  intros H s o s' E. destruct o as [ev|]; [|exact I]. unfold ingredient_p in E.
  apply bind_inv in E. destruct E as [start [s0 [_ E]]].
  apply obindM_inv in E. destruct E as [at_ [s1 [_ E]]].
  apply bind_inv in E. destruct E as [mpos [s2 [_ E]]].
  apply bind_inv in E. destruct E as [mts [s3 [_ E]]].
  apply bind_inv in E. destruct E as [noff [s4 [_ E]]].
  apply obindM_inv in E. destruct E as [bd [s5 [_ E]]].
  apply bind_inv in E. destruct E as [nt [s6 [_ E]]].
  apply bind_inv in E. destruct E as [en [s7 [_ E]]].
  apply bind_inv in E. destruct E as [[name alias] [s8 [E8 E]]].
  pose proof (parse_alias_off_none _ _ _ _ _ _ _ H E8) as ->.
  apply bind_inv in E. destruct E as [u [s9 [_ E]]].
  apply bind_inv in E. destruct E as [[[m msp] inter] [s10 [_ E]]].
  apply bind_inv in E. destruct E as [q [s11 [_ E]]].
  unfold ret in E. inversion E. reflexivity.
Qed.

Lemma cookware_alias_off c : has c X_COMPONENT_ALIAS = false -> retk (oP Palias) (cookware_p c).
Proof.
  intros H s o s' E. destruct o as [ev|]; [|exact I]. unfold cookware_p in E.
  apply bind_inv in E. destruct E as [start [s0 [_ E]]].
  apply obindM_inv in E. destruct E as [at_ [s1 [_ E]]].
  apply bind_inv in E. destruct E as [mpos [s2 [_ E]]].
  apply bind_inv in E. destruct E as [mts [s3 [_ E]]].
  apply bind_inv in E. destruct E as [noff [s4 [_ E]]].
  apply obindM_inv in E. destruct E as [bd [s5 [_ E]]].
  apply bind_inv in E. destruct E as [nt [s6 [_ E]]].
  apply bind_inv in E. destruct E as [en [s7 [_ E]]].
  apply bind_inv in E. destruct E as [[name alias] [s8 [E8 E]]].
  pose proof (parse_alias_off_none _ _ _ _ _ _ _ H E8) as ->.
  apply bind_inv in E. destruct E as [u [s9 [_ E]]].
  apply bind_inv in E. destruct E as [q [s10 [_ E]]].
  apply bind_inv in E. destruct E as [[[m msp] inter] [s11 [_ E]]].
  apply bind_inv in E. destruct E as [u1 [s12 [_ E]]].
  apply bind_inv in E. destruct E as [u2 [s13 [_ E]]].
  unfold ret in E. inversion E. reflexivity.
Qed.

Lemma timer_any (Q : pevent -> Prop) c : (forall t, Q (EvTimer t)) -> retk (oP Q) (timer_p c).
Proof.
  intro HQ. unfold timer_p.
  repeat first
    [ apply retk_panic | (apply retk_ret; first [exact I | apply HQ])
    | match goal with
      | |- retk _ (obindM _ _) => apply retk_obindM_skip; [exact I | intros]
      | |- retk _ (bind _ _) => apply retk_bind_skip; intros
      | |- retk _ (match ?x with _ => _ end) => destruct x
      | |- retk _ (if ?x then _ else _) => destruct x
      | |- retk _ (let '(_, _) := ?x in _) => destruct x
      end ].
Qed.

(* any document: with COMPONENT_ALIAS off no ingredient or cookware event carries an alias *)
Theorem alias_off_document U c s evs :
  has c X_COMPONENT_ALIAS = false -> events U c s = Done evs -> Forall Palias evs.
Proof.
  intros H E. refine (events_post c Palias _ _ _ _ _ _ _ _ _ _ U s evs E); try (intros; exact I).
  - exact (ingredient_alias_off c H).
  - exact (cookware_alias_off c H).
  - apply timer_any. intros; exact I.
Qed.

(* ---------------------------------------------------------------- RANGE_VALUES off: `2-3` is a text value *)
Definition vr (v : value) : Prop := match v with VRange _ _ => False | _ => True end.
Definition Prange (ev : pevent) : Prop :=
  match ev with
  | EvIngredient i => forall q, i_qty i = Some q -> vr (qv (q_val q))
  | EvCookware k => forall q sp, c_qty k = Some (q, sp) -> vr (qv q)
  | EvTimer t => forall q, t_qty t = Some q -> vr (qv (q_val q))
  | _ => True
  end.

Lemma retk_bind {A B} (Q : A -> Prop) (P : B -> Prop) (m : M A) (f : A -> M B) :
  retk Q m -> (forall a, Q a -> retk P (f a)) -> retk P (bind m f).
Proof.
  intros Hm Hf s b s' E. apply bind_inv in E. destruct E as [a [s1 [E1 E2]]].
  exact (Hf a (Hm _ _ _ E1) _ _ _ E2).
Qed.
Lemma retk_sub_block {A} (P : A -> Prop) ts (m : M A) : retk P m -> retk P (sub_block ts m).
Proof.
  intros Hm s a s' E. unfold sub_block in E. destruct ts; [discriminate|].
  match type of E with match m ?st with _ => _ end = _ => destruct (m st) as [[x s2]|] eqn:Em end; inversion E; subst.
  exact (Hm _ _ _ Em).
Qed.

Ltac skip_auto fin :=
  repeat first
    [ apply retk_panic | (apply retk_ret; fin)
    | match goal with
      | |- retk _ (obindM _ _) => apply retk_obindM_skip; [exact I | intros]
      | |- retk _ (bind _ _) => apply retk_bind_skip; intros
      | |- retk _ (match ?x with _ => _ end) => destruct x
      | |- retk _ (if ?x then _ else _) => destruct x
      | |- retk _ (let '(_, _) := ?x in _) => destruct x
      end ].

Section RangeOff.
  Variable c : pcfg.
  Hypothesis Hoff : has c X_RANGE_VALUES = false.

  Lemma range_or_numeric_off ts :
    range_or_numeric c ts = match numeric_value ts with
                            | Some (inl e) => Some (inl e)
                            | Some (inr n) => Some (inr (VNum n))
                            | None => None
                            end.
  Proof. unfold range_or_numeric. rewrite (range_off c ts Hoff). reflexivity. Qed.

  Lemma parse_value_no_range ts : retk (fun p => vr (fst p)) (parse_value c ts).
  Proof.
    unfold parse_value. apply retk_bind_skip. intros co. rewrite range_or_numeric_off.
    destruct (numeric_value ts) as [[d|n]|].
    - apply retk_bind_skip. intros _. apply retk_ret. exact I.
    - apply retk_ret. exact I.
    - apply (retk_bind vr); [unfold text_value; skip_auto ltac:(exact I) | intros v Hv; apply retk_ret; exact Hv].
  Qed.

  Lemma value_p_no_range : retk (fun v => vr (qv v)) (value_p c).
  Proof.
    unfold value_p. apply retk_bind_skip. intros lock. apply retk_bind_skip. intros vts.
    eapply retk_bind; [apply parse_value_no_range|]. intros [v sp] Hv. apply retk_ret. exact Hv.
  Qed.

  Definition qpost (p : quantity * option span) : Prop := vr (qv (q_val (fst p))).

  Lemma parse_regular_quantity_no_range : retk qpost (parse_regular_quantity c).
  Proof.
    unfold parse_regular_quantity. eapply retk_bind; [apply value_p_no_range|]. intros v Hv.
    skip_auto ltac:(exact Hv).
  Qed.

  Lemma parse_advanced_quantity_no_range :
    retk (fun o => match o with Some p => qpost p | None => True end) (parse_advanced_quantity c).
  Proof.
    unfold parse_advanced_quantity.
    repeat first
      [ apply retk_panic | (apply retk_ret; exact I)
      | match goal with
        | |- retk _ (match range_or_numeric c ?v with _ => _ end) => fail 2
        | |- retk _ (bind _ _) => apply retk_bind_skip; intros
        | |- retk _ (match ?x with _ => _ end) => destruct x
        | |- retk _ (if ?x then _ else _) => destruct x
        end ].
    all: rewrite range_or_numeric_off;
      match goal with |- context [numeric_value ?v] => destruct (numeric_value v) as [[d|n]|] end;
      cbv beta iota;
      first [ apply retk_ret; exact I
            | apply (retk_bind vr);
              [ skip_auto ltac:(exact I)
              | intros v Hv; apply retk_bind_skip; intros; apply retk_ret; exact Hv ] ].
  Qed.

  Lemma parse_quantity_no_range ts : retk qpost (parse_quantity c ts).
  Proof.
    unfold parse_quantity. destruct ts; [apply retk_panic|]. apply retk_sub_block.
    destruct (has c X_ADVANCED_UNITS); [|apply parse_regular_quantity_no_range].
    eapply retk_bind; [apply (retk_with_recover _ _ I parse_advanced_quantity_no_range)|].
    intros [p|] Hp; [apply retk_ret; exact Hp | apply parse_regular_quantity_no_range].
  Qed.
End RangeOff.

Section RangeOffDoc.
  Variable c : pcfg.
  Hypothesis Hoff : has c X_RANGE_VALUES = false.

  Definition qp (qo : option quantity) : Prop := forall q, qo = Some q -> vr (qv (q_val q)).

  Ltac skip1 :=
    first [ apply retk_obindM_skip; [exact I | intros] | apply retk_bind_skip; intros ];
    repeat match goal with |- retk _ (let '(_, _) := ?x in _) => destruct x end.

  Lemma ingredient_range_off : retk (oP Prange) (ingredient_p c).
  Proof.
    unfold ingredient_p. do 11 skip1.
    apply (retk_bind qp).
    - destruct (bd_qty _) as [qts|].
      + eapply retk_bind; [apply (parse_quantity_no_range c Hoff)|]. intros [q u] Hq. apply retk_ret.
        intros q0 E. inversion E; subst. exact Hq.
      + apply retk_ret. intros q0 E. discriminate.
    - intros q Hq. apply retk_ret. cbn [oP Prange i_qty]. exact Hq.
  Qed.

  Lemma cookware_range_off : retk (oP Prange) (cookware_p c).
  Proof.
    unfold cookware_p. do 10 skip1.
    apply (retk_bind (fun qo => forall q sp, qo = Some (q, sp) -> vr (qv q))).
    - destruct (bd_qty _) as [qts|].
      + eapply retk_bind; [apply (parse_quantity_no_range c Hoff)|]. intros [q u] Hq.
        apply retk_bind_skip. intros _. apply retk_ret. intros q0 sp E. inversion E; subst. exact Hq.
      + apply retk_ret. intros q0 sp E. discriminate.
    - intros q Hq. do 3 skip1. apply retk_ret. cbn [oP Prange c_qty]. exact Hq.
  Qed.

  Lemma qp_recover : qp (Some quantity_recover).
  Proof. intros q E. inversion E; subst. exact I. Qed.

  Lemma timer_range_off : retk (oP Prange) (timer_p c).
  Proof.
    unfold timer_p. do 10 skip1.
    apply (retk_bind qp).
    - destruct (bd_qty _) as [qts|].
      + eapply retk_bind; [apply (parse_quantity_no_range c Hoff)|]. intros [q u] Hq.
        apply retk_bind_skip. intros _. apply retk_ret. intros q0 E. inversion E; subst. exact Hq.
      + apply retk_ret. intros q0 E. discriminate.
    - intros q1 H1. apply (retk_bind qp).
      + destruct q1 as [q|]; [apply retk_ret; exact H1|].
        destruct (has c X_TIMER_REQUIRES_TIME); [|apply retk_ret; exact H1].
        apply retk_bind_skip. intros _. apply retk_ret, qp_recover.
      + intros q2 H2. cbv zeta. apply (retk_bind qp).
        * destruct (is_text_empty _); [destruct q2|]; try (apply retk_ret; exact H2).
          apply retk_bind_skip. intros _. apply retk_ret, qp_recover.
        * intros q3 H3. apply retk_ret. cbn [oP Prange t_qty]. exact H3.
  Qed.

  (* any document: with RANGE_VALUES off no quantity of any event is a range *)
  Theorem range_off_document U s evs : events U c s = Done evs -> Forall Prange evs.
  Proof.
    intro E. refine (events_post c Prange _ _ _ _ _ _ _ _ _ _ U s evs E); try (intros; exact I).
    - exact ingredient_range_off.
    - exact cookware_range_off.
    - exact timer_range_off.
  Qed.
End RangeOffDoc.
