(* Property C17, text mode: a component parser that returns an event has consumed at least its
   marker, and the last token it consumed is neither blank nor comment (a closing brace, the closing
   parenthesis of a note, or the last word of a name without braces).  Unary, by the frame
   calculus of Proofs/ParserCoverFrame.v. *)
From CL Require Import Base.StrLemmas Model.Lexer Model.PText Model.CommentMask Model.Parser
  Proofs.LexerProofs Proofs.ParserSeg Proofs.ParserCover Proofs.ParserCoverFrame Proofs.EditTextTrailTok.

Definition hd_solid (s : bp) : Prop := exists t d, b_done s = t :: d /\ solid t = true.

Lemma hd_solid_mv1 s t s' k : mv s [t] s' -> kind t = k -> is_ws_comment k = false -> hd_solid s'.
Proof.
  intros (_ & _ & D & _) K S. exists t, (b_done s). split; [exact D|]. unfold solid. rewrite K, S. reflexivity.
Qed.

Lemma hd_solid_mv_swt s ts s' :
  mv s ts s' -> ts <> [] -> Forall (fun t => is_single_word_tok (kind t) = true) ts -> hd_solid s'.
Proof.
  intros (_ & _ & D & _) N F. destruct (rev ts) as [|t r] eqn:E.
  - apply (f_equal (@rev tok)) in E. rewrite rev_involutive in E. contradiction.
  - exists t, (r ++ b_done s). split; [rewrite D; reflexivity|].
    assert (I : In t ts) by (apply in_rev; rewrite E; left; reflexivity).
    rewrite Forall_forall in F. specialize (F t I). unfold solid. destruct (kind t); try discriminate F; reflexivity.
Qed.

Lemma hd_solid_keep s s' : b_done s' = b_done s -> hd_solid s -> hd_solid s'.
Proof. intros E (t & d & D & S). exists t, d. split; [congruence | exact S]. Qed.

Section Solid.
  Variable cfg : pcfg.

  Lemma comp_body_sol s (R : option body -> bp -> Prop) :
    (forall o s', grow s s' -> (o <> None -> hd_solid s') -> R o s') -> pc comp_body s R.
  Proof.
    intro HR. unfold comp_body. pcgo; apply HR; try gsolve; intro NN; try (contradiction NN; reflexivity);
      match goal with
      | H : mv _ [?t] ?X, K : kind ?t = KCloseBrace |- hd_solid ?X => exact (hd_solid_mv1 _ _ _ _ H K eq_refl)
      | H : mv _ ?ts ?X, F : Forall _ ?ts |- hd_solid ?X => apply (hd_solid_mv_swt _ ts _ H); [congruence | exact F]
      end.
  Qed.

  Lemma note_sol s (R : option text -> bp -> Prop) :
    (forall o s', grow s s' -> (hd_solid s -> hd_solid s') -> R o s') -> pc (note cfg) s R.
  Proof.
    intro HR. unfold note. pcgo; apply HR; try gsolve; intro HS;
      first [ match goal with
              | H : mv _ [?t] ?X, K : kind ?t = KCloseParen |- hd_solid ?X => exact (hd_solid_mv1 _ _ _ _ H K eq_refl)
              end
            | exact HS ].
  Qed.

  Ltac pcsol :=
    lazymatch goal with
    | |- pc comp_body _ _ => apply comp_body_sol; intros ? ? ? ?
    | |- pc (note _) _ _ => apply note_sol; intros ? ? ? ?
    | |- _ => pcframe
    end.
  Ltac pcfun ::= pcsol.

  Definition comp_sol (s : bp) (o : option pevent) (s' : bp) : Prop :=
    o <> None -> hd_solid s' /\ exists t c, fwd s (t :: c) s'.

  Ltac fin_fwd :=
    match goal with
    | H : mv ?s [?t] ?s1 |- exists t c, fwd ?s (t :: c) ?X =>
        let G := fresh in
        assert (G : grow s1 X) by gsolve; destruct G as [[c G] _];
        exists t, c; exact (fwd_trans _ _ _ _ _ (mv_fwd _ _ _ H) G)
    end.

  Lemma ingredient_sol s : pc (ingredient_p cfg) s (comp_sol s).
  Proof.
    unfold ingredient_p, comp_sol. pcgo; intro NN; try (contradiction NN; reflexivity); (split; [|fin_fwd]);
      match goal with
      | Hn : hd_solid ?a -> hd_solid ?b, Hc : Some _ <> None -> hd_solid ?a |- hd_solid ?X =>
          let S := fresh in assert (S : stay b X) by ssolve;
          apply (hd_solid_keep b X (stay_done _ _ S)); apply Hn, Hc; discriminate
      end.
  Qed.

  Lemma cookware_sol s : pc (cookware_p cfg) s (comp_sol s).
  Proof.
    unfold cookware_p, comp_sol. pcgo; intro NN; try (contradiction NN; reflexivity); (split; [|fin_fwd]);
      match goal with
      | Hn : hd_solid ?a -> hd_solid ?b, Hc : Some _ <> None -> hd_solid ?a |- hd_solid ?X =>
          let S := fresh in assert (S : stay b X) by ssolve;
          apply (hd_solid_keep b X (stay_done _ _ S)); apply Hn, Hc; discriminate
      end.
  Qed.

  Lemma timer_sol s : pc (timer_p cfg) s (comp_sol s).
  Proof.
    unfold timer_p, comp_sol. pcgo; intro NN; try (contradiction NN; reflexivity); (split; [|fin_fwd]);
      match goal with
      | Hc : Some _ <> None -> hd_solid ?a |- hd_solid ?X =>
          let S := fresh in assert (S : stay a X) by ssolve;
          apply (hd_solid_keep a X (stay_done _ _ S)); apply Hc; discriminate
      end.
  Qed.
End Solid.

(* the consumed run ends in a solid token *)
Lemma comp_sol_run s o s' c :
  comp_sol s o s' -> o <> None -> fwd s c s' -> exists c0 t, c = c0 ++ [t] /\ solid t = true.
Proof.
  intros H N (A1 & A2 & A3). destruct (H N) as ((t & d & D & St) & (t0 & c' & (_ & B2 & _))).
  assert (E : c = t0 :: c').
  { rewrite A2 in B2. change ((t0 :: c') ++ b_rest s') with (t0 :: c' ++ b_rest s') in B2.
    apply (app_inv_tail (b_rest s')). exact B2. }
  destruct (@exists_last _ c) as (c0 & x & Ec); [rewrite E; discriminate|].
  exists c0, x. split; [exact Ec|]. rewrite Ec, rev_app_distr in A3. cbn [rev app] in A3. rewrite A3 in D.
  injection D as <- _. exact St.
Qed.
