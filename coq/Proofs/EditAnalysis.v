(* Property C17, analysis stage: the analysis pass (Model/Analysis.v, RecipeCollector of
   src/analysis/event_consumer.rs) and the metadata map (Model/MetaMap.v) read the parser's events
   only through the projection [proj] of Proofs/EditSimDefs.v - with two exceptions that are stated
   as hypotheses and shown to be needed:

   text mode   in a block read while define_mode == Text, [in_text] pushes the RAW SOURCE of a
               component, `self.input[ev.span().range()]` (event_consumer.rs:570): the recipe then
               depends on the source text and on a span.  Text mode is entered only through a
               metadata entry `[mode]: text` / `[define]: text` with the MODES extension on
               ([text_mode_entry]); hypothesis [no_text_mode]: no such entry (or MODES off).
               [text_mode_needed]: without it the statement is false (a block comment inside a
               component name of a text-mode block appears in the recipe text).
   YAML        [proj] keeps the front matter up to its line endings; the YAML oracles get the text
               itself.  Hypothesis: the oracle gives the same answer for two texts that differ only
               in LF / CRLF ([crlf_blind]).

   Everything else the two models read is a function of the projection: names, aliases, notes,
   units and metadata keys as [text_trimmed], metadata values as [text_outer_trimmed], step and
   paragraph text as [text_str], numbers, locks, modifiers, intermediate-reference data, block
   kinds, whether a diagnostic is an error.  The other oracles (case folding [ci_key], inline
   quantities [find_iq], [unit_class]) are applied to such strings only, so they see the same
   arguments on both sides; nothing is assumed about them.

   The recipe of the model carries no span, so the conclusion is plain equality of the outcomes:
   same recipe (sections, steps, items, component tables with names, quantities, relations,
   modifiers, timers, inline count), same validity, same panic site if any - and the same metadata
   map. *)
From Coq Require Import ZArith Lia.
From CL Require Import Base.StrLemmas Model.Lexer Model.PText Model.CommentMask Model.Parser Model.Edits Model.EventBridge
  Model.MetaMap Gen.ExtBits Proofs.LexerProofs Proofs.MaskProofs Proofs.EditProofs Proofs.EditParserProofs Proofs.EditLink Proofs.ParserTotal
  Proofs.EditSimDefs Proofs.EditSimDoc Proofs.ParseTotal.
From CL Require Model.Events Model.Analysis.
Open Scope N_scope.

(* an oracle on strings that does not see the spelling of line endings *)
Definition crlf_blind {A} (f : str -> A) : Prop := forall a b, crlf a = crlf b -> f a = f b.

(* metadata() 340-391: the entry switches define_mode to Text *)
Definition text_mode_entry (k v : text) : bool :=
  let key_t := text_trimmed k in
  let config_key := removelast (tl key_t) in
  (match key_t with c :: _ => c =? 91 | [] => false end)
  && (match rev key_t with c :: _ => c =? 93 | [] => false end)
  && (str_eqb config_key Analysis.s_define || str_eqb config_key Analysis.s_mode)
  && str_eqb (text_outer_trimmed v) Analysis.s_text.

Definition selects_text_mode (e : pevent) : bool :=
  match e with EvMetadata k v => text_mode_entry k v | _ => false end.

Definition no_text_mode (x : Analysis.aext) (evs : list pevent) : Prop :=
  Analysis.x_modes x = false \/ Forall (fun e => selects_text_mode e = false) evs.

(* ------------------------------------------------------------------ texts and options *)
Lemma abs_str t : text_str (abstract_text t) = text_str t. Proof. reflexivity. Qed.
Lemma abs_outer t : text_outer_trimmed (abstract_text t) = text_outer_trimmed t. Proof. reflexivity. Qed.
Lemma abs_trimmed t : text_trimmed (abstract_text t) = tx t. Proof. reflexivity. Qed.
Lemma abs_otrimmed o : option_map text_trimmed (option_map abstract_text o) = option_map tx o.
Proof. destruct o; reflexivity. Qed.

Lemma is_some_map {A B} (f : A -> B) o : Events.is_some (option_map f o) = Events.is_some o.
Proof. destruct o; reflexivity. Qed.
Lemma is_some_eq {A B C} (f : A -> C) (g : B -> C) o1 o2 :
  option_map f o1 = option_map g o2 -> Events.is_some o1 = Events.is_some o2.
Proof. destruct o1, o2; cbn; congruence. Qed.

Lemma some_inj {A} (a b : A) : Some a = Some b -> a = b. Proof. congruence. Qed.

(* ------------------------------------------------------------------ quantities *)
Definition qinfo_of (ing : bool) (p : value * bool * option str) : Analysis.qinfo :=
  let t := match fst (fst p) with VText _ => true | _ => false end in
  {| Analysis.qi_text := t; Analysis.qi_fixed := negb (ing && negb t && negb (snd (fst p)));
     Analysis.qi_unit := snd p; Analysis.qi_value := abstract_value (fst (fst p)) |}.

Lemma abs_value_is_text v :
  Events.pvalue_is_text (abstract_value v) = match v with VText _ => true | _ => false end.
Proof. destruct v; reflexivity. Qed.

Lemma quantity_info_pq ing q : Analysis.quantity_info ing (abstract_quantity q) = qinfo_of ing (pq q).
Proof.
  destruct q as [[v sp l] u qs]. unfold Analysis.quantity_info, Analysis.value_info, qinfo_of, pq, pqv, abstract_quantity, abstract_qvalue.
  cbn [Events.pq_value Events.pq_unit Events.qv_value Events.qv_lock Analysis.qi_text Analysis.qi_fixed Analysis.qi_value fst snd
       q_val q_unit qv qlock].
  rewrite abs_value_is_text, abs_otrimmed. reflexivity.
Qed.

Lemma value_info_pqv v : Analysis.value_info false (abstract_qvalue v) = qinfo_of false (pqv v, None).
Proof.
  destruct v as [v sp l]. unfold Analysis.value_info, qinfo_of, pqv, abstract_qvalue.
  cbn [Events.qv_value Events.qv_lock fst snd qv qlock]. rewrite abs_value_is_text. reflexivity.
Qed.

Lemma oq_info ing o1 o2 :
  option_map pq o1 = option_map pq o2 ->
  option_map (Analysis.quantity_info ing) (option_map abstract_quantity o1)
  = option_map (Analysis.quantity_info ing) (option_map abstract_quantity o2).
Proof.
  destruct o1, o2; cbn [option_map]; try discriminate; [|reflexivity]. intro H. apply some_inj in H. rewrite !quantity_info_pq, H. reflexivity.
Qed.

Lemma ov_info {T} (o1 o2 : option (qvalue * T)) :
  option_map (fun q => pqv (fst q)) o1 = option_map (fun q => pqv (fst q)) o2 ->
  option_map (Analysis.value_info false) (option_map (fun q => abstract_qvalue (fst q)) o1)
  = option_map (Analysis.value_info false) (option_map (fun q => abstract_qvalue (fst q)) o2).
Proof.
  destruct o1, o2; cbn [option_map]; try discriminate; [|reflexivity]. intro H. apply some_inj in H. rewrite !value_info_pqv, H. reflexivity.
Qed.

Lemma inter_eq o1 o2 :
  option_map pinter o1 = option_map pinter o2 -> option_map abstract_inter o1 = option_map abstract_inter o2.
Proof.
  destruct o1 as [d1|], o2 as [d2|]; cbn [option_map]; try discriminate; [|reflexivity]. unfold pinter. intro H. injection H as H1 H2 H3.
  unfold abstract_inter. rewrite H1, H2, H3. reflexivity.
Qed.

Section Blind.
  Variable ci_key : str -> str.
  Variable yaml_ok : str -> bool.
  Variable find_iq : str -> option (str * str).
  Variable unit_class : str -> N.
  Variable x : Analysis.aext.
  Variable acfg : Analysis.acfg.
  Hypothesis yaml_ok_blind : crlf_blind yaml_ok.

  Notation astep inp := (Analysis.step ci_key yaml_ok find_iq unit_class inp x acfg).
  Notation arun inp := (Analysis.run ci_key yaml_ok find_iq unit_class inp x acfg).

  (* ---------------------------------------------------------------- the three components *)
  Lemma ingredient_blind s i1 i2 :
    proj (EvIngredient i1) = proj (EvIngredient i2) ->
    match abstract_event (EvIngredient i1), abstract_event (EvIngredient i2) with
    | Events.EIngredient g1, Events.EIngredient g2 => Analysis.ingredient ci_key x s g1 = Analysis.ingredient ci_key x s g2
    | _, _ => False
    end.
  Proof.
    cbn [proj abstract_event]. intro H. injection H as Hm Hi Hn Ha Hq Ho.
    unfold Analysis.ingredient.
    cbn [Events.pi_span Events.pi_mods Events.pi_inter Events.pi_name Events.pi_alias Events.pi_quantity Events.pi_note].
    rewrite !abs_trimmed, !abs_otrimmed, !is_some_map.
    rewrite Hm, Hn, Ha, Ho, (inter_eq _ _ Hi), (oq_info true _ _ Hq), (is_some_eq _ _ _ _ Ho). reflexivity.
  Qed.

  Lemma cookware_blind s c1 c2 :
    proj (EvCookware c1) = proj (EvCookware c2) ->
    match abstract_event (EvCookware c1), abstract_event (EvCookware c2) with
    | Events.ECookware g1, Events.ECookware g2 => Analysis.cookware ci_key s g1 = Analysis.cookware ci_key s g2
    | _, _ => False
    end.
  Proof.
    cbn [proj abstract_event]. intro H. injection H as Hm Hn Ha Hq Ho.
    unfold Analysis.cookware.
    cbn [Events.pc_span Events.pc_mods Events.pc_name Events.pc_alias Events.pc_quantity Events.pc_note].
    rewrite !abs_trimmed, !abs_otrimmed, !is_some_map.
    rewrite Hm, Hn, Ha, Ho, (ov_info _ _ Hq), (is_some_eq _ _ _ _ Ho). reflexivity.
  Qed.

  Lemma timer_blind s t1 t2 :
    proj (EvTimer t1) = proj (EvTimer t2) ->
    match abstract_event (EvTimer t1), abstract_event (EvTimer t2) with
    | Events.ETimer g1, Events.ETimer g2 => Analysis.timer unit_class x s g1 = Analysis.timer unit_class x s g2
    | _, _ => False
    end.
  Proof.
    cbn [proj abstract_event]. intro H. injection H as Hn Hq.
    unfold Analysis.timer. cbn [Events.pt_span Events.pt_name Events.pt_quantity].
    rewrite !abs_otrimmed, Hn, (oq_info false _ _ Hq). reflexivity.
  Qed.

  (* ---------------------------------------------------------------- one event *)
  Definition not_text (s : Analysis.astate) : Prop := Analysis.dm_eqb (Analysis.a_define s) Analysis.DMText = false.

  Lemma step_blind in1 in2 s e1 e2 :
    proj e1 = proj e2 -> not_text s ->
    astep in1 s (abstract_event e1) = astep in2 s (abstract_event e2).
  Proof.
    intros H NT. unfold Analysis.step. destruct (Analysis.a_halted s); [reflexivity|].
    destruct e1, e2; try discriminate H.
    - (* YAML *) cbn [proj abstract_event] in *. injection H as H. rewrite !abs_str, (yaml_ok_blind _ _ H). reflexivity.
    - (* metadata *) cbn [proj abstract_event] in *. injection H as Hk Hv. unfold Analysis.metadata.
      rewrite !abs_trimmed, !abs_outer, Hk, Hv. reflexivity.
    - cbn [proj abstract_event] in *. injection H as H. rewrite !abs_otrimmed, H. reflexivity.
    - cbn [proj abstract_event] in *. injection H as ->. reflexivity.
    - cbn [proj abstract_event] in *. injection H as ->. reflexivity.
    - (* text *) cbn [proj abstract_event] in *. injection H as H.
      destruct (Analysis.a_block s) as [[items|tt]|]; [| |reflexivity].
      + unfold Analysis.in_step. rewrite !abs_str, H. reflexivity.
      + unfold Analysis.in_text. rewrite !abs_str, H. reflexivity.
    - (* ingredient *) pose proof (ingredient_blind s i i0 H) as E. cbn [abstract_event] in *.
      destruct (Analysis.a_block s) as [[items|tt]|]; [| |reflexivity].
      + unfold Analysis.in_step. rewrite E. reflexivity.
      + unfold Analysis.in_text. unfold not_text in NT. rewrite NT. reflexivity.
    - (* cookware *) pose proof (cookware_blind s c c0 H) as E. cbn [abstract_event] in *.
      destruct (Analysis.a_block s) as [[items|tt]|]; [| |reflexivity].
      + unfold Analysis.in_step. rewrite E. reflexivity.
      + unfold Analysis.in_text. unfold not_text in NT. rewrite NT. reflexivity.
    - (* timer *) pose proof (timer_blind s t t0 H) as E. cbn [abstract_event] in *.
      destruct (Analysis.a_block s) as [[items|tt]|]; [| |reflexivity].
      + unfold Analysis.in_step. rewrite E. reflexivity.
      + unfold Analysis.in_text. unfold not_text in NT. rewrite NT. reflexivity.
    - (* diagnostic *) cbn [proj abstract_event] in *. injection H as H _. rewrite H. destruct (d_err d0); reflexivity.
  Qed.

  (* ---------------------------------------------------------------- define_mode stays out of Text *)
  Ltac crunch E :=
    repeat (cbv beta iota zeta in E;
            match type of E with
            | context [match ?y with _ => _ end] => destruct y eqn:?; try discriminate E
            end).

  Lemma ingredient_define s ig s1 i :
    Analysis.ingredient ci_key x s ig = Done (s1, i) -> Analysis.a_define s1 = Analysis.a_define s.
  Proof. intro E. unfold Analysis.ingredient, obind in E. crunch E; inversion E; subst; reflexivity. Qed.

  Lemma cookware_define s cw s1 i :
    Analysis.cookware ci_key s cw = Done (s1, i) -> Analysis.a_define s1 = Analysis.a_define s.
  Proof. intro E. unfold Analysis.cookware, obind in E. crunch E; inversion E; subst; reflexivity. Qed.

  Lemma metadata_define s k v :
    Analysis.x_modes x = false \/ text_mode_entry k v = false ->
    not_text s -> not_text (Analysis.metadata x s (abstract_text k) (abstract_text v)).
  Proof.
    intros Hm NT. unfold Analysis.metadata. rewrite !abs_trimmed, !abs_outer.
    destruct Hm as [Hm|Hm]; [rewrite Hm; exact NT|].
    unfold text_mode_entry in Hm. cbv zeta in Hm. fold (tx k) in Hm.
    destruct (Analysis.x_modes x); [|exact NT]. cbn [andb].
    destruct (match tx k with c :: _ => c =? 91 | [] => false end); [|exact NT].
    destruct (match rev (tx k) with c :: _ => c =? 93 | [] => false end); [|exact NT].
    cbn [andb] in *.
    destruct (str_eqb (removelast (tl (tx k))) Analysis.s_define || str_eqb (removelast (tl (tx k))) Analysis.s_mode).
    - cbn [andb] in Hm. rewrite Hm.
      repeat match goal with |- context [if ?c then _ else _] => destruct c end; try exact NT; reflexivity.
    - repeat match goal with |- context [if ?c then _ else _] => destruct c end; exact NT.
  Qed.

  Lemma step_define inp s e s' :
    Analysis.x_modes x = false \/ selects_text_mode e = false ->
    astep inp s (abstract_event e) = Done s' -> not_text s -> not_text s'.
  Proof.
    intros Hm E NT. unfold Analysis.step in E. destruct (Analysis.a_halted s); [inversion E; subst; exact NT|].
    destruct e; cbn [abstract_event] in E.
    - inversion E; subst. exact NT.
    - inversion E; subst. apply metadata_define; assumption.
    - inversion E; subst. exact NT.
    - inversion E; subst. exact NT.
    - unfold Analysis.end_block, Analysis.finish_block in E. crunch E; inversion E; subst; exact NT.
    - unfold Analysis.in_step, Analysis.in_text, obind in E. crunch E; inversion E; subst; exact NT.
    - unfold Analysis.in_step, Analysis.in_text, obind in E. crunch E;
        try match goal with H : Analysis.ingredient _ _ _ _ = Done (_, _) |- _ => apply ingredient_define in H end;
        inversion E; subst; unfold not_text in *; cbn [Analysis.a_define Analysis.set_block]; congruence.
    - unfold Analysis.in_step, Analysis.in_text, obind in E. crunch E;
        try match goal with H : Analysis.cookware _ _ _ = Done (_, _) |- _ => apply cookware_define in H end;
        inversion E; subst; unfold not_text in *; cbn [Analysis.a_define Analysis.set_block]; congruence.
    - unfold Analysis.in_step, Analysis.in_text, Analysis.timer, obind in E. crunch E; inversion E; subst; exact NT.
    - destruct (d_err d); inversion E; subst; exact NT.
  Qed.

  (* ---------------------------------------------------------------- the event loop *)
  Lemma run_blind in1 in2 : forall e1 e2 s,
    map proj e1 = map proj e2 -> no_text_mode x e1 -> not_text s ->
    arun in1 s (abstract_events e1) = arun in2 s (abstract_events e2).
  Proof.
    induction e1 as [|a r IH]; intros e2 s H Hm NT; destruct e2 as [|b r2]; try discriminate H; [reflexivity|].
    cbn [map] in H. injection H as Hab Hr. unfold abstract_events. cbn [map Analysis.run].
    rewrite (step_blind in1 in2 s a b Hab NT).
    destruct (astep in2 s (abstract_event b)) as [s'|site] eqn:E; [|reflexivity]. cbn [obind].
    apply IH; [exact Hr| |].
    - destruct Hm as [Hm|Hm]; [left; exact Hm | right; inversion Hm; assumption].
    - rewrite <- (step_blind in1 in2 s a b Hab NT) in E. eapply step_define; [|exact E|exact NT].
      destruct Hm as [Hm|Hm]; [left; exact Hm | right; inversion Hm; assumption].
  Qed.

  (* ANALYSIS BLINDNESS: two event streams with the same projection give the same analysis
     result, whatever the two source texts are *)
  Theorem analyse_blind in1 in2 e1 e2 :
    map proj e1 = map proj e2 -> no_text_mode x e1 ->
    Analysis.analyse ci_key yaml_ok find_iq unit_class in1 x acfg (abstract_events e1)
    = Analysis.analyse ci_key yaml_ok find_iq unit_class in2 x acfg (abstract_events e2).
  Proof.
    intros H Hm. unfold Analysis.analyse. rewrite (run_blind in1 in2 e1 e2 Analysis.init H Hm eq_refl). reflexivity.
  Qed.
End Blind.

(* ------------------------------------------------------------------ the metadata map *)
Section MetaBlind.
  Variable Y : Type.
  Variable ystr : str -> Y.
  Variable yeqb : Y -> Y -> bool.
  Variable yaml : str -> option (list (Y * Y)).
  Variable modes : bool.
  Hypothesis yaml_blind : crlf_blind yaml.

  Lemma mm_step_blind s e1 e2 :
    proj e1 = proj e2 -> mm_step Y ystr yeqb yaml modes s e1 = mm_step Y ystr yeqb yaml modes s e2.
  Proof.
    intro H. unfold mm_step. destruct (mm_halted Y s); [reflexivity|].
    destruct e1, e2; try discriminate H; try reflexivity; cbn [proj] in H.
    - injection H as H. rewrite (yaml_blind _ _ H). reflexivity.
    - injection H as Hk Hv. unfold mm_metadata. fold (tx key). fold (tx key0). rewrite Hk, Hv. reflexivity.
    - injection H as H _. rewrite H. reflexivity.
  Qed.

  Lemma mm_run_blind : forall e1 e2 s,
    map proj e1 = map proj e2 -> mm_run Y ystr yeqb yaml modes s e1 = mm_run Y ystr yeqb yaml modes s e2.
  Proof.
    unfold mm_run. induction e1 as [|a r IH]; intros e2 s H; destruct e2 as [|b r2]; try discriminate H; [reflexivity|].
    cbn [map] in H. injection H as Hab Hr. cbn [fold_left]. rewrite (mm_step_blind s a b Hab). apply IH. exact Hr.
  Qed.

  Theorem metadata_blind e1 e2 :
    map proj e1 = map proj e2 ->
    metadata_of Y ystr yeqb yaml modes e1 = metadata_of Y ystr yeqb yaml modes e2.
  Proof. intro H. unfold metadata_of. rewrite (mm_run_blind e1 e2 _ H). reflexivity. Qed.
End MetaBlind.

(* ------------------------------------------------------------------ the whole parse *)
(* [parse_model] (Proofs/ParseTotal.v) is CooklangParser::parse up to the metadata map;
   [parse_meta_model] is the map of the same call: RecipeCollector's metadata arms (Model/MetaMap.v)
   over the same event stream, MODES as the parser configuration says. *)
Definition parse_meta_model (U : N -> ucls) (cfg : pcfg) (Y : Type) (ystr : str -> Y) (yeqb : Y -> Y -> bool)
    (yaml : str -> option (list (Y * Y))) (s : str) : outcome (option (list (Y * Y))) :=
  obind (events U cfg s) (fun evs => Done (metadata_of Y ystr yeqb yaml (ext_has (p_ext cfg) X_MODES) evs)).

(* [parse_model] for any behaviour switch of the analysis pass ([cfgF] = the code as it is) *)
Definition parse_model_cfg (ac : Analysis.acfg) (U : N -> ucls) (cfg : pcfg) ci_key yaml_ok find_iq unit_class
    (x : Analysis.aext) (s : str) : outcome (option Analysis.recipe * bool) :=
  obind (events U cfg s) (fun pevs =>
    Analysis.analyse ci_key yaml_ok find_iq unit_class s x ac (abstract_events pevs)).

Lemma parse_model_cfgF U cfg ci_key yaml_ok find_iq unit_class x s :
  parse_model U cfg ci_key yaml_ok find_iq unit_class x s
  = parse_model_cfg Analysis.cfgF U cfg ci_key yaml_ok find_iq unit_class x s.
Proof. reflexivity. Qed.

(* what C17 compares: recipe content, validity, metadata map *)
Definition same_parse_cfg (ac : Analysis.acfg) (U : N -> ucls) (cfg : pcfg) ci_key yaml_ok find_iq unit_class (x : Analysis.aext)
    (Y : Type) (ystr : str -> Y) (yeqb : Y -> Y -> bool) (yaml : str -> option (list (Y * Y))) (s1 s2 : str) : Prop :=
  parse_model_cfg ac U cfg ci_key yaml_ok find_iq unit_class x s1 = parse_model_cfg ac U cfg ci_key yaml_ok find_iq unit_class x s2
  /\ parse_meta_model U cfg Y ystr yeqb yaml s1 = parse_meta_model U cfg Y ystr yeqb yaml s2.

Definition same_parse := same_parse_cfg Analysis.cfgF.

(* the source selects text mode nowhere (decidable: a [vm_compute] on a given source) *)
Definition src_no_text_mode (U : N -> ucls) (cfg : pcfg) (x : Analysis.aext) (s : str) : Prop :=
  forall evs, events U cfg s = Done evs -> no_text_mode x evs.

Definition src_no_text_mode_b (U : N -> ucls) (cfg : pcfg) (s : str) : bool :=
  match events U cfg s with Done evs => forallb (fun e => negb (selects_text_mode e)) evs | Panic _ => true end.

Lemma src_no_text_mode_dec U cfg x s : src_no_text_mode_b U cfg s = true -> src_no_text_mode U cfg x s.
Proof.
  unfold src_no_text_mode_b, src_no_text_mode. intros H evs E. rewrite E in H. right.
  apply Forall_forall. intros e He. rewrite forallb_forall in H. specialize (H e He).
  apply negb_true_iff in H. exact H.
Qed.

Theorem parse_blind ac U cfg ci_key yaml_ok find_iq unit_class x Y ystr yeqb yaml s1 s2 :
  p_strict_escape cfg = false ->
  crlf_blind yaml_ok -> crlf_blind yaml ->
  src_no_text_mode U cfg x s1 ->
  OR same_events (events U cfg s1) (events U cfg s2) ->
  same_parse_cfg ac U cfg ci_key yaml_ok find_iq unit_class x Y ystr yeqb yaml s1 s2.
Proof.
  intros Hc By Bm Hm H. unfold same_parse_cfg, parse_model_cfg, parse_meta_model.
  destruct (events_ok U cfg s1 Hc) as (e1 & E1 & _). destruct (events_ok U cfg s2 Hc) as (e2 & E2 & _).
  rewrite E1, E2 in *. cbn [obind]. unfold OR, same_events in H. split.
  - apply analyse_blind; [exact By | exact H | exact (Hm e1 E1)].
  - rewrite (metadata_blind Y ystr yeqb yaml _ Bm e1 e2 H). reflexivity.
Qed.

(* ------------------------------------------------------------------ text mode after the repair 200c896 *)
(* [Analysis.strip_comments] (the comment mask) is what the code does: the texts of the tokens of
   `lexer::Cursor` over the slice, comment tokens left out - for every classification in which the
   special characters break words (the generated one: Proofs/MaskGen.v [gen_special_breaks]) *)
Definition not_comment (t : tok) : bool := negb (is_comment (kind t)).

Lemma keep_unmasked_app a r b m :
  Analysis.keep_unmasked (a ++ r) (repeat b (length a) ++ m)
  = (if b then [] else a) ++ Analysis.keep_unmasked r m.
Proof.
  induction a as [|c a IH]; cbn [app length repeat Analysis.keep_unmasked].
  - destruct b; reflexivity.
  - rewrite IH. destruct b; reflexivity.
Qed.

Lemma keep_unmasked_tokens ts :
  Analysis.keep_unmasked (concat (map tstr ts)) (token_mask ts) = concat (map tstr (filter not_comment ts)).
Proof.
  unfold token_mask. induction ts as [|t r IH]; [reflexivity|]. cbn [map concat filter].
  rewrite keep_unmasked_app, IH. unfold not_comment at 2. destruct (is_comment (kind t)); reflexivity.
Qed.

Section Strip.
  Variable U : N -> ucls.
  Hypothesis special_breaks : forall c, special c = true -> is_word_char U c = false /\ is_lex_ws U c = false.
  Hypothesis eol_breaks : forall c, (c =? 10) || (c =? 13) = true -> is_word_char U c = false /\ is_lex_ws U c = false.

  Theorem strip_comments_is_lexer s off ts :
    lex_at U s off = Some ts -> Analysis.strip_comments s = concat (map tstr (filter not_comment ts)).
  Proof.
    intro H. unfold Analysis.strip_comments. rewrite (mask_is_lexer U special_breaks s off ts H).
    rewrite <- (lex_tiles U s off ts H) at 1. apply keep_unmasked_tokens.
  Qed.

  Lemma filter_shift n ts : map tstr (filter not_comment (shift n ts)) = map tstr (filter not_comment ts).
  Proof.
    induction ts as [|t r IH]; [reflexivity|]. unfold shift in *. cbn [map filter].
    assert (E : not_comment (shift_tok n t) = not_comment t) by reflexivity. rewrite E.
    destruct (not_comment t); cbn [map]; [f_equal|]; exact IH.
  Qed.

  (* a block comment at a token boundary of a component's source does not change what text mode
     keeps of it: "@sea[-c-] salt{}" and "@sea salt{}" *)
  Theorem strip_mid_comment a b ta tb c :
    no_close c = true ->
    lex_at U a 0 = Some ta -> lex_at U b (blen a) = Some tb -> lex_at U (a ++ b) 0 = Some (ta ++ tb) ->
    last_open_ended ta = false ->
    Analysis.strip_comments (a ++ block_comment_text c ++ b) = Analysis.strip_comments (a ++ b).
  Proof.
    intros Hc La Lb Lab Ho.
    pose proof (mid_comment_lex U special_breaks eol_breaks a b 0 ta tb c Hc La Lb Ho) as L.
    unfold mid_comment in L. rewrite insert_at_app in L.
    rewrite (strip_comments_is_lexer _ _ _ L), (strip_comments_is_lexer _ _ _ Lab).
    rewrite !filter_app, !map_app. cbn [filter not_comment is_comment kind mk negb app map].
    unfold shift. fold (shift (blen (block_comment_text c)) tb). rewrite filter_shift. reflexivity.
  Qed.

  (* CRLF conversion of a component's source: what text mode keeps of it changes in its line
     endings only (a step may wrap inside a component: "@a\nb{}") *)
  Definition drop_cr (s : str) : str := filter (fun c => negb (c =? 13)) s.

  Lemma drop_cr_app a b : drop_cr (a ++ b) = drop_cr a ++ drop_cr b.
  Proof. apply filter_app. Qed.

  Lemma crlf_rel_strip ts ts' :
    Forall2 crlf_tok_rel ts ts' -> Forall newline_ok ts ->
    drop_cr (concat (map tstr (filter not_comment ts'))) = drop_cr (concat (map tstr (filter not_comment ts))).
  Proof.
    induction 1 as [|t t' r r' [Hk Ht] _ IH]; intro Hn; [reflexivity|]. inversion Hn as [|? ? Ho Hr]; subst.
    unfold not_comment in *. cbn [filter]. rewrite Hk.
    destruct (kind t) eqn:K; cbn [is_comment negb map concat];
      try exact (IH Hr); try (rewrite !drop_cr_app, (IH Hr), Ht; reflexivity).
    rewrite !drop_cr_app, (IH Hr). f_equal. destruct (Ho K) as [E|E], Ht as [E'|E']; rewrite E, E'; reflexivity.
  Qed.

  Theorem strip_crlf s :
    no_backslash s = true -> no_lone_cr s = true ->
    drop_cr (Analysis.strip_comments (crlf s)) = drop_cr (Analysis.strip_comments s).
  Proof.
    intros Hb Hc. destruct (lex_total U s 0) as [ts L].
    destruct (crlf_lex U eol_breaks s 0 0 ts Hb Hc L) as (ts' & L' & R).
    rewrite (strip_comments_is_lexer _ _ _ L'), (strip_comments_is_lexer _ _ _ L).
    apply crlf_rel_strip; [exact R | exact (lex_newline_ok U _ _ _ L)].
  Qed.
End Strip.
