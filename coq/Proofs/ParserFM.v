(* Location facts feeding the parser invariant (C03/C04):
   A. the token stream of Model/Lexer.v is a located segment ([seg]) of the text it was lexed from,
      placed after any prefix whose byte length is the starting offset;
   B. the offsets computed by [parse_frontmatter] (Model/Parser.v) are character boundaries:
      the YAML text is a located slice of the source and the recipe text is a suffix of it. *)
From CL Require Import Base.StrLemmas Model.Lexer Model.Parser Proofs.LexerProofs Proofs.ParserSeg.

(* ------------------------------------------------------------------ A. lexer tokens *)

Lemma single_kind_not_escaped c k : single_kind c = Some k -> k <> KEscaped.
Proof.
  unfold single_kind. intro H.
  repeat match type of H with
  | (if ?b then _ else _) = _ => destruct b eqn:?
  end; inversion H; discriminate.
Qed.

Lemma lex_one_escaped U c r k t rest :
  lex_one U c r = (k, t, rest) -> k = KEscaped -> exists r', t = 92 :: r'.
Proof.
  unfold lex_one. intros H Hk.
  destruct (c =? 92) eqn:E92.
  - apply N.eqb_eq in E92. rewrite E92 in H. destruct r as [|d r']; inversion H; eexists; reflexivity.
  - exfalso.
    destruct (single_kind c) as [k'|] eqn:Es.
    + apply single_kind_not_escaped in Es.
      repeat match type of H with
      | (if ?b then _ else _) = _ => destruct b eqn:?
      | (let '(a, b) := ?e in _) = _ => destruct e as [? ?] eqn:?
      end; injection H as H1 H2 H3; rewrite Hk in H1;
      try discriminate H1; try (apply Es; exact H1);
      repeat match type of H1 with
      | context [match ?x with _ => _ end] => destruct x
      end; discriminate H1.
    + repeat match type of H with
      | (if ?b then _ else _) = _ => destruct b eqn:?
      | (let '(a, b) := ?e in _) = _ => destruct e as [? ?] eqn:?
      end; injection H as H1 H2 H3; rewrite Hk in H1;
      try discriminate H1;
      repeat match type of H1 with
      | context [match ?x with _ => _ end] => destruct x
      end; discriminate H1.
Qed.

Lemma lex_fuel_seg U fuel : forall s off ts pre,
  lex_fuel U fuel s off = Some ts -> blen pre = off -> seg (pre ++ s) off ts (off + blen s).
Proof.
  induction fuel as [|f IH]; intros s off ts pre H Hp.
  - destruct s; cbn [lex_fuel] in H; [|discriminate]. inversion H. cbn [seg blen].
    split; [lia|]. exists pre, []. split; [reflexivity | exact Hp].
  - destruct s as [|c r]; cbn [lex_fuel] in H.
    + inversion H. cbn [seg blen]. split; [lia|]. exists pre, []. split; [reflexivity | exact Hp].
    + destruct (lex_one U c r) as [[k t] rest] eqn:E.
      destruct (lex_fuel U f rest (off + blen t)) as [ts'|] eqn:E'; [|discriminate].
      inversion H as [Hts]. clear H Hts.
      pose proof (lex_one_escaped _ _ _ _ _ _ E) as Hesc.
      apply lex_one_tiles in E as [Et [t' Ht']].
      rewrite <- Et. cbn [seg tstart]. split; [reflexivity|]. split.
      * unfold tok_in; cbn [tstr tstart kind]. split; [|split].
        -- exists pre, rest. split; [reflexivity | exact Hp].
        -- rewrite Ht'. discriminate.
        -- exact Hesc.
      * unfold tend; cbn [tstr tstart].
        specialize (IH rest (off + blen t) ts' (pre ++ t) E').
        rewrite <- app_assoc in IH. rewrite blen_app.
        replace (off + (blen t + blen rest)) with (off + blen t + blen rest) by lia.
        apply IH. rewrite blen_app. lia.
Qed.

Lemma lex_at_seg U s off ts pre :
  lex_at U s off = Some ts -> blen pre = off -> seg (pre ++ s) off ts (off + blen s).
Proof. apply lex_fuel_seg. Qed.

Lemma lex_seg U s ts : lex U s = Some ts -> seg s 0 ts (blen s).
Proof.
  intro H. apply (lex_at_seg U s 0 ts []) in H; [|reflexivity].
  cbn [app] in H. rewrite N.add_0_l in H. exact H.
Qed.

(* ------------------------------------------------------------------ B. front matter *)

Lemma lines_inclusive_concat s : concat (lines_inclusive s) = s.
Proof.
  induction s as [|c r IH]; cbn [lines_inclusive]; [reflexivity|].
  destruct (c =? 10).
  - cbn [concat app]. rewrite IH. reflexivity.
  - destruct (lines_inclusive r) as [|l ls]; cbn [concat app] in *.
    + rewrite <- IH. reflexivity.
    + rewrite IH. reflexivity.
Qed.

(* the first fence of a list of lines: the lines before it, the fence line, the lines after *)
Lemma fence_list_cons ls : forall off a b rest,
  fence_list ls off = (a, b) :: rest ->
  exists ls1 l ls2, ls = ls1 ++ l :: ls2 /\ a = off + blen (concat ls1) /\ b = a + blen l
                    /\ rest = fence_list ls2 b.
Proof.
  induction ls as [|l r IH]; intros off a b rest H; cbn [fence_list] in H; [discriminate|].
  destruct (is_fence l).
  - inversion H; subst. exists [], l, r. cbn [app concat blen].
    split; [reflexivity|]. split; [lia|]. split; reflexivity.
  - apply IH in H as (ls1 & l' & ls2 & E & Ha & Hb & Hr).
    exists (l :: ls1), l', ls2. cbn [app concat]. rewrite blen_app, E.
    split; [reflexivity|]. split; [lia|]. split; [exact Hb | exact Hr].
Qed.

Lemma drop_bytes_app p q : drop_bytes (p ++ q) (blen p) = q.
Proof.
  induction p as [|c p IH]; cbn [app blen drop_bytes].
  - destruct q; cbn [drop_bytes]; [reflexivity|]. rewrite N.eqb_refl. reflexivity.
  - pose proof (utf8_len_pos c). destruct (utf8_len c + blen p =? 0) eqn:E.
    + apply N.eqb_eq in E. lia.
    + replace (utf8_len c + blen p - utf8_len c) with (blen p) by lia. exact IH.
Qed.

Lemma take_bytes_app p q : take_bytes (p ++ q) (blen p) = p.
Proof.
  induction p as [|c p IH]; cbn [app blen take_bytes].
  - destruct q; cbn [take_bytes]; [reflexivity|]. rewrite N.eqb_refl. reflexivity.
  - pose proof (utf8_len_pos c). destruct (utf8_len c + blen p =? 0) eqn:E.
    + apply N.eqb_eq in E. lia.
    + replace (utf8_len c + blen p - utf8_len c) with (blen p) by lia. rewrite IH. reflexivity.
Qed.

Lemma parse_frontmatter_located cfg s fm :
  parse_frontmatter cfg s = Some fm ->
  (exists pre, s = pre ++ cook_text fm /\ blen pre = cook_off fm) /\ sub s (yaml_text fm) (yaml_off fm).
Proof.
  unfold parse_frontmatter. intro H.
  destruct (fence_list (lines_inclusive s) 0) as [|[f0s ys] [|[ye cs] more]] eqn:F; try discriminate.
  destruct (p_fm_anywhere cfg || str_blank (take_bytes s f0s)); [|discriminate].
  inversion H as [Hfm]. clear H Hfm. cbn [cook_text cook_off yaml_text yaml_off].
  apply fence_list_cons in F as (ls1 & l0 & ls2 & E1 & Hf0 & Hys & F).
  symmetry in F. apply fence_list_cons in F as (ls3 & l1 & ls4 & E2 & Hye & Hcs & _).
  pose proof (lines_inclusive_concat s) as Hs.
  rewrite E1, E2, !concat_app in Hs. cbn [concat] in Hs. rewrite concat_app in Hs. cbn [concat] in Hs.
  set (P := concat ls1 ++ l0) in *.
  assert (HP : blen P = ys) by (unfold P; rewrite blen_app; lia).
  assert (Es : s = P ++ concat ls3 ++ l1 ++ concat ls4)
    by (unfold P; rewrite <- app_assoc; symmetry; exact Hs).
  split.
  - exists (P ++ concat ls3 ++ l1).
    assert (Hb : blen (P ++ concat ls3 ++ l1) = cs) by (rewrite !blen_app; lia).
    split; [|exact Hb].
    rewrite <- Hb. rewrite Es at 2.
    replace (P ++ concat ls3 ++ l1 ++ concat ls4) with ((P ++ concat ls3 ++ l1) ++ concat ls4)
      by (rewrite <- !app_assoc; reflexivity).
    rewrite drop_bytes_app. rewrite <- !app_assoc. exact Es.
  - rewrite Es at 2. rewrite <- HP, drop_bytes_app.
    replace (ye - blen P) with (blen (concat ls3)) by lia.
    rewrite take_bytes_app. exists P, (l1 ++ concat ls4). split; [exact Es | reflexivity].
Qed.
