(* Property C17, the trailing edit: the block-splitting functions of Model/Parser.v (pull_line,
   more_lines, strip_trailing_newlines, next_block, blocks_loop) under [wsimb].  A blank or a comment
   appended to a line keeps an empty line empty and a non-empty line non-empty; the newline token
   that ends the last line of a block is stripped, so what was inserted in front of it ends up at the
   very end of the block. *)
From Coq Require Import List Lia.
From CL Require Import Base.StrLemmas Model.Lexer Model.PText Model.CommentMask Model.Parser Model.Edits
  Proofs.EditParserProofs Proofs.EditSimDefs Proofs.EditInsDefs Proofs.EditInsPrim Proofs.EditInsSplit.
From CL Require Import Proofs.EditTrailDefs Proofs.EditTrailStr Proofs.EditTrailPrim Proofs.EditTrailQty Proofs.EditTrailFun Proofs.EditTrailLine.
Import ListNotations.

Definition isnl (k : tkind) : bool := tk_eqb k KNewline.

(* ---------------------------------------------------------------- pull_line by position *)
Lemma pull_line_pos ts :
  pull_line ts = match position isnl ts with Some n => (firstn (S n) ts, skipn (S n) ts) | None => (ts, []) end.
Proof.
  induction ts as [|t r IH]; [reflexivity|]. cbn [pull_line position]. unfold isnl at 1.
  destruct (tk_eqb (kind t) KNewline); [reflexivity|]. rewrite IH.
  destruct (position isnl r) as [n|]; reflexivity.
Qed.

Lemma position_firstn_no f l : forall n, position f l = Some n -> forallb (fun t => negb (f (kind t))) (firstn n l) = true.
Proof. apply position_firstn_none. Qed.

(* a line: its tokens in front of the newline token, related; the rest, related *)
Definition linerel (p1 p2 : list tok * list tok) : Prop :=
  W (snd p1) (snd p2) /\
  ((exists l1 l2 n1 n2, fst p1 = l1 ++ [n1] /\ fst p2 = l2 ++ [n2] /\ kind n1 = KNewline /\ kind n2 = KNewline
                        /\ W l1 l2 /\ no_nl l1 /\ no_nl l2 /\ Wi (l1 ++ [n1]) (l2 ++ [n2]) /\ Forall noesc (l1 ++ [n1]))
   \/ (snd p1 = [] /\ snd p2 = [] /\ W (fst p1) (fst p2) /\ no_nl (fst p1) /\ no_nl (fst p2))).

Lemma firstn_S_skipn (l : list tok) n a r : skipn n l = a :: r -> firstn (S n) l = firstn n l ++ [a].
Proof.
  revert l. induction n as [|n IH]; intros l E.
  - cbn [skipn] in E. subst l. reflexivity.
  - destruct l as [|t q]; [discriminate|]. cbn [skipn] in E. change (firstn (S (S n)) (t :: q)) with (t :: firstn (S n) q).
    rewrite (IH q E). reflexivity.
Qed.

Lemma position_none_no f l : position f l = None -> forallb (fun t => negb (f (kind t))) l = true.
Proof.
  induction l as [|t r IH]; [reflexivity|]. cbn [position forallb]. destruct (f (kind t)); [discriminate|].
  destruct (position f r); [discriminate|]. intros _. cbn [negb andb]. apply IH. reflexivity.
Qed.

Lemma pull_line_w ts1 ts2 : W ts1 ts2 -> linerel (pull_line ts1) (pull_line ts2).
Proof.
  intro H. rewrite !pull_line_pos.
  pose proof (wsimb_split isnl true _ _ eq_refl eq_refl H) as X.
  pose proof (wsimb_split_incl isnl true _ _ eq_refl eq_refl H) as Y.
  destruct (position isnl ts1) as [n1|] eqn:P1, (position isnl ts2) as [n2|] eqn:P2; try contradiction.
  - destruct X as [X1 X2]. pose proof (wsimb_tl_position _ _ _ _ _ _ X2) as X3.
    destruct X2 as (a & b & r1 & r2 & E1 & E2 & Hab & Fa & _ & _).
    split; [exact X3|]. left. exists (firstn n1 ts1), (firstn n2 ts2), a, b. cbn [fst].
    assert (Ka : kind a = KNewline) by (apply tkb_true; exact Fa).
    rewrite (firstn_S_skipn _ _ _ _ E1), (firstn_S_skipn _ _ _ _ E2) in *.
    repeat split; try reflexivity.
    + exact Ka.
    + rewrite <- (krel_kind _ _ Hab). exact Ka.
    + exact X1.
    + exact (position_firstn_no isnl _ _ P1).
    + exact (position_firstn_no isnl _ _ P2).
    + exact Y.
    + apply Forall_app. split; [exact (wsimb_split_noesc isnl _ _ _ H _ P1)|]. constructor; [|constructor].
      apply noesc_kind. rewrite Ka. discriminate.
  - split; [constructor|]. right. cbn [fst snd]. repeat split; try reflexivity; [exact H | |].
    + exact (position_none_no isnl _ P1).
    + exact (position_none_no isnl _ P2).
Qed.

(* ---------------------------------------------------------------- the line tests *)
Lemma line_is_empty_w e l1 l2 : wsimb e l1 l2 -> line_is_empty l1 = line_is_empty l2.
Proof. apply (wsimb_forallb is_empty_tok e); reflexivity. Qed.

Lemma single_marker_w e l1 l2 : wsimb e l1 l2 -> is_single_line_marker l1 = is_single_line_marker l2.
Proof.
  intro H. pose proof (wsimb_hd _ _ _ H) as Hk. unfold is_single_line_marker.
  destruct l1 as [|a r1], l2 as [|b r2]; cbn [hdk] in Hk.
  - reflexivity.
  - destruct (kind b); try reflexivity; discriminate Hk.
  - destruct (kind a); try reflexivity; discriminate Hk.
  - destruct (kcl_cases _ _ Hk) as [[E _] | [E1 E2]]; [rewrite E; reflexivity|].
    destruct (kind a); try discriminate E1; destruct (kind b); try discriminate E2; reflexivity.
Qed.

(* ---------------------------------------------------------------- trailing newlines *)
Lemma rstrip_app a b : rstrip (a ++ b) = match rstrip b with [] => rstrip a | y => a ++ y end.
Proof.
  induction a as [|t r IH]; [cbn; destruct (rstrip b); reflexivity|]. cbn [app rstrip]. rewrite IH.
  destruct (rstrip b) as [|y ys]; [reflexivity|]. destruct (r ++ y :: ys) eqn:E; [destruct r; discriminate | reflexivity].
Qed.

Lemma rstrip_no_nl l : no_nl l -> rstrip l = l.
Proof.
  unfold no_nl. induction l as [|t r IH]; intro H; [reflexivity|]. cbn [forallb] in H. apply andb_prop in H as [H1 H2].
  cbn [rstrip]. rewrite (IH H2). apply negb_true_iff in H1. rewrite H1. destruct r; reflexivity.
Qed.

Lemma rstrip_snoc_nl l n : kind n = KNewline -> no_nl l -> rstrip (l ++ [n]) = l.
Proof.
  intros K N. rewrite rstrip_app. cbn [rstrip]. rewrite K. cbn [tk_eqb tkind_beq]. apply rstrip_no_nl. exact N.
Qed.

Lemma rstrip_ne l : rstrip l = [] -> forallb (fun t => tk_eqb (kind t) KNewline) l = true.
Proof.
  induction l as [|t r IH]; [reflexivity|]. cbn [rstrip forallb]. destruct (rstrip r) eqn:E; [|discriminate].
  destruct (tk_eqb (kind t) KNewline); [intros _; apply IH; reflexivity | discriminate].
Qed.

Lemma line_nonempty_rstrip l : line_is_empty l = false -> rstrip l <> [].
Proof.
  intros H E. apply rstrip_ne in E. unfold line_is_empty in H.
  assert (X : forallb (fun t => is_empty_tok (kind t)) l = true).
  { clear H. induction l as [|t r IH]; [reflexivity|]. cbn [forallb] in *. apply andb_prop in E as [E1 E2].
    rewrite (IH E2), andb_true_r. apply tkb_true in E1. rewrite E1. reflexivity. }
  congruence.
Qed.

Lemma line_is_empty_app a b : line_is_empty (a ++ b) = line_is_empty a && line_is_empty b.
Proof. apply forallb_app. Qed.

Lemma more_lines_nil f : more_lines f [] = ([], []).
Proof. destruct f; reflexivity. Qed.

(* ---------------------------------------------------------------- more_lines *)
(* the lines of a block: related after the last newline token is stripped *)
Definition bodyrel (m1 m2 : list tok) : Prop := W (rstrip m1) (rstrip m2) /\ (rstrip m1 = [] <-> rstrip m2 = []).

Lemma bodyrel_nil : bodyrel [] [].
Proof. split; [constructor | tauto]. Qed.

Lemma bodyrel_line l1 l2 m1 m2 :
  line_is_empty l1 = false -> line_is_empty l2 = false ->
  (exists x1 x2 n1 n2, l1 = x1 ++ [n1] /\ l2 = x2 ++ [n2] /\ kind n1 = KNewline /\ kind n2 = KNewline
                        /\ W x1 x2 /\ no_nl x1 /\ no_nl x2 /\ Wi (x1 ++ [n1]) (x2 ++ [n2]) /\ Forall noesc (x1 ++ [n1])) ->
  bodyrel m1 m2 -> bodyrel (l1 ++ m1) (l2 ++ m2).
Proof.
  intros N1 N2 (x1 & x2 & n1 & n2 & -> & -> & K1 & K2 & Hx & Nx1 & Nx2 & Hl & Ne) [Hm Hi]. unfold bodyrel.
  rewrite (rstrip_app (x1 ++ [n1]) m1), (rstrip_app (x2 ++ [n2]) m2).
  destruct (rstrip m1) as [|y1 z1] eqn:E1, (rstrip m2) as [|y2 z2] eqn:E2;
    try (exfalso; destruct Hi as [A B]; first [discriminate (A eq_refl) | discriminate (B eq_refl)]).
  - rewrite (rstrip_snoc_nl _ _ K1 Nx1), (rstrip_snoc_nl _ _ K2 Nx2). split; [exact Hx|].
    pose proof (line_nonempty_rstrip _ N1) as A. pose proof (line_nonempty_rstrip _ N2) as B.
    rewrite (rstrip_snoc_nl _ _ K1 Nx1) in A. rewrite (rstrip_snoc_nl _ _ K2 Nx2) in B. split; intro; contradiction.
  - split; [apply wsimb_app_wi; assumption|]. split; intro X; apply app_eq_nil in X as [X _]; apply app_eq_nil in X as [_ X]; discriminate.
Qed.

Lemma more_lines_w f1 : forall f2 ts1 ts2, W ts1 ts2 ->
  (length ts1 < f1)%nat -> (length ts2 < f2)%nat ->
  bodyrel (fst (more_lines f1 ts1)) (fst (more_lines f2 ts2)) /\ W (snd (more_lines f1 ts1)) (snd (more_lines f2 ts2)).
Proof.
  induction f1 as [|f1 IH]; intros f2 ts1 ts2 H L1 L2; [lia|]. destruct f2 as [|f2]; [lia|].
  destruct (nil_or_not ts1) as [-> | Hne1].
  { (* the left list is at its end; on the right only inserted tokens may be left: an empty line *)
    destruct (nil_or_not ts2) as [-> | Hne2]; [cbn; split; [exact bodyrel_nil | constructor]|].
    rewrite (more_lines_S_ne f2 ts2 Hne2). rewrite <- (single_marker_w _ _ _ H). cbn [is_single_line_marker more_lines fst snd].
    pose proof (pull_line_w _ _ H) as [Pq Pl]. cbn [pull_line fst snd] in Pq, Pl.
    pose proof (line_is_empty_w _ _ _ H) as Le. cbn in Le.
    destruct (pull_line ts2) as [l2 q2] eqn:E2. cbn [fst snd] in *.
    destruct Pl as [(l1' & l2' & n1 & n2 & A & _) | (_ & -> & Hl & _)]; [destruct l1'; discriminate A|].
    rewrite <- (line_is_empty_w _ _ _ Hl). cbn. split; [exact bodyrel_nil | constructor]. }
  assert (Hne2 : ts2 <> []) by (apply (wsimb_ne _ _ _ H); exact Hne1).
  rewrite (more_lines_S_ne f1 ts1 Hne1), (more_lines_S_ne f2 ts2 Hne2).
  rewrite (single_marker_w _ _ _ H).
  destruct (is_single_line_marker ts2); [split; [exact bodyrel_nil | exact H]|].
  pose proof (pull_line_w _ _ H) as [Pq Pl].
  destruct (pull_line ts1) as [l1 q1] eqn:E1. destruct (pull_line ts2) as [l2 q2] eqn:E2.
  pose proof (pull_line_len _ _ _ Hne1 E1) as Q1. pose proof (pull_line_len _ _ _ Hne2 E2) as Q2. cbn [fst snd] in Pl, Pq.
  assert (Hl : W l1 l2).
  { destruct Pl as [(x1 & x2 & n1 & n2 & -> & -> & _ & _ & _ & _ & _ & X & _) | (_ & _ & X & _)]; [apply wsimb_weaken; exact X | exact X]. }
  rewrite (line_is_empty_w _ _ _ Hl).
  destruct (line_is_empty l2) eqn:Le; [split; [exact bodyrel_nil | exact Pq]|].
  assert (L1' : (length q1 < f1)%nat) by lia. assert (L2' : (length q2 < f2)%nat) by lia.
  destruct Pl as [Pl | (Eq1 & Eq2 & X & N1 & N2)].
  - destruct (IH f2 _ _ Pq L1' L2') as [Hm Hz].
    destruct (more_lines f1 q1) as [m1 z1], (more_lines f2 q2) as [m2 z2]. cbn [fst snd] in *.
    split; [|exact Hz]. apply bodyrel_line; try assumption. rewrite (line_is_empty_w _ _ _ Hl). exact Le.
  - (* the last line, without a newline token: nothing follows *)
    subst q1 q2. rewrite !more_lines_nil. cbn [fst snd]. rewrite !app_nil_r. split; [|constructor].
    unfold bodyrel. rewrite (rstrip_no_nl _ N1), (rstrip_no_nl _ N2). split; [exact X|].
    assert (A : l1 <> []) by (intro Y; subst l1; pose proof (line_is_empty_w _ _ _ Hl) as Z; cbn in Z; congruence).
    assert (B : l2 <> []) by (intro Y; subst l2; discriminate Le).
    split; intro; contradiction.
Qed.

(* ---------------------------------------------------------------- next_block *)
Definition nbw (o1 o2 : option (list tok * list tok)) : Prop :=
  match o1, o2 with
  | None, None => True
  | Some (b1, q1), Some (b2, q2) => W b1 b2 /\ W q1 q2
  | _, _ => False
  end.

Lemma finish_block_w l1 l2 m1 m2 z1 z2 :
  bodyrel (l1 ++ m1) (l2 ++ m2) -> W z1 z2 -> nbw (finish_block l1 m1 z1) (finish_block l2 m2 z2).
Proof.
  intros [H Hi] Hz. unfold finish_block. rewrite <- !rstrip_spec.
  destruct (rstrip (l1 ++ m1)) as [|x1 y1], (rstrip (l2 ++ m2)) as [|x2 y2]; cbn.
  - exact I.
  - destruct Hi as [A _]. discriminate (A eq_refl).
  - destruct Hi as [_ A]. discriminate (A eq_refl).
  - split; assumption.
Qed.

Lemma next_block_nil f : next_block f [] = None.
Proof. destruct f; reflexivity. Qed.

(* a non-empty line as the first line of a block, with the lines [m] that follow *)
Lemma line_bodyrel l1 l2 q1 q2 m1 m2 :
  linerel (l1, q1) (l2, q2) -> line_is_empty l1 = false -> line_is_empty l2 = false ->
  bodyrel m1 m2 -> (q1 = [] -> q2 = [] -> m1 = [] /\ m2 = []) -> bodyrel (l1 ++ m1) (l2 ++ m2).
Proof.
  intros [_ Pl] N1 N2 Hm Hq. cbn [fst snd] in Pl. destruct Pl as [Pl | (E1 & E2 & X & A & B)].
  - apply bodyrel_line; assumption.
  - destruct (Hq E1 E2) as [-> ->]. rewrite !app_nil_r. unfold bodyrel. rewrite (rstrip_no_nl _ A), (rstrip_no_nl _ B).
    split; [exact X|]. split; intro Y; subst; discriminate.
Qed.

Lemma next_block_w f1 : forall f2 ts1 ts2, W ts1 ts2 ->
  (length ts1 < f1)%nat -> (length ts2 < f2)%nat -> nbw (next_block f1 ts1) (next_block f2 ts2).
Proof.
  induction f1 as [|f1 IH]; intros f2 ts1 ts2 H L1 L2; [lia|]. destruct f2 as [|f2]; [lia|].
  destruct (nil_or_not ts1) as [-> | Hne1].
  { destruct (nil_or_not ts2) as [-> | Hne2]; [exact I|].
    rewrite (next_block_S_ne f2 ts2 Hne2). pose proof (pull_line_w _ _ H) as [Pq Pl]. cbn [pull_line fst snd] in Pq, Pl.
    destruct (pull_line ts2) as [l2 q2] eqn:E2. cbn [fst snd] in *.
    destruct Pl as [(l1' & l2' & n1 & n2 & A & _) | (_ & -> & Hl & _)]; [destruct l1'; discriminate A|].
    rewrite <- (line_is_empty_w _ _ _ Hl). cbn. rewrite next_block_nil. exact I. }
  assert (Hne2 : ts2 <> []) by (apply (wsimb_ne _ _ _ H); exact Hne1).
  rewrite (next_block_S_ne f1 ts1 Hne1), (next_block_S_ne f2 ts2 Hne2).
  pose proof (pull_line_w _ _ H) as PL.
  destruct (pull_line ts1) as [l1 q1] eqn:E1. destruct (pull_line ts2) as [l2 q2] eqn:E2.
  pose proof (pull_line_len _ _ _ Hne1 E1) as Q1. pose proof (pull_line_len _ _ _ Hne2 E2) as Q2.
  pose proof PL as [Pq Pl]. cbn [fst snd] in Pl, Pq.
  assert (Hl : W l1 l2).
  { destruct Pl as [(x1 & x2 & n1 & n2 & -> & -> & _ & _ & _ & _ & _ & X & _) | (_ & _ & X & _)]; [apply wsimb_weaken; exact X | exact X]. }
  rewrite (line_is_empty_w _ _ _ Hl).
  destruct (line_is_empty l2) eqn:Le; [apply (IH f2 _ _ Pq); lia|].
  assert (Le1 : line_is_empty l1 = false) by (rewrite (line_is_empty_w _ _ _ Hl); exact Le).
  rewrite (single_marker_w _ _ _ Hl). destruct (is_single_line_marker l2).
  - apply finish_block_w; [|exact Pq]. apply (line_bodyrel _ _ q1 q2); try assumption; [exact bodyrel_nil | intros; split; reflexivity].
  - destruct (more_lines_w (S (length q1)) (S (length q2)) _ _ Pq (Nat.lt_succ_diag_r _) (Nat.lt_succ_diag_r _)) as [Hm Hz].
    assert (Hq : q1 = [] -> q2 = [] -> fst (more_lines (S (length q1)) q1) = [] /\ fst (more_lines (S (length q2)) q2) = []).
    { intros -> ->. split; reflexivity. }
    destruct (more_lines (S (length q1)) q1) as [m1 z1], (more_lines (S (length q2)) q2) as [m2 z2].
    cbn [fst snd] in Hm, Hz, Hq. apply finish_block_w; [|exact Hz]. apply (line_bodyrel _ _ q1 q2); assumption.
Qed.

(* a block that starts with `>>` is one line: no newline token in it *)
Lemma rstrip_head x a y : rstrip x = a :: y -> exists y', x = a :: y'.
Proof.
  destruct x as [|t r]; [discriminate|]. cbn [rstrip]. destruct (rstrip r).
  - destruct (tk_eqb (kind t) KNewline); [discriminate|]. intro H. inversion H; subst. exists r. reflexivity.
  - intro H. inversion H; subst. exists r. reflexivity.
Qed.

Lemma position_skipn_w (f : tkind -> bool) l : forall n, position f l = Some n ->
  exists t r, skipn n l = t :: r /\ f (kind t) = true.
Proof.
  induction l as [|t r IH]; intros n H; cbn [position] in H; [discriminate|].
  destruct (f (kind t)) eqn:Ft.
  - inversion H; subst. exists t, r. split; [reflexivity | exact Ft].
  - destruct (position f r) as [k|]; cbn [option_map] in H; [|discriminate]. inversion H; subst.
    cbn [skipn]. apply IH. reflexivity.
Qed.

Lemma pull_line_rstrip_no_nl ts l q : pull_line ts = (l, q) -> no_nl (rstrip l).
Proof.
  rewrite pull_line_pos. destruct (position isnl ts) as [n|] eqn:P; intro H.
  - assert (El : l = firstn (S n) ts) by congruence. rewrite El.
    destruct (position_skipn_w isnl ts n P) as (a & r & E & Fa). rewrite (firstn_S_skipn _ _ _ _ E).
    pose proof (position_firstn_no isnl _ _ P) as N. rewrite (rstrip_snoc_nl _ _ (tkb_true _ _ Fa) N). exact N.
  - assert (El : l = ts) by congruence. rewrite El.
    pose proof (position_none_no isnl _ P) as N. rewrite (rstrip_no_nl _ N). exact N.
Qed.

Lemma next_block_meta_no_nl f : forall ts blk r, next_block f ts = Some (blk, r) -> hdk blk = KMeta -> no_nl blk.
Proof.
  induction f as [|f IH]; intros ts blk r H K; [discriminate|].
  destruct (nil_or_not ts) as [-> | Hne]; [discriminate|].
  rewrite (next_block_S_ne f ts Hne) in H. destruct (pull_line ts) as [l q] eqn:E.
  destruct (line_is_empty l) eqn:Le; [exact (IH _ _ _ H K)|].
  destruct (is_single_line_marker l) eqn:Sm.
  - unfold finish_block in H. rewrite <- !rstrip_spec in H.
    rewrite app_nil_r in H. destruct (rstrip l) eqn:R; [discriminate|]. inversion H; subst. rewrite <- R.
    exact (pull_line_rstrip_no_nl _ _ _ E).
  - exfalso. destruct (more_lines (S (length q)) q) as [m z]. unfold finish_block in H. rewrite <- !rstrip_spec in H.
    destruct (rstrip (l ++ m)) as [|a y] eqn:R; [discriminate|].
    inversion H; subst. cbn [hdk] in K. destruct (rstrip_head _ _ _ R) as [y' Ey].
    destruct l as [|t0 l0]; [discriminate Le|]. cbn [app] in Ey. inversion Ey; subst.
    unfold is_single_line_marker in Sm. rewrite K in Sm. discriminate.
Qed.

(* ---------------------------------------------------------------- blocks_loop *)
Section Blocks.
  Variable cfg : pcfg.
  Hypothesis block_rel : forall blk1 blk2 evs1 evs2 old, W blk1 blk2 -> evw evs1 evs2 -> (hdk blk1 = KMeta -> no_nl blk1) ->
    OR evw (run_block blk1 evs1 (parse_block cfg old)) (run_block blk2 evs2 (parse_block cfg old)).

  Lemma blocks_loop_w f1 : forall f2 ts1 ts2 old evs1 evs2,
    W ts1 ts2 -> evw evs1 evs2 ->
    OR evw (blocks_loop cfg f1 ts1 old evs1) (blocks_loop cfg f2 ts2 old evs2).
  Proof.
    induction f1 as [|f1 IH]; intros f2 ts1 ts2 old evs1 evs2 Ht He; [exact I|].
    destruct f2 as [|f2]; [unfold OR; destruct (blocks_loop cfg (S f1) ts1 old evs1); exact I|].
    cbn [blocks_loop].
    pose proof (next_block_w (S (length ts1)) (S (length ts2)) ts1 ts2 Ht (Nat.lt_succ_diag_r _) (Nat.lt_succ_diag_r _)) as Nb.
    pose proof (next_block_meta_no_nl (S (length ts1)) ts1) as Nm.
    destruct (next_block (S (length ts1)) ts1) as [[b1 q1]|], (next_block (S (length ts2)) ts2) as [[b2 q2]|];
      try contradiction; [|exact He].
    destruct Nb as [Hb Hq].
    pose proof (block_rel b1 b2 evs1 evs2 old Hb He (Nm b1 q1 eq_refl)) as R. unfold OR in R.
    destruct (run_block b1 evs1 (parse_block cfg old)) as [e1|]; cbn [obind]; [|exact I].
    destruct (run_block b2 evs2 (parse_block cfg old)) as [e2|]; cbn [obind].
    - apply IH; assumption.
    - unfold OR. destruct (blocks_loop cfg f1 q1 old e1); exact I.
  Qed.
End Blocks.
