(* C14: the metadata-only iterator (next_metadata_block, mod.rs 303-343) against the full
   block splitter (pull_line / next_block / parse_block, mod.rs 224-301, 359-381) of
   Model/Parser.v, and the metadata map of the analysis pass (Model/MetaMap.v).

   1. the splitters: token lines [tlines]; the metadata-only loop visits exactly the lines
      whose first token is `>>` ([meta_loop_lines]); in the full parser each of those lines is
      a block of its own and no other block starts with `>>` ([blocks_meta_lines]).
   2. [NM]: which block parsers can queue a Metadata/YAML event (only parse_block through
      metadata_entry), proved function by function over the whole block-parser model.
   3. [Fr]: metadata_entry does not look at the queue it is given.
   4. both passes queue the same entries ([same_entries]), the analysis pass is a function of
      those entries when it has an output ([run_filter]), config keys after a front matter are
      inert ([config_frame]); hence equal maps ([agree]). *)
From CL Require Import Base.StrLemmas Model.Parser Model.MetaMap.


(* ------------------------------------------------------------------ specification side *)

Definition is_nl (t : tok) : bool := tk_eqb (kind t) KNewline.

(* the token lines, newline excluded; a last line without newline counts when it has tokens *)
Fixpoint tlines (ts : list tok) : list (list tok) :=
  match ts with
  | [] => []
  | t :: r =>
      if is_nl t then [] :: tlines r
      else match tlines r with
           | l :: ls => (t :: l) :: ls
           | [] => [[t]]
           end
  end.


Lemma tlines_no_newline ts : Forall (Forall (fun t => is_nl t = false)) (tlines ts).
Proof.
  induction ts as [|t r IH]; cbn [tlines]; [constructor|].
  destruct (is_nl t) eqn:E.
  - constructor; [constructor|exact IH].
  - destruct (tlines r) as [|l ls].
    + constructor; [|constructor]. constructor; [exact E|constructor].
    + inversion IH; subst. constructor; [|assumption]. constructor; [exact E|assumption].
Qed.

(* the first token is `>>` *)
Definition head_meta (l : list tok) : bool :=
  match l with t :: _ => tk_eqb (kind t) KMeta | [] => false end.

Definition meta_lines (ts : list tok) : list (list tok) := filter head_meta (tlines ts).

(* a pass over a list of blocks threading the (reversed) event queue *)
Fixpoint fold_blocks (f : list tok -> list pevent -> outcome (list pevent))
         (bl : list (list tok)) (evs : list pevent) : outcome (list pevent) :=
  match bl with
  | [] => Done evs
  | b :: r => obind (f b evs) (fun evs' => fold_blocks f r evs')
  end.

Definition init_bp (blk : list tok) (evs : list pevent) : bp :=
  {| b_all := blk; b_done := []; b_rest := blk; b_evs := evs |}.

Section Split.
  Variable cfg : pcfg.

  (* what next_metadata_block does with one block (mod.rs 329-339) *)
  Definition meta_block_step (blk : list tok) (evs : list pevent) : outcome (list pevent) :=
    match metadata_entry cfg (init_bp blk evs) with
    | Panic p => Panic p
    | Done (Some ev, s) =>
        match b_rest s with [] => Done (ev :: b_evs s) | _ => Panic site_bp_finish end
    | Done (None, s) => Done (b_evs s)
    end.

  (* what next_block does with one block (mod.rs 296-298) *)
  Definition full_block_step (old_style : bool) (blk : list tok) (evs : list pevent) : outcome (list pevent) :=
    run_block blk evs (parse_block cfg old_style).

  (* the blocks of the full parser: next_block iterated *)
  Fixpoint blocks_f (fuel : nat) (ts : list tok) : list (list tok) :=
    match fuel with
    | O => []
    | S f =>
        match next_block (S (length ts)) ts with
        | None => []
        | Some (blk, r) => blk :: blocks_f f r
        end
    end.
  Definition blocks (ts : list tok) : list (list tok) := blocks_f (S (length ts)) ts.

  (* ---------------------------------------------------------------- lines *)

  Lemma tlines_take ts a b :
    ts <> [] -> meta_take_line ts = (a, b) -> tlines ts = a :: tlines b.
  Proof.
    revert a b. induction ts as [|t r IH]; intros a b Hne H; [congruence|].
    cbn [meta_take_line] in H. cbn [tlines]. unfold is_nl.
    destruct (tk_eqb (kind t) KNewline) eqn:E.
    - inversion H; subst. reflexivity.
    - destruct (meta_take_line r) as [a' b'] eqn:E'. inversion H; subst.
      destruct r as [|t' r'].
      + cbn in E'. inversion E'; subst. reflexivity.
      + rewrite (IH a' b); [reflexivity|discriminate|reflexivity].
  Qed.

  Lemma take_line_len ts a b : meta_take_line ts = (a, b) -> (length b <= length ts)%nat.
  Proof.
    revert a b. induction ts as [|t r IH]; intros a b H; cbn [meta_take_line] in H.
    - inversion H; subst. apply le_n.
    - destruct (tk_eqb (kind t) KNewline).
      + inversion H; subst. cbn [length]. lia.
      + destruct (meta_take_line r) as [a' b'] eqn:E'. inversion H; subst.
        specialize (IH _ _ eq_refl). cbn [length]. lia.
  Qed.

  Lemma take_line_lt t r a b : meta_take_line (t :: r) = (a, b) -> (length b < length (t :: r))%nat.
  Proof.
    cbn [meta_take_line]. destruct (tk_eqb (kind t) KNewline).
    - intro H; inversion H; subst. cbn [length]. lia.
    - destruct (meta_take_line r) as [a' b'] eqn:E'. intro H; inversion H; subst.
      apply take_line_len in E'. cbn [length]. lia.
  Qed.

  Lemma take_line_nonl ts a b : meta_take_line ts = (a, b) -> forallb (fun t => negb (is_nl t)) a = true.
  Proof.
    revert a b. induction ts as [|t r IH]; intros a b H; cbn [meta_take_line] in H.
    - inversion H; subst. reflexivity.
    - destruct (tk_eqb (kind t) KNewline) eqn:E.
      + inversion H; subst. reflexivity.
      + destruct (meta_take_line r) as [a' b'] eqn:E'. inversion H; subst.
        cbn [forallb]. unfold is_nl at 1. rewrite E. cbn [negb andb]. eapply IH. reflexivity.
  Qed.

  (* pull_line and meta_take_line cut at the same place; pull_line keeps the newline *)
  Lemma pull_take ts l r :
    pull_line ts = (l, r) ->
    exists a, meta_take_line ts = (a, r) /\ (l = a \/ exists n, is_nl n = true /\ l = a ++ [n]).
  Proof.
    revert l r. induction ts as [|t ts IH]; intros l r H; cbn [pull_line] in H; cbn [meta_take_line].
    - inversion H; subst. exists []. split; [reflexivity|left; reflexivity].
    - destruct (tk_eqb (kind t) KNewline) eqn:E.
      + inversion H; subst. exists []. split; [reflexivity|]. right. exists t. split; [exact E|reflexivity].
      + destruct (pull_line ts) as [a0 b0] eqn:E'. inversion H; subst.
        destruct (IH _ _ eq_refl) as [a [Ha Hl]]. rewrite Ha. exists (t :: a). split; [reflexivity|].
        destruct Hl as [Hl | [n [Hn Hl]]]; subst.
        * left; reflexivity.
        * right. exists n. split; [exact Hn|reflexivity].
  Qed.

  Lemma pull_line_head t ts l r : pull_line (t :: ts) = (l, r) -> exists l', l = t :: l'.
  Proof.
    cbn [pull_line]. destruct (tk_eqb (kind t) KNewline).
    - intro H; inversion H; subst. eexists; reflexivity.
    - destruct (pull_line ts). intro H; inversion H; subst. eexists; reflexivity.
  Qed.

  Lemma pull_line_len t ts l r : pull_line (t :: ts) = (l, r) -> (length r < length (t :: ts))%nat.
  Proof.
    intro H. destruct (pull_take _ _ _ H) as [a [Ha _]]. apply take_line_len in Ha.
    revert Ha. cbn [length]. intro Ha.
    (* meta_take_line (t :: ts) drops at least t *)
    clear Ha. revert H. cbn [pull_line]. destruct (tk_eqb (kind t) KNewline).
    - intro H; inversion H; subst. cbn [length]. lia.
    - destruct (pull_line ts) as [a0 b0] eqn:E. intro H; inversion H; subst.
      destruct (pull_take _ _ _ E) as [a1 [Ha1 _]]. apply take_line_len in Ha1. cbn [length]. lia.
  Qed.

  (* head_meta of the line with or without its newline *)
  Lemma head_meta_strip a n : is_nl n = true -> head_meta (a ++ [n]) = head_meta a.
  Proof.
    intro Hn. destruct a as [|x a']; [|reflexivity]. cbn [app head_meta].
    unfold is_nl in Hn. destruct (kind n); try discriminate; reflexivity.
  Qed.

  Lemma pull_tlines ts l r :
    ts <> [] -> pull_line ts = (l, r) ->
    exists a, tlines ts = a :: tlines r /\ head_meta a = head_meta l /\
              forallb (fun t => negb (is_nl t)) a = true /\
              (l = a \/ exists n, is_nl n = true /\ l = a ++ [n]).
  Proof.
    intros Hne H. destruct (pull_take _ _ _ H) as [a [Ha Hl]]. exists a.
    split; [apply tlines_take; assumption|]. split.
    - destruct Hl as [Hl | [n [Hn Hl]]]; subst; [reflexivity|]. symmetry. apply head_meta_strip. exact Hn.
    - split; [eapply take_line_nonl; exact Ha|exact Hl].
  Qed.

  (* ---------------------------------------------------------------- metadata-only iterator *)

  (* skipping inside a line: the rest of the current line is not a `>>` line of its own *)
  Lemma skip_mid ts :
    skip_to_meta ts false =
      match ts with
      | [] => []
      | _ => let '(_, b) := meta_take_line ts in skip_to_meta b true
      end.
  Proof.
    induction ts as [|t r IH]; [reflexivity|].
    cbn [skip_to_meta meta_take_line andb].
    destruct (tk_eqb (kind t) KNewline) eqn:E.
    - reflexivity.
    - rewrite IH. destruct r as [|t' r']; [reflexivity|].
      destruct (meta_take_line (t' :: r')) as [a b]. reflexivity.
  Qed.

  Lemma skip_start ts :
    skip_to_meta ts true =
      match ts with
      | [] => []
      | t :: _ =>
          if tk_eqb (kind t) KMeta then ts
          else let '(_, b) := meta_take_line ts in skip_to_meta b true
      end.
  Proof.
    destruct ts as [|t r]; [reflexivity|].
    cbn [skip_to_meta andb]. destruct (tk_eqb (kind t) KMeta) eqn:E; [reflexivity|].
    cbn [meta_take_line]. destruct (tk_eqb (kind t) KNewline) eqn:E2; [reflexivity|].
    rewrite skip_mid. destruct r as [|t' r']; [reflexivity|].
    destruct (meta_take_line (t' :: r')) as [a b]. reflexivity.
  Qed.

  Lemma skip_len ts b : (length (skip_to_meta ts b) <= length ts)%nat.
  Proof.
    revert b. induction ts as [|t r IH]; intro b; cbn [skip_to_meta]; [apply le_n|].
    destruct (b && tk_eqb (kind t) KMeta); [apply le_n|]. specialize (IH (tk_eqb (kind t) KNewline)). cbn [length]. lia.
  Qed.

  (* the `>>` lines of ts are those of what skip_to_meta leaves, which starts with one *)
  Lemma skip_meta_lines fuel ts :
    (length ts < fuel)%nat ->
    meta_lines ts = meta_lines (skip_to_meta ts true) /\
    match skip_to_meta ts true with [] => True | t :: _ => tk_eqb (kind t) KMeta = true end.
  Proof.
    revert ts. induction fuel as [|f IH]; intros ts Hl; [lia|].
    rewrite skip_start. destruct ts as [|t r]; [split; [reflexivity|exact I]|].
    destruct (tk_eqb (kind t) KMeta) eqn:E; [split; [reflexivity|exact E]|].
    destruct (meta_take_line (t :: r)) as [a b] eqn:Et.
    assert (Hb : (length b < f)%nat).
    { assert (length b < length (t :: r))%nat; [|lia].
      revert Et. cbn [meta_take_line]. destruct (tk_eqb (kind t) KNewline).
      - intro H; inversion H; subst. cbn [length]. lia.
      - destruct (meta_take_line r) as [a' b'] eqn:E'. intro H; inversion H; subst.
        apply take_line_len in E'. cbn [length]. lia. }
    destruct (IH b Hb) as [H1 H2]. split; [|exact H2].
    rewrite <- H1. unfold meta_lines. rewrite (tlines_take (t :: r) a b); [|discriminate|exact Et].
    cbn [filter].
    assert (Ha : head_meta a = false).
    { revert Et. cbn [meta_take_line]. destruct (tk_eqb (kind t) KNewline).
      - intro H; inversion H; subst. reflexivity.
      - destruct (meta_take_line r). intro H; inversion H; subst. cbn [head_meta]. exact E. }
    rewrite Ha. reflexivity.
  Qed.

  Theorem meta_loop_lines fuel ts evs :
    (length ts < fuel)%nat ->
    meta_loop cfg fuel ts evs = fold_blocks meta_block_step (meta_lines ts) evs.
  Proof.
    revert ts evs. induction fuel as [|f IH]; intros ts evs Hl; [lia|].
    cbn [meta_loop].
    destruct (skip_meta_lines (S f) ts Hl) as [H1 H2]. rewrite H1.
    pose proof (skip_len ts true) as Hsl.
    destruct (skip_to_meta ts true) as [|t r] eqn:Es.
    - reflexivity.
    - destruct (meta_take_line (t :: r)) as [blk rr] eqn:Et.
      unfold meta_lines. rewrite (tlines_take (t :: r) blk rr); [|discriminate|exact Et].
      assert (Hblk : exists blk', blk = t :: blk').
      { revert Et. cbn [meta_take_line]. destruct (tk_eqb (kind t) KNewline) eqn:En.
        - destruct (kind t); discriminate.
        - destruct (meta_take_line r). intro H; inversion H; subst. eexists; reflexivity. }
      destruct Hblk as [blk' ->]. cbn [filter head_meta]. rewrite H2.
      cbn [fold_blocks]. unfold meta_block_step at 1. unfold init_bp.
      assert (Hr : (length rr < f)%nat).
      { apply take_line_lt in Et. cbn [length] in *. lia. }
      unfold bind at 1.
      destruct (metadata_entry cfg {| b_all := t :: blk'; b_done := []; b_rest := t :: blk'; b_evs := evs |})
        as [[[ev|] s]|p] eqn:Em; cbn [obind].
      + unfold bind, event, ret. cbn [b_rest b_evs].
        destruct (b_rest s); [|reflexivity]. cbn [obind]. apply IH. exact Hr.
      + unfold ret. apply IH. exact Hr.
      + reflexivity.
  Qed.

  (* ---------------------------------------------------------------- full parser *)

  Lemma strip_keep X t :
    is_nl t = false -> exists Y, strip_trailing_newlines (X ++ [t]) = Y ++ [t].
  Proof.
    intro Ht. induction X as [|x X IH]; cbn [app strip_trailing_newlines].
    - unfold is_nl in Ht. rewrite Ht. exists []. reflexivity.
    - destruct (tk_eqb (kind x) KNewline); [exact IH|]. exists (x :: X). reflexivity.
  Qed.

  Lemma strip_nonl X :
    match X with [] => True | t :: _ => is_nl t = false end -> strip_trailing_newlines X = X.
  Proof. destruct X as [|t X]; [reflexivity|]. unfold is_nl. cbn [strip_trailing_newlines]. intros ->. reflexivity. Qed.

  (* the block made of the line l (first token t, not a newline) and more lines m *)
  Lemma block_head t l' m :
    is_nl t = false ->
    exists b', rev (strip_trailing_newlines (rev ((t :: l') ++ m))) = t :: b'.
  Proof.
    intro Ht. cbn [app rev]. destruct (strip_keep (rev (l' ++ m)) t Ht) as [Y HY]. rewrite HY.
    rewrite rev_app_distr. cbn [rev app]. eexists; reflexivity.
  Qed.

  Lemma last_nonl a :
    a <> [] -> forallb (fun t => negb (is_nl t)) a = true ->
    match rev a with [] => True | t :: _ => is_nl t = false end.
  Proof.
    intros Hne Hf. destruct (rev a) as [|t r] eqn:E; [exact I|].
    assert (In t a). { apply in_rev. rewrite E. left; reflexivity. }
    rewrite forallb_forall in Hf. specialize (Hf t H). destruct (is_nl t); [discriminate|reflexivity].
  Qed.

  (* a single line, trimmed: the line without its newline *)
  Lemma single_block l a :
    a <> [] -> forallb (fun t => negb (is_nl t)) a = true ->
    (l = a \/ exists n, is_nl n = true /\ l = a ++ [n]) ->
    rev (strip_trailing_newlines (rev (l ++ []))) = a.
  Proof.
    intros Hne Hf Hl. rewrite app_nil_r.
    pose proof (last_nonl a Hne Hf) as Hlast.
    destruct Hl as [-> | [n [Hn ->]]].
    - rewrite strip_nonl; [apply rev_involutive|exact Hlast].
    - rewrite rev_app_distr. cbn [rev app strip_trailing_newlines]. unfold is_nl in Hn. rewrite Hn.
      rewrite strip_nonl; [apply rev_involutive|exact Hlast].
  Qed.

  Lemma empty_line_not_meta l : line_is_empty l = true -> head_meta l = false.
  Proof.
    destruct l as [|t l']; [reflexivity|]. unfold line_is_empty. cbn [forallb head_meta].
    destruct (kind t); cbn; try discriminate; reflexivity.
  Qed.

  Lemma not_marker_not_meta l : is_single_line_marker l = false -> head_meta l = false.
  Proof.
    destruct l as [|t l']; [reflexivity|]. unfold is_single_line_marker. cbn [head_meta].
    destruct (kind t); try discriminate; reflexivity.
  Qed.

  (* the continuation lines contain no `>>` line *)
  Lemma more_lines_spec fuel ts m r :
    more_lines fuel ts = (m, r) ->
    meta_lines ts = meta_lines r /\ (length r <= length ts)%nat.
  Proof.
    revert ts m r. induction fuel as [|f IH]; intros ts m r H; cbn [more_lines] in H.
    - inversion H; subst. split; [reflexivity|apply le_n].
    - destruct (is_single_line_marker ts) eqn:Em.
      + inversion H; subst. split; [reflexivity|apply le_n].
      + destruct ts as [|t ts'].
        * inversion H; subst. split; [reflexivity|apply le_n].
        * destruct (pull_line (t :: ts')) as [l r0] eqn:Ep.
          pose proof (pull_line_len _ _ _ _ Ep) as Hlen.
          destruct (pull_tlines (t :: ts') l r0 ltac:(discriminate) Ep) as [a [Ha [Hh _]]].
          destruct (pull_line_head _ _ _ _ Ep) as [l' ->].
          assert (Hna : head_meta a = false).
          { rewrite Hh. apply not_marker_not_meta. exact Em. }
          assert (Hml : meta_lines (t :: ts') = meta_lines r0).
          { unfold meta_lines. rewrite Ha. cbn [filter]. rewrite Hna. reflexivity. }
          destruct (line_is_empty (t :: l')).
          -- inversion H; subst. split; [exact Hml|lia].
          -- destruct (more_lines f r0) as [m' r'] eqn:Emm. inversion H; subst.
             destruct (IH _ _ _ Emm) as [H1 H2]. split; [congruence|lia].
  Qed.

  Lemma next_block_spec fuel ts :
    (length ts < fuel)%nat ->
    match next_block fuel ts with
    | None => meta_lines ts = []
    | Some (blk, r) =>
        meta_lines ts = (if head_meta blk then [blk] else []) ++ meta_lines r /\
        (length r < length ts)%nat /\ blk <> []
    end.
  Proof.
    revert ts. induction fuel as [|f IH]; intros ts Hl; [lia|].
    cbn [next_block]. destruct ts as [|t ts']; [reflexivity|].
    destruct (pull_line (t :: ts')) as [l r0] eqn:Ep.
    pose proof (pull_line_len _ _ _ _ Ep) as Hlen.
    destruct (pull_tlines (t :: ts') l r0 ltac:(discriminate) Ep) as [a [Ha [Hh [Hnonl Hla]]]].
    destruct (pull_line_head _ _ _ _ Ep) as [l' ->].
    destruct (line_is_empty (t :: l')) eqn:Ee.
    - (* an empty line is skipped *)
      assert (Hna : head_meta a = false). { rewrite Hh. apply empty_line_not_meta. exact Ee. }
      assert (Hml : meta_lines (t :: ts') = meta_lines r0).
      { unfold meta_lines. rewrite Ha. cbn [filter]. rewrite Hna. reflexivity. }
      assert (Hr0 : (length r0 < f)%nat) by lia.
      specialize (IH r0 Hr0). destruct (next_block f r0) as [[blk r]|].
      + destruct IH as [H1 [H2 H3]]. split; [congruence|]. split; [lia|exact H3].
      + congruence.
    - (* t is not a newline: a line that is a lone newline is empty *)
      assert (Ht : is_nl t = false).
      { unfold is_nl. destruct (tk_eqb (kind t) KNewline) eqn:En; [|reflexivity].
        exfalso. revert Ep Ee. cbn [pull_line]. rewrite En. intro H; inversion H; subst.
        unfold line_is_empty. cbn [forallb]. destruct (kind t); cbn; discriminate. }
      assert (Hane : a <> []).
      { destruct Hla as [<- | [n [Hn Hl2]]]; [discriminate|].
        destruct a; [|discriminate]. cbn [app] in Hl2. inversion Hl2; subst. congruence. }
      destruct (is_single_line_marker (t :: l')) eqn:Es.
      + (* single-line block: exactly this line *)
        rewrite (single_block (t :: l') a Hane Hnonl Hla).
        destruct a as [|x a']; [congruence|].
        split; [|split; [exact Hlen|discriminate]].
        unfold meta_lines at 1. rewrite Ha. cbn [filter].
        destruct (head_meta (x :: a')); reflexivity.
      + destruct (more_lines (S (length r0)) r0) as [m r'] eqn:Em.
        destruct (more_lines_spec _ _ _ _ Em) as [H1 H2].
        destruct (block_head t l' m Ht) as [b' Hb]. rewrite Hb.
        split; [|split; [lia|discriminate]].
        assert (Hhb : head_meta (t :: b') = false).
        { cbn [head_meta]. pose proof (not_marker_not_meta _ Es) as Hq. exact Hq. }
        rewrite Hhb. cbn [app]. rewrite <- H1. unfold meta_lines. rewrite Ha. cbn [filter].
        assert (Hna : head_meta a = false). { rewrite Hh. apply not_marker_not_meta. exact Es. }
        rewrite Hna. reflexivity.
  Qed.

  (* every `>>` line is a block of its own with the same tokens, and no other block starts with `>>` *)
  Theorem blocks_meta_lines fuel ts :
    (length ts < fuel)%nat -> filter head_meta (blocks_f fuel ts) = meta_lines ts.
  Proof.
    revert ts. induction fuel as [|f IH]; intros ts Hl; [lia|].
    cbn [blocks_f]. pose proof (next_block_spec (S (length ts)) ts ltac:(lia)) as Hs.
    destruct (next_block (S (length ts)) ts) as [[blk r]|].
    - destruct Hs as [H1 [H2 H3]]. cbn [filter]. rewrite H1.
      rewrite <- (IH r ltac:(lia)). destruct (head_meta blk); reflexivity.
    - symmetry. exact Hs.
  Qed.

  Lemma blocks_nonempty fuel ts : Forall (fun b => b <> []) (blocks_f fuel ts).
  Proof.
    revert ts. induction fuel as [|f IH]; intro ts; cbn [blocks_f]; [constructor|].
    pose proof (next_block_spec (S (length ts)) ts ltac:(lia)) as Hs.
    destruct (next_block (S (length ts)) ts) as [[blk r]|]; [|constructor].
    constructor; [apply Hs|apply IH].
  Qed.

  Theorem blocks_loop_fold fuel ts old evs :
    (length ts < fuel)%nat ->
    blocks_loop cfg fuel ts old evs = fold_blocks (full_block_step old) (blocks_f fuel ts) evs.
  Proof.
    revert ts evs. induction fuel as [|f IH]; intros ts evs Hl; [lia|].
    cbn [blocks_loop blocks_f].
    pose proof (next_block_spec (S (length ts)) ts ltac:(lia)) as Hs.
    destruct (next_block (S (length ts)) ts) as [[blk r]|]; [|reflexivity].
    cbn [fold_blocks]. unfold full_block_step at 1.
    destruct (run_block blk evs (parse_block cfg old)) as [evs'|p]; cbn [obind]; [|reflexivity].
    apply IH. destruct Hs as [_ [H2 _]]. lia.
  Qed.
End Split.


(* ------------------------------------------------------------------ which events a block parser queues *)

Definition is_meta_ev (ev : pevent) : bool :=
  match ev with EvYaml _ | EvMetadata _ _ => true | _ => false end.

Definition nometa (ev : pevent) : Prop := is_meta_ev ev = false.
Definition onometa (o : option pevent) : Prop := match o with Some ev => nometa ev | None => True end.

(* s' extends the queue of s by events that are neither Metadata nor YAML *)
Definition ext (s s' : bp) : Prop := exists l, b_evs s' = l ++ b_evs s /\ filter is_meta_ev l = [].

Lemma ext_refl s : ext s s.
Proof. exists []. split; reflexivity. Qed.

Lemma ext_trans a b c : ext a b -> ext b c -> ext a c.
Proof.
  intros [l1 [H1 F1]] [l2 [H2 F2]]. exists (l2 ++ l1). split.
  - rewrite H2, H1. apply app_assoc.
  - rewrite filter_app, F1, F2. reflexivity.
Qed.

Lemma ext_evs a b : b_evs b = b_evs a -> ext a b.
Proof. intro H. exists []. split; [exact H|reflexivity]. Qed.

(* NM P m: m only queues non-metadata events, and its result satisfies P *)
Definition NM {A} (P : A -> Prop) (m : M A) : Prop :=
  forall s a s', m s = Done (a, s') -> P a /\ ext s s'.
Notation NMT := (NM (fun _ => True)).

Lemma NM_weaken {A} (P Q : A -> Prop) m : (forall a, P a -> Q a) -> NM P m -> NM Q m.
Proof. intros H Hm s a s' E. destruct (Hm s a s' E) as [H1 H2]. split; [apply H; exact H1|exact H2]. Qed.

Lemma NM_T {A} (P : A -> Prop) m : NM P m -> NMT m.
Proof. apply NM_weaken. intros; exact I. Qed.

Lemma NM_ret {A} (P : A -> Prop) a : P a -> NM P (ret a).
Proof. intros H s a' s' E. inversion E; subst. split; [exact H|apply ext_refl]. Qed.

Lemma NM_bind {A B} (Q : A -> Prop) (P : B -> Prop) (m : M A) (f : A -> M B) :
  NM Q m -> (forall a, Q a -> NM P (f a)) -> NM P (bind m f).
Proof.
  intros Hm Hf s b s' E. unfold bind in E. destruct (m s) as [[a s1]|p] eqn:Em; [|discriminate].
  destruct (Hm s a s1 Em) as [Ha H1]. destruct (Hf a Ha s1 b s' E) as [Hb H2].
  split; [exact Hb|eapply ext_trans; eassumption].
Qed.

Lemma NM_bindT {A B} (P : B -> Prop) (m : M A) (f : A -> M B) :
  NMT m -> (forall a, NM P (f a)) -> NM P (bind m f).
Proof. intros Hm Hf. eapply NM_bind; [exact Hm|]. intros a _. apply Hf. Qed.

Lemma NM_panic {A} (P : A -> Prop) site : NM P (panic site).
Proof. intros s a s' E. discriminate. Qed.

Lemma NM_lift {A} (o : outcome A) : NMT (lift o).
Proof. intros s a s' E. unfold lift in E. destruct o; inversion E; subst. split; [exact I|apply ext_refl]. Qed.

Lemma NM_event ev : nometa ev -> NMT (event ev).
Proof.
  intros H s a s' E. unfold event in E. inversion E; subst. split; [exact I|].
  exists [ev]. split; [reflexivity|]. cbn [filter]. rewrite H. reflexivity.
Qed.

Lemma NM_error c l : NMT (error c l).
Proof. apply NM_event. reflexivity. Qed.
Lemma NM_warn c l : NMT (warn c l).
Proof. apply NM_event. reflexivity. Qed.

(* computations that leave the queue alone *)
Definition pure_evs {A} (m : M A) : Prop := forall s a s', m s = Done (a, s') -> b_evs s' = b_evs s.

Lemma NM_pure {A} (m : M A) : pure_evs m -> NMT m.
Proof. intros H s a s' E. split; [exact I|]. apply ext_evs. eapply H. exact E. Qed.

Lemma advance_evs n s : b_evs (advance n s) = b_evs s.
Proof.
  revert s. induction n as [|n IH]; intro s; cbn [advance]; [reflexivity|].
  destruct (b_rest s); [reflexivity|]. rewrite IH. reflexivity.
Qed.

Lemma pure_current_offset : pure_evs current_offset.
Proof. intros s a s' E. inversion E; subst. reflexivity. Qed.
Lemma pure_peek : pure_evs peek.
Proof. intros s a s' E. inversion E; subst. reflexivity. Qed.
Lemma pure_at_kind k : pure_evs (at_kind k).
Proof. intros s a s' E. inversion E; subst. reflexivity. Qed.
Lemma pure_rest : pure_evs rest.
Proof. intros s a s' E. inversion E; subst. reflexivity. Qed.
Lemma pure_all_tokens : pure_evs all_tokens.
Proof. intros s a s' E. inversion E; subst. reflexivity. Qed.
Lemma pure_next_token : pure_evs next_token.
Proof. intros s a s' E. unfold next_token in E. destruct (b_rest s); inversion E; subst; reflexivity. Qed.
Lemma pure_until f : pure_evs (until f).
Proof.
  intros s a s' E. unfold until in E. destruct (position f (b_rest s)); inversion E; subst;
    [apply advance_evs|reflexivity].
Qed.
Lemma pure_consume_while f : pure_evs (consume_while f).
Proof. intros s a s' E. unfold consume_while in E. inversion E; subst. apply advance_evs. Qed.

Lemma NM_current_offset : NMT current_offset. Proof. apply NM_pure, pure_current_offset. Qed.
Lemma NM_peek : NMT peek. Proof. apply NM_pure, pure_peek. Qed.
Lemma NM_at_kind k : NMT (at_kind k). Proof. apply NM_pure, pure_at_kind. Qed.
Lemma NM_rest : NMT rest. Proof. apply NM_pure, pure_rest. Qed.
Lemma NM_all_tokens : NMT all_tokens. Proof. apply NM_pure, pure_all_tokens. Qed.
Lemma NM_next_token : NMT next_token. Proof. apply NM_pure, pure_next_token. Qed.
Lemma NM_until f : NMT (until f). Proof. apply NM_pure, pure_until. Qed.
Lemma NM_consume_while f : NMT (consume_while f). Proof. apply NM_pure, pure_consume_while. Qed.

Lemma NM_with_recover {A} (P : option A -> Prop) (m : M (option A)) :
  P None -> NM P m -> NM P (with_recover m).
Proof.
  intros HN Hm s a s' E. unfold with_recover in E.
  destruct (m s) as [[[x|] s1]|p] eqn:Em; inversion E; subst.
  - exact (Hm s _ _ Em).
  - destruct (Hm s _ _ Em) as [_ [l [H1 H2]]]. split; [exact HN|]. exists l. split; [exact H1|exact H2].
Qed.

Lemma NM_obindM {A B} (P : option B -> Prop) (m : M (option A)) (f : A -> M (option B)) :
  P None -> NMT m -> (forall a, NM P (f a)) -> NM P (obindM m f).
Proof.
  intros HN Hm Hf. unfold obindM. apply NM_bindT; [exact Hm|]. intros [a|]; [apply Hf|apply NM_ret; exact HN].
Qed.

Lemma NM_sub_block {A} (P : A -> Prop) ts (m : M A) : NM P m -> NM P (sub_block ts m).
Proof.
  intros Hm s a s' E. unfold sub_block in E. destruct ts as [|t ts']; [discriminate|].
  match type of E with (match m ?s0 with _ => _ end) = _ => destruct (m s0) as [[a0 s2]|p] eqn:Em end;
    inversion E; subst.
  destruct (Hm _ _ _ Em) as [Ha [l [H1 H2]]]. split; [exact Ha|]. exists l. split; [exact H1|exact H2].
Qed.

(* the tactic: walk the structure of a monadic term *)
Ltac nm_step :=
  match goal with
  | |- NM _ (ret _) => apply NM_ret; try exact I
  | |- NM _ (panic _) => apply NM_panic
  | |- NM _ (bind _ _) => apply NM_bindT; [|intros]
  | |- NM _ (obindM _ _) => apply NM_obindM; [try exact I| |intros]
  | |- NM _ (with_recover _) => apply NM_with_recover; [try exact I|]
  | |- NM _ (sub_block _ _) => apply NM_sub_block
  | |- NM _ (error _ _) => apply NM_error
  | |- NM _ (warn _ _) => apply NM_warn
  | |- NM _ (event _) => apply NM_event; try reflexivity
  | |- NM _ (lift _) => apply NM_lift
  | |- NM _ current_offset => apply NM_current_offset
  | |- NM _ peek => apply NM_peek
  | |- NM _ (at_kind _) => apply NM_at_kind
  | |- NM _ rest => apply NM_rest
  | |- NM _ all_tokens => apply NM_all_tokens
  | |- NM _ next_token => apply NM_next_token
  | |- NM _ (until _) => apply NM_until
  | |- NM _ (consume_while _) => apply NM_consume_while
  | |- NM _ (let '(_, _) := ?x in _) => destruct x
  | |- NM _ (match ?x with _ => _ end) => destruct x
  | |- NM _ (if ?x then _ else _) => destruct x
  end.
Ltac nm := repeat nm_step.

Lemma NM_bump_any : NMT bump_any.
Proof. unfold bump_any. nm. Qed.
Lemma NM_bump k : NMT (bump k).
Proof. unfold bump. nm. apply NM_bump_any. Qed.
Lemma NM_consume k : NMT (consume k).
Proof. unfold consume. nm. apply NM_bump_any. Qed.

Ltac nm_step2 :=
  first
  [ nm_step
  | match goal with
    | |- NM _ bump_any => apply NM_bump_any
    | |- NM _ (bump _) => apply NM_bump
    | |- NM _ (consume _) => apply NM_consume
    | |- NM _ ws_comments => apply NM_consume_while
    | |- NM _ consume_rest => apply NM_consume_while
    end ].
Ltac nm2 := repeat nm_step2.

Section NoMeta.
  Variable cfg : pcfg.

  Lemma NM_textM off ts : NMT (textM cfg off ts).
  Proof. unfold textM. apply NM_lift. Qed.

  Lemma NM_scaling_lock : NMT scaling_lock.
  Proof. unfold scaling_lock. nm2. Qed.

  Lemma NM_text_value ts off : NMT (text_value cfg ts off).
  Proof. unfold text_value. nm2; apply NM_textM. Qed.

  Lemma NM_parse_value ts : NMT (parse_value cfg ts).
  Proof. unfold parse_value. nm2. apply NM_text_value. Qed.

  Lemma NM_value_p : NMT (value_p cfg).
  Proof. unfold value_p. nm2; [apply NM_scaling_lock|apply NM_parse_value]. Qed.

  Lemma NM_parse_regular_quantity : NMT (parse_regular_quantity cfg).
  Proof. unfold parse_regular_quantity. nm2; try apply NM_value_p; apply NM_textM. Qed.

  Lemma NM_parse_advanced_quantity : NMT (parse_advanced_quantity cfg).
  Proof. unfold parse_advanced_quantity. nm2; try apply NM_scaling_lock; try apply NM_textM. Qed.

  Lemma NM_parse_quantity ts : NMT (parse_quantity cfg ts).
  Proof.
    unfold parse_quantity. nm2; try apply NM_parse_regular_quantity; try apply NM_parse_advanced_quantity.
  Qed.
End NoMeta.


Create HintDb nm.
#[export] Hint Resolve NM_textM NM_scaling_lock NM_text_value NM_parse_value NM_value_p
  NM_parse_regular_quantity NM_parse_advanced_quantity NM_parse_quantity NM_bump_any NM_bump NM_consume : nm.
Ltac nmx := nm2; try (solve [eauto with nm]).

Section NoMeta2.
  Variable cfg : pcfg.

  Lemma NM_comp_body : NMT comp_body.
  Proof. unfold comp_body. nmx. Qed.
  Hint Resolve NM_comp_body : nm.

  Lemma NM_modifiers_loop fuel acc : NMT (modifiers_loop cfg fuel acc).
  Proof.
    revert acc. induction fuel as [|f IH]; intro acc; cbn [modifiers_loop]; nmx.
  Qed.
  Hint Resolve NM_modifiers_loop : nm.

  Lemma NM_modifiers : NMT (modifiers cfg).
  Proof. unfold modifiers. nmx. Qed.
  Hint Resolve NM_modifiers : nm.

  Lemma NM_note : NMT (note cfg).
  Proof. unfold note. nmx. Qed.
  Hint Resolve NM_note : nm.

  Lemma NM_parse_inter ts : NMT (parse_inter ts).
  Proof. unfold parse_inter. nmx. Qed.
  Hint Resolve NM_parse_inter : nm.

  Lemma NM_parse_mods_loop fuel ts sp mods inter : NMT (parse_mods_loop cfg fuel ts sp mods inter).
  Proof.
    revert ts mods inter. induction fuel as [|f IH]; intros ts mods inter; cbn [parse_mods_loop]; nmx.
  Qed.
  Hint Resolve NM_parse_mods_loop : nm.

  Lemma NM_parse_modifiers mts mpos : NMT (parse_modifiers cfg mts mpos).
  Proof. unfold parse_modifiers. nmx. Qed.
  Hint Resolve NM_parse_modifiers : nm.

  Lemma NM_parse_alias ts off : NMT (parse_alias cfg ts off).
  Proof. unfold parse_alias. nmx. Qed.
  Hint Resolve NM_parse_alias : nm.

  Lemma NM_check_empty_name name : NMT (check_empty_name name).
  Proof. unfold check_empty_name. nmx. Qed.
  Hint Resolve NM_check_empty_name : nm.

  Lemma NM_check_note : NMT (check_note cfg).
  Proof. unfold check_note. nmx. Qed.
  Hint Resolve NM_check_note : nm.

  Lemma NM_ingredient_p : NM onometa (ingredient_p cfg).
  Proof. unfold ingredient_p. nmx. reflexivity. Qed.

  Lemma NM_cookware_p : NM onometa (cookware_p cfg).
  Proof. unfold cookware_p. nmx. reflexivity. Qed.

  Lemma NM_timer_p : NM onometa (timer_p cfg).
  Proof. unfold timer_p. nmx. reflexivity. Qed.

  Lemma NM_step_loop fuel : NMT (step_loop cfg fuel).
  Proof.
    induction fuel as [|f IH]; cbn [step_loop]; [apply NM_panic|].
    apply NM_bindT; [apply NM_rest|]. intros [|t r]; [apply NM_ret; exact I|].
    apply NM_bindT; [apply NM_peek|]. intro k.
    eapply NM_bind with (Q := onometa).
    - destruct k; try (apply NM_ret; exact I); apply NM_with_recover; try exact I;
        [apply NM_ingredient_p|apply NM_cookware_p|apply NM_timer_p].
    - intros [ev|] Hev.
      + apply NM_bindT; [apply NM_event; exact Hev|]. intros _. exact IH.
      + nmx.
  Qed.
  Hint Resolve NM_step_loop : nm.

  Lemma NM_parse_step : NMT (parse_step cfg).
  Proof. unfold parse_step. nmx. Qed.
  Hint Resolve NM_parse_step : nm.

  Lemma NM_text_block_loop fuel : NMT (text_block_loop cfg fuel).
  Proof. induction fuel as [|f IH]; cbn [text_block_loop]; nmx. Qed.
  Hint Resolve NM_text_block_loop : nm.

  Lemma NM_parse_text_block : NMT (parse_text_block cfg).
  Proof. unfold parse_text_block. nmx. Qed.
  Hint Resolve NM_parse_text_block : nm.

  Lemma NM_parse_multiline_block : NMT (parse_multiline_block cfg).
  Proof. unfold parse_multiline_block. nmx. Qed.

  Lemma NM_section_p : NM onometa (section_p cfg).
  Proof. unfold section_p. nmx. reflexivity. Qed.

  (* metadata_entry queues diagnostics only; what it returns is a Metadata event *)
  Definition is_metadata_ev (o : option pevent) : Prop :=
    match o with Some (EvMetadata _ _) | None => True | _ => False end.

  Lemma NM_metadata_entry : NM is_metadata_ev (metadata_entry cfg).
  Proof. unfold metadata_entry. nmx. Qed.
End NoMeta2.


(* ------------------------------------------------------------------ frame: the queue is only appended to *)

Definition add_evs (s : bp) (e : list pevent) : bp :=
  {| b_all := b_all s; b_done := b_done s; b_rest := b_rest s; b_evs := b_evs s ++ e |}.

Definition omap_evs {A} (e : list pevent) (o : outcome (A * bp)) : outcome (A * bp) :=
  match o with Done (a, s) => Done (a, add_evs s e) | Panic p => Panic p end.

(* running m with more (older) events in the queue changes nothing else *)
Definition Fr {A} (m : M A) : Prop := forall s e, m (add_evs s e) = omap_evs e (m s).

Lemma Fr_ret {A} (a : A) : Fr (ret a).
Proof. intros s e. reflexivity. Qed.
Lemma Fr_panic {A} site : Fr (@panic A site).
Proof. intros s e. reflexivity. Qed.
Lemma Fr_lift {A} (o : outcome A) : Fr (lift o).
Proof. intros s e. unfold lift. destruct o; reflexivity. Qed.
Lemma Fr_bind {A B} (m : M A) (f : A -> M B) : Fr m -> (forall a, Fr (f a)) -> Fr (bind m f).
Proof.
  intros Hm Hf s e. unfold bind. rewrite Hm. destruct (m s) as [[a s1]|p]; cbn [omap_evs]; [apply Hf|reflexivity].
Qed.
Lemma Fr_obindM {A B} (m : M (option A)) (f : A -> M (option B)) : Fr m -> (forall a, Fr (f a)) -> Fr (obindM m f).
Proof. intros Hm Hf. unfold obindM. apply Fr_bind; [exact Hm|]. intros [a|]; [apply Hf|apply Fr_ret]. Qed.
Lemma Fr_event ev : Fr (event ev).
Proof. intros s e. reflexivity. Qed.
Lemma Fr_current_offset : Fr current_offset.
Proof. intros s e. reflexivity. Qed.
Lemma Fr_at_kind k : Fr (at_kind k).
Proof. intros s e. reflexivity. Qed.
Lemma Fr_all_tokens : Fr all_tokens.
Proof. intros s e. reflexivity. Qed.
Lemma Fr_next_token : Fr next_token.
Proof. intros s e. unfold next_token. cbn [add_evs b_rest]. destruct (b_rest s); reflexivity. Qed.
Lemma Fr_bump_any : Fr bump_any.
Proof. unfold bump_any. apply Fr_bind; [apply Fr_next_token|]. intros [t|]; [apply Fr_ret|apply Fr_panic]. Qed.
Lemma Fr_bump k : Fr (bump k).
Proof. unfold bump. apply Fr_bind; [apply Fr_bump_any|]. intro t. destruct (tk_eqb (kind t) k); [apply Fr_ret|apply Fr_panic]. Qed.
Lemma Fr_consume k : Fr (consume k).
Proof.
  unfold consume. apply Fr_bind; [apply Fr_at_kind|]. intros [|]; [|apply Fr_ret].
  apply Fr_bind; [apply Fr_bump_any|]. intro; apply Fr_ret.
Qed.
Lemma advance_add n s e : advance n (add_evs s e) = add_evs (advance n s) e.
Proof.
  revert s. induction n as [|n IH]; intro s; cbn [advance]; [reflexivity|].
  cbn [add_evs b_rest]. destruct (b_rest s) as [|t r] eqn:E; [reflexivity|].
  rewrite <- IH. reflexivity.
Qed.
Lemma Fr_until f : Fr (until f).
Proof.
  intros s e. unfold until. cbn [add_evs b_rest]. destruct (position f (b_rest s)); cbn [omap_evs]; [|reflexivity].
  rewrite advance_add. reflexivity.
Qed.
Lemma Fr_consume_while f : Fr (consume_while f).
Proof. intros s e. unfold consume_while. cbn [add_evs b_rest omap_evs]. rewrite advance_add. reflexivity. Qed.

Section Entries.
  Variable cfg : pcfg.

  Lemma Fr_metadata_entry : Fr (metadata_entry cfg).
  Proof.
    unfold metadata_entry.
    repeat first
      [ apply Fr_ret | apply Fr_panic | apply Fr_lift | apply Fr_event | apply Fr_current_offset
      | apply Fr_all_tokens | apply Fr_bump | apply Fr_consume | apply Fr_until | apply Fr_consume_while
      | apply Fr_obindM; [|intros] | apply Fr_bind; [|intros]
      | match goal with
        | |- Fr (match ?x with _ => _ end) => destruct x
        | |- Fr (if ?x then _ else _) => destruct x
        | |- Fr (textM _ _ _) => unfold textM
        | |- Fr (error _ _) => unfold error
        | |- Fr (warn _ _) => unfold warn
        | |- Fr consume_rest => unfold consume_rest
        end ].
  Qed.

  (* metadata_entry on a block, started with an empty queue *)
  Definition me_res (blk : list tok) : outcome (option pevent * bp) := metadata_entry cfg (init_bp blk []).

  Lemma me_frame blk evs : metadata_entry cfg (init_bp blk evs) = omap_evs evs (me_res blk).
  Proof. unfold me_res. rewrite <- Fr_metadata_entry. reflexivity. Qed.

  Lemma me_res_shape blk o s :
    me_res blk = Done (o, s) -> is_metadata_ev o /\ filter is_meta_ev (b_evs s) = [].
  Proof.
    intro H. destruct (NM_metadata_entry cfg _ _ _ H) as [H1 [l [H2 H3]]]. split; [exact H1|].
    cbn [init_bp b_evs] in H2. rewrite app_nil_r in H2. rewrite H2. exact H3.
  Qed.

  Lemma meta_step_spec blk evs :
    meta_block_step cfg blk evs =
      match me_res blk with
      | Panic p => Panic p
      | Done (Some ev, s) =>
          match b_rest s with [] => Done (ev :: b_evs s ++ evs) | _ => Panic site_bp_finish end
      | Done (None, s) => Done (b_evs s ++ evs)
      end.
  Proof.
    unfold meta_block_step. rewrite me_frame. destruct (me_res blk) as [[[ev|] s]|p]; reflexivity.
  Qed.

  (* the events one block adds *)
  Definition adds (evs evs' : list pevent) (new_meta : list pevent) : Prop :=
    exists l, evs' = l ++ evs /\ filter is_meta_ev l = new_meta.

  Lemma NM_parse_block_other old s a s' :
    peek_of s <> KMeta -> parse_block cfg old s = Done (a, s') -> ext s s'.
  Proof.
    intros Hk H.
    assert (Hn : forall k, k <> KMeta ->
              NMT (mos <- (match k with
                           | KMeta => with_recover (ev <-? metadata_entry cfg ;;
                                        match ev with
                                        | EvMetadata key _ => if meta_kept cfg old key then ret (Some ev) else ret None
                                        | _ => ret (Some ev)
                                        end)
                           | KEq => with_recover (section_p cfg)
                           | _ => ret None
                           end) ;;
                   match mos with Some ev => event ev | None => parse_multiline_block cfg end)).
    { intros k Hkk. eapply NM_bind with (Q := onometa).
      - destruct k; try congruence; try (apply NM_ret; exact I).
        apply NM_with_recover; [exact I|apply NM_section_p].
      - intros [ev|] Hev; [apply NM_event; exact Hev|apply NM_parse_multiline_block]. }
    unfold parse_block in H. unfold bind at 1 in H. unfold peek in H.
    exact (proj2 (Hn (peek_of s) Hk s a s' H)).
  Qed.

  Lemma full_step_other old blk evs evs' :
    head_meta blk = false -> full_block_step cfg old blk evs = Done evs' -> adds evs evs' [].
  Proof.
    intros Hh H. unfold full_block_step, run_block in H. destruct blk as [|t blk']; [discriminate H|].
    fold (init_bp (t :: blk') evs) in H.
    destruct (parse_block cfg old (init_bp (t :: blk') evs)) as [[u s]|p] eqn:E; [|discriminate H].
    destruct (b_rest s); [|discriminate H]. inversion H; subst.
    apply NM_parse_block_other in E.
    - destruct E as [l [H1 H2]]. exists l. split; [exact H1|exact H2].
    - cbn. cbn [head_meta] in Hh. intro Hc. rewrite Hc in Hh. cbn in Hh. discriminate.
  Qed.

  (* a block whose first token is `>>` *)
  Lemma full_step_meta old blk evs evs' :
    head_meta blk = true -> full_block_step cfg old blk evs = Done evs' ->
    match me_res blk with
    | Panic _ => False
    | Done (Some (EvMetadata k v), s) =>
        if meta_kept cfg old k
        then b_rest s = [] /\ evs' = EvMetadata k v :: b_evs s ++ evs
        else adds (b_evs s ++ evs) evs' []
    | Done (Some _, _) => False
    | Done (None, s) => adds (b_evs s ++ evs) evs' []
    end.
  Proof.
    intros Hh H. unfold full_block_step, run_block in H. destruct blk as [|t blk']; [discriminate H|].
    cbn [head_meta] in Hh.
    fold (init_bp (t :: blk') evs) in H.
    destruct (parse_block cfg old (init_bp (t :: blk') evs)) as [[u s2]|p] eqn:E; [|discriminate H].
    destruct (b_rest s2) eqn:Er; [|discriminate H]. inversion H; subst. clear H.
    unfold parse_block in E. unfold bind at 1 in E. unfold peek in E.
    assert (Hp : peek_of (init_bp (t :: blk') evs) = KMeta).
    { cbn. destruct (kind t); try discriminate; reflexivity. }
    rewrite Hp in E. unfold bind at 1 in E. unfold with_recover in E. unfold obindM at 1 in E.
    unfold bind at 1 in E. rewrite me_frame in E.
    pose proof (me_res_shape (t :: blk')) as Hs.
    destruct (me_res (t :: blk')) as [[[ev|] s]|p]; cbn [omap_evs] in E.
    - destruct (Hs _ _ eq_refl) as [Hm _]. destruct ev; cbn in Hm; try contradiction.
      destruct (meta_kept cfg old key).
      + unfold ret in E. unfold event in E. inversion E; subst. cbn [b_rest b_evs add_evs] in *. split; [exact Er|reflexivity].
      + unfold ret in E.
        destruct (NM_parse_multiline_block cfg _ _ _ E) as [_ [l [H1 H2]]].
        exists l. split; [|exact H2]. rewrite H1. reflexivity.
    - unfold ret in E.
      destruct (NM_parse_multiline_block cfg _ _ _ E) as [_ [l [H1 H2]]].
      exists l. split; [|exact H2]. rewrite H1. reflexivity.
    - discriminate E.
  Qed.

  Lemma filter_meta_app a b : filter is_meta_ev (a ++ b) = filter is_meta_ev a ++ filter is_meta_ev b.
  Proof. apply filter_app. Qed.

  (* old style (no front matter): both passes see the same entries *)
  Lemma fold_same bl : forall evsF evsF' evsM,
    fold_blocks (full_block_step cfg true) bl evsF = Done evsF' ->
    filter is_meta_ev evsF = filter is_meta_ev evsM ->
    exists evsM', fold_blocks (meta_block_step cfg) (filter head_meta bl) evsM = Done evsM' /\
                  filter is_meta_ev evsF' = filter is_meta_ev evsM'.
  Proof.
    induction bl as [|b bl IH]; intros evsF evsF' evsM H R; cbn [fold_blocks filter] in *.
    - inversion H; subst. exists evsM. split; [reflexivity|exact R].
    - destruct (full_block_step cfg true b evsF) as [evs1|p] eqn:E; cbn [obind] in H; [|discriminate H].
      destruct (head_meta b) eqn:Hh.
      + pose proof (full_step_meta true b evsF evs1 Hh E) as Hm.
        pose proof (me_res_shape b) as Hs.
        cbn [fold_blocks]. rewrite meta_step_spec.
        destruct (me_res b) as [[[ev|] s]|p]; [| |contradiction].
        * destruct (Hs _ _ eq_refl) as [_ Hd].
          destruct ev; try contradiction.
          assert (Hk : meta_kept cfg true key = true) by (unfold meta_kept; apply orb_true_r).
          rewrite Hk in Hm. destruct Hm as [Hr ->]. rewrite Hr. cbn [obind].
          apply (IH _ _ _ H). cbn [filter is_meta_ev]. rewrite !filter_meta_app, R. reflexivity.
        * destruct (Hs _ _ eq_refl) as [_ Hd]. destruct Hm as [l [-> Hl]]. cbn [obind].
          apply (IH _ _ _ H). rewrite !filter_meta_app, Hl, R. reflexivity.
      + destruct (full_step_other true b evsF evs1 Hh E) as [l [-> Hl]].
        apply (IH _ _ _ H). rewrite filter_meta_app, Hl. exact R.
  Qed.

  (* with a front matter: the only entries the full pass still queues are config keys under MODES *)
  Definition config_entry (ev : pevent) : Prop :=
    exists k v, ev = EvMetadata k v /\ is_config_key k = true /\ has cfg X_MODES = true.

  Lemma fold_fm bl : forall evsF evsF',
    fold_blocks (full_block_step cfg false) bl evsF = Done evsF' ->
    exists l, evsF' = l ++ evsF /\ Forall config_entry (filter is_meta_ev l).
  Proof.
    induction bl as [|b bl IH]; intros evsF evsF' H; cbn [fold_blocks] in H.
    - inversion H; subst. exists []. split; [reflexivity|constructor].
    - destruct (full_block_step cfg false b evsF) as [evs1|p] eqn:E; cbn [obind] in H; [|discriminate H].
      destruct (IH _ _ H) as [l2 [-> F2]].
      assert (Hone : exists l1, evs1 = l1 ++ evsF /\ Forall config_entry (filter is_meta_ev l1)).
      { destruct (head_meta b) eqn:Hh.
        - pose proof (full_step_meta false b evsF evs1 Hh E) as Hm.
          pose proof (me_res_shape b) as Hs.
          destruct (me_res b) as [[[ev|] s]|p]; [| |contradiction].
          + destruct (Hs _ _ eq_refl) as [_ Hd]. destruct ev; try contradiction.
            destruct (meta_kept cfg false key) eqn:Hk.
            * destruct Hm as [_ ->]. exists (EvMetadata key value :: b_evs s). split; [reflexivity|].
              cbn [filter is_meta_ev]. rewrite Hd. constructor; [|constructor].
              unfold meta_kept in Hk. rewrite orb_false_r in Hk. apply andb_true_iff in Hk as [H1 H2].
              exists key, value. split; [reflexivity|split; assumption].
            * destruct Hm as [l [-> Hl]]. exists (l ++ b_evs s). split; [apply app_assoc|].
              rewrite filter_meta_app, Hl, Hd. constructor.
          + destruct (Hs _ _ eq_refl) as [_ Hd]. destruct Hm as [l [-> Hl]].
            exists (l ++ b_evs s). split; [apply app_assoc|]. rewrite filter_meta_app, Hl, Hd. constructor.
        - destruct (full_step_other false b evsF evs1 Hh E) as [l [-> Hl]]. exists l. split; [reflexivity|].
          rewrite Hl. constructor. }
      destruct Hone as [l1 [-> F1]]. exists (l2 ++ l1). split; [apply app_assoc|].
      rewrite filter_meta_app. apply Forall_app. split; assumption.
  Qed.
End Entries.


Lemma filter_rev {A} (f : A -> bool) l : filter f (rev l) = rev (filter f l).
Proof.
  induction l as [|x l IH]; [reflexivity|]. cbn [rev filter]. rewrite filter_app, IH. cbn [filter].
  destruct (f x); [reflexivity|]. rewrite app_nil_r. reflexivity.
Qed.

Section DocLevel.
  Variable U : N -> ucls.
  Variable cfg : pcfg.

  Definition yaml_event (fm : fm_split) : pevent := EvYaml (text_from_str (yaml_text fm) (yaml_off fm)).

  (* the metadata-only iterator hands exactly the `>>` lines to metadata_entry *)
  Theorem meta_events_lines s :
    meta_events U cfg s =
      match parse_frontmatter cfg s with
      | Some fm => Done [yaml_event fm]
      | None =>
          match lex_at U s 0 with
          | None => Panic site_fuel
          | Some ts => obind (fold_blocks (meta_block_step cfg) (meta_lines ts) []) (fun evs => Done (rev evs))
          end
      end.
  Proof.
    unfold meta_events. destruct (parse_frontmatter cfg s); [reflexivity|].
    destruct (lex_at U s 0) as [ts|]; [|reflexivity].
    rewrite meta_loop_lines; [reflexivity|lia].
  Qed.

  (* the full parser runs parse_block over [blocks] *)
  Theorem events_blocks s :
    events U cfg s =
      match parse_frontmatter cfg s with
      | Some fm =>
          match lex_at U (cook_text fm) (cook_off fm) with
          | None => Panic site_fuel
          | Some ts => obind (fold_blocks (full_block_step cfg false) (blocks ts) [yaml_event fm])
                             (fun evs => Done (rev evs))
          end
      | None =>
          match lex_at U s 0 with
          | None => Panic site_fuel
          | Some ts => obind (fold_blocks (full_block_step cfg true) (blocks ts) []) (fun evs => Done (rev evs))
          end
      end.
  Proof.
    unfold events, blocks. destruct (parse_frontmatter cfg s) as [fm|].
    - destruct (lex_at U (cook_text fm) (cook_off fm)) as [ts|]; [|reflexivity].
      rewrite blocks_loop_fold; [reflexivity|lia].
    - destruct (lex_at U s 0) as [ts|]; [|reflexivity].
      rewrite blocks_loop_fold; [reflexivity|lia].
  Qed.

  Theorem full_lines ts :
    filter head_meta (blocks ts) = meta_lines ts /\ Forall (fun b => b <> []) (blocks ts).
  Proof. unfold blocks. split; [apply blocks_meta_lines; lia|apply blocks_nonempty]. Qed.

  Theorem same_entries s evs :
    events U cfg s = Done evs ->
    exists mevs,
      meta_events U cfg s = Done mevs /\
      match parse_frontmatter cfg s with
      | None => filter is_meta_ev evs = filter is_meta_ev mevs
      | Some fm =>
          mevs = [yaml_event fm] /\
          exists cfgs, filter is_meta_ev evs = mevs ++ cfgs /\ Forall (config_entry cfg) cfgs
      end.
  Proof.
    rewrite events_blocks, meta_events_lines. destruct (parse_frontmatter cfg s) as [fm|].
    - destruct (lex_at U (cook_text fm) (cook_off fm)) as [ts|]; [|discriminate].
      destruct (fold_blocks (full_block_step cfg false) (blocks ts) [yaml_event fm]) as [evsF|p] eqn:E;
        cbn [obind]; [|discriminate].
      intro H; inversion H; subst. exists [yaml_event fm]. split; [reflexivity|]. split; [reflexivity|].
      destruct (fold_fm cfg _ _ _ E) as [l [-> Hl]].
      exists (rev (filter is_meta_ev l)). split.
      + rewrite rev_app_distr, filter_app, !filter_rev. reflexivity.
      + apply Forall_rev. exact Hl.
    - destruct (lex_at U s 0) as [ts|]; [|discriminate].
      destruct (fold_blocks (full_block_step cfg true) (blocks ts) []) as [evsF|p] eqn:E; cbn [obind]; [|discriminate].
      intro H; inversion H; subst.
      destruct (fold_same cfg (blocks ts) [] evsF [] E eq_refl) as [evsM [H1 H2]].
      rewrite (proj1 (full_lines ts)) in H1. rewrite H1. cbn [obind]. eexists. split; [reflexivity|].
      rewrite !filter_rev, H2. reflexivity.
  Qed.
End DocLevel.

(* ------------------------------------------------------------------ the metadata map *)

Section Agree.
  Variable Y : Type.
  Variable ystr : str -> Y.
  Variable yeqb : Y -> Y -> bool.
  Variable yaml : str -> option (list (Y * Y)).
  Variable modes : bool.

  Notation step := (mm_step Y ystr yeqb yaml modes).
  Notation run := (mm_run Y ystr yeqb yaml modes).

  Lemma halted_step s ev : mm_halted Y s = true -> step s ev = s.
  Proof. intro H. unfold mm_step. rewrite H. reflexivity. Qed.

  Lemma halted_sticky evs s : mm_halted Y s = true -> run s evs = s.
  Proof.
    revert s. induction evs as [|ev evs IH]; intros s H; [reflexivity|].
    unfold mm_run. cbn [fold_left]. rewrite halted_step; [|exact H]. apply IH. exact H.
  Qed.

  (* an event that is neither Metadata nor YAML changes nothing unless it halts the pass *)
  Lemma other_step s ev : is_meta_ev ev = false -> step s ev = s \/ mm_halted Y (step s ev) = true.
  Proof.
    intro H. unfold mm_step. destruct (mm_halted Y s) eqn:Eh; [left; reflexivity|].
    destruct ev; try discriminate; try (left; reflexivity).
    destruct (d_err d); [right; reflexivity|left; reflexivity].
  Qed.

  (* the frame lemma: with an output, the pass is a function of the Metadata/YAML events *)
  Lemma run_filter evs s :
    mm_halted Y (run s evs) = false -> run s evs = run s (filter is_meta_ev evs).
  Proof.
    revert s. induction evs as [|ev evs IH]; intros s H; [reflexivity|].
    unfold mm_run in *. cbn [fold_left filter] in *.
    destruct (is_meta_ev ev) eqn:E.
    - cbn [fold_left]. apply IH. exact H.
    - destruct (other_step s ev E) as [Hs|Hh].
      + rewrite Hs in *. apply IH. exact H.
      + pose proof (halted_sticky evs _ Hh) as Hst. unfold mm_run in Hst. rewrite Hst in H. congruence.
  Qed.

  Lemma collapse_last s : forall prev, s <> [] -> last s 0 = 93 ->
    collapse_spaces prev s <> [] /\ last (collapse_spaces prev s) 0 = 93.
  Proof.
    induction s as [|x r IH]; intros prev Hne Hl; [congruence|].
    destruct r as [|y r'].
    - cbn [last] in Hl. subst x. cbn. split; [discriminate|reflexivity].
    - assert (Hl' : last (y :: r') 0 = 93) by exact Hl.
      destruct (IH x ltac:(discriminate) Hl') as [H1 H2].
      remember (y :: r') as yr eqn:Eyr. cbn [collapse_spaces]. destruct (negb (x =? 32) || negb (prev =? 32)).
      + split; [discriminate|]. destruct (collapse_spaces x yr) eqn:Ec; [congruence|]. exact H2.
      + split; assumption.
  Qed.

  (* is_config_key of the parser (outer-trimmed key) implies the test of the analysis (trimmed key) *)
  Lemma config_key_bracketed k : is_config_key k = true -> bracketed (text_trimmed k) = true.
  Proof.
    unfold is_config_key, bracketed, text_trimmed. destruct (text_outer_trimmed k) as [|c r] eqn:E; [discriminate|].
    intro H. apply andb_true_iff in H as [H1 H2]. apply N.eqb_eq in H1, H2. subst c.
    destruct (collapse_last (91 :: r) 32 ltac:(discriminate) H2) as [H3 H4].
    cbn [collapse_spaces] in *. cbn [N.eqb Pos.eqb negb orb] in *.
    rewrite H4. reflexivity.
  Qed.

  (* after a front matter, a bracketed key under MODES never changes the map *)
  Lemma config_frame cfg s ev :
    modes = has cfg X_MODES -> mm_old Y s = false -> config_entry cfg ev -> step s ev = s.
  Proof.
    intros Hm Ho [k [v [-> [Hk Hx]]]]. unfold mm_step. destruct (mm_halted Y s); [reflexivity|].
    unfold mm_metadata. rewrite Hm, Hx, (config_key_bracketed k Hk). cbn [andb]. rewrite Ho.
    destruct (str_eqb _ cs_define || str_eqb _ cs_mode || str_eqb _ cs_duplicate); reflexivity.
  Qed.

  Lemma config_frame_run cfg cfgs s :
    modes = has cfg X_MODES -> mm_old Y s = false -> Forall (config_entry cfg) cfgs -> run s cfgs = s.
  Proof.
    intros Hm Ho F. induction F as [|ev l Hev F IH]; [reflexivity|].
    unfold mm_run in *. cbn [fold_left]. rewrite (config_frame cfg s ev Hm Ho Hev). exact IH.
  Qed.

  Theorem agree U cfg s evs mevs m1 m2 :
    modes = has cfg X_MODES ->
    events U cfg s = Done evs -> meta_events U cfg s = Done mevs ->
    metadata_of Y ystr yeqb yaml modes evs = Some m1 ->
    metadata_of Y ystr yeqb yaml modes mevs = Some m2 ->
    m1 = m2.
  Proof.
    intros Hm He Hme H1 H2. unfold metadata_of, mm_output in H1, H2.
    destruct (mm_halted Y (run (mm_init Y) evs)) eqn:Eh1; [discriminate|].
    destruct (mm_halted Y (run (mm_init Y) mevs)) eqn:Eh2; [discriminate|].
    inversion H1; inversion H2; subst m1 m2. clear H1 H2.
    rewrite (run_filter evs _ Eh1), (run_filter mevs _ Eh2).
    destruct (same_entries U cfg s evs He) as [mevs' [Hme' Hs]]. rewrite Hme in Hme'. inversion Hme'; subst mevs'.
    destruct (parse_frontmatter cfg s) as [fm|].
    - destruct Hs as [-> [cfgs [Hf Hc]]]. rewrite Hf. cbn [filter is_meta_ev yaml_event app].
      unfold mm_run. cbn [fold_left].
      set (s1 := step (mm_init Y) (yaml_event fm)).
      assert (Ho : mm_old Y s1 = false).
      { unfold s1, mm_step, yaml_event. cbn [mm_halted mm_init]. destruct (yaml _); reflexivity. }
      pose proof (config_frame_run cfg cfgs s1 Hm Ho Hc) as Hr. unfold mm_run in Hr. rewrite Hr. reflexivity.
    - rewrite Hs. reflexivity.
  Qed.
End Agree.
