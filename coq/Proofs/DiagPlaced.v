(* C07 over Model/AnalysisDiag.v: the diagnostics of the analysis pass.
   - [dstep_errors]: the error bit of Model/Analysis.v is "a diagnostic of severity Error was pushed";
   - the [.._placed] lemmas: each analysis-stage construct of the catalogue (checks/c07_catalog.py)
     yields a diagnostic of the documented severity whose first label lies on the offending part
     of the event;
   - [report_is_trace]: what Diag.parse_events reports is the trace of [dstep]. *)
From Coq Require Import ZArith Lia Bool.
From CL Require Import Base.StrLemmas Model.Parser Model.Diag Model.EventBridge Model.AnalysisLabels
  Model.AnalysisDiag Proofs.DiagProofs.
From CL Require Model.Analysis Proofs.DiagAnalysisProofs.
Open Scope N_scope.

Definition errs (ds : list adiag) : bool := existsb ad_is_error ds.

Lemma errs_app a b : errs (a ++ b) = errs a || errs b.
Proof. apply existsb_app. Qed.

Lemma errs_nil : errs [] = false. Proof. reflexivity. Qed.

(* [l] lies inside [sp] (both ends) *)
Definition span_within (l sp : span) : Prop := fst sp <= fst l /\ snd l <= snd sp.

Lemma span_within_refl sp : span_within sp sp.
Proof. split; apply N.le_refl. Qed.

(* a diagnostic of kind [k] was pushed, and its first label is [l] *)
Definition pushed (ds : list adiag) (k : akind) (l : span) : Prop :=
  exists d, In d ds /\ ad_kind d = k /\ option_map snd (hd_error (ad_labels d)) = Some l.

(* ... as the report shows it: severity, stage, first label inside the construct *)
Definition placed (ds : list adiag) (sev : severity) (construct : span) : Prop :=
  exists d l, In d (map to_sdiag ds) /\ sd_sev d = sev /\ sd_stage d = StAnalysis /\
              hd_error (sd_labels d) = Some l /\ span_within l construct.

Definition kind_sev (k : akind) : severity := if kind_is_error k then SevError else SevWarning.

Lemma pushed_placed ds k l sp :
  pushed ds k l -> span_within l sp -> placed ds (kind_sev k) sp.
Proof.
  intros (d & Hin & Hk & Hl) Hw. exists (to_sdiag d), l. split; [apply in_map; exact Hin|].
  split; [unfold to_sdiag, ad_is_error, kind_sev; cbn; rewrite Hk; reflexivity|].
  split; [reflexivity|]. split; [|exact Hw].
  unfold to_sdiag. cbn [sd_labels]. destruct (ad_labels d) as [|[n sp0] r]; [discriminate|].
  cbn in *. congruence.
Qed.

Lemma pushed_app_l a b k l : pushed a k l -> pushed (a ++ b) k l.
Proof. intros (d & H & R). exists d. split; [apply in_or_app; left; exact H|exact R]. Qed.
Lemma pushed_app_r a b k l : pushed b k l -> pushed (a ++ b) k l.
Proof. intros (d & H & R). exists d. split; [apply in_or_app; right; exact H|exact R]. Qed.
Lemma pushed_one k n l r : pushed [mk k ((n, l) :: r)] k l.
Proof. eexists. split; [left; reflexivity|]. split; reflexivity. Qed.

Ltac dm H :=
  repeat match type of H with
    | obind ?o _ = Done _ => let E := fresh "E" in destruct o eqn:E; cbn [obind] in H; [|discriminate]
    | (if ?b then _ else _) = Done _ => destruct b eqn:?
    | match ?x with _ => _ end = Done _ => destruct x eqn:?
    | (let (a, b) := ?x in _) = Done _ => destruct x eqn:?
    | Panic _ = Done _ => discriminate
    end.

(* ---- the bridge keeps what the analysis reads of a text ---- *)
Lemma abs_text_str t : text_str (abstract_text t) = text_str t. Proof. reflexivity. Qed.
Lemma abs_text_trimmed t : text_trimmed (abstract_text t) = text_trimmed t. Proof. reflexivity. Qed.
Lemma abs_text_outer t : text_outer_trimmed (abstract_text t) = text_outer_trimmed t. Proof. reflexivity. Qed.

(* ---- the severities, by enumeration of the constructors of [akind] ---- *)
Lemma all_kinds_complete k : In k all_kinds.
Proof. destruct k; unfold all_kinds; repeat (first [left; reflexivity | right]). Qed.

(* the kinds built with error! and pushed with ctx.error *)
Definition error_kinds : list akind :=
  [KYamlError; KInvalidConfigValue; KInterModifiers; KNoteOnReference; KConflictQuantity; KInterZero;
   KInterBounds; KTimerValueText; KTimerUnitNotTime; KTimerUnitUnknown; KConflictModifiers; KRefNotFound].
(* the kinds built with warning! and pushed with ctx.warn *)
Definition warning_kinds : list akind :=
  [KStdEntryYaml; KTimeOverridenYaml; KUnknownConfigKey; KStdEntryMeta; KTimeOverridden; KIgnoredText;
   KIgnoredComponent; KIncompatibleUnits; KTextValueInRef; KScalingLock; KRedundantModifier; KDeprecated].

Lemma kinds_partition k :
  (kind_is_error k = true <-> In k error_kinds) /\ (kind_is_error k = false <-> In k warning_kinds).
Proof.
  destruct k; cbn; split; split; intro H; try reflexivity; try discriminate;
    try (repeat (first [left; reflexivity | right]));
    repeat (destruct H as [H|H]; [discriminate|]); destruct H.
Qed.

Lemma to_sdiag_severity d :
  sd_is_error (to_sdiag d) = kind_is_error (ad_kind d) /\ sd_stage (to_sdiag d) = StAnalysis.
Proof. unfold to_sdiag, sd_is_error, ad_is_error. cbn. destruct (kind_is_error (ad_kind d)); auto. Qed.

Section DP.
Variable ci_key : str -> str.
Variable yaml_ok : str -> bool.
Variable find_iq : str -> option (str * str).
Variable unit_class : str -> N.
Variable input : str.
Variable x : Analysis.aext.
Variable cfg : Analysis.acfg.
Variable dc : dcfg.
Variable yaml_err_index : str -> option N.
Variable yaml_std_bad : str -> list str.
Variable yaml_has_key : str -> str -> bool.
Variable std_check : str -> str -> bool.
Variable is_alnum : N -> bool.
Variable unit_pq : str -> option N.

Notation astepA := (Analysis.step ci_key yaml_ok find_iq unit_class input x cfg).
Notation ediags := (ediags ci_key yaml_ok unit_class x dc yaml_err_index yaml_std_bad yaml_has_key std_check is_alnum unit_pq).
Notation dstep := (dstep ci_key yaml_ok find_iq unit_class input x cfg dc yaml_err_index yaml_std_bad yaml_has_key std_check is_alnum unit_pq).
Notation drun := (drun ci_key yaml_ok find_iq unit_class input x cfg dc yaml_err_index yaml_std_bad yaml_has_key std_check is_alnum unit_pq).
Notation ingredient_diags := (ingredient_diags ci_key x unit_pq).
Notation cookware_diags := (cookware_diags ci_key).
Notation timer_diags := (timer_diags unit_class x).
Notation metadata_diags := (metadata_diags x std_check).
Notation frontmatter_diags := (frontmatter_diags yaml_ok dc yaml_err_index yaml_std_bad yaml_has_key).
Notation rr_diags := (rr_diags ci_key).
Notation units_diags := (units_diags unit_pq).

(* ---- what a step of the decorated collector is made of ---- *)
Lemma dstep_inv st ev st' ds :
  Analysis.a_halted (ds_a st) = false -> dstep st ev = Done (st', ds) ->
  exists s', astepA (ds_a st) (abstract_event ev) = Done s' /\ ediags st ev = Done ds /\ st' = dupd x std_check st ev s'.
Proof.
  intros Hh H. unfold AnalysisDiag.dstep in H. rewrite Hh in H.
  destruct (astepA _ _) as [s'|] eqn:E1; [|discriminate]. cbn [obind] in H.
  destruct (ediags st ev) as [d|] eqn:E2; [|discriminate]. cbn [obind] in H.
  injection H as <- <-. exists s'. auto.
Qed.

(* ================================================================ severities *)
Lemma value_diags_warn b v : errs (value_diags b v) = false.
Proof. unfold value_diags. destruct (_ && _); reflexivity. Qed.

Lemma std_bad_diags_warn t keys ds : std_bad_diags t keys = Done ds -> errs ds = false.
Proof.
  revert ds. induction keys as [|k r IH]; intros ds H; cbn in H.
  - injection H as <-. reflexivity.
  - dm H. injection H as <-. cbn. apply (IH _ eq_refl).
Qed.

Lemma frontmatter_diags_errs t ds :
  frontmatter_diags t = Done ds -> errs ds = negb (yaml_ok (text_str t)).
Proof.
  unfold AnalysisDiag.frontmatter_diags. destruct (yaml_ok (text_str t)); cbn [negb].
  - intro H. destruct (std_bad_diags t _) as [d1|] eqn:E1; [|discriminate]. cbn [obind] in H.
    pose proof (std_bad_diags_warn _ _ _ E1) as W.
    destruct (yaml_has_key _ s_time); [|injection H as <-; exact W].
    dm H; injection H as <-; try exact W.
    rewrite errs_app, W. reflexivity.
  - intro H. injection H as <-. reflexivity.
Qed.

Lemma override_diags_warn o n : errs (override_diags o n) = false.
Proof. unfold override_diags. destruct (sort2 _); reflexivity. Qed.

Lemma units_diags_warn tbl il q u idxs ds : units_diags tbl il q u idxs = Done ds -> errs ds = false.
Proof.
  revert ds. induction idxs as [|k r IH]; intros ds H; cbn [AnalysisDiag.units_diags] in H.
  - injection H as <-. reflexivity.
  - destruct (nth_error tbl k) as [c|]; [|discriminate].
    match type of H with obind ?o _ = _ => destruct o as [d|] eqn:Ed; [|discriminate] end.
    cbn [obind] in H. destruct (units_diags tbl il q u r) as [dr|]; [|discriminate]. cbn [obind] in H.
    injection H as <-. rewrite errs_app, (IH _ eq_refl), orb_false_r.
    destruct (Analysis.c_qty c) as [qi|]; [|injection Ed as <-; reflexivity].
    destruct (compatible_unit unit_pq (Analysis.qi_unit qi) u); try (injection Ed as <-; reflexivity);
      (destruct (nth_error il k) as [ilk|]; [|discriminate]; destruct (i_qty ilk); [|discriminate];
       injection Ed as <-; reflexivity).
Qed.

(* resolve_reference: its error bit is "an error diagnostic of [rr_diags]" *)
Lemma rr_diags_errs s tbl inherit new loc mloc r :
  Analysis.resolve_reference ci_key s tbl inherit new = Done r ->
  errs (rr_diags s tbl inherit new loc mloc) = Analysis.rs_err r.
Proof.
  unfold Analysis.resolve_reference, AnalysisDiag.rr_diags.
  destruct (Events.m_new (Analysis.c_mods new)) eqn:Hn; destruct (Events.m_ref (Analysis.c_mods new)) eqn:Hr; cbn [andb orb negb].
  - intro H. injection H as <-. reflexivity.
  - intro H. injection H as <-. cbn [Analysis.rs_err].
    destruct (negb (Analysis.dm_eqb _ _)); [|reflexivity].
    destruct (Analysis.dup_is_ref _); cbn [andb negb]; [destruct (negb (Events.is_some _))|]; reflexivity.
  - (* ref *)
    rewrite ?orb_true_r, ?andb_true_r. cbn [negb orb].
    destruct (Analysis.same_name ci_key tbl (Analysis.c_name new)) as [j|] eqn:Es.
    + destruct (nth_error tbl j) as [referenced|]; [|discriminate].
      destruct (Events.m_ref (Analysis.c_mods referenced)); [discriminate|]. intro H. injection H as <-.
      cbn [Analysis.rs_err]. rewrite errs_app.
      assert (W : forall b : bool, errs (if b then [redundant mloc] else []) = false) by (intros []; reflexivity).
      rewrite W. cbn [orb]. destruct (negb (Events.mods_is_empty _)); reflexivity.
    + intro H. injection H as <-. cbn [Analysis.rs_err]. rewrite errs_app. cbn.
      apply orb_true_r.
  - (* neither *)
    rewrite ?andb_false_r. cbn [orb].
    destruct (Analysis.dm_eqb (Analysis.a_define s) Analysis.DMSteps || (Analysis.dup_is_ref (Analysis.a_duplicate s) && Events.is_some (Analysis.same_name ci_key tbl (Analysis.c_name new)))) eqn:Ht; cbn [negb].
    + destruct (Analysis.same_name ci_key tbl (Analysis.c_name new)) as [j|] eqn:Es.
      * destruct (nth_error tbl j) as [referenced|]; [|discriminate].
        destruct (Events.m_ref (Analysis.c_mods referenced)); [discriminate|]. intro H. injection H as <-.
        cbn [Analysis.rs_err app]. destruct (negb (Events.mods_is_empty _)); reflexivity.
      * intro H. injection H as <-. reflexivity.
    + intro H. injection H as <-. reflexivity.
Qed.

Lemma rs_new_qty s tbl inherit new r :
  Analysis.resolve_reference ci_key s tbl inherit new = Done r ->
  Analysis.c_qty (Analysis.rs_new r) = Analysis.c_qty new.
Proof.
  unfold Analysis.resolve_reference. intro H. dm H; injection H as <-; reflexivity.
Qed.

Lemma link_reference_inv tbl new j hn ul tbl' e :
  Analysis.link_reference tbl new j hn ul = Done (tbl', e) ->
  exists def rf dis, nth_error tbl j = Some def /\ Analysis.c_rel def = Analysis.RDef rf dis /\
    e = hn || (Events.is_some (Analysis.c_qty def) && Events.is_some (Analysis.c_qty new) && negb dis).
Proof.
  unfold Analysis.link_reference. intro H.
  destruct (nth_error tbl j) as [def|]; [|discriminate].
  destruct (Analysis.c_rel def) as [rf dis|] eqn:Er; [|discriminate].
  destruct (_ && _ && _); [discriminate|]. injection H as _ <-. exists def, rf, dis. auto.
Qed.

Lemma lockd_warn (o : option quantity) :
  errs (match o with Some q => value_diags true (q_val q) | None => [] end) = false.
Proof. destruct o; [apply value_diags_warn|reflexivity]. Qed.

Lemma inter_diag_err d : errs [inter_diag d] = true.
Proof. unfold inter_diag. destruct (im_val d =? 0); reflexivity. Qed.

Lemma abs_is_some {A B} (f : A -> B) (o : option A) : Events.is_some (option_map f o) = Events.is_some o.
Proof. destruct o; reflexivity. Qed.

(* ---- ingredient: the error bit of Analysis.ingredient is "an error diagnostic was pushed" ---- *)
Lemma ingredient_diags_errs st i s1 idx ds :
  Analysis.ingredient ci_key x (ds_a st) (abs_ing i) = Done (s1, idx) ->
  ingredient_diags st i = Done ds ->
  Analysis.a_errors s1 = Analysis.a_errors (ds_a st) || errs ds.
Proof.
  unfold Analysis.ingredient, AnalysisDiag.ingredient_diags, ing_new. cbv zeta.
  cbn [Events.pi_inter Events.pi_name Events.pi_alias Events.pi_quantity Events.pi_note Events.pi_mods abs_ing].
  match goal with |- context [Analysis.resolve_reference _ _ _ _ ?n] => set (new := n) end.
  set (s := ds_a st). set (tbl := Analysis.a_ingredients s).
  destruct (i_inter i) as [d|]; cbn [option_map].
  - intros H1 H2. destruct (negb (Events.m_ref (Analysis.c_mods new))); [discriminate|].
    destruct (Analysis.resolve_intermediate_ref s (abstract_inter d)) as [r|]; [|discriminate].
    cbn [obind] in H1, H2. injection H2 as <-. rewrite !errs_app, lockd_warn. cbn [orb].
    destruct r as [rel|]; injection H1 as <- _; cbn [Analysis.a_errors Analysis.add_error Analysis.set_ingredients].
    + rewrite orb_false_r. fold s. f_equal. destruct (Events.mods_intersects _ _); reflexivity.
    + rewrite inter_diag_err, !orb_true_r. reflexivity.
  - intros H1 H2.
    destruct (Analysis.resolve_reference ci_key s tbl Analysis.inherit_ingredient new) as [r|] eqn:Er; [|discriminate].
    cbn [obind] in H1, H2.
    pose proof (rr_diags_errs s tbl _ new (i_span i) (i_mods_span i) r Er) as Hrr.
    destruct (Analysis.rs_target r) as [[j imp]|].
    + destruct (Analysis.link_reference tbl (Analysis.rs_new r) j _ _) as [[tbl' e]|] eqn:El; [|discriminate].
      cbn [obind] in H1. injection H1 as <- _.
      destruct (link_reference_inv _ _ _ _ _ _ _ El) as (def & rf & dis & Hn & Hrel & He).
      fold tbl in H2. rewrite Hn in H2. destruct (nth_error (ds_iloc st) j) as [dloc|]; [|discriminate].
      rewrite Hrel in H2.
      match type of H2 with obind ?o _ = _ => destruct o as [ud|] eqn:Eu; [|discriminate] end. cbn [obind] in H2.
      match type of H2 with obind ?o _ = _ => destruct o as [td|] eqn:Et; [|discriminate] end. cbn [obind] in H2.
      injection H2 as <-.
      assert (Wu : errs ud = false).
      { destruct (i_qty i); [destruct (Analysis.x_advanced x)|]; try (injection Eu as <-; reflexivity).
        eapply units_diags_warn; exact Eu. }
      assert (Wt : errs td = false).
      { destruct (i_qty i) as [q|]; [|injection Et as <-; reflexivity].
        destruct (Analysis.c_qty def); [|injection Et as <-; reflexivity].
        destruct (Bool.eqb _ _); [injection Et as <-; reflexivity|].
        destruct (i_qty dloc); [|discriminate]. injection Et as <-.
        unfold text_val_diag. destruct (Events.pvalue_is_text _); reflexivity. }
      rewrite !errs_app, lockd_warn, Hrr, Wu, Wt. cbn [orb]. rewrite orb_false_r.
      cbn [Analysis.a_errors Analysis.add_error Analysis.set_ingredients]. fold s. f_equal. f_equal.
      rewrite He, (rs_new_qty _ _ _ _ _ Er). subst new. cbn [Analysis.c_qty].
      rewrite !abs_is_some.
      destruct (i_note i); destruct (i_qty i); cbn [Events.is_some orb andb errs existsb app];
        rewrite ?andb_false_r, ?andb_true_r; try reflexivity;
        destruct (Events.is_some (Analysis.c_qty def)); destruct dis; reflexivity.
    + injection H1 as <- _. injection H2 as <-. rewrite !errs_app, lockd_warn, Hrr. reflexivity.
Qed.

Lemma cw_lockd_warn (o : option (qvalue * span)) :
  errs (match o with Some (v, _) => value_diags false v | None => [] end) = false.
Proof. destruct o as [[v sp]|]; [apply value_diags_warn|reflexivity]. Qed.

Lemma cookware_diags_errs st c s1 idx ds :
  Analysis.cookware ci_key (ds_a st) (abs_cw c) = Done (s1, idx) ->
  cookware_diags st c = Done ds ->
  Analysis.a_errors s1 = Analysis.a_errors (ds_a st) || errs ds.
Proof.
  unfold Analysis.cookware, AnalysisDiag.cookware_diags, cw_new. cbv zeta.
  cbn [Events.pc_name Events.pc_alias Events.pc_quantity Events.pc_note Events.pc_mods abs_cw].
  match goal with |- context [Analysis.resolve_reference _ _ _ _ ?n] => set (new := n) end.
  set (s := ds_a st). set (tbl := Analysis.a_cookware s).
  intros H1 H2.
  destruct (Analysis.resolve_reference ci_key s tbl Analysis.inherit_cookware new) as [r|] eqn:Er; [|discriminate].
  cbn [obind] in H1, H2.
  pose proof (rr_diags_errs s tbl _ new (c_span c) (c_mods_span c) r Er) as Hrr.
  destruct (Analysis.rs_target r) as [[j imp]|].
  - destruct (Analysis.link_reference tbl (Analysis.rs_new r) j _ _) as [[tbl' e]|] eqn:El; [|discriminate].
    cbn [obind] in H1. injection H1 as <- _.
    destruct (link_reference_inv _ _ _ _ _ _ _ El) as (def & rf & dis & Hn & Hrel & He).
    fold tbl in H2. rewrite Hn in H2. destruct (nth_error (ds_cloc st) j) as [dloc|]; [|discriminate].
    rewrite Hrel in H2.
    match type of H2 with obind ?o _ = _ => destruct o as [td|] eqn:Et; [|discriminate] end. cbn [obind] in H2.
    injection H2 as <-.
    assert (Wt : errs td = false).
    { destruct (c_qty c) as [[v qsp]|]; [|injection Et as <-; reflexivity].
      destruct (Analysis.c_qty def); [|injection Et as <-; reflexivity].
      destruct (Bool.eqb _ _); [injection Et as <-; reflexivity|].
      destruct (c_qty dloc) as [[dv dsp]|]; [|discriminate]. injection Et as <-.
      unfold text_val_diag. destruct (Events.pvalue_is_text _); reflexivity. }
    rewrite !errs_app, cw_lockd_warn, Hrr, Wt. cbn [orb]. rewrite orb_false_r.
    cbn [Analysis.a_errors Analysis.add_error Analysis.set_cookware]. fold s. f_equal. f_equal.
    rewrite He, (rs_new_qty _ _ _ _ _ Er). subst new. cbn [Analysis.c_qty].
    rewrite !abs_is_some.
    destruct (c_note c); destruct (c_qty c) as [[v qsp]|]; cbn [Events.is_some orb andb errs existsb app];
      rewrite ?andb_false_r, ?andb_true_r; try reflexivity;
      destruct (Events.is_some (Analysis.c_qty def)); destruct dis; reflexivity.
  - injection H1 as <- _. injection H2 as <-. rewrite !errs_app, cw_lockd_warn, Hrr. reflexivity.
Qed.

Lemma timer_diags_errs s t :
  Analysis.a_errors (fst (Analysis.timer unit_class x s (abs_timer t))) = Analysis.a_errors s || errs (timer_diags t).
Proof.
  unfold Analysis.timer, AnalysisDiag.timer_diags. cbn [fst Analysis.a_errors Analysis.add_error Analysis.set_timers abs_timer Events.pt_quantity].
  f_equal. destruct (t_qty t) as [q|]; cbn [option_map]; [|reflexivity].
  rewrite errs_app, value_diags_warn. cbn [orb].
  destruct (Analysis.x_advanced x); cbn [andb]; [|reflexivity].
  rewrite errs_app. unfold Analysis.quantity_info, Analysis.value_info. cbn [Analysis.qi_text Analysis.qi_unit abstract_quantity Events.pq_value Events.pq_unit].
  f_equal; [destruct (Events.pvalue_is_text _); reflexivity|].
  destruct (q_unit q) as [u|]; cbn [option_map]; [|reflexivity]. rewrite abs_text_trimmed.
  destruct (unit_class (text_trimmed u) =? 1); [reflexivity|]. destruct (unit_class (text_trimmed u) =? 0); reflexivity.
Qed.

Lemma metadata_diags_errs st k v :
  Analysis.a_errors (Analysis.metadata x (ds_a st) (abstract_text k) (abstract_text v)) =
  Analysis.a_errors (ds_a st) || errs (snd (metadata_diags st k v)).
Proof.
  unfold Analysis.metadata, AnalysisDiag.metadata_diags. rewrite abs_text_trimmed, abs_text_outer. cbv zeta.
  destruct (Analysis.x_modes x && _ && _).
  - destruct (str_eqb _ Analysis.s_define || str_eqb _ Analysis.s_mode).
    + destruct (str_eqb _ Analysis.s_all || str_eqb _ Analysis.s_default); cbn [orb snd]; [rewrite orb_false_r; reflexivity|].
      destruct (str_eqb _ Analysis.s_components || str_eqb _ Analysis.s_ingredients); cbn [orb snd]; [rewrite orb_false_r; reflexivity|].
      destruct (str_eqb _ Analysis.s_steps); cbn [orb snd]; [rewrite orb_false_r; reflexivity|].
      destruct (str_eqb _ Analysis.s_text); cbn [orb snd]; [rewrite orb_false_r; reflexivity|]. reflexivity.
    + destruct (str_eqb _ Analysis.s_duplicate); [|cbn; rewrite orb_false_r; reflexivity].
      destruct (str_eqb _ Analysis.s_new || str_eqb _ Analysis.s_default); cbn [orb snd]; [rewrite orb_false_r; reflexivity|].
      destruct (str_eqb _ Analysis.s_reference || str_eqb _ Analysis.s_ref); cbn [orb snd]; [rewrite orb_false_r; reflexivity|]. reflexivity.
  - destruct (std_key _) as [[]|]; cbn [snd]; try (rewrite orb_false_r; reflexivity);
      destruct (negb (std_check _ _)); cbn [snd]; rewrite ?override_diags_warn, orb_false_r; reflexivity.
Qed.

Lemma end_block_errors s k s' : Analysis.end_block cfg s k = Done s' -> Analysis.a_errors s' = Analysis.a_errors s.
Proof. unfold Analysis.end_block, Analysis.finish_block. intro H. dm H; injection H as <-; reflexivity. Qed.

(* ================================================================ the severity / validity link
   one event: the bit a_errors of Model/Analysis.v after the event is the bit before it or
   "one of the diagnostics pushed for the event has severity Error" *)
Theorem dstep_errors st ev st' ds :
  Analysis.a_halted (ds_a st) = false -> dstep st ev = Done (st', ds) ->
  Analysis.a_errors (ds_a st') = Analysis.a_errors (ds_a st) || errs ds.
Proof.
  intros Hh H. destruct (dstep_inv st ev st' ds Hh H) as (s' & Hs & Hd & ->).
  assert (Ea : ds_a (dupd x std_check st ev s') = s') by (destruct ev; reflexivity). rewrite Ea. clear Ea H.
  unfold Analysis.step in Hs. rewrite Hh in Hs. destruct ev; cbn [abstract_event] in Hs.
  - (* front matter *)
    injection Hs as <-. cbn [AnalysisDiag.ediags] in Hd. rewrite (frontmatter_diags_errs _ _ Hd), abs_text_str. reflexivity.
  - injection Hs as <-. cbn [AnalysisDiag.ediags] in Hd. injection Hd as <-. apply metadata_diags_errs.
  - injection Hs as <-. injection Hd as <-. cbn. rewrite orb_false_r. reflexivity.
  - injection Hs as <-. injection Hd as <-. cbn. rewrite orb_false_r. reflexivity.
  - injection Hd as <-. rewrite (end_block_errors _ _ _ Hs), orb_false_r. reflexivity.
  - (* text *)
    cbn [AnalysisDiag.ediags] in Hd. destruct (Analysis.a_block (ds_a st)) as [[items|tx]|]; [| |discriminate].
    + assert (W : errs ds = false) by (destruct (_ && _); injection Hd as <-; reflexivity). rewrite W, orb_false_r.
      unfold Analysis.in_step in Hs. dm Hs; injection Hs as <-; reflexivity.
    + injection Hd as <-. rewrite orb_false_r. unfold Analysis.in_text in Hs. injection Hs as <-. reflexivity.
  - (* ingredient *)
    cbn [AnalysisDiag.ediags] in Hd. destruct (Analysis.a_block (ds_a st)) as [[items|tx]|]; [| |discriminate].
    + unfold Analysis.in_step in Hs. fold (abs_ing i) in Hs.
      destruct (Analysis.ingredient ci_key x (ds_a st) (abs_ing i)) as [[s1 idx]|] eqn:Ei; [|discriminate].
      cbn [obind] in Hs. injection Hs as <-. cbn [Analysis.a_errors Analysis.set_block].
      eapply ingredient_diags_errs; eassumption.
    + injection Hd as <-. rewrite orb_false_r. unfold Analysis.in_text in Hs. dm Hs; injection Hs as <-; reflexivity.
  - (* cookware *)
    cbn [AnalysisDiag.ediags] in Hd. destruct (Analysis.a_block (ds_a st)) as [[items|tx]|]; [| |discriminate].
    + unfold Analysis.in_step in Hs. fold (abs_cw c) in Hs.
      destruct (Analysis.cookware ci_key (ds_a st) (abs_cw c)) as [[s1 idx]|] eqn:Ei; [|discriminate].
      cbn [obind] in Hs. injection Hs as <-. cbn [Analysis.a_errors Analysis.set_block].
      eapply cookware_diags_errs; eassumption.
    + injection Hd as <-. rewrite orb_false_r. unfold Analysis.in_text in Hs. dm Hs; injection Hs as <-; reflexivity.
  - (* timer *)
    cbn [AnalysisDiag.ediags] in Hd. destruct (Analysis.a_block (ds_a st)) as [[items|tx]|]; [| |discriminate].
    + unfold Analysis.in_step in Hs. fold (abs_timer t) in Hs. injection Hd as <-.
      pose proof (timer_diags_errs (ds_a st) t) as Ht.
      destruct (Analysis.timer unit_class x (ds_a st) (abs_timer t)) as [s1 idx]. injection Hs as <-.
      cbn [Analysis.a_errors Analysis.set_block]. exact Ht.
    + injection Hd as <-. rewrite orb_false_r. unfold Analysis.in_text in Hs. dm Hs; injection Hs as <-; reflexivity.
  - (* a parser diagnostic *)
    injection Hd as <-. rewrite orb_false_r. destruct (d_err d); injection Hs as <-; reflexivity.
Qed.

(* ================================================================ placement
   [in_step_block st]: the collector is inside a step (Start(Step) seen, not in text mode) *)
Definition in_step_block (st : dstate) : Prop := exists items, Analysis.a_block (ds_a st) = Some (Analysis.BStep items).

Definition imods (i : ingredient) : Events.modifiers := Events.mods_of_bits (i_mods i).
Definition cmods (c : cookware) : Events.modifiers := Events.mods_of_bits (c_mods c).
(* the name the collector gives the ingredient (591-596) / the cookware item (908) *)
Definition iname (i : ingredient) : str := DiagAnalysisProofs.ing_name (abs_ing i).
Definition cname (c : cookware) : str := text_trimmed (c_name c).

(* the component is treated as a reference (1160-1162) ... *)
Definition treated_as_ref (s : Analysis.astate) (tbl : list Analysis.component) (m : Events.modifiers) (name : str) : bool :=
  negb (Events.m_new m) &&
  (Events.m_ref m || Analysis.dm_eqb (Analysis.a_define s) Analysis.DMSteps
   || (Analysis.dup_is_ref (Analysis.a_duplicate s) && Events.is_some (Analysis.same_name ci_key tbl name))).
(* ... to the definition at index j (1172) *)
Definition refers_to (s : Analysis.astate) (tbl : list Analysis.component) (m : Events.modifiers) (name : str) (j : nat) : Prop :=
  treated_as_ref s tbl m name = true /\ Analysis.same_name ci_key tbl name = Some j.

Lemma ediags_ingredient st i ds :
  in_step_block st -> ediags st (EvIngredient i) = Done ds -> ingredient_diags st i = Done ds.
Proof. intros (items & Hb) H. cbn [AnalysisDiag.ediags] in H. rewrite Hb in H. exact H. Qed.
Lemma ediags_cookware st c ds :
  in_step_block st -> ediags st (EvCookware c) = Done ds -> cookware_diags st c = Done ds.
Proof. intros (items & Hb) H. cbn [AnalysisDiag.ediags] in H. rewrite Hb in H. exact H. Qed.
Lemma ediags_timer st t ds :
  in_step_block st -> ediags st (EvTimer t) = Done ds -> ds = timer_diags t.
Proof. intros (items & Hb) H. cbn [AnalysisDiag.ediags] in H. rewrite Hb in H. injection H as <-. reflexivity. Qed.

(* the diagnostics of resolve_reference are among those of the component *)
Lemma ingredient_diags_rr st i ds k l :
  i_inter i = None -> ingredient_diags st i = Done ds ->
  pushed (rr_diags (ds_a st) (Analysis.a_ingredients (ds_a st)) Analysis.inherit_ingredient
            (ing_new (ds_a st) (abs_ing i)) (i_span i) (i_mods_span i)) k l ->
  pushed ds k l.
Proof.
  intros Hi H Hp. unfold AnalysisDiag.ingredient_diags in H. rewrite Hi in H. cbv zeta in H.
  destruct (Analysis.resolve_reference _ _ _ _ _) as [r|]; [|discriminate]. cbn [obind] in H.
  destruct (Analysis.rs_target r) as [[j imp]|].
  - dm H; injection H as <-; apply pushed_app_r, pushed_app_l; exact Hp.
  - injection H as <-. apply pushed_app_r. exact Hp.
Qed.

Lemma cookware_diags_rr st c ds k l :
  cookware_diags st c = Done ds ->
  pushed (rr_diags (ds_a st) (Analysis.a_cookware (ds_a st)) Analysis.inherit_cookware
            (cw_new (ds_a st) (abs_cw c)) (c_span c) (c_mods_span c)) k l ->
  pushed ds k l.
Proof.
  intros H Hp. unfold AnalysisDiag.cookware_diags in H. cbv zeta in H.
  destruct (Analysis.resolve_reference _ _ _ _ _) as [r|]; [|discriminate]. cbn [obind] in H.
  destruct (Analysis.rs_target r) as [[j imp]|].
  - dm H; injection H as <-; apply pushed_app_r, pushed_app_l; exact Hp.
  - injection H as <-. apply pushed_app_r. exact Hp.
Qed.

(* ---- resolve_reference, by shape ---- *)
Lemma rr_new_ref s tbl inherit new loc mloc :
  Events.m_new (Analysis.c_mods new) && Events.m_ref (Analysis.c_mods new) = true ->
  pushed (rr_diags s tbl inherit new loc mloc) KConflictModifiers mloc.
Proof. intro H. unfold AnalysisDiag.rr_diags. rewrite H. apply pushed_one. Qed.

Lemma rr_dangling s tbl inherit new loc mloc :
  treated_as_ref s tbl (Analysis.c_mods new) (Analysis.c_name new) = true ->
  Analysis.same_name ci_key tbl (Analysis.c_name new) = None ->
  pushed (rr_diags s tbl inherit new loc mloc) KRefNotFound loc.
Proof.
  unfold treated_as_ref. intros Ht Hs. apply andb_true_iff in Ht. destruct Ht as [Hn Ht].
  apply negb_true_iff in Hn. unfold AnalysisDiag.rr_diags. rewrite Hn, Hs in *. cbn [andb].
  rewrite Ht. cbn [negb]. apply pushed_app_r, pushed_one.
Qed.

Lemma rr_conflict s tbl inherit new loc mloc j def :
  refers_to s tbl (Analysis.c_mods new) (Analysis.c_name new) j -> nth_error tbl j = Some def ->
  Events.mods_is_empty (Events.mods_diff (Events.mods_diff (Analysis.c_mods new)
     (Events.mods_and (Analysis.c_mods def) inherit)) Events.M_ref_only) = false ->
  pushed (rr_diags s tbl inherit new loc mloc) KConflictModifiers mloc.
Proof.
  unfold refers_to, treated_as_ref. intros [Ht Hs] Hn Hc. apply andb_true_iff in Ht. destruct Ht as [Hnw Ht].
  apply negb_true_iff in Hnw. unfold AnalysisDiag.rr_diags. rewrite Hnw. cbn [andb]. rewrite Ht. cbn [negb].
  rewrite Hs, Hn, Hc. cbn [negb]. apply pushed_app_r, pushed_one.
Qed.

(* when the component refers to the definition at j, resolve_reference says so *)
Lemma resolve_refers s tbl inherit new j r :
  refers_to s tbl (Analysis.c_mods new) (Analysis.c_name new) j ->
  Analysis.resolve_reference ci_key s tbl inherit new = Done r ->
  Analysis.rs_target r = Some (j, negb (Events.m_ref (Analysis.c_mods new))).
Proof.
  unfold refers_to, treated_as_ref. intros [Ht Hs] H. apply andb_true_iff in Ht. destruct Ht as [Hnw Ht].
  apply negb_true_iff in Hnw. unfold Analysis.resolve_reference in H. rewrite Hnw in H. cbn [andb] in H.
  rewrite Ht in H. cbn [negb] in H. rewrite Hs in H. dm H. injection H as <-. reflexivity.
Qed.

(* Definition { defined_in_step } of a definition (720-725: `.is_defined_in_step().expect("definition")`) *)
Definition def_in_step (def : Analysis.component) : bool :=
  match Analysis.c_rel def with Analysis.RDef _ b => b | _ => true end.

(* what the diagnostics of an ingredient that refers to a definition are made of *)
Lemma ingredient_diags_ref st i j ds :
  i_inter i = None ->
  refers_to (ds_a st) (Analysis.a_ingredients (ds_a st)) (imods i) (iname i) j ->
  ingredient_diags st i = Done ds ->
  exists def dloc pre ud td,
    nth_error (Analysis.a_ingredients (ds_a st)) j = Some def /\ nth_error (ds_iloc st) j = Some dloc /\
    (forall q rf b, i_qty i = Some q -> Analysis.x_advanced x = true -> Analysis.c_rel def = Analysis.RDef rf b ->
       units_diags (Analysis.a_ingredients (ds_a st)) (ds_iloc st) q (option_map text_trimmed (q_unit q)) (j :: rf) = Done ud) /\
    ds = pre ++ ud ++
         match i_note i with Some n => [note_diag 703 705 706 n (i_span dloc) (i_note dloc)] | None => [] end ++
         match i_qty i with
         | Some q => if Events.is_some (Analysis.c_qty def) && negb (def_in_step def)
                     then [mk KConflictQuantity [(728, q_span q); (729, i_span dloc)]] else []
         | None => []
         end ++ td.
Proof.
  intros Hi Hr H. unfold AnalysisDiag.ingredient_diags in H. rewrite Hi in H. cbv zeta in H.
  destruct (Analysis.resolve_reference _ _ _ _ _) as [r|] eqn:Er; [|discriminate]. cbn [obind] in H.
  rewrite (resolve_refers (ds_a st) _ _ (ing_new (ds_a st) (abs_ing i)) j r Hr Er) in H.
  destruct (nth_error (Analysis.a_ingredients (ds_a st)) j) as [def|]; [|discriminate].
  destruct (nth_error (ds_iloc st) j) as [dloc|]; [|discriminate].
  match type of H with obind ?o _ = _ => destruct o as [ud|] eqn:Eu; [|discriminate] end. cbn [obind] in H.
  match type of H with obind ?o _ = _ => destruct o as [td|] eqn:Et; [|discriminate] end. cbn [obind] in H.
  injection H as <-.
  eexists def, dloc, _, ud, td. split; [reflexivity|]. split; [reflexivity|].
  split; [|rewrite <- app_assoc; reflexivity].
  intros q rf b Hq Ha Hrel. rewrite Hq, Ha, Hrel in Eu. exact Eu.
Qed.

Lemma cookware_diags_ref st c j ds :
  refers_to (ds_a st) (Analysis.a_cookware (ds_a st)) (cmods c) (cname c) j ->
  cookware_diags st c = Done ds ->
  exists def dloc pre td,
    nth_error (Analysis.a_cookware (ds_a st)) j = Some def /\ nth_error (ds_cloc st) j = Some dloc /\
    ds = pre ++
         match c_note c with Some n => [note_diag 928 930 931 n (c_span dloc) (c_note dloc)] | None => [] end ++
         match c_qty c with
         | Some (_, qsp) => if Events.is_some (Analysis.c_qty def) && negb (def_in_step def)
                            then [mk KConflictQuantity [(944, qsp); (945, c_span dloc)]] else []
         | None => []
         end ++ td.
Proof.
  intros Hr H. unfold AnalysisDiag.cookware_diags in H. cbv zeta in H.
  destruct (Analysis.resolve_reference _ _ _ _ _) as [r|] eqn:Er; [|discriminate]. cbn [obind] in H.
  rewrite (resolve_refers (ds_a st) _ _ (cw_new (ds_a st) (abs_cw c)) j r Hr Er) in H.
  destruct (nth_error (Analysis.a_cookware (ds_a st)) j) as [def|]; [|discriminate].
  destruct (nth_error (ds_cloc st) j) as [dloc|]; [|discriminate].
  match type of H with obind ?o _ = _ => destruct o as [td|] eqn:Et; [|discriminate] end. cbn [obind] in H.
  injection H as <-.
  eexists def, dloc, _, td. split; [reflexivity|]. split; [reflexivity|].
  rewrite <- app_assoc. reflexivity.
Qed.

Lemma pushed_mid a b c k l : pushed b k l -> pushed (a ++ b ++ c) k l.
Proof. intro H. apply pushed_app_r, pushed_app_l. exact H. Qed.

(* ---- dangling reference (1212-1225): `&` (or steps mode) and no earlier definition of that name.
   Error; label: the component ---- *)
Theorem dangling_reference_placed st i st' ds :
  Analysis.a_halted (ds_a st) = false -> in_step_block st -> i_inter i = None ->
  treated_as_ref (ds_a st) (Analysis.a_ingredients (ds_a st)) (imods i) (iname i) = true ->
  Analysis.same_name ci_key (Analysis.a_ingredients (ds_a st)) (iname i) = None ->
  dstep st (EvIngredient i) = Done (st', ds) ->
  placed ds SevError (i_span i).
Proof.
  intros Hh Hb Hi Ht Hs H. destruct (dstep_inv _ _ _ _ Hh H) as (s' & _ & Hd & _).
  apply (pushed_placed ds KRefNotFound (i_span i)); [|apply span_within_refl].
  eapply ingredient_diags_rr; [exact Hi|apply ediags_ingredient; eassumption|].
  apply (rr_dangling (ds_a st) _ _ (ing_new (ds_a st) (abs_ing i))); assumption.
Qed.

Theorem dangling_reference_cookware_placed st c st' ds :
  Analysis.a_halted (ds_a st) = false -> in_step_block st ->
  treated_as_ref (ds_a st) (Analysis.a_cookware (ds_a st)) (cmods c) (cname c) = true ->
  Analysis.same_name ci_key (Analysis.a_cookware (ds_a st)) (cname c) = None ->
  dstep st (EvCookware c) = Done (st', ds) ->
  placed ds SevError (c_span c).
Proof.
  intros Hh Hb Ht Hs H. destruct (dstep_inv _ _ _ _ Hh H) as (s' & _ & Hd & _).
  apply (pushed_placed ds KRefNotFound (c_span c)); [|apply span_within_refl].
  eapply cookware_diags_rr; [apply ediags_cookware; eassumption|].
  apply (rr_dangling (ds_a st) _ _ (cw_new (ds_a st) (abs_cw c))); assumption.
Qed.

(* ---- new (+) together with ref (&) (1122-1129; with intermediate data: 613-625, NEW is one of
   the invalid modifiers).  Error; label: the modifiers ---- *)
Theorem new_ref_modifiers_placed st i st' ds :
  Analysis.a_halted (ds_a st) = false -> in_step_block st ->
  Events.m_new (imods i) && Events.m_ref (imods i) = true ->
  dstep st (EvIngredient i) = Done (st', ds) ->
  placed ds SevError (i_mods_span i).
Proof.
  intros Hh Hb Hm H. destruct (dstep_inv _ _ _ _ Hh H) as (s' & _ & Hd & _).
  pose proof (ediags_ingredient _ _ _ Hb Hd) as Hg.
  destruct (i_inter i) as [d|] eqn:Hi.
  - apply (pushed_placed ds KInterModifiers (i_mods_span i)); [|apply span_within_refl].
    unfold AnalysisDiag.ingredient_diags in Hg. rewrite Hi in Hg. cbv zeta in Hg.
    destruct (Analysis.resolve_intermediate_ref _ _) as [r|]; [|discriminate]. cbn [obind] in Hg.
    injection Hg as <-. apply pushed_mid.
    change (Events.mods_of_bits (i_mods i)) with (imods i).
    assert (E : Events.mods_intersects (imods i) Analysis.inter_invalid = true).
    { destruct (imods i) as [mr mf mh mo mn]. cbn in Hm. apply andb_true_iff in Hm. destruct Hm as [-> _].
      unfold Events.mods_intersects, Events.mods_is_empty, Events.mods_and, Events.mods_map2. cbn.
      rewrite !andb_true_r, !orb_true_r. reflexivity. }
    rewrite E. apply pushed_one.
  - apply (pushed_placed ds KConflictModifiers (i_mods_span i)); [|apply span_within_refl].
    eapply ingredient_diags_rr; [exact Hi|exact Hg|]. apply rr_new_ref. exact Hm.
Qed.

Theorem new_ref_modifiers_cookware_placed st c st' ds :
  Analysis.a_halted (ds_a st) = false -> in_step_block st ->
  Events.m_new (cmods c) && Events.m_ref (cmods c) = true ->
  dstep st (EvCookware c) = Done (st', ds) ->
  placed ds SevError (c_mods_span c).
Proof.
  intros Hh Hb Hm H. destruct (dstep_inv _ _ _ _ Hh H) as (s' & _ & Hd & _).
  apply (pushed_placed ds KConflictModifiers (c_mods_span c)); [|apply span_within_refl].
  eapply cookware_diags_rr; [apply ediags_cookware; eassumption|]. apply rr_new_ref. exact Hm.
Qed.

(* ---- an intermediate reference with RECIPE, HIDDEN or NEW (613-625).  Error; label: the modifiers ---- *)
Theorem intermediate_modifiers_placed st i d st' ds :
  Analysis.a_halted (ds_a st) = false -> in_step_block st -> i_inter i = Some d ->
  Events.mods_intersects (imods i) Analysis.inter_invalid = true ->
  dstep st (EvIngredient i) = Done (st', ds) ->
  placed ds SevError (i_mods_span i).
Proof.
  intros Hh Hb Hi Hm H. destruct (dstep_inv _ _ _ _ Hh H) as (s' & _ & Hd & _).
  pose proof (ediags_ingredient _ _ _ Hb Hd) as Hg.
  apply (pushed_placed ds KInterModifiers (i_mods_span i)); [|apply span_within_refl].
  unfold AnalysisDiag.ingredient_diags in Hg. rewrite Hi in Hg. cbv zeta in Hg.
  destruct (Analysis.resolve_intermediate_ref _ _) as [r|]; [|discriminate]. cbn [obind] in Hg.
  injection Hg as <-. apply pushed_mid.
  change (Events.mods_of_bits (i_mods i)) with (imods i). rewrite Hm. apply pushed_one.
Qed.

(* ---- an intermediate reference that resolves to nothing: 0, or beyond the steps of the section /
   the past sections (792-809, 811-899).  Error; label: the intermediate data `(..)` ---- *)
Theorem intermediate_reference_placed st i d st' ds :
  Analysis.a_halted (ds_a st) = false -> in_step_block st -> i_inter i = Some d ->
  Analysis.resolve_intermediate_ref (ds_a st) (abstract_inter d) = Done None ->
  dstep st (EvIngredient i) = Done (st', ds) ->
  placed ds SevError (im_span d).
Proof.
  intros Hh Hb Hi Hr H. destruct (dstep_inv _ _ _ _ Hh H) as (s' & _ & Hd & _).
  pose proof (ediags_ingredient _ _ _ Hb Hd) as Hg.
  unfold AnalysisDiag.ingredient_diags in Hg. rewrite Hi in Hg. cbv zeta in Hg. rewrite Hr in Hg. cbn [obind] in Hg.
  injection Hg as <-.
  assert (P : exists k, kind_is_error k = true /\ pushed [inter_diag d] k (im_span d)).
  { unfold inter_diag. destruct (im_val d =? 0); eexists; (split; [|apply pushed_one]); reflexivity. }
  destruct P as (k & Hk & P).
  replace SevError with (kind_sev k) by (unfold kind_sev; rewrite Hk; reflexivity).
  apply (pushed_placed _ k (im_span d)); [|apply span_within_refl].
  apply pushed_app_r, pushed_app_r. exact P.
Qed.

(* ---- modifiers the definition does not have (1176-1207).  Error; label: the modifiers ---- *)
Theorem conflicting_modifiers_placed st i j def st' ds :
  Analysis.a_halted (ds_a st) = false -> in_step_block st -> i_inter i = None ->
  refers_to (ds_a st) (Analysis.a_ingredients (ds_a st)) (imods i) (iname i) j ->
  nth_error (Analysis.a_ingredients (ds_a st)) j = Some def ->
  Events.mods_is_empty (Events.mods_diff (Events.mods_diff (imods i)
     (Events.mods_and (Analysis.c_mods def) Analysis.inherit_ingredient)) Events.M_ref_only) = false ->
  dstep st (EvIngredient i) = Done (st', ds) ->
  placed ds SevError (i_mods_span i).
Proof.
  intros Hh Hb Hi Hr Hn Hc H. destruct (dstep_inv _ _ _ _ Hh H) as (s' & _ & Hd & _).
  apply (pushed_placed ds KConflictModifiers (i_mods_span i)); [|apply span_within_refl].
  eapply ingredient_diags_rr; [exact Hi|apply ediags_ingredient; eassumption|].
  apply (rr_conflict (ds_a st) _ _ (ing_new (ds_a st) (abs_ing i)) _ _ j def); assumption.
Qed.

Theorem conflicting_modifiers_cookware_placed st c j def st' ds :
  Analysis.a_halted (ds_a st) = false -> in_step_block st ->
  refers_to (ds_a st) (Analysis.a_cookware (ds_a st)) (cmods c) (cname c) j ->
  nth_error (Analysis.a_cookware (ds_a st)) j = Some def ->
  Events.mods_is_empty (Events.mods_diff (Events.mods_diff (cmods c)
     (Events.mods_and (Analysis.c_mods def) Analysis.inherit_cookware)) Events.M_ref_only) = false ->
  dstep st (EvCookware c) = Done (st', ds) ->
  placed ds SevError (c_mods_span c).
Proof.
  intros Hh Hb Hr Hn Hc H. destruct (dstep_inv _ _ _ _ Hh H) as (s' & _ & Hd & _).
  apply (pushed_placed ds KConflictModifiers (c_mods_span c)); [|apply span_within_refl].
  eapply cookware_diags_rr; [apply ediags_cookware; eassumption|].
  apply (rr_conflict (ds_a st) _ _ (cw_new (ds_a st) (abs_cw c)) _ _ j def); assumption.
Qed.

(* ---- a note on a component that is a reference (701-708, 926-933).  Error; label: the note ---- *)
Theorem note_on_reference_placed st i j n st' ds :
  Analysis.a_halted (ds_a st) = false -> in_step_block st -> i_inter i = None ->
  refers_to (ds_a st) (Analysis.a_ingredients (ds_a st)) (imods i) (iname i) j ->
  i_note i = Some n ->
  dstep st (EvIngredient i) = Done (st', ds) ->
  placed ds SevError (text_span n).
Proof.
  intros Hh Hb Hi Hr Hn H. destruct (dstep_inv _ _ _ _ Hh H) as (s' & _ & Hd & _).
  destruct (ingredient_diags_ref st i j ds Hi Hr (ediags_ingredient _ _ _ Hb Hd))
    as (def & dloc & pre & ud & td & _ & _ & _ & ->).
  apply (pushed_placed _ KNoteOnReference (text_span n)); [|apply span_within_refl].
  rewrite Hn. apply pushed_app_r, pushed_app_r, pushed_app_l. unfold note_diag. apply pushed_one.
Qed.

Theorem note_on_reference_cookware_placed st c j n st' ds :
  Analysis.a_halted (ds_a st) = false -> in_step_block st ->
  refers_to (ds_a st) (Analysis.a_cookware (ds_a st)) (cmods c) (cname c) j ->
  c_note c = Some n ->
  dstep st (EvCookware c) = Done (st', ds) ->
  placed ds SevError (text_span n).
Proof.
  intros Hh Hb Hr Hn H. destruct (dstep_inv _ _ _ _ Hh H) as (s' & _ & Hd & _).
  destruct (cookware_diags_ref st c j ds Hr (ediags_cookware _ _ _ Hb Hd))
    as (def & dloc & pre & td & _ & _ & ->).
  apply (pushed_placed _ KNoteOnReference (text_span n)); [|apply span_within_refl].
  rewrite Hn. apply pushed_app_r, pushed_app_l. unfold note_diag. apply pushed_one.
Qed.

(* ---- a reference with a quantity to a definition with a quantity made outside a step (720-732,
   936-948).  Error; label: the quantity of the reference ---- *)
Theorem conflicting_quantity_placed st i j def q st' ds :
  Analysis.a_halted (ds_a st) = false -> in_step_block st -> i_inter i = None ->
  refers_to (ds_a st) (Analysis.a_ingredients (ds_a st)) (imods i) (iname i) j ->
  nth_error (Analysis.a_ingredients (ds_a st)) j = Some def ->
  Events.is_some (Analysis.c_qty def) = true -> def_in_step def = false -> i_qty i = Some q ->
  dstep st (EvIngredient i) = Done (st', ds) ->
  placed ds SevError (q_span q).
Proof.
  intros Hh Hb Hi Hr Hn Hq Hdis Hiq H. destruct (dstep_inv _ _ _ _ Hh H) as (s' & _ & Hd & _).
  destruct (ingredient_diags_ref st i j ds Hi Hr (ediags_ingredient _ _ _ Hb Hd))
    as (def' & dloc & pre & ud & td & Hn' & _ & _ & ->).
  assert (def' = def) by congruence. subst def'.
  apply (pushed_placed _ KConflictQuantity (q_span q)); [|apply span_within_refl].
  rewrite Hiq, Hq, Hdis. cbn [andb negb].
  apply pushed_app_r, pushed_app_r, pushed_app_r, pushed_app_l, pushed_one.
Qed.

Theorem conflicting_quantity_cookware_placed st c j def v qsp st' ds :
  Analysis.a_halted (ds_a st) = false -> in_step_block st ->
  refers_to (ds_a st) (Analysis.a_cookware (ds_a st)) (cmods c) (cname c) j ->
  nth_error (Analysis.a_cookware (ds_a st)) j = Some def ->
  Events.is_some (Analysis.c_qty def) = true -> def_in_step def = false -> c_qty c = Some (v, qsp) ->
  dstep st (EvCookware c) = Done (st', ds) ->
  placed ds SevError qsp.
Proof.
  intros Hh Hb Hr Hn Hq Hdis Hiq H. destruct (dstep_inv _ _ _ _ Hh H) as (s' & _ & Hd & _).
  destruct (cookware_diags_ref st c j ds Hr (ediags_cookware _ _ _ Hb Hd))
    as (def' & dloc & pre & td & Hn' & _ & ->).
  assert (def' = def) by congruence. subst def'.
  apply (pushed_placed _ KConflictQuantity qsp); [|apply span_within_refl].
  rewrite Hiq, Hq, Hdis. cbn [andb negb].
  apply pushed_app_r, pushed_app_r, pushed_app_l, pushed_one.
Qed.

(* ---- ADVANCED_UNITS: the unit of the reference cannot be added to that of the definition or of an
   earlier reference (639-699).  Warning; label: the unit of the reference, or its quantity when it
   has no unit ---- *)
Lemma units_diags_pushed tbl il q u idxs ud k c qi :
  units_diags tbl il q u idxs = Done ud -> In k idxs ->
  nth_error tbl k = Some c -> Analysis.c_qty c = Some qi ->
  compatible_unit unit_pq (Analysis.qi_unit qi) u <> IcOk ->
  pushed ud KIncompatibleUnits (uq_span q).
Proof.
  revert ud. induction idxs as [|k0 r IH]; intros ud H Hin Hn Hq Hc; [destruct Hin|].
  cbn [AnalysisDiag.units_diags] in H.
  destruct (nth_error tbl k0) as [c0|] eqn:En0; [|discriminate].
  match type of H with obind ?o _ = _ => destruct o as [d|] eqn:Ed; [|discriminate] end. cbn [obind] in H.
  destruct (units_diags tbl il q u r) as [dr|] eqn:Er; [|discriminate]. cbn [obind] in H. injection H as <-.
  destruct Hin as [->|Hin].
  - apply pushed_app_l. rewrite Hn in En0. injection En0 as <-. rewrite Hq in Ed.
    destruct (compatible_unit unit_pq (Analysis.qi_unit qi) u); try contradiction;
      (destruct (nth_error il k) as [ilk|]; [|discriminate]; destruct (i_qty ilk); [|discriminate];
       injection Ed as <-; apply pushed_one).
  - apply pushed_app_r. eapply IH; eauto.
Qed.

Theorem incompatible_units_placed st i j def rf b q k c qi st' ds :
  Analysis.a_halted (ds_a st) = false -> in_step_block st -> i_inter i = None ->
  Analysis.x_advanced x = true ->
  refers_to (ds_a st) (Analysis.a_ingredients (ds_a st)) (imods i) (iname i) j ->
  nth_error (Analysis.a_ingredients (ds_a st)) j = Some def -> Analysis.c_rel def = Analysis.RDef rf b ->
  i_qty i = Some q ->
  In k (j :: rf) -> nth_error (Analysis.a_ingredients (ds_a st)) k = Some c -> Analysis.c_qty c = Some qi ->
  compatible_unit unit_pq (Analysis.qi_unit qi) (option_map text_trimmed (q_unit q)) <> IcOk ->
  dstep st (EvIngredient i) = Done (st', ds) ->
  placed ds SevWarning (uq_span q).
Proof.
  intros Hh Hb Hi Ha Hr Hn Hrel Hiq Hin Hk Hqi Hc H. destruct (dstep_inv _ _ _ _ Hh H) as (s' & _ & Hd & _).
  destruct (ingredient_diags_ref st i j ds Hi Hr (ediags_ingredient _ _ _ Hb Hd))
    as (def' & dloc & pre & ud & td & Hn' & _ & Hu & ->).
  assert (def' = def) by congruence. subst def'.
  apply (pushed_placed _ KIncompatibleUnits (uq_span q)); [|apply span_within_refl].
  apply pushed_app_r, pushed_app_l.
  eapply units_diags_pushed; [exact (Hu q rf b Hiq Ha Hrel)|exact Hin|exact Hk|exact Hqi|exact Hc].
Qed.

(* the label is the unit text when the reference has one, else its quantity: part of the component *)
Lemma uq_span_cases q : (exists u, q_unit q = Some u /\ uq_span q = text_span u) \/ (q_unit q = None /\ uq_span q = q_span q).
Proof. unfold uq_span. destruct (q_unit q) as [u|]; [left; eauto|right; auto]. Qed.

(* ---- ADVANCED_UNITS: a timer whose unit is not a time unit (996-1016) or whose duration is text
   (990-995).  Error; label: the unit / the value ---- *)
Theorem timer_unit_placed st t q u st' ds :
  Analysis.a_halted (ds_a st) = false -> in_step_block st -> Analysis.x_advanced x = true ->
  t_qty t = Some q -> q_unit q = Some u -> unit_class (text_trimmed u) <> 1 ->
  dstep st (EvTimer t) = Done (st', ds) ->
  placed ds SevError (text_span u).
Proof.
  intros Hh Hb Ha Hq Hu Hc H. destruct (dstep_inv _ _ _ _ Hh H) as (s' & _ & Hd & _).
  rewrite (ediags_timer _ _ _ Hb Hd). unfold AnalysisDiag.timer_diags. rewrite Hq, Ha, Hu.
  destruct (unit_class (text_trimmed u) =? 1) eqn:E1; [apply N.eqb_eq in E1; contradiction|].
  destruct (unit_class (text_trimmed u) =? 0).
  - apply (pushed_placed _ KTimerUnitUnknown (text_span u)); [|apply span_within_refl].
    apply pushed_app_r, pushed_app_r, pushed_one.
  - apply (pushed_placed _ KTimerUnitNotTime (text_span u)); [|apply span_within_refl].
    apply pushed_app_r, pushed_app_r, pushed_one.
Qed.

Theorem timer_text_value_placed st t q st' ds :
  Analysis.a_halted (ds_a st) = false -> in_step_block st -> Analysis.x_advanced x = true ->
  t_qty t = Some q -> Events.pvalue_is_text (abstract_value (qv (q_val q))) = true ->
  dstep st (EvTimer t) = Done (st', ds) ->
  placed ds SevError (qv_span (q_val q)).
Proof.
  intros Hh Hb Ha Hq Ht H. destruct (dstep_inv _ _ _ _ Hh H) as (s' & _ & Hd & _).
  rewrite (ediags_timer _ _ _ Hb Hd). unfold AnalysisDiag.timer_diags. rewrite Hq, Ha.
  apply (pushed_placed _ KTimerValueText (qv_span (q_val q))); [|apply span_within_refl].
  apply pushed_app_r, pushed_app_l. cbn [abstract_qvalue Events.qv_value]. rewrite Ht. apply pushed_one.
Qed.

(* ---- a [mode] / [define] / [duplicate] entry with a value that is none of the accepted spellings
   (356-371).  Error; first label: the value ---- *)
Definition bad_config_value (config_key value_t : str) : bool :=
  ((str_eqb config_key Analysis.s_define || str_eqb config_key Analysis.s_mode) &&
   negb (mem_str value_t [Analysis.s_all; Analysis.s_default; Analysis.s_components; Analysis.s_ingredients;
                          Analysis.s_steps; Analysis.s_text])) ||
  (negb (str_eqb config_key Analysis.s_define || str_eqb config_key Analysis.s_mode) &&
   str_eqb config_key Analysis.s_duplicate &&
   negb (mem_str value_t [Analysis.s_new; Analysis.s_default; Analysis.s_reference; Analysis.s_ref])).

Theorem bad_mode_value_placed st k v ck st' ds :
  Analysis.a_halted (ds_a st) = false -> Analysis.x_modes x = true ->
  text_trimmed k = 91 :: ck ++ [93] -> bad_config_value ck (text_outer_trimmed v) = true ->
  dstep st (EvMetadata k v) = Done (st', ds) ->
  placed ds SevError (text_span v).
Proof.
  intros Hh Hm Hk Hbad H. destruct (dstep_inv _ _ _ _ Hh H) as (s' & _ & Hd & _).
  cbn [AnalysisDiag.ediags] in Hd. injection Hd as <-.
  apply (pushed_placed _ KInvalidConfigValue (text_span v)); [|apply span_within_refl].
  unfold AnalysisDiag.metadata_diags. rewrite Hm, Hk. cbv zeta.
  assert (E1 : (match rev (91 :: ck ++ [93]) with c :: _ => c =? 93 | [] => false end) = true).
  { cbn [rev]. rewrite rev_app_distr. reflexivity. }
  rewrite E1. cbn [andb tl]. change (91 =? 91) with true. cbn [andb].
  assert (E2 : removelast (ck ++ [93]) = ck) by apply removelast_last. rewrite E2.
  unfold bad_config_value, mem_str in Hbad. cbn [existsb] in Hbad. rewrite !orb_false_r in Hbad.
  destruct (str_eqb ck Analysis.s_define || str_eqb ck Analysis.s_mode); cbn [andb negb orb] in Hbad.
  - rewrite orb_false_r in Hbad. apply negb_true_iff in Hbad. rewrite ?orb_assoc in Hbad. rewrite ?orb_assoc, Hbad.
    cbn [snd]. apply pushed_one.
  - destruct (str_eqb ck Analysis.s_duplicate); cbn [andb] in Hbad; [|discriminate].
    apply negb_true_iff in Hbad. rewrite ?orb_assoc in Hbad. rewrite ?orb_assoc, Hbad. cbn [snd]. apply pushed_one.
Qed.

(* ---- malformed front matter (238-252).  Exactly one diagnostic, an Error, labelled with the
   position serde_yaml reports; when it reports none: with the whole front matter text (the code as
   it is now, 45a4888), with nothing before that repair ---- *)
Theorem bad_front_matter_error st t st' ds :
  Analysis.a_halted (ds_a st) = false -> yaml_ok (text_str t) = false ->
  dstep st (EvYaml t) = Done (st', ds) ->
  ds = [mk KYamlError (match yaml_err_index (text_str t) with
                       | Some i => [(248, pos (fst (text_span t) + i))]
                       | None => if fm_fallback dc then [(248, text_span t)] else []
                       end)].
Proof.
  intros Hh Hy H. destruct (dstep_inv _ _ _ _ Hh H) as (s' & _ & Hd & _).
  cbn [AnalysisDiag.ediags] in Hd. unfold AnalysisDiag.frontmatter_diags in Hd. rewrite Hy in Hd.
  injection Hd as <-. reflexivity.
Qed.

(* the code before 45a4888: serde_yaml does not locate the error (Error::location() is None), the
   diagnostic is the only one and has no label at all, so nothing is placed anywhere *)
Theorem bad_front_matter_unlabeled_before_fix st t st' ds :
  fm_fallback dc = false ->
  Analysis.a_halted (ds_a st) = false -> yaml_ok (text_str t) = false ->
  yaml_err_index (text_str t) = None ->
  dstep st (EvYaml t) = Done (st', ds) ->
  errs ds = true /\ forall sev sp, ~ placed ds sev sp.
Proof.
  intros Hf Hh Hy Hi H. rewrite (bad_front_matter_error _ _ _ _ Hh Hy H), Hi, Hf. split; [reflexivity|].
  intros sev sp (d & l & Hin & _ & _ & Hl & _). destruct Hin as [<-|[]]. discriminate.
Qed.

Lemma text_from_str_span y off : text_span (text_from_str y off) = (off, off + blen y) /\ text_str (text_from_str y off) = y.
Proof.
  destruct y as [|c r]; [cbn; rewrite N.add_0_r; auto|].
  unfold text_from_str, text_span, text_str. cbn [frags map concat last frag_end foff ftext fsoft].
  rewrite app_nil_r. auto.
Qed.

(* the code as it is now: whatever serde_yaml answers - no location, or a location inside the text
   it was given - the first label lies in the front matter text *)
Theorem bad_front_matter_placed st t st' ds :
  fm_fallback dc = true ->
  Analysis.a_halted (ds_a st) = false -> ev_fact (EvYaml t) ->
  yaml_ok (text_str t) = false ->
  (forall idx, yaml_err_index (text_str t) = Some idx -> idx <= blen (text_str t)) ->
  dstep st (EvYaml t) = Done (st', ds) ->
  placed ds SevError (text_span t).
Proof.
  intros Hf Hh (y & off & ->) Hy Hi H. rewrite (bad_front_matter_error _ _ _ _ Hh Hy H), Hf.
  destruct (yaml_err_index _) as [idx|] eqn:Ei.
  - apply (pushed_placed _ KYamlError (pos (fst (text_span (text_from_str y off)) + idx))); [apply pushed_one|].
    specialize (Hi idx eq_refl). destruct (text_from_str_span y off) as [Es Et]. rewrite Et in Hi. rewrite Es.
    unfold span_within, pos. cbn [fst snd]. lia.
  - apply (pushed_placed _ KYamlError (text_span (text_from_str y off))); [apply pushed_one|apply span_within_refl].
Qed.

(* ================================================================ streams *)
Notation run := (Analysis.run ci_key yaml_ok find_iq unit_class input x cfg).
Notation astep := (AnalysisDiag.astep ci_key yaml_ok find_iq unit_class input x cfg dc yaml_err_index yaml_std_bad yaml_has_key std_check is_alnum unit_pq).

Lemma dstep_halted_id st ev : Analysis.a_halted (ds_a st) = true -> dstep st ev = Done (st, []).
Proof. intro H. unfold AnalysisDiag.dstep. rewrite H. reflexivity. Qed.

Lemma dstep_state st ev st' ds :
  dstep st ev = Done (st', ds) -> astepA (ds_a st) (abstract_event ev) = Done (ds_a st').
Proof.
  intro H. destruct (Analysis.a_halted (ds_a st)) eqn:Hh.
  - rewrite (dstep_halted_id _ _ Hh) in H. injection H as <- _. unfold Analysis.step. rewrite Hh. reflexivity.
  - destruct (dstep_inv _ _ _ _ Hh H) as (s' & Hs & _ & ->). rewrite Hs. destruct ev; reflexivity.
Qed.

(* the decorated run is a run of Model/Analysis.v on the bridged stream ... *)
Theorem drun_run evs : forall st st' ds,
  drun st evs = Done (st', ds) -> run (ds_a st) (abstract_events evs) = Done (ds_a st').
Proof.
  induction evs as [|e r IH]; intros st st' ds H; cbn in H.
  - injection H as <- _. reflexivity.
  - destruct (dstep st e) as [[st1 d1]|] eqn:E; [|discriminate]. cbn [obind fst snd] in H.
    destruct (drun st1 r) as [[st2 d2]|] eqn:E2; [|discriminate]. cbn in H. injection H as <- _.
    cbn. rewrite (dstep_state _ _ _ _ E). cbn. eapply IH; exact E2.
Qed.

(* ... and its error bit is "a diagnostic of severity Error was pushed" *)
Theorem drun_errors evs : forall st st' ds,
  drun st evs = Done (st', ds) -> Analysis.a_errors (ds_a st') = Analysis.a_errors (ds_a st) || errs ds.
Proof.
  induction evs as [|e r IH]; intros st st' ds H; cbn in H.
  - injection H as <- <-. rewrite orb_false_r. reflexivity.
  - destruct (dstep st e) as [[st1 d1]|] eqn:E; [|discriminate]. cbn [obind fst snd] in H.
    destruct (drun st1 r) as [[st2 d2]|] eqn:E2; [|discriminate]. cbn in H. injection H as <- <-.
    rewrite (IH _ _ _ E2), errs_app, orb_assoc. f_equal.
    destruct (Analysis.a_halted (ds_a st)) eqn:Hh.
    + rewrite (dstep_halted_id _ _ Hh) in E. injection E as <- <-. rewrite orb_false_r. reflexivity.
    + eapply dstep_errors; eassumption.
Qed.

(* validity (PassResult::is_valid, the model's [Analysis.is_valid]) from the diagnostics:
   an Error-severity diagnostic makes the result invalid, Warning-severity ones never do *)
Theorem drun_valid evs st ds :
  drun dinit evs = Done (st, ds) ->
  Analysis.is_valid (ds_a st) = negb (Analysis.a_halted (ds_a st)) && negb (errs ds).
Proof. intro H. unfold Analysis.is_valid. rewrite (drun_errors _ _ _ _ H). reflexivity. Qed.

Lemma no_perror_no_EError evs : existsb is_perror evs = false -> forall d, ~ In (Events.EError d) (abstract_events evs).
Proof.
  intros He d Hin. unfold abstract_events in Hin. apply in_map_iff in Hin. destruct Hin as (ev & Hev & Hin).
  assert (is_perror ev = true).
  { destruct ev; try discriminate. cbn in Hev |- *. destruct (d_err d0); [reflexivity|discriminate]. }
  assert (existsb is_perror evs = true) by (apply existsb_exists; eauto). congruence.
Qed.

Theorem drun_valid_no_parse_error evs st ds :
  existsb is_perror evs = false -> drun dinit evs = Done (st, ds) ->
  Analysis.is_valid (ds_a st) = negb (errs ds).
Proof.
  intros He H. rewrite (drun_valid _ _ _ H).
  rewrite (DiagAnalysisProofs.run_no_error_not_halted ci_key yaml_ok find_iq unit_class input x cfg
             (abstract_events evs) Analysis.init (ds_a st) (no_perror_no_EError _ He) eq_refl (drun_run _ _ _ _ H)).
  reflexivity.
Qed.

(* ---- the report of parse_events (Model/Diag.v) with this collector ---- *)
Lemma to_sdiag_stage ds : Forall (fun d => sd_is_parse d = false) (map to_sdiag ds).
Proof. induction ds; constructor; auto. Qed.

Lemma astep_stage st e st' sds : astep st e = Done (st', sds) -> Forall (fun d => sd_is_parse d = false) sds.
Proof.
  unfold AnalysisDiag.astep. destruct (dstep st e) as [[a b]|]; [|discriminate]. cbn. intro H. injection H as _ <-.
  apply to_sdiag_stage.
Qed.

Lemma dupd_diag st d : dupd x std_check st (EvDiag d) (ds_a st) = st.
Proof. destruct st; reflexivity. Qed.

Lemma dstep_warning st d : d_err d = false -> dstep st (EvDiag d) = Done (st, []).
Proof.
  intro Hd. unfold AnalysisDiag.dstep. destruct (Analysis.a_halted (ds_a st)) eqn:Hh; [reflexivity|].
  unfold Analysis.step. rewrite Hh. cbn [abstract_event]. rewrite Hd. cbn [obind AnalysisDiag.ediags]. rewrite dupd_diag. reflexivity.
Qed.

Lemma dstep_keeps_running st ev st' ds :
  is_perror ev = false -> Analysis.a_halted (ds_a st) = false -> dstep st ev = Done (st', ds) ->
  Analysis.a_halted (ds_a st') = false.
Proof.
  intros He Hh H. pose proof (dstep_state _ _ _ _ H) as Hs.
  assert (Hne : forall d0, abstract_event ev <> Events.EError d0).
  { intros d0 E. destruct ev; try discriminate. cbn in E, He. rewrite He in E. discriminate. }
  rewrite (DiagAnalysisProofs.step_halted ci_key yaml_ok find_iq unit_class input x cfg _ _ _ Hne Hs). exact Hh.
Qed.

Lemma sd_error_to_sdiag ds : existsb sd_is_error (map to_sdiag ds) = errs ds.
Proof.
  induction ds as [|d r IH]; [reflexivity|]. cbn. rewrite IH. f_equal.
  unfold sd_is_error, to_sdiag. cbn. destruct (ad_is_error d); reflexivity.
Qed.

Lemma dfinish_warn st : errs (dfinish st) = false.
Proof. unfold dfinish. destruct (ds_used st); reflexivity. Qed.

(* the analysis trace of Model/Diag.v is the decorated run *)
Lemma atrace_drun evs : forall st t,
  existsb is_perror evs = false ->
  Diag.atrace dstate astep afinish st evs = Done t ->
  exists st' ds, drun st evs = Done (st', ds) /\ t = map to_sdiag (ds ++ dfinish st').
Proof.
  induction evs as [|e r IH]; intros st t He H.
  - cbn in H. injection H as <-. exists st, []. split; reflexivity.
  - cbn [existsb] in He. apply orb_false_iff in He. destruct He as [He1 He].
    assert (G : forall (E : match e with EvDiag _ => False | _ => True end),
              obind (astep st e) (fun sd => obind (Diag.atrace dstate astep afinish (fst sd) r) (fun t => Done (snd sd ++ t))) = Done t ->
              exists st' ds, drun st (e :: r) = Done (st', ds) /\ t = map to_sdiag (ds ++ dfinish st')).
    { intros _ H'. unfold AnalysisDiag.astep in H'. destruct (dstep st e) as [[st1 d1]|] eqn:E1; [|discriminate].
      cbn [obind fst snd] in H'. destruct (Diag.atrace _ _ _ st1 r) as [t1|] eqn:E2; [|discriminate]. cbn in H'. injection H' as <-.
      destruct (IH _ _ He E2) as (st' & d2 & Hr & ->). exists st', (d1 ++ d2). split.
      - cbn. rewrite E1. cbn. rewrite Hr. reflexivity.
      - rewrite <- app_assoc, !map_app. reflexivity. }
    destruct e; try (apply G; [exact I|exact H]).
    cbn in He1. cbn in H. destruct (IH _ _ He H) as (st' & d2 & Hr & ->). exists st', d2. split; [|reflexivity].
    cbn. rewrite (dstep_warning _ _ He1). cbn. rewrite Hr. reflexivity.
Qed.

Lemma existsb_filter_split {A} (f p : A -> bool) l :
  existsb f l = existsb f (filter p l) || existsb f (filter (fun a => negb (p a)) l).
Proof.
  induction l as [|a r IH]; [reflexivity|]. cbn. destruct (p a); cbn; rewrite IH.
  - rewrite orb_assoc. reflexivity.
  - rewrite !orb_assoc. f_equal. apply orb_comm.
Qed.

Lemma pdiags_no_error evs : existsb is_perror evs = false -> existsb sd_is_error (map of_pdiag (pdiags evs)) = false.
Proof.
  induction evs as [|e r IH]; [reflexivity|]. cbn [existsb]. intro H. apply orb_false_iff in H. destruct H as [H1 H2].
  destruct e; cbn [pdiags]; auto. cbn [map existsb]. rewrite (IH H2). cbn in H1.
  unfold sd_is_error, of_pdiag. cbn. rewrite H1. reflexivity.
Qed.

(* what parse_events reports for a stream without parser error: the parser's warnings and the
   trace of the decorated collector, in order; it is valid exactly when no diagnostic of that
   trace has severity Error *)
Theorem report_is_trace dbg evs res :
  existsb is_perror evs = false ->
  Diag.parse_events dstate astep afinish dbg dinit evs = Done res ->
  exists st ds, drun dinit evs = Done (st, ds) /\
    filter is_analysis (diags res) = map to_sdiag (ds ++ dfinish st) /\
    filter sd_is_parse (diags res) = map of_pdiag (pdiags evs) /\
    Diag.is_valid res = negb (errs ds) /\ Diag.is_valid res = Analysis.is_valid (ds_a st).
Proof.
  intros He H.
  assert (Hst : forall s e s' ds, astep s e = Done (s', ds) -> Forall (fun d => sd_is_parse d = false) ds) by exact astep_stage.
  assert (Hfin : forall s, Forall (fun d => sd_is_parse d = false) (afinish s)) by (intro s; apply to_sdiag_stage).
  pose proof (collect_tag dstate astep afinish dbg evs dinit report_empty res eq_refl H) as Ht.
  destruct (collect_no_error dstate astep afinish dbg Hst Hfin evs dinit report_empty res eq_refl He H)
    as (s' & t & Ho & Hat & Hp & Han).
  destruct (atrace_drun _ _ _ He Hat) as (st & ds & Hr & ->). exists st, ds.
  split; [exact Hr|]. split; [exact Han|]. split; [exact Hp|].
  assert (V : Diag.is_valid res = negb (errs ds)).
  { unfold Diag.is_valid, has_output, has_errors. rewrite Ho, Ht. cbn [andb]. f_equal.
    change (r_buf (pr_report res)) with (diags res).
    rewrite (existsb_filter_split sd_is_error sd_is_parse (diags res)). rewrite Hp.
    change (filter (fun a => negb (sd_is_parse a)) (diags res)) with (filter is_analysis (diags res)). rewrite Han.
    cbn [r_buf report_empty filter app]. rewrite (pdiags_no_error _ He), sd_error_to_sdiag, errs_app, dfinish_warn, orb_false_r.
    reflexivity. }
  split; [exact V|]. rewrite V. symmetry. exact (drun_valid_no_parse_error evs st ds He Hr).
Qed.

Lemma drun_app pre : forall post st st' ds,
  drun st (pre ++ post) = Done (st', ds) ->
  exists st1 d1 d2, drun st pre = Done (st1, d1) /\ drun st1 post = Done (st', d2) /\ ds = d1 ++ d2.
Proof.
  induction pre as [|e r IH]; intros post st st' ds H.
  - exists st, [], ds. auto.
  - cbn in H. destruct (dstep st e) as [[sa da]|] eqn:E; [|discriminate]. cbn [obind fst snd] in H.
    destruct (drun sa (r ++ post)) as [[sb db]|] eqn:E2; [|discriminate]. cbn in H. injection H as <- <-.
    destruct (IH _ _ _ _ E2) as (st1 & d1 & d2 & H1 & H2 & ->). exists st1, (da ++ d1), d2.
    split; [cbn; rewrite E; cbn; rewrite H1; reflexivity|]. split; [exact H2|]. apply app_assoc.
Qed.

(* whatever the collector pushes for an event of a stream without parser error is in the report *)
Theorem event_diags_reported dbg pre ev post res st d0 st' ds :
  existsb is_perror (pre ++ ev :: post) = false ->
  Diag.parse_events dstate astep afinish dbg dinit (pre ++ ev :: post) = Done res ->
  drun dinit pre = Done (st, d0) -> dstep st ev = Done (st', ds) ->
  incl (map to_sdiag ds) (diags res).
Proof.
  intros He H Hpre Hev d Hd.
  destruct (report_is_trace dbg _ res He H) as (stf & dsf & Hr & Han & _).
  destruct (drun_app pre (ev :: post) _ _ _ Hr) as (st1 & d1 & d2 & H1 & H2 & ->).
  rewrite Hpre in H1. injection H1 as <- <-.
  cbn in H2. rewrite Hev in H2. cbn [obind fst snd] in H2.
  destruct (drun st' post) as [[sb db]|]; [|discriminate]. cbn in H2. injection H2 as <- <-.
  assert (In d (filter is_analysis (diags res))).
  { rewrite Han, !map_app. apply in_or_app. left. apply in_or_app. right. apply in_or_app. left. exact Hd. }
  apply filter_In in H0. tauto.
Qed.

(* a diagnostic placed on a construct by one step stays placed in the report *)
Corollary placed_reported dbg pre ev post res st d0 st' ds sev sp :
  existsb is_perror (pre ++ ev :: post) = false ->
  Diag.parse_events dstate astep afinish dbg dinit (pre ++ ev :: post) = Done res ->
  drun dinit pre = Done (st, d0) -> dstep st ev = Done (st', ds) ->
  placed ds sev sp ->
  exists d l, In d (diags res) /\ sd_sev d = sev /\ sd_stage d = StAnalysis /\
              hd_error (sd_labels d) = Some l /\ span_within l sp.
Proof.
  intros He H Hpre Hev (d & l & Hin & R). exists d, l. split; [|exact R].
  eapply event_diags_reported; eassumption.
Qed.

(* an analysis diagnostic of an Error kind makes the result invalid; diagnostics of the Warning kinds
   never do: a stream without parser error is invalid exactly when a diagnostic of one of the twelve
   Error kinds was pushed *)
Theorem error_kind_invalidates evs st ds :
  existsb is_perror evs = false -> drun dinit evs = Done (st, ds) ->
  (Analysis.is_valid (ds_a st) = false <-> exists d, In d ds /\ In (ad_kind d) error_kinds) /\
  (Forall (fun d => In (ad_kind d) warning_kinds) ds -> Analysis.is_valid (ds_a st) = true).
Proof.
  intros He H. rewrite (drun_valid_no_parse_error _ _ _ He H). split.
  - rewrite negb_false_iff. unfold errs. rewrite existsb_exists. split.
    + intros (d & Hin & Hd). exists d. split; [exact Hin|]. apply (proj1 (kinds_partition _)). exact Hd.
    + intros (d & Hin & Hd). exists d. split; [exact Hin|]. apply (proj1 (kinds_partition _)). exact Hd.
  - intro Hall. apply negb_true_iff. unfold errs. destruct (existsb ad_is_error ds) eqn:E; [|reflexivity].
    apply existsb_exists in E. destruct E as (d & Hin & Hd). rewrite Forall_forall in Hall.
    pose proof (proj2 (proj2 (kinds_partition _)) (Hall d Hin)) as Hw. unfold ad_is_error in Hd. congruence.
Qed.

End DP.
