(* Proofs about Model/RecipeConvert.v (ScaledRecipe::convert, src/convert/mod.rs 415-453) for C09:
   frame, per-quantity amount preservation and designated-unit membership, the failure frame with the
   exact error reported, and totality on a well-formed converter.  Statements are restated in
   Properties/C09.v. *)
From Coq Require Import Lia Setoid Morphisms.
From CL Require Import Base.StrLemmas Model.Convert Model.Standards Gen.UnitsToml Proofs.ConvertProofs
  Model.Scale Proofs.ScaleProofs Proofs.ScaleTotal Model.RecipeConvert.
Open Scope Q_scope.

(* ------------------------------------------------------------------ vocabulary *)

(* three lists related position by position *)
Inductive Forall3 {A B C : Type} (R : A -> B -> C -> Prop) : list A -> list B -> list C -> Prop :=
| Forall3_nil : Forall3 R [] [] []
| Forall3_cons a b c la lb lc : R a b c -> Forall3 R la lb lc -> Forall3 R (a :: la) (b :: lb) (c :: lc).

Lemma Forall3_app {A B C} (R : A -> B -> C -> Prop) la lb lc la' lb' lc' :
  Forall3 R la lb lc -> Forall3 R la' lb' lc' -> Forall3 R (la ++ la') (lb ++ lb') (lc ++ lc').
Proof. intros H H'. induction H; cbn [app]; [exact H'|constructor; assumption]. Qed.

Lemma Forall3_length {A B C} (R : A -> B -> C -> Prop) la lb lc :
  Forall3 R la lb lc -> length lb = length la /\ length lc = length la.
Proof. intro H. induction H as [|a b c la lb lc _ _ [I1 I2]]; cbn [length]; split; congruence. Qed.

Lemma Forall3_nth {A B C} (R : A -> B -> C -> Prop) la lb lc :
  Forall3 R la lb lc ->
  forall k a, nth_error la k = Some a ->
    exists b c, nth_error lb k = Some b /\ nth_error lc k = Some c /\ R a b c.
Proof.
  intro H. induction H as [|a b c la lb lc Hr _ IH]; intros k x Hk.
  - destruct k; discriminate.
  - destruct k as [|k]; cbn [nth_error] in *.
    + injection Hk as <-. exists b, c. repeat split. exact Hr.
    + exact (IH k x Hk).
Qed.

Lemma Forall3_impl {A B C} (R S : A -> B -> C -> Prop) la lb lc :
  (forall a b c, R a b c -> S a b c) -> Forall3 R la lb lc -> Forall3 S la lb lc.
Proof. intros HS H. induction H; constructor; auto. Qed.

(* the quantities of a list of items, in order (items without a quantity contribute nothing) *)
Definition slots {A} (get : A -> option quantity) (l : list A) : list quantity :=
  flat_map (fun a => match get a with Some q => [q] | None => [] end) l.

(* the quantities ScaledRecipe::convert visits, in the order it visits them (mod.rs 433-449) *)
Definition recipe_quantities {IF CF MF} (r : recipe IF CF MF) : list quantity :=
  slots ig_quantity (r_ingredients r) ++ slots tm_quantity (r_timers r) ++ r_inline r.

(* what a successful conversion of q to system s into q' guarantees: both units known, q numeric,
   the amount (both ends of a range, fraction error included) is the same, the physical quantity
   is the same, the new unit is in the designated (best) list of s for that physical quantity *)
Definition converted (c : converter) (s : system) (q q' : quantity) : Prop :=
  exists u nu, unit_info c q = Done (Some u) /\ unit_info c q' = Done (Some nu) /\
    (exists a, q_amount c q = Some a) /\
    amt_eq (q_amount c q') (q_amount c q) /\
    u_pq (snd nu) = u_pq (snd u) /\
    In (fst nu) (map snd (conversions (best c (u_pq (snd u))) s)).

(* which error converting q to system s reports, decided by q alone, in the order of the code:
   no unit (mod.rs 466), unknown unit (477), text value (483), no designated unit at all for the
   physical quantity in that system (676) *)
Definition fail_reason (c : converter) (s : system) (q : quantity) (e : cerror) : Prop :=
  match q_unit q with
  | None => e = ENoUnit
  | Some k =>
      match get_unit_id c k with
      | None => e = EUnknownUnit k
      | Some id =>
          exists u, nth_error (all_units c) (N.to_nat id) = Some u /\
          match q_value q with
          | VText t => e = ETextValue t
          | _ => e = EBestNotFound (u_pq u) (u_sys u) /\ conversions (best c (u_pq u)) s = []
          end
      end
  end.

(* one visited quantity: q before, q' after, es = what the visit appended to the error list *)
Definition qconv_rel (c : converter) (s : system) (q q' : quantity) (es : list cerror) : Prop :=
  (es = [] /\ converted c s q q') \/
  (exists e, es = [e] /\ q' = q /\ fail_reason c s q e).

(* text values, unit-less values and unknown units *)
Definition inconvertible (c : converter) (q : quantity) : Prop :=
  q_unit q = None \/
  (exists k, q_unit q = Some k /\ get_unit_id c k = None) \/
  (exists t, q_value q = VText t).

(* ------------------------------------------------------------------ one quantity *)

Lemma convert_to_best_err c v u s e :
  convert_to_best c v u s = Done (Err e) ->
  e = EBestNotFound (u_pq (snd u)) (u_sys (snd u)) /\ conversions (best c (u_pq (snd u))) s = [].
Proof.
  unfold convert_to_best. intro H. obn H ob Eb. destruct ob as [b|].
  - obn H v' Ev. discriminate.
  - injection H as <-. split; [reflexivity|].
    unfold best_unit in Eb. destruct (conversions _ _) as [|[th id] rest]; [reflexivity|].
    obn Eb x1 E1. obn Eb x2 E2. obn Eb x3 E3. discriminate.
Qed.

Section One.
  Variable approx : Q -> frac_cfg -> outcome (option number).

  (* a failed conversion to a system says why, by the shape of the quantity alone *)
  Lemma convert_best_err c q s q' e :
    convert_impl approx c q (ToBest s) = Done (q', Err e) -> fail_reason c s q e.
  Proof.
    unfold convert_impl, fail_reason. destruct (q_unit q) as [k|] eqn:Hk.
    2:{ intro H. injection H as _ <-. reflexivity. }
    unfold unit_info, find_unit. rewrite Hk.
    destruct (get_unit_id c k) as [id|] eqn:G.
    2:{ cbn [obind]. intro H. injection H as _ <-. reflexivity. }
    destruct (unit_at c id) as [ur|] eqn:Eu; cbn [obind]; [|discriminate]. intro H.
    destruct (unit_at_spec _ _ _ Eu) as [Hid Hn]. exists (snd ur). split; [exact Hn|].
    destruct (q_value q) as [n|a b|t] eqn:V; cbn [cvalue_of] in H.
    3:{ injection H as _ <-. reflexivity. }
    - unfold conv_convert in H. cbn [get_unit obind] in H. obn H rc Ec.
      destruct rc as [[nv nu]|e0].
      + obn H sy Es. obn H rr Er. destruct rr as [q2 r2]. cbn [fst snd] in H.
        destruct (fit_fraction_numeric approx c {| q_value := value_of nv; q_unit := Some sy |} nu (Some s) q2 r2
                    (value_of_not_text nv) Er) as [b0 ->].
        discriminate.
      + injection H as _ <-. exact (convert_to_best_err _ _ _ _ _ Ec).
    - unfold conv_convert in H. cbn [get_unit obind] in H. obn H rc Ec.
      destruct rc as [[nv nu]|e0].
      + obn H sy Es. obn H rr Er. destruct rr as [q2 r2]. cbn [fst snd] in H.
        destruct (fit_fraction_numeric approx c {| q_value := value_of nv; q_unit := Some sy |} nu (Some s) q2 r2
                    (value_of_not_text nv) Er) as [b0 ->].
        discriminate.
      + injection H as _ <-. exact (convert_to_best_err _ _ _ _ _ Ec).
  Qed.

  (* text, unit-less and unknown-unit quantities always fail and are left as they were, whatever
     the converter and the target are *)
  Lemma convert_inconvertible c q to q' r :
    inconvertible c q -> convert_impl approx c q to = Done (q', r) -> q' = q /\ exists e, r = Err e.
  Proof.
    intros Hi H. unfold convert_impl in H. destruct (q_unit q) as [k|] eqn:Hk.
    2:{ injection H as <- <-. split; [reflexivity|eexists; reflexivity]. }
    obn H ou Eu. destruct ou as [u|].
    2:{ injection H as <- <-. split; [reflexivity|eexists; reflexivity]. }
    destruct Hi as [Hn|[(k' & Hk' & G)|(t & V)]].
    - congruence.
    - rewrite Hk in Hk'. injection Hk' as <-. unfold unit_info, find_unit in Eu. rewrite Hk, G in Eu. discriminate.
    - rewrite V in H. cbn [cvalue_of] in H. injection H as <- <-. split; [reflexivity|eexists; reflexivity].
  Qed.

  Hypothesis approx_exact : forall v cfg n, approx v cfg = Done (Some n) -> num_value n == v.

  (* ScaledQuantity::convert(system): the two outcomes *)
  Lemma convert_best_cases c q s q' r :
    ratios_pos c -> index_consistent c ->
    convert_impl approx c q (ToBest s) = Done (q', r) ->
    qconv_rel c s q q' (match r with Ok _ => [] | Err e => [e] end).
  Proof.
    intros Hp Hi H.
    destruct (convert_impl_spec approx approx_exact c q (ToBest s) q' r Hp Hi I H) as [Fr Okk].
    destruct r as [[]|e].
    - left. split; [reflexivity|].
      destruct (Okk eq_refl) as (u & nu & A & B & C & D & E & F & _).
      exists u, nu. repeat split; try assumption. apply F. reflexivity.
    - right. exists e. split; [reflexivity|]. split; [exact (Fr e eq_refl)|].
      eapply convert_best_err; eauto.
  Qed.
End One.

(* a converted quantity was convertible; a failed one was not (the two cases of qconv_rel exclude
   each other: the error list says which one applies) *)
Lemma converted_not_fail c s q q' e : converted c s q q' -> fail_reason c s q e -> False.
Proof.
  intros (u & nu & Hu & _ & (a & Ha) & _ & _ & Hin) Hf.
  destruct (unit_info_spec _ _ _ Hu) as (k & Hk & Hid & Hr).
  unfold fail_reason in Hf. rewrite Hk, Hid in Hf. destruct Hf as (u0 & Hn & Hf).
  unfold is_ref in Hr. apply unit_at_spec in Hr as [_ Hn']. rewrite Hn' in Hn. injection Hn as <-.
  unfold q_amount in Ha. rewrite Hk, Hid, Hn' in Ha.
  destruct (q_value q) as [n|x y|t]; [| |discriminate];
    destruct Hf as [_ Hf]; rewrite Hf in Hin; destruct Hin.
Qed.

(* ------------------------------------------------------------------ the loops *)

Section Loops.
  Variable approx : Q -> frac_cfg -> outcome (option number).
  Variable c : converter.

  (* one item of a loop: a before, a' after, es = what its visit appended to the error list *)
  Definition item_rel {A} (get : A -> option quantity) (set : A -> quantity -> A) (to : cto)
             (a a' : A) (es : list cerror) : Prop :=
    match get a with
    | None => a' = a /\ es = []
    | Some q => exists q' r, convert_impl approx c q to = Done (q', r) /\ a' = set a q' /\
                             es = match r with Ok _ => [] | Err e => [e] end
    end.

  Lemma conv_closure_spec to q errs q' errs' :
    conv_closure approx c to q errs = Done (q', errs') ->
    exists r, convert_impl approx c q to = Done (q', r) /\
              errs' = errs ++ match r with Ok _ => [] | Err e => [e] end.
  Proof.
    unfold conv_closure, quantity_convert. intro H. obn H x Ex. destruct x as [q1 r]. cbn [fst snd] in H.
    exists r. destruct r as [[]|e]; injection H as <- <-; (split; [reflexivity|]).
    - rewrite app_nil_r. reflexivity.
    - reflexivity.
  Qed.

  Lemma conv_each_spec {A} (get : A -> option quantity) set to l : forall errs l' errs',
    conv_each approx c get set to l errs = Done (l', errs') ->
    exists ess, errs' = errs ++ concat ess /\ Forall3 (item_rel get set to) l l' ess.
  Proof.
    induction l as [|a rest IH]; intros errs l' errs' H; cbn [conv_each] in H.
    - injection H as <- <-. exists []. cbn [concat]. rewrite app_nil_r. split; [reflexivity|constructor].
    - obn H ae Ea. destruct ae as [a' e1]. cbn [fst snd] in H. obn H re Er. destruct re as [r' e2].
      cbn [fst snd] in H. injection H as <- <-.
      destruct (IH _ _ _ Er) as (ess & He & Hf).
      assert (Hit : exists es, e1 = errs ++ es /\ item_rel get set to a a' es).
      { unfold item_rel. destruct (get a) as [q|].
        - obn Ea x Ex. destruct x as [q1 e1']. cbn [fst snd] in Ea. injection Ea as <- <-.
          destruct (conv_closure_spec _ _ _ _ _ Ex) as (r & Hc & ->).
          eexists. split; [reflexivity|]. exists q1, r. repeat split. exact Hc.
        - injection Ea as <- <-. exists []. rewrite app_nil_r. repeat split. }
      destruct Hit as (es & -> & Hit). exists (es :: ess). cbn [concat].
      rewrite He, app_assoc. split; [reflexivity|constructor; assumption].
  Qed.

  (* one visited quantity, before any interpretation: the result of ScaledQuantity::convert *)
  Definition slot_rel (to : cto) (q q' : quantity) (es : list cerror) : Prop :=
    exists r, convert_impl approx c q to = Done (q', r) /\ es = match r with Ok _ => [] | Err e => [e] end.

  Lemma slots_cons {A} (get : A -> option quantity) a l :
    slots get (a :: l) = match get a with Some q => [q] | None => [] end ++ slots get l.
  Proof. reflexivity. Qed.

  (* the same, seen on the quantities only *)
  Lemma item_slots {A} (get : A -> option quantity) set to l l' ess :
    (forall a q, get (set a q) = Some q) ->
    Forall3 (item_rel get set to) l l' ess ->
    exists qss, concat qss = concat ess /\ Forall3 (slot_rel to) (slots get l) (slots get l') qss.
  Proof.
    intros Hgs H. induction H as [|a a' es l l' ess Hr _ (qss & Hc & Hf)].
    - exists []. split; [reflexivity|constructor].
    - rewrite !slots_cons. unfold item_rel in Hr. destruct (get a) as [q|] eqn:G.
      + destruct Hr as (q' & r & Hcv & -> & ->). rewrite Hgs. cbn [app].
        exists ((match r with Ok _ => [] | Err e => [e] end) :: qss). cbn [concat]. rewrite Hc.
        split; [reflexivity|]. constructor; [|exact Hf]. exists r. split; [exact Hcv|reflexivity].
      + destruct Hr as [-> ->]. rewrite G. cbn [app concat]. exists qss. split; [exact Hc|exact Hf].
  Qed.

  (* whatever [set] does not write is kept, item by item and in order *)
  Lemma item_frame {A B} (get : A -> option quantity) set to (proj : A -> B) l l' ess :
    (forall a q, proj (set a q) = proj a) ->
    Forall3 (item_rel get set to) l l' ess -> map proj l' = map proj l.
  Proof.
    intros Hp H. induction H as [|a a' es l l' ess Hr _ IH]; [reflexivity|].
    cbn [map]. rewrite IH. f_equal. unfold item_rel in Hr. destruct (get a) as [q|].
    - destruct Hr as (q' & r & _ & -> & _). apply Hp.
    - destruct Hr as [-> _]. reflexivity.
  Qed.

  Definition has_quantity {A} (get : A -> option quantity) (a : A) : bool :=
    match get a with Some _ => true | None => false end.

  (* a quantity is present after the call exactly where one was present before *)
  Lemma item_presence {A} (get : A -> option quantity) set to l l' ess :
    (forall a q, get (set a q) = Some q) ->
    Forall3 (item_rel get set to) l l' ess -> map (has_quantity get) l' = map (has_quantity get) l.
  Proof.
    intros Hgs H. induction H as [|a a' es l l' ess Hr _ IH]; [reflexivity|].
    cbn [map]. rewrite IH. f_equal. unfold item_rel in Hr. unfold has_quantity.
    destruct (get a) as [q|] eqn:G.
    - destruct Hr as (q' & r & _ & -> & _). rewrite Hgs. reflexivity.
    - destruct Hr as [-> _]. rewrite G. reflexivity.
  Qed.

  Context {IF CF MF : Type}.

  (* ScaledRecipe::convert, structurally: the three loops and the untouched fields *)
  Lemma recipe_convert_loops s (r r' : recipe IF CF MF) errs :
    recipe_convert approx c s r = Done (r', errs) ->
    r_frame r' = r_frame r /\ r_cookware r' = r_cookware r /\ r_data r' = r_data r /\
    exists e1 e2 e3, errs = concat e1 ++ concat e2 ++ concat e3 /\
      Forall3 (item_rel ig_quantity ig_set (ToBest s)) (r_ingredients r) (r_ingredients r') e1 /\
      Forall3 (item_rel tm_quantity tm_set (ToBest s)) (r_timers r) (r_timers r') e2 /\
      Forall3 (item_rel iq_get iq_set (ToBest s)) (r_inline r) (r_inline r') e3.
  Proof.
    unfold recipe_convert, cto_of_system. intro H.
    obn H a Ea. destruct a as [igs ea]. cbn [fst snd] in H.
    obn H b Eb. destruct b as [tms eb]. cbn [fst snd] in H.
    obn H d Ed. destruct d as [inl ed]. cbn [fst snd] in H.
    injection H as <- <-. cbn [r_frame r_cookware r_data r_ingredients r_timers r_inline].
    repeat split.
    destruct (conv_each_spec _ _ _ _ _ _ _ Ea) as (e1 & -> & F1).
    destruct (conv_each_spec _ _ _ _ _ _ _ Eb) as (e2 & -> & F2).
    destruct (conv_each_spec _ _ _ _ _ _ _ Ed) as (e3 & -> & F3).
    exists e1, e2, e3. cbn [app]. rewrite <- app_assoc. repeat split; assumption.
  Qed.

  Lemma slots_iq (l : list quantity) : slots iq_get l = l.
  Proof. induction l as [|q l IH]; [reflexivity|]. rewrite slots_cons, IH. reflexivity. Qed.

  (* ... and seen on the visited quantities, in visiting order *)
  Lemma recipe_convert_slots s (r r' : recipe IF CF MF) errs :
    recipe_convert approx c s r = Done (r', errs) ->
    exists ess, errs = concat ess /\
      Forall3 (slot_rel (ToBest s)) (recipe_quantities r) (recipe_quantities r') ess.
  Proof.
    intro H. destruct (recipe_convert_loops _ _ _ _ H) as (_ & _ & _ & e1 & e2 & e3 & -> & F1 & F2 & F3).
    destruct (item_slots _ _ _ _ _ _ (fun _ _ => eq_refl) F1) as (q1 & C1 & G1).
    destruct (item_slots _ _ _ _ _ _ (fun _ _ => eq_refl) F2) as (q2 & C2 & G2).
    destruct (item_slots _ _ _ _ _ _ (fun _ _ => eq_refl) F3) as (q3 & C3 & G3).
    rewrite !slots_iq in G3.
    exists (q1 ++ q2 ++ q3). rewrite !concat_app, C1, C2, C3. split; [reflexivity|].
    unfold recipe_quantities. apply Forall3_app; [exact G1|]. apply Forall3_app; assumption.
  Qed.

  (* frame: everything but the quantity slots of ingredients, timers and inline quantities *)
  Lemma recipe_convert_frame s (r r' : recipe IF CF MF) errs :
    recipe_convert approx c s r = Done (r', errs) ->
    r_frame r' = r_frame r /\ r_cookware r' = r_cookware r /\ r_data r' = r_data r /\
    map ig_frame (r_ingredients r') = map ig_frame (r_ingredients r) /\
    map tm_name (r_timers r') = map tm_name (r_timers r) /\
    map (has_quantity ig_quantity) (r_ingredients r') = map (has_quantity ig_quantity) (r_ingredients r) /\
    map (has_quantity tm_quantity) (r_timers r') = map (has_quantity tm_quantity) (r_timers r) /\
    length (r_inline r') = length (r_inline r).
  Proof.
    intro H. destruct (recipe_convert_loops _ _ _ _ H) as (A & B & C & e1 & e2 & e3 & _ & F1 & F2 & F3).
    split; [exact A|]. split; [exact B|]. split; [exact C|].
    split; [exact (item_frame ig_quantity ig_set _ ig_frame _ _ _ (fun _ _ => eq_refl) F1)|].
    split; [exact (item_frame tm_quantity tm_set _ tm_name _ _ _ (fun _ _ => eq_refl) F2)|].
    split; [exact (item_presence ig_quantity ig_set _ _ _ _ (fun _ _ => eq_refl) F1)|].
    split; [exact (item_presence tm_quantity tm_set _ _ _ _ (fun _ _ => eq_refl) F2)|].
    exact (proj1 (Forall3_length _ _ _ _ F3)).
  Qed.
End Loops.

(* ------------------------------------------------------------------ the statement, per visited quantity *)

(* an inconvertible quantity can only be in the failure case, with the error its shape decides *)
Lemma qconv_inconvertible c s q q' es :
  inconvertible c q -> qconv_rel c s q q' es ->
  q' = q /\ exists e, es = [e] /\
    (q_unit q = None -> e = ENoUnit) /\
    (forall k, q_unit q = Some k -> get_unit_id c k = None -> e = EUnknownUnit k) /\
    (forall k id t, q_unit q = Some k -> get_unit_id c k = Some id -> q_value q = VText t ->
                    e = ETextValue t).
Proof.
  intros Hi [[_ Hc]|(e & -> & -> & Hf)].
  - exfalso. destruct Hc as (u & nu & Hu & _ & (a & Ha) & _).
    destruct (unit_info_spec _ _ _ Hu) as (k & Hk & Hid & Hr).
    destruct Hi as [Hn|[(k' & Hk' & G)|(t & V)]]; [congruence|congruence|].
    unfold q_amount in Ha. rewrite Hk, Hid in Ha. unfold is_ref in Hr. apply unit_at_spec in Hr as [_ Hn].
    rewrite Hn, V in Ha. discriminate.
  - split; [reflexivity|]. exists e. split; [reflexivity|]. unfold fail_reason in Hf.
    split; [intro Hn; rewrite Hn in Hf; exact Hf|].
    split.
    + intros k Hk G. rewrite Hk, G in Hf. exact Hf.
    + intros k id t Hk G V. rewrite Hk, G in Hf. destruct Hf as (u & _ & Hf). rewrite V in Hf. exact Hf.
Qed.

(* a numeric quantity in a known unit whose physical quantity has a designated unit in the target
   system can only be in the success case - whatever system its unit belongs to: a unit that is
   already of the target system is converted (to the designated unit that suits the value) like any other *)
Lemma qconv_convertible c s q q' es u :
  unit_info c q = Done (Some u) -> (forall t, q_value q <> VText t) ->
  conversions (best c (u_pq (snd u))) s <> [] ->
  qconv_rel c s q q' es -> es = [] /\ converted c s q q'.
Proof.
  intros Hu Hv Hb [[-> Hc]|(e & -> & -> & Hf)]; [split; [reflexivity|exact Hc]|exfalso].
  destruct (unit_info_spec _ _ _ Hu) as (k & Hk & Hid & Hr).
  unfold fail_reason in Hf. rewrite Hk, Hid in Hf. destruct Hf as (u0 & Hn & Hf).
  unfold is_ref in Hr. apply unit_at_spec in Hr as [_ Hn']. rewrite Hn' in Hn. injection Hn as <-.
  destruct (q_value q) as [n|x y|t] eqn:V; [destruct Hf as [_ Hf]; contradiction| |].
  - destruct Hf as [_ Hf]; contradiction.
  - exact (Hv t eq_refl).
Qed.

Lemma fail_reason_fun c s q e e' : fail_reason c s q e -> fail_reason c s q e' -> e' = e.
Proof.
  unfold fail_reason. destruct (q_unit q) as [k|]; [|congruence].
  destruct (get_unit_id c k) as [id|]; [|congruence].
  intros (u & Hn & H) (u' & Hn' & H'). rewrite Hn in Hn'. injection Hn' as <-.
  destruct (q_value q); [destruct H, H'|destruct H, H'|]; congruence.
Qed.

(* two conversions to the same system in a row are one: same error, same amount *)
Lemma qconv_twice c s q q1 q2 es1 es2 :
  qconv_rel c s q q1 es1 -> qconv_rel c s q1 q2 es2 -> es2 = es1 /\ qconv_rel c s q q2 es1.
Proof.
  intros [[-> Hc]|(e & -> & -> & Hf)] H2.
  - (* converted: the result is convertible *)
    destruct Hc as (u & nu & Hu & Hnu & (a & Ha) & Am & Pq & Hin).
    assert (Hv : forall t, q_value q1 <> VText t).
    { intros t V. rewrite Ha in Am. rewrite (q_amount_known _ _ _ Hnu), V in Am. exact Am. }
    assert (Hb : conversions (best c (u_pq (snd nu))) s <> []).
    { rewrite Pq. intro E. rewrite E in Hin. destruct Hin. }
    destruct (qconv_convertible c s q1 q2 es2 nu Hnu Hv Hb H2) as [-> Hc2].
    split; [reflexivity|]. left. split; [reflexivity|].
    destruct Hc2 as (u1 & nu2 & Hu1 & Hnu2 & _ & Am2 & Pq2 & Hin2).
    rewrite Hnu in Hu1. injection Hu1 as <-.
    exists u, nu2. split; [exact Hu|]. split; [exact Hnu2|]. split; [exists a; exact Ha|].
    split; [eapply amt_eq_trans; eauto|]. split; [congruence|]. rewrite <- Pq. exact Hin2.
  - destruct H2 as [[_ Hc]|(e' & -> & -> & Hf')].
    + exfalso. eapply converted_not_fail; eauto.
    + rewrite (fail_reason_fun _ _ _ _ _ Hf Hf'). split; [reflexivity|].
      right. exists e. repeat split. exact Hf.
Qed.

Lemma Forall3_twice c s l l1 l2 ess1 ess2 :
  Forall3 (qconv_rel c s) l l1 ess1 -> Forall3 (qconv_rel c s) l1 l2 ess2 ->
  ess2 = ess1 /\ Forall3 (qconv_rel c s) l l2 ess1.
Proof.
  intro H. revert l2 ess2. induction H as [|q q1 es1 l l1 ess1 Hr _ IH]; intros l2 ess2 H2.
  - inversion H2. split; [reflexivity|constructor].
  - inversion H2 as [|? q2 es2 ? l2' ess2' Hr2 H2']; subst.
    destruct (qconv_twice _ _ _ _ _ _ _ Hr Hr2) as [-> Hq]. destruct (IH _ _ H2') as [-> Hl].
    split; [reflexivity|constructor; assumption].
Qed.

Section Spec.
  Variable approx : Q -> frac_cfg -> outcome (option number).
  Hypothesis approx_exact : forall v cfg n, approx v cfg = Done (Some n) -> num_value n == v.
  Context {IF CF MF : Type}.

  Lemma recipe_convert_spec c s (r r' : recipe IF CF MF) errs :
    ratios_pos c -> index_consistent c ->
    recipe_convert approx c s r = Done (r', errs) ->
    exists ess, errs = concat ess /\
      Forall3 (qconv_rel c s) (recipe_quantities r) (recipe_quantities r') ess.
  Proof.
    intros Hp Hi H. destruct (recipe_convert_slots approx c s r r' errs H) as (ess & He & Hf).
    exists ess. split; [exact He|]. eapply Forall3_impl; [|exact Hf].
    intros q q' es (rr & Hc & ->). eapply convert_best_cases; eauto.
  Qed.

  (* the same, position by position *)
  Lemma recipe_convert_each c s (r r' : recipe IF CF MF) errs :
    ratios_pos c -> index_consistent c ->
    recipe_convert approx c s r = Done (r', errs) ->
    length (recipe_quantities r') = length (recipe_quantities r) /\
    exists ess, errs = concat ess /\ length ess = length (recipe_quantities r) /\
      forall k q, nth_error (recipe_quantities r) k = Some q ->
        exists q' es, nth_error (recipe_quantities r') k = Some q' /\ nth_error ess k = Some es /\
                      qconv_rel c s q q' es.
  Proof.
    intros Hp Hi H. destruct (recipe_convert_spec c s r r' errs Hp Hi H) as (ess & He & Hf).
    destruct (Forall3_length _ _ _ _ Hf) as [L1 L2]. split; [exact L1|].
    exists ess. split; [exact He|]. split; [exact L2|]. exact (Forall3_nth _ _ _ _ Hf).
  Qed.

  (* converting the converted recipe again to the same system (every convertible quantity is now
     in a unit of that system's designated list): the same errors are reported again, and every
     quantity still has the amount it had in the original recipe, in a designated unit *)
  Lemma recipe_convert_twice c s (r r1 r2 : recipe IF CF MF) e1 e2 :
    ratios_pos c -> index_consistent c ->
    recipe_convert approx c s r = Done (r1, e1) ->
    recipe_convert approx c s r1 = Done (r2, e2) ->
    e2 = e1 /\
    exists ess, e1 = concat ess /\
      Forall3 (qconv_rel c s) (recipe_quantities r) (recipe_quantities r2) ess.
  Proof.
    intros Hp Hi H1 H2.
    destruct (recipe_convert_spec c s r r1 e1 Hp Hi H1) as (ess1 & -> & F1).
    destruct (recipe_convert_spec c s r1 r2 e2 Hp Hi H2) as (ess2 & -> & F2).
    destruct (Forall3_twice c s _ _ _ _ _ F1 F2) as [-> F]. split; [reflexivity|].
    exists ess1. split; [reflexivity|exact F].
  Qed.
End Spec.

(* ------------------------------------------------------------------ no panic on a well-formed converter *)

Section Total.
  Variable approx : Q -> frac_cfg -> outcome (option number).
  Hypothesis approx_total : forall v cfg, cfg_ok cfg -> exists o, approx v cfg = Done o.
  Variable c : converter.
  Hypothesis Hwf : conv_wf c.

  (* ScaledQuantity::convert(system) returns: none of its panic sites is reachable *)
  Lemma convert_impl_best_total q s : exists r, convert_impl approx c q (ToBest s) = Done r.
  Proof.
    unfold convert_impl. destruct (q_unit q) as [k|]; [|eexists; reflexivity].
    destruct (unit_info_total c Hwf q) as [ou Hu]. rewrite Hu. cbn [obind].
    destruct ou as [u|]; [|eexists; reflexivity].
    destruct (cvalue_of (q_value q)) as [v|e]; [|eexists; reflexivity].
    unfold conv_convert. cbn [get_unit obind].
    destruct (convert_to_best_total c Hwf v u s) as (r & -> & Hr). cbn [obind].
    destruct r as [[nv nu]|e]; [|eexists; reflexivity].
    pose proof (Hr nv nu eq_refl) as Rn.
    destruct (symbol_total c Hwf nu Rn) as [sy ->]. cbn [obind].
    destruct (fit_fraction_total approx approx_total c Hwf
                {| q_value := value_of nv; q_unit := Some sy |} nu (Some s) Rn) as [rr ->].
    cbn [obind]. destruct (snd rr); eexists; reflexivity.
  Qed.

  Lemma conv_each_total {A} (get : A -> option quantity) set s l :
    forall errs, exists r, conv_each approx c get set (ToBest s) l errs = Done r.
  Proof.
    induction l as [|a rest IH]; intro errs; cbn [conv_each]; [eexists; reflexivity|].
    destruct (get a) as [q|].
    - unfold conv_closure, quantity_convert. destruct (convert_impl_best_total q s) as [[q1 r1] ->].
      cbn [obind fst snd]. destruct r1 as [[]|e]; cbn [obind fst snd].
      + destruct (IH errs) as [re ->]. eexists; reflexivity.
      + destruct (IH (errs ++ [e])) as [re ->]. eexists; reflexivity.
    - cbn [obind snd]. destruct (IH errs) as [re ->]. eexists; reflexivity.
  Qed.

  Lemma recipe_convert_total {IF CF MF : Type} s (r : recipe IF CF MF) :
    exists r' errs, recipe_convert approx c s r = Done (r', errs).
  Proof.
    unfold recipe_convert, cto_of_system.
    destruct (conv_each_total ig_quantity ig_set s (r_ingredients r) []) as [a ->]. cbn [obind].
    destruct (conv_each_total tm_quantity tm_set s (r_timers r) (snd a)) as [b ->]. cbn [obind].
    destruct (conv_each_total iq_get iq_set s (r_inline r) (snd b)) as [d ->]. cbn [obind].
    eexists. eexists. reflexivity.
  Qed.
End Total.
