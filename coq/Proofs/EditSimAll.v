(* Property C17, event level: the pieces of Proofs/EditSim{Qty,Comp,Block,Doc}.v put together
   (the section hypotheses discharged). *)
From CL Require Import Base.StrLemmas Model.Lexer Model.PText Model.CommentMask Model.Parser Model.Edits
  Proofs.LexerProofs Proofs.MaskProofs Proofs.EditProofs Proofs.EditParserProofs Proofs.EditLink
  Proofs.EditSimDefs Proofs.EditSimQty Proofs.EditSimComp Proofs.EditSimBlock Proofs.EditSimDoc.

Section All.
  Variable cfg : pcfg.

  Lemma ingredient_ksim : MR (orel erel) (ingredient_p cfg) (ingredient_p cfg).
  Proof. exact (ingredient_rel cfg (parse_quantity_rel cfg)). Qed.
  Lemma cookware_ksim : MR (orel erel) (cookware_p cfg) (cookware_p cfg).
  Proof. exact (cookware_rel cfg (parse_quantity_rel cfg)). Qed.
  Lemma timer_ksim : MR (orel erel) (timer_p cfg) (timer_p cfg).
  Proof. exact (timer_rel cfg (parse_quantity_rel cfg)). Qed.

  (* one block: related tokens, related events so far -> related events *)
  Theorem block_ksim blk1 blk2 evs1 evs2 old :
    ksim blk1 blk2 -> Forall2 erel evs1 evs2 ->
    OR (Forall2 erel) (run_block blk1 evs1 (parse_block cfg old)) (run_block blk2 evs2 (parse_block cfg old)).
  Proof.
    intros Hb He. apply run_block_rel; [exact Hb | exact He|].
    apply (parse_block_rel cfg ingredient_ksim cookware_ksim timer_ksim).
  Qed.

  Theorem blocks_ksim fuel ts1 ts2 old evs1 evs2 :
    ksim ts1 ts2 -> Forall2 erel evs1 evs2 ->
    OR (Forall2 erel) (blocks_loop cfg fuel ts1 old evs1) (blocks_loop cfg fuel ts2 old evs2).
  Proof. apply (blocks_loop_rel cfg ingredient_ksim cookware_ksim timer_ksim). Qed.

  Theorem step_ksim : MR anyrel (parse_step cfg) (parse_step cfg).
  Proof. apply (parse_step_rel cfg ingredient_ksim cookware_ksim timer_ksim). Qed.

  Variable U : N -> ucls.

  Theorem events_ksim_all s1 s2 ts1 ts2 :
    parse_frontmatter cfg s1 = None -> parse_frontmatter cfg s2 = None ->
    lex_at U s1 0 = Some ts1 -> lex_at U s2 0 = Some ts2 -> ksim ts1 ts2 ->
    OR same_events (events U cfg s1) (events U cfg s2).
  Proof. apply (events_ksim U cfg ingredient_ksim cookware_ksim timer_ksim). Qed.

  Hypothesis special_breaks : forall c, special c = true -> is_word_char U c = false /\ is_lex_ws U c = false.
  Hypothesis eol_breaks : forall c, (c =? 10) || (c =? 13) = true -> is_word_char U c = false /\ is_lex_ws U c = false.

  Theorem crlf_events_all s :
    no_backslash s = true -> no_lone_cr s = true ->
    parse_frontmatter cfg s = None -> parse_frontmatter cfg (crlf s) = None ->
    OR same_events (events U cfg s) (events U cfg (crlf s)).
  Proof. apply (crlf_events U cfg ingredient_ksim cookware_ksim timer_ksim eol_breaks). Qed.

  Theorem extra_line_events_all a l b ta tl tb :
    parse_frontmatter cfg (a ++ b) = None -> parse_frontmatter cfg (a ++ l ++ b) = None ->
    lex_at U a 0 = Some ta -> lex_at U l 0 = Some tl -> lex_at U b (blen a) = Some tb ->
    (ta = [] \/ exists p nl, ta = p ++ [nl] /\ kind nl = KNewline) -> blank_line tl ->
    reach (ta ++ tb) tb ->
    OR same_events (events U cfg (a ++ b)) (events U cfg (a ++ l ++ b)).
  Proof. apply (extra_line_events U cfg ingredient_ksim cookware_ksim timer_ksim special_breaks eol_breaks). Qed.
End All.
