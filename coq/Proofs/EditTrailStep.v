(* Property C17, the trailing edit: the components, the step loop and the block parser of
   Model/Parser.v under [wsimb].  The two runs stay in step except at the very end of a step: when
   the left run has consumed its last token the right one may still stand before the inserted
   tokens and then does one more round of the loop, which yields at most one blank text item. *)
From Coq Require Import List Lia.
From CL Require Import Base.StrLemmas Model.Lexer Model.PText Model.CommentMask Model.Parser Model.Edits
  Proofs.EditParserProofs Proofs.EditSimDefs Proofs.EditSimQty Proofs.EditSimComp Proofs.EditInsDefs Proofs.EditInsPrim.
From CL Require Import Proofs.EditTrailDefs Proofs.EditTrailStr Proofs.EditTrailPrim Proofs.EditTrailQty Proofs.EditTrailFun Proofs.EditTrailLine.
Import ListNotations.

Definition crel (e1 e2 : pevent) : Prop := erel e1 e2 /\ is_comp e1 = true.

Section Step.
  Variable cfg : pcfg.

  (* ================================================================ components *)
  Lemma qty_opt_w (q1 q2 : option (list tok)) :
    orel Wi q1 q2 ->
    WN (orel qrw)
       (match q1 with Some qts => '(q, _) <- parse_quantity cfg qts;; ret (Some q) | None => ret None end)
       (match q2 with Some qts => '(q, _) <- parse_quantity cfg qts;; ret (Some q) | None => ret None end).
  Proof.
    destruct q1, q2; cbn; try contradiction; intro H; [|apply WN_ret; exact I].
    eapply WN_bind; [apply parse_quantity_w; apply wsimb_weaken; exact H|]. intros [a1 x1] [a2 x2] [Ha _]. apply WN_ret. exact Ha.
  Qed.

  Lemma ingredient_w : WL W (orel crel) (ingredient_p cfg) (ingredient_p cfg) W.
  Proof.
    unfold ingredient_p. eapply WL_bind; [apply WN_of, WN_current_offset|]. intros st1 st2 _.
    eapply WL_obindM; [apply WL_consume; discriminate | | auto]. intros at1 at2 _.
    eapply WL_bind; [apply WN_of, WN_current_offset|]. intros mp1 mp2 _.
    eapply WL_bind; [apply modifiers_w|]. intros mts1 mts2 Hm.
    eapply WL_bind; [apply WN_of, WN_current_offset|]. intros no1 no2 _.
    eapply WL_obindM; [apply comp_body_w | | auto]. intros bd1 bd2 (Hn & Hc & Hq).
    eapply WL_bind; [apply note_w|]. intros nt1 nt2 Hnt.
    eapply WL_bind; [apply WN_of, WN_current_offset|]. intros en1 en2 _.
    eapply WL_bind; [apply WN_of, (parse_alias_w cfg false); exact Hn|]. intros [name1 al1] [name2 al2] [Hname Hal]. cbn in Hname, Hal.
    eapply WL_bind; [apply WN_of, (check_empty_name_w false); exact Hname|]. intros _ _ _.
    eapply WL_bind; [apply WN_of, (parse_modifiers_w cfg false); exact Hm|]. intros [[m1 msp1] i1] [[m2 msp2] i2] [Hmm Hi]. cbn in Hmm, Hi.
    eapply WL_bind; [apply WN_of, qty_opt_w; exact Hq|]. intros q1 q2 Hqq.
    apply WL_ret. cbn. split; [|reflexivity]. unfold erel. cbn [proj i_mods i_inter i_name i_alias i_qty i_note].
    rewrite Hmm, (orel_map_pinter _ _ Hi), (trw_tx _ _ _ Hname), (otrw_map_tx _ _ _ Hal), (orel_map_pqw _ _ Hqq), (otrw_map_tx _ _ _ Hnt).
    reflexivity.
  Qed.

  Definition cqrw (a b : qvalue * span) : Prop := qvrel (fst a) (fst b).
  Lemma orel_map_cqw o1 o2 : orel cqrw o1 o2 ->
    option_map (fun q : qvalue * span => pqv (fst q)) o1 = option_map (fun q : qvalue * span => pqv (fst q)) o2.
  Proof. destruct o1, o2; cbn; try tauto. intro H. rewrite (qvrel_pqv _ _ H). reflexivity. Qed.

  Lemma cookware_w : WL W (orel crel) (cookware_p cfg) (cookware_p cfg) W.
  Proof.
    unfold cookware_p. eapply WL_bind; [apply WN_of, WN_current_offset|]. intros st1 st2 _.
    eapply WL_obindM; [apply WL_consume; discriminate | | auto]. intros at1 at2 _.
    eapply WL_bind; [apply WN_of, WN_current_offset|]. intros mp1 mp2 _.
    eapply WL_bind; [apply modifiers_w|]. intros mts1 mts2 Hm.
    eapply WL_bind; [apply WN_of, WN_current_offset|]. intros no1 no2 _.
    eapply WL_obindM; [apply comp_body_w | | auto]. intros b1 b2 (Hbn & Hbc & Hbq).
    eapply WL_bind; [apply note_w|]. intros nt1 nt2 Hnt.
    eapply WL_bind; [apply WN_of, WN_current_offset|]. intros en1 en2 _.
    eapply WL_bind; [apply WN_of, (parse_alias_w cfg false); exact Hbn|]. intros [n1 a1] [n2 a2] [Hn Ha]. cbn [fst snd] in Hn, Ha.
    eapply WL_bind; [apply WN_of, (check_empty_name_w false); exact Hn|]. intros _ _ _.
    eapply WL_bind with (RA := orel cqrw).
    - apply WN_of. destruct (bd_qty b1) as [q1|], (bd_qty b2) as [q2|]; cbn in Hbq; try contradiction; [|apply WN_ret; exact I].
      eapply WN_bind; [apply parse_quantity_w; apply wsimb_weaken; exact Hbq|]. intros [x1 u1] [x2 u2] [[Hv Hu] _].
      cbn [fst snd] in Hv, Hu. eapply WN_bind with (RA := anyrel).
      + destruct (q_unit x1), (q_unit x2); cbn in Hu; try contradiction; [apply WN_error | apply WN_ret; exact I].
      + intros _ _ _. apply WN_ret. exact Hv.
    - intros q1 q2 Hq.
      eapply WL_bind; [apply WN_of, (parse_modifiers_w cfg false); exact Hm|]. intros [[m1 ms1] j1] [[m2 ms2] j2] [Hmm Hj].
      cbn [fst snd] in Hmm, Hj. subst m2.
      eapply WL_bind with (RA := anyrel).
      { apply WN_of. destruct j1, j2; cbn in Hj; try contradiction; [apply WN_error | apply WN_ret; exact I]. }
      intros _ _ _. eapply WL_bind with (RA := anyrel).
      { apply WN_of. destruct (N.land m1 M_RECIPE =? M_RECIPE); [|apply WN_ret; exact I].
        destruct (find (fun t => tk_eqb (kind t) KAt) mts1), (find (fun t => tk_eqb (kind t) KAt) mts2).
        - apply WN_error.
        - apply WN_panic_r.
        - apply WN_panic_l.
        - apply WN_panic_l. }
      intros _ _ _. apply WL_ret. cbn [orel]. split; [|reflexivity]. unfold erel.
      cbn [proj c_mods c_name c_alias c_qty c_note].
      rewrite (trw_tx _ _ _ Hn), (otrw_map_tx _ _ _ Ha), (orel_map_cqw _ _ Hq), (otrw_map_tx _ _ _ Hnt). reflexivity.
  Qed.

  Lemma timer_w : WL W (orel crel) (timer_p cfg) (timer_p cfg) W.
  Proof.
    unfold timer_p. eapply WL_bind; [apply WN_of, WN_current_offset|]. intros st1 st2 _.
    eapply WL_obindM; [apply WL_consume; discriminate | | auto]. intros at1 at2 _.
    eapply WL_bind; [apply modifiers_w|]. intros mts1 mts2 Hm.
    eapply WL_bind; [apply WN_of, WN_current_offset|]. intros no1 no2 _.
    eapply WL_obindM; [apply comp_body_w | | auto]. intros b1 b2 (Hbn & Hbc & Hbq).
    eapply WL_bind; [apply WN_of, WN_current_offset|]. intros en1 en2 _.
    eapply WL_bind with (RA := anyrel).
    { apply WN_of. pose proof (wi_nil_iff _ _ Hm) as Hnil.
      destruct mts1, mts2; [apply WN_ret; exact I | | | apply WN_error].
      - destruct Hnil as [X _]. specialize (X eq_refl). discriminate.
      - destruct Hnil as [_ X]. specialize (X eq_refl). discriminate. }
    intros _ _ _. eapply WL_bind with (RA := anyrel).
    { apply WN_of. destruct (has cfg X_COMPONENT_ALIAS); [|apply WN_ret; exact I].
      pose proof (wsimb_split (fun k => tk_eqb k KOr) false _ _ eq_refl eq_refl Hbn) as X.
      destruct (position (fun k => tk_eqb k KOr) (bd_name b1)) as [n1|], (position (fun k => tk_eqb k KOr) (bd_name b2)) as [n2|];
        try contradiction; [|apply WN_ret; exact I].
      destruct X as [_ (sa & sb & r1 & r2 & -> & -> & _)]. apply WN_error. }
    intros _ _ _. eapply WL_bind; [apply check_note_w|]. intros _ _ _.
    eapply WL_bind; [apply WN_of, WN_textM; exact Hbn|]. intros n1 n2 Hn.
    eapply WL_bind with (RA := orel qrw).
    { apply WN_of. destruct (bd_qty b1) as [q1|], (bd_qty b2) as [q2|]; cbn in Hbq; try contradiction; [|apply WN_ret; exact I].
      eapply WN_bind; [apply parse_quantity_w; apply wsimb_weaken; exact Hbq|]. intros [x1 u1] [x2 u2] [Hx _].
      cbn [fst snd] in Hx. eapply WN_bind with (RA := anyrel).
      + destruct Hx as [_ Hu]. destruct (q_unit x1), (q_unit x2); cbn in Hu; try contradiction;
          [apply WN_ret; exact I | apply WN_error].
      + intros _ _ _. apply WN_ret. exact Hx. }
    intros q1 q2 Hq. eapply WL_bind with (RA := orel qrw).
    { apply WN_of. destruct q1 as [q1|], q2 as [q2|]; cbn in Hq; try contradiction; [apply WN_ret; exact Hq|].
      destruct (has cfg X_TIMER_REQUIRES_TIME); [|apply WN_ret; exact I].
      eapply WN_bind; [apply WN_error|]. intros _ _ _. apply WN_ret. exact qrw_recover. }
    intros q1' q2' Hq'. rewrite (trw_empty _ _ _ Hn). eapply WL_bind with (RA := orel qrw).
    { apply WN_of. destruct (is_text_empty n2); [|apply WN_ret; exact Hq'].
      destruct q1' as [q1'|], q2' as [q2'|]; cbn in Hq'; try contradiction; [apply WN_ret; exact Hq'|].
      eapply WN_bind; [apply WN_error|]. intros _ _ _. apply WN_ret. exact qrw_recover. }
    intros q1'' q2'' Hq''. apply WL_ret. cbn [orel]. split; [|reflexivity]. unfold erel. cbn [proj t_name t_qty].
    rewrite (orel_map_pqw _ _ Hq''). destruct (is_text_empty n2); cbn [option_map]; [reflexivity|].
    rewrite (trw_tx _ _ _ Hn). reflexivity.
  Qed.

  (* ================================================================ the step loop *)
  Definition top_comp (l1 l2 : list pevent) : Prop :=
    exists c1 c2 q1 q2, l1 = c1 :: q1 /\ l2 = c2 :: q2 /\ is_comp c1 = true /\ erel c1 c2 /\ evw q1 q2.

  Definition all_empty (r : list tok) : bool := forallb (fun t => is_empty_tok (kind t)) r.

  (* the invariant at the head of the loop *)
  Definition SI (s1 s2 : bp) : Prop :=
    Sw W s1 s2 /\ (all_empty (b_rest s1) = true -> b_rest s2 <> [] -> top_comp (b_evs s1) (b_evs s2)).

  Definition nm (k : tkind) : bool := negb (is_marker k).

  Lemma sl_end f s : b_rest s = [] ->
    match step_loop cfg f s with Done (_, s') => s' = s | Panic _ => True end.
  Proof. intro E. destruct f as [|f]; [exact I|]. cbn [step_loop]. unfold bind, rest. rewrite E. reflexivity. Qed.

  Definition sl_sel (k : tkind) : M (option pevent) :=
    match k with
    | KAt => with_recover (ingredient_p cfg)
    | KHash => with_recover (cookware_p cfg)
    | KTilde => with_recover (timer_p cfg)
    | _ => ret None
    end.

  Definition sl_text (f : nat) : M unit :=
    start <- current_offset ;;
    t0 <- bump_any ;;
    more <- consume_while (fun k => negb (is_marker k)) ;;
    t <- textM cfg start (t0 :: more) ;;
    (match frags t with
     | [] => ret tt
     | _ => event (EvText t)
     end) ;;;
    step_loop cfg f.

  Definition sl_k (f : nat) (comp : option pevent) : M unit :=
    match comp with
    | Some ev => event ev ;;; step_loop cfg f
    | None => sl_text f
    end.

  Lemma sl_unfold f s t q : b_rest s = t :: q -> step_loop cfg (S f) s = (comp <- sl_sel (kind t) ;; sl_k f comp) s.
  Proof. intro E. cbn [step_loop]. unfold bind, rest, peek, peek_of. cbv beta iota. rewrite E. cbv beta iota. rewrite ?E. reflexivity. Qed.

  Lemma sl_sel_none k : is_marker k = false -> sl_sel k = ret None.
  Proof. destruct k; intro H; try discriminate H; reflexivity. Qed.

  Lemma bind_ret_none {A} (F : option pevent -> M A) s : (comp <- ret None ;; F comp) s = F None s.
  Proof. reflexivity. Qed.

  (* one round of the right run on tokens that were all inserted *)
  Lemma sl_gap_round f s r :
    b_rest s = r -> r <> [] -> Forall gtok r ->
    match step_loop cfg (S f) s with
    | Done (_, s') => b_rest s' = [] /\ b_all s' = b_all s
                      /\ (b_evs s' = b_evs s \/ exists t, b_evs s' = EvText t :: b_evs s /\ sp32 (text_str t))
    | Panic _ => True
    end.
  Proof.
    intros E N G. destruct r as [|g q]; [contradiction N; reflexivity|]. inversion G as [|? ? Hg Gq]; subst.
    rewrite (sl_unfold f s g q E).
    assert (K1 : sl_sel (kind g) = ret None) by (destruct (gtok_kind _ Hg) as [-> | ->]; reflexivity).
    rewrite K1, bind_ret_none. unfold sl_k, sl_text. unfold bind. unfold current_offset. cbv beta iota.
    rewrite bump_any_step, E. cbv beta iota. rewrite consume_while_cwc. cbn [step1 b_rest].
    assert (C : cwc (fun k => negb (is_marker k)) q = length q).
    { apply cwc_all. eapply Forall_impl; [|exact Gq]. intros t Ht. destruct (gtok_kind _ Ht) as [-> | ->]; reflexivity. }
    rewrite C, firstn_all. cbv beta iota. unfold textM, lift.
    destruct (text_of cfg (current_offset_of s) (g :: q)) as [t|] eqn:Et; [|exact I]. cbv beta iota.
    assert (N1 : Forall (fun tk => tstr tk <> []) (g :: q)) by (eapply Forall_impl; [|exact G]; intros x Hx; exact (gtok_nonempty _ Hx)).
    pose proof (text_of_render _ _ _ _ N1 Et) as Rt. pose proof (Forall_gtok_blank _ G) as Bt. rewrite <- Rt in Bt.
    set (s1 := advance (length q) (step1 s g q)).
    assert (R1 : b_rest s1 = []) by (unfold s1; rewrite advance_rest; cbn [step1 b_rest]; apply skipn_all).
    assert (A1 : b_all s1 = b_all s) by (unfold s1; rewrite advance_all; reflexivity).
    assert (V1 : b_evs s1 = b_evs s) by (unfold s1; rewrite advance_evs; reflexivity).
    destruct (frags t) as [|fr frs] eqn:Ef.
    - unfold ret at 1. cbv beta iota. pose proof (sl_end f s1 R1) as X.
      destruct (step_loop cfg f s1) as [[u s']|]; [|exact I]. subst s'. split; [exact R1|]. split; [exact A1 | left; exact V1].
    - unfold event at 1. cbv beta iota.
      set (s2 := {| b_all := b_all s1; b_done := b_done s1; b_rest := b_rest s1; b_evs := EvText t :: b_evs s1 |}).
      pose proof (sl_end f s2 R1) as X. destruct (step_loop cfg f s2) as [[u s']|]; [|exact I]. subst s'.
      split; [exact R1|]. split; [exact A1|]. right. exists t. cbn [s2 b_evs]. rewrite V1. split; [reflexivity | exact Bt].
  Qed.

  Lemma wsimb_kind_nm e a r1 b r2 : wsimb e (a :: r1) (b :: r2) -> nm (kind a) = true -> nm (kind b) = true.
  Proof.
    intros H Na. pose proof (wsimb_hd _ _ _ H) as Hh. cbn [hdk] in Hh.
    destruct (kcl_cases _ _ Hh) as [[E _] | [_ E]]; [rewrite <- E; exact Na|].
    destruct (kind b); try discriminate E; reflexivity.
  Qed.

  (* the text branch: one token, then everything up to the next marker *)
  Lemma WJ_text_run {A B} l1 l2 v1 v2 (K1 : tok -> list tok -> M A) (K2 : tok -> list tok -> M B) (Q : A -> bp -> B -> bp -> Prop) :
    l1 <> [] -> W l1 l2 ->
    (forall a m1 b m2, Wi (a :: m1) (b :: m2) ->
       HJ (Sw (fun r1 r2 => W r1 r2 /\ all_empty r1 = false)) (K1 a m1) (K2 b m2) Q) ->
    (forall a m1 b m2, a :: m1 = l1 -> b :: m2 = l2 ->
       HJ (fun s1 s2 => Sw (fun r1 r2 => r1 = [] /\ r2 = []) s1 s2 /\ b_evs s1 = v1 /\ b_evs s2 = v2) (K1 a m1) (K2 b m2) Q) ->
    HJ (fun s1 s2 => Sw W s1 s2 /\ b_rest s1 = l1 /\ b_rest s2 = l2 /\ b_evs s1 = v1 /\ b_evs s2 = v2)
       (t0 <- bump_any ;; more <- consume_while (fun k => negb (is_marker k)) ;; K1 t0 more)
       (t0 <- bump_any ;; more <- consume_while (fun k => negb (is_marker k)) ;; K2 t0 more) Q.
  Proof.
    intros N1 Hl HS HF s1 s2 (St & E1 & E2 & V1 & V2). unfold bind. rewrite !bump_any_step, E1, E2.
    destruct l1 as [|a q1]; [contradiction N1; reflexivity|].
    pose proof (wsimb_ne _ _ _ Hl ltac:(discriminate)) as N2. destruct l2 as [|b q2]; [contradiction N2; reflexivity|].
    cbv beta iota. rewrite !consume_while_cwc. cbn [step1 b_rest]. fold nm.
    assert (Sx : forall (T' : TR) n1 n2, T' (skipn n1 q1) (skipn n2 q2) ->
               Sw T' (advance n1 (step1 s1 a q1)) (advance n2 (step1 s2 b q2))).
    { intros T' n1 n2 H. destruct St as (_ & Sa & Se). unfold Sw. rewrite !advance_rest, !advance_all, !advance_evs.
      cbn [step1 b_rest b_all b_evs]. split; [exact H | split; assumption]. }
    assert (ME : forall t q, is_marker (kind t) = true -> all_empty (t :: q) = false).
    { intros t q Ht. unfold all_empty. cbn [forallb]. destruct (kind t); try discriminate Ht; reflexivity. }
    destruct (nm (kind a)) eqn:Na.
    - (* the first token is not a marker: the run is a prefix of the whole list *)
      pose proof (wsimb_kind_nm _ _ _ _ _ Hl Na) as Nb.
      pose proof (wsimb_run nm true _ _ eq_refl eq_refl Hl) as X. rewrite !cwc_cons, Na, Nb in X. cbn [firstn skipn] in X.
      destruct X as [[X1 X2] | (X1 & X2 & X3)].
      + apply (HS _ _ _ _ X1). apply Sx. split; [exact (synced_W _ _ _ _ X2)|].
        destruct X2 as (t & t' & r1 & r2 & -> & _ & _ & Ft & _). apply ME. unfold nm in Ft. rewrite negb_involutive in Ft. exact Ft.
      + assert (F1 : firstn (cwc nm q1) q1 = q1).
        { pose proof (firstn_skipn (cwc nm q1) q1) as Z. rewrite X2, app_nil_r in Z. exact Z. }
        assert (F2 : firstn (cwc nm q2) q2 = q2).
        { pose proof (firstn_skipn (cwc nm q2) q2) as Z. rewrite X3, app_nil_r in Z. exact Z. }
        rewrite F1, F2. apply (HF _ _ _ _ eq_refl eq_refl). split; [apply Sx; split; assumption|].
        rewrite !advance_evs. cbn [step1 b_evs]. split; assumption.
    - (* a marker that did not start a component *)
      assert (Ka : kcl (kind a) <> None).
      { unfold nm in Na. apply negb_false_iff in Na. destruct (kind a); try discriminate Na; discriminate. }
      destruct (wsimb_head_inv _ _ _ _ Hl Ka) as (b' & q2' & Eb & Hab & Ho & Hq). inversion Eb; subst b' q2'.
      pose proof (wsimb_run nm true _ _ eq_refl eq_refl Hq) as X.
      destruct X as [[X1 X2] | (X1 & X2 & X3)].
      + assert (Wa : Wi (a :: firstn (cwc nm q1) q1) (b :: firstn (cwc nm q2) q2)).
        { apply w_cons; [exact Hab | | exact X1]. destruct Ho as [Ho | [-> ->]]; [left; exact Ho | right; split; reflexivity]. }
        apply (HS _ _ _ _ Wa). apply Sx. split; [exact (synced_W _ _ _ _ X2)|].
        destruct X2 as (t & t' & r1 & r2 & -> & _ & _ & Ft & _). apply ME. unfold nm in Ft. rewrite negb_involutive in Ft. exact Ft.
      + assert (F1 : firstn (cwc nm q1) q1 = q1).
        { pose proof (firstn_skipn (cwc nm q1) q1) as Z. rewrite X2, app_nil_r in Z. exact Z. }
        assert (F2 : firstn (cwc nm q2) q2 = q2).
        { pose proof (firstn_skipn (cwc nm q2) q2) as Z. rewrite X3, app_nil_r in Z. exact Z. }
        rewrite F1, F2. apply (HF _ _ _ _ eq_refl eq_refl). split; [apply Sx; split; assumption|].
        rewrite !advance_evs. cbn [step1 b_evs]. split; assumption.
  Qed.

  Lemma frags_str t ts o : text_of cfg o ts = Done t -> (frags t = [] <-> text_str t = []).
  Proof. intro H. apply full_str_nil. exact (text_of_full _ _ _ _ H). Qed.

  Lemma spins_nil_r e s : spins e s [] -> s = [].
  Proof. intro H. inversion H; reflexivity. Qed.

  Lemma WJ_with_recover_keep {A B} (T : TR) (R : A -> B -> Prop) (m1 : M (option A)) (m2 : M (option B)) x1 x2 :
    WL T (orel R) m1 m2 W -> (forall l1 l2, T l1 l2 -> W l1 l2) ->
    HJ (fun s1 s2 => Sw T s1 s2 /\ s1 = x1 /\ s2 = x2) (with_recover m1) (with_recover m2)
       (fun o1 s1 o2 s2 => orel R o1 o2 /\ Sw W s1 s2 /\
          (o1 = None -> b_rest s1 = b_rest x1 /\ b_rest s2 = b_rest x2 /\ b_all s1 = b_all x1 /\ b_all s2 = b_all x2)).
  Proof.
    intros H HT s1 s2 (St & -> & ->). unfold with_recover. specialize (H x1 x2 St).
    destruct (m1 x1) as [[o1 y1]|]; [|exact I]. destruct (m2 x2) as [[o2 y2]|]; [|destruct o1; exact I].
    destruct H as (Ho & S'). destruct o1 as [a|], o2 as [b|]; cbn in Ho; try contradiction.
    - split; [exact Ho|]. split; [exact S' | discriminate].
    - split; [exact I|]. destruct St as (Sr & Sa & _). destruct S' as (_ & _ & Se). split.
      + split; [cbn; apply HT; exact Sr | split; assumption].
      + intros _. repeat split; reflexivity.
  Qed.

  Definition Qf : unit -> bp -> unit -> bp -> Prop := fun _ s1 _ s2 => SwF s1 s2.

  Section Loop.
    Variables f1 f2 : nat.
    Hypothesis LOOP : HJ SI (step_loop cfg f1) (step_loop cfg f2) Qf.
    Variables (a : tok) (r1 : list tok) (b : tok) (r2 : list tok).

    (* after the text item(s) both loops stop *)
    Lemma sl_both_end y1 y2 : b_rest y1 = [] -> b_rest y2 = [] -> SwF y1 y2 ->
      match step_loop cfg f1 y1, step_loop cfg f2 y2 with
      | Done (_, s1'), Done (_, s2') => SwF s1' s2' | _, _ => True end.
    Proof.
      intros Y1 Y2 Sy. pose proof (sl_end f1 y1 Y1) as X1. pose proof (sl_end f2 y2 Y2) as X2.
      destruct (step_loop cfg f1 y1) as [[u1 y1']|]; [|exact I]. destruct (step_loop cfg f2 y2) as [[u2 y2']|]; [|exact I].
      subst. exact Sy.
    Qed.

    Lemma sl_text_w :
      HJ (fun s1 s2 => Sw W s1 s2 /\ b_rest s1 = a :: r1 /\ b_rest s2 = b :: r2
                       /\ (all_empty (a :: r1) = true -> top_comp (b_evs s1) (b_evs s2)))
         (sl_text f1) (sl_text f2) Qf.
    Proof.
      intros s1 s2 (St & E1 & E2 & Ht). unfold sl_text. unfold bind at 1. unfold bind at 6. unfold current_offset. cbv beta iota.
      pose proof St as (Hr & _). rewrite E1, E2 in Hr.
      apply (WJ_text_run (a :: r1) (b :: r2) (b_evs s1) (b_evs s2)
               (fun t0 more => t <- textM cfg (current_offset_of s1) (t0 :: more) ;;
                               (match frags t with [] => ret tt | _ => event (EvText t) end) ;;; step_loop cfg f1)
               (fun t0 more => t <- textM cfg (current_offset_of s2) (t0 :: more) ;;
                               (match frags t with [] => ret tt | _ => event (EvText t) end) ;;; step_loop cfg f2)
               Qf); [discriminate | exact Hr | | | split; [exact St | split; [exact E1 | split; [exact E2 | split; reflexivity]]]].
      - (* the text stops in front of a marker *)
        intros a0 m1 b0 m2 Hm.
        eapply HJ_bind; [apply (WN_textM cfg false _ _ _ _ Hm)|]. intros t1 t2 x1 x2 [Htx Sx]. revert x1 x2 Sx.
        eapply HJ_bind with (Q := fun _ x1 _ x2 => Sw (fun l1 l2 => W l1 l2 /\ all_empty l1 = false) x1 x2).
        { pose proof Htx as (Hs & _ & Hf). specialize (Hf eq_refl).
          destruct (frags t1) eqn:F1, (frags t2) eqn:F2.
          - intros x1 x2 Sx. cbn. exact Sx.
          - exfalso. destruct Hf as [Hf _]. specialize (Hf eq_refl). discriminate.
          - exfalso. destruct Hf as [_ Hf]. specialize (Hf eq_refl). discriminate.
          - intros x1 x2 (Xr & Xa & Xe). cbn. split; [exact Xr|]. split; [exact Xa|]. cbn. apply evw_text; assumption. }
        intros _ _ x1 x2 Sx. apply LOOP. destruct Sx as ((Xr & Xn) & Xa & Xe). split; [split; [exact Xr | split; assumption]|].
        intros Y. rewrite Y in Xn. discriminate.
      - (* the text runs to the end of the block *)
        intros a0 m1 b0 m2 Ea Eb.
        assert (Hm : W (a0 :: m1) (b0 :: m2)) by (rewrite Ea, Eb; exact Hr).
        intros x1 x2 (Sx & V1 & V2). unfold bind at 1. unfold bind at 3. unfold textM, lift.
        pose proof (wsimb_text cfg true (current_offset_of s1) (current_offset_of s2) _ _ Hm) as Htx. unfold OR in Htx.
        destruct (text_of cfg (current_offset_of s1) (a0 :: m1)) as [t1|] eqn:T1; [|exact I].
        destruct (text_of cfg (current_offset_of s2) (b0 :: m2)) as [t2|] eqn:T2.
        2:{ cbv beta iota. unfold bind. destruct (match frags t1 with [] => ret tt | _ :: _ => event (EvText t1) end x1) as [[? ?]|]; [|exact I].
            match goal with |- match ?z with _ => _ end => destruct z as [[? ?]|]; exact I end. }
        cbv beta iota. destruct Sx as ((R1 & R2) & Xa & Xe). destruct Htx as (Hs & _ & _).
        pose proof (frags_str _ _ _ T1) as Z1. pose proof (frags_str _ _ _ T2) as Z2.
        unfold bind.
        destruct (frags t1) as [|fr1 fq1] eqn:F1, (frags t2) as [|fr2 fq2] eqn:F2; cbn [ret event].
        + apply sl_both_end; [exact R1 | exact R2|]. split; [rewrite R1, R2; constructor|]. split; [exact Xa | apply evfin_same; exact Xe].
        + (* one more blank text item on the right: only after a component *)
          apply sl_both_end; [exact R1 | exact R2|]. split; [cbn; rewrite R1, R2; constructor|]. split; [exact Xa|]. cbn [b_evs].
          assert (S1 : text_str t1 = []) by (apply Z1; reflexivity). rewrite S1 in Hs.
          destruct (spins_nil_l _ _ Hs) as [B2 _].
          assert (AE : all_empty (a :: r1) = true).
          { rewrite <- Ea. apply (wsimb_render_empty true _ _ Hm).
            - rewrite <- (text_of_render _ _ _ _ (wsimb_ne_l _ _ _ Hm) T1). exact S1.
            - rewrite <- (text_of_render _ _ _ _ (wsimb_ne_r _ _ _ Hm) T2). intro Y. apply Z2 in Y. discriminate. }
          rewrite V1, V2. destruct (Ht AE) as (c1 & c2 & q1 & q2 & -> & -> & Hc & He & Hq). apply evfin_blank; assumption.
        + exfalso. assert (S2 : text_str t2 = []) by (apply Z2; reflexivity). rewrite S2 in Hs. apply spins_nil_r in Hs.
          apply Z1 in Hs. discriminate.
        + apply sl_both_end; [exact R1 | exact R2|]. split; [cbn; rewrite R1, R2; constructor|]. split; [exact Xa|]. cbn [b_evs].
          apply evfin_text; [exact Hs | | exact Xe]. intro Y. apply Z1 in Y. discriminate.
    Qed.

    (* a component attempt at a marker *)
    Lemma sl_comp_w (p : M (option pevent)) : WL W (orel crel) p p W -> all_empty (a :: r1) = false ->
      HJ (fun s1 s2 => Sw W s1 s2 /\ b_rest s1 = a :: r1 /\ b_rest s2 = b :: r2)
         (comp <- with_recover p ;; sl_k f1 comp) (comp <- with_recover p ;; sl_k f2 comp) Qf.
    Proof.
      intros Hp Hne s1 s2 (St & E1 & E2).
      pose proof (HJ_bind (fun y1 y2 => Sw W y1 y2 /\ y1 = s1 /\ y2 = s2)
                    (fun o1 y1 o2 y2 => orel crel o1 o2 /\ Sw W y1 y2 /\
                       (o1 = None -> b_rest y1 = b_rest s1 /\ b_rest y2 = b_rest s2 /\ b_all y1 = b_all s1 /\ b_all y2 = b_all s2))
                    Qf (with_recover p) (with_recover p) (sl_k f1) (sl_k f2)
                    (WJ_with_recover_keep W crel p p s1 s2 Hp (fun _ _ X => X))) as X.
      apply X; [|split; [exact St | split; reflexivity]]. clear X.
      intros [e1|] [e2|] y1 y2 (Xo & Xs & Xk); cbn [orel] in Xo; try contradiction; unfold sl_k.
      - (* a component: both loops go on, a component on top of the stacks *)
        destruct Xo as [He Hc]. unfold bind. cbn [event]. apply LOOP. destruct Xs as (Xr & Xa & Xe).
        split; [split; [exact Xr | split; [exact Xa | cbn; apply evw_cons; assumption]]|].
        intros _ _. cbn [b_evs]. exists e1, e2, (b_evs y1), (b_evs y2). repeat split; assumption.
      - (* no component: the marker is text *)
        destruct (Xk eq_refl) as (Y1 & Y2 & _). apply sl_text_w. split; [exact Xs|]. split; [rewrite Y1; exact E1|].
        split; [rewrite Y2; exact E2|]. intro Y. rewrite Y in Hne. discriminate.
    Qed.
  End Loop.

  Lemma step_loop_w : forall f1 f2, HJ SI (step_loop cfg f1) (step_loop cfg f2) Qf.
  Proof.
    induction f1 as [|f1 IH]; intro f2; [apply HJ_panic_l|]. destruct f2 as [|f2]; [apply HJ_panic_r|].
    intros s1 s2 [St Ht]. pose proof St as (Hr & Sa & Se). unfold Qf.
    destruct (b_rest s1) as [|a r1] eqn:E1.
    { pose proof (sl_end (S f1) s1 E1) as X1. destruct (step_loop cfg (S f1) s1) as [[u1 s1']|]; [|exact I]. subst s1'.
      destruct (b_rest s2) as [|b r2] eqn:E2.
      - pose proof (sl_end (S f2) s2 E2) as X2. destruct (step_loop cfg (S f2) s2) as [[u2 s2']|]; [|exact I]. subst s2'.
        apply Sw_SwF. exact St.
      - pose proof (sl_gap_round f2 s2 (b :: r2) E2 ltac:(discriminate) (wsimb_nil_gtok _ _ Hr)) as X2.
        destruct (step_loop cfg (S f2) s2) as [[u2 s2']|]; [|exact I]. destruct X2 as (R2 & A2 & V2).
        split; [rewrite E1, R2; constructor|]. split; [rewrite A2; exact Sa|].
        destruct V2 as [V2 | (t & V2 & Bt)]; rewrite V2; [apply evfin_same; exact Se|].
        destruct (Ht eq_refl ltac:(discriminate)) as (c1 & c2 & q1 & q2 & -> & -> & Hc & He & Hq).
        apply evfin_blank; assumption. }
    assert (N2 : b_rest s2 <> []) by (apply (wsimb_ne _ _ _ Hr); discriminate).
    destruct (b_rest s2) as [|b r2] eqn:E2; [contradiction N2; reflexivity|].
    rewrite (sl_unfold f1 s1 a r1 E1), (sl_unfold f2 s2 b r2 E2).
    pose proof (wsimb_hd _ _ _ Hr) as Hk. cbn [hdk] in Hk.
    assert (TX : is_marker (kind a) = false -> is_marker (kind b) = false ->
                 match (comp <- sl_sel (kind a) ;; sl_k f1 comp) s1, (comp <- sl_sel (kind b) ;; sl_k f2 comp) s2 with
                 | Done (_, s1'), Done (_, s2') => SwF s1' s2' | _, _ => True end).
    { intros Ma Mb. rewrite (sl_sel_none _ Ma), (sl_sel_none _ Mb), !bind_ret_none. unfold sl_k.
      apply (sl_text_w f1 f2 (IH f2) a r1 b r2 s1 s2). split; [exact St|]. split; [exact E1|]. split; [exact E2|].
      intro Y. apply Ht; [exact Y | discriminate]. }
    destruct (kcl_cases _ _ Hk) as [[Ek Kn] | [K1 K2]].
    - rewrite <- Ek in *. destruct (is_marker (kind a)) eqn:Ma; [|apply TX; reflexivity].
      assert (Hne : all_empty (a :: r1) = false).
      { unfold all_empty. cbn [forallb]. destruct (kind a); try discriminate Ma; reflexivity. }
      destruct (kind a) eqn:Ka; try discriminate Ma; cbn [sl_sel].
      + apply (sl_comp_w f1 f2 (IH f2) a r1 b r2 _ ingredient_w Hne). split; [exact St | split; assumption].
      + apply (sl_comp_w f1 f2 (IH f2) a r1 b r2 _ cookware_w Hne). split; [exact St | split; assumption].
      + apply (sl_comp_w f1 f2 (IH f2) a r1 b r2 _ timer_w Hne). split; [exact St | split; assumption].
    - apply TX; [destruct (kind a); try discriminate K1; reflexivity | destruct (kind b); try discriminate K2; reflexivity].
  Qed.

  (* ================================================================ blocks *)
  Lemma evfin_end b l1 l2 : evfin l1 l2 -> evw (EvEnd b :: l1) (EvEnd b :: l2).
  Proof.
    intros [q1 q2 H|t1 t2 q1 q2 Ht Hn H|t2 c1 c2 q1 q2 Hb Hc He H].
    - apply evw_cons; [reflexivity | exact H].
    - apply evw_end_text; assumption.
    - apply evw_end_blank; assumption.
  Qed.

  Lemma parse_step_w :
    HJ (fun s1 s2 => Sw W s1 s2 /\ all_empty (b_rest s1) = false) (parse_step cfg) (parse_step cfg) (fun _ s1 _ s2 => Sw W s1 s2).
  Proof.
    intros s1 s2 [St Hne]. unfold parse_step. unfold bind, event, rest. cbv beta iota.
    set (y1 := {| b_all := b_all s1; b_done := b_done s1; b_rest := b_rest s1; b_evs := EvStart true :: b_evs s1 |}).
    set (y2 := {| b_all := b_all s2; b_done := b_done s2; b_rest := b_rest s2; b_evs := EvStart true :: b_evs s2 |}).
    assert (Sy : SI y1 y2).
    { destruct St as (Hr & Ha & He). split; [split; [exact Hr | split; [exact Ha | cbn; apply evw_cons; [reflexivity | exact He]]]|].
      cbn [y1 b_rest]. intro Y. rewrite Y in Hne. discriminate. }
    pose proof (step_loop_w (S (length (b_rest y1))) (S (length (b_rest y2))) y1 y2 Sy) as X.
    destruct (step_loop cfg (S (length (b_rest y1))) y1) as [[u1 z1]|]; [|exact I].
    destruct (step_loop cfg (S (length (b_rest y2))) y2) as [[u2 z2]|]; [|exact I].
    destruct X as (Hr & Ha & He). split; [exact Hr|]. split; [exact Ha|]. cbn. apply evfin_end. exact He.
  Qed.

  Lemma parse_multiline_block_w :
    HJ (fun s1 s2 => Sw W s1 s2 /\ b_rest s1 = b_all s1) (parse_multiline_block cfg) (parse_multiline_block cfg)
       (fun _ s1 _ s2 => Sw W s1 s2).
  Proof.
    intros s1 s2 [St Ea]. unfold parse_multiline_block. unfold bind at 1. unfold bind at 3. unfold all_tokens. cbv beta iota.
    pose proof St as (Hr & Ha & He). rewrite <- (ballr_empty _ _ Ha).
    destruct (forallb (fun t => is_empty_tok (kind t)) (b_all s1)) eqn:Em.
    - pose proof (WL_consume_rest s1 s2 St) as X. unfold bind.
      destruct (consume_rest s1) as [[l1 z1]|]; [|exact I]. destruct (consume_rest s2) as [[l2 z2]|]; [|exact I].
      cbn. exact (proj2 X).
    - unfold bind. unfold peek. cbv beta iota. rewrite !peek_of_hdk.
      pose proof (wsimb_hd _ _ _ Hr) as Hk.
      assert (STEP : match parse_step cfg s1, parse_step cfg s2 with
                     | Done (_, z1), Done (_, z2) => Sw W z1 z2 | _, _ => True end).
      { apply parse_step_w. split; [exact St|]. unfold all_empty. rewrite Ea. exact Em. }
      destruct (kcl_cases _ _ Hk) as [[Ek Kn] | [K1 K2]].
      + rewrite <- Ek. destruct (hdk (b_rest s1)); try exact STEP. apply parse_text_block_w. exact St.
      + destruct (hdk (b_rest s1)); try discriminate K1; destruct (hdk (b_rest s2)); try discriminate K2; exact STEP.
  Qed.

  Lemma parse_block_w old :
    HJ (fun s1 s2 => Sw W s1 s2 /\ b_rest s1 = b_all s1 /\ (hdk (b_all s1) = KMeta -> no_nl (b_all s1)))
       (parse_block cfg old) (parse_block cfg old) (fun _ s1 _ s2 => Sw W s1 s2).
  Proof.
    intros s1 s2 (St & Ea & Hn). unfold parse_block. unfold bind at 1. unfold bind at 3. unfold peek. cbv beta iota.
    rewrite !peek_of_hdk. pose proof St as (Hr & Ha & He). pose proof (wsimb_hd _ _ _ Hr) as Hk.
    set (sel := fun k : tkind =>
                  match k with
                  | KMeta => with_recover (ev <-? metadata_entry cfg ;;
                                           match ev with
                                           | EvMetadata key _ => if meta_kept cfg old key then ret (Some ev) else ret None
                                           | _ => ret (Some ev)
                                           end)
                  | KEq => with_recover (section_p cfg)
                  | _ => ret None
                  end).
    set (kk := fun mos : option pevent => match mos with Some ev => event ev | None => parse_multiline_block cfg end).
    change (match (mos <- sel (hdk (b_rest s1)) ;; kk mos) s1, (mos <- sel (hdk (b_rest s2)) ;; kk mos) s2 with
            | Done (_, z1), Done (_, z2) => Sw W z1 z2 | _, _ => True end).
    assert (ML : match parse_multiline_block cfg s1, parse_multiline_block cfg s2 with
                 | Done (_, z1), Done (_, z2) => Sw W z1 z2 | _, _ => True end).
    { apply parse_multiline_block_w. split; assumption. }
    assert (KK : forall (T : TR) (m1 m2 : M (option pevent)),
               WL T (orel erel) m1 m2 W -> (forall l1 l2, T l1 l2 -> W l1 l2) -> Sw T s1 s2 ->
               match (mos <- with_recover m1 ;; kk mos) s1, (mos <- with_recover m2 ;; kk mos) s2 with
               | Done (_, z1), Done (_, z2) => Sw W z1 z2 | _, _ => True end).
    { intros T m1 m2 Hm HT S0.
      pose proof (HJ_bind (fun y1 y2 => Sw T y1 y2 /\ y1 = s1 /\ y2 = s2)
                    (fun o1 y1 o2 y2 => orel erel o1 o2 /\ Sw W y1 y2 /\
                       (o1 = None -> b_rest y1 = b_rest s1 /\ b_rest y2 = b_rest s2 /\ b_all y1 = b_all s1 /\ b_all y2 = b_all s2))
                    (fun _ z1 _ z2 => Sw W z1 z2) (with_recover m1) (with_recover m2) kk kk
                    (WJ_with_recover_keep T erel m1 m2 s1 s2 Hm HT)) as X.
      apply X; [|split; [exact S0 | split; reflexivity]]. clear X.
      intros [e1|] [e2|] y1 y2 (Xo & Xs & Xk); cbn [orel] in Xo; try contradiction; unfold kk.
      - cbn. destruct Xs as (Xr & Xa & Xe). split; [exact Xr|]. split; [exact Xa|]. cbn. apply evw_cons; assumption.
      - destruct (Xk eq_refl) as (Y1 & Y2 & Y3 & Y4). apply parse_multiline_block_w. split; [exact Xs|]. rewrite Y1, Y3. exact Ea. }
    destruct (kcl_cases _ _ Hk) as [[Ek Kn] | [K1 K2]].
    - rewrite <- Ek. destruct (hdk (b_rest s1)) eqn:Kh; try (unfold sel; rewrite !bind_ret_none; exact ML).
      + (* metadata *)
        unfold sel. apply (KK Wn).
        * eapply WL_obindM; [apply metadata_entry_w | | auto].
          intros e1 e2 Hm. destruct e1, e2; cbn in Hm; try contradiction.
          destruct Hm as [Hkk Hv]. unfold meta_kept, is_config_key. rewrite (trel_outer _ _ Hkk).
          match goal with |- context [if ?c then _ else _] => destruct c end;
            apply WL_ret; cbn; [|exact I]. apply (mdw_erel (EvMetadata _ _) (EvMetadata _ _)). split; assumption.
        * intros l1 l2 [X _]. exact X.
        * split; [split; [exact Hr|]| split; assumption]. rewrite Ea. apply Hn. rewrite <- Ea. exact Kh.
      + unfold sel. apply (KK W); [apply section_w | auto | exact St].
    - assert (X1 : sel (hdk (b_rest s1)) = ret None) by (destruct (hdk (b_rest s1)); try discriminate K1; reflexivity).
      assert (X2 : sel (hdk (b_rest s2)) = ret None) by (destruct (hdk (b_rest s2)); try discriminate K2; reflexivity).
      rewrite X1, X2, !bind_ret_none. exact ML.
  Qed.

  Theorem block_w blk1 blk2 evs1 evs2 old :
    W blk1 blk2 -> evw evs1 evs2 -> (hdk blk1 = KMeta -> no_nl blk1) ->
    OR evw (run_block blk1 evs1 (parse_block cfg old)) (run_block blk2 evs2 (parse_block cfg old)).
  Proof.
    intros Hb He Hn. unfold run_block.
    destruct blk1 as [|x1 q1]; [exact I|].
    pose proof (wsimb_ne _ _ _ Hb ltac:(discriminate)) as N2. destruct blk2 as [|x2 q2]; [contradiction N2; reflexivity|].
    set (s1 := {| b_all := x1 :: q1; b_done := []; b_rest := x1 :: q1; b_evs := evs1 |}).
    set (s2 := {| b_all := x2 :: q2; b_done := []; b_rest := x2 :: q2; b_evs := evs2 |}).
    assert (S0 : Sw W s1 s2 /\ b_rest s1 = b_all s1 /\ (hdk (b_all s1) = KMeta -> no_nl (b_all s1))).
    { split; [split; [exact Hb | split; [exact (wsimb_ballr _ _ _ Hb) | exact He]] | split; [reflexivity | exact Hn]]. }
    pose proof (parse_block_w old s1 s2 S0) as X. unfold OR.
    destruct (parse_block cfg old s1) as [[u1 z1]|]; [|exact I].
    destruct (parse_block cfg old s2) as [[u2 z2]|]; [|destruct (b_rest z1); exact I].
    destruct X as (Hr & _ & Hev).
    destruct (b_rest z1), (b_rest z2); try exact I. exact Hev.
  Qed.
End Step.
