(* Concrete instances for property C12: the hypotheses of the theorems of Properties/C12.v are
   satisfiable (one answer of each kind, a declined value, a printed form).  These name concrete
   answers and therefore depend on the constants of Gen/FracConsts.v as they were when this file was
   written (DENOMS = 2,3,4,8,10,16; FIX_RATIO = 1e4); checks/c12.py builds this file separately and
   reports the result in the evidence without treating a failure as a violation of C12. *)
From Coq Require Import List NArith ZArith QArith.
From CL Require Import Base.Chars Gen.FracConsts Model.Fraction.
Import ListNotations.
Local Open Scope Q_scope.

Example C12_ex_fraction :
  new_approx cfgF (Fin (13 # 10)) (Fin (5 # 100)) 4 4294967295 = Done (Some (Fraction 1 1 3 (-1 # 30))).
Proof. vm_compute. reflexivity. Qed.
Example C12_ex_rounded :
  new_approx cfgF (Fin (299 # 100)) (Fin (5 # 100)) 4 4294967295 = Done (Some (Fraction 3 0 1 (-1 # 100))).
Proof. vm_compute. reflexivity. Qed.
Example C12_ex_regular :
  new_approx cfgF (Fin 7) (Fin (5 # 100)) 4 4294967295 = Done (Some (Regular 7)).
Proof. vm_compute. reflexivity. Qed.
Example C12_ex_declined :
  new_approx cfgF (Fin (13 # 10)) (Fin (1 # 1000)) 4 4294967295 = Done None.
Proof. vm_compute. reflexivity. Qed.
Example C12_ex_display :
  read_display (display (fun _ => [48%N]) (fun _ => []) false (Fraction 2 1 2 0)) = Some (2 + 1 / 2).
Proof. vm_compute. reflexivity. Qed.
