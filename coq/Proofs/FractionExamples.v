(* Concrete instances for property C12: the hypotheses of the theorems of Properties/C12.v are
   satisfiable (one answer of each kind, a declined value, a printed form).  These name concrete
   answers and therefore depend on the constants of Gen/FracConsts.v as they were when this file was
   written (DENOMS = 2,3,4,8,10,16; FIX_RATIO = 1e4); checks/c12.py builds this file separately and
   reports the result in the evidence without treating a failure as a violation of C12. *)
From Coq Require Import List NArith ZArith QArith.
From CL Require Import Base.Chars Gen.FracConsts Model.Fraction.
Import ListNotations.
Local Open Scope Q_scope.

Example C12_ex_fraction :
  new_approx cfgF (Fin (13 # 10)) (Fin (5 # 100)) 4 4294967295 = Done (Some (Fraction 1 1 3 (-1 # 30))).
Proof. vm_compute. reflexivity. Qed.
Example C12_ex_rounded :
  new_approx cfgF (Fin (299 # 100)) (Fin (5 # 100)) 4 4294967295 = Done (Some (Fraction 3 0 1 (-1 # 100))).
Proof. vm_compute. reflexivity. Qed.
Example C12_ex_regular :
  new_approx cfgF (Fin 7) (Fin (5 # 100)) 4 4294967295 = Done (Some (Regular 7)).
Proof. vm_compute. reflexivity. Qed.
Example C12_ex_declined :
  new_approx cfgF (Fin (13 # 10)) (Fin (1 # 1000)) 4 4294967295 = Done None.
Proof. vm_compute. reflexivity. Qed.
Example C12_ex_display :
  read_display (display (fun _ => [48%N]) (fun _ => []) false (Fraction 2 1 2 0)) = Some (2 + 1 / 2).
Proof. vm_compute. reflexivity. Qed.

(* approximating again (Number::try_approx on a stored fraction, theorems C12_try_approx_exact etc. of Properties/C12.v):
   0.26 is stored as 1/4 with error 1/100 and stays that through a second call with the same limits, a
   declined call (accuracy 0.1 %, no whole part allowed) and a call with other limits (1/2 - 0.24);
   "2" with error 0.08 stays, then becomes 2 1/16 + 0.0175.  Errors are shown as the model computes them,
   not reduced. *)
Example C12_ex_try_again :
  try_approx_seq cfgF (Regular (26 # 100))
    [(Fin (5 # 100), 4%N, 4294967295%N); (Fin (5 # 100), 4%N, 4294967295%N); (Fin (1 # 1000), 16%N, 0%N); (Fin 1, 2%N, 5%N)]
  = Done [(Fraction 0 1 4 (4 # 400), true); (Fraction 0 1 4 (64 # 6400), true);
          (Fraction 0 1 4 (64 # 6400), false); (Fraction 0 1 2 (-12288 # 51200), true)].
Proof. vm_compute. reflexivity. Qed.
Example C12_ex_try_again_rounded :
  try_approx_seq cfgF (Fraction 2 0 1 (8 # 100)) [(Fin (5 # 100), 4%N, 4294967295%N); (Fin (1 # 100), 16%N, 4294967295%N)]
  = Done [(Fraction 2 0 1 (8 # 100), true); (Fraction 2 1 16 (28 # 1600), true)].
Proof. vm_compute. reflexivity. Qed.
(* a units-file layer with accuracy 2 and max_denominator 200 is clamped to 1 and 16; try_fraction on a
   range stops at the first end that could be approximated *)
Example C12_ex_define :
  define {| fh_enabled := Some true; fh_accuracy := Some (Fin 2); fh_max_den := Some 200%N; fh_max_whole := None |}
  = {| fc_enabled := true; fc_accuracy := Fin 1; fc_max_den := 16; fc_max_whole := 4294967295 |}.
Proof. vm_compute. reflexivity. Qed.
Example C12_ex_try_fraction_range :
  try_fraction cfgF
    (define {| fh_enabled := Some true; fh_accuracy := Some (Fin 2); fh_max_den := Some 200%N; fh_max_whole := None |})
    (VRange (Fraction 0 1 4 (1 # 100)) (Regular (3 # 2)))
  = Done (VRange (Fraction 0 1 4 (16 # 1600)) (Regular (3 # 2)), true).
Proof. vm_compute. reflexivity. Qed.
