(* Proofs about Model/Convert.v for C09 (statements are restated in Properties/C09.v). *)
From Coq Require Import Lia Setoid Morphisms.
From CL Require Import Base.StrLemmas Model.Convert Model.Standards Gen.UnitsToml.
Open Scope Q_scope.

(* ------------------------------------------------------------------ algebra *)

Lemma convert_q_back v a b :
  ~ u_ratio a == 0 -> ~ u_ratio b == 0 -> convert_q (convert_q v a b) b a == v.
Proof. intros Ha Hb. unfold convert_q. field. split; assumption. Qed.

Lemma convert_q_trans v a b c :
  ~ u_ratio b == 0 -> ~ u_ratio c == 0 ->
  convert_q (convert_q v a b) b c == convert_q v a c.
Proof. intros Hb Hc. unfold convert_q. field. split; assumption. Qed.

Lemma to_base_convert v a b :
  ~ u_ratio b == 0 -> to_base b (convert_q v a b) == to_base a v.
Proof. intros Hb. unfold to_base, convert_q. field. assumption. Qed.

Lemma to_base_compat u x y : x == y -> to_base u x == to_base u y.
Proof. intro H. unfold to_base. rewrite H. reflexivity. Qed.

Lemma Qpos_nonzero x : 0 < x -> ~ x == 0.
Proof. intros H E. rewrite E in H. exact (Qlt_irrefl 0 H). Qed.

(* ------------------------------------------------------------------ well-formed converters *)

(* every ratio is positive *)
Definition ratios_pos (c : converter) : Prop := forall u, In u (all_units c) -> 0 < u_ratio u.

(* the symbol of every stored unit resolves to that unit *)
Definition index_consistent (c : converter) : Prop :=
  forall id u s, nth_error (all_units c) (N.to_nat id) = Some u -> symbol u = Done s ->
                 get_unit_id c s = Some id.

(* boolean versions, for concrete tables *)
Definition ratios_pos_b (c : converter) : bool :=
  forallb (fun u => Qlt_bool 0 (u_ratio u)) (all_units c).

Fixpoint index_consistent_from (c : converter) (us : list unit) (id : N) : bool :=
  match us with
  | [] => true
  | u :: r =>
      match symbol u with
      | Done s => match get_unit_id c s with
                  | Some id' => (id' =? id)%N
                  | None => false
                  end
      | Panic _ => true
      end && index_consistent_from c r (id + 1)%N
  end.
Definition index_consistent_b (c : converter) : bool := index_consistent_from c (all_units c) 0%N.

Lemma Qlt_bool_true a b : Qlt_bool a b = true -> a < b.
Proof.
  unfold Qlt_bool. intro H. apply negb_true_iff in H.
  destruct (Qlt_le_dec a b) as [L|L]; [exact L|].
  apply Qle_bool_iff in L. congruence.
Qed.

Lemma ratios_pos_sound c : ratios_pos_b c = true -> ratios_pos c.
Proof.
  unfold ratios_pos_b, ratios_pos. intros H u Hu.
  rewrite forallb_forall in H. apply Qlt_bool_true. exact (H u Hu).
Qed.

Lemma index_consistent_from_sound c us id0 :
  index_consistent_from c us id0 = true ->
  forall k u s, nth_error us k = Some u -> symbol u = Done s ->
                get_unit_id c s = Some (id0 + N.of_nat k)%N.
Proof.
  revert id0. induction us as [|x r IH]; intros id0 H k u s Hn Hs.
  - destruct k; discriminate.
  - cbn [index_consistent_from] in H. apply andb_true_iff in H as [H1 H2].
    destruct k as [|k].
    + cbn in Hn. injection Hn as ->. rewrite Hs in H1.
      destruct (get_unit_id c s) as [id'|]; [|discriminate].
      apply N.eqb_eq in H1. subst. f_equal. lia.
    + cbn [nth_error] in Hn. rewrite (IH _ H2 k u s Hn Hs). f_equal. lia.
Qed.

Lemma index_consistent_sound c : index_consistent_b c = true -> index_consistent c.
Proof.
  unfold index_consistent_b, index_consistent. intros H id u s Hn Hs.
  rewrite (index_consistent_from_sound c _ _ H _ u s Hn Hs). f_equal. lia.
Qed.

(* ------------------------------------------------------------------ tactics *)

Ltac ob H :=
  match type of H with
  | obind ?e _ = Done _ =>
      let x := fresh "x" in let E := fresh "E" in
      destruct e as [x|?] eqn:E; cbn [obind] in H; [|discriminate H]
  end.

Tactic Notation "obn" hyp(H) ident(x) ident(E) :=
  match type of H with
  | obind ?e _ = Done _ => destruct e as [x|?] eqn:E; cbn [obind] in H; [|discriminate H]
  end.

Lemma unit_at_spec c id r :
  unit_at c id = Done r -> fst r = id /\ nth_error (all_units c) (N.to_nat id) = Some (snd r).
Proof.
  unfold unit_at. destruct (nth_error _ _) as [u|]; [|discriminate].
  intro H. injection H as <-. split; reflexivity.
Qed.

Lemma unit_at_in c id r : unit_at c id = Done r -> In (snd r) (all_units c).
Proof. intro H. apply unit_at_spec in H as [_ H]. eapply nth_error_In; eauto. Qed.

(* r is a reference into the converter *)
Definition is_ref (c : converter) (r : uref) : Prop := unit_at c (fst r) = Done r.

Lemma unit_at_is_ref c id r : unit_at c id = Done r -> is_ref c r.
Proof. intro H. unfold is_ref. destruct (unit_at_spec _ _ _ H) as [-> _]. exact H. Qed.

Lemma is_ref_same c a b : is_ref c a -> is_ref c b -> fst a = fst b -> a = b.
Proof. unfold is_ref. intros Ha Hb E. rewrite E in Ha. congruence. Qed.

Lemma is_ref_in c r : is_ref c r -> In (snd r) (all_units c).
Proof. apply unit_at_in. Qed.

(* ------------------------------------------------------------------ conv_f64 keeps the amount *)

Lemma conv_f64_amount c v a b w :
  ratios_pos c -> is_ref c a -> is_ref c b ->
  conv_f64 v a b = Done w ->
  to_base (snd b) w == to_base (snd a) v /\
  ((fst a =? fst b)%N = false -> u_pq (snd a) = u_pq (snd b) /\ w = convert_q v (snd a) (snd b)).
Proof.
  intros Hp Ha Hb H. unfold conv_f64 in H. destruct (fst a =? fst b)%N eqn:E.
  - injection H as <-. apply N.eqb_eq in E. rewrite (is_ref_same c a b Ha Hb E).
    split; [reflexivity|discriminate].
  - unfold convert_f64 in H. destruct (pq_eqb _ _) eqn:P; [|discriminate].
    injection H as <-. split.
    + apply to_base_convert. apply Qpos_nonzero. apply Hp. apply (is_ref_in c b Hb).
    + intros _. split; [|reflexivity]. destruct (u_pq (snd a)), (u_pq (snd b)); try reflexivity; discriminate.
Qed.

Lemma pq_eqb_eq a b : pq_eqb a b = true <-> a = b.
Proof. destruct a, b; cbn; split; intro H; try reflexivity; try discriminate. Qed.

Lemma conv_f64_pq c v a b w :
  is_ref c a -> is_ref c b -> conv_f64 v a b = Done w -> u_pq (snd a) = u_pq (snd b).
Proof.
  intros Ha Hb H. unfold conv_f64 in H. destruct (fst a =? fst b)%N eqn:E.
  - apply N.eqb_eq in E. rewrite (is_ref_same c a b Ha Hb E). reflexivity.
  - unfold convert_f64 in H. destruct (pq_eqb _ _) eqn:P; [|discriminate]. apply pq_eqb_eq. exact P.
Qed.

Lemma convert_value_pq c v a b v' :
  is_ref c a -> is_ref c b -> convert_value v a b = Done v' -> u_pq (snd a) = u_pq (snd b).
Proof.
  intros Ha Hb H. destruct v as [n|s e]; cbn [convert_value] in H; ob H; eapply conv_f64_pq; eauto.
Qed.

(* amounts of ConvertValue *)
Definition cv_amount (u : unit) (v : cvalue) : Q * Q :=
  match v with CNum n => (to_base u n, to_base u n) | CRange s e => (to_base u s, to_base u e) end.
Definition pair_eq (a b : Q * Q) : Prop := fst a == fst b /\ snd a == snd b.

Lemma convert_value_amount c v a b v' :
  ratios_pos c -> is_ref c a -> is_ref c b ->
  convert_value v a b = Done v' -> pair_eq (cv_amount (snd b) v') (cv_amount (snd a) v).
Proof.
  intros Hp Ha Hb H. destruct v as [n|s e]; cbn [convert_value] in H.
  - ob H. injection H as <-. destruct (conv_f64_amount c _ _ _ _ Hp Ha Hb E) as [A _].
    split; exact A.
  - ob H. ob H. injection H as <-.
    destruct (conv_f64_amount c _ _ _ _ Hp Ha Hb E) as [A _].
    destruct (conv_f64_amount c _ _ _ _ Hp Ha Hb E0) as [B _].
    split; assumption.
Qed.

(* ------------------------------------------------------------------ best unit *)

Lemma find_in {A} (f : A -> bool) l x : find f l = Some x -> In x l.
Proof. intro H. apply find_some in H. tauto. Qed.

Lemma best_unit_spec c convs v u b :
  best_unit c convs v u = Done (Some b) ->
  is_ref c b /\ In (fst b) (map snd convs).
Proof.
  unfold best_unit. destruct convs as [|[th0 base_id] rest]; [discriminate|].
  intro H. ob H. ob H. ob H. injection H as <-.
  split; [eapply unit_at_is_ref; eauto|].
  destruct (unit_at_spec _ _ _ E1) as [-> _].
  destruct (find _ _) as [[th id]|] eqn:F.
  - apply find_in in F. apply in_rev in F. apply (in_map snd) in F. exact F.
  - left. reflexivity.
Qed.

Lemma convert_to_best_spec c v u s v' b :
  ratios_pos c -> is_ref c u ->
  convert_to_best c v u s = Done (Ok (v', b)) ->
  is_ref c b /\
  In (fst b) (map snd (conversions (best c (u_pq (snd u))) s)) /\
  pair_eq (cv_amount (snd b) v') (cv_amount (snd u) v) /\
  u_pq (snd b) = u_pq (snd u).
Proof.
  intros Hp Hu H. unfold convert_to_best in H. ob H. destruct x as [b'|]; [|discriminate].
  ob H. injection H as <- <-.
  destruct (best_unit_spec _ _ _ _ _ E) as [Hb Hin].
  split; [exact Hb|]. split; [exact Hin|].
  split; [eapply convert_value_amount; eauto|symmetry; eapply convert_value_pq; eauto].
Qed.

(* ------------------------------------------------------------------ Converter::convert *)

Lemma get_unit_key_spec c k r :
  get_unit c (CKey k) = Done (Ok r) -> is_ref c r /\ get_unit_id c k = Some (fst r).
Proof.
  cbn [get_unit]. destruct (get_unit_id c k) as [id|]; [|discriminate].
  intro H. ob H. injection H as <-. split; [eapply unit_at_is_ref; eauto|].
  destruct (unit_at_spec _ _ _ E) as [-> _]. reflexivity.
Qed.

(* what a successful key-to-key conversion of a number is *)
Lemma conv_convert_keys c v ka kb w ub :
  conv_convert c (CNum v) (CKey ka) (ToUnit (CKey kb)) = Done (Ok (CNum w, ub)) ->
  exists ua, get_unit c (CKey ka) = Done (Ok ua) /\ get_unit c (CKey kb) = Done (Ok ub) /\
             u_pq (snd ua) = u_pq (snd ub) /\ conv_f64 v ua ub = Done w.
Proof.
  unfold conv_convert. intro H. ob H. destruct x as [ua|e]; [|discriminate].
  ob H. destruct x as [tb|e]; [|discriminate]. ob H. destruct x as [v'|e]; [|discriminate].
  injection H as Hv Ht. subst v' tb. exists ua. split; [reflexivity|]. split; [reflexivity|].
  unfold convert_to_unit in E1. destruct (pq_eqb _ _) eqn:P; cbn [negb] in E1; [|discriminate].
  ob E1. injection E1 as Hx. subst x. cbn [convert_value] in E2. ob E2. injection E2 as Hx. subst x.
  split; [apply pq_eqb_eq; exact P|reflexivity].
Qed.

Lemma conv_convert_keys_run c v ka kb ua ub w :
  get_unit c (CKey ka) = Done (Ok ua) -> get_unit c (CKey kb) = Done (Ok ub) ->
  u_pq (snd ua) = u_pq (snd ub) -> conv_f64 v ua ub = Done w ->
  conv_convert c (CNum v) (CKey ka) (ToUnit (CKey kb)) = Done (Ok (CNum w, ub)).
Proof.
  intros Ha Hb P F. unfold conv_convert. rewrite Ha. cbn [obind]. rewrite Hb. cbn [obind].
  unfold convert_to_unit. apply pq_eqb_eq in P. rewrite P. cbn [negb convert_value].
  rewrite F. reflexivity.
Qed.

Lemma conv_f64_total a b v :
  u_pq (snd a) = u_pq (snd b) ->
  conv_f64 v a b = Done (if (fst a =? fst b)%N then v else convert_q v (snd a) (snd b)).
Proof.
  intro P. unfold conv_f64, convert_f64. destruct (fst a =? fst b)%N; [reflexivity|].
  apply pq_eqb_eq in P. rewrite P. reflexivity.
Qed.

Lemma there_and_back c v ka kb w ub :
  ratios_pos c ->
  conv_convert c (CNum v) (CKey ka) (ToUnit (CKey kb)) = Done (Ok (CNum w, ub)) ->
  exists v' ua, conv_convert c (CNum w) (CKey kb) (ToUnit (CKey ka)) = Done (Ok (CNum v', ua))
                /\ v' == v.
Proof.
  intros Hp H. destruct (conv_convert_keys _ _ _ _ _ _ H) as (ua & Ha & Hb & P & F).
  destruct (get_unit_key_spec _ _ _ Ha) as [Ra _]. destruct (get_unit_key_spec _ _ _ Hb) as [Rb _].
  pose proof (conv_f64_total ub ua w (eq_sym P)) as B.
  eexists. exists ua. split.
  - eapply conv_convert_keys_run; eauto.
  - rewrite (conv_f64_total ua ub v P) in F. injection F as <-.
    rewrite (N.eqb_sym (fst ub) (fst ua)). destruct (fst ua =? fst ub)%N; [reflexivity|].
    apply convert_q_back; apply Qpos_nonzero; apply Hp; eapply is_ref_in; eauto.
Qed.

Lemma via_third c v ka kb kc w ub x uc :
  ratios_pos c ->
  conv_convert c (CNum v) (CKey ka) (ToUnit (CKey kb)) = Done (Ok (CNum w, ub)) ->
  conv_convert c (CNum w) (CKey kb) (ToUnit (CKey kc)) = Done (Ok (CNum x, uc)) ->
  exists y, conv_convert c (CNum v) (CKey ka) (ToUnit (CKey kc)) = Done (Ok (CNum y, uc)) /\ y == x.
Proof.
  intros Hp H1 H2.
  destruct (conv_convert_keys _ _ _ _ _ _ H1) as (ua & Ha & Hb & P1 & F1).
  destruct (conv_convert_keys _ _ _ _ _ _ H2) as (ub' & Hb' & Hc & P2 & F2).
  rewrite Hb in Hb'. injection Hb' as <-.
  destruct (get_unit_key_spec _ _ _ Ha) as [Ra _]. destruct (get_unit_key_spec _ _ _ Hb) as [Rb _].
  destruct (get_unit_key_spec _ _ _ Hc) as [Rc _].
  assert (P3 : u_pq (snd ua) = u_pq (snd uc)) by congruence.
  eexists. split; [eapply conv_convert_keys_run; eauto; apply (conv_f64_total ua uc v P3)|].
  (* compare amounts in the base unit *)
  assert (Nc : ~ u_ratio (snd uc) == 0) by (apply Qpos_nonzero, Hp; eapply is_ref_in; eauto).
  destruct (conv_f64_amount c _ _ _ _ Hp Ra Rb F1) as [A1 _].
  destruct (conv_f64_amount c _ _ _ _ Hp Rb Rc F2) as [A2 _].
  destruct (conv_f64_amount c _ _ _ _ Hp Ra Rc (conv_f64_total ua uc v P3)) as [A3 _].
  assert (E : to_base (snd uc) (if (fst ua =? fst uc)%N then v else convert_q v (snd ua) (snd uc))
              == to_base (snd uc) x).
  { rewrite A3, A2, A1. reflexivity. }
  unfold to_base in E.
  apply Qmult_inj_r in E; [|exact Nc].
  apply (Qplus_inj_r _ _ (u_diff (snd uc))). exact E.
Qed.

(* ------------------------------------------------------------------ quantities: amounts *)

(* the amount of a quantity: both ends of its value in the base unit of its (known) unit *)
Definition q_amount (c : converter) (q : quantity) : option (Q * Q) :=
  match q_unit q with
  | None => None
  | Some k =>
      match get_unit_id c k with
      | None => None
      | Some id =>
          match nth_error (all_units c) (N.to_nat id) with
          | None => None
          | Some u =>
              match q_value q with
              | VNumber n => Some (to_base u (num_value n), to_base u (num_value n))
              | VRange s e => Some (to_base u (num_value s), to_base u (num_value e))
              | VText _ => None
              end
          end
      end
  end.

Definition amt_eq (a b : option (Q * Q)) : Prop :=
  match a, b with
  | Some x, Some y => pair_eq x y
  | None, None => True
  | _, _ => False
  end.

Lemma amt_eq_refl a : amt_eq a a.
Proof. destruct a as [[x y]|]; cbn; [split; reflexivity|exact I]. Qed.

Lemma amt_eq_trans a b c : amt_eq a b -> amt_eq b c -> amt_eq a c.
Proof.
  destruct a as [[a1 a2]|], b as [[b1 b2]|], c as [[c1 c2]|]; cbn; try tauto.
  unfold pair_eq; cbn. intros [H1 H2] [H3 H4]. split; etransitivity; eauto.
Qed.

(* the value part of an amount *)
Definition val_amount (u : unit) (v : value) : option (Q * Q) :=
  match v with
  | VNumber n => Some (to_base u (num_value n), to_base u (num_value n))
  | VRange s e => Some (to_base u (num_value s), to_base u (num_value e))
  | VText _ => None
  end.

Lemma unit_info_spec c q u :
  unit_info c q = Done (Some u) ->
  exists k, q_unit q = Some k /\ get_unit_id c k = Some (fst u) /\ is_ref c u.
Proof.
  unfold unit_info, find_unit. destruct (q_unit q) as [k|]; [|discriminate].
  destruct (get_unit_id c k) as [id|] eqn:G; [|discriminate].
  intro H. ob H. injection H as <-. exists k. split; [reflexivity|].
  destruct (unit_at_spec _ _ _ E) as [-> _]. split; [exact G|]. eapply unit_at_is_ref; eauto.
Qed.

Lemma q_amount_known c q u :
  unit_info c q = Done (Some u) -> q_amount c q = val_amount (snd u) (q_value q).
Proof.
  intro H. destruct (unit_info_spec _ _ _ H) as (k & Hk & Hid & Hr).
  unfold q_amount. rewrite Hk, Hid. unfold is_ref in Hr. apply unit_at_spec in Hr as [_ Hn].
  rewrite Hn. reflexivity.
Qed.

(* a quantity whose unit string is the symbol of a stored unit has that unit *)
Lemma q_amount_symbol c u s v :
  index_consistent c -> is_ref c u -> symbol (snd u) = Done s ->
  unit_info c {| q_value := v; q_unit := Some s |} = Done (Some u).
Proof.
  intros Hi Hr Hs. unfold unit_info, find_unit. cbn [q_unit].
  pose proof Hr as Hr'. unfold is_ref in Hr'. apply unit_at_spec in Hr' as [_ Hn].
  rewrite (Hi _ _ _ Hn Hs). unfold is_ref in Hr. rewrite Hr. reflexivity.
Qed.

Section WithApprox.
  Variable approx : Q -> frac_cfg -> outcome (option number).
  (* C12_exact, as a hypothesis: an approximation has exactly the value it approximates,
     the recorded error included *)
  Hypothesis approx_exact : forall v cfg n, approx v cfg = Done (Some n) -> num_value n == v.

  Lemma try_approx_value n cfg n' b :
    try_approx approx n cfg = Done (n', b) -> num_value n' == num_value n.
  Proof.
    unfold try_approx. intro H. ob H. destruct x as [f|].
    - injection H as <- _. eapply approx_exact; eauto.
    - injection H as <- _. reflexivity.
  Qed.

  Lemma try_fraction_spec c q q' b :
    try_fraction approx c q = Done (q', b) ->
    q_unit q' = q_unit q /\
    match q_value q, q_value q' with
    | VNumber n, VNumber n' => num_value n' == num_value n
    | VRange s e, VRange s' e' => num_value s' == num_value s /\ num_value e' == num_value e
    | VText t, VText t' => q' = q
    | _, _ => False
    end.
  Proof.
    unfold try_fraction. intro H. ob H.
    assert (Same : forall b0, Done (q, b0) = Done (q', b) ->
      q_unit q' = q_unit q /\
      match q_value q, q_value q' with
      | VNumber n, VNumber n' => num_value n' == num_value n
      | VRange s e, VRange s' e' => num_value s' == num_value s /\ num_value e' == num_value e
      | VText t, VText t' => q' = q
      | _, _ => False
      end).
    { intros b0 HH. injection HH as <- _. split; [reflexivity|].
      destruct (q_value q); try split; reflexivity. }
    destruct x as [u|]; [|eapply Same; eauto].
    ob H. destruct (negb (fc_enabled x)); [eapply Same; eauto|].
    destruct (q_value q) as [n|s e|t] eqn:V.
    - ob H. destruct x0 as [n' b']. injection H as <- _. cbn [q_unit q_value fst].
      split; [reflexivity|]. eapply try_approx_value; eauto.
    - ob H. destruct x0 as [s' bs]. cbn [snd fst] in H. destruct bs.
      + injection H as <- _. cbn [q_unit q_value]. split; [reflexivity|].
        split; [eapply try_approx_value; eauto|reflexivity].
      + ob H. destruct x0 as [e' be]. injection H as <- _. cbn [q_unit q_value fst].
        split; [reflexivity|]. split; eapply try_approx_value; eauto.
    - injection H as <- _. rewrite V. split; reflexivity.
  Qed.

  Lemma try_fraction_amount c q q' b :
    try_fraction approx c q = Done (q', b) -> amt_eq (q_amount c q') (q_amount c q).
  Proof.
    intro H. apply try_fraction_spec in H as [Hu Hv]. unfold q_amount. rewrite Hu.
    destruct (q_unit q) as [k|]; [|exact I]. destruct (get_unit_id c k) as [id|]; [|exact I].
    destruct (nth_error _ _) as [u|]; [|exact I].
    destruct (q_value q) as [n|s e|t], (q_value q') as [n'|s' e'|t']; try contradiction; cbn.
    - split; cbn; apply to_base_compat; exact Hv.
    - destruct Hv. split; cbn; apply to_base_compat; assumption.
    - exact I.
  Qed.

  Lemma try_approx_false n cfg n' : try_approx approx n cfg = Done (n', false) -> n' = n.
  Proof.
    unfold try_approx. intro H. obn H o Eo. destruct o; [discriminate|].
    injection H as H1. congruence.
  Qed.

  Lemma try_fraction_false c q q' : try_fraction approx c q = Done (q', false) -> q' = q.
  Proof.
    unfold try_fraction. intro H. obn H ou Eu.
    destruct ou as [u0|]; [|injection H as <-; reflexivity].
    obn H cfg Ec. destruct (negb (fc_enabled cfg)); [injection H as <-; reflexivity|].
    destruct q as [v un]. cbn [q_value q_unit] in H. destruct v as [n|s e|tx].
    - obn H r Er. destruct r as [n' b']. cbn [fst snd] in H. injection H as H1 H2. subst.
      apply try_approx_false in Er. subst. reflexivity.
    - obn H rs Es. destruct rs as [s' bs]. cbn [fst snd] in H. destruct bs; [discriminate|].
      obn H re Ee. destruct re as [e' be]. cbn [fst snd] in H. injection H as H1 H2. subst.
      apply try_approx_false in Es. apply try_approx_false in Ee. subst. reflexivity.
    - injection H as <-. reflexivity.
  Qed.

  (* min_by returns one of the candidates *)
  Lemma min_cand_in l x : min_cand l = Some x -> In x l.
  Proof.
    unfold min_cand. destruct l as [|a r]; [discriminate|]. intro H. injection H as <-.
    revert a. induction r as [|y r IH]; intro a; cbn [fold_left]; [left; reflexivity|].
    destruct (key_gt (fst a) (fst y)).
    - destruct (IH y) as [E|I]; [right; left; exact E|right; right; exact I].
    - destruct (IH a) as [E|I]; [left; exact E|right; right; exact I].
  Qed.

  (* every candidate is a stored unit with the converted value, exactly *)
  Lemma candidates_spec c value u convs l :
    ratios_pos c -> is_ref c u ->
    candidates approx c value u convs = Done l ->
    forall n nu, In (n, nu) l ->
      is_ref c nu /\ In (fst nu) (map snd convs) /\
      to_base (snd nu) (num_value n) == to_base (snd u) value /\
      u_pq (snd nu) = u_pq (snd u).
  Proof.
    intros Hp Hu. revert l. induction convs as [|[th id] r IH]; intros l H n nu Hin.
    - injection H as <-. destruct Hin.
    - cbn [candidates] in H. ob H.
      assert (Rest : forall l', candidates approx c value u r = Done l' -> In (n, nu) l' ->
                is_ref c nu /\ In (fst nu) (map snd ((th, id) :: r)) /\
                to_base (snd nu) (num_value n) == to_base (snd u) value /\
                u_pq (snd nu) = u_pq (snd u)).
      { intros l' Hl' Hin'. destruct (IH _ Hl' n nu Hin') as (A & B & C & D).
        split; [exact A|]. split; [right; exact B|]. split; [exact C|exact D]. }
      destruct (negb (fc_enabled _)); [eapply Rest; eauto|].
      ob H. ob H. ob H. destruct x1 as [n0|].
      + injection H as <-. destruct Hin as [Heq|Hin]; [|eapply Rest; eauto].
        injection Heq as <- <-. pose proof (unit_at_is_ref _ _ _ E) as Rx.
        split; [exact Rx|]. split.
        * left. destruct (unit_at_spec _ _ _ E) as [-> _]. reflexivity.
        * split; [|symmetry; eapply conv_f64_pq; eauto].
          destruct (conv_f64_amount c _ _ _ _ Hp Hu Rx E0) as [A _].
          rewrite <- A. apply to_base_compat. eapply approx_exact; eauto.
      + injection H as <-. eapply Rest; eauto.
  Qed.

  (* fit_fraction: the result, the amount, the unit chosen, and the frame on error *)
  Lemma fit_fraction_spec c q u t q' r :
    ratios_pos c -> index_consistent c ->
    unit_info c q = Done (Some u) ->
    fit_fraction approx c q u t = Done (q', r) ->
    amt_eq (q_amount c q') (q_amount c q) /\
    (forall e, r = Err e -> q' = q /\ exists tx, q_value q = VText tx) /\
    (r = Ok false -> q' = q) /\
    (r = Ok true -> forall sys, t = Some sys ->
       exists nu, unit_info c q' = Done (Some nu) /\ u_pq (snd nu) = u_pq (snd u) /\
                  In (fst nu) (map snd (conversions (best c (u_pq (snd u))) sys))).
  Proof.
    intros Hp Hi Hu H. unfold fit_fraction in H.
    destruct (unit_info_spec _ _ _ Hu) as (k & Hk & Hid & Hr).
    destruct t as [sys|].
    2:{ ob H. injection H as <- <-. destruct x as [q1 b]. cbn [fst snd].
        split; [eapply try_fraction_amount; eauto|].
        split; [intros e He; discriminate|]. split; [|intros _ sys Hs; discriminate].
        intro Hb. injection Hb as ->.
        eapply try_fraction_false; eauto. }
    destruct (q_value q) as [n|s e|tx] eqn:V.
    3:{ injection H as <- <-. split; [apply amt_eq_refl|].
        split; [intros e _; split; [reflexivity|eexists; reflexivity]|].
        split; [reflexivity|discriminate]. }
    - (* number *)
      obn H cands Ec. destruct (min_cand cands) as [[nv nu]|] eqn:M.
      2:{ injection H as <- <-. split; [apply amt_eq_refl|]. split; [discriminate|].
          split; [reflexivity|discriminate]. }
      cbn [obind] in H. obn H sy Es. injection H as <- <-.
      apply min_cand_in in M. destruct (candidates_spec _ _ _ _ _ Hp Hr Ec _ _ M) as (Rn & Hin & A & Hpq).
      pose proof (q_amount_symbol c nu sy (VNumber nv) Hi Rn Es) as Hu'.
      split.
      + rewrite (q_amount_known _ _ _ Hu'), (q_amount_known _ _ _ Hu). rewrite V. cbn.
        split; cbn; exact A.
      + split; [discriminate|]. split; [discriminate|].
        intros _ sys' Hs. injection Hs as <-. exists nu. split; [exact Hu'|]. split; [exact Hpq|exact Hin].
    - (* range *)
      obn H cands Ec. destruct (min_cand cands) as [[nv nu]|] eqn:M.
      2:{ injection H as <- <-. split; [apply amt_eq_refl|]. split; [discriminate|].
          split; [reflexivity|discriminate]. }
      obn H v' Ev. obn H sy Es. injection H as <- <-.
      obn Ev e' Ee. obn Ev cfg Ecfg. obn Ev o Eo. injection Ev as <-.
      apply min_cand_in in M. destruct (candidates_spec _ _ _ _ _ Hp Hr Ec _ _ M) as (Rn & Hin & A & Hpq).
      pose proof (q_amount_symbol c nu sy
                    (VRange nv match o with Some f => f | None => Regular e' end) Hi Rn Es) as Hu'.
      split.
      + rewrite (q_amount_known _ _ _ Hu'), (q_amount_known _ _ _ Hu). rewrite V. cbn.
        split; cbn; [exact A|].
        destruct (conv_f64_amount c _ _ _ _ Hp Hr Rn Ee) as [B _]. rewrite <- B.
        apply to_base_compat. destruct o as [f|]; [eapply approx_exact; eauto|reflexivity].
      + split; [discriminate|]. split; [discriminate|].
        intros _ sys' Hs. injection Hs as <-. exists nu. split; [exact Hu'|]. split; [exact Hpq|exact Hin].
  Qed.
End WithApprox.

(* ------------------------------------------------------------------ convert_impl and fit *)

(* targets given as unit references must be references into the converter *)
Definition to_ok (c : converter) (to : cto) : Prop :=
  match to with ToUnit (CUnit r) => is_ref c r | _ => True end.

(* the system whose best list the target names *)
Definition target_system (c : converter) (u : unit) (to : cto) : option system :=
  match to with
  | ToBest s => Some s
  | ToSame => Some (match u_sys u with Some s => s | None => default_system c end)
  | ToUnit _ => None
  end.

Lemma conv_convert_spec c v u to nv nu :
  ratios_pos c -> is_ref c u -> to_ok c to ->
  conv_convert c v (CUnit u) to = Done (Ok (nv, nu)) ->
  is_ref c nu /\ pair_eq (cv_amount (snd nu) nv) (cv_amount (snd u) v) /\
  u_pq (snd nu) = u_pq (snd u) /\
  (forall s, target_system c (snd u) to = Some s ->
     In (fst nu) (map snd (conversions (best c (u_pq (snd u))) s))) /\
  (forall k, to = ToUnit (CKey k) -> get_unit_id c k = Some (fst nu)).
Proof.
  intros Hp Hu Hto H. unfold conv_convert in H. cbn [get_unit obind] in H.
  destruct to as [|s|t].
  - destruct (convert_to_best_spec _ _ _ _ _ _ Hp Hu H) as (A & B & C & D).
    split; [exact A|]. split; [exact C|]. split; [exact D|].
    split; [|discriminate]. intros s Hs. injection Hs as <-. exact B.
  - destruct (convert_to_best_spec _ _ _ _ _ _ Hp Hu H) as (A & B & C & D).
    split; [exact A|]. split; [exact C|]. split; [exact D|].
    split; [|discriminate]. intros s' Hs. injection Hs as <-. exact B.
  - obn H rt Et. destruct rt as [tr|e]; [|discriminate]. obn H rv Ev.
    destruct rv as [v'|e]; [|discriminate]. injection H as <- <-.
    assert (Rt : is_ref c tr /\ forall k, t = CKey k -> get_unit_id c k = Some (fst tr)).
    { destruct t as [r|k].
      - cbn in Et. injection Et as <-. split; [exact Hto|discriminate].
      - destruct (get_unit_key_spec _ _ _ Et) as [A B]. split; [exact A|].
        intros k' Hk. injection Hk as <-. exact B. }
    destruct Rt as [Rt Rk]. unfold convert_to_unit in Ev.
    destruct (pq_eqb _ _) eqn:P; cbn [negb] in Ev; [|discriminate].
    obn Ev v2 Ev2. injection Ev as <-.
    split; [exact Rt|]. split; [eapply convert_value_amount; eauto|].
    split; [symmetry; apply pq_eqb_eq; exact P|]. split; [discriminate|].
    intros k Hk. injection Hk as ->. apply Rk. reflexivity.
Qed.

Lemma q_amount_value_of c u s nv :
  index_consistent c -> is_ref c u -> symbol (snd u) = Done s ->
  q_amount c {| q_value := value_of nv; q_unit := Some s |} = Some (cv_amount (snd u) nv).
Proof.
  intros Hi Hr Hs. rewrite (q_amount_known _ _ _ (q_amount_symbol c u s _ Hi Hr Hs)).
  destruct nv; reflexivity.
Qed.

Section WithApprox2.
  Variable approx : Q -> frac_cfg -> outcome (option number).
  Hypothesis approx_exact : forall v cfg n, approx v cfg = Done (Some n) -> num_value n == v.

  (* a fitted / fraction-fitted numeric quantity never reports an error *)
  Lemma fit_fraction_numeric c q u t q' r :
    (forall tx, q_value q <> VText tx) ->
    fit_fraction approx c q u t = Done (q', r) -> exists b, r = Ok b.
  Proof.
    intros Hn H. unfold fit_fraction in H. destruct t as [sys|].
    2:{ obn H x Ex. injection H as _ <-. eexists; reflexivity. }
    destruct (q_value q) as [n|s e|tx] eqn:V; [| |exfalso; eapply Hn; eauto].
    - obn H cands Ec. destruct (min_cand cands) as [[nv nu]|].
      + cbn [obind] in H. obn H sy Es. injection H as _ <-. eexists; reflexivity.
      + injection H as _ <-. eexists; reflexivity.
    - obn H cands Ec. destruct (min_cand cands) as [[nv nu]|].
      + obn H v' Ev. obn H sy Es. injection H as _ <-. eexists; reflexivity.
      + injection H as _ <-. eexists; reflexivity.
  Qed.

  Lemma value_of_not_text nv tx : value_of nv <> VText tx.
  Proof. destruct nv; discriminate. Qed.

  (* ScaledQuantity::convert: error => unchanged; success => amount kept, unit as requested *)
  Lemma convert_impl_spec c q to q' r :
    ratios_pos c -> index_consistent c -> to_ok c to ->
    convert_impl approx c q to = Done (q', r) ->
    (forall e, r = Err e -> q' = q) /\
    (r = Ok tt ->
       exists u nu, unit_info c q = Done (Some u) /\ unit_info c q' = Done (Some nu) /\
         (exists a, q_amount c q = Some a) /\
         amt_eq (q_amount c q') (q_amount c q) /\
         u_pq (snd nu) = u_pq (snd u) /\
         (forall s, target_system c (snd u) to = Some s ->
            In (fst nu) (map snd (conversions (best c (u_pq (snd u))) s))) /\
         (forall k, to = ToUnit (CKey k) -> get_unit_id c k = Some (fst nu))).
  Proof.
    intros Hp Hi Hto H. unfold convert_impl in H.
    destruct (q_unit q) as [k|] eqn:Hk.
    2:{ injection H as <- <-. split; [reflexivity|discriminate]. }
    obn H ou Eu. destruct ou as [u|].
    2:{ injection H as <- <-. split; [reflexivity|discriminate]. }
    destruct (cvalue_of (q_value q)) as [v|e0] eqn:Hv.
    2:{ injection H as <- <-. split; [reflexivity|discriminate]. }
    obn H rc Ec. destruct rc as [[nv nu]|e0].
    2:{ injection H as <- <-. split; [reflexivity|discriminate]. }
    obn H sy Es.
    destruct (unit_info_spec _ _ _ Eu) as (k' & Hk' & Hid & Hr).
    destruct (conv_convert_spec _ _ _ _ _ _ Hp Hr Hto Ec) as (Rn & A & Pq & Bm & Km).
    set (q1 := {| q_value := value_of nv; q_unit := Some sy |}) in *.
    pose proof (q_amount_symbol c nu sy (value_of nv) Hi Rn Es) as Hu1. fold q1 in Hu1.
    assert (Am1 : amt_eq (q_amount c q1) (q_amount c q)).
    { unfold q1. rewrite (q_amount_value_of c nu sy nv Hi Rn Es).
      rewrite (q_amount_known _ _ _ Eu).
      destruct (q_value q) as [n|s e|tx]; cbn in Hv; try discriminate;
        injection Hv as <-; cbn; exact A. }
    assert (Known : exists a, q_amount c q = Some a).
    { rewrite (q_amount_known _ _ _ Eu).
      destruct (q_value q) as [n|s e|tx]; cbn in Hv; try discriminate; eexists; reflexivity. }
    (* the three tails *)
    assert (Tail : forall t q2 r2,
              fit_fraction approx c q1 nu t = Done (q2, r2) ->
              (forall s, t = Some s -> forall s0, target_system c (snd u) to = Some s0 -> s0 = s) ->
              exists b, r2 = Ok b /\
              exists nu2, unit_info c q2 = Done (Some nu2) /\
                amt_eq (q_amount c q2) (q_amount c q) /\ u_pq (snd nu2) = u_pq (snd u) /\
                (forall s, target_system c (snd u) to = Some s ->
                   In (fst nu2) (map snd (conversions (best c (u_pq (snd u))) s)))).
    { intros t q2 r2 Hf Hts.
      destruct (fit_fraction_numeric c q1 nu t q2 r2 (value_of_not_text nv) Hf) as [b ->].
      exists b. split; [reflexivity|].
      destruct (fit_fraction_spec approx approx_exact c q1 nu t q2 (Ok b) Hp Hi Hu1 Hf)
        as (Am & _ & Hfalse & Htrue).
      destruct b.
      - destruct t as [s|].
        + destruct (Htrue eq_refl s eq_refl) as (nu2 & Hu2 & Pq2 & In2).
          exists nu2. split; [exact Hu2|]. split; [eapply amt_eq_trans; eauto|].
          split; [congruence|]. intros s0 Hs0. rewrite (Hts s eq_refl s0 Hs0). rewrite <- Pq. exact In2.
        + (* no target system: try_fraction, same unit *)
          unfold fit_fraction in Hf. obn Hf rr Er. injection Hf as <- _.
          destruct rr as [q3 b3]. cbn [fst].
          destruct (try_fraction_spec approx approx_exact _ _ _ _ Er) as [Hun _].
          exists nu. split.
          * unfold unit_info in *. rewrite Hun. exact Hu1.
          * split; [eapply amt_eq_trans; [eapply try_fraction_amount; eauto|exact Am1]|].
            split; [exact Pq|exact Bm].
      - rewrite (Hfalse eq_refl). exists nu. split; [exact Hu1|]. split; [exact Am1|].
        split; [exact Pq|exact Bm]. }
    destruct to as [|ts|t].
    - obn H rr Er. destruct rr as [q2 r2]. cbn [fst snd] in H.
      destruct (Tail _ _ _ Er) as (b & -> & nu2 & Hu2 & Am2 & Pq2 & In2).
      { intros s Hs s0 Hs0. cbn in Hs0. injection Hs0 as <-.
        destruct (u_sys (snd u)) as [s1|]; [congruence|discriminate]. }
      injection H as <- <-. split; [discriminate|]. intros _.
      exists u, nu2. repeat split; try assumption. discriminate.
    - obn H rr Er. destruct rr as [q2 r2]. cbn [fst snd] in H.
      destruct (Tail _ _ _ Er) as (b & -> & nu2 & Hu2 & Am2 & Pq2 & In2).
      { intros s Hs s0 Hs0. cbn in Hs0. congruence. }
      injection H as <- <-. split; [discriminate|]. intros _.
      exists u, nu2. repeat split; try assumption. discriminate.
    - obn H rr Er. destruct rr as [q2 b2]. cbn [fst] in H. injection H as <- <-.
      split; [discriminate|]. intros _.
      destruct (try_fraction_spec approx approx_exact _ _ _ _ Er) as [Hun _].
      exists u, nu. split; [reflexivity|]. split.
      { unfold unit_info in *. rewrite Hun. exact Hu1. }
      split; [exact Known|].
      split; [eapply amt_eq_trans; [eapply try_fraction_amount; eauto|exact Am1]|].
      split; [exact Pq|]. split; [exact Bm|exact Km].
  Qed.

  (* ScaledQuantity::fit *)
  Definition fit_member (c : converter) (u nu : uref) : Prop :=
    u_pq (snd nu) = u_pq (snd u) /\
    In (fst nu) (map snd (conversions (best c (u_pq (snd u)))
          (match u_sys (snd u) with Some s => s | None => default_system c end))).

  Lemma fit_spec c q q' r :
    ratios_pos c -> index_consistent c ->
    fit approx c q = Done (q', r) ->
    amt_eq (q_amount c q') (q_amount c q) /\
    (forall e, r = Err e -> q' = q) /\
    (forall u, unit_info c q = Done (Some u) -> r = Ok tt ->
       (u_sys (snd u) = None ->
          exists cfg, fractions_config c (snd u) = Done cfg /\ fc_enabled cfg = false) ->
       exists nu, unit_info c q' = Done (Some nu) /\ fit_member c u nu).
  Proof.
    intros Hp Hi H. unfold fit in H. destruct (unit_info c q) as [ou|] eqn:Eu; [|discriminate].
    cbn [obind] in H. destruct ou as [u|].
    2:{ injection H as <- <-. split; [apply amt_eq_refl|]. split; [reflexivity|]. intros u Hu. discriminate. }
    obn H cfg Ecfg.
    assert (Conv : convert_impl approx c q ToSame = Done (q', r) ->
              amt_eq (q_amount c q') (q_amount c q) /\
              (forall e, r = Err e -> q' = q) /\
              (r = Ok tt -> exists nu, unit_info c q' = Done (Some nu) /\ fit_member c u nu)).
    { intros Hc.
      destruct (convert_impl_spec c q ToSame q' r Hp Hi I Hc) as [Fr Okk].
      split.
      - destruct r as [[]|e].
        + destruct (Okk eq_refl) as (u1 & nu & _ & _ & _ & Am & _). exact Am.
        + rewrite (Fr e eq_refl). apply amt_eq_refl.
      - split; [exact Fr|]. intros Hr.
        destruct (Okk Hr) as (u1 & nu & Hu1 & Hnu & _ & _ & Pq & Bm & _).
        rewrite Eu in Hu1. injection Hu1 as <-.
        exists nu. split; [exact Hnu|]. split; [exact Pq|]. apply Bm. reflexivity. }
    destruct (fc_enabled cfg) eqn:En.
    2:{ destruct (Conv H) as (A & B & C). split; [exact A|]. split; [exact B|].
        intros u0 Hu0 Hr _. injection Hu0 as <-. exact (C Hr). }
    obn H rr Er. destruct rr as [q2 r2]. cbn [fst snd] in H.
    destruct (fit_fraction_spec approx approx_exact c q u (u_sys (snd u)) q2 r2 Hp Hi Eu Er)
      as (Am & Herr & Hfalse & Htrue).
    destruct r2 as [[|]|e].
    - injection H as <- <-. split; [exact Am|]. split; [discriminate|].
      intros u0 Hu0 _ Hsys. injection Hu0 as <-.
      destruct (u_sys (snd u)) as [s|] eqn:Hs.
      + destruct (Htrue eq_refl s eq_refl) as (nu & A & B & C). exists nu. split; [exact A|].
        split; [exact B|]. rewrite Hs. exact C.
      + destruct (Hsys eq_refl) as (cfg' & Hc' & Hd). rewrite Ecfg in Hc'. congruence.
    - rewrite (Hfalse eq_refl) in H. destruct (Conv H) as (A & B & C). split; [exact A|].
      split; [exact B|]. intros u0 Hu0 Hr _. injection Hu0 as <-. exact (C Hr).
    - injection H as <- <-. destruct (Herr e eq_refl) as [-> _].
      split; [apply amt_eq_refl|]. split; [reflexivity|]. intros; discriminate.
  Qed.
End WithApprox2.

(* ------------------------------------------------------------------ the failure cases *)

Section Failures.
  Variable approx : Q -> frac_cfg -> outcome (option number).

  Lemma convert_fails_nounit c q to :
    q_unit q = None -> convert_impl approx c q to = Done (q, Err ENoUnit).
  Proof. intro H. unfold convert_impl. rewrite H. reflexivity. Qed.

  Lemma convert_fails_unknown c q to k :
    q_unit q = Some k -> get_unit_id c k = None ->
    convert_impl approx c q to = Done (q, Err (EUnknownUnit k)).
  Proof.
    intros H G. unfold convert_impl, unit_info, find_unit. rewrite H, G. reflexivity.
  Qed.

  Lemma unit_info_known c q k id u :
    q_unit q = Some k -> get_unit_id c k = Some id ->
    nth_error (all_units c) (N.to_nat id) = Some u -> unit_info c q = Done (Some (id, u)).
  Proof.
    intros H G Hn. unfold unit_info, find_unit, unit_at. rewrite H, G, Hn. reflexivity.
  Qed.

  Lemma convert_fails_text c q to k id u t :
    q_unit q = Some k -> get_unit_id c k = Some id ->
    nth_error (all_units c) (N.to_nat id) = Some u -> q_value q = VText t ->
    convert_impl approx c q to = Done (q, Err (ETextValue t)).
  Proof.
    intros H G Hn Hv. unfold convert_impl. rewrite H, (unit_info_known c q k id u H G Hn).
    cbn [obind]. rewrite Hv. reflexivity.
  Qed.

  Lemma convert_fails_mixed c q k id u k2 id2 u2 :
    q_unit q = Some k -> get_unit_id c k = Some id ->
    nth_error (all_units c) (N.to_nat id) = Some u ->
    (forall t, q_value q <> VText t) ->
    get_unit_id c k2 = Some id2 -> nth_error (all_units c) (N.to_nat id2) = Some u2 ->
    u_pq u <> u_pq u2 ->
    convert_impl approx c q (ToUnit (CKey k2)) = Done (q, Err (EMixed (u_pq u) (u_pq u2))).
  Proof.
    intros H G Hn Hv G2 Hn2 P. unfold convert_impl.
    rewrite H, (unit_info_known c q k id u H G Hn). cbn [obind].
    assert (E : exists v, cvalue_of (q_value q) = Ok v).
    { destruct (q_value q) as [n|s e|t]; [eexists; reflexivity..|]. exfalso. eapply Hv; eauto. }
    destruct E as [v ->]. unfold conv_convert. cbn [get_unit obind]. rewrite G2.
    unfold unit_at. rewrite Hn2. cbn [obind]. unfold convert_to_unit. cbn [snd].
    destruct (pq_eqb (u_pq u) (u_pq u2)) eqn:E; [apply pq_eqb_eq in E; contradiction|].
    reflexivity.
  Qed.

  Lemma convert_fails_unknown_target c q k id u k2 :
    q_unit q = Some k -> get_unit_id c k = Some id ->
    nth_error (all_units c) (N.to_nat id) = Some u ->
    (forall t, q_value q <> VText t) -> get_unit_id c k2 = None ->
    convert_impl approx c q (ToUnit (CKey k2)) = Done (q, Err (EUnknownUnit k2)).
  Proof.
    intros H G Hn Hv G2. unfold convert_impl.
    rewrite H, (unit_info_known c q k id u H G Hn). cbn [obind].
    assert (E : exists v, cvalue_of (q_value q) = Ok v).
    { destruct (q_value q) as [n|s e|t]; [eexists; reflexivity..|]. exfalso. eapply Hv; eauto. }
    destruct E as [v ->]. unfold conv_convert. cbn [get_unit obind]. rewrite G2. reflexivity.
  Qed.
End Failures.

(* ------------------------------------------------------------------ the regenerated table *)

Definition bundled : outcome (option converter) := build_file file si_ratios.

Definition empty_conv : converter :=
  {| all_units := []; unit_index := []; best := fun _ => Unified [];
     c_fractions := {| fr_all := None; fr_metric := None; fr_imperial := None;
                       fr_quantity := []; fr_unit := [] |};
     default_system := Metric |}.

Definition bundled_conv : converter :=
  match bundled with Done (Some c) => c | _ => empty_conv end.

Definition bundled_units : list unit := all_units bundled_conv.

Lemma bundled_builds : exists c, bundled = Done (Some c) /\ c = bundled_conv.
Proof.
  unfold bundled_conv. destruct bundled as [[c|]|] eqn:E.
  - exists c. split; reflexivity.
  - exfalso. vm_compute in E. discriminate.
  - exfalso. vm_compute in E. discriminate.
Qed.

Lemma bundled_count : length bundled_units = 38%nat.
Proof. vm_compute. reflexivity. Qed.

Lemma bundled_definitions_b : forallb within_tol bundled_units = true.
Proof. vm_compute. reflexivity. Qed.

Lemma bundled_ratios_pos : ratios_pos bundled_conv.
Proof. apply ratios_pos_sound. vm_compute. reflexivity. Qed.

Lemma bundled_index_consistent : index_consistent bundled_conv.
Proof. apply index_consistent_sound. vm_compute. reflexivity. Qed.

(* in the bundled converter no system-less unit has fractions enabled *)
Definition nosys_nofrac_b (c : converter) : bool :=
  forallb (fun u => match u_sys u with
                    | Some _ => true
                    | None => match fractions_config c u with
                              | Done cfg => negb (fc_enabled cfg)
                              | Panic _ => false
                              end
                    end) (all_units c).
Lemma bundled_nosys_nofrac : nosys_nofrac_b bundled_conv = true.
Proof. vm_compute. reflexivity. Qed.
