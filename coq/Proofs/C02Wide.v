(* C02, wider: the invariance of Proofs/C02Invariance.v extended to
   1. quantities without `%`: parse_advanced_quantity answers None by the shape of the tokens
      alone ([adv_none]: no word, word first, or no blank before the first word) - `{2}`, `{some}`,
      `{1/2}`, `{=3}`, `{2x}`; `{2 medium}` and `{1 kg}` stay excluded;
   2. `-` tokens anywhere except right after a marker, and in values where the range reading
      answers None even with RANGE_VALUES on ([range_quiet]);
   3. timers whose braces hold a quantity (TIMER_REQUIRES_TIME is then not consulted);
      `|` is excluded only from the name of a component;
   4. every block kind: `>>` lines with a plain key (MODES not consulted), section lines, `>`
      text blocks, and their fall-through to a step;
   5. whole documents: the block splitter takes no configuration, front matter detection does
      not look at the extension bits; [events] and [meta_events].
   The class is [core2] (step tokens) / [block_ok] (one block) / [core_doc] (a source). *)
From CL Require Import Base.StrLemmas Model.Parser Proofs.ParserGates Proofs.C02Invariance.

(* ---------------------------------------------------------------- lists: position, take/drop while *)
Lemma position_some f : forall l n, position f l = Some n ->
  Forall (fun t => f (kind t) = false) (firstn n l) /\ exists t r, skipn n l = t :: r /\ f (kind t) = true.
Proof.
  induction l as [|x r IH]; intros n H; cbn [position] in H; [discriminate|].
  destruct (f (kind x)) eqn:E.
  - inversion H; subst. split; [constructor|]. exists x, r. split; [reflexivity | exact E].
  - destruct (position f r) as [m|]; cbn [option_map] in H; [|discriminate]. inversion H; subst.
    destruct (IH m eq_refl) as [H1 H2]. split; [cbn [firstn]; constructor; assumption | exact H2].
Qed.

Lemma position_none_all f : forall l, position f l = None -> Forall (fun t => f (kind t) = false) l.
Proof.
  induction l as [|x r IH]; intro H; [constructor|]. cbn [position] in H.
  destruct (f (kind x)) eqn:E; [discriminate|]. destruct (position f r); [discriminate|].
  constructor; [exact E | apply IH; reflexivity].
Qed.

Definition cw_n (f : tkind -> bool) (l : list tok) : nat :=
  match position (fun k => negb (f k)) l with Some n => n | None => length l end.
Definition tw (f : tkind -> bool) (l : list tok) : list tok := firstn (cw_n f l) l.
Definition dw (f : tkind -> bool) (l : list tok) : list tok := skipn (cw_n f l) l.

Lemma tw_all f l : Forall (fun t => f (kind t) = true) (tw f l).
Proof.
  unfold tw, cw_n. destruct (position _ l) as [n|] eqn:E.
  - destruct (position_some _ _ _ E) as [H _]. eapply Forall_impl; [|exact H].
    intros t Ht. apply negb_false_iff in Ht. exact Ht.
  - rewrite firstn_all. pose proof (position_none_all _ _ E) as H. eapply Forall_impl; [|exact H].
    intros t Ht. apply negb_false_iff in Ht. exact Ht.
Qed.

Lemma dw_head f l t r : dw f l = t :: r -> f (kind t) = false.
Proof.
  unfold dw, cw_n. destruct (position _ l) as [n|] eqn:E.
  - destruct (position_some _ _ _ E) as [_ [t' [r' [H1 H2]]]]. intro H. rewrite H1 in H. inversion H; subst.
    apply negb_true_iff in H2. exact H2.
  - rewrite skipn_all. discriminate.
Qed.

Lemma tw_dw f l : tw f l ++ dw f l = l.
Proof. apply firstn_skipn. Qed.

Lemma tw_nil f : tw f [] = [].
Proof. reflexivity. Qed.

(* ---------------------------------------------------------------- advance keeps the rest of the state *)
Lemma advance_evs n : forall s, b_evs (advance n s) = b_evs s.
Proof.
  induction n as [|n IH]; intros s; cbn [advance]; [reflexivity|].
  destruct (b_rest s); [reflexivity|]. rewrite IH. reflexivity.
Qed.
Lemma advance_all n : forall s, b_all (advance n s) = b_all s.
Proof.
  induction n as [|n IH]; intros s; cbn [advance]; [reflexivity|].
  destruct (b_rest s); [reflexivity|]. rewrite IH. reflexivity.
Qed.

Lemma consume_while_exact f s :
  consume_while f s = Done (tw f (b_rest s), advance (cw_n f (b_rest s)) s).
Proof. reflexivity. Qed.

Lemma consume_while_inv f s a s' :
  consume_while f s = Done (a, s') ->
  a = tw f (b_rest s) /\ b_rest s' = dw f (b_rest s) /\ b_evs s' = b_evs s /\ b_all s' = b_all s.
Proof.
  rewrite consume_while_exact. intro H; inversion H; subst.
  repeat split; [apply advance_rest | apply advance_evs | apply advance_all].
Qed.

(* ---------------------------------------------------------------- scaling_lock, exactly *)
Definition lock_strip (l : list tok) : list tok :=
  match dw is_ws_comment l with
  | t :: r => match kind t with KEq => r | _ => t :: r end
  | [] => []
  end.

Lemma scaling_lock_inv s a s' :
  scaling_lock s = Done (a, s') ->
  b_rest s' = lock_strip (b_rest s) /\ b_evs s' = b_evs s /\ b_all s' = b_all s.
Proof.
  unfold scaling_lock, ws_comments. unfold bind at 1. rewrite consume_while_exact.
  set (s1 := advance _ s).
  assert (R1 : b_rest s1 = dw is_ws_comment (b_rest s)) by apply advance_rest.
  assert (V1 : b_evs s1 = b_evs s) by apply advance_evs.
  assert (A1 : b_all s1 = b_all s) by apply advance_all.
  unfold bind, peek, peek_of, lock_strip. rewrite <- R1.
  destruct (b_rest s1) as [|t r] eqn:E.
  - unfold ret. intro H; inversion H; subst. rewrite E. repeat split; assumption.
  - destruct (kind t) eqn:K; unfold ret, bump_any, bind, next_token; rewrite ?E; intro H; inversion H; subst;
      cbn [b_rest b_evs b_all]; rewrite ?E; repeat split; assumption.
Qed.

(* ---------------------------------------------------------------- ADVANCED_UNITS untriggered without `%` *)
Definition is_percent (t : tok) : bool := tk_eqb (kind t) KPercent.
Definition not_word (k : tkind) : bool := negb (tk_eqb k KWord).
(* what parse_advanced_quantity looks at after scaling_lock and ws_comments *)
Definition adv_rest (q : list tok) : list tok := dw is_ws_comment (lock_strip q).

(* the value tokens are not "number . blank . word-led unit" by their shape alone: there is no word
   at all, or the word comes first, or the token before the first word is not a blank *)
Definition adv_none (q : list tok) : bool :=
  existsb (fun t => tk_eqb (kind t) KPercent) q
  || match dw not_word (adv_rest q) with
     | [] => true
     | _ => match rev (tw not_word (adv_rest q)) with
            | [] => true
            | l :: _ => negb (tk_eqb (kind l) KWs)
            end
     end.

Lemma drop_ws_block_keeps l t :
  In t l -> is_ws_block (kind t) = false -> drop_ws_block l <> [].
Proof.
  induction l as [|x r IH]; intros Hin Ht; [destruct Hin|]. cbn [drop_ws_block].
  destruct (is_ws_block (kind x)) eqn:E; [|discriminate].
  destruct Hin as [->|Hin]; [rewrite Ht in E; discriminate | exact (IH Hin Ht)].
Qed.

Lemma ws_block_is_ws_comment k : is_ws_comment k = false -> is_ws_block k = false.
Proof. destruct k; cbn; intro H; try reflexivity; discriminate. Qed.

Lemma scaling_lock_no_panic s p : scaling_lock s <> Panic p.
Proof.
  unfold scaling_lock, ws_comments. unfold bind at 1. rewrite consume_while_exact.
  set (s1 := advance _ s). unfold bind, peek.
  destruct (peek_of s1) eqn:K; unfold ret; try discriminate.
  unfold peek_of in K. unfold bump_any, bind, next_token.
  destruct (b_rest s1) as [|t r]; [discriminate K|]. discriminate.
Qed.

Lemma adv_none_sound cfg q evs :
  adv_none q = true ->
  exists s', parse_advanced_quantity cfg {| b_all := q; b_done := []; b_rest := q; b_evs := evs |} = Done (None, s')
             /\ b_evs s' = evs.
Proof.
  intro H. set (s0 := {| b_all := q; b_done := []; b_rest := q; b_evs := evs |}).
  unfold parse_advanced_quantity. unfold bind at 1, all_tokens. cbn [b_all s0].
  unfold adv_none in H.
  destruct (existsb (fun t => tk_eqb (kind t) KPercent) q) eqn:Ep.
  { exists s0. split; reflexivity. }
  cbn [orb] in H.
  unfold bind at 1. destruct (scaling_lock s0) as [[lock s1]|p] eqn:E1.
  2:{ exfalso. exact (scaling_lock_no_panic _ _ E1). }
  destruct (scaling_lock_inv _ _ _ E1) as [R1 [V1 _]]. cbn [b_rest b_evs s0] in R1, V1.
  unfold ws_comments. unfold bind at 1. rewrite consume_while_exact.
  set (s2 := advance _ s1).
  assert (R2 : b_rest s2 = adv_rest q) by (unfold s2, adv_rest; rewrite advance_rest, R1; reflexivity).
  assert (V2 : b_evs s2 = evs) by (unfold s2; rewrite advance_evs; exact V1).
  unfold bind at 1. rewrite consume_while_exact. fold not_word.
  set (s3 := advance _ s2).
  assert (R3 : b_rest s3 = dw not_word (adv_rest q)) by (unfold s3; rewrite advance_rest, R2; reflexivity).
  assert (V3 : b_evs s3 = evs) by (unfold s3; rewrite advance_evs; exact V2).
  rewrite R2.
  destruct (rev (tw not_word (adv_rest q))) as [|l rl] eqn:Erev.
  { exists s3. split; [reflexivity | exact V3]. }
  destruct (tk_eqb (kind l) KWs) eqn:El; cbn [negb].
  2:{ exists s3. split; [reflexivity | exact V3]. }
  (* the last value token is a blank: then no word follows at all *)
  destruct (dw not_word (adv_rest q)) as [|u0 ur] eqn:Edw; [|cbn [negb] in H; discriminate].
  rewrite <- Erev.
  destruct (rev (drop_ws_block (rev (tw not_word (adv_rest q))))) as [|v vr] eqn:Ev.
  { exfalso.
    (* the first value token is no blank, so trimming blanks from the end leaves it *)
    assert (Hne : tw not_word (adv_rest q) <> []) by (intro Z; rewrite Z in Erev; discriminate).
    destruct (tw not_word (adv_rest q)) as [|h tl] eqn:Etw; [contradiction|].
    assert (Hh : is_ws_comment (kind h) = false).
    { pose proof (tw_dw not_word (adv_rest q)) as TD. rewrite Etw, Edw, app_nil_r in TD.
      unfold adv_rest in TD. eapply dw_head. symmetry. exact TD. }
    assert (Hd : drop_ws_block (rev (h :: tl)) <> []).
    { apply (drop_ws_block_keeps _ h); [apply in_rev; rewrite rev_involutive; left; reflexivity|].
      apply ws_block_is_ws_comment, Hh. }
    apply Hd. apply (f_equal (@rev tok)) in Ev. rewrite rev_involutive in Ev. exact Ev. }
  unfold bind at 1, consume_rest. rewrite consume_while_exact. rewrite R3.
  eexists. split; [reflexivity|]. rewrite advance_evs. exact V3.
Qed.

(* ---------------------------------------------------------------- RANGE_VALUES untriggered *)
(* range_value with the extension on still answers None: no `-`, or no number on its left, or a
   number on the left and no number on the right (quantity.rs 204-229) *)
Definition range_quiet (ts : list tok) : bool :=
  match position (fun k => tk_eqb k KMinus) ts with
  | None => true
  | Some mid =>
      match numeric_value (firstn mid ts) with
      | None => true
      | Some (inl _) => false
      | Some (inr _) =>
          match numeric_value (skipn (S mid) ts) with None => true | Some _ => false end
      end
  end.

Lemma range_value_quiet cfg ts : range_quiet ts = true -> range_value cfg ts = None.
Proof.
  unfold range_quiet, range_value. intro H. destruct (negb (has cfg X_RANGE_VALUES)); [reflexivity|].
  destruct (position _ ts) as [mid|]; [|reflexivity].
  destruct (numeric_value (firstn mid ts)) as [[d|a]|]; try reflexivity; try discriminate.
  destruct (numeric_value (skipn (S mid) ts)) as [[d|b]|]; try reflexivity; discriminate.
Qed.

Definition not_percent (k : tkind) : bool := negb (tk_eqb k KPercent).
(* the value tokens parse_regular_quantity hands to parse_value *)
Definition value_tokens (q : list tok) : list tok := tw not_percent (lock_strip q).

Definition is_blank_qty (q : list tok) : bool := forallb (fun t => is_ws_block (kind t)) q.
Definition qty_ok2 (q : list tok) : bool :=
  is_blank_qty q || (adv_none q && range_quiet (value_tokens q)).

Section QInv.
  Variable cfg : pcfg.
  Variables e1 e2 : N.
  Notation c1 := (with_ext cfg e1).
  Notation c2 := (with_ext cfg e2).

  Lemma parse_value_inv2 vts s : range_quiet vts = true -> parse_value c1 vts s = parse_value c2 vts s.
  Proof.
    intro Hq. unfold parse_value. apply bind_eq; [reflexivity|]. intros co s1 _.
    unfold range_or_numeric. rewrite !(range_value_quiet _ _ Hq). reflexivity.
  Qed.

  Lemma parse_quantity_inv2 q s :
    adv_none q = true -> range_quiet (value_tokens q) = true ->
    parse_quantity c1 q s = parse_quantity c2 q s.
  Proof.
    intros Ha Hr. unfold parse_quantity. destruct q as [|t q]; [reflexivity|].
    unfold sub_block.
    set (s0 := {| b_all := t :: q; b_done := []; b_rest := t :: q; b_evs := b_evs s |}).
    assert (R : forall c, (if has c X_ADVANCED_UNITS
                           then o <- with_recover (parse_advanced_quantity c);;
                                match o with Some r => ret r | None => parse_regular_quantity c end
                           else parse_regular_quantity c) s0 = parse_regular_quantity c s0).
    { intro c. destruct (has c X_ADVANCED_UNITS); [|reflexivity].
      destruct (adv_none_sound c (t :: q) (b_evs s) Ha) as [s' [E V]]. fold s0 in E.
      unfold bind, with_recover. rewrite E. cbn [b_all b_done b_rest s0]. rewrite V. reflexivity. }
    rewrite !R.
    assert (P : parse_regular_quantity c1 s0 = parse_regular_quantity c2 s0).
    { unfold parse_regular_quantity. apply bind_eq; [|intros; reflexivity].
      unfold value_p. apply bind_eq; [reflexivity|]. intros lock s1 E1.
      destruct (scaling_lock_inv _ _ _ E1) as [R1 _]. cbn [b_rest s0] in R1.
      apply bind_eq; [reflexivity|]. intros vts s2 E2.
      destruct (consume_while_inv _ _ _ _ E2) as [-> _]. rewrite R1.
      apply bind_eq; [|intros [v sp] ? ?; reflexivity].
      apply parse_value_inv2. exact Hr. }
    rewrite P. reflexivity.
  Qed.
End QInv.

(* ---------------------------------------------------------------- comp_body, exactly *)
Definition comp_braces : M (option body) :=
  name <-? until is_marker_or_open ;;
  ob <-? consume KOpenBrace ;;
  qty <-? until (fun k => tk_eqb k KCloseBrace) ;;
  cb <- bump KCloseBrace ;;
  let not_empty := existsb (fun t => negb (is_ws_block (kind t))) qty in
  ret (Some {| bd_name := name; bd_close := Some (tstart ob, tend cb);
               bd_qty := if not_empty then Some qty else None |}).

Definition comp_word : M (option body) :=
  ts <- consume_while is_single_word_tok ;;
  match ts with
  | [] =>
      r <- rest ;;
      isws <- at_kind KWs ;;
      (match r with
       | [] => ret tt
       | _ => if isws then ret tt
              else (co <- current_offset ;; warn D_SINGLE_WORD [(co, co)])
       end) ;;;
      ret None
  | _ => ret (Some {| bd_name := ts; bd_close := None; bd_qty := None |})
  end.

Lemma comp_body_eq :
  comp_body = (o <- with_recover comp_braces ;;
               match o with Some b => ret (Some b) | None => with_recover comp_word end).
Proof. reflexivity. Qed.

Definition brace_shape (l : list tok) (n : nat) (ob : tok) (r' : list tok) (m : nat) : Prop :=
  position is_marker_or_open l = Some n /\ skipn n l = ob :: r' /\ tk_eqb (kind ob) KOpenBrace = true
  /\ position (fun k => tk_eqb k KCloseBrace) r' = Some m.

Lemma consume_hit k s t r :
  b_rest s = t :: r -> tk_eqb (kind t) k = true ->
  consume k s = Done (Some t, {| b_all := b_all s; b_done := t :: b_done s; b_rest := r; b_evs := b_evs s |}).
Proof.
  intros H Hk. unfold consume, bind, at_kind, peek_of, bump_any, bind, next_token, ret. cbv beta. rewrite !H, Hk. cbv beta iota. rewrite ?H. reflexivity.
Qed.

Lemma bump_hit k s t r :
  b_rest s = t :: r -> tk_eqb (kind t) k = true ->
  bump k s = Done (t, {| b_all := b_all s; b_done := t :: b_done s; b_rest := r; b_evs := b_evs s |}).
Proof.
  intros H Hk. unfold bump, bump_any, bind, next_token, ret. cbv beta. rewrite !H. cbv beta iota. rewrite Hk. reflexivity.
Qed.

Lemma obindM_some {A B} (m : M (option A)) (f : A -> M (option B)) s a s1 :
  m s = Done (Some a, s1) -> obindM m f s = f a s1.
Proof. intro H. unfold obindM, bind. rewrite H. reflexivity. Qed.
Lemma bind_done {A B} (m : M A) (f : A -> M B) s a s1 : m s = Done (a, s1) -> bind m f s = f a s1.
Proof. intro H. unfold bind. rewrite H. reflexivity. Qed.
Lemma until_hit f s n :
  position f (b_rest s) = Some n -> until f s = Done (Some (firstn n (b_rest s)), advance n s).
Proof. intro H. unfold until. rewrite H. reflexivity. Qed.

Lemma comp_braces_some s n ob r' m :
  brace_shape (b_rest s) n ob r' m -> exists b s', comp_braces s = Done (Some b, s').
Proof.
  intros [Hp [Hs [Hk Hp2]]]. unfold comp_braces.
  rewrite (obindM_some _ _ _ _ _ (until_hit _ _ _ Hp)).
  assert (R1 : b_rest (advance n s) = ob :: r') by (rewrite advance_rest; exact Hs).
  rewrite (obindM_some _ _ _ _ _ (consume_hit _ _ _ _ R1 Hk)).
  match goal with |- context [obindM (until ?f) _ ?st] =>
    assert (Hp3 : position f (b_rest st) = Some m) by exact Hp2;
    rewrite (obindM_some _ _ _ _ _ (until_hit _ _ _ Hp3)); cbn [b_rest] end.
  destruct (position_some _ _ _ Hp2) as [_ [cb [r2 [Hs2 Hk2]]]].
  match goal with |- context [bind (bump KCloseBrace) _ ?st] =>
    assert (R2 : b_rest st = cb :: r2) by (rewrite advance_rest; exact Hs2);
    rewrite (bind_done _ _ _ _ _ (bump_hit _ _ _ _ R2 Hk2)) end.
  unfold ret. eexists. eexists. reflexivity.
Qed.

Lemma comp_braces_inv s bd s' :
  comp_braces s = Done (Some bd, s') ->
  exists n ob r' m, brace_shape (b_rest s) n ob r' m /\ bd_name bd = firstn n (b_rest s)
    /\ bd_qty bd = (if existsb (fun t => negb (is_ws_block (kind t))) (firstn m r')
                    then Some (firstn m r') else None).
Proof.
  intro E. unfold comp_braces, obindM, bind in E.
  destruct (until is_marker_or_open s) as [[[name|] s2]|] eqn:E1; try discriminate.
  destruct (consume KOpenBrace s2) as [[[ob|] s3]|] eqn:E2; try discriminate.
  destruct (until (fun k => tk_eqb k KCloseBrace) s3) as [[[qty|] s4]|] eqn:E3; try discriminate.
  destruct (bump KCloseBrace s4) as [[cb s5]|] eqn:E4; try discriminate.
  unfold ret in E. inversion E; subst. cbn [bd_name bd_qty]. clear E.
  destruct (until_some _ _ _ _ E1) as [n [P1 [-> R2]]].
  destruct (consume_some _ _ _ _ E2) as [R3 K3].
  destruct (until_some _ _ _ _ E3) as [m [P3 [-> _]]].
  exists n, ob, (b_rest s3), m. repeat split; try assumption. rewrite <- R2. exact R3.
Qed.

Lemma comp_body_char s bd s' :
  comp_body s = Done (Some bd, s') ->
  (exists n ob r' m, brace_shape (b_rest s) n ob r' m /\ bd_name bd = firstn n (b_rest s)
     /\ bd_qty bd = (if existsb (fun t => negb (is_ws_block (kind t))) (firstn m r')
                     then Some (firstn m r') else None))
  \/ (bd_qty bd = None /\ bd_name bd = tw is_single_word_tok (b_rest s)
      /\ forall n ob r' m, ~ brace_shape (b_rest s) n ob r' m).
Proof.
  rewrite comp_body_eq. intro H. unfold bind at 1 in H.
  destruct (with_recover comp_braces s) as [[[b|] s1]|] eqn:EA; [| |discriminate].
  - left. unfold ret in H. inversion H; subst b s1. clear H.
    unfold with_recover in EA. destruct (comp_braces s) as [[[x|] sx]|] eqn:E; inversion EA; subst x sx.
    exact (comp_braces_inv _ _ _ E).
  - right.
    assert (NB : forall n ob r' m, ~ brace_shape (b_rest s) n ob r' m).
    { intros n ob r' m B. destruct (comp_braces_some _ _ _ _ _ B) as [b [sb Eb]].
      unfold with_recover in EA. rewrite Eb in EA. discriminate. }
    assert (R1 : b_rest s1 = b_rest s).
    { unfold with_recover in EA. destruct (comp_braces s) as [[[x|] sx]|]; inversion EA; reflexivity. }
    unfold with_recover in H. destruct (comp_word s1) as [[[x|] sx]|] eqn:E; inversion H; subst x sx. clear H.
    unfold comp_word in E. unfold bind at 1 in E. rewrite consume_while_exact in E. rewrite R1 in E.
    destruct (tw is_single_word_tok (b_rest s)) as [|t0 r0] eqn:F.
    + exfalso. unfold rest, at_kind, bind in E.
      match type of E with context [b_rest ?st] => destruct (b_rest st); [|destruct (tk_eqb (peek_of st) KWs)] end;
        cbv beta iota delta [ret warn event mkdiag current_offset bind] in E; inversion E.
    + unfold ret in E. inversion E; subst. cbn [bd_name bd_qty]. repeat split. exact NB.
Qed.

(* ---------------------------------------------------------------- the wider class of step blocks *)
Definition no_or (l : list tok) : bool := negb (existsb (fun t => tk_eqb (kind t) KOr) l).
(* the name of a braced component: the tokens up to the next `{`; when a marker comes first the
   component is a single word, which holds no `|` *)
Definition name_ok (r : list tok) : bool :=
  match position is_marker_or_open r with
  | Some n => negb (tk_eqb (head_kind (skipn n r)) KOpenBrace) || no_or (firstn n r)
  | None => true
  end.

Definition local_ok2 (t : tok) (r : list tok) : bool :=
  (if is_marker (kind t) then negb (is_modifier_kind (head_kind r)) && name_ok r else true)
  && (if tk_eqb (kind t) KOpenBrace then qty_ok2 (until_close r) else true)
  && (if tk_eqb (kind t) KTilde then timer_has_quantity r else true).
Fixpoint core2 (ts : list tok) : bool :=
  match ts with [] => true | t :: r => local_ok2 t r && core2 r end.

Lemma core2_skipn n : forall ts, core2 ts = true -> core2 (skipn n ts) = true.
Proof.
  induction n as [|n IH]; intros ts H; [exact H|]. destruct ts as [|t r]; [exact H|].
  cbn [skipn]. apply IH. cbn [core2] in H. apply andb_prop in H. apply H.
Qed.

Lemma core2_step {A} (m : M A) s a s' :
  sfx m -> m s = Done (a, s') -> core2 (b_rest s) = true -> core2 (b_rest s') = true.
Proof. intros Hm E Hc. destruct (Hm _ _ _ E) as [n ->]. apply core2_skipn, Hc. Qed.

Lemma core2_cons t r : core2 (t :: r) = true -> local_ok2 t r = true /\ core2 r = true.
Proof. cbn [core2]. intro H. apply andb_prop in H. exact H. Qed.

Lemma no_or_position l : no_or l = true -> position (fun k => tk_eqb k KOr) l = None.
Proof.
  unfold no_or. intro H. apply negb_true_iff in H. apply position_none.
  induction l as [|x r IH]; [constructor|]. cbn [existsb] in H. apply orb_false_iff in H. destruct H as [H1 H2].
  constructor; [exact H1 | apply IH, H2].
Qed.

Lemma single_word_no_or l :
  Forall (fun t => is_single_word_tok (kind t) = true) l -> position (fun k => tk_eqb k KOr) l = None.
Proof.
  intro H. apply position_none. eapply Forall_impl; [|exact H].
  intros t Ht. cbv beta in Ht. destruct (kind t); try discriminate Ht; reflexivity.
Qed.

(* what a component parser learns from comp_body on a core block, after its marker *)
Lemma comp_body_core mk s bd s' :
  comp_body s = Done (Some bd, s') -> is_marker (kind mk) = true -> core2 (mk :: b_rest s) = true ->
  position (fun k => tk_eqb k KOr) (bd_name bd) = None
  /\ (forall q, bd_qty bd = Some q -> adv_none q = true /\ range_quiet (value_tokens q) = true)
  /\ (tk_eqb (kind mk) KTilde = true -> bd_qty bd <> None).
Proof.
  intros E Hm Hc. destruct (core2_cons _ _ Hc) as [L Hc1].
  unfold local_ok2 in L. rewrite Hm in L.
  apply andb_prop in L. destruct L as [L Lt]. apply andb_prop in L. destruct L as [L _].
  apply andb_prop in L. destruct L as [_ Ln].
  destruct (comp_body_char _ _ _ E) as [[n [ob [r' [m [[P1 [S1 [K1 P2]]] [Hn Hq]]]]]] | [Hq [Hn NB]]].
  - split; [|split].
    + rewrite Hn. apply no_or_position. unfold name_ok in Ln. rewrite P1, S1 in Ln. cbn [head_kind] in Ln.
      rewrite K1 in Ln. exact Ln.
    + intros q Eq. rewrite Hq in Eq.
      destruct (existsb _ (firstn m r')) eqn:Ne; inversion Eq; subst q.
      pose proof (core2_skipn n _ Hc1) as Hc2. rewrite S1 in Hc2.
      destruct (core2_cons _ _ Hc2) as [L2 _]. unfold local_ok2 in L2.
      apply andb_prop in L2. destruct L2 as [L2 _]. apply andb_prop in L2. destruct L2 as [_ L2].
      rewrite K1 in L2. unfold until_close in L2. rewrite P2 in L2.
      unfold qty_ok2, is_blank_qty in L2. rewrite (exists_not_forall _ _ Ne) in L2. cbn [orb] in L2.
      apply andb_prop in L2. exact L2.
    + intros Kt. rewrite Kt in Lt. unfold timer_has_quantity in Lt. rewrite P1, S1, K1, P2 in Lt.
      cbn [andb] in Lt. rewrite Hq, Lt. discriminate.
  - split; [|split].
    + rewrite Hn. apply single_word_no_or, tw_all.
    + intros q Eq. rewrite Hq in Eq. discriminate.
    + intros Kt. exfalso. rewrite Kt in Lt. unfold timer_has_quantity in Lt.
      destruct (position is_marker_or_open (b_rest s)) as [n|] eqn:P1; [|discriminate].
      destruct (skipn n (b_rest s)) as [|ob r'] eqn:S1; [discriminate|].
      apply andb_prop in Lt. destruct Lt as [K1 Lt].
      destruct (position (fun k => tk_eqb k KCloseBrace) r') as [m|] eqn:P2; [|discriminate].
      apply (NB n ob r' m). repeat split; assumption.
Qed.

Lemma sfx_timer_p cfg : sfx (timer_p cfg).
Proof.
  unfold timer_p.
  repeat first [ apply sfx_modifiers | apply sfx_comp_body | apply sfx_check_note | apply sfx_parse_quantity
               | progress sfx_auto ].
Qed.

Section Inv2.
  Variable cfg : pcfg.
  Variables e1 e2 : N.
  Notation c1 := (with_ext cfg e1).
  Notation c2 := (with_ext cfg e2).

  Lemma marker_no_modifier mk s :
    is_marker (kind mk) = true -> core2 (mk :: b_rest s) = true -> is_modifier_kind (peek_of s) = false.
  Proof.
    intros Hm Hc. destruct (core2_cons _ _ Hc) as [L _]. unfold local_ok2 in L. rewrite Hm in L.
    apply andb_prop in L. destruct L as [L _]. apply andb_prop in L. destruct L as [L _].
    apply andb_prop in L. destruct L as [L _]. apply negb_true_iff in L. exact L.
  Qed.

  Lemma alias_inv2 ts off s :
    position (fun k => tk_eqb k KOr) ts = None -> parse_alias c1 ts off s = parse_alias c2 ts off s.
  Proof. intro H. rewrite !(alias_untriggered _ _ _ H). reflexivity. Qed.

  Lemma ingredient_inv2 s : core2 (b_rest s) = true -> ingredient_p c1 s = ingredient_p c2 s.
  Proof.
    intro Hc. unfold ingredient_p.
    apply bind_eq; [reflexivity|]. intros start s0 E0. apply keep_current_offset in E0. subst s0.
    apply obindM_eq; [reflexivity|]. intros at_ s1 E1. destruct (consume_some _ _ _ _ E1) as [R1 K1].
    apply bind_eq; [reflexivity|]. intros mpos s2 E2. apply keep_current_offset in E2. subst s2.
    rewrite R1 in Hc.
    assert (Hmk : is_marker (kind at_) = true) by (eapply is_marker_of; [exact K1|reflexivity]).
    pose proof (marker_no_modifier _ _ Hmk Hc) as Hm.
    apply bind_eq; [rewrite !(modifiers_untriggered _ _ Hm); reflexivity|].
    intros mts s3 E3. rewrite (modifiers_untriggered _ _ Hm) in E3. inversion E3; subst mts s3. clear E3.
    apply bind_eq; [reflexivity|]. intros noff s4 E4. apply keep_current_offset in E4. subst s4.
    apply obindM_eq; [reflexivity|]. intros bd s5 E5.
    destruct (comp_body_core _ _ _ _ E5 Hmk Hc) as [Hn [Hq _]].
    apply bind_eq; [reflexivity|]. intros nt s6 _.
    apply bind_eq; [reflexivity|]. intros en s7 _.
    apply bind_eq; [apply alias_inv2, Hn|]. intros [name alias] s8 _.
    apply bind_eq; [reflexivity|]. intros u s9 _.
    apply bind_eq; [reflexivity|]. intros [[m msp] inter] s10 _.
    apply bind_eq; [|intros; reflexivity].
    destruct (bd_qty bd) as [q|]; [|reflexivity].
    destruct (Hq q eq_refl) as [G P].
    apply bind_eq; [apply parse_quantity_inv2; assumption | intros [q0 u0] ? ?; reflexivity].
  Qed.

  Lemma cookware_inv2 s : core2 (b_rest s) = true -> cookware_p c1 s = cookware_p c2 s.
  Proof.
    intro Hc. unfold cookware_p.
    apply bind_eq; [reflexivity|]. intros start s0 E0. apply keep_current_offset in E0. subst s0.
    apply obindM_eq; [reflexivity|]. intros at_ s1 E1. destruct (consume_some _ _ _ _ E1) as [R1 K1].
    apply bind_eq; [reflexivity|]. intros mpos s2 E2. apply keep_current_offset in E2. subst s2.
    rewrite R1 in Hc.
    assert (Hmk : is_marker (kind at_) = true) by (eapply is_marker_of; [exact K1|reflexivity]).
    pose proof (marker_no_modifier _ _ Hmk Hc) as Hm.
    apply bind_eq; [rewrite !(modifiers_untriggered _ _ Hm); reflexivity|].
    intros mts s3 E3. rewrite (modifiers_untriggered _ _ Hm) in E3. inversion E3; subst mts s3. clear E3.
    apply bind_eq; [reflexivity|]. intros noff s4 E4. apply keep_current_offset in E4. subst s4.
    apply obindM_eq; [reflexivity|]. intros bd s5 E5.
    destruct (comp_body_core _ _ _ _ E5 Hmk Hc) as [Hn [Hq _]].
    apply bind_eq; [reflexivity|]. intros nt s6 _.
    apply bind_eq; [reflexivity|]. intros en s7 _.
    apply bind_eq; [apply alias_inv2, Hn|]. intros [name alias] s8 _.
    apply bind_eq; [reflexivity|]. intros u s9 _.
    apply bind_eq; [|intros; reflexivity].
    destruct (bd_qty bd) as [q|]; [|reflexivity].
    destruct (Hq q eq_refl) as [G P].
    apply bind_eq; [apply parse_quantity_inv2; assumption | intros [q0 u0] ? ?; reflexivity].
  Qed.

  Lemma timer_inv2 s : core2 (b_rest s) = true -> timer_p c1 s = timer_p c2 s.
  Proof.
    intro Hc. rewrite !timer_p_uses_gate.
    apply bind_eq; [reflexivity|]. intros start s0 E0. apply keep_current_offset in E0. subst s0.
    apply obindM_eq; [reflexivity|]. intros tl_ s1 E1. destruct (consume_some _ _ _ _ E1) as [R1 K1].
    rewrite R1 in Hc.
    assert (Hmk : is_marker (kind tl_) = true) by (eapply is_marker_of; [exact K1|reflexivity]).
    pose proof (marker_no_modifier _ _ Hmk Hc) as Hm.
    apply bind_eq; [rewrite !(modifiers_untriggered _ _ Hm); reflexivity|].
    intros mts s3 E3. rewrite (modifiers_untriggered _ _ Hm) in E3. inversion E3; subst mts s3. clear E3.
    apply bind_eq; [reflexivity|]. intros noff s4 E4. apply keep_current_offset in E4. subst s4.
    apply obindM_eq; [reflexivity|]. intros bd s5 E5.
    destruct (comp_body_core _ _ _ _ E5 Hmk Hc) as [Hn [Hq Ht]].
    apply bind_eq; [reflexivity|]. intros en s6 _.
    apply bind_eq; [reflexivity|]. intros u1 s7 _.
    apply bind_eq.
    { unfold has. cbn [p_ext with_ext]. rewrite Hn. destruct (ext_has e1 X_COMPONENT_ALIAS), (ext_has e2 X_COMPONENT_ALIAS); reflexivity. }
    intros u2 s8 _.
    apply bind_eq; [reflexivity|]. intros u3 s9 _.
    apply bind_eq; [reflexivity|]. intros name s10 _.
    destruct (bd_qty bd) as [q|] eqn:Eq; [|exfalso; exact (Ht K1 eq_refl)].
    destruct (Hq q eq_refl) as [G P].
    apply bind_eq.
    { apply bind_eq; [apply parse_quantity_inv2; assumption | intros [q0 u0] ? ?; reflexivity]. }
    intros qo s11 E11.
    (* the quantity is there, so the TIMER_REQUIRES_TIME gate is not consulted *)
    assert (Hsome : exists q1, qo = Some q1).
    { unfold bind in E11. destruct (parse_quantity c1 q s10) as [[[q0 u0] sx]|]; [|discriminate].
      cbv beta iota in E11. destruct (q_unit q0); unfold bind, error, event, ret in E11; inversion E11; eexists; reflexivity. }
    destruct Hsome as [q1 ->]. rewrite !timer_time_untriggered. reflexivity.
  Qed.

  Lemma step_loop_inv2 fuel : forall s, core2 (b_rest s) = true -> step_loop c1 fuel s = step_loop c2 fuel s.
  Proof.
    induction fuel as [|f IH]; intros s Hc; cbn [step_loop]; [reflexivity|].
    apply bind_eq; [reflexivity|]. intros r s0 E0. apply keep_rest in E0. destruct E0 as [-> ->].
    destruct (b_rest s) as [|t0 r0] eqn:Er; [reflexivity|]. rewrite <- Er in Hc.
    apply bind_eq; [reflexivity|]. intros k s1 E1. apply keep_peek in E1. destruct E1 as [-> ->].
    apply bind_eq.
    - destruct (peek_of s) eqn:Ek; try reflexivity; apply with_recover_eq.
      + apply ingredient_inv2, Hc.
      + apply cookware_inv2, Hc.
      + apply timer_inv2, Hc.
    - intros comp s2 E2.
      assert (Hc2 : core2 (b_rest s2) = true).
      { revert E2. destruct (peek_of s) eqn:Ek; intro E2;
          try (unfold ret in E2; inversion E2; subst; exact Hc).
        - exact (core2_step _ _ _ _ (sfx_with_recover _ (sfx_ingredient_p c1)) E2 Hc).
        - exact (core2_step _ _ _ _ (sfx_with_recover _ (sfx_cookware_p c1)) E2 Hc).
        - exact (core2_step _ _ _ _ (sfx_with_recover _ (sfx_timer_p c1)) E2 Hc). }
      destruct comp as [ev|].
      + apply bind_eq; [reflexivity|]. intros u s3 E3. apply IH.
        exact (core2_step _ _ _ _ (sfx_event ev) E3 Hc2).
      + apply bind_eq; [reflexivity|]. intros st s3 E3. apply keep_current_offset in E3. subst s3.
        apply bind_eq; [reflexivity|]. intros tk s4 E4.
        pose proof (core2_step _ _ _ _ sfx_bump_any E4 Hc2) as Hc4.
        apply bind_eq; [reflexivity|]. intros more s5 E5.
        pose proof (core2_step _ _ _ _ (sfx_consume_while _) E5 Hc4) as Hc5.
        apply bind_eq; [reflexivity|]. intros tx s6 E6.
        pose proof (core2_step _ _ _ _ (sfx_textM _ _ _) E6 Hc5) as Hc6.
        apply bind_eq; [reflexivity|]. intros u s7 E7. apply IH.
        refine (core2_step _ _ _ _ _ E7 Hc6). destruct (frags tx); [apply sfx_ret | apply sfx_event].
  Qed.

  Lemma parse_step_inv2 s : core2 (b_rest s) = true -> parse_step c1 s = parse_step c2 s.
  Proof.
    intro Hc. unfold parse_step.
    apply bind_eq; [reflexivity|]. intros u s1 E1. pose proof (core2_step _ _ _ _ (sfx_event _) E1 Hc) as Hc1.
    apply bind_eq; [reflexivity|]. intros r s2 E2. apply keep_rest in E2. destruct E2 as [-> ->].
    apply bind_eq; [apply step_loop_inv2, Hc1 | intros; reflexivity].
  Qed.
End Inv2.

(* ---------------------------------------------------------------- every block kind (mod.rs 359-408) *)
(* a `>>` line whose key, read the way metadata_entry reads it, is not a bracketed config key *)
Definition meta_plain (cfg : pcfg) (t : tok) (r : list tok) : bool :=
  match position (fun k => tk_eqb k KColon) r with
  | Some n =>
      match text_of cfg (tend t) (firstn n r) with
      | Done key => negb (is_config_key key)
      | Panic _ => true
      end
  | None => true
  end.

Definition block_ok (cfg : pcfg) (ts : list tok) : bool :=
  match ts with
  | [] => true
  | t :: r =>
      match kind t with
      | KTextStep => true                         (* text block: no gate on that path *)
      | KMeta => meta_plain cfg t r && core2 ts   (* an entry, or (after a front matter) a step *)
      | _ => core2 ts                             (* section line or step *)
      end
  end.

Lemma with_recover_none {A} (m : M (option A)) s s' :
  with_recover m s = Done (None, s') -> b_rest s' = b_rest s /\ b_all s' = b_all s.
Proof.
  unfold with_recover. destruct (m s) as [[[x|] sx]|]; intro H; inversion H; subst; split; reflexivity.
Qed.

Lemma bind_inv {A B} (m : M A) (f : A -> M B) s b s' :
  bind m f s = Done (b, s') -> exists a s1, m s = Done (a, s1) /\ f a s1 = Done (b, s').
Proof.
  unfold bind. destruct (m s) as [[a s1]|]; intro H; [|discriminate]. exists a, s1. split; [reflexivity | exact H].
Qed.

Section Blocks.
  Variable cfg : pcfg.
  Variables e1 e2 : N.
  Notation c1 := (with_ext cfg e1).
  Notation c2 := (with_ext cfg e2).

  Lemma pmb_inv s :
    peek_of s = KTextStep \/ core2 (b_rest s) = true ->
    parse_multiline_block c1 s = parse_multiline_block c2 s.
  Proof.
    intro H. unfold parse_multiline_block.
    apply bind_eq; [reflexivity|]. intros al s1 E1. unfold all_tokens in E1. inversion E1; subst al s1.
    destruct (forallb _ (b_all s)); [reflexivity|].
    apply bind_eq; [reflexivity|]. intros k s2 E2. apply keep_peek in E2. destruct E2 as [-> ->].
    destruct H as [H|H].
    - rewrite H. reflexivity.
    - destruct (peek_of s); try (apply parse_step_inv2; exact H). reflexivity.
  Qed.

  Lemma metadata_entry_key t r evs key v s' :
    tk_eqb (kind t) KMeta = true ->
    metadata_entry c1 {| b_all := t :: r; b_done := []; b_rest := t :: r; b_evs := evs |}
      = Done (Some (EvMetadata key v), s') ->
    exists n, position (fun k => tk_eqb k KColon) r = Some n /\ text_of cfg (tend t) (firstn n r) = Done key.
  Proof.
    intros K E. unfold metadata_entry in E.
    set (s0 := {| b_all := t :: r; b_done := []; b_rest := t :: r; b_evs := evs |}) in E.
    assert (R0 : b_rest s0 = t :: r) by reflexivity.
    rewrite (obindM_some _ _ _ _ _ (consume_hit KMeta s0 t r R0 K)) in E. cbn [b_all b_done b_evs s0] in E.
    apply bind_inv in E. destruct E as [kp [s1 [E1 E]]].
    unfold current_offset, current_offset_of in E1. cbn [b_done] in E1. inversion E1; subst kp s1. clear E1.
    apply bind_inv in E. destruct E as [ko [s2 [E2 E]]].
    destruct ko as [kts|].
    2:{ unfold bind, all_tokens, warn, event, ret in E. inversion E. }
    destruct (until_some _ _ _ _ E2) as [n [P [-> _]]]. cbn [b_rest] in P.
    exists n. split; [exact P|]. cbn [b_rest] in E.
    apply bind_inv in E. destruct E as [key0 [s3 [E3 E]]].
    unfold textM, lift in E3. rewrite text_of_ext in E3.
    destruct (text_of cfg (tend t) (firstn n r)) as [k0|] eqn:Et; inversion E3; subst k0 s3. clear E3.
    f_equal.
    apply bind_inv in E. destruct E as [? [? [_ E]]].
    apply bind_inv in E. destruct E as [? [? [_ E]]].
    apply bind_inv in E. destruct E as [? [? [_ E]]].
    apply bind_inv in E. destruct E as [? [? [_ E]]].
    apply bind_inv in E. destruct E as [? [? [_ E]]].
    unfold ret in E. inversion E. reflexivity.
  Qed.

  Lemma parse_block_inv2 old t r evs :
    block_ok cfg (t :: r) = true ->
    parse_block c1 old {| b_all := t :: r; b_done := []; b_rest := t :: r; b_evs := evs |}
    = parse_block c2 old {| b_all := t :: r; b_done := []; b_rest := t :: r; b_evs := evs |}.
  Proof.
    intro Hb. set (s0 := {| b_all := t :: r; b_done := []; b_rest := t :: r; b_evs := evs |}).
    unfold parse_block.
    apply bind_eq; [reflexivity|]. intros k s1 E1. apply keep_peek in E1. destruct E1 as [-> ->].
    assert (Hpk : peek_of s0 = kind t) by reflexivity. rewrite Hpk.
    unfold block_ok in Hb.
    (* what is left after a single-line parser declined: the whole block as a step or text block *)
    assert (Fall : forall s2, b_rest s2 = b_rest s0 ->
              (kind t = KTextStep \/ core2 (t :: r) = true) ->
              parse_multiline_block c1 s2 = parse_multiline_block c2 s2).
    { intros s2 R2 H. apply pmb_inv. unfold peek_of. rewrite R2. cbn [b_rest s0]. exact H. }
    destruct (kind t) eqn:K;
      try solve [apply bind_eq; [reflexivity|]; intros mos s2 E2; unfold ret in E2; inversion E2; subst mos s2;
                 apply Fall; [reflexivity | first [left; reflexivity | right; exact Hb]]].
    - (* >> *)
      apply andb_prop in Hb. destruct Hb as [Hm Hc].
      apply bind_eq.
      + apply with_recover_eq. apply obindM_eq; [reflexivity|]. intros ev s2 E2.
        destruct ev; try reflexivity.
        assert (Kt : tk_eqb (kind t) KMeta = true) by (rewrite K; reflexivity).
        destruct (metadata_entry_key _ _ _ _ _ _ Kt E2) as [n [P Et]].
        unfold meta_plain in Hm. rewrite P, Et in Hm. apply negb_true_iff in Hm.
        rewrite !(modes_untriggered _ _ _ Hm). reflexivity.
      + intros mos s2 E2. destruct mos as [ev|]; [reflexivity|].
        destruct (with_recover_none _ _ _ E2) as [R2 _]. apply Fall; [exact R2 | right; exact Hc].
    - (* = *)
      apply bind_eq; [reflexivity|]. intros mos s2 E2. destruct mos as [ev|]; [reflexivity|].
      destruct (with_recover_none _ _ _ E2) as [R2 _]. apply Fall; [exact R2 | right; exact Hb].
  Qed.
End Blocks.

Theorem block_invariant2 cfg e1 e2 old ts evs :
  block_ok cfg ts = true ->
  run_block ts evs (parse_block (with_ext cfg e1) old) = run_block ts evs (parse_block (with_ext cfg e2) old).
Proof.
  intro Hb. unfold run_block. destruct ts as [|t r]; [reflexivity|].
  rewrite (parse_block_inv2 cfg e1 e2 old t r evs Hb). reflexivity.
Qed.

(* ---------------------------------------------------------------- whole documents *)
(* the block splitter (pull_line, more_lines, next_block: mod.rs 224-301) takes no configuration
   at all: in the model it is a function of the token list only *)
Fixpoint blocks_ok (cfg : pcfg) (fuel : nat) (ts : list tok) : bool :=
  match fuel with
  | O => true
  | S f =>
      match next_block (S (length ts)) ts with
      | None => true
      | Some (blk, r) => block_ok cfg blk && blocks_ok cfg f r
      end
  end.

Lemma blocks_loop_inv cfg e1 e2 old fuel :
  forall ts evs, blocks_ok cfg fuel ts = true ->
    blocks_loop (with_ext cfg e1) fuel ts old evs = blocks_loop (with_ext cfg e2) fuel ts old evs.
Proof.
  induction fuel as [|f IH]; intros ts evs H; cbn [blocks_loop]; [reflexivity|].
  cbn [blocks_ok] in H. destruct (next_block (S (length ts)) ts) as [[blk r]|]; [|reflexivity].
  apply andb_prop in H. destruct H as [Hb Hr].
  rewrite (block_invariant2 cfg e1 e2 old blk evs Hb).
  destruct (run_block blk evs (parse_block (with_ext cfg e2) old)) as [evs'|p]; cbn [obind]; [|reflexivity].
  apply IH, Hr.
Qed.

Definition core_doc (U : N -> ucls) (cfg : pcfg) (s : str) : bool :=
  match parse_frontmatter cfg s with
  | Some fm =>
      match lex_at U (cook_text fm) (cook_off fm) with
      | Some ts => blocks_ok cfg (S (length ts)) ts
      | None => true
      end
  | None =>
      match lex_at U s 0 with
      | Some ts => blocks_ok cfg (S (length ts)) ts
      | None => true
      end
  end.

Theorem events_invariant U cfg e1 e2 s :
  core_doc U cfg s = true -> events U (with_ext cfg e1) s = events U (with_ext cfg e2) s.
Proof.
  intro H. unfold events, core_doc in *.
  assert (F : forall e, parse_frontmatter (with_ext cfg e) s = parse_frontmatter cfg s) by reflexivity.
  rewrite !F. destruct (parse_frontmatter cfg s) as [fm|].
  - destruct (lex_at U (cook_text fm) (cook_off fm)) as [ts|]; [|reflexivity].
    rewrite (blocks_loop_inv cfg e1 e2 false _ ts _ H). reflexivity.
  - destruct (lex_at U s 0) as [ts|]; [|reflexivity].
    rewrite (blocks_loop_inv cfg e1 e2 true _ ts _ H). reflexivity.
Qed.

(* the metadata-only iterator never consults the extensions at all *)
Theorem meta_events_invariant U cfg e1 e2 s :
  meta_events U (with_ext cfg e1) s = meta_events U (with_ext cfg e2) s.
Proof. reflexivity. Qed.

(* ---------------------------------------------------------------- what a core ingredient event looks like *)
Lemma obindM_inv {A B} (m : M (option A)) (f : A -> M (option B)) s b s' :
  obindM m f s = Done (Some b, s') -> exists a s1, m s = Done (Some a, s1) /\ f a s1 = Done (Some b, s').
Proof.
  unfold obindM, bind. destruct (m s) as [[[a|] s1]|]; intro H; try discriminate.
  exists a, s1. split; [reflexivity | exact H].
Qed.

(* on a core block an ingredient carries no modifier and no intermediate reference, so the
   analysis pass never treats it as a reference by its syntax (event_consumer.rs 1061-1100) *)
Lemma ingredient_plain cfg s ev s' :
  core2 (b_rest s) = true -> ingredient_p cfg s = Done (Some ev, s') ->
  exists i, ev = EvIngredient i /\ i_mods i = 0 /\ i_inter i = None.
Proof.
  intros Hc E. unfold ingredient_p in E.
  apply bind_inv in E. destruct E as [start [s0 [E0 E]]]. apply keep_current_offset in E0. subst s0.
  apply obindM_inv in E. destruct E as [at_ [s1 [E1 E]]]. destruct (consume_some _ _ _ _ E1) as [R1 K1].
  apply bind_inv in E. destruct E as [mpos [s2 [E2 E]]]. apply keep_current_offset in E2. subst s2.
  rewrite R1 in Hc.
  assert (Hmk : is_marker (kind at_) = true) by (eapply is_marker_of; [exact K1|reflexivity]).
  pose proof (marker_no_modifier at_ s1 Hmk Hc) as Hm.
  apply bind_inv in E. destruct E as [mts [s3 [E3 E]]].
  rewrite (modifiers_untriggered _ _ Hm) in E3. inversion E3; subst mts s3. clear E3.
  apply bind_inv in E. destruct E as [noff [s4 [_ E]]].
  apply obindM_inv in E. destruct E as [bd [s5 [_ E]]].
  apply bind_inv in E. destruct E as [nt [s6 [_ E]]].
  apply bind_inv in E. destruct E as [en [s7 [_ E]]].
  apply bind_inv in E. destruct E as [[name alias] [s8 [_ E]]].
  apply bind_inv in E. destruct E as [u [s9 [_ E]]].
  apply bind_inv in E. destruct E as [[[m msp] inter] [s10 [E10 E]]].
  unfold parse_modifiers, ret in E10. inversion E10; subst m msp inter s10. clear E10.
  apply bind_inv in E. destruct E as [q [s11 [_ E]]].
  unfold ret in E. inversion E. eexists. split; [reflexivity|]. split; reflexivity.
Qed.

(* ---------------------------------------------------------------- the first class is contained in the wider one *)
Lemma good_no_or_b l : Forall goodt l -> no_or l = true.
Proof.
  intro H. unfold no_or. apply negb_true_iff.
  induction H as [|t r Ht _ IH]; [reflexivity|]. cbn [existsb]. rewrite IH, orb_false_r.
  unfold goodt in Ht. destruct (kind t); try reflexivity; discriminate.
Qed.

Lemma Forall_tl {A} (P : A -> Prop) l : Forall P l -> Forall P (tl l).
Proof. intro H. destruct H; [constructor | assumption]. Qed.

Lemma good_lock_strip l : Forall goodt l -> Forall goodt (lock_strip l).
Proof.
  intro H. unfold lock_strip.
  assert (G : Forall goodt (dw is_ws_comment l)) by (apply Forall_skipn', H).
  destruct (dw is_ws_comment l) as [|t r]; [constructor|].
  destruct (kind t); try exact G; exact (Forall_tl _ _ G).
Qed.

Lemma core_tokens_core2 ts : core_tokens ts = true -> core2 ts = true.
Proof.
  induction ts as [|t r IH]; intro H; [reflexivity|].
  pose proof (core_good _ H) as G. cbn [core_tokens] in H. apply andb_prop in H. destruct H as [L Hr].
  cbn [core2]. rewrite (IH Hr), andb_true_r.
  pose proof (core_good _ Hr) as Gr.
  unfold local_ok in L. apply andb_prop in L. destruct L as [L Lb]. apply andb_prop in L. destruct L as [Lk Lm].
  unfold local_ok2. repeat (apply andb_true_intro; split).
  - destruct (is_marker (kind t)); [|reflexivity]. apply andb_true_intro. split.
    + destruct r as [|t2 r2]; [reflexivity|]. unfold head_kind in *. inversion Gr; subst.
      unfold goodt in H1. destruct (kind t2); try reflexivity; try discriminate H1; discriminate Lm.
    + unfold name_ok. destruct (position is_marker_or_open r); [|reflexivity].
      rewrite (good_no_or_b _ (Forall_firstn' _ _ _ Gr)). apply orb_true_r.
  - destruct (tk_eqb (kind t) KOpenBrace); [|reflexivity].
    unfold qty_ok in Lb. unfold qty_ok2, is_blank_qty.
    destruct (forallb (fun t0 => is_ws_block (kind t0)) (until_close r)); [reflexivity|].
    cbn [orb] in *. apply andb_true_intro. split.
    + unfold adv_none. rewrite Lb. reflexivity.
    + unfold range_quiet. rewrite good_no_minus; [reflexivity|].
      unfold value_tokens, tw. apply Forall_firstn', good_lock_strip.
      unfold until_close. destruct (position _ r); [apply Forall_firstn', Gr | constructor].
  - apply negb_true_iff in Lk. destruct (kind t); try reflexivity; discriminate Lk.
Qed.
