(* The two facts about parser events that the label forms FJoinKV and FYamlKey/FYamlErr need
   ([ev_fact], Model/AnalysisLabels.v) hold for every event of the pull parser:
   - a metadata entry's key starts at or before the end of its value (the key text is built from
     the tokens before the colon, the value text from the tokens after it; metadata.rs 42-77),
   - the only front matter event is the one [events] starts with, built by Text::from_str.
   Partial correctness over the traversal of Proofs/ParserTotal.v: everything below the block
   level pushes diagnostics only (Proofs/ParserWp.v); the one event that needs the token
   invariant [wf] is the metadata entry, parsed on the initial state of its block. *)
From CL Require Import Base.StrLemmas Model.Lexer Model.Parser Model.EventBridge
  Proofs.LexerProofs Proofs.ParserSeg Proofs.ParserSplit Proofs.ParserFM Proofs.ParserWp Proofs.ParserTotal
  Proofs.ParserShape Model.AnalysisLabels.
From Coq Require Import Lia.
Open Scope N_scope.

Lemma runs_det {A} (m : M A) s (R : A -> bp -> Prop) a s' : runs m s R -> m s = Done (a, s') -> R a s'.
Proof. intros (a0 & s0 & E & H) E'. rewrite E in E'. injection E' as <- <-. exact H. Qed.

Lemma fact_diags ds evs : Forall (fun e => is_diag e = true) ds -> Forall ev_fact evs -> Forall ev_fact (ds ++ evs).
Proof.
  intros F H. apply Forall_app. split; [|exact H]. eapply Forall_impl; [|exact F].
  intros e He. destruct e; try discriminate. exact I.
Qed.

Lemma fact_quiet s s' : quiet s s' -> Forall ev_fact (b_evs s) -> Forall ev_fact (b_evs s').
Proof. intros (ds & -> & F). apply fact_diags. exact F. Qed.

(* [m] keeps "every queued event satisfies ev_fact" and its result satisfies P *)
Definition aq {A} (m : M A) (P : A -> Prop) : Prop :=
  forall s a s', m s = Done (a, s') -> (Forall ev_fact (b_evs s) -> Forall ev_fact (b_evs s')) /\ P a.

Lemma aq_bind {A B} (m : M A) (f : A -> M B) P Q :
  aq m P -> (forall a, P a -> aq (f a) Q) -> aq (bind m f) Q.
Proof.
  intros Hm Hf s b s2 E1. unfold bind in E1. destruct (m s) as [[a s1]|x] eqn:Em; [|discriminate].
  destruct (Hm _ _ _ Em) as (H1 & Pa). destruct (Hf a Pa _ _ _ E1) as (H2 & Qb). split; [tauto|exact Qb].
Qed.

Lemma aq_relv k {A} (m : M A) P : rel k m -> valp m P -> aq m P.
Proof.
  intros Hr Hv s a s' E1. split; [|eapply Hv; exact E1]. apply fact_quiet. eapply rl_quiet, Hr. exact E1.
Qed.

Lemma aq_rel k {A} (m : M A) : rel k m -> aq m any.
Proof. intros Hr. eapply aq_relv; [exact Hr|]. intros s a s' _. exact I. Qed.

Lemma aq_ret {A} (a : A) (P : A -> Prop) : P a -> aq (ret a) P.
Proof. intros H s a' s' E1. injection E1 as <- <-. tauto. Qed.

Lemma aq_panic {A} site (P : A -> Prop) : aq (panic site) P.
Proof. intros s a s' E1. discriminate. Qed.

Lemma aq_event ev : ev_fact ev -> aq (event ev) any.
Proof. intros H s a s' E1. injection E1 as _ <-. split; [|exact I]. cbn [b_evs]. intro H0. constructor; assumption. Qed.

Lemma item_fact ev : item_ok ev -> ev_fact ev.
Proof. unfold item_ok. destruct ev; try (intros _; exact I); cbn; discriminate. Qed.

Section Blocks.
  Variable src : str.
  Variable cfg : pcfg.
  Hypothesis no_strict : p_strict_escape cfg = false.

  Lemma step_comp_aq k :
    aq (match k with
        | KAt => with_recover (ingredient_p cfg)
        | KHash => with_recover (cookware_p cfg)
        | KTilde => with_recover (timer_p cfg)
        | _ => ret None
        end) opt_item_ok.
  Proof.
    destruct k; try (apply aq_ret; apply opt_item_ok_none);
      (eapply aq_relv; [apply rel_with_recover; auto with prel|apply valp_with_recover]).
    - apply valp_ingredient_p.
    - apply valp_cookware_p.
    - apply valp_timer_p.
  Qed.

  Ltac mrel := eapply aq_bind; [eapply (aq_rel false); first [solve [auto with prel]|apply rel_weaken; solve [auto with prel]]|intros ? _].

  Lemma step_loop_aq fuel : aq (step_loop cfg fuel) any.
  Proof.
    induction fuel as [|f IH]; cbn [step_loop]; [apply aq_panic|].
    eapply aq_bind; [eapply (aq_rel false); auto with prel|]. intros r _.
    destruct r as [|r0 rr]; [apply aq_ret; exact I|].
    mrel. eapply aq_bind; [apply step_comp_aq|]. intros [ev|] Hev.
    - eapply aq_bind; [apply aq_event, item_fact, Hev; reflexivity|]. intros _ _. exact IH.
    - mrel. mrel. mrel. eapply aq_bind; [eapply (aq_rel false); auto with prel|]. intros t _.
      eapply (aq_bind _ _ any); [|intros _ _; exact IH].
      destruct (frags t) as [|f0 fr] eqn:Ef; [apply aq_ret; exact I|].
      apply aq_event. exact I.
  Qed.

  Lemma parse_step_aq : aq (parse_step cfg) any.
  Proof.
    unfold parse_step. eapply aq_bind; [apply aq_event; exact I|]. intros _ _.
    mrel. eapply aq_bind; [apply step_loop_aq|]. intros _ _. apply aq_event. exact I.
  Qed.

  Lemma text_block_loop_aq fuel : aq (text_block_loop cfg fuel) any.
  Proof.
    induction fuel as [|f IH]; cbn [text_block_loop]; [apply aq_panic|].
    eapply aq_bind; [eapply (aq_rel false); auto with prel|]. intros r _.
    destruct r as [|r0 rr]; [apply aq_ret; exact I|].
    mrel. eapply aq_bind; [eapply (aq_rel false)|intros ? _].
    { match goal with |- rel _ (match ?x with _ => _ end) => destruct x end; rel_auto. }
    mrel. mrel. mrel. eapply aq_bind; [eapply (aq_rel false); auto with prel|]. intros t _.
    eapply (aq_bind _ _ any).
    - destruct (is_text_empty t) eqn:Ee; [apply aq_ret; exact I|]. apply aq_event. exact I.
    - intros _ _. mrel. destruct (_ <? _)%nat; [exact IH|apply aq_panic].
  Qed.

  Lemma parse_text_block_aq : aq (parse_text_block cfg) any.
  Proof.
    unfold parse_text_block. eapply aq_bind; [apply aq_event; exact I|]. intros _ _.
    mrel. eapply aq_bind; [apply text_block_loop_aq|]. intros _ _. apply aq_event. exact I.
  Qed.

  Lemma parse_multiline_block_aq : aq (parse_multiline_block cfg) any.
  Proof.
    unfold parse_multiline_block. mrel. destruct (forallb _ _).
    - eapply (aq_rel false). rel_auto.
    - mrel. match goal with |- aq (match ?x with _ => _ end) _ => destruct x end;
        first [apply parse_text_block_aq|apply parse_step_aq].
  Qed.

  (* ---- the single-line events ---- *)
  Definition opt_fact (o : option pevent) : Prop := forall ev, o = Some ev -> ev_fact ev.

  Lemma opt_fact_none : opt_fact None.
  Proof. intros ev H. discriminate. Qed.

  Ltac fskip :=
    lazymatch goal with
    | |- valp (obindM _ _) _ => apply valp_oskip; [apply opt_fact_none|intros ?]
    | |- valp (bind _ _) _ => apply valp_skip; intros ?
    end.

  Lemma valp_section_fact : valp (section_p cfg) opt_fact.
  Proof.
    unfold section_p. do 8 fskip. destruct a6.
    - apply valp_ret. intros ev H. injection H as <-. exact I.
    - fskip. apply valp_ret. apply opt_fact_none.
  Qed.

  Notation wf := (wf src cfg).
  Notation cur := current_offset_of.

  (* the key text lies before the colon, the value text after it *)
  Lemma metadata_entry_fact s : wf s -> runs (metadata_entry cfg) s (fun o _ => opt_fact o).
  Proof.
    intro Hw. unfold metadata_entry. apply runs_obindM. apply (runs_consume src cfg); [exact Hw|discriminate| |].
    2:{ intros _. apply opt_fact_none. }
    intros m s1 Ht1 _ _ _ _ _. pose proof (took_wf _ _ _ _ _ Ht1) as Hw1.
    apply runs_bind, runs_current_offset. apply runs_bind. apply (runs_until src cfg); [exact Hw1| |].
    - intros kts s2 t2 r2 Ht2 Er2 Hk2 _. pose proof (took_wf _ _ _ _ _ Ht2) as Hw2.
      apply runs_bind. eapply (runs_textM src cfg no_strict); [eapply took_seg; exact Ht2|]. intros key Hkey.
      apply runs_bind. apply (runs_bump src cfg); [exact Hw2|exists t2, r2; split; [exact Er2|apply tk_eqb_true; exact Hk2]|].
      intros c s3 Ht3 _ _ _ _ _. pose proof (took_wf _ _ _ _ _ Ht3) as Hw3.
      apply runs_bind, runs_current_offset. apply runs_bind. apply (runs_consume_rest src cfg); [exact Hw3|].
      intros vts s4 Ht4 E4. pose proof (took_wf _ _ _ _ _ Ht4) as Hw4.
      apply runs_bind. eapply (runs_textM src cfg no_strict); [eapply took_seg; exact Ht4|]. intros v Hv.
      apply runs_bind.
      assert (Hfin : forall s5, wf s5 -> same_pos s4 s5 ->
                runs (ret (Some (EvMetadata key v))) s5 (fun o _ => opt_fact o)).
      { intros s5 Hw5 Hp5. apply runs_ret. intros ev E. injection E as <-. cbn [ev_fact].
        pose proof (text_in_le _ _ _ _ Hkey) as (K1 & K2 & K3). pose proof (text_in_le _ _ _ _ Hv) as (V1 & V2 & V3).
        pose proof (took_cur_le _ _ _ _ _ Ht3). lia. }
      pose proof (text_in_span_ok _ _ _ _ Hkey) as Hks. pose proof (text_in_span_ok _ _ _ _ Hv) as Hvs.
      destruct (is_text_empty key).
      + apply (runs_error src cfg); [exact Hw4|constructor; [exact Hks|constructor]|exact Hfin].
      + destruct (is_text_empty v).
        * apply (runs_warn src cfg); [exact Hw4|constructor; [exact Hvs|constructor; [exact Hks|constructor]]|exact Hfin].
        * apply runs_ret. apply Hfin; [exact Hw4|apply same_pos_refl].
    - intros _. apply runs_bind, runs_all_tokens. apply runs_bind.
      apply (runs_warn src cfg); [exact Hw1|constructor; [apply (wf_all_span src cfg); exact Hw1|constructor]|].
      intros s2 Hw2 Hp2. apply runs_ret. apply opt_fact_none.
  Qed.

  (* ---- a block ---- *)
  Lemma parse_block_fact old_style s u s' :
    wf s -> parse_block cfg old_style s = Done (u, s') ->
    Forall ev_fact (b_evs s) -> Forall ev_fact (b_evs s').
  Proof.
    intros Hw H F. unfold parse_block in H. unfold bind at 1 in H.
    change (peek s) with (Done (peek_of s, s)) in H. cbv beta iota in H.
    unfold bind at 1 in H.
    match type of H with match ?m s with _ => _ end = _ => set (m1 := m) in H end.
    destruct (m1 s) as [[mos s1]|x] eqn:E1; [|discriminate].
    assert (G : Forall ev_fact (b_evs s1) /\ opt_fact mos).
    { unfold m1 in E1. destruct (peek_of s);
        try (injection E1 as <- <-; split; [exact F|apply opt_fact_none]).
      - (* KMeta *)
        match type of E1 with with_recover ?m s = _ => set (m2 := m) in E1 end.
        assert (R2 : rel false (with_recover m2)) by (unfold m2; rel_auto).
        split; [eapply fact_quiet; [eapply rl_quiet, R2; exact E1|exact F]|].
        unfold with_recover in E1. destruct (m2 s) as [[[a|] s2]|x] eqn:E2; try discriminate.
        + injection E1 as <- <-. unfold m2, obindM, bind in E2.
          destruct (metadata_entry cfg s) as [[[ev0|] s3]|x] eqn:E0; try discriminate.
          pose proof (runs_det _ _ _ _ _ (metadata_entry_fact s Hw) E0) as F0. cbn beta in F0.
          assert (Ea : a = ev0).
          { destruct ev0; unfold ret in E2; try (injection E2 as <- _; reflexivity).
            destruct (meta_kept cfg old_style key); [injection E2 as <- _; reflexivity|discriminate]. }
          subst a. exact F0.
        + injection E1 as <- _. apply opt_fact_none.
      - (* KEq *)
        assert (R2 : rel false (with_recover (section_p cfg))) by (apply rel_with_recover; auto with prel).
        split; [eapply fact_quiet; [eapply rl_quiet, R2; exact E1|exact F]|].
        eapply (valp_with_recover _ opt_fact); [apply valp_section_fact|exact E1]. }
    destruct G as (F1 & Fm). destruct mos as [ev|].
    - unfold event in H. injection H as _ <-. cbn [b_evs]. constructor; [apply Fm; reflexivity|exact F1].
    - destruct (parse_multiline_block_aq _ _ _ H) as (H1 & _). apply H1. exact F1.
  Qed.

  Lemma run_block_fact ts a b evs old_style evs' :
    ts <> [] -> seg src a ts b -> Forall (ev_ok src cfg) evs -> Forall ev_fact evs ->
    run_block ts evs (parse_block cfg old_style) = Done evs' -> Forall ev_fact evs'.
  Proof.
    intros Hn Hseg Hev F. unfold run_block. destruct ts as [|t0 tr] eqn:E; [congruence|]. rewrite <- E in *.
    set (s0 := {| b_all := ts; b_done := []; b_rest := ts; b_evs := evs |}).
    assert (Hw0 : wf s0).
    { unfold s0, ParserTotal.wf, base_offset; cbn [b_all b_done b_rest b_evs rev app]. split; [reflexivity|]. split; [|exact Hev].
      exists b. rewrite E in *. destruct Hseg as (Ha & H). rewrite Ha. cbn [ParserSeg.seg]. tauto. }
    destruct (parse_block cfg old_style s0) as [[u s1]|x] eqn:Em; [|discriminate].
    destruct (b_rest s1); [|discriminate]. intro H. injection H as <-.
    eapply parse_block_fact; [exact Hw0|exact Em|exact F].
  Qed.

  Lemma blocks_loop_fact fuel : forall ts off en old_style evs evs',
    seg src off ts en -> Forall (ev_ok src cfg) evs -> Forall ev_fact evs ->
    blocks_loop cfg fuel ts old_style evs = Done evs' -> Forall ev_fact evs'.
  Proof.
    induction fuel as [|f IH]; intros ts off en old_style evs evs' Hseg Hev F H; cbn [blocks_loop] in H; [discriminate|].
    destruct (next_block (S (length ts)) ts) as [[blk r]|] eqn:En; [|injection H as <-; exact F].
    destruct (next_block_seg src _ _ _ _ _ _ Hseg En) as (Hn & Hlr & (a & b & Hblk) & (c & Hr)).
    destruct (run_block_ok src cfg no_strict blk a b evs old_style Hn Hblk Hev) as (evs1 & E1 & Hev1).
    rewrite E1 in H. cbn [obind] in H.
    eapply IH; [exact Hr|exact Hev1| |exact H].
    exact (run_block_fact blk a b evs old_style evs1 Hn Hblk Hev F E1).
  Qed.
End Blocks.

Theorem events_ev_fact (U : N -> ucls) (cfg : pcfg) (s : str) (evs : list pevent) :
  p_strict_escape cfg = false -> events U cfg s = Done evs -> Forall ev_fact evs.
Proof.
  intros Hc H. unfold events in H. destruct (parse_frontmatter cfg s) as [fm|] eqn:Ef.
  - destruct (parse_frontmatter_located _ _ _ Ef) as ((pre & Es & Hp) & Hy).
    destruct (lex_at U (cook_text fm) (cook_off fm)) as [ts|] eqn:El; [|discriminate].
    pose proof (lex_at_seg U _ _ _ pre El Hp) as Hseg. rewrite <- Es in Hseg.
    match type of H with obind ?y _ = _ => destruct y as [evs1|] eqn:Eb; cbn [obind] in H; [|discriminate] end.
    injection H as <-. apply Forall_rev.
    eapply (blocks_loop_fact s cfg Hc); [exact Hseg| | |exact Eb].
    + constructor; [|constructor]. cbn [ev_ok]. apply (text_from_str_ok s). exact Hy.
    + constructor; [|constructor]. cbn [ev_fact]. eauto.
  - destruct (lex_at U s 0) as [ts|] eqn:El; [|discriminate].
    pose proof (lex_seg U _ _ El) as Hseg.
    match type of H with obind ?y _ = _ => destruct y as [evs1|] eqn:Eb; cbn [obind] in H; [|discriminate] end.
    injection H as <-. apply Forall_rev.
    eapply (blocks_loop_fact s cfg Hc); [exact Hseg|constructor|constructor|exact Eb].
Qed.
