(* C07, soundness of the analysis stage (partial): a decidable class of "clean" event streams on
   which the collector of Model/AnalysisDiag.v pushes no diagnostic at all.

   [clean_event st ev] is stated on the shape of the event and the collector state, never on the
   diagnostic functions:
     front matter   accepted by serde_yaml, every standard key has an accepted value, `time` does
                    not come with `prep time` / `cook time`;
     `>>` entry     a config key ([mode], [define], [duplicate]) has one of its accepted values; any
                    other key that is a standard key has an accepted value and does not override /
                    is not overridden by an earlier time entry;
     text           in components mode it has no alphanumeric character;
     ingredient,    inside a step (not in text mode); no scaling lock without effect; `+` only where
     cookware       it changes something, `&` only where it is not implied by the mode, never both;
                    a component treated as a reference has an earlier definition of that name, adds
                    no modifier the definition lacks, has no note, has no quantity when the
                    definition has one outside a step, agrees with it on text / numeric values and
                    (ADVANCED_UNITS) its unit can be added to those of the definition and of the
                    earlier references; an intermediate reference has none of RECIPE/HIDDEN/NEW and
                    resolves to an earlier step / section;
     timer          inside a step; no scaling lock; with ADVANCED_UNITS a numeric duration in a time
                    unit of the oracle;
     no parser diagnostic in the stream.
   [clean_run] checks every event against the state the collector is in when it meets it. *)
From Coq Require Import ZArith Lia Bool.
From CL Require Import Base.StrLemmas Model.Parser Model.Diag Model.EventBridge Model.AnalysisLabels
  Model.AnalysisDiag Proofs.DiagProofs Proofs.DiagPlaced.
From CL Require Model.Analysis Proofs.DiagAnalysisProofs.
Open Scope N_scope.

Definition value_text (v : qvalue) : bool := Events.pvalue_is_text (abstract_value (qv v)).
Definition has_lock (v : qvalue) : bool := match qlock v with Some _ => true | None => false end.

(* a scaling lock only where it has an effect: on a numeric ingredient quantity *)
Definition clean_value (is_ingredient : bool) (v : qvalue) : bool :=
  negb (has_lock v) || (is_ingredient && negb (value_text v)).

Section Clean.
Variable ci_key : str -> str.
Variable yaml_ok : str -> bool.
Variable find_iq : str -> option (str * str).
Variable unit_class : str -> N.
Variable input : str.
Variable x : Analysis.aext.
Variable cfg : Analysis.acfg.
Variable dc : dcfg.
Variable yaml_err_index : str -> option N.
Variable yaml_std_bad : str -> list str.
Variable yaml_has_key : str -> str -> bool.
Variable std_check : str -> str -> bool.
Variable is_alnum : N -> bool.
Variable unit_pq : str -> option N.

Notation dstep := (dstep ci_key yaml_ok find_iq unit_class input x cfg dc yaml_err_index yaml_std_bad yaml_has_key std_check is_alnum unit_pq).
Notation drun := (drun ci_key yaml_ok find_iq unit_class input x cfg dc yaml_err_index yaml_std_bad yaml_has_key std_check is_alnum unit_pq).
Notation ediags := (ediags ci_key yaml_ok unit_class x dc yaml_err_index yaml_std_bad yaml_has_key std_check is_alnum unit_pq).
Notation astep := (AnalysisDiag.astep ci_key yaml_ok find_iq unit_class input x cfg dc yaml_err_index yaml_std_bad yaml_has_key std_check is_alnum unit_pq).

(* how a component without diagnostics of resolve_reference resolves:
   None = not clean, Some None = a definition, Some (Some j) = a reference to the definition at j *)
Definition clean_resolve (s : Analysis.astate) (tbl : list Analysis.component) (inherit m : Events.modifiers)
    (name : str) : option (option nat) :=
  let same := Analysis.same_name ci_key tbl name in
  let steps := Analysis.dm_eqb (Analysis.a_define s) Analysis.DMSteps in
  let dref := Analysis.dup_is_ref (Analysis.a_duplicate s) in
  if Events.m_new m then
    if negb (Events.m_ref m) && (steps || (dref && Events.is_some same)) then Some None else None
  else if Events.m_ref m && (dref || steps) then None
  else if negb (Events.m_ref m || steps || (dref && Events.is_some same)) then Some None
  else match same with
       | Some j =>
           match nth_error tbl j with
           | Some def =>
               if Events.mods_is_empty (Events.mods_diff (Events.mods_diff m
                    (Events.mods_and (Analysis.c_mods def) inherit)) Events.M_ref_only)
               then Some (Some j) else None
           | None => None
           end
       | None => None
       end.

Definition compat_ok (old new : option str) : bool :=
  match compatible_unit unit_pq old new with IcOk => true | _ => false end.

Definition clean_ingredient (st : dstate) (i : ingredient) : bool :=
  let s := ds_a st in
  let tbl := Analysis.a_ingredients s in
  match i_qty i with Some q => clean_value true (q_val q) | None => true end &&
  match i_inter i with
  | Some d =>
      negb (Events.mods_intersects (imods i) Analysis.inter_invalid) &&
      match Analysis.resolve_intermediate_ref s (abstract_inter d) with Done (Some _) => true | _ => false end
  | None =>
      match clean_resolve s tbl Analysis.inherit_ingredient (imods i) (iname i) with
      | None => false
      | Some None => true
      | Some (Some j) =>
          match nth_error tbl j with
          | None => false
          | Some def =>
              negb (Events.is_some (i_note i)) &&
              match i_qty i with
              | None => true
              | Some q =>
                  negb (Events.is_some (Analysis.c_qty def) && negb (def_in_step def)) &&
                  match Analysis.c_qty def with
                  | Some dq => Bool.eqb (value_text (q_val q)) (Analysis.qi_text dq)
                  | None => true
                  end &&
                  (negb (Analysis.x_advanced x) ||
                   match Analysis.c_rel def with
                   | Analysis.RDef rf _ =>
                       forallb (fun k => match nth_error tbl k with
                                         | Some c => match Analysis.c_qty c with
                                                     | Some qi => compat_ok (Analysis.qi_unit qi) (option_map text_trimmed (q_unit q))
                                                     | None => true
                                                     end
                                         | None => false
                                         end) (j :: rf)
                   | Analysis.RRef _ _ => false
                   end)
              end
          end
      end
  end.

Definition clean_cookware (st : dstate) (c : cookware) : bool :=
  let s := ds_a st in
  let tbl := Analysis.a_cookware s in
  match c_qty c with Some (v, _) => clean_value false v | None => true end &&
  match clean_resolve s tbl Analysis.inherit_cookware (cmods c) (cname c) with
  | None => false
  | Some None => true
  | Some (Some j) =>
      match nth_error tbl j with
      | None => false
      | Some def =>
          negb (Events.is_some (c_note c)) &&
          match c_qty c with
          | None => true
          | Some (v, _) =>
              negb (Events.is_some (Analysis.c_qty def) && negb (def_in_step def)) &&
              match Analysis.c_qty def with
              | Some dq => Bool.eqb (value_text v) (Analysis.qi_text dq)
              | None => true
              end
          end
      end
  end.

Definition clean_timer (t : timer) : bool :=
  match t_qty t with
  | None => true
  | Some q =>
      clean_value false (q_val q) &&
      (negb (Analysis.x_advanced x) ||
       (negb (value_text (q_val q)) &&
        match q_unit q with Some u => unit_class (text_trimmed u) =? 1 | None => true end))
  end.

Definition is_none {A} (o : option A) : bool := match o with None => true | Some _ => false end.

Definition clean_metadata (st : dstate) (k v : text) : bool :=
  let key_t := text_trimmed k in
  let value_t := text_outer_trimmed v in
  if Analysis.x_modes x && (match key_t with c :: _ => c =? 91 | [] => false end)
     && (match rev key_t with c :: _ => c =? 93 | [] => false end)
  then
    let ck := removelast (tl key_t) in
    if str_eqb ck Analysis.s_define || str_eqb ck Analysis.s_mode then
      mem_str value_t [Analysis.s_all; Analysis.s_default; Analysis.s_components; Analysis.s_ingredients;
                       Analysis.s_steps; Analysis.s_text]
    else str_eqb ck Analysis.s_duplicate &&
         mem_str value_t [Analysis.s_new; Analysis.s_default; Analysis.s_reference; Analysis.s_ref]
  else
    match std_key key_t with
    | None => true
    | Some sk =>
        std_check key_t value_t &&
        match sk with
        | SKOther => true
        | SKTime => is_none (ds_prep st) && is_none (ds_cook st)
        | SKPrep | SKCook => is_none (ds_time st)
        end
    end.

Definition clean_frontmatter (t : text) : bool :=
  let y := text_str t in
  yaml_ok y && Events.is_nil (yaml_std_bad y) &&
  negb (yaml_has_key y s_time && (yaml_has_key y s_prep_time || yaml_has_key y s_cook_time)).

Definition in_step_b (st : dstate) : bool :=
  match Analysis.a_block (ds_a st) with Some (Analysis.BStep _) => true | _ => false end.

Definition clean_event (st : dstate) (ev : pevent) : bool :=
  match ev with
  | EvYaml t => clean_frontmatter t
  | EvMetadata k v => clean_metadata st k v
  | EvSection _ | EvStart _ | EvEnd _ => true
  | EvText t =>
      negb (in_step_b st && Analysis.dm_eqb (Analysis.a_define (ds_a st)) Analysis.DMComponents
            && existsb is_alnum (text_str t))
  | EvIngredient i => in_step_b st && clean_ingredient st i
  | EvCookware c => in_step_b st && clean_cookware st c
  | EvTimer t => in_step_b st && clean_timer t
  | EvDiag _ => false
  end.

(* every event is clean for the state the collector is in when it meets it *)
Fixpoint clean_run (st : dstate) (evs : list pevent) : bool :=
  match evs with
  | [] => true
  | e :: r =>
      clean_event st e &&
      match dstep st e with
      | Done (st1, _) => clean_run st1 r
      | Panic _ => false
      end
  end.

(* ---- lemmas ---- *)
Lemma clean_value_diags b v : clean_value b v = true -> value_diags b v = [].
Proof.
  unfold clean_value, value_diags, has_lock, value_text. cbn [abstract_qvalue Events.qv_lock Events.qv_value].
  destruct (qlock v); cbn [negb orb andb]; [|reflexivity].
  destruct b; cbn [andb negb orb]; [|discriminate].
  destruct (Events.pvalue_is_text _); [discriminate|reflexivity].
Qed.

Lemma clean_resolve_def s tbl inherit new loc mloc r :
  clean_resolve s tbl inherit (Analysis.c_mods new) (Analysis.c_name new) = Some None ->
  Analysis.resolve_reference ci_key s tbl inherit new = Done r ->
  rr_diags ci_key s tbl inherit new loc mloc = [] /\ Analysis.rs_target r = None.
Proof.
  unfold clean_resolve, Analysis.resolve_reference, rr_diags.
  destruct (Events.m_new (Analysis.c_mods new)); destruct (Events.m_ref (Analysis.c_mods new)); cbn [andb negb orb].
  - discriminate.
  - destruct (Analysis.dm_eqb _ _); cbn [orb negb].
    + intros _ H. injection H as <-. auto.
    + destruct (Analysis.dup_is_ref _); cbn [andb negb]; [|discriminate].
      destruct (Events.is_some _); [|discriminate]. intros _ H. injection H as <-. auto.
  - destruct (Analysis.dup_is_ref _ || Analysis.dm_eqb _ _); [discriminate|]. cbn [negb].
    destruct (Analysis.same_name ci_key tbl (Analysis.c_name new)) as [j|]; [|discriminate].
    destruct (nth_error tbl j); [|discriminate]. destruct (Events.mods_is_empty _); discriminate.
  - destruct (Analysis.dm_eqb _ _ || _) eqn:Et; cbn [negb].
    + destruct (Analysis.same_name ci_key tbl (Analysis.c_name new)) as [j|]; [|discriminate].
      destruct (nth_error tbl j); [|discriminate]. destruct (Events.mods_is_empty _); discriminate.
    + intros _ H. rewrite andb_false_r. cbn [orb]. injection H as <-. auto.
Qed.

Lemma clean_resolve_ref s tbl inherit new loc mloc r j :
  clean_resolve s tbl inherit (Analysis.c_mods new) (Analysis.c_name new) = Some (Some j) ->
  Analysis.resolve_reference ci_key s tbl inherit new = Done r ->
  rr_diags ci_key s tbl inherit new loc mloc = [] /\ exists imp, Analysis.rs_target r = Some (j, imp).
Proof.
  unfold clean_resolve, Analysis.resolve_reference, rr_diags.
  destruct (Events.m_new (Analysis.c_mods new)); destruct (Events.m_ref (Analysis.c_mods new)); cbn [andb negb orb].
  - discriminate.
  - destruct (Analysis.dm_eqb _ _ || _); discriminate.
  - destruct (Analysis.dup_is_ref _ || Analysis.dm_eqb _ _); [discriminate|]. cbn [negb andb].
    destruct (Analysis.same_name ci_key tbl (Analysis.c_name new)) as [j0|]; [|discriminate].
    destruct (nth_error tbl j0) as [def|]; [|discriminate].
    destruct (Events.mods_is_empty _) eqn:Em; [|discriminate]. intro E. injection E as <-.
    destruct (Events.m_ref (Analysis.c_mods def)); [discriminate|]. intro H. injection H as <-. cbn. eauto.
  - destruct (Analysis.dm_eqb _ _ || _) eqn:Et; cbn [negb]; [|discriminate].
    destruct (Analysis.same_name ci_key tbl (Analysis.c_name new)) as [j0|]; [|discriminate].
    destruct (nth_error tbl j0) as [def|]; [|discriminate].
    destruct (Events.mods_is_empty _) eqn:Em; [|discriminate]. intro E. injection E as <-.
    destruct (Events.m_ref (Analysis.c_mods def)); [discriminate|]. intro H. injection H as <-.
    rewrite andb_false_r. cbn. eauto.
Qed.

Lemma clean_units tbl il q u idxs ud :
  forallb (fun k => match nth_error tbl k with
                    | Some c => match Analysis.c_qty c with
                                | Some qi => compat_ok (Analysis.qi_unit qi) u
                                | None => true
                                end
                    | None => false
                    end) idxs = true ->
  units_diags unit_pq tbl il q u idxs = Done ud -> ud = [].
Proof.
  revert ud. induction idxs as [|k r IH]; intros ud Hf H; cbn [units_diags] in H.
  - injection H as <-. reflexivity.
  - cbn [forallb] in Hf. apply andb_true_iff in Hf. destruct Hf as [Hk Hf].
    destruct (nth_error tbl k) as [c|]; [|discriminate].
    match type of H with obind ?o _ = _ => destruct o as [d|] eqn:Ed; [|discriminate] end. cbn [obind] in H.
    destruct (units_diags unit_pq tbl il q u r) as [dr|] eqn:Er; [|discriminate]. cbn [obind] in H. injection H as <-.
    rewrite (IH _ Hf eq_refl), app_nil_r.
    destruct (Analysis.c_qty c) as [qi|]; [|injection Ed as <-; reflexivity].
    unfold compat_ok in Hk. destruct (compatible_unit unit_pq (Analysis.qi_unit qi) u); try discriminate.
    injection Ed as <-. reflexivity.
Qed.

Lemma clean_ingredient_sound st i ds :
  clean_ingredient st i = true -> ingredient_diags ci_key x unit_pq st i = Done ds -> ds = [].
Proof.
  unfold clean_ingredient, ingredient_diags. cbv zeta. intros Hc H.
  apply andb_true_iff in Hc. destruct Hc as [Hl Hc].
  assert (L : match i_qty i with Some q => value_diags true (q_val q) | None => [] end = []).
  { destruct (i_qty i); [apply clean_value_diags; exact Hl|reflexivity]. }
  rewrite L in H. clear Hl.
  destruct (i_inter i) as [d|].
  - apply andb_true_iff in Hc. destruct Hc as [Hm Hr]. apply negb_true_iff in Hm.
    change (Analysis.c_mods (ing_new (ds_a st) (abs_ing i))) with (imods i) in H. rewrite Hm in H.
    destruct (Analysis.resolve_intermediate_ref _ _) as [[rel|]|]; try discriminate.
    cbn in H. injection H as <-. reflexivity.
  - destruct (Analysis.resolve_reference ci_key _ _ _ _) as [r|] eqn:Er; [|discriminate]. cbn [obind] in H.
    destruct (clean_resolve _ _ _ _ _) as [[j|]|] eqn:Ec; [| |discriminate].
    + destruct (clean_resolve_ref (ds_a st) _ _ (ing_new (ds_a st) (abs_ing i)) (i_span i) (i_mods_span i) r j Ec Er)
        as (Hrr & imp & Ht).
      rewrite Hrr, Ht in H.
      destruct (nth_error (Analysis.a_ingredients (ds_a st)) j) as [def|]; [|discriminate].
      destruct (nth_error (ds_iloc st) j) as [dloc|]; [|discriminate].
      apply andb_true_iff in Hc. destruct Hc as [Hn Hq]. apply negb_true_iff in Hn.
      destruct (i_note i); [discriminate|].
      destruct (i_qty i) as [q|].
      * apply andb_true_iff in Hq. destruct Hq as [Hq Hu]. apply andb_true_iff in Hq. destruct Hq as [Hq Ht'].
        apply negb_true_iff in Hq. fold (def_in_step def) in H. rewrite Hq in H.
        match type of H with obind ?o _ = _ => destruct o as [ud|] eqn:Eu; [|discriminate] end. cbn [obind] in H.
        match type of H with obind ?o _ = _ => destruct o as [td|] eqn:Et; [|discriminate] end. cbn [obind] in H.
        injection H as <-.
        assert (ud = []).
        { destruct (Analysis.x_advanced x); cbn [negb orb] in Hu; [|injection Eu as <-; reflexivity].
          destruct (Analysis.c_rel def) as [rf b|]; [|discriminate]. eapply clean_units; eassumption. }
        assert (td = []).
        { destruct (Analysis.c_qty def) as [dq|]; [|injection Et as <-; reflexivity].
          unfold value_text in Ht'. cbn [abstract_qvalue Events.qv_value] in Et. rewrite Ht' in Et.
          injection Et as <-. reflexivity. }
        subst. reflexivity.
      * cbn in H. injection H as <-. reflexivity.
    + destruct (clean_resolve_def (ds_a st) _ _ (ing_new (ds_a st) (abs_ing i)) (i_span i) (i_mods_span i) r Ec Er)
        as (Hrr & Ht).
      rewrite Hrr, Ht in H. injection H as <-. reflexivity.
Qed.

Lemma clean_cookware_sound st c ds :
  clean_cookware st c = true -> cookware_diags ci_key st c = Done ds -> ds = [].
Proof.
  unfold clean_cookware, cookware_diags. cbv zeta. intros Hc H.
  apply andb_true_iff in Hc. destruct Hc as [Hl Hc].
  assert (L : match c_qty c with Some (v, _) => value_diags false v | None => [] end = []).
  { destruct (c_qty c) as [[v sp]|]; [apply clean_value_diags; exact Hl|reflexivity]. }
  rewrite L in H. clear Hl.
  destruct (Analysis.resolve_reference ci_key _ _ _ _) as [r|] eqn:Er; [|discriminate]. cbn [obind] in H.
  destruct (clean_resolve _ _ _ _ _) as [[j|]|] eqn:Ec; [| |discriminate].
  - destruct (clean_resolve_ref (ds_a st) _ _ (cw_new (ds_a st) (abs_cw c)) (c_span c) (c_mods_span c) r j Ec Er)
      as (Hrr & imp & Ht).
    rewrite Hrr, Ht in H.
    destruct (nth_error (Analysis.a_cookware (ds_a st)) j) as [def|]; [|discriminate].
    destruct (nth_error (ds_cloc st) j) as [dloc|]; [|discriminate].
    apply andb_true_iff in Hc. destruct Hc as [Hn Hq]. apply negb_true_iff in Hn.
    destruct (c_note c); [discriminate|].
    destruct (c_qty c) as [[v qsp]|].
    + apply andb_true_iff in Hq. destruct Hq as [Hq Ht'].
      apply negb_true_iff in Hq. fold (def_in_step def) in H. rewrite Hq in H.
      match type of H with obind ?o _ = _ => destruct o as [td|] eqn:Et; [|discriminate] end. cbn [obind] in H.
      injection H as <-.
      assert (td = []).
      { destruct (Analysis.c_qty def) as [dq|]; [|injection Et as <-; reflexivity].
        unfold value_text in Ht'. cbn [abstract_qvalue Events.qv_value] in Et. rewrite Ht' in Et.
        injection Et as <-. reflexivity. }
      subst. reflexivity.
    + cbn in H. injection H as <-. reflexivity.
  - destruct (clean_resolve_def (ds_a st) _ _ (cw_new (ds_a st) (abs_cw c)) (c_span c) (c_mods_span c) r Ec Er)
      as (Hrr & Ht).
    rewrite Hrr, Ht in H. injection H as <-. reflexivity.
Qed.

Lemma clean_timer_sound t : clean_timer t = true -> timer_diags unit_class x t = [].
Proof.
  unfold clean_timer, timer_diags. destruct (t_qty t) as [q|]; [|reflexivity]. intro H.
  apply andb_true_iff in H. destruct H as [Hl H]. rewrite (clean_value_diags _ _ Hl). cbn [app].
  destruct (Analysis.x_advanced x); cbn [negb orb] in H; [|reflexivity].
  apply andb_true_iff in H. destruct H as [Ht Hu]. apply negb_true_iff in Ht.
  unfold value_text in Ht. cbn [abstract_qvalue Events.qv_value]. rewrite Ht. cbn [app].
  destruct (q_unit q) as [u|]; [|reflexivity]. rewrite Hu. reflexivity.
Qed.

Lemma clean_metadata_sound st k v : clean_metadata st k v = true -> snd (metadata_diags x std_check st k v) = [].
Proof.
  unfold clean_metadata, metadata_diags. cbv zeta. destruct (Analysis.x_modes x && _ && _).
  - destruct (str_eqb _ Analysis.s_define || str_eqb _ Analysis.s_mode).
    + unfold mem_str. cbn [existsb]. rewrite !orb_false_r, !orb_assoc. intros ->. reflexivity.
    + destruct (str_eqb _ Analysis.s_duplicate); [|discriminate]. cbn [andb].
      unfold mem_str. cbn [existsb]. rewrite !orb_false_r, !orb_assoc. intros ->. reflexivity.
  - destruct (std_key _) as [sk|]; [|reflexivity]. intro H. apply andb_true_iff in H. destruct H as [Hs H].
    rewrite Hs. cbn [negb]. destruct sk; cbn [snd].
    + apply andb_true_iff in H. destruct H as [H1 H2]. destruct (ds_prep st); [discriminate|]. destruct (ds_cook st); [discriminate|]. reflexivity.
    + destruct (ds_time st); [discriminate|]. reflexivity.
    + destruct (ds_time st); [discriminate|]. reflexivity.
    + reflexivity.
Qed.

Lemma clean_frontmatter_sound t ds :
  clean_frontmatter t = true ->
  frontmatter_diags yaml_ok dc yaml_err_index yaml_std_bad yaml_has_key t = Done ds -> ds = [].
Proof.
  unfold clean_frontmatter, frontmatter_diags. cbv zeta. intros H.
  apply andb_true_iff in H. destruct H as [H Ht]. apply andb_true_iff in H. destruct H as [Hy Hb].
  rewrite Hy. cbn [negb]. destruct (yaml_std_bad (text_str t)); [|discriminate]. cbn [std_bad_diags obind].
  apply negb_true_iff in Ht.
  destruct (yaml_has_key (text_str t) s_time); cbn [andb] in Ht; [|intro E; injection E as <-; reflexivity].
  apply orb_false_iff in Ht. destruct Ht as [-> ->]. cbn. intro E. injection E as <-. reflexivity.
Qed.

(* one event: a clean event makes the collector push nothing *)
Lemma clean_event_sound st ev ds :
  clean_event st ev = true -> ediags st ev = Done ds -> ds = [].
Proof.
  unfold clean_event, in_step_b. destruct ev; cbn [ediags]; intros Hc H.
  - eapply clean_frontmatter_sound; eassumption.
  - injection H as <-. apply clean_metadata_sound. exact Hc.
  - injection H as <-. reflexivity.
  - injection H as <-. reflexivity.
  - injection H as <-. reflexivity.
  - destruct (Analysis.a_block (ds_a st)) as [[items|tx]|]; try (injection H as <-; reflexivity).
    cbn [andb] in Hc. apply negb_true_iff in Hc. rewrite Hc in H. injection H as <-. reflexivity.
  - destruct (Analysis.a_block (ds_a st)) as [[items|tx]|]; try discriminate.
    eapply clean_ingredient_sound; eassumption.
  - destruct (Analysis.a_block (ds_a st)) as [[items|tx]|]; try discriminate.
    eapply clean_cookware_sound; eassumption.
  - destruct (Analysis.a_block (ds_a st)) as [[items|tx]|]; try discriminate.
    injection H as <-. apply clean_timer_sound. exact Hc.
  - discriminate.
Qed.

Lemma clean_event_no_perror st ev : clean_event st ev = true -> is_perror ev = false.
Proof. destruct ev; try reflexivity. discriminate. Qed.

(* ================================================================ soundness on clean streams *)
Theorem clean_run_sound evs : forall st,
  Analysis.a_halted (ds_a st) = false -> clean_run st evs = true ->
  exists st', drun st evs = Done (st', []) /\ Analysis.a_halted (ds_a st') = false /\ existsb is_perror evs = false.
Proof.
  induction evs as [|e r IH]; intros st Hh Hc.
  - exists st. auto.
  - cbn [clean_run] in Hc. apply andb_true_iff in Hc. destruct Hc as [He Hc].
    destruct (dstep st e) as [[st1 d1]|] eqn:E; [|discriminate].
    destruct (dstep_inv _ _ _ _ _ _ _ _ _ _ _ _ _ _ _ _ _ _ Hh E) as (s' & _ & Hd & _).
    pose proof (clean_event_sound _ _ _ He Hd) as ->.
    pose proof (dstep_keeps_running _ _ _ _ _ _ _ _ _ _ _ _ _ _ _ _ _ _ (clean_event_no_perror _ _ He) Hh E) as Hh1.
    destruct (IH st1 Hh1 Hc) as (st' & Hr & Hh' & Hp). exists st'.
    split; [cbn; rewrite E; cbn; rewrite Hr; reflexivity|]. split; [exact Hh'|].
    cbn [existsb]. rewrite (clean_event_no_perror _ _ He), Hp. reflexivity.
Qed.

(* ... and through parse_events: the report holds nothing but the `>>` deprecation notice (a
   warning, present exactly when a non-config `>>` entry was seen), and the result is valid *)
Theorem analysis_sound dbg evs res :
  clean_run dinit evs = true ->
  Diag.parse_events dstate astep afinish dbg dinit evs = Done res ->
  exists st, drun dinit evs = Done (st, []) /\
    diags res = map to_sdiag (dfinish st) /\ Diag.is_valid res = true /\
    (forall d, In d (diags res) -> sd_sev d = SevWarning /\ sd_stage d = StAnalysis) /\
    (ds_used st = [] -> diags res = []).
Proof.
  intros Hc H. destruct (clean_run_sound evs dinit eq_refl Hc) as (st & Hr & _ & Hp).
  destruct (report_is_trace _ _ _ _ _ _ _ _ _ _ _ _ _ _ dbg evs res Hp H) as (st2 & ds2 & Hr2 & Han & Hpa & Hv & _).
  rewrite Hr in Hr2. injection Hr2 as <- <-. exists st. split; [exact Hr|].
  assert (Hnp : pdiags evs = []).
  { clear -Hc. revert Hc. generalize dinit. induction evs as [|e r IH]; intros st Hc; [reflexivity|].
    cbn [clean_run] in Hc. apply andb_true_iff in Hc. destruct Hc as [He Hc].
    destruct (dstep st e) as [[st1 d1]|]; [|discriminate].
    destruct e; cbn [pdiags]; try (eapply IH; exact Hc). discriminate. }
  rewrite Hnp in Hpa. cbn [map] in Hpa. cbn [app] in Han.
  assert (Hall : diags res = map to_sdiag (dfinish st)).
  { rewrite <- Han. clear -Hpa. induction (diags res) as [|d l IH]; [reflexivity|].
    cbn [filter] in *. unfold is_analysis at 1. destruct (sd_is_parse d); [discriminate|]. cbn [negb]. f_equal. apply IH. exact Hpa. }
  split; [exact Hall|]. split; [rewrite Hv; reflexivity|]. split.
  - intros d Hd. rewrite Hall in Hd. unfold dfinish in Hd. destruct (ds_used st); [destruct Hd|].
    destruct Hd as [<-|[]]. split; reflexivity.
  - intro Hu. rewrite Hall. unfold dfinish. rewrite Hu. reflexivity.
Qed.

End Clean.
