(* Totality of the pull-parser model (C03) together with the location invariant (C04).
   One traversal of Model/Parser.v in weakest-precondition style: [runs m s R] says that the
   computation [m] started in block-parser state [s] finishes with [Done (a, s')] (no [Panic],
   no fuel exhaustion) and that [R a s'] holds.  The state invariant [wf] says that the token
   list of the block is a chain of adjacent, non-empty tokens, each located in the source
   text [src], that [b_done]/[b_rest] split it, and that every event pushed so far carries
   only well-placed spans and faithful text fragments ([ev_ok]). *)
From CL Require Import Base.StrLemmas Model.Lexer Model.Parser Proofs.LexerProofs Proofs.ParserSeg
  Proofs.ParserSplit Proofs.ParserFM.

(* ------------------------------------------------------------------ the judgement *)

Definition runs {A} (m : M A) (s : bp) (R : A -> bp -> Prop) : Prop :=
  exists a s', m s = Done (a, s') /\ R a s'.

Lemma runs_bind {A B} (m : M A) (f : A -> M B) s R :
  runs m s (fun a s1 => runs (f a) s1 R) -> runs (bind m f) s R.
Proof. intros (a & s1 & E & b & s2 & E2 & H). exists b, s2. unfold bind. rewrite E. tauto. Qed.

Lemma runs_ret {A} (a : A) s (R : A -> bp -> Prop) : R a s -> runs (ret a) s R.
Proof. intro H. exists a, s. split; [reflexivity|exact H]. Qed.

Lemma runs_conseq {A} (m : M A) s (R R' : A -> bp -> Prop) :
  runs m s R -> (forall a s', R a s' -> R' a s') -> runs m s R'.
Proof. intros (a & s' & E & H) HI. exists a, s'. split; [exact E|apply HI; exact H]. Qed.

Lemma runs_obindM {A B} (m : M (option A)) (f : A -> M (option B)) s R :
  runs m s (fun o s1 => match o with Some a => runs (f a) s1 R | None => R None s1 end) ->
  runs (obindM m f) s R.
Proof.
  intro H. unfold obindM. apply runs_bind. eapply runs_conseq; [exact H|].
  intros [a|] s1 H1; [exact H1 | apply runs_ret; exact H1].
Qed.

(* ------------------------------------------------------------------ well-placed data *)

Section Inv.
  Variable src : str.
  Variable cfg : pcfg.
  Hypothesis no_strict : p_strict_escape cfg = false.

  Notation bnd := (bnd src).
  Notation seg := (seg src).
  Notation tok_in := (tok_in src).
  Notation sp_ok := (span_ok src).

  Definition frag_ok (f : frag) : Prop := sub src (ftext f) (foff f).

  Definition text_ok (t : text) : Prop :=
    Forall frag_ok (frags t) /\ bnd (toff t) /\ fst (text_span t) <= snd (text_span t).

  Definition opt_ok {A} (P : A -> Prop) (o : option A) : Prop :=
    match o with Some a => P a | None => True end.

  Definition qvalue_ok (v : qvalue) : Prop := sp_ok (qv_span v) /\ opt_ok sp_ok (qlock v).
  Definition quantity_ok (q : quantity) : Prop :=
    qvalue_ok (q_val q) /\ opt_ok text_ok (q_unit q) /\ sp_ok (q_span q).
  Definition inter_ok (d : interdata) : Prop := sp_ok (im_span d).

  Definition ev_ok (ev : pevent) : Prop :=
    match ev with
    | EvYaml t => text_ok t
    | EvMetadata k v => text_ok k /\ text_ok v
    | EvSection n => opt_ok text_ok n
    | EvStart _ | EvEnd _ => True
    | EvText t => text_ok t
    | EvIngredient i =>
        sp_ok (i_mods_span i) /\ opt_ok inter_ok (i_inter i) /\ text_ok (i_name i) /\
        opt_ok text_ok (i_alias i) /\ opt_ok quantity_ok (i_qty i) /\ opt_ok text_ok (i_note i) /\
        sp_ok (i_span i)
    | EvCookware c =>
        sp_ok (c_mods_span c) /\ text_ok (c_name c) /\ opt_ok text_ok (c_alias c) /\
        opt_ok (fun q => qvalue_ok (fst q) /\ sp_ok (snd q)) (c_qty c) /\ opt_ok text_ok (c_note c) /\
        sp_ok (c_span c)
    | EvTimer t => opt_ok text_ok (t_name t) /\ opt_ok quantity_ok (t_qty t) /\ sp_ok (t_span t)
    | EvDiag d => p_note_label_old cfg = false -> Forall sp_ok (d_labels d)
    end.

  (* ---------------------------------------------------------------- text *)

  Lemma text_span_ok t : text_ok t -> sp_ok (text_span t).
  Proof.
    intros (HF & Hb & Hle). unfold text_span in *. destruct (frags t) as [|f r] eqn:E; cbn [fst snd] in *.
    - apply span_ok_pos. exact Hb.
    - apply span_ok_intro; [exact Hle| |].
      + inversion HF; subst. eapply sub_bnd_l. eassumption.
      + assert (In (last (f :: r) f) (f :: r)) as Hi.
        { destruct (exists_last (l := f :: r)) as (l' & x & E'); [discriminate|]. rewrite E', last_snoc.
          apply in_or_app. right. left. reflexivity. }
        rewrite Forall_forall in HF. apply HF in Hi. unfold frag_end. eapply sub_bnd_r. exact Hi.
  Qed.

  Lemma text_empty_ok off : bnd off -> text_ok (text_empty off).
  Proof. intro H. unfold text_ok, text_empty, text_span; cbn [frags toff fst snd]. split; [constructor|]. split; [exact H|lia]. Qed.

  (* append_fragment under its assertion *)
  Lemma append_fragment_ok t f lo :
    text_ok t -> frag_ok f -> snd (text_span t) <= foff f -> lo <= fst (text_span t) -> lo <= foff f ->
    exists t1, append_fragment t f = Done t1 /\ text_ok t1 /\ snd (text_span t1) <= frag_end f /\
               lo <= fst (text_span t1) /\ toff t1 = toff t.
  Proof.
    intros (HF & Hb & Hle) Hf Hs Hlo Hlo'. unfold append_fragment.
    destruct (snd (text_span t) <=? foff f) eqn:E; [|apply N.leb_gt in E; lia].
    assert (Hfe : foff f <= frag_end f) by (unfold frag_end; lia).
    destruct (ftext f) as [|c r] eqn:Ef.
    - exists t. split; [reflexivity|]. split; [split; [exact HF|split; [exact Hb|exact Hle]]|]. split; [lia|]. split; [exact Hlo|reflexivity].
    - eexists. split; [reflexivity|]. unfold text_ok, text_span in *; cbn [frags toff].
      destruct (frags t) as [|g l] eqn:Eg; cbn [app fst snd] in *.
      + change (last [f] f) with f. split; [split; [constructor; [exact Hf|constructor]|split; [exact Hb|exact Hfe]]|]. split; [lia|]. split; [lia|reflexivity].
      + change (g :: l ++ [f]) with ((g :: l) ++ [f]). rewrite last_snoc.
        split; [split; [|split; [exact Hb|lia]]|split; [lia|split; [exact Hlo|reflexivity]]].
        apply Forall_app. split; [exact HF|constructor; [exact Hf|constructor]].
  Qed.

  Lemma append_str_ok t cur cs lo :
    text_ok t -> sub src cur cs -> snd (text_span t) <= cs -> lo <= fst (text_span t) -> lo <= cs ->
    exists t1, append_str t cur cs = Done t1 /\ text_ok t1 /\ snd (text_span t1) <= cs + blen cur /\
               lo <= fst (text_span t1) /\ toff t1 = toff t.
  Proof. intros. unfold append_str. apply append_fragment_ok; assumption. Qed.

  Lemma text_loop_ok ts : forall t cs cur en lo,
    seg (cs + blen cur) ts en -> sub src cur cs -> text_ok t -> snd (text_span t) <= cs ->
    lo <= fst (text_span t) -> lo <= cs ->
    exists t', text_loop cfg ts t cs cur = Done t' /\ text_ok t' /\ lo <= fst (text_span t') /\
               snd (text_span t') <= en /\ toff t' = toff t.
  Proof.
    induction ts as [|tk r IH]; intros t cs cur en lo Hseg Hcur Ht Hs Hlo Hlo'; cbn [text_loop].
    - cbn [ParserSeg.seg] in Hseg. destruct Hseg as (<- & _).
      destruct (append_str_ok t cur cs lo Ht Hcur Hs Hlo Hlo') as (t1 & E & A & B & C & D).
      exists t1. tauto.
    - cbn [ParserSeg.seg] in Hseg. destruct Hseg as (Hst & Htk & Hseg).
      pose proof (tok_in_lt _ _ Htk) as Hlt.
      assert (Hdef : exists t', text_loop cfg r t cs (cur ++ tstr tk) = Done t' /\ text_ok t' /\
                     lo <= fst (text_span t') /\ snd (text_span t') <= en /\ toff t' = toff t).
      { apply IH; try assumption.
        - rewrite blen_app. unfold tend in Hseg. rewrite Hst in Hseg. rewrite N.add_assoc. exact Hseg.
        - apply sub_app; [exact Hcur|]. rewrite <- Hst. apply Htk. }
      destruct (append_str_ok t cur cs lo Ht Hcur Hs Hlo Hlo') as (t1 & E1 & A1 & B1 & C1 & D1).
      destruct (kind tk) eqn:Ek; try exact Hdef.
      + (* Escaped *)
        rewrite E1. cbn [obind]. rewrite no_strict, andb_false_r. cbn [andb].
        destruct Htk as (Hsub & Hne & Hesc). destruct (Hesc Ek) as (r' & Er).
        assert (Hb1 : blen (tstr tk) = 1 + blen r') by (rewrite Er; reflexivity).
        destruct (IH t1 (tstart tk + 1) (tl (tstr tk)) en lo) as (t' & E' & A' & B' & C' & D'); try assumption; try lia.
        * rewrite Er. cbn [tl]. unfold tend in Hseg. rewrite Hb1 in Hseg. rewrite <- N.add_assoc. exact Hseg.
        * rewrite Er. cbn [tl]. replace (tstart tk + 1) with (tstart tk + blen [92]) by reflexivity.
          eapply (sub_inner _ _ _ [92] r' []); [exact Hsub|]. rewrite Er, app_nil_r. reflexivity.
        * exists t'. rewrite D', D1. tauto.
      + (* Newline *)
        rewrite E1. cbn [obind].
        destruct (append_fragment_ok t1 {| ftext := tstr tk; foff := tstart tk; fsoft := true |} lo)
          as (t2 & E2 & A2 & B2 & C2 & D2); try assumption; cbn [foff ftext]; try lia.
        { apply Htk. }
        rewrite E2. cbn [obind]. unfold frag_end in B2; cbn [foff ftext] in B2.
        destruct (IH t2 (tend tk) [] en lo) as (t' & E' & A' & B' & C' & D'); try assumption; try lia.
        * cbn [blen]. rewrite N.add_0_r. exact Hseg.
        * apply sub_nil. apply (tok_in_bnd_r _ _ Htk).
        * exists t'. rewrite D', D2, D1. tauto.
      + (* LineComment *)
        rewrite E1. cbn [obind].
        destruct (IH t1 (tend tk) [] en lo) as (t' & E' & A' & B' & C' & D'); try assumption; try lia.
        * cbn [blen]. rewrite N.add_0_r. exact Hseg.
        * apply sub_nil. apply (tok_in_bnd_r _ _ Htk).
        * exists t'. rewrite D', D1. tauto.
      + (* BlockComment *)
        rewrite E1. cbn [obind].
        destruct (IH t1 (tend tk) [] en lo) as (t' & E' & A' & B' & C' & D'); try assumption; try lia.
        * cbn [blen]. rewrite N.add_0_r. exact Hseg.
        * apply sub_nil. apply (tok_in_bnd_r _ _ Htk).
        * exists t'. rewrite D', D1. tauto.
  Qed.

  (* what a text built from a segment of tokens satisfies *)
  Definition text_in (t : text) (lo hi : N) : Prop :=
    text_ok t /\ lo <= fst (text_span t) /\ snd (text_span t) <= hi /\ toff t = lo.

  Lemma text_of_ok off ts en :
    seg off ts en -> exists t, text_of cfg off ts = Done t /\ text_in t off en.
  Proof.
    intro H. unfold text_of. destruct ts as [|t0 r] eqn:E.
    - cbn [ParserSeg.seg] in H. destruct H as (<- & H). eexists. split; [reflexivity|].
      split; [apply text_empty_ok; exact H|]. unfold text_span, text_empty; cbn [frags toff fst snd]. repeat split; lia.
    - rewrite <- E in *. assert (Hst : tstart t0 = off) by (rewrite E in H; cbn [ParserSeg.seg] in H; tauto).
      rewrite Hst, N.eqb_refl.
      destruct (text_loop_ok ts (text_empty off) off [] en off) as (t' & E' & A & B & C & D).
      + cbn [blen]. rewrite N.add_0_r. exact H.
      + apply sub_nil. eapply seg_bnd_l; exact H.
      + apply text_empty_ok. eapply seg_bnd_l; exact H.
      + unfold text_span, text_empty; cbn [frags toff fst snd]. lia.
      + unfold text_span, text_empty; cbn [frags toff fst snd]. lia.
      + lia.
      + exists t'. split; [exact E'|]. split; [exact A|]. split; [exact B|]. split; [exact C|]. rewrite D. reflexivity.
  Qed.

  Lemma runs_textM off ts en s (R : text -> bp -> Prop) :
    seg off ts en -> (forall t, text_in t off en -> R t s) -> runs (textM cfg off ts) s R.
  Proof.
    intros H HR. destruct (text_of_ok off ts en H) as (t & E & Ht).
    exists t, s. unfold textM, lift. rewrite E. split; [reflexivity|apply HR; exact Ht].
  Qed.

  (* ---------------------------------------------------------------- the state invariant *)

  Notation cur := current_offset_of.

  Definition wf (b : bp) : Prop :=
    b_all b = rev (b_done b) ++ b_rest b /\
    (exists en, seg (base_offset b) (b_all b) en) /\
    Forall ev_ok (b_evs b).

  (* the position never moves backwards: [c] is what was consumed between s and s' *)
  Definition ext (s s' : bp) : Prop :=
    b_all s' = b_all s /\ exists c, b_rest s = c ++ b_rest s' /\ b_done s' = rev c ++ b_done s.

  Definition same_pos (s s' : bp) : Prop :=
    b_all s' = b_all s /\ b_done s' = b_done s /\ b_rest s' = b_rest s.

  (* exactly the tokens [c] were consumed, nothing else changed *)
  Definition took (s : bp) (c : list tok) (s' : bp) : Prop :=
    wf s' /\ b_all s' = b_all s /\ b_rest s = c ++ b_rest s' /\ b_done s' = rev c ++ b_done s /\
    b_evs s' = b_evs s /\ seg (cur s) c (cur s').

  Lemma wf_split b : wf b ->
    exists en, seg (base_offset b) (rev (b_done b)) (cur b) /\ seg (cur b) (b_rest b) en.
  Proof.
    intros (Ha & (en & Hs) & _). rewrite Ha in Hs. apply seg_app in Hs as (mid & H1 & H2).
    assert (mid = cur b) as ->; [|exists en; tauto].
    unfold current_offset_of. destruct (b_done b) as [|t d] eqn:E.
    - cbn [rev ParserSeg.seg] in H1. symmetry. tauto.
    - cbn [rev] in H1. symmetry. erewrite <- (seg_last _ _ _ _ t H1); [rewrite last_snoc; reflexivity|].
      destruct (rev d); discriminate.
  Qed.

  Lemma wf_cur_bnd b : wf b -> bnd (cur b).
  Proof. intro H. destruct (wf_split b H) as (en & _ & H2). eapply seg_bnd_l; exact H2. Qed.

  Lemma wf_rest_hd b t r : wf b -> b_rest b = t :: r -> tstart t = cur b /\ tok_in t.
  Proof. intros H E. destruct (wf_split b H) as (en & _ & H2). rewrite E in H2. cbn [ParserSeg.seg] in H2. tauto. Qed.

  Lemma same_pos_refl s : same_pos s s.
  Proof. unfold same_pos. tauto. Qed.

  Lemma same_pos_trans a b c : same_pos a b -> same_pos b c -> same_pos a c.
  Proof. unfold same_pos. intros (A1 & A2 & A3) (B1 & B2 & B3). repeat split; congruence. Qed.

  Lemma same_pos_cur s s' : same_pos s s' -> cur s' = cur s.
  Proof. intros (A1 & A2 & A3). unfold current_offset_of, base_offset. rewrite A1, A2. reflexivity. Qed.

  Lemma same_pos_rest s s' : same_pos s s' -> b_rest s' = b_rest s.
  Proof. unfold same_pos. tauto. Qed.

  Lemma same_pos_all s s' : same_pos s s' -> b_all s' = b_all s.
  Proof. unfold same_pos. tauto. Qed.

  Lemma same_pos_peek s s' : same_pos s s' -> peek_of s' = peek_of s.
  Proof. intros (A1 & A2 & A3). unfold peek_of. rewrite A3. reflexivity. Qed.

  Lemma same_pos_ext s s' : same_pos s s' -> ext s s'.
  Proof. intros (A1 & A2 & A3). split; [exact A1|]. exists []. cbn [app rev]. split; congruence. Qed.

  Lemma ext_refl s : ext s s.
  Proof. apply same_pos_ext, same_pos_refl. Qed.

  Lemma ext_trans a b c : ext a b -> ext b c -> ext a c.
  Proof.
    intros (A1 & c1 & A2 & A3) (B1 & c2 & B2 & B3). split; [congruence|]. exists (c1 ++ c2).
    rewrite A2, B2, B3, A3, rev_app_distr, !app_assoc. split; reflexivity.
  Qed.

  Lemma took_ext s c s' : took s c s' -> ext s s'.
  Proof. intros (_ & A & B & C & _). split; [exact A|]. exists c. tauto. Qed.

  Lemma took_wf s c s' : took s c s' -> wf s'.
  Proof. unfold took. tauto. Qed.

  (* a state that keeps the position of a well-formed one is well formed when its events are *)
  Lemma wf_same_pos s s' : wf s -> same_pos s s' -> Forall ev_ok (b_evs s') -> wf s'.
  Proof.
    intros (A & (en & B) & _) (E1 & E2 & E3) He. unfold wf, base_offset in *. rewrite E1, E2, E3.
    split; [exact A|]. split; [exists en; exact B|exact He].
  Qed.

  Lemma wf_evs s : wf s -> Forall ev_ok (b_evs s).
  Proof. unfold wf. tauto. Qed.

  Lemma took_intro s c s' :
    wf s -> b_all s' = b_all s -> b_rest s = c ++ b_rest s' -> b_done s' = rev c ++ b_done s ->
    b_evs s' = b_evs s -> took s c s'.
  Proof.
    intros Hw Ea Er Ed Ee. destruct (wf_split s Hw) as (en & H1 & H2).
    assert (Hw' : wf s').
    { destruct Hw as (A & (en' & B) & C). unfold wf, base_offset in *. rewrite Ea, Ed, Ee, rev_app_distr, rev_involutive, <- app_assoc, <- Er.
      split; [exact A|]. split; [exists en'; exact B|exact C]. }
    split; [exact Hw'|]. repeat (split; [assumption|]).
    rewrite Er in H2. apply seg_app in H2 as (mid & H3 & H4).
    assert (mid = cur s') as <-; [|exact H3].
    destruct c as [|c0 c'] eqn:Ec.
    - cbn [ParserSeg.seg] in H3. destruct H3 as (<- & _). unfold current_offset_of, base_offset. cbn [rev app] in Ed. rewrite Ed, Ea. reflexivity.
    - rewrite <- Ec in *. assert (Hn : c <> []) by (rewrite Ec; discriminate).
      rewrite <- (seg_last _ _ _ _ c0 H3 Hn). unfold current_offset_of.
      destruct (exists_last Hn) as (l' & x & El). rewrite El, rev_app_distr in Ed. cbn [rev app] in Ed.
      rewrite Ed, El, last_snoc. reflexivity.
  Qed.

  Lemma ext_facts s s' : wf s -> wf s' -> ext s s' ->
    cur s <= cur s' /\ (length (b_rest s') <= length (b_rest s))%nat /\ b_all s' = b_all s /\
    (b_done s <> [] -> b_done s' <> []).
  Proof.
    intros Hw Hw' (Ea & c & Er & Ed).
    assert (Ht : took s c {| b_all := b_all s'; b_done := b_done s'; b_rest := b_rest s'; b_evs := b_evs s |}).
    { apply took_intro; cbn [b_all b_done b_rest b_evs]; try assumption; reflexivity. }
    destruct Ht as (_ & _ & _ & _ & _ & Hs). apply seg_le in Hs.
    split.
    - unfold current_offset_of, base_offset in *. cbn [b_all b_done] in Hs. exact Hs.
    - split; [rewrite Er, app_length; lia|]. split; [exact Ea|].
      rewrite Ed. intros Hn Hc. apply app_eq_nil in Hc as (_ & Hc). contradiction.
  Qed.

  Lemma took_len s c s' : took s c s' -> (length (b_rest s) = length c + length (b_rest s'))%nat.
  Proof. intros (_ & _ & E & _). rewrite E, app_length. reflexivity. Qed.

  (* ---------------------------------------------------------------- primitives *)

  Lemma runs_get_like {A} (g : bp -> A) (m : M A) s (R : A -> bp -> Prop) :
    (forall s, m s = Done (g s, s)) -> R (g s) s -> runs m s R.
  Proof. intros E H. exists (g s), s. split; [apply E|exact H]. Qed.

  Lemma runs_peek s (R : tkind -> bp -> Prop) : R (peek_of s) s -> runs peek s R.
  Proof. intro H. exists (peek_of s), s. split; [reflexivity|exact H]. Qed.
  Lemma runs_at_kind k s (R : bool -> bp -> Prop) : R (tk_eqb (peek_of s) k) s -> runs (at_kind k) s R.
  Proof. intro H. eexists _, s. split; [reflexivity|exact H]. Qed.
  Lemma runs_rest s (R : list tok -> bp -> Prop) : R (b_rest s) s -> runs rest s R.
  Proof. intro H. eexists _, s. split; [reflexivity|exact H]. Qed.
  Lemma runs_all_tokens s (R : list tok -> bp -> Prop) : R (b_all s) s -> runs all_tokens s R.
  Proof. intro H. eexists _, s. split; [reflexivity|exact H]. Qed.
  Lemma runs_current_offset s (R : N -> bp -> Prop) : R (cur s) s -> runs current_offset s R.
  Proof. intro H. eexists _, s. split; [reflexivity|exact H]. Qed.

  Lemma runs_event ev s (R : unit -> bp -> Prop) :
    wf s -> ev_ok ev -> (forall s', wf s' -> same_pos s s' -> R tt s') -> runs (event ev) s R.
  Proof.
    intros Hw He HR. eexists tt, _. split; [reflexivity|]. apply HR.
    - eapply wf_same_pos; [exact Hw|unfold same_pos; cbn; tauto|]. cbn [b_evs]. constructor; [exact He|apply wf_evs; exact Hw].
    - unfold same_pos; cbn. tauto.
  Qed.

  Lemma runs_error code labels s (R : unit -> bp -> Prop) :
    wf s -> Forall sp_ok labels -> (forall s', wf s' -> same_pos s s' -> R tt s') -> runs (error code labels) s R.
  Proof. intros. apply runs_event; try assumption. intros _. assumption. Qed.

  Lemma runs_warn code labels s (R : unit -> bp -> Prop) :
    wf s -> Forall sp_ok labels -> (forall s', wf s' -> same_pos s s' -> R tt s') -> runs (warn code labels) s R.
  Proof. intros. apply runs_event; try assumption. intros _. assumption. Qed.

  Lemma runs_bump_any s (R : tok -> bp -> Prop) :
    wf s -> b_rest s <> [] ->
    (forall t s', took s [t] s' -> b_rest s = t :: b_rest s' -> tok_in t -> tstart t = cur s -> tend t = cur s' -> R t s') ->
    runs bump_any s R.
  Proof.
    intros Hw Hn HR. unfold bump_any. apply runs_bind. unfold next_token, runs at 1. cbn beta.
    destruct (b_rest s) as [|t r] eqn:E; [congruence|].
    eexists _, _. split; [reflexivity|]. apply runs_ret.
    assert (Ht : took s [t] {| b_all := b_all s; b_done := t :: b_done s; b_rest := r; b_evs := b_evs s |}).
    { apply took_intro; cbn [b_all b_done b_rest b_evs app rev]; try assumption; reflexivity. }
    apply HR; try assumption; try reflexivity.
    - eapply wf_rest_hd; eassumption.
    - eapply wf_rest_hd; eassumption.
  Qed.

  Lemma runs_bump k s (R : tok -> bp -> Prop) :
    wf s -> (exists t r, b_rest s = t :: r /\ kind t = k) ->
    (forall t s', took s [t] s' -> b_rest s = t :: b_rest s' -> tok_in t -> tstart t = cur s -> tend t = cur s' -> kind t = k -> R t s') ->
    runs (bump k) s R.
  Proof.
    intros Hw (t0 & r0 & E0 & Hk) HR. unfold bump. apply runs_bind. apply runs_bump_any; [exact Hw|rewrite E0; discriminate|].
    intros t s' Ht Er Hin Hs He. rewrite E0 in Er. injection Er as <- Er. rewrite Hk, tk_eqb_refl.
    apply runs_ret. apply HR; try assumption. rewrite E0, Er. reflexivity.
  Qed.

  Lemma runs_consume k s (R : option tok -> bp -> Prop) :
    wf s -> k <> KEof ->
    (forall t s', took s [t] s' -> b_rest s = t :: b_rest s' -> tok_in t -> tstart t = cur s -> tend t = cur s' -> kind t = k -> R (Some t) s') ->
    (peek_of s <> k -> R None s) ->
    runs (consume k) s R.
  Proof.
    intros Hw Hk HS HN. unfold consume. apply runs_bind. apply runs_at_kind.
    destruct (tk_eqb (peek_of s) k) eqn:E.
    - apply tk_eqb_true in E. apply runs_bind. apply runs_bump_any; [exact Hw| |].
      + unfold peek_of in E. destruct (b_rest s); [|discriminate]. congruence.
      + intros t s' Ht Er Hin Hs He. apply runs_ret. apply HS; try assumption.
        unfold peek_of in E. rewrite Er in E. exact E.
    - apply runs_ret. apply HN. apply tk_eqb_false. exact E.
  Qed.

  Lemma took_trans s c1 s1 c2 s2 : wf s -> took s c1 s1 -> took s1 c2 s2 -> took s (c1 ++ c2) s2.
  Proof.
    intros Hw (_ & A1 & A2 & A3 & A4 & _) (_ & B1 & B2 & B3 & B4 & _). apply took_intro; try congruence.
    - rewrite A2, B2, app_assoc. reflexivity.
    - rewrite B3, A3, rev_app_distr, app_assoc. reflexivity.
  Qed.

  Lemma took_nil s : wf s -> took s [] s.
  Proof. intro Hw. apply took_intro; try reflexivity. exact Hw. Qed.

  Lemma position_some f ts n : position f ts = Some n ->
    exists t r, skipn n ts = t :: r /\ f (kind t) = true /\ Forall (fun t => f (kind t) = false) (firstn n ts).
  Proof.
    revert n. induction ts as [|t r IH]; intros n H; cbn [position] in H; [discriminate|].
    destruct (f (kind t)) eqn:E.
    - injection H as <-. exists t, r. cbn [skipn firstn]. repeat split; [exact E|constructor].
    - destruct (position f r) as [m|] eqn:Ep; [|discriminate]. injection H as <-.
      destruct (IH m eq_refl) as (t' & r' & A & B & C). exists t', r'. cbn [skipn firstn].
      repeat split; [exact A|exact B|constructor; [exact E|exact C]].
  Qed.

  Lemma position_none f ts : position f ts = None -> Forall (fun t => f (kind t) = false) ts.
  Proof.
    induction ts as [|t r IH]; intro H; cbn [position] in H; [constructor|].
    destruct (f (kind t)) eqn:E; [discriminate|]. destruct (position f r); [discriminate|].
    constructor; [exact E|apply IH; reflexivity].
  Qed.

  Lemma advance_took n : forall s, wf s ->
    took s (firstn n (b_rest s)) (advance n s) /\ b_rest (advance n s) = skipn n (b_rest s).
  Proof.
    induction n as [|n IH]; intros s Hw; cbn [advance firstn skipn].
    - split; [apply took_nil; exact Hw|reflexivity].
    - destruct (b_rest s) as [|t r] eqn:E.
      + split; [apply took_nil; exact Hw|exact E].
      + set (s1 := {| b_all := b_all s; b_done := t :: b_done s; b_rest := r; b_evs := b_evs s |}).
        assert (H1 : took s [t] s1) by (apply took_intro; cbn [b_all b_done b_rest b_evs app rev]; try assumption; reflexivity).
        destruct (IH s1 (took_wf _ _ _ H1)) as (H2 & H3). cbn [b_rest s1] in H2, H3. split; [|exact H3].
        change (t :: firstn n r) with ([t] ++ firstn n r). eapply took_trans; eassumption.
  Qed.

  Lemma runs_until f s (R : option (list tok) -> bp -> Prop) :
    wf s ->
    (forall ts s' t r, took s ts s' -> b_rest s' = t :: r -> f (kind t) = true ->
                       Forall (fun t => f (kind t) = false) ts -> R (Some ts) s') ->
    (Forall (fun t => f (kind t) = false) (b_rest s) -> R None s) ->
    runs (until f) s R.
  Proof.
    intros Hw HS HN. unfold until, runs. destruct (position f (b_rest s)) as [n|] eqn:E.
    - eexists _, _. split; [reflexivity|]. destruct (position_some _ _ _ E) as (t & r & A & B & C).
      destruct (advance_took n s Hw) as (H1 & H2). eapply HS; [exact H1|rewrite H2; exact A|exact B|exact C].
    - eexists _, _. split; [reflexivity|]. apply HN. apply position_none. exact E.
  Qed.

  Lemma runs_consume_while f s (R : list tok -> bp -> Prop) :
    wf s ->
    (forall ts s', took s ts s' -> Forall (fun t => f (kind t) = true) ts ->
                   match b_rest s' with [] => True | t :: _ => f (kind t) = false end -> R ts s') ->
    runs (consume_while f) s R.
  Proof.
    intros Hw HR. unfold consume_while, runs. eexists _, _. split; [reflexivity|].
    destruct (position (fun k => negb (f k)) (b_rest s)) as [n|] eqn:E.
    - destruct (position_some _ _ _ E) as (t & r & A & B & C).
      destruct (advance_took n s Hw) as (H1 & H2). apply HR; [exact H1| |].
      + eapply Forall_impl; [|exact C]. cbn beta. intros a Ha. apply negb_false_iff. exact Ha.
      + rewrite H2, A. apply negb_true_iff. exact B.
    - apply position_none in E.
      destruct (advance_took (length (b_rest s)) s Hw) as (H1 & H2). apply HR; [exact H1| |].
      + rewrite firstn_all. eapply Forall_impl; [|exact E]. cbn beta. intros a Ha. apply negb_false_iff. exact Ha.
      + rewrite H2, skipn_all. exact I.
  Qed.

  Lemma runs_consume_rest s (R : list tok -> bp -> Prop) :
    wf s -> (forall ts s', took s ts s' -> b_rest s' = [] -> R ts s') -> runs consume_rest s R.
  Proof.
    intros Hw HR. unfold consume_rest. apply runs_consume_while; [exact Hw|].
    intros ts s' Ht _ Hn. apply HR; [exact Ht|]. destruct (b_rest s'); [reflexivity|discriminate].
  Qed.

  Lemma runs_with_recover {A} (m : M (option A)) s (R : option A -> bp -> Prop) :
    wf s ->
    runs m s (fun o s' => wf s' /\
       match o with
       | Some a => R (Some a) s'
       | None => forall s'', wf s'' -> same_pos s s'' -> R None s''
       end) ->
    runs (with_recover m) s R.
  Proof.
    intros Hw (o & s' & E & Hw' & H). unfold with_recover, runs. rewrite E. destruct o as [a|].
    - eexists _, _. split; [reflexivity|exact H].
    - eexists _, _. split; [reflexivity|]. apply H.
      + eapply wf_same_pos; [exact Hw|unfold same_pos; cbn; tauto|]. cbn [b_evs]. apply wf_evs. exact Hw'.
      + unfold same_pos; cbn; tauto.
  Qed.

  (* the state-only part of a post-condition used by most composite parsers *)
  Definition after (s s' : bp) : Prop := wf s' /\ ext s s'.
  Definition after0 (s s' : bp) : Prop := wf s' /\ same_pos s s'.

  Lemma after0_after s s' : after0 s s' -> after s s'.
  Proof. intros (A & B). split; [exact A|apply same_pos_ext; exact B]. Qed.

  (* ---------------------------------------------------------------- numeric diagnostics *)

  (* located tokens in source order (sub-sequences of a segment) *)
  Fixpoint sorted (ts : list tok) : Prop :=
    match ts with
    | [] => True
    | t :: r => tok_in t /\ Forall (fun u => tend t <= tstart u) r /\ sorted r
    end.

  Lemma seg_sorted ts : forall off en, seg off ts en -> sorted ts.
  Proof.
    induction ts as [|t r IH]; intros off en H; cbn [sorted]; [exact I|].
    cbn [ParserSeg.seg] in H. destruct H as (_ & H1 & H2). split; [exact H1|]. split; [|eapply IH; exact H2].
    apply Forall_forall. intros u Hu. eapply seg_In in Hu; [|exact H2]. tauto.
  Qed.

  Lemma sorted_app_l a b : sorted (a ++ b) -> sorted a.
  Proof.
    induction a as [|t a IH]; cbn [app sorted]; [tauto|]. intros (H1 & H2 & H3).
    split; [exact H1|]. split; [|apply IH; exact H3]. apply Forall_app in H2. tauto.
  Qed.

  Lemma sorted_app_r a b : sorted (a ++ b) -> sorted b.
  Proof. induction a as [|t a IH]; cbn [app sorted]; [tauto|]. intros (_ & _ & H3). apply IH; exact H3. Qed.

  Lemma sorted_filter p ts : sorted ts -> sorted (filter p ts).
  Proof.
    induction ts as [|t r IH]; cbn [filter sorted]; [tauto|]. intros (H1 & H2 & H3).
    destruct (p t); [|apply IH; exact H3]. cbn [sorted]. split; [exact H1|]. split; [|apply IH; exact H3].
    apply Forall_forall. intros u Hu. apply filter_In in Hu as (Hu & _). rewrite Forall_forall in H2. apply H2; exact Hu.
  Qed.

  Lemma sorted_firstn n ts : sorted ts -> sorted (firstn n ts).
  Proof. intro H. rewrite <- (firstn_skipn n ts) in H. eapply sorted_app_l; exact H. Qed.

  Lemma sorted_skipn n ts : sorted ts -> sorted (skipn n ts).
  Proof. intro H. rewrite <- (firstn_skipn n ts) in H. eapply sorted_app_r; exact H. Qed.

  Lemma drop_ws_comment_suffix ts : exists a, ts = a ++ drop_ws_comment ts.
  Proof.
    induction ts as [|t r (a & IH)]; cbn [drop_ws_comment]; [exists []; reflexivity|].
    destruct (not_ws_comment t); [exists []; reflexivity|]. exists (t :: a). cbn [app]. f_equal. exact IH.
  Qed.

  Lemma trim_tokens_infix ts : exists a b, ts = a ++ trim_tokens ts ++ b.
  Proof.
    unfold trim_tokens. destruct (drop_ws_comment_suffix ts) as (a & Ha).
    destruct (drop_ws_comment_suffix (rev (drop_ws_comment ts))) as (b & Hb).
    exists a, (rev b). rewrite <- rev_app_distr, <- Hb, rev_involutive. exact Ha.
  Qed.

  Lemma sorted_trim ts : sorted ts -> sorted (trim_tokens ts).
  Proof.
    intro H. destruct (trim_tokens_infix ts) as (a & b & E). rewrite E in H.
    apply sorted_app_r in H. apply sorted_app_l in H. exact H.
  Qed.

  Lemma int_of_diag t e : tok_in t -> int_of t = inl e -> Forall sp_ok (d_labels e).
  Proof.
    intros Ht H. unfold int_of in H. destruct (_ <=? _); [discriminate|]. injection H as <-.
    cbn [d_labels]. constructor; [apply tok_span_ok; exact Ht|constructor].
  Qed.

  Lemma frac_of_diag a b e :
    tok_in a -> tok_in b -> tend a <= tstart b -> frac_of a b = inl e -> Forall sp_ok (d_labels e).
  Proof.
    intros Ha Hb Hle H. unfold frac_of in H.
    destruct (int_of a) as [ea|av] eqn:Ea.
    - injection H as <-. eapply (int_of_diag a); eassumption.
    - destruct (int_of b) as [eb|bv] eqn:Eb.
      + injection H as <-. eapply (int_of_diag b); eassumption.
      + destruct (bv =? 0); [|discriminate]. injection H as <-. cbn [d_labels].
        constructor; [|constructor]. pose proof (tok_in_lt _ _ Ha). pose proof (tok_in_lt _ _ Hb).
        apply span_ok_intro; [lia|apply tok_in_bnd_l; exact Ha|apply tok_in_bnd_r; exact Hb].
  Qed.

  Lemma numeric_value_diag ts e : sorted ts -> numeric_value ts = Some (inl e) -> Forall sp_ok (d_labels e).
  Proof.
    intros Hs H. unfold numeric_value in H. apply sorted_trim in Hs.
    set (tr := trim_tokens ts) in *. clearbody tr.
    destruct tr as [|t0 tr0] eqn:Etr; [discriminate|]. rewrite <- Etr in *.
    match type of H with match ?x with Some _ => _ | None => _ end = _ => destruct x end; [discriminate|].
    apply (sorted_filter not_ws_comment) in Hs.
    destruct (filter not_ws_comment tr) as [|i [|a [|s [|b [|x l]]]]]; try discriminate.
    - (* a / b *)
      destruct (_ && _); [|discriminate]. injection H as H.
      cbn [sorted] in Hs. destruct Hs as (Hi & Fi & Ha & Fa & Hb & _).
      inversion Fi as [|? ? _ Fi']; subst. inversion Fi' as [|? ? Hle _]; subst.
      eapply (frac_of_diag i s); eassumption.
    - (* i a / b *)
      destruct (_ && _); [|discriminate]. injection H as H.
      cbn [sorted] in Hs. destruct Hs as (Hi & Fi & Ha & Fa & Hs' & Fs & Hb & _).
      destruct (int_of i) as [ei|iv] eqn:Ei.
      + injection H as <-. eapply (int_of_diag i); eassumption.
      + destruct (frac_of a b) as [ef|[q|w n d]] eqn:Ef; try discriminate.
        injection H as <-. inversion Fa as [|? ? _ Fa']; subst. inversion Fa' as [|? ? Hle _]; subst.
        eapply (frac_of_diag a b); eassumption.
  Qed.

  Lemma range_value_diag ts e : sorted ts -> range_value cfg ts = Some (inl e) -> Forall sp_ok (d_labels e).
  Proof.
    intros Hs H. unfold range_value in H. destruct (negb _); [discriminate|].
    destruct (position _ ts) as [mid|]; [|discriminate].
    destruct (numeric_value (firstn mid ts)) as [[e1|a]|] eqn:E1; [| |discriminate].
    - injection H as <-. eapply numeric_value_diag; [|exact E1]. apply sorted_firstn; exact Hs.
    - destruct (numeric_value (skipn (S mid) ts)) as [[e2|b]|] eqn:E2; try discriminate.
      injection H as <-. eapply numeric_value_diag; [|exact E2]. apply sorted_skipn; exact Hs.
  Qed.

  Lemma range_or_numeric_diag ts e : sorted ts -> range_or_numeric cfg ts = Some (inl e) -> Forall sp_ok (d_labels e).
  Proof.
    intros Hs H. unfold range_or_numeric in H. destruct (range_value cfg ts) as [r|] eqn:Er.
    - injection H as ->. eapply range_value_diag; eassumption.
    - destruct (numeric_value ts) as [[e1|n]|] eqn:E1; try discriminate. injection H as <-.
      eapply numeric_value_diag; eassumption.
  Qed.

  (* ---------------------------------------------------------------- quantity *)

  Lemma match_KEq {A} k (a b : A) :
    match k with KEq => a | _ => b end = if tk_eqb k KEq then a else b.
  Proof. destruct k; reflexivity. Qed.
  Lemma match_KPercent {A} k (a b : A) :
    match k with KPercent => a | _ => b end = if tk_eqb k KPercent then a else b.
  Proof. destruct k; reflexivity. Qed.
  Lemma match_KTextStep {A} k (a b : A) :
    match k with KTextStep => a | _ => b end = if tk_eqb k KTextStep then a else b.
  Proof. destruct k; reflexivity. Qed.

  Lemma peek_cons s k : peek_of s = k -> k <> KEof -> exists t r, b_rest s = t :: r /\ kind t = k.
  Proof. unfold peek_of. destruct (b_rest s) as [|t r]; [congruence|]. intros H _. exists t, r. tauto. Qed.

  Lemma peek_nonempty s k : peek_of s = k -> k <> KEof -> b_rest s <> [].
  Proof. intros H Hk. destruct (peek_cons s k H Hk) as (t & r & E & _). rewrite E. discriminate. Qed.

  Lemma after_refl s : wf s -> after s s.
  Proof. intro H. split; [exact H|apply ext_refl]. Qed.

  Lemma after_took s c s' s'' : took s c s' -> after s' s'' -> after s s''.
  Proof. intros H (A & B). split; [exact A|]. eapply ext_trans; [eapply took_ext; exact H|exact B]. Qed.

  Lemma after_trans s s' s'' : after s s' -> after s' s'' -> after s s''.
  Proof. intros (_ & A) (B & C). split; [exact B|eapply ext_trans; eassumption]. Qed.

  Lemma after_same s s' s'' : after s s' -> same_pos s' s'' -> wf s'' -> after s s''.
  Proof. intros (_ & A) B C. split; [exact C|]. eapply ext_trans; [exact A|apply same_pos_ext; exact B]. Qed.

  Lemma took_after s c s' : took s c s' -> after s s'.
  Proof. intro H. split; [eapply took_wf; exact H|eapply took_ext; exact H]. Qed.

  Lemma scaling_lock_spec s : wf s ->
    runs scaling_lock s (fun o s' => after s s' /\ opt_ok sp_ok o).
  Proof.
    intro Hw. unfold scaling_lock, ws_comments. apply runs_bind. apply runs_consume_while; [exact Hw|].
    intros ts s1 Ht _ _. pose proof (took_wf _ _ _ Ht) as Hw1. apply runs_bind, runs_peek.
    rewrite match_KEq. destruct (tk_eqb (peek_of s1) KEq) eqn:Ek.
    - apply tk_eqb_true in Ek. apply runs_bind. apply runs_bump_any; [exact Hw1|eapply peek_nonempty; [exact Ek|discriminate]|].
      intros t s2 Ht2 _ Hin _ _. apply runs_ret. split.
      + eapply after_took; [exact Ht|]. eapply took_after. exact Ht2.
      + cbn [opt_ok]. apply tok_span_ok. exact Hin.
    - apply runs_ret. split; [eapply took_after; exact Ht|exact I].
  Qed.

  Lemma text_in_span_ok t lo hi : text_in t lo hi -> sp_ok (text_span t).
  Proof. intros (H & _). apply text_span_ok. exact H. Qed.

  Lemma text_in_le t lo hi : text_in t lo hi -> lo <= fst (text_span t) /\ fst (text_span t) <= snd (text_span t) /\ snd (text_span t) <= hi.
  Proof. intros ((_ & _ & H) & A & B & _). tauto. Qed.

  (* parse_value on tokens that were just consumed *)
  Lemma parse_value_spec vts a s : wf s -> seg a vts (cur s) ->
    runs (parse_value cfg vts) s (fun r s' => after0 s s' /\ sp_ok (snd r)).
  Proof.
    intros Hw Hseg. unfold parse_value. apply runs_bind, runs_current_offset.
    assert (Hst : match vts with t :: _ => tstart t | [] => cur s end = a).
    { destruct vts as [|t r]; cbn [ParserSeg.seg] in Hseg; [symmetry|]; tauto. }
    rewrite Hst. pose proof (seg_span_ok _ _ _ _ Hseg) as Hsp.
    destruct (range_or_numeric cfg vts) as [[e|v]|] eqn:Er.
    - apply runs_bind. apply runs_event; [exact Hw| |].
      + cbn [ev_ok]. intros _. eapply range_or_numeric_diag; [|exact Er]. eapply seg_sorted; exact Hseg.
      + intros s1 Hw1 Hp. apply runs_ret. split; [split; assumption|exact Hsp].
    - apply runs_ret. split; [split; [exact Hw|apply same_pos_refl]|exact Hsp].
    - apply runs_bind. unfold text_value. apply runs_bind. eapply runs_textM; [exact Hseg|].
      intros t Ht. apply runs_bind.
      assert (Hcont : forall s1, wf s1 -> same_pos s s1 ->
                runs (ret (VText (text_trimmed t))) s1
                  (fun a0 s2 => runs (ret (a0, (a, cur s))) s2 (fun r s' => after0 s s' /\ sp_ok (snd r)))).
      { intros s1 Hw1 Hp. apply runs_ret, runs_ret. split; [split; assumption|exact Hsp]. }
      destruct (is_text_empty t).
      + apply runs_error; [exact Hw| |exact Hcont]. constructor; [eapply text_in_span_ok; exact Ht|constructor].
      + apply runs_ret. apply Hcont; [exact Hw|apply same_pos_refl].
  Qed.

  Lemma after0_cur s s' : after0 s s' -> cur s' = cur s.
  Proof. intros (_ & H). apply same_pos_cur. exact H. Qed.

  Lemma value_p_spec s : wf s ->
    runs (value_p cfg) s (fun v s' => after s s' /\ qvalue_ok v /\
       match b_rest s' with [] => True | t :: _ => kind t = KPercent end).
  Proof.
    intro Hw. unfold value_p. apply runs_bind. eapply runs_conseq; [apply scaling_lock_spec; exact Hw|].
    intros lock s1 ((Hw1 & He1) & Hl). apply runs_bind. apply runs_consume_while; [exact Hw1|].
    intros vts s2 Ht _ Hstop. pose proof (took_wf _ _ _ Ht) as Hw2. apply runs_bind.
    eapply runs_conseq; [eapply (parse_value_spec vts (cur s1)); [exact Hw2|apply Ht]|].
    intros [v sp] s3 ((Hw3 & Hp) & Hsp). cbn [snd] in Hsp. apply runs_ret. split; [|split].
    - split; [exact Hw3|]. eapply ext_trans; [exact He1|]. eapply ext_trans; [eapply took_ext; exact Ht|apply same_pos_ext; exact Hp].
    - split; cbn [qv_span qlock]; assumption.
    - rewrite (same_pos_rest _ _ Hp). destruct (b_rest s2) as [|t r]; [exact I|].
      apply negb_false_iff in Hstop. apply tk_eqb_true in Hstop. exact Hstop.
  Qed.

  Lemma wf_all_span s : wf s -> sp_ok (tokens_span (b_all s)).
  Proof. intros (_ & (en & H) & _). eapply tokens_span_ok. exact H. Qed.

  (* what callers of parse_quantity rely on *)
  Definition qres_ok (r : quantity * option span) : Prop :=
    quantity_ok (fst r) /\ opt_ok sp_ok (snd r) /\
    (forall sep u, snd r = Some sep -> q_unit (fst r) = Some u -> fst sep <= snd (text_span u)).

  Lemma parse_regular_quantity_spec s : wf s ->
    runs (parse_regular_quantity cfg) s (fun r s' => after s s' /\ qres_ok r).
  Proof.
    intro Hw. unfold parse_regular_quantity. apply runs_bind.
    eapply runs_conseq; [apply value_p_spec; exact Hw|].
    intros v s1 (Ha1 & Hv & Hstop). pose proof (proj1 Ha1) as Hw1. apply runs_bind, runs_peek.
    rewrite match_KPercent. destruct (tk_eqb (peek_of s1) KPercent) eqn:Ek.
    - apply tk_eqb_true in Ek. apply runs_bind, runs_bind.
      apply runs_bump_any; [exact Hw1|eapply peek_nonempty; [exact Ek|discriminate]|].
      intros sep s2 Ht2 _ Hsep _ Hend. pose proof (took_wf _ _ _ Ht2) as Hw2.
      apply runs_bind. apply runs_consume_rest; [exact Hw2|]. intros uts s3 Ht3 _.
      pose proof (took_wf _ _ _ Ht3) as Hw3. apply runs_bind.
      eapply runs_textM; [rewrite Hend; apply Ht3|]. intros ut Hut. apply runs_ret.
      apply runs_bind, runs_all_tokens.
      assert (Ha3 : after s s3).
      { eapply after_trans; [exact Ha1|]. eapply after_took; [exact Ht2|]. eapply took_after; exact Ht3. }
      pose proof (wf_all_span _ Hw3) as Hall. pose proof (tok_span_ok _ _ Hsep) as Hsepok.
      destruct (is_text_empty ut).
      + apply runs_bind. apply runs_warn; [exact Hw3|constructor; [exact Hsepok|constructor]|].
        intros s4 Hw4 Hp4. apply runs_ret. split; [eapply after_same; eassumption|].
        unfold qres_ok, quantity_ok; cbn [fst snd q_val q_unit q_span opt_ok]. rewrite <- (same_pos_all _ _ Hp4).
        split; [split; [exact Hv|split; [exact I|apply wf_all_span; exact Hw4]]|]. split; [exact Hsepok|discriminate].
      + apply runs_ret. split; [exact Ha3|].
        unfold qres_ok, quantity_ok; cbn [fst snd q_val q_unit q_span opt_ok].
        split; [split; [exact Hv|split; [apply Hut|exact Hall]]|]. split; [exact Hsepok|].
        intros sep' u E1 E2. injection E1 as <-. injection E2 as <-. unfold tok_span; cbn [fst].
        pose proof (text_in_le _ _ _ Hut). pose proof (tok_in_lt _ _ Hsep). lia.
    - apply runs_bind, runs_ret. apply runs_bind, runs_all_tokens. apply runs_ret. split; [exact Ha1|].
      unfold qres_ok, quantity_ok; cbn [fst snd q_val q_unit q_span opt_ok].
      split; [split; [exact Hv|split; [exact I|apply wf_all_span; exact Hw1]]|]. split; [exact I|discriminate].
  Qed.

  Lemma drop_ws_block_suffix ts : exists a, ts = a ++ drop_ws_block ts.
  Proof.
    induction ts as [|t r (a & IH)]; cbn [drop_ws_block]; [exists []; reflexivity|].
    destruct (is_ws_block (kind t)); [|exists []; reflexivity]. exists (t :: a). cbn [app]. f_equal. exact IH.
  Qed.

  Lemma drop_ws_block_nonempty ts h : In h ts -> is_ws_block (kind h) = false -> drop_ws_block ts <> [].
  Proof.
    induction ts as [|t r IH]; intros Hi Hh; [destruct Hi|]. cbn [drop_ws_block].
    destruct (is_ws_block (kind t)) eqn:E; [|discriminate].
    destruct Hi as [->|Hi]; [congruence|]. apply IH; assumption.
  Qed.

  Lemma is_ws_comment_block k : is_ws_comment k = false -> is_ws_block k = false.
  Proof. destruct k; cbn; congruence. Qed.

  Lemma parse_advanced_quantity_spec s : wf s ->
    runs (parse_advanced_quantity cfg) s (fun o s' => wf s' /\ opt_ok qres_ok o).
  Proof.
    intro Hw. unfold parse_advanced_quantity. apply runs_bind, runs_all_tokens.
    destruct (existsb _ (b_all s)); [apply runs_ret; split; [exact Hw|exact I]|].
    apply runs_bind. eapply runs_conseq; [apply scaling_lock_spec; exact Hw|].
    intros lock s1 ((Hw1 & He1) & Hl). unfold ws_comments. apply runs_bind. apply runs_consume_while; [exact Hw1|].
    intros ws s2 Ht2 _ Hstop2. pose proof (took_wf _ _ _ Ht2) as Hw2.
    apply runs_bind. apply runs_consume_while; [exact Hw2|].
    intros vts s3 Ht3 _ _. pose proof (took_wf _ _ _ Ht3) as Hw3.
    destruct (rev vts) as [|l rl] eqn:Erev; [apply runs_ret; split; [exact Hw3|exact I]|].
    destruct (negb (tk_eqb (kind l) KWs)); [apply runs_ret; split; [exact Hw3|exact I]|].
    rewrite <- Erev.
    assert (Hvn : vts <> []) by (intro Hc; rewrite Hc in Erev; discriminate).
    pose proof Ht3 as (_ & _ & Er3 & _ & _ & Hseg3).
    destruct (drop_ws_block_suffix (rev vts)) as (x & Hx).
    assert (Hpre : vts = rev (drop_ws_block (rev vts)) ++ rev x).
    { rewrite <- rev_app_distr, <- Hx, rev_involutive. reflexivity. }
    set (vts' := rev (drop_ws_block (rev vts))) in *.
    assert (Hn' : vts' <> []).
    { destruct vts as [|h vr]; [congruence|]. rewrite Er3 in Hstop2. cbn [app] in Hstop2.
      apply is_ws_comment_block in Hstop2. subst vts'. intro Hc.
      apply (f_equal (@rev tok)) in Hc. rewrite rev_involutive in Hc. cbn [rev] in Hc.
      revert Hc. eapply drop_ws_block_nonempty; [|exact Hstop2]. apply in_or_app. right. left. reflexivity. }
    destruct vts' as [|v0 vr'] eqn:Ev'; [congruence|]. rewrite <- Ev' in *.
    rewrite Hpre in Hseg3. apply seg_app in Hseg3 as (mid & Hseg' & _).
    apply runs_bind. apply runs_consume_rest; [exact Hw3|]. intros uts s4 Ht4 _.
    pose proof (took_wf _ _ _ Ht4) as Hw4. pose proof Ht4 as (_ & _ & _ & _ & _ & Hseg4).
    destruct uts as [|u0 ur] eqn:Eu; [apply runs_ret; split; [exact Hw4|exact I]|]. rewrite <- Eu in *.
    destruct (range_or_numeric cfg vts') as [r|] eqn:Er; [|apply runs_ret; split; [exact Hw4|exact I]].
    assert (Hu0 : tstart u0 = cur s3) by (rewrite Eu in Hseg4; cbn [ParserSeg.seg] in Hseg4; tauto).
    assert (Hfin : forall v s5, wf s5 -> same_pos s4 s5 ->
       runs (ut <- textM cfg (tstart u0) uts ;;
             ret (Some ({| q_val := {| qv := v; qv_span := tokens_span vts'; qlock := lock |};
                           q_unit := Some ut; q_span := tokens_span (b_all s) |}, @None span))) s5
            (fun o s' => wf s' /\ opt_ok qres_ok o)).
    { intros v s5 Hw5 Hp5. apply runs_bind. eapply runs_textM; [rewrite Hu0; exact Hseg4|].
      intros ut Hut. apply runs_ret. split; [exact Hw5|].
      unfold opt_ok, qres_ok, quantity_ok, qvalue_ok; cbn [fst snd q_val q_unit q_span qv_span qlock opt_ok].
      split; [|split; [exact I|discriminate]].
      split; [split; [eapply tokens_span_ok; exact Hseg'|exact Hl]|]. split; [apply Hut|apply wf_all_span; exact Hw]. }
    apply runs_bind. destruct r as [e|v].
    - apply runs_bind. apply runs_event; [exact Hw4| |].
      + cbn [ev_ok]. intros _. eapply range_or_numeric_diag; [|exact Er]. eapply seg_sorted; exact Hseg'.
      + intros s5 Hw5 Hp5. apply runs_ret. apply Hfin; assumption.
    - apply runs_ret. apply Hfin; [exact Hw4|apply same_pos_refl].
  Qed.

  (* sub_block: the inner parser runs on its own token list, the outer position is kept *)
  Lemma runs_sub_block {A} ts a b (m : M A) s (R : A -> bp -> Prop) :
    wf s -> ts <> [] -> seg a ts b ->
    (forall s0, wf s0 -> b_all s0 = ts -> b_rest s0 = ts -> b_done s0 = [] ->
       runs m s0 (fun x s1 => wf s1 /\ forall s', wf s' -> same_pos s s' -> R x s')) ->
    runs (sub_block ts m) s R.
  Proof.
    intros Hw Hn Hseg Hm. unfold sub_block, runs. destruct ts as [|t0 tr] eqn:E; [congruence|]. rewrite <- E in *.
    set (s0 := {| b_all := ts; b_done := []; b_rest := ts; b_evs := b_evs s |}).
    destruct (Hm s0) as (x & s1 & Em & Hw1 & HR); try reflexivity.
    - unfold s0, wf, base_offset; cbn [b_all b_done b_rest b_evs rev app]. split; [reflexivity|]. split; [|apply wf_evs; exact Hw].
      exists b. rewrite E in *. cbn [ParserSeg.seg] in Hseg. destruct Hseg as (Ha & H). rewrite Ha. cbn [ParserSeg.seg]. tauto.
    - rewrite Em. eexists _, _. split; [reflexivity|]. apply HR.
      + eapply wf_same_pos; [exact Hw|unfold same_pos; cbn; tauto|]. cbn [b_evs]. apply wf_evs; exact Hw1.
      + unfold same_pos; cbn; tauto.
  Qed.

  Lemma parse_quantity_spec ts a b s : wf s -> ts <> [] -> seg a ts b ->
    runs (parse_quantity cfg ts) s (fun r s' => after0 s s' /\ qres_ok r).
  Proof.
    intros Hw Hn Hseg. unfold parse_quantity. destruct ts as [|t0 tr] eqn:E; [congruence|]. rewrite <- E in *.
    eapply runs_sub_block; [exact Hw|exact Hn|exact Hseg|].
    intros s0 Hw0 _ _ _.
    assert (Hreg : forall s1, wf s1 -> runs (parse_regular_quantity cfg) s1
              (fun x s2 => wf s2 /\ forall s', wf s' -> same_pos s s' -> after0 s s' /\ qres_ok x)).
    { intros s1 Hw1. eapply runs_conseq; [apply parse_regular_quantity_spec; exact Hw1|].
      intros r s2 ((Hw2 & _) & Hr). split; [exact Hw2|]. intros s' Hw' Hp. split; [split; assumption|exact Hr]. }
    destruct (has cfg X_ADVANCED_UNITS); [|apply Hreg; exact Hw0].
    apply runs_bind. apply runs_with_recover; [exact Hw0|].
    eapply runs_conseq; [apply parse_advanced_quantity_spec; exact Hw0|].
    intros [r|] s1 (Hw1 & Hr); (split; [exact Hw1|]).
    - apply runs_ret. split; [exact Hw1|]. intros s' Hw' Hp. split; [split; assumption|exact Hr].
    - intros s2 Hw2 _. apply Hreg. exact Hw2.
  Qed.

  (* ---------------------------------------------------------------- consumed runs of tokens *)

  (* like [took], events may have been pushed in between *)
  Definition adv (s : bp) (c : list tok) (s' : bp) : Prop :=
    wf s' /\ b_all s' = b_all s /\ b_rest s = c ++ b_rest s' /\ b_done s' = rev c ++ b_done s /\
    seg (cur s) c (cur s').

  Lemma took_adv s c s' : took s c s' -> adv s c s'.
  Proof. unfold took, adv. tauto. Qed.

  Lemma adv_nil s : wf s -> adv s [] s.
  Proof. intro H. apply took_adv, took_nil. exact H. Qed.

  Lemma adv_trans s c1 s1 c2 s2 : adv s c1 s1 -> adv s1 c2 s2 -> adv s (c1 ++ c2) s2.
  Proof.
    intros (_ & A1 & A2 & A3 & A4) (B0 & B1 & B2 & B3 & B4). split; [exact B0|]. split; [congruence|].
    split; [rewrite A2, B2, app_assoc; reflexivity|]. split; [rewrite B3, A3, rev_app_distr, app_assoc; reflexivity|].
    apply seg_app. exists (cur s1). tauto.
  Qed.

  Lemma adv_same s c s1 s2 : adv s c s1 -> same_pos s1 s2 -> wf s2 -> adv s c s2.
  Proof.
    intros (_ & A1 & A2 & A3 & A4) Hp Hw. pose proof (same_pos_cur _ _ Hp) as Ec. destruct Hp as (P1 & P2 & P3).
    split; [exact Hw|]. split; [congruence|]. split; [congruence|]. split; [congruence|]. rewrite Ec. exact A4.
  Qed.

  Lemma adv_after s c s' : adv s c s' -> after s s'.
  Proof. intros (A0 & A1 & A2 & A3 & _). split; [exact A0|]. split; [exact A1|]. exists c. tauto. Qed.

  Lemma adv_len s c s' : adv s c s' -> (length (b_rest s) = length c + length (b_rest s'))%nat.
  Proof. intros (_ & _ & E & _). rewrite E, app_length. reflexivity. Qed.

  Lemma after_facts s s' : wf s -> after s s' ->
    cur s <= cur s' /\ (length (b_rest s') <= length (b_rest s))%nat /\ b_all s' = b_all s /\
    (b_done s <> [] -> b_done s' <> []).
  Proof. intros Hw (Hw' & He). apply ext_facts; assumption. Qed.

  Lemma wf_done_pos s : wf s -> b_done s <> [] -> 0 < cur s.
  Proof.
    intros Hw Hn. destruct (wf_split s Hw) as (en & H1 & _).
    apply seg_lt in H1; [lia|]. intro Hc. apply (f_equal (@rev tok)) in Hc. rewrite rev_involutive in Hc. cbn [rev] in Hc. contradiction.
  Qed.

  (* ---------------------------------------------------------------- component pieces *)

  Definition body_ok (s : bp) (bd : body) (s' : bp) : Prop :=
    exists mid, seg (cur s) (bd_name bd) mid /\ mid <= cur s' /\
      opt_ok (fun qts => qts <> [] /\ exists a b, seg a qts b) (bd_qty bd) /\
      match bd_close bd with Some sp => sp_ok sp /\ snd sp = cur s' | None => mid = cur s' end.

  Lemma took_cur_le s c s' : took s c s' -> cur s <= cur s'.
  Proof. intros (_ & _ & _ & _ & _ & H). eapply seg_le; exact H. Qed.

  Lemma took_seg s c s' : took s c s' -> seg (cur s) c (cur s').
  Proof. intros (_ & _ & _ & _ & _ & H). exact H. Qed.

  Lemma comp_body_spec s : wf s ->
    runs comp_body s (fun o s' => after s s' /\ opt_ok (fun bd => body_ok s bd s') o).
  Proof.
    intro Hw. unfold comp_body. apply runs_bind.
    (* the fallback: a single word *)
    assert (Hsecond : forall s2, wf s2 -> same_pos s s2 ->
      runs (with_recover
              (ts <- consume_while is_single_word_tok ;;
               match ts with
               | [] =>
                   r <- rest ;;
                   isws <- at_kind KWs ;;
                   (match r with
                    | [] => ret tt
                    | _ => if isws then ret tt else (co <- current_offset ;; warn D_SINGLE_WORD [(co, co)])
                    end) ;;;
                   ret None
               | _ => ret (Some {| bd_name := ts; bd_close := None; bd_qty := None |})
               end)) s2
        (fun o s' => after s s' /\ opt_ok (fun bd => body_ok s bd s') o)).
    { intros s2 Hw2 Hp2. apply runs_with_recover; [exact Hw2|]. apply runs_bind.
      apply runs_consume_while; [exact Hw2|]. intros ts s3 Ht3 _ _. pose proof (took_wf _ _ _ Ht3) as Hw3.
      destruct ts as [|t0 tr] eqn:Ets.
      - apply runs_bind, runs_rest. apply runs_bind, runs_at_kind. apply runs_bind.
        assert (Hend : forall s4, wf s4 ->
           runs (ret (@None body)) s4 (fun o s' => wf s' /\
             match o with
             | Some a => after s s' /\ opt_ok (fun bd => body_ok s bd s') (Some a)
             | None => forall s'', wf s'' -> same_pos s2 s'' -> after s s'' /\ opt_ok (fun bd => body_ok s bd s'') None
             end)).
        { intros s4 Hw4. apply runs_ret. split; [exact Hw4|]. intros s'' Hw'' Hp''. split; [|exact I].
          split; [exact Hw''|]. apply same_pos_ext. eapply same_pos_trans; eassumption. }
        destruct (b_rest s3); [apply runs_ret, Hend; exact Hw3|].
        destruct (tk_eqb (peek_of s3) KWs); [apply runs_ret, Hend; exact Hw3|].
        apply runs_bind, runs_current_offset. apply runs_warn; [exact Hw3| |].
        + constructor; [apply span_ok_pos, wf_cur_bnd; exact Hw3|constructor].
        + intros s4 Hw4 _. apply Hend. exact Hw4.
      - rewrite <- Ets in *. apply runs_ret. split; [exact Hw3|]. split.
        + split; [exact Hw3|]. eapply ext_trans; [apply same_pos_ext; exact Hp2|eapply took_ext; exact Ht3].
        + cbn [opt_ok]. exists (cur s3). cbn [bd_name bd_qty bd_close opt_ok]. rewrite <- (same_pos_cur _ _ Hp2).
          split; [eapply took_seg; exact Ht3|]. split; [lia|]. split; [exact I|reflexivity]. }
    apply runs_with_recover; [exact Hw|].
    apply runs_obindM. apply runs_until; [exact Hw| |].
    2:{ intros _. split; [exact Hw|]. intros s2 Hw2 Hp2. apply Hsecond; assumption. }
    intros name s1 t1 r1 Ht1 _ _ _. pose proof (took_wf _ _ _ Ht1) as Hw1.
    apply runs_obindM. apply runs_consume; [exact Hw1|discriminate| |].
    2:{ intros _. split; [exact Hw1|]. intros s2 Hw2 Hp2. apply Hsecond; assumption. }
    intros ob s2 Ht2 _ Hob Hobs _ _. pose proof (took_wf _ _ _ Ht2) as Hw2.
    apply runs_obindM. apply runs_until; [exact Hw2| |].
    2:{ intros _. split; [exact Hw2|]. intros s3 Hw3 Hp3. apply Hsecond; assumption. }
    intros qty s3 t3 r3 Ht3 Er3 Hk3 _. pose proof (took_wf _ _ _ Ht3) as Hw3.
    apply runs_bind. apply runs_bump; [exact Hw3|exists t3, r3; split; [exact Er3|apply tk_eqb_true; exact Hk3]|].
    intros cb s4 Ht4 _ Hcb _ Hcbe _. pose proof (took_wf _ _ _ Ht4) as Hw4.
    apply runs_ret. split; [exact Hw4|]. apply runs_ret.
    pose proof (took_cur_le _ _ _ Ht1). pose proof (took_cur_le _ _ _ Ht2).
    pose proof (took_cur_le _ _ _ Ht3). pose proof (took_cur_le _ _ _ Ht4).
    split.
    - eapply after_took; [exact Ht1|]. eapply after_took; [exact Ht2|]. eapply after_took; [exact Ht3|]. eapply took_after; exact Ht4.
    - cbn [opt_ok]. exists (cur s1). cbn [bd_name bd_qty bd_close]. split; [eapply took_seg; exact Ht1|]. split; [lia|]. split.
      + destruct (existsb _ qty) eqn:Eex; cbn [opt_ok]; [|exact I]. split.
        * intro Hc. rewrite Hc in Eex. discriminate.
        * exists (cur s2), (cur s3). eapply took_seg; exact Ht3.
      + cbn [snd]. split; [|exact Hcbe]. pose proof (tok_in_lt _ _ Hob). pose proof (tok_in_lt _ _ Hcb).
        apply span_ok_intro; [lia|apply tok_in_bnd_l; exact Hob|apply tok_in_bnd_r; exact Hcb].
  Qed.

  (* ---------------------------------------------------------------- modifiers *)

  Definition is_close (u : tok) : bool := tk_eqb (kind u) KCloseParen.

  (* what modifiers() collects: modifier characters, `&` possibly followed by `( ... )` *)
  Inductive mshape : list tok -> Prop :=
  | ms_nil : mshape []
  | ms_one t r : mod_bit (kind t) <> None -> mshape r -> mshape (t :: r)
  | ms_grp t op inner cp r :
      kind t = KAnd -> has cfg X_INTERMEDIATE_PREPARATIONS = true -> kind op = KOpenParen ->
      Forall (fun u => is_close u = false) inner -> kind cp = KCloseParen -> mshape r ->
      mshape (t :: op :: inner ++ cp :: r).

  Lemma mshape_app a b : mshape a -> mshape b -> mshape (a ++ b).
  Proof.
    intros Ha Hb. induction Ha as [|t r Ht Hr IH|t op inner cp r H1 H2 H3 H4 H5 Hr IH]; cbn [app].
    - exact Hb.
    - apply ms_one; assumption.
    - rewrite <- app_assoc. cbn [app]. apply ms_grp; assumption.
  Qed.

  Lemma mshape_head r : mshape r -> match r with [] => True | u :: _ => mod_bit (kind u) <> None end.
  Proof. intros [|t r' Ht _|t op inner cp r' H1 _ _ _ _ _]; [exact I|exact Ht|]. rewrite H1. discriminate. Qed.

  Lemma peek_of_cons s t r : b_rest s = t :: r -> peek_of s = kind t.
  Proof. intro E. unfold peek_of. rewrite E. reflexivity. Qed.

  Lemma modifiers_loop_spec fuel : forall acc s0 s,
    adv s0 acc s -> mshape acc -> (length (b_rest s) < fuel)%nat ->
    runs (modifiers_loop cfg fuel acc) s (fun mts s' => adv s0 mts s' /\ mshape mts).
  Proof.
    induction fuel as [|f IH]; intros acc s0 s Ha Hm Hl; [lia|].
    pose proof Ha as (Hw & _). cbn [modifiers_loop]. apply runs_bind, runs_peek.
    assert (Hsimple : mod_bit (peek_of s) <> None -> peek_of s <> KAnd ->
              runs (t <- bump_any ;; modifiers_loop cfg f (acc ++ [t])) s (fun mts s' => adv s0 mts s' /\ mshape mts)).
    { intros Hb _. apply runs_bind. apply runs_bump_any; [exact Hw| |].
      - eapply peek_nonempty; [reflexivity|]. intro Hc. rewrite Hc in Hb. apply Hb. reflexivity.
      - intros t s1 Ht Er _ _ _. apply IH.
        + eapply adv_trans; [exact Ha|apply took_adv; exact Ht].
        + apply mshape_app; [exact Hm|]. apply ms_one; [|apply ms_nil]. rewrite <- (peek_of_cons _ _ _ Er). exact Hb.
        + apply took_len in Ht. cbn [length] in Ht. lia. }
    destruct (peek_of s) eqn:Ek; try (apply runs_ret; split; assumption);
      try (apply Hsimple; cbn [mod_bit]; discriminate).
    (* `&` *)
    apply runs_bind. apply runs_bump_any; [exact Hw|eapply peek_nonempty; [exact Ek|discriminate]|].
    intros t s1 Ht Er _ _ _. pose proof (took_wf _ _ _ Ht) as Hw1.
    assert (Hkt : kind t = KAnd) by (rewrite <- (peek_of_cons _ _ _ Er); exact Ek).
    assert (Ha1 : adv s0 (acc ++ [t]) s1) by (eapply adv_trans; [exact Ha|apply took_adv; exact Ht]).
    assert (Hm1 : mshape (acc ++ [t])).
    { apply mshape_app; [exact Hm|]. apply ms_one; [|apply ms_nil]. rewrite Hkt. discriminate. }
    assert (Hl1 : (length (b_rest s1) < f)%nat) by (apply took_len in Ht; cbn [length] in Ht; lia).
    destruct (has cfg X_INTERMEDIATE_PREPARATIONS) eqn:Ehas; [|apply IH; assumption].
    apply runs_bind. apply runs_with_recover; [exact Hw1|].
    apply runs_obindM. apply runs_consume; [exact Hw1|discriminate| |].
    2:{ intros _. split; [exact Hw1|]. intros s2 Hw2 Hp2. apply IH; [eapply adv_same; eassumption|exact Hm1|].
        rewrite (same_pos_rest _ _ Hp2). exact Hl1. }
    intros op s2 Ht2 _ _ _ _ Hkop. pose proof (took_wf _ _ _ Ht2) as Hw2.
    apply runs_obindM. apply runs_until; [exact Hw2| |].
    2:{ intros _. split; [exact Hw2|]. intros s3 Hw3 Hp3. apply IH; [eapply adv_same; eassumption|exact Hm1|].
        rewrite (same_pos_rest _ _ Hp3). exact Hl1. }
    intros inner s3 t3 r3 Ht3 Er3 Hk3 Hinner. pose proof (took_wf _ _ _ Ht3) as Hw3.
    apply runs_bind. apply runs_bump; [exact Hw3|exists t3, r3; split; [exact Er3|apply tk_eqb_true; exact Hk3]|].
    intros cp s4 Ht4 _ _ _ _ Hkcp. pose proof (took_wf _ _ _ Ht4) as Hw4.
    apply runs_ret. split; [exact Hw4|]. apply IH.
    - replace (acc ++ t :: op :: inner ++ [cp]) with (acc ++ ([t] ++ ([op] ++ (inner ++ [cp])))) by reflexivity.
      eapply adv_trans; [exact Ha|]. eapply adv_trans; [apply took_adv; exact Ht|].
      eapply adv_trans; [apply took_adv; exact Ht2|]. eapply adv_trans; apply took_adv; eassumption.
    - apply mshape_app; [exact Hm|]. apply ms_grp; try assumption; apply ms_nil.
    - apply took_len in Ht2, Ht3, Ht4. cbn [length] in *. lia.
  Qed.

  Lemma modifiers_spec s : wf s ->
    runs (modifiers cfg) s (fun mts s' => adv s mts s' /\ mshape mts).
  Proof.
    intro Hw. unfold modifiers. destruct (negb _).
    - apply runs_ret. split; [apply adv_nil; exact Hw|apply ms_nil].
    - apply runs_bind, runs_rest. apply modifiers_loop_spec; [apply adv_nil; exact Hw|apply ms_nil|lia].
  Qed.

  Lemma note_spec s : wf s -> runs (note cfg) s (fun o s' => after s s' /\ opt_ok text_ok o).
  Proof.
    intro Hw. unfold note. apply runs_with_recover; [exact Hw|].
    assert (Hnone : forall s1, wf s1 -> wf s1 /\ forall s'', wf s'' -> same_pos s s'' -> after s s'' /\ opt_ok text_ok None).
    { intros s1 Hw1. split; [exact Hw1|]. intros s'' Hw'' Hp. split; [|exact I]. split; [exact Hw''|apply same_pos_ext; exact Hp]. }
    apply runs_obindM. apply runs_consume; [exact Hw|discriminate| |]; [|intros _; apply Hnone; exact Hw].
    intros op s1 Ht1 _ _ _ _ _. pose proof (took_wf _ _ _ Ht1) as Hw1.
    apply runs_bind, runs_current_offset.
    apply runs_obindM. apply runs_until; [exact Hw1| |]; [|intros _; apply Hnone; exact Hw1].
    intros nts s2 t2 r2 Ht2 Er2 Hk2 _. pose proof (took_wf _ _ _ Ht2) as Hw2.
    apply runs_bind. apply runs_bump; [exact Hw2|exists t2, r2; split; [exact Er2|apply tk_eqb_true; exact Hk2]|].
    intros cp s3 Ht3 _ _ _ _ _. pose proof (took_wf _ _ _ Ht3) as Hw3.
    apply runs_bind. eapply runs_textM; [eapply took_seg; exact Ht2|]. intros nt Hnt.
    apply runs_ret. split; [exact Hw3|]. split; [|apply Hnt].
    eapply after_took; [exact Ht1|]. eapply after_took; [exact Ht2|]. eapply took_after; exact Ht3.
  Qed.

  (* ---------------------------------------------------------------- parse_modifiers *)

  Lemma after0_refl s : wf s -> after0 s s.
  Proof. intro H. split; [exact H|apply same_pos_refl]. Qed.

  Lemma after0_trans a b c : after0 a b -> after0 b c -> after0 a c.
  Proof. intros (_ & A) (B & C). split; [exact B|eapply same_pos_trans; eassumption]. Qed.

  Lemma seg_tl a l b : seg a l b -> exists a', seg a' (tl l) b.
  Proof. destruct l as [|x r]; cbn [tl ParserSeg.seg]; [intro H; exists a; exact H|]. intros (_ & _ & H). exists (tend x). exact H. Qed.

  Lemma position_close op inner cp r2 :
    kind op = KOpenParen -> Forall (fun u => is_close u = false) inner -> kind cp = KCloseParen ->
    position (fun k => tk_eqb k KCloseParen) (op :: inner ++ cp :: r2) = Some (S (length inner)).
  Proof.
    intros H1 H2 H3. cbn [position]. rewrite H1. cbn [tk_eqb tkind_beq option_map]. f_equal.
    induction H2 as [|u l Hu _ IH]; cbn [app position length].
    - rewrite H3. reflexivity.
    - unfold is_close in Hu. rewrite Hu, IH. reflexivity.
  Qed.

  Lemma skipn_inter (op : tok) inner cp r2 : skipn (S (S (length inner))) (op :: inner ++ cp :: r2) = r2.
  Proof.
    change (skipn (S (S (length inner))) (op :: inner ++ cp :: r2)) with (skipn (S (length inner)) (inner ++ cp :: r2)).
    replace (inner ++ cp :: r2) with ((inner ++ [cp]) ++ r2) by (rewrite <- app_assoc; reflexivity).
    replace (S (length inner)) with (length (inner ++ [cp])) by (rewrite app_length; cbn [length]; lia).
    rewrite skipn_app, skipn_all, Nat.sub_diag. reflexivity.
  Qed.

  Definition inter_post (s : bp) (r2 : list tok) (r : option interdata * list tok) (s' : bp) : Prop :=
    after0 s s' /\ snd r = r2 /\ opt_ok inter_ok (fst r).

  Lemma inter_leaf_err s r2 code labels :
    wf s -> Forall sp_ok labels ->
    runs (error code labels ;;; ret (@None interdata, r2)) s (inter_post s r2).
  Proof.
    intros Hw Hl. apply runs_bind. apply runs_error; [exact Hw|exact Hl|]. intros s1 Hw1 Hp1.
    apply runs_ret. split; [split; assumption|]. split; [reflexivity|exact I].
  Qed.

  Lemma inter_leaf_ok s r2 d : wf s -> inter_ok d -> runs (ret (Some d, r2)) s (inter_post s r2).
  Proof. intros Hw Hd. apply runs_ret. split; [apply after0_refl; exact Hw|]. split; [reflexivity|exact Hd]. Qed.

  Lemma parse_inter_group s a b op inner cp r2 :
    wf s -> seg a (op :: inner ++ cp :: r2) b ->
    kind op = KOpenParen -> Forall (fun u => is_close u = false) inner -> kind cp = KCloseParen ->
    runs (parse_inter (op :: inner ++ cp :: r2)) s (inter_post s r2).
  Proof.
    intros Hw Hseg H1 H2 H3. unfold parse_inter.
    replace (negb (tk_eqb (kind op) KOpenParen)) with false by (rewrite H1; reflexivity).
    rewrite (position_close op inner cp r2 H1 H2 H3). rewrite skipn_inter.
    set (ts := op :: inner ++ cp :: r2) in *.
    destruct (seg_split _ _ _ _ (S (S (length inner))) Hseg) as (m1 & Hslice & _).
    set (slice := firstn (S (S (length inner))) ts) in *. clearbody slice.
    destruct (seg_tl _ _ _ Hslice) as (a' & Htl).
    destruct (seg_split _ _ _ _ (S (length inner) - 1) Htl) as (m2 & Hinner & _).
    set (inner0 := firstn (S (length inner) - 1) (tl slice)) in *. clearbody inner0.
    pose proof (tokens_span_ok _ _ _ _ Hslice) as Hsl. pose proof (tokens_span_ok _ _ _ _ Hinner) as Hin.
    assert (Hfil : Forall tok_in (filter (fun t => negb (is_ws_block (kind t))) inner0)).
    { apply Forall_forall. intros x Hx. apply filter_In in Hx as (Hx & _). eapply seg_In in Hx; [|exact Hinner]. tauto. }
    set (filtered := filter (fun t => negb (is_ws_block (kind t))) inner0) in *. clearbody filtered.
    pose proof (Forall_rev Hfil) as Hrev.
    cbv beta zeta.
    destruct filtered as [|x1 [|x2 [|x3 [|x4 l]]]].
    all: repeat match goal with H : Forall tok_in (_ :: _) |- _ => inversion H; subst; clear H end.
    all: repeat match goal with |- runs (if ?c then _ else _) _ _ => destruct c end.
    all: try (destruct (rev (x1 :: x2 :: x3 :: x4 :: l)) as [|i [|s0 rr]];
              repeat match goal with H : Forall tok_in (_ :: _) |- _ => inversion H; subst; clear H end;
              repeat match goal with |- runs (if ?c then _ else _) _ _ => destruct c end).
    all: first [ apply inter_leaf_ok; [exact Hw|exact Hsl]
               | apply inter_leaf_err; [exact Hw|];
                 repeat (constructor; [first [exact Hsl | exact Hin | apply tok_span_ok; assumption]|]); constructor ].
  Qed.

  Lemma parse_inter_plain s r :
    match r with [] => True | u :: _ => kind u <> KOpenParen end ->
    parse_inter r s = Done ((None, r), s).
  Proof.
    intro H. unfold parse_inter. destruct r as [|u r']; [reflexivity|].
    destruct (tk_eqb (kind u) KOpenParen) eqn:E; [apply tk_eqb_true in E; contradiction|]. reflexivity.
  Qed.

  Lemma bit_KAt k bit : mod_bit k = Some bit -> N.testbit bit 0 = true -> k = KAt.
  Proof. destruct k; cbn [mod_bit]; intros [=<-]; vm_compute; congruence. Qed.

  Definition mods_post (s : bp) (mods : N) (ts : list tok) (r : N * option interdata) (s' : bp) : Prop :=
    after0 s s' /\ opt_ok inter_ok (snd r) /\
    (N.testbit (fst r) 0 = true -> N.testbit mods 0 = true \/ exists t, In t ts /\ kind t = KAt).

  Lemma parse_mods_loop_spec fuel : forall ts a b mspan mods inter s,
    wf s -> mshape ts -> seg a ts b -> sp_ok mspan -> opt_ok inter_ok inter -> (length ts < fuel)%nat ->
    runs (parse_mods_loop cfg fuel ts mspan mods inter) s (mods_post s mods ts).
  Proof.
    induction fuel as [|f IH]; intros ts a b mspan mods inter s Hw Hm Hseg Hsp Hi Hl; [lia|].
    cbn [parse_mods_loop].
    (* the tail of the loop once the `&` data has been read *)
    assert (Htail : forall t bit r inter' s1, ts = t :: r \/ (exists g, ts = t :: g ++ r) ->
              mod_bit (kind t) = Some bit -> mshape r -> (exists a', seg a' r b) -> opt_ok inter_ok inter' ->
              (length r < f)%nat -> after0 s s1 ->
              runs (if N.land mods bit =? bit
                    then error D_DUP_MOD [mspan] ;;; parse_mods_loop cfg f r mspan mods inter'
                    else parse_mods_loop cfg f r mspan (N.lor mods bit) inter') s1 (mods_post s mods ts)).
    { intros t bit r inter' s1 Hts Hbit Hmr (a' & Hsr) Hi' Hlr (Hw1 & Hp1).
      assert (Hin : forall u, In u r -> In u ts).
      { intros u Hu. destruct Hts as [->|(g & ->)]; [right; exact Hu|]. right. apply in_or_app. right. exact Hu. }
      assert (Hint : In t ts) by (destruct Hts as [->|(g & ->)]; left; reflexivity).
      destruct (N.land mods bit =? bit).
      - apply runs_bind. apply runs_error; [exact Hw1|constructor; [exact Hsp|constructor]|].
        intros s2 Hw2 Hp2. eapply runs_conseq; [eapply IH; eassumption|].
        intros res s3 (Ha3 & Hi3 & Hb3). split; [|split; [exact Hi3|]].
        + eapply after0_trans; [split; [exact Hw1|exact Hp1]|]. eapply after0_trans; [split; [exact Hw2|exact Hp2]|exact Ha3].
        + intro Hb. destruct (Hb3 Hb) as [Hb'|(u & Hu & Hk)]; [left; exact Hb'|]. right. exists u. split; [apply Hin; exact Hu|exact Hk].
      - eapply runs_conseq; [eapply IH; eassumption|].
        intros res s3 (Ha3 & Hi3 & Hb3). split; [|split; [exact Hi3|]].
        + eapply after0_trans; [split; [exact Hw1|exact Hp1]|exact Ha3].
        + intro Hb. destruct (Hb3 Hb) as [Hb'|(u & Hu & Hk)].
          * rewrite N.lor_spec in Hb'. apply orb_true_iff in Hb' as [Hb'|Hb']; [left; exact Hb'|].
            right. exists t. split; [exact Hint|]. eapply bit_KAt; eassumption.
          * right. exists u. split; [apply Hin; exact Hu|exact Hk]. }
    inversion Hm as [E|t r Ht Hr E|t op inner cp r H1 H2 H3 H4 H5 Hr E]; subst ts.
    - apply runs_ret. split; [apply after0_refl; exact Hw|]. split; [exact Hi|]. cbn [fst]. intro Hb. left. exact Hb.
    - cbn [ParserSeg.seg] in Hseg. destruct Hseg as (_ & _ & Hsr).
      destruct (mod_bit (kind t)) as [bit|] eqn:Ebit; [|congruence]. apply runs_bind.
      assert (Hnext : forall inter', opt_ok inter_ok inter' ->
         runs (ret (inter', r)) s (fun x s1 => runs (let '(inter', r') := x in
              if N.land mods bit =? bit
              then error D_DUP_MOD [mspan] ;;; parse_mods_loop cfg f r' mspan mods inter'
              else parse_mods_loop cfg f r' mspan (N.lor mods bit) inter') s1 (mods_post s mods (t :: r)))).
      { intros inter' Hi'. apply runs_ret. eapply Htail; try eassumption.
        - left. reflexivity.
        - eexists; exact Hsr.
        - cbn [length] in Hl. lia.
        - apply after0_refl. exact Hw. }
      destruct (tk_eqb (kind t) KAnd && has cfg X_INTERMEDIATE_PREPARATIONS).
      + unfold runs at 1. rewrite parse_inter_plain.
        * eexists _, _. split; [reflexivity|]. destruct (Hnext None I) as (x & s1 & Ex & Hx).
          injection Ex as <- <-. exact Hx.
        * pose proof (mshape_head r Hr) as Hh. destruct r as [|u r']; [exact I|].
          intro Hc. rewrite Hc in Hh. apply Hh. reflexivity.
      + apply Hnext. exact Hi.
    - destruct Hseg as (_ & _ & Hsr).
      rewrite H1. cbn [mod_bit tk_eqb tkind_beq andb]. rewrite H2. apply runs_bind.
      eapply runs_conseq; [eapply parse_inter_group; eassumption|].
      intros [inter' r'] s1 (Ha1 & Er' & Hi'). cbn [fst snd] in Er', Hi'. subst r'.
      eapply (Htail t M_REF r); try eassumption.
      + right. exists (op :: inner ++ [cp]). cbn [app]. rewrite <- app_assoc. reflexivity.
      + rewrite H1. reflexivity.
      + replace (op :: inner ++ cp :: r) with ((op :: inner ++ [cp]) ++ r) in Hsr by (cbn [app]; rewrite <- app_assoc; reflexivity).
        apply seg_app in Hsr as (mid & _ & Hsr). exists mid. exact Hsr.
      + cbn [length] in Hl. rewrite app_length in Hl. cbn [length] in Hl. lia.
  Qed.

  Lemma parse_modifiers_spec mts a b mpos s :
    wf s -> mshape mts -> seg a mts b -> bnd mpos ->
    runs (parse_modifiers cfg mts mpos) s (fun r s' => after0 s s' /\
       sp_ok (snd (fst r)) /\ opt_ok inter_ok (snd r) /\
       (N.testbit (fst (fst r)) 0 = true -> exists t, In t mts /\ kind t = KAt)).
  Proof.
    intros Hw Hm Hseg Hb. unfold parse_modifiers. destruct mts as [|m0 mr] eqn:E.
    - apply runs_ret. split; [apply after0_refl; exact Hw|]. cbn [fst snd opt_ok].
      split; [apply span_ok_pos; exact Hb|]. split; [exact I|]. cbn. discriminate.
    - rewrite <- E in *. apply runs_bind. pose proof (tokens_span_ok _ _ _ _ Hseg) as Hsp.
      eapply runs_conseq; [eapply parse_mods_loop_spec; try eassumption; [exact I|lia]|].
      intros [m i] s1 (Ha & Hi & Hbit). apply runs_ret. cbn [fst snd] in *.
      split; [exact Ha|]. split; [exact Hsp|]. split; [exact Hi|].
      intro H. destruct (Hbit H) as [Hc|Hx]; [cbn in Hc; discriminate|exact Hx].
  Qed.

  (* ---------------------------------------------------------------- alias, names *)

  Lemma text_in_weaken t lo hi hi' : text_in t lo hi -> hi <= hi' -> text_in t lo hi'.
  Proof. intros (A & B & C & D) H. split; [exact A|]. split; [exact B|]. split; [lia|exact D]. Qed.

  Lemma parse_alias_spec ts off mid s : wf s -> seg off ts mid ->
    runs (parse_alias cfg ts off) s (fun r s' => after0 s s' /\ text_in (fst r) off mid /\ opt_ok text_ok (snd r)).
  Proof.
    intros Hw Hseg. unfold parse_alias.
    assert (Hplain : runs (nt <- textM cfg off ts ;; ret (nt, @None text)) s
                       (fun r s' => after0 s s' /\ text_in (fst r) off mid /\ opt_ok text_ok (snd r))).
    { apply runs_bind. eapply runs_textM; [exact Hseg|]. intros nt Hnt. apply runs_ret.
      split; [apply after0_refl; exact Hw|]. split; [exact Hnt|exact I]. }
    destruct (if has cfg X_COMPONENT_ALIAS then position (fun k => tk_eqb k KOr) ts else None) as [sepi|]; [|exact Hplain].
    destruct (seg_split _ _ _ _ sepi Hseg) as (m1 & Hs1 & Hs2).
    destruct (skipn sepi ts) as [|sep alias_ts]; [exact Hplain|].
    destruct Hs2 as (Hsep1 & Hsep & Hs3). pose proof (seg_le _ _ _ _ Hs3) as Hle3.
    apply runs_bind. eapply runs_textM; [exact Hs3|]. intros at_ Hat. apply runs_bind.
    assert (Hfin : forall alias s1, after0 s s1 -> opt_ok text_ok alias ->
      runs (ret alias) s1 (fun a0 s2 => runs (nt <- textM cfg off (firstn sepi ts) ;; ret (nt, a0)) s2
         (fun r s' => after0 s s' /\ text_in (fst r) off mid /\ opt_ok text_ok (snd r)))).
    { intros alias s1 Ha1 Hal. apply runs_ret. apply runs_bind. eapply runs_textM; [exact Hs1|]. intros nt Hnt.
      apply runs_ret. split; [exact Ha1|]. split; [|exact Hal]. cbn [fst].
      eapply text_in_weaken; [exact Hnt|]. pose proof (tok_in_lt _ _ Hsep). lia. }
    destruct (existsb _ alias_ts).
    - apply runs_bind. apply runs_error; [exact Hw| |].
      + constructor; [|constructor]. destruct alias_ts as [|a0 ar] eqn:Ea.
        * cbn [last]. apply (tok_span_ok _ _ Hsep).
        * rewrite <- Ea in *. rewrite (seg_last _ _ _ _ sep Hs3) by (rewrite Ea; discriminate).
          pose proof (tok_in_lt _ _ Hsep).
          apply span_ok_intro; [lia|apply tok_in_bnd_l; exact Hsep|eapply seg_bnd_r; exact Hs3].
      + intros s1 Hw1 Hp1. apply Hfin; [split; assumption|exact I].
    - destruct (is_text_empty at_).
      + apply runs_bind. apply runs_error; [exact Hw|constructor; [apply (tok_span_ok _ _ Hsep)|constructor]|].
        intros s1 Hw1 Hp1. apply Hfin; [split; assumption|exact I].
      + apply Hfin; [apply after0_refl; exact Hw|apply Hat].
  Qed.

  Lemma check_empty_name_spec name s : wf s -> text_ok name ->
    runs (check_empty_name name) s (fun _ s' => after0 s s').
  Proof.
    intros Hw Hn. unfold check_empty_name. destruct (is_text_empty name).
    - apply runs_error; [exact Hw|constructor; [apply text_span_ok; exact Hn|constructor]|]. intros s1 Hw1 Hp1. split; assumption.
    - apply runs_ret. apply after0_refl. exact Hw.
  Qed.

  Lemma after_cur_le s s' : wf s -> after s s' -> cur s <= cur s'.
  Proof. intros Hw Ha. apply after_facts; assumption. Qed.

  Lemma after_len s s' : wf s -> after s s' -> (length (b_rest s') <= length (b_rest s))%nat.
  Proof. intros Hw Ha. apply after_facts; assumption. Qed.

  (* the optional quantity of a component *)
  Lemma opt_quantity_spec {B} (oq : option (list tok)) (f : quantity * option span -> M (option B)) (P : B -> Prop) s :
    wf s -> opt_ok (fun qts => qts <> [] /\ exists a b, seg a qts b) oq ->
    (forall r s1, qres_ok r -> after0 s s1 -> runs (f r) s1 (fun o s' => after0 s s' /\ opt_ok P o)) ->
    runs (match oq with
          | Some qts => bind (parse_quantity cfg qts) f
          | None => ret None
          end) s (fun o s' => after0 s s' /\ opt_ok P o).
  Proof.
    intros Hw Hq Hk. destruct oq as [qts|]; [|apply runs_ret; split; [apply after0_refl; exact Hw|exact I]].
    destruct Hq as (Hn & a & b & Hseg). apply runs_bind.
    eapply runs_conseq; [eapply parse_quantity_spec; eassumption|].
    intros r s1 (Ha1 & Hr). apply Hk; assumption.
  Qed.

  Definition comp_post (s : bp) (o : option pevent) (s' : bp) : Prop :=
    after s s' /\ opt_ok (fun ev => ev_ok ev /\ (length (b_rest s') < length (b_rest s))%nat) o.

  Lemma ingredient_p_spec s : wf s -> runs (ingredient_p cfg) s (comp_post s).
  Proof.
    intro Hw. unfold ingredient_p. apply runs_bind, runs_current_offset.
    apply runs_obindM. apply runs_consume; [exact Hw|discriminate| |].
    2:{ intros _. split; [apply after_refl; exact Hw|exact I]. }
    intros at_ s1 Ht1 _ _ _ _ _. pose proof (took_wf _ _ _ Ht1) as Hw1.
    apply runs_bind, runs_current_offset. apply runs_bind.
    eapply runs_conseq; [apply modifiers_spec; exact Hw1|]. intros mts s2 (Ha2 & Hms).
    pose proof (proj1 Ha2) as Hw2. apply runs_bind, runs_current_offset.
    apply runs_obindM. eapply runs_conseq; [apply comp_body_spec; exact Hw2|].
    intros [bd|] s3 (Ha3 & Hbd); pose proof (proj1 Ha3) as Hw3.
    2:{ split; [|exact I]. eapply after_took; [exact Ht1|]. eapply after_trans; [eapply adv_after; exact Ha2|exact Ha3]. }
    cbn [opt_ok] in Hbd. destruct Hbd as (mid & Hname & Hmid & Hqty & Hclose).
    apply runs_bind. eapply runs_conseq; [apply note_spec; exact Hw3|]. intros nt s4 (Ha4 & Hnt).
    pose proof (proj1 Ha4) as Hw4. apply runs_bind, runs_current_offset. apply runs_bind.
    eapply runs_conseq; [eapply parse_alias_spec; [exact Hw4|exact Hname]|].
    intros [name alias] s5 (Ha5 & Hnm & Hal). cbn [fst snd] in Hnm, Hal. cbv beta iota.
    pose proof (proj1 Ha5) as Hw5. apply runs_bind.
    eapply runs_conseq; [eapply check_empty_name_spec; [exact Hw5|apply Hnm]|]. intros u6 s6 Ha6.
    pose proof (proj1 Ha6) as Hw6. apply runs_bind.
    eapply runs_conseq; [eapply parse_modifiers_spec; [exact Hw6|exact Hms|apply Ha2|apply wf_cur_bnd; exact Hw1]|].
    intros [[m msp] inter] s7 (Ha7 & Hmsp & Hinter & _). cbn [fst snd] in Hmsp, Hinter. cbv beta iota.
    pose proof (proj1 Ha7) as Hw7. apply runs_bind.
    eapply runs_conseq; [eapply (opt_quantity_spec (bd_qty bd) _ quantity_ok); [exact Hw7|exact Hqty|]|].
    { intros [q u] s' (Hq & _) Ha'. apply runs_ret. split; [exact Ha'|exact Hq]. }
    intros q s8 (Ha8 & Hq). apply runs_ret.
    assert (Ha14 : after s1 s4).
    { eapply after_trans; [eapply adv_after; exact Ha2|]. eapply after_trans; eassumption. }
    assert (Ha48 : after0 s4 s8).
    { eapply after0_trans; [exact Ha5|]. eapply after0_trans; [exact Ha6|]. eapply after0_trans; eassumption. }
    assert (Ha18 : after s1 s8) by (eapply after_trans; [exact Ha14|apply after0_after; exact Ha48]).
    split; [eapply after_took; eassumption|]. cbn [opt_ok]. split.
    - cbn [ev_ok i_mods_span i_inter i_name i_alias i_qty i_note i_span].
      split; [exact Hmsp|]. split; [exact Hinter|]. split; [apply Hnm|]. split; [exact Hal|].
      split; [exact Hq|]. split; [exact Hnt|].
      pose proof (took_cur_le _ _ _ Ht1). pose proof (after_cur_le _ _ Hw1 Ha14).
      apply span_ok_intro; [lia|apply wf_cur_bnd; exact Hw|apply wf_cur_bnd; exact Hw4].
    - apply took_len in Ht1. cbn [length] in Ht1. pose proof (after_len _ _ Hw1 Ha18). lia.
  Qed.

  Lemma land_recipe_testbit m : N.land m M_RECIPE = M_RECIPE -> N.testbit m 0 = true.
  Proof.
    intro H. apply (f_equal (fun x => N.testbit x 0)) in H. rewrite N.land_spec in H.
    replace (N.testbit M_RECIPE 0) with true in H by (vm_compute; reflexivity). rewrite andb_true_r in H. exact H.
  Qed.

  Lemma sp_ok_bnd sp : sp_ok sp -> bnd (fst sp) /\ bnd (snd sp).
  Proof. unfold span_ok. tauto. Qed.

  Lemma cookware_p_spec s : wf s -> runs (cookware_p cfg) s (comp_post s).
  Proof.
    intro Hw. unfold cookware_p. apply runs_bind, runs_current_offset.
    apply runs_obindM. apply runs_consume; [exact Hw|discriminate| |].
    2:{ intros _. split; [apply after_refl; exact Hw|exact I]. }
    intros at_ s1 Ht1 _ _ _ _ _. pose proof (took_wf _ _ _ Ht1) as Hw1.
    apply runs_bind, runs_current_offset. apply runs_bind.
    eapply runs_conseq; [apply modifiers_spec; exact Hw1|]. intros mts s2 (Ha2 & Hms).
    pose proof (proj1 Ha2) as Hw2. apply runs_bind, runs_current_offset.
    apply runs_obindM. eapply runs_conseq; [apply comp_body_spec; exact Hw2|].
    intros [bd|] s3 (Ha3 & Hbd); pose proof (proj1 Ha3) as Hw3.
    2:{ split; [|exact I]. eapply after_took; [exact Ht1|]. eapply after_trans; [eapply adv_after; exact Ha2|exact Ha3]. }
    cbn [opt_ok] in Hbd. destruct Hbd as (mid & Hname & Hmid & Hqty & Hclose).
    apply runs_bind. eapply runs_conseq; [apply note_spec; exact Hw3|]. intros nt s4 (Ha4 & Hnt).
    pose proof (proj1 Ha4) as Hw4. apply runs_bind, runs_current_offset. apply runs_bind.
    eapply runs_conseq; [eapply parse_alias_spec; [exact Hw4|exact Hname]|].
    intros [name alias] s5 (Ha5 & Hnm & Hal). cbn [fst snd] in Hnm, Hal. cbv beta iota.
    pose proof (proj1 Ha5) as Hw5. apply runs_bind.
    eapply runs_conseq; [eapply check_empty_name_spec; [exact Hw5|apply Hnm]|]. intros u6 s6 Ha6.
    pose proof (proj1 Ha6) as Hw6. apply runs_bind.
    eapply runs_conseq; [eapply (opt_quantity_spec (bd_qty bd) _ (fun q => qvalue_ok (fst q) /\ sp_ok (snd q))); [exact Hw6|exact Hqty|]|].
    { intros [q usep] s' (Hq & Hsep & Hord) Ha'. cbn [fst snd] in Hq, Hsep, Hord. cbv beta iota.
      pose proof (proj1 Ha') as Hw'. destruct Hq as (Hqv & Hqu & Hqs). apply runs_bind.
      assert (Hfin : forall s'', after0 s6 s'' ->
         runs (ret (Some (q_val q, q_span q))) s''
           (fun o s9 => after0 s6 s9 /\ opt_ok (fun q0 => qvalue_ok (fst q0) /\ sp_ok (snd q0)) o)).
      { intros s'' Ha''. apply runs_ret. split; [exact Ha''|]. cbn [opt_ok fst snd]. tauto. }
      destruct (q_unit q) as [u|] eqn:Eu.
      - cbn [opt_ok] in Hqu. apply runs_error; [exact Hw'| |].
        + constructor; [|constructor]. destruct usep as [sep|]; [|apply text_span_ok; exact Hqu].
          cbn [opt_ok] in Hsep. apply span_ok_intro; [apply (Hord sep u); reflexivity|apply sp_ok_bnd; exact Hsep|].
          apply (sp_ok_bnd (text_span u)). apply text_span_ok; exact Hqu.
        + intros s'' Hw'' Hp''. apply Hfin. eapply after0_trans; [exact Ha'|split; assumption].
      - apply runs_ret. apply Hfin. exact Ha'. }
    intros q s7 (Ha7 & Hq). pose proof (proj1 Ha7) as Hw7. apply runs_bind.
    eapply runs_conseq; [eapply parse_modifiers_spec; [exact Hw7|exact Hms|apply Ha2|apply wf_cur_bnd; exact Hw1]|].
    intros [[m msp] inter] s8 (Ha8 & Hmsp & Hinter & Hbit). cbn [fst snd] in Hmsp, Hinter, Hbit. cbv beta iota.
    pose proof (proj1 Ha8) as Hw8.
    assert (Ha14 : after s1 s4).
    { eapply after_trans; [eapply adv_after; exact Ha2|]. eapply after_trans; eassumption. }
    assert (Ha48 : after0 s4 s8).
    { eapply after0_trans; [exact Ha5|]. eapply after0_trans; [exact Ha6|]. eapply after0_trans; eassumption. }
    assert (Hfin : forall s9, after0 s8 s9 ->
       runs (ret (Some (EvCookware {| c_mods := m; c_mods_span := msp; c_name := name; c_alias := alias;
                                     c_qty := q; c_note := nt; c_span := (cur s, cur s4) |}))) s9 (comp_post s)).
    { intros s9 Ha9. apply runs_ret.
      assert (Ha19 : after s1 s9).
      { eapply after_trans; [exact Ha14|]. apply after0_after. eapply after0_trans; eassumption. }
      split; [eapply after_took; eassumption|]. cbn [opt_ok]. split.
      - cbn [ev_ok c_mods_span c_name c_alias c_qty c_note c_span].
        split; [exact Hmsp|]. split; [apply Hnm|]. split; [exact Hal|]. split; [exact Hq|]. split; [exact Hnt|].
        pose proof (took_cur_le _ _ _ Ht1). pose proof (after_cur_le _ _ Hw1 Ha14).
        apply span_ok_intro; [lia|apply wf_cur_bnd; exact Hw|apply wf_cur_bnd; exact Hw4].
      - apply took_len in Ht1. cbn [length] in Ht1. pose proof (after_len _ _ Hw1 Ha19). lia. }
    apply runs_bind.
    assert (Hrec : forall s9, after0 s8 s9 ->
       runs (if N.land m M_RECIPE =? M_RECIPE
             then match find (fun t => tk_eqb (kind t) KAt) mts with
                  | Some t => error D_COOKWARE_RECIPE [tok_span t]
                  | None => panic site_recipe_tok
                  end
             else ret tt) s9
         (fun _ s10 => runs (ret (Some (EvCookware {| c_mods := m; c_mods_span := msp; c_name := name; c_alias := alias;
                                     c_qty := q; c_note := nt; c_span := (cur s, cur s4) |}))) s10 (comp_post s))).
    { intros s9 Ha9. pose proof (proj1 Ha9) as Hw9. destruct (N.land m M_RECIPE =? M_RECIPE) eqn:Erec.
      - apply N.eqb_eq, land_recipe_testbit in Erec. destruct (Hbit Erec) as (t0 & Hin0 & Hk0).
        destruct (find (fun t => tk_eqb (kind t) KAt) mts) as [t1|] eqn:Ef.
        + apply find_some in Ef as (Hin1 & _). apply runs_error; [exact Hw9| |].
          * constructor; [|constructor]. apply tok_span_ok. eapply seg_In in Hin1; [|apply Ha2]. tauto.
          * intros s10 Hw10 Hp10. apply Hfin. eapply after0_trans; [exact Ha9|split; assumption].
        + eapply find_none in Ef; [|exact Hin0]. cbn beta in Ef. rewrite Hk0 in Ef. discriminate.
      - apply runs_ret. apply Hfin. exact Ha9. }
    destruct inter as [d|].
    - cbn [opt_ok] in Hinter. apply runs_error; [exact Hw8|constructor; [exact Hinter|constructor]|].
      intros s9 Hw9 Hp9. apply runs_bind. apply Hrec. split; assumption.
    - apply runs_ret. apply runs_bind. apply Hrec. apply after0_refl. exact Hw8.
  Qed.

  (* ---------------------------------------------------------------- timer *)

  Lemma check_note_spec s : wf s -> b_done s <> [] -> runs (check_note cfg) s (fun _ s' => after0 s s').
  Proof.
    intros Hw Hd. unfold check_note. apply runs_bind. apply runs_with_recover; [exact Hw|].
    assert (Hnone : forall s1, wf s1 -> wf s1 /\ forall s'', wf s'' -> same_pos s s'' ->
              runs (ret tt) s'' (fun _ s' => after0 s s')).
    { intros s1 Hw1. split; [exact Hw1|]. intros s'' Hw'' Hp. apply runs_ret. split; assumption. }
    apply runs_obindM. apply runs_consume; [exact Hw|discriminate| |]; [|intros _; apply Hnone; exact Hw].
    intros op s1 Ht1 _ Hop Hops _ _. pose proof (took_wf _ _ _ Ht1) as Hw1.
    apply runs_obindM. apply runs_until; [exact Hw1| |]; [|intros _; apply Hnone; exact Hw1].
    intros inner s2 t2 r2 Ht2 Er2 Hk2 _. pose proof (took_wf _ _ _ Ht2) as Hw2.
    apply runs_bind. apply runs_bump; [exact Hw2|exists t2, r2; split; [exact Er2|apply tk_eqb_true; exact Hk2]|].
    intros cp s3 Ht3 _ Hcp _ Hcpe _. pose proof (took_wf _ _ _ Ht3) as Hw3.
    pose proof (wf_done_pos _ Hw Hd) as Hpos. cbv zeta. apply runs_bind.
    destruct (tstart op =? 0) eqn:E0; [apply N.eqb_eq in E0; lia|]. apply runs_ret.
    apply runs_bind. unfold warn. apply runs_event; [exact Hw3| |].
    - cbn [ev_ok mkdiag d_labels]. intros Hold. rewrite Hold.
      pose proof (took_cur_le _ _ _ Ht1). pose proof (took_cur_le _ _ _ Ht2). pose proof (took_cur_le _ _ _ Ht3).
      constructor; [|constructor; [|constructor]].
      + apply span_ok_intro; [lia|apply tok_in_bnd_l; exact Hop|apply tok_in_bnd_r; exact Hcp].
      + apply span_ok_pos. apply tok_in_bnd_l; exact Hop.
    - intros s4 Hw4 _. apply runs_ret. apply Hnone. exact Hw4.
  Qed.

  Lemma quantity_recover_ok : quantity_ok quantity_recover.
  Proof.
    unfold quantity_ok, qvalue_ok, quantity_recover; cbn [q_val q_unit q_span qv_span qlock opt_ok].
    pose proof (span_ok_pos _ 0 (bnd_0 src)). tauto.
  Qed.

  Lemma timer_p_spec s : wf s -> runs (timer_p cfg) s (comp_post s).
  Proof.
    intro Hw. unfold timer_p. apply runs_bind, runs_current_offset.
    apply runs_obindM. apply runs_consume; [exact Hw|discriminate| |].
    2:{ intros _. split; [apply after_refl; exact Hw|exact I]. }
    intros at_ s1 Ht1 _ _ _ _ _. pose proof (took_wf _ _ _ Ht1) as Hw1. apply runs_bind.
    eapply runs_conseq; [apply modifiers_spec; exact Hw1|]. intros mts s2 (Ha2 & Hms).
    pose proof (proj1 Ha2) as Hw2. apply runs_bind, runs_current_offset.
    apply runs_obindM. eapply runs_conseq; [apply comp_body_spec; exact Hw2|].
    intros [bd|] s3 (Ha3 & Hbd); pose proof (proj1 Ha3) as Hw3.
    2:{ split; [|exact I]. eapply after_took; [exact Ht1|]. eapply after_trans; [eapply adv_after; exact Ha2|exact Ha3]. }
    cbn [opt_ok] in Hbd. destruct Hbd as (mid & Hname & Hmid & Hqty & Hclose).
    apply runs_bind, runs_current_offset.
    assert (Ha13 : after s1 s3) by (eapply after_trans; [eapply adv_after; exact Ha2|exact Ha3]).
    assert (Hd1 : b_done s1 <> []).
    { destruct Ht1 as (_ & _ & _ & Ed & _). rewrite Ed. cbn [rev app]. discriminate. }
    pose proof (took_cur_le _ _ _ Ht1) as Hle01. pose proof (after_cur_le _ _ Hw1 Ha13) as Hle13.
    pose proof (after_cur_le _ _ Hw2 Ha3) as Hle23.
    pose proof (seg_le _ _ _ _ Hname) as Hlen.
    (* everything from here on keeps the position of s3 *)
    apply runs_bind.
    assert (H1 : runs (match mts with [] => ret tt | _ :: _ => error D_MODS_NOT_ALLOWED [tokens_span mts] end) s3
                   (fun _ s' => after0 s3 s')).
    { destruct mts as [|m0 mr] eqn:Em; [apply runs_ret, after0_refl; exact Hw3|]. rewrite <- Em in *.
      apply runs_error; [exact Hw3|constructor; [eapply tokens_span_ok; apply Ha2|constructor]|].
      intros s' Hw' Hp'. split; assumption. }
    eapply runs_conseq; [exact H1|]. clear H1. intros u4 s4 Ha4. cbv beta in Ha4. pose proof (proj1 Ha4) as Hw4.
    apply runs_bind.
    assert (H2 : runs (if has cfg X_COMPONENT_ALIAS
                       then match position (fun k => tk_eqb k KOr) (bd_name bd) with
                            | Some sepi =>
                                match skipn sepi (bd_name bd) with
                                | [] => ret tt
                                | sep :: _ => error D_ALIAS_NOT_ALLOWED [(tstart sep, tend (last (bd_name bd) sep))]
                                end
                            | None => ret tt
                            end
                       else ret tt) s4 (fun _ s' => after0 s4 s')).
    { destruct (has cfg X_COMPONENT_ALIAS); [|apply runs_ret, after0_refl; exact Hw4].
      destruct (position _ (bd_name bd)) as [sepi|]; [|apply runs_ret, after0_refl; exact Hw4].
      destruct (seg_split _ _ _ _ sepi Hname) as (m1 & Hs1 & Hs2).
      destruct (skipn sepi (bd_name bd)) as [|sep rest0] eqn:Esk; [apply runs_ret, after0_refl; exact Hw4|].
      apply runs_error; [exact Hw4| |intros s' Hw' Hp'; split; assumption].
      constructor; [|constructor].
      assert (Hn : bd_name bd <> []) by (intro Hc; rewrite Hc, skipn_nil in Esk; discriminate).
      rewrite (seg_last _ _ _ _ sep Hname Hn). destruct Hs2 as (Hst & Hsep & Hs3).
      pose proof (tok_in_lt _ _ Hsep). pose proof (seg_le _ _ _ _ Hs3).
      apply span_ok_intro; [lia|apply tok_in_bnd_l; exact Hsep|eapply seg_bnd_r; exact Hname]. }
    eapply runs_conseq; [exact H2|]. clear H2. intros u5 s5 Ha5. cbv beta in Ha5. pose proof (proj1 Ha5) as Hw5.
    assert (Ha35 : after0 s3 s5) by (eapply after0_trans; eassumption).
    apply runs_bind. eapply runs_conseq; [apply check_note_spec; [exact Hw5|]|].
    { assert (Ha15 : after s1 s5) by (eapply after_trans; [exact Ha13|apply after0_after; exact Ha35]).
      apply (after_facts _ _ Hw1 Ha15). exact Hd1. }
    intros u6 s6 Ha6. cbv beta in Ha6. pose proof (proj1 Ha6) as Hw6.
    assert (Ha36 : after0 s3 s6) by (eapply after0_trans; eassumption).
    apply runs_bind. eapply runs_textM; [exact Hname|]. intros name Hnm.
    apply runs_bind.
    eapply runs_conseq; [eapply (opt_quantity_spec (bd_qty bd) _ quantity_ok); [exact Hw6|exact Hqty|]|].
    { intros [q usep] s' (Hq & _) Ha'. cbn [fst] in Hq. cbv beta iota. pose proof (proj1 Ha') as Hw'.
      apply runs_bind.
      assert (Hfin : forall s'', after0 s6 s'' -> runs (ret (Some q)) s'' (fun o s9 => after0 s6 s9 /\ opt_ok quantity_ok o)).
      { intros s'' Ha''. apply runs_ret. split; [exact Ha''|exact Hq]. }
      destruct (q_unit q).
      - apply runs_ret. apply Hfin. exact Ha'.
      - cbv zeta. apply runs_error; [exact Hw'| |].
        + constructor; [|constructor]. apply span_ok_pos. apply (sp_ok_bnd (qv_span (q_val q))). apply Hq.
        + intros s'' Hw'' Hp''. apply Hfin. eapply after0_trans; [exact Ha'|split; assumption]. }
    intros q s7 (Ha7 & Hq). pose proof (proj1 Ha7) as Hw7.
    assert (Ha37 : after0 s3 s7) by (eapply after0_trans; eassumption).
    apply runs_bind.
    assert (H3 : runs (match q with
                       | Some _ => ret q
                       | None =>
                           if has cfg X_TIMER_REQUIRES_TIME
                           then (let sp := match bd_close bd with
                                           | Some s0 => s0
                                           | None => let e := snd (text_span name) in (e, e)
                                           end in
                                 error D_TIMER_NO_QTY [sp] ;;; ret (Some quantity_recover))
                           else ret None
                       end) s7 (fun o s' => after0 s7 s' /\ opt_ok quantity_ok o)).
    { destruct q as [q0|]; [apply runs_ret; split; [apply after0_refl; exact Hw7|exact Hq]|].
      destruct (has cfg X_TIMER_REQUIRES_TIME); [|apply runs_ret; split; [apply after0_refl; exact Hw7|exact I]].
      cbv zeta. apply runs_bind. apply runs_error; [exact Hw7| |].
      - constructor; [|constructor]. destruct (bd_close bd) as [s0|]; [apply Hclose|].
        apply span_ok_pos. apply (sp_ok_bnd (text_span name)). eapply text_in_span_ok; exact Hnm.
      - intros s' Hw' Hp'. apply runs_ret. split; [split; assumption|apply quantity_recover_ok]. }
    eapply runs_conseq; [exact H3|]. clear H3. intros q2 s8 (Ha8 & Hq2). pose proof (proj1 Ha8) as Hw8.
    assert (Ha38 : after0 s3 s8) by (eapply after0_trans; eassumption).
    cbv zeta. apply runs_bind.
    set (name_o := if is_text_empty name then None else Some name).
    assert (Hno : opt_ok text_ok name_o) by (subst name_o; destruct (is_text_empty name); [exact I|apply Hnm]).
    clearbody name_o.
    assert (H4 : runs (match name_o with
                       | Some _ => ret q2
                       | None =>
                           match q2 with
                           | Some _ => ret q2
                           | None =>
                               error D_TIMER_NEITHER
                                 [match bd_close bd with
                                  | Some s0 => (cur s2, snd s0)
                                  | None => (cur s2, cur s2)
                                  end] ;;; ret (Some quantity_recover)
                           end
                       end) s8 (fun o s' => after0 s8 s' /\ opt_ok quantity_ok o)).
    { destruct name_o; [apply runs_ret; split; [apply after0_refl; exact Hw8|exact Hq2]|].
      destruct q2; [apply runs_ret; split; [apply after0_refl; exact Hw8|exact Hq2]|].
      apply runs_bind. apply runs_error; [exact Hw8| |].
      - constructor; [|constructor]. destruct (bd_close bd) as [s0|].
        + destruct Hclose as (Hs0 & Es0). apply span_ok_intro; [rewrite Es0; lia|apply wf_cur_bnd; exact Hw2|apply sp_ok_bnd; exact Hs0].
        + apply span_ok_pos, wf_cur_bnd; exact Hw2.
      - intros s' Hw' Hp'. apply runs_ret. split; [split; assumption|apply quantity_recover_ok]. }
    eapply runs_conseq; [exact H4|]. clear H4. intros q3 s9 (Ha9 & Hq3). apply runs_ret.
    assert (Ha39 : after0 s3 s9) by (eapply after0_trans; eassumption).
    assert (Ha19 : after s1 s9) by (eapply after_trans; [exact Ha13|apply after0_after; exact Ha39]).
    split; [eapply after_took; eassumption|]. cbn [opt_ok]. split.
    - cbn [ev_ok t_name t_qty t_span]. split; [exact Hno|]. split; [exact Hq3|].
      apply span_ok_intro; [lia|apply wf_cur_bnd; exact Hw|apply wf_cur_bnd; exact Hw3].
    - apply took_len in Ht1. cbn [length] in Ht1. pose proof (after_len _ _ Hw1 Ha19). lia.
  Qed.

  (* ---------------------------------------------------------------- steps *)

  Lemma after_pre s s' s'' : same_pos s s' -> wf s' -> after s' s'' -> after s s''.
  Proof. intros Hp Hw Ha. eapply after_trans; [apply after0_after; split; [exact Hw|exact Hp]|exact Ha]. Qed.

  Lemma step_comp_spec s : wf s ->
    runs (match peek_of s with
          | KAt => with_recover (ingredient_p cfg)
          | KHash => with_recover (cookware_p cfg)
          | KTilde => with_recover (timer_p cfg)
          | _ => ret None
          end) s
      (fun o s' => wf s' /\
         match o with
         | Some ev => after s s' /\ ev_ok ev /\ (length (b_rest s') < length (b_rest s))%nat
         | None => same_pos s s'
         end).
  Proof.
    intro Hw.
    assert (Hrec : forall m, runs m s (comp_post s) ->
      runs (with_recover m) s (fun o s' => wf s' /\
         match o with
         | Some ev => after s s' /\ ev_ok ev /\ (length (b_rest s') < length (b_rest s))%nat
         | None => same_pos s s'
         end)).
    { intros m Hm. apply runs_with_recover; [exact Hw|]. eapply runs_conseq; [exact Hm|].
      intros [ev|] s1 (Ha & Hev); (split; [apply Ha|]).
      - split; [apply Ha|]. split; [exact Ha|exact Hev].
      - intros s'' Hw'' Hp''. split; assumption. }
    destruct (peek_of s); try (apply runs_ret; split; [exact Hw|apply same_pos_refl]).
    - apply Hrec, ingredient_p_spec; exact Hw.
    - apply Hrec, cookware_p_spec; exact Hw.
    - apply Hrec, timer_p_spec; exact Hw.
  Qed.

  Lemma step_loop_spec fuel : forall s, wf s -> (length (b_rest s) < fuel)%nat ->
    runs (step_loop cfg fuel) s (fun _ s' => after s s' /\ b_rest s' = []).
  Proof.
    induction fuel as [|f IH]; intros s Hw Hl; [lia|]. cbn [step_loop].
    apply runs_bind, runs_rest. destruct (b_rest s) as [|r0 rr] eqn:Er.
    - apply runs_ret. split; [apply after_refl; exact Hw|exact Er].
    - rewrite <- Er in *. apply runs_bind, runs_peek. apply runs_bind.
      eapply runs_conseq; [apply step_comp_spec; exact Hw|].
      intros [ev|] s1 (Hw1 & H1).
      + destruct H1 as (Ha1 & Hev & Hl1). apply runs_bind. apply runs_event; [exact Hw1|exact Hev|].
        intros s2 Hw2 Hp2. eapply runs_conseq; [apply IH; [exact Hw2|rewrite (same_pos_rest _ _ Hp2); lia]|].
        intros u s3 (Ha3 & E3). split; [|exact E3].
        eapply after_trans; [exact Ha1|]. eapply after_pre; [exact Hp2|exact Hw2|exact Ha3].
      + apply runs_bind, runs_current_offset. apply runs_bind.
        apply runs_bump_any; [exact Hw1|rewrite (same_pos_rest _ _ H1), Er; discriminate|].
        intros t0 s2 Ht2 _ _ _ _. pose proof (took_wf _ _ _ Ht2) as Hw2. apply runs_bind.
        apply runs_consume_while; [exact Hw2|]. intros more s3 Ht3 _ _. pose proof (took_wf _ _ _ Ht3) as Hw3.
        apply runs_bind. eapply runs_textM.
        { change (t0 :: more) with ([t0] ++ more). apply seg_app. exists (cur s2). split; eapply took_seg; eassumption. }
        intros t Ht. apply runs_bind.
        assert (Hl3 : (length (b_rest s3) < f)%nat).
        { apply took_len in Ht2, Ht3. rewrite (same_pos_rest _ _ H1) in Ht2. cbn [length] in *. lia. }
        assert (Ha3 : after s s3).
        { eapply after_pre; [exact H1|exact Hw1|]. eapply after_took; [exact Ht2|eapply took_after; exact Ht3]. }
        assert (Hgo : forall s4, wf s4 -> same_pos s3 s4 ->
                  runs (step_loop cfg f) s4 (fun _ s' => after s s' /\ b_rest s' = [])).
        { intros s4 Hw4 Hp4. eapply runs_conseq; [apply IH; [exact Hw4|rewrite (same_pos_rest _ _ Hp4); exact Hl3]|].
          intros u s5 (Ha5 & E5). split; [|exact E5].
          eapply after_trans; [exact Ha3|]. eapply after_pre; [exact Hp4|exact Hw4|exact Ha5]. }
        destruct (frags t) eqn:Ef.
        * apply runs_ret. apply Hgo; [exact Hw3|apply same_pos_refl].
        * apply runs_event; [exact Hw3|apply Ht|]. intros s4 Hw4 Hp4. apply Hgo; assumption.
  Qed.

  Lemma parse_step_spec s : wf s -> runs (parse_step cfg) s (fun _ s' => after s s' /\ b_rest s' = []).
  Proof.
    intro Hw. unfold parse_step. apply runs_bind. apply runs_event; [exact Hw|exact I|].
    intros s1 Hw1 Hp1. apply runs_bind, runs_rest. apply runs_bind.
    eapply runs_conseq; [apply step_loop_spec; [exact Hw1|lia]|]. intros u s2 (Ha2 & E2).
    apply runs_event; [apply Ha2|exact I|]. intros s3 Hw3 Hp3. split; [|rewrite (same_pos_rest _ _ Hp3); exact E2].
    eapply after_pre; [exact Hp1|exact Hw1|]. eapply after_trans; [exact Ha2|apply after0_after; split; [exact Hw3|exact Hp3]].
  Qed.

  Lemma text_block_loop_spec fuel : forall s, wf s -> (length (b_rest s) < fuel)%nat ->
    runs (text_block_loop cfg fuel) s (fun _ s' => after s s' /\ b_rest s' = []).
  Proof.
    induction fuel as [|f IH]; intros s Hw Hl; [lia|]. cbn [text_block_loop].
    apply runs_bind, runs_rest. destruct (b_rest s) as [|r0 rr] eqn:Er.
    - apply runs_ret. split; [apply after_refl; exact Hw|exact Er].
    - rewrite <- Er in *. assert (Hne : b_rest s <> []) by (rewrite Er; discriminate).
      (* the part after the optional `>` and blank *)
      assert (Hline : forall s2, wf s2 -> after s s2 -> (b_rest s2 = b_rest s \/ (length (b_rest s2) < length (b_rest s))%nat) ->
        runs (start <- current_offset ;;
              line <- consume_while (fun k => negb (tk_eqb k KNewline)) ;;
              nl <- consume KNewline ;;
              (let ts := match nl with Some n => line ++ [n] | None => line end in
               t <- textM cfg start ts ;;
               (if is_text_empty t then ret tt else event (EvText t)) ;;;
               r' <- rest ;;
               (if (length r' <? length (b_rest s))%nat then text_block_loop cfg f else panic site_fuel))) s2
          (fun _ s' => after s s' /\ b_rest s' = [])).
      { intros s2 Hw2 Ha2 Hprog. apply runs_bind, runs_current_offset. apply runs_bind.
        apply runs_consume_while; [exact Hw2|]. intros line s3 Ht3 _ Hstop. pose proof (took_wf _ _ _ Ht3) as Hw3.
        apply runs_bind.
        assert (Hrest : forall ts s4, wf s4 -> seg (cur s2) ts (cur s4) -> after s s4 ->
                  (length (b_rest s4) < length (b_rest s))%nat ->
                  runs (t <- textM cfg (cur s2) ts ;;
                        (if is_text_empty t then ret tt else event (EvText t)) ;;;
                        r' <- rest ;;
                        (if (length r' <? length (b_rest s))%nat then text_block_loop cfg f else panic site_fuel)) s4
                    (fun _ s' => after s s' /\ b_rest s' = [])).
        { intros ts s4 Hw4 Hseg Ha4 Hl4. apply runs_bind. eapply runs_textM; [exact Hseg|]. intros t Ht.
          apply runs_bind.
          assert (Hgo : forall s5, wf s5 -> same_pos s4 s5 ->
             runs (r' <- rest ;; (if (length r' <? length (b_rest s))%nat then text_block_loop cfg f else panic site_fuel)) s5
               (fun _ s' => after s s' /\ b_rest s' = [])).
          { intros s5 Hw5 Hp5. apply runs_bind, runs_rest. rewrite (same_pos_rest _ _ Hp5).
            destruct (Nat.ltb_spec (length (b_rest s4)) (length (b_rest s))) as [_|Hc]; [|lia].
            eapply runs_conseq; [apply IH; [exact Hw5|rewrite (same_pos_rest _ _ Hp5); lia]|].
            intros u s6 (Ha6 & E6). split; [|exact E6].
            eapply after_trans; [exact Ha4|]. eapply after_pre; [exact Hp5|exact Hw5|exact Ha6]. }
          destruct (is_text_empty t).
          - apply runs_ret. apply Hgo; [exact Hw4|apply same_pos_refl].
          - apply runs_event; [exact Hw4|apply Ht|]. intros s5 Hw5 Hp5. apply Hgo; assumption. }
        pose proof (took_len _ _ _ Ht3) as Hlen3.
        apply runs_consume; [exact Hw3|discriminate| |].
        + intros n s4 Ht4 _ _ _ _ _. cbv zeta. pose proof (took_len _ _ _ Ht4) as Hlen4. cbn [length] in Hlen4.
          apply Hrest; [eapply took_wf; exact Ht4| | |].
          * apply seg_app. exists (cur s3). split; eapply took_seg; eassumption.
          * eapply after_trans; [exact Ha2|]. eapply after_took; [exact Ht3|eapply took_after; exact Ht4].
          * destruct Hprog as [E|Hlt]; [rewrite <- E|]; lia.
        + intros Hpk. cbv zeta. apply Hrest; [exact Hw3|eapply took_seg; exact Ht3| |].
          * eapply after_trans; [exact Ha2|eapply took_after; exact Ht3].
          * destruct Hprog as [E|Hlt]; [|lia]. rewrite <- E.
            destruct line as [|l0 lr]; [|cbn [length] in Hlen3; lia]. exfalso.
            cbn [length] in Hlen3. destruct (b_rest s3) as [|x xr] eqn:Ex.
            -- rewrite E, Er in Hlen3. cbn [length] in Hlen3. lia.
            -- apply Hpk. rewrite (peek_of_cons _ _ _ Ex). apply negb_false_iff in Hstop. apply tk_eqb_true in Hstop. exact Hstop. }
      apply runs_bind. apply runs_consume; [exact Hw|discriminate| |].
      + intros g s1 Ht1 _ _ _ _ _. pose proof (took_wf _ _ _ Ht1) as Hw1. pose proof (took_len _ _ _ Ht1) as Hl1.
        cbn [length] in Hl1. apply runs_bind. apply runs_bind. apply runs_consume; [exact Hw1|discriminate| |].
        * intros w s2 Ht2 _ _ _ _ _. apply runs_ret. pose proof (took_len _ _ _ Ht2) as Hl2. cbn [length] in Hl2.
          apply Hline; [eapply took_wf; exact Ht2| |right; lia].
          eapply after_took; [exact Ht1|eapply took_after; exact Ht2].
        * intros _. apply runs_ret. apply Hline; [exact Hw1|eapply took_after; exact Ht1|right; lia].
      + intros _. apply runs_bind, runs_ret. apply Hline; [exact Hw|apply after_refl; exact Hw|left; reflexivity].
  Qed.

  Lemma parse_text_block_spec s : wf s -> runs (parse_text_block cfg) s (fun _ s' => after s s' /\ b_rest s' = []).
  Proof.
    intro Hw. unfold parse_text_block. apply runs_bind. apply runs_event; [exact Hw|exact I|].
    intros s1 Hw1 Hp1. apply runs_bind, runs_rest. apply runs_bind.
    eapply runs_conseq; [apply text_block_loop_spec; [exact Hw1|lia]|]. intros u s2 (Ha2 & E2).
    apply runs_event; [apply Ha2|exact I|]. intros s3 Hw3 Hp3. split; [|rewrite (same_pos_rest _ _ Hp3); exact E2].
    eapply after_pre; [exact Hp1|exact Hw1|]. eapply after_trans; [exact Ha2|apply after0_after; split; [exact Hw3|exact Hp3]].
  Qed.

  (* ---------------------------------------------------------------- single-line blocks *)

  Definition line_post (s : bp) (o : option pevent) (s' : bp) : Prop :=
    after s s' /\ opt_ok (fun ev => ev_ok ev /\ b_rest s' = []) o.

  Lemma metadata_entry_spec s : wf s -> runs (metadata_entry cfg) s (line_post s).
  Proof.
    intro Hw. unfold metadata_entry. apply runs_obindM. apply runs_consume; [exact Hw|discriminate| |].
    2:{ intros _. split; [apply after_refl; exact Hw|exact I]. }
    intros m s1 Ht1 _ _ _ _ _. pose proof (took_wf _ _ _ Ht1) as Hw1.
    apply runs_bind, runs_current_offset. apply runs_bind. apply runs_until; [exact Hw1| |].
    - intros kts s2 t2 r2 Ht2 Er2 Hk2 _. pose proof (took_wf _ _ _ Ht2) as Hw2.
      apply runs_bind. eapply runs_textM; [eapply took_seg; exact Ht2|]. intros key Hkey.
      apply runs_bind. apply runs_bump; [exact Hw2|exists t2, r2; split; [exact Er2|apply tk_eqb_true; exact Hk2]|].
      intros c s3 Ht3 _ _ _ _ _. pose proof (took_wf _ _ _ Ht3) as Hw3.
      apply runs_bind, runs_current_offset. apply runs_bind. apply runs_consume_rest; [exact Hw3|].
      intros vts s4 Ht4 E4. pose proof (took_wf _ _ _ Ht4) as Hw4.
      apply runs_bind. eapply runs_textM; [eapply took_seg; exact Ht4|]. intros v Hv.
      assert (Ha4 : after s s4).
      { eapply after_took; [exact Ht1|]. eapply after_took; [exact Ht2|]. eapply after_took; [exact Ht3|eapply took_after; exact Ht4]. }
      apply runs_bind.
      assert (Hfin : forall s5, wf s5 -> same_pos s4 s5 -> runs (ret (Some (EvMetadata key v))) s5 (line_post s)).
      { intros s5 Hw5 Hp5. apply runs_ret. split; [eapply after_trans; [exact Ha4|apply after0_after; split; assumption]|].
        cbn [opt_ok ev_ok]. split; [split; [apply Hkey|apply Hv]|]. rewrite (same_pos_rest _ _ Hp5). exact E4. }
      pose proof (text_in_span_ok _ _ _ Hkey) as Hks. pose proof (text_in_span_ok _ _ _ Hv) as Hvs.
      destruct (is_text_empty key).
      + apply runs_error; [exact Hw4|constructor; [exact Hks|constructor]|exact Hfin].
      + destruct (is_text_empty v).
        * apply runs_warn; [exact Hw4|constructor; [exact Hvs|constructor; [exact Hks|constructor]]|exact Hfin].
        * apply runs_ret. apply Hfin; [exact Hw4|apply same_pos_refl].
    - intros _. apply runs_bind, runs_all_tokens. apply runs_bind.
      apply runs_warn; [exact Hw1|constructor; [apply wf_all_span; exact Hw1|constructor]|].
      intros s2 Hw2 Hp2. apply runs_ret. split; [|exact I].
      eapply after_took; [exact Ht1|apply after0_after; split; assumption].
  Qed.

  Lemma section_p_spec s : wf s -> runs (section_p cfg) s (line_post s).
  Proof.
    intro Hw. unfold section_p. apply runs_obindM. apply runs_consume; [exact Hw|discriminate| |].
    2:{ intros _. split; [apply after_refl; exact Hw|exact I]. }
    intros e s1 Ht1 _ _ _ _ _. pose proof (took_wf _ _ _ Ht1) as Hw1.
    apply runs_bind. apply runs_consume_while; [exact Hw1|]. intros e2 s2 Ht2 _ _. pose proof (took_wf _ _ _ Ht2) as Hw2.
    apply runs_bind, runs_current_offset. apply runs_bind. apply runs_consume_while; [exact Hw2|].
    intros nts s3 Ht3 _ _. pose proof (took_wf _ _ _ Ht3) as Hw3.
    apply runs_bind. eapply runs_textM; [eapply took_seg; exact Ht3|]. intros name Hname.
    apply runs_bind. apply runs_consume_while; [exact Hw3|]. intros e3 s4 Ht4 _ _. pose proof (took_wf _ _ _ Ht4) as Hw4.
    apply runs_bind. unfold ws_comments. apply runs_consume_while; [exact Hw4|]. intros ws s5 Ht5 _ _.
    pose proof (took_wf _ _ _ Ht5) as Hw5. apply runs_bind, runs_rest.
    assert (Ha5 : after s s5).
    { eapply after_took; [exact Ht1|]. eapply after_took; [exact Ht2|]. eapply after_took; [exact Ht3|].
      eapply after_took; [exact Ht4|eapply took_after; exact Ht5]. }
    destruct (b_rest s5) as [|r0 rr] eqn:Er.
    - apply runs_ret. split; [exact Ha5|]. cbn [opt_ok ev_ok]. split; [|exact Er].
      destruct (is_text_empty name); [exact I|apply Hname].
    - rewrite <- Er. apply runs_bind. apply runs_warn; [exact Hw5| |].
      + constructor; [|constructor]. destruct (wf_split _ Hw5) as (en & _ & Hs). eapply tokens_span_ok; exact Hs.
      + intros s6 Hw6 Hp6. apply runs_ret. split; [|exact I].
        eapply after_trans; [exact Ha5|apply after0_after; split; assumption].
  Qed.

  Lemma parse_multiline_block_spec s : wf s ->
    runs (parse_multiline_block cfg) s (fun _ s' => after s s' /\ b_rest s' = []).
  Proof.
    intro Hw. unfold parse_multiline_block. apply runs_bind, runs_all_tokens.
    destruct (forallb _ (b_all s)).
    - apply runs_bind. apply runs_consume_rest; [exact Hw|]. intros ts s1 Ht1 E1. apply runs_ret.
      split; [eapply took_after; exact Ht1|exact E1].
    - apply runs_bind, runs_peek. rewrite match_KTextStep. destruct (tk_eqb (peek_of s) KTextStep).
      + apply parse_text_block_spec; exact Hw.
      + apply parse_step_spec; exact Hw.
  Qed.

  Lemma parse_block_spec old_style s : wf s ->
    runs (parse_block cfg old_style) s (fun _ s' => wf s' /\ b_rest s' = []).
  Proof.
    intro Hw. unfold parse_block. apply runs_bind, runs_peek. apply runs_bind.
    (* both single-line parsers either give an event with nothing left, or the position is restored *)
    assert (Hrec : forall m, runs m s (line_post s) ->
       runs (with_recover m) s (fun o s1 =>
          runs (match o with Some ev => event ev | None => parse_multiline_block cfg end) s1
            (fun _ s' => wf s' /\ b_rest s' = []))).
    { intros m Hm. apply runs_with_recover; [exact Hw|]. eapply runs_conseq; [exact Hm|].
      intros [ev|] s1 (Ha & Hev); (split; [apply Ha|]).
      - destruct Hev as (Hev & E1). apply runs_event; [apply Ha|exact Hev|].
        intros s2 Hw2 Hp2. split; [exact Hw2|]. rewrite (same_pos_rest _ _ Hp2). exact E1.
      - intros s2 Hw2 Hp2. eapply runs_conseq; [apply parse_multiline_block_spec; exact Hw2|].
        intros u s3 (Ha3 & E3). split; [apply Ha3|exact E3]. }
    assert (Hdef : runs (ret (@None pevent)) s (fun o s1 =>
          runs (match o with Some ev => event ev | None => parse_multiline_block cfg end) s1
            (fun _ s' => wf s' /\ b_rest s' = []))).
    { apply runs_ret. eapply runs_conseq; [apply parse_multiline_block_spec; exact Hw|].
      intros u s3 (Ha3 & E3). split; [apply Ha3|exact E3]. }
    destruct (peek_of s); try exact Hdef.
    - apply Hrec. apply runs_obindM. eapply runs_conseq; [apply metadata_entry_spec; exact Hw|].
      intros [ev|] s1 (Ha1 & Hev); [|split; [exact Ha1|exact I]].
      destruct ev; try (apply runs_ret; split; [exact Ha1|exact Hev]).
      destruct (meta_kept cfg old_style key); apply runs_ret; (split; [exact Ha1|]); [exact Hev|exact I].
    - apply Hrec. apply section_p_spec; exact Hw.
  Qed.

  (* a whole block: BlockParser::new, parse_block, finish *)
  Lemma run_block_ok ts a b evs old_style :
    ts <> [] -> seg a ts b -> Forall ev_ok evs ->
    exists evs', run_block ts evs (parse_block cfg old_style) = Done evs' /\ Forall ev_ok evs'.
  Proof.
    intros Hn Hseg Hev. unfold run_block. destruct ts as [|t0 tr] eqn:E; [congruence|]. rewrite <- E in *.
    set (s0 := {| b_all := ts; b_done := []; b_rest := ts; b_evs := evs |}).
    assert (Hw0 : wf s0).
    { unfold s0, wf, base_offset; cbn [b_all b_done b_rest b_evs rev app]. split; [reflexivity|]. split; [|exact Hev].
      exists b. rewrite E in *. destruct Hseg as (Ha & H). rewrite Ha. cbn [ParserSeg.seg]. tauto. }
    destruct (parse_block_spec old_style s0 Hw0) as (u & s1 & Em & Hw1 & E1).
    rewrite Em, E1. exists (b_evs s1). split; [reflexivity|apply wf_evs; exact Hw1].
  Qed.
End Inv.

(* ------------------------------------------------------------------ whole documents *)

Section Doc.
  Variable src : str.
  Variable cfg : pcfg.
  Hypothesis no_strict : p_strict_escape cfg = false.

  Notation seg := (seg src).
  Notation ev_ok := (ev_ok src cfg).

  Lemma blocks_loop_ok fuel : forall ts off en old_style evs,
    seg off ts en -> Forall ev_ok evs -> (length ts < fuel)%nat ->
    exists evs', blocks_loop cfg fuel ts old_style evs = Done evs' /\ Forall ev_ok evs'.
  Proof.
    induction fuel as [|f IH]; intros ts off en old_style evs Hseg Hev Hl; [lia|].
    cbn [blocks_loop]. destruct (next_block (S (length ts)) ts) as [[blk r]|] eqn:En.
    - destruct (next_block_seg src _ _ _ _ _ _ Hseg En) as (Hn & Hlr & (a & b & Hblk) & (c & Hr)).
      destruct (run_block_ok src cfg no_strict blk a b evs old_style Hn Hblk Hev) as (evs1 & E1 & Hev1).
      rewrite E1. cbn [obind]. eapply IH; [exact Hr|exact Hev1|lia].
    - exists evs. split; [reflexivity|exact Hev].
  Qed.

  Lemma meta_loop_ok fuel : forall ts off en evs,
    seg off ts en -> Forall ev_ok evs -> (length ts < fuel)%nat ->
    exists evs', meta_loop cfg fuel ts evs = Done evs' /\ Forall ev_ok evs'.
  Proof.
    induction fuel as [|f IH]; intros ts off en evs Hseg Hev Hl; [lia|].
    cbn [meta_loop]. destruct (skip_to_meta ts true) as [|t0 tr] eqn:Es; [exists evs; split; [reflexivity|exact Hev]|].
    destruct (skip_to_meta_seg src ts true off en Hseg) as (c & Hs). pose proof (skip_to_meta_length ts true) as Hsl.
    pose proof (skip_to_meta_head _ _ _ _ Es) as Hk. rewrite Es in Hs, Hsl.
    destruct (meta_take_line (t0 :: tr)) as [blk r] eqn:Em.
    destruct (meta_take_line_seg src _ _ _ _ _ Hs Em) as ((b & Hblk) & (d & Hr) & _ & Hlr).
    destruct (meta_take_line_head t0 tr blk r) as (blk' & Eb); [rewrite Hk; discriminate|exact Em|].
    specialize (Hlr ltac:(discriminate)). cbn [length] in Hsl, Hlr.
    rewrite Eb. rewrite <- Eb.
    set (s0 := {| b_all := blk; b_done := []; b_rest := blk; b_evs := evs |}).
    assert (Hw0 : wf src cfg s0).
    { unfold s0, wf, base_offset; cbn [b_all b_done b_rest b_evs rev app]. split; [reflexivity|]. split; [|exact Hev].
      exists b. rewrite Eb in *. destruct Hblk as (Ha & H). rewrite Ha. cbn [ParserSeg.seg]. tauto. }
    destruct (metadata_entry_spec src cfg no_strict s0 Hw0) as (o & s1 & E1 & Ha1 & Ho).
    unfold bind at 1. rewrite E1. destruct o as [ev|].
    - destruct Ho as (Hev1 & Er1). unfold bind, event, ret. cbn [b_rest b_evs]. rewrite Er1.
      eapply IH; [exact Hr| |lia]. constructor; [exact Hev1|]. apply (wf_evs src cfg). apply Ha1.
    - unfold ret. eapply IH; [exact Hr| |lia]. apply (wf_evs src cfg). apply Ha1.
  Qed.
End Doc.

Lemma text_from_str_ok src x off : sub src x off -> text_ok src (text_from_str x off).
Proof.
  intro H. unfold text_from_str. destruct x as [|c r] eqn:E.
  - apply text_empty_ok. eapply sub_bnd_l; exact H.
  - rewrite <- E in *. unfold text_ok, text_span; cbn [frags toff fst snd last]. unfold frag_end; cbn [foff ftext].
    split; [constructor; [exact H|constructor]|]. split; [eapply sub_bnd_l; exact H|lia].
Qed.

(* every input yields an event stream (no panic, no fuel exhaustion), and every event is well placed *)
Theorem events_ok (U : N -> ucls) (cfg : pcfg) (s : str) :
  p_strict_escape cfg = false ->
  exists evs, events U cfg s = Done evs /\ Forall (ev_ok s cfg) evs.
Proof.
  intro Hc. unfold events. destruct (parse_frontmatter cfg s) as [fm|] eqn:Ef.
  - destruct (parse_frontmatter_located _ _ _ Ef) as ((pre & Es & Hp) & Hy).
    destruct (lex_total U (cook_text fm) (cook_off fm)) as (ts & El). rewrite El.
    pose proof (lex_at_seg U _ _ _ pre El Hp) as Hseg. rewrite <- Es in Hseg.
    destruct (blocks_loop_ok s cfg Hc (S (length ts)) ts _ _ false
                [EvYaml (text_from_str (yaml_text fm) (yaml_off fm))] Hseg) as (evs & E & Hev); [|lia|].
    + constructor; [|constructor]. cbn [ev_ok]. apply (text_from_str_ok s). exact Hy.
    + rewrite E. cbn [obind]. exists (rev evs). split; [reflexivity|apply Forall_rev; exact Hev].
  - destruct (lex_total U s 0) as (ts & El). rewrite El.
    pose proof (lex_seg U _ _ El) as Hseg.
    destruct (blocks_loop_ok s cfg Hc (S (length ts)) ts _ _ true [] Hseg) as (evs & E & Hev); [constructor|lia|].
    rewrite E. cbn [obind]. exists (rev evs). split; [reflexivity|apply Forall_rev; exact Hev].
Qed.

Theorem meta_events_ok (U : N -> ucls) (cfg : pcfg) (s : str) :
  p_strict_escape cfg = false ->
  exists evs, meta_events U cfg s = Done evs /\ Forall (ev_ok s cfg) evs.
Proof.
  intro Hc. unfold meta_events. destruct (parse_frontmatter cfg s) as [fm|] eqn:Ef.
  - destruct (parse_frontmatter_located _ _ _ Ef) as (_ & Hy). eexists. split; [reflexivity|].
    constructor; [|constructor]. cbn [ev_ok]. apply (text_from_str_ok s). exact Hy.
  - destruct (lex_total U s 0) as (ts & El). rewrite El.
    pose proof (lex_seg U _ _ El) as Hseg.
    destruct (meta_loop_ok s cfg Hc (S (length ts)) ts _ _ [] Hseg) as (evs & E & Hev); [constructor|lia|].
    rewrite E. cbn [obind]. exists (rev evs). split; [reflexivity|apply Forall_rev; exact Hev].
Qed.
