(* C07, soundness from source texts: on the printed text of a document of the C01 printer class
   (Printer.doc_ok, Denote.adoc_ok) that is also in the warning-free class DenoteQuiet.quiet_doc, the model of
   CooklangParser::parse (Diag.parse over the pull-parser model and the decorated collector of
   Model/AnalysisDiag.v) returns a valid result whose report holds nothing but the `>>` deprecation notice -
   present exactly when the document has a `>>` entry that is not a config entry, with one label per such entry.

   The parser part is C01_events_roundtrip (Proofs/RoundTripPrintDoc.v: the events of the printed text are the
   intended ones, no parser diagnostic).  The analysis part follows the decorated collector through the
   document with the same explicit states as Proofs/RoundTripAnalysis.v (whose per-event lemmas give the
   transition) and shows event by event that [ediags] is empty. *)
From Coq Require Import ZArith Lia Bool.
From CL Require Import Base.StrLemmas Model.Lexer Model.Parser Model.Printer Model.Denote Model.DenoteQuiet Model.EventBridge.
From CL Require Import Model.Diag Model.AnalysisLabels Model.AnalysisDiag.
From CL Require Import Proofs.RoundTrip Proofs.RoundTripSpans Proofs.RoundTripAnalysis.
From CL Require Model.Events Model.Analysis.
From CL Require Proofs.ParserShape Proofs.AnalysisProofs Proofs.DiagProofs Proofs.DiagPlaced Proofs.RoundTripPrintDoc.
Open Scope N_scope.

Module A := CL.Model.Analysis.
Module E := CL.Model.Events.
Module R := CL.Proofs.RoundTripAnalysis.
Module D := CL.Model.AnalysisDiag.

(* ---------------------------------------------------------------- small facts *)
Lemma units_compat_ok unit_pq a b : units_compat unit_pq a b = true -> D.compatible_unit unit_pq a b = IcOk.
Proof.
  unfold units_compat, D.compatible_unit. destruct a as [u|], b as [w|]; try discriminate; [|reflexivity].
  destruct (unit_pq u), (unit_pq w); intros ->; reflexivity.
Qed.

Lemma units_quiet unit_pq tbl il q u idxs :
  forallb (fun k => match nth_error tbl k with
                    | Some c => match A.c_qty c with
                                | Some qi => units_compat unit_pq (A.qi_unit qi) u
                                | None => true
                                end
                    | None => false
                    end) idxs = true ->
  D.units_diags unit_pq tbl il q u idxs = Done [].
Proof.
  induction idxs as [|k r IH]; intro H; cbn [D.units_diags]; [reflexivity|].
  cbn [forallb] in H. apply andb_true_iff in H as [Hk Hr].
  destruct (nth_error tbl k) as [c|]; [|discriminate].
  rewrite (IH Hr). destruct (A.c_qty c) as [qi|]; [|reflexivity].
  rewrite (units_compat_ok _ _ _ Hk). reflexivity.
Qed.

(* the scaling lock of a parsed quantity value, from its projection *)
Lemma lock_quiet igr (v : qvalue) (val : value) (lock : bool) :
  qv v = val -> (match qlock v with Some _ => true | None => false end) = lock ->
  negb lock || (igr && negb (is_text_value val)) = true ->
  D.value_diags igr v = [].
Proof.
  intros Hv Hl H. unfold D.value_diags, abstract_qvalue. cbn [E.qv_lock E.qv_value].
  rewrite Hl, R.is_text_abstract, Hv. destruct lock; [|reflexivity]. cbn [negb orb andb] in H |- *.
  destruct igr; [|discriminate]. cbn [andb negb orb] in H |- *. apply negb_true_iff in H. rewrite H. reflexivity.
Qed.

Section Sound.
  Variable ci : str -> str.
  Variable yaml_ok : str -> bool.
  Variable find_iq : str -> option (str * str).
  Variable unit_class : str -> N.
  Variable input : str.
  Variable x : A.aext.
  Variable dc : dcfg.
  Variable yaml_err_index : str -> option N.
  Variable yaml_std_bad : str -> list str.
  Variable yaml_has_key : str -> str -> bool.
  Variable std_check : str -> str -> bool.
  Variable is_alnum : N -> bool.
  Variable unit_pq : str -> option N.

  Local Notation stepF := (A.step ci yaml_ok find_iq unit_class input x A.cfgF).
  Local Notation runF := (A.run ci yaml_ok find_iq unit_class input x A.cfgF).
  Local Notation dstepF := (D.dstep ci yaml_ok find_iq unit_class input x A.cfgF dc yaml_err_index yaml_std_bad yaml_has_key std_check is_alnum unit_pq).
  Local Notation drunF := (D.drun ci yaml_ok find_iq unit_class input x A.cfgF dc yaml_err_index yaml_std_bad yaml_has_key std_check is_alnum unit_pq).
  Local Notation ediagsF := (D.ediags ci yaml_ok unit_class x dc yaml_err_index yaml_std_bad yaml_has_key std_check is_alnum unit_pq).
  Local Notation ST m secs cur igs cws tms inl blk cnt err :=
    (A.Build_astate secs cur igs cws tms inl (md_define m) (dup_of (md_dupref m)) blk cnt err false).
  Local Notation DST a il cl used tm pr ck := (Build_dstate a il cl used tm pr ck).
  Local Notation modes := (A.x_modes x).

  (* one step of the decorated collector that pushes nothing *)
  Lemma dstep_quiet st ev s' :
    A.a_halted (ds_a st) = false -> stepF (ds_a st) (abstract_event ev) = Done s' -> ediagsF st ev = Done [] ->
    dstepF st ev = Done (D.dupd x std_check st ev s', []).
  Proof. intros Hh Hs He. unfold D.dstep. rewrite Hh, Hs. cbn [obind]. rewrite He. reflexivity. Qed.

  Lemma drun_cons st e r st1 :
    dstepF st e = Done (st1, []) -> drunF st (e :: r) = obind (drunF st1 r) (fun b => Done (fst b, snd b)).
  Proof. intro H. cbn [D.drun]. rewrite H. reflexivity. Qed.

  Lemma drun_cons_quiet st e r st1 st2 :
    dstepF st e = Done (st1, []) -> drunF st1 r = Done (st2, []) -> drunF st (e :: r) = Done (st2, []).
  Proof. intros H1 H2. rewrite (drun_cons st e r st1 H1), H2. reflexivity. Qed.

  Lemma drun_app_quiet a : forall st b st1 st2,
    drunF st a = Done (st1, []) -> drunF st1 b = Done (st2, []) -> drunF st (a ++ b) = Done (st2, []).
  Proof.
    induction a as [|e a IH]; intros st b st1 st2 H1 H2.
    - cbn in H1. injection H1 as <-. exact H2.
    - cbn [D.drun app] in H1 |- *. destruct (dstepF st e) as [[sa da]|]; [|discriminate]. cbn [obind fst snd] in H1 |- *.
      destruct (drunF sa a) as [[sb db]|] eqn:E; [|discriminate]. cbn [obind fst snd] in H1. injection H1 as <- Hd.
      apply app_eq_nil in Hd as [-> ->]. rewrite (IH sa b sb st2 E H2). reflexivity.
  Qed.

  (* ---------------------------------------------------------------- resolve_reference pushes nothing *)
  Lemma rr_quiet (s : A.astate) tbl inh units e loc mloc :
    A.a_define s = md_define (en_mode e) -> A.a_duplicate s = dup_of (md_dupref (en_mode e)) ->
    en_inter e = false -> tbl_wf tbl -> entry_ok ci inh tbl e = true ->
    quiet_entry ci unit_pq units tbl e = true ->
    D.rr_diags ci s tbl inh (en_comp e) loc mloc = [].
  Proof.
    intros Hd Hu Hi W Hok Hq. unfold D.rr_diags. cbv zeta. rewrite Hd, Hu, dm_steps, dup_is_ref_of, (same_name_find ci tbl _ W).
    unfold quiet_entry in Hq. rewrite Hi in Hq. cbn [orb] in Hq. cbv zeta in Hq. apply andb_true_iff in Hq as [Hq _].
    unfold entry_ok in Hok.
    destruct (tag_cases e Hi) as [(Ht & Hn)|[(Ht & Hn & Hr)|[(Ht & Hn & Hr & Hst & Hdu)|(Ht & Hn & Hr & Hst & Hdu)]]];
      cbv zeta in *; rewrite Ht in Hok; rewrite Hn in Hq |- *.
    - (* `+` *)
      rewrite Hn in Hok. cbn [andb] in Hok |- *. apply negb_true_iff in Hok. rewrite Hok.
      destruct (in_steps (en_mode e)); cbn [negb orb] in Hq |- *; [reflexivity|].
      apply andb_true_iff in Hq as [-> ->]. reflexivity.
    - (* a reference by `&` or steps mode *)
      cbn [andb]. apply negb_true_iff in Hq. rewrite andb_comm in Hq. rewrite Hq. rewrite Hr. cbn [negb app].
      unfold found_ok in Hok. destruct (find_def ci tbl (A.c_name (en_comp e))) as [j|]; [|discriminate].
      destruct (nth_error tbl j) as [def|]; [|reflexivity].
      destruct (link_ok_parts inh _ def Hok) as (_ & -> & _). reflexivity.
    - cbn [andb]. rewrite Hr, Hst, Hdu. cbn [orb andb negb app].
      unfold found_ok in Hok. destruct (find_def ci tbl (A.c_name (en_comp e))) as [j|]; [|reflexivity].
      cbn [E.is_some negb]. destruct (nth_error tbl j) as [def|]; [|reflexivity].
      destruct (link_ok_parts inh _ def Hok) as (_ & -> & _). reflexivity.
    - cbn [andb]. rewrite Hr, Hst, Hdu. reflexivity.
  Qed.

  (* what [quiet_entry] says of an occurrence that is linked to the definition j *)
  Lemma quiet_link_of tbl units e j def :
    en_inter e = false -> quiet_entry ci unit_pq units tbl e = true ->
    find_def ci tbl (A.c_name (en_comp e)) = Some j -> nth_error tbl j = Some def ->
    (tag_of e = TRef \/ tag_of e = TDup) ->
    quiet_link unit_pq units tbl (en_comp e) j def = true.
  Proof.
    intros Hi Hq Ef En Ht. unfold quiet_entry in Hq. rewrite Hi in Hq. cbn [orb] in Hq. cbv zeta in Hq.
    apply andb_true_iff in Hq as [_ Hq]. rewrite Ef, En in Hq. destruct Ht as [Ht|Ht]; rewrite Ht in Hq; exact Hq.
  Qed.

  (* ---------------------------------------------------------------- the component events push nothing *)
  Lemma nth_error_len {T S} (l : list T) (l2 : list S) j a :
    nth_error l j = Some a -> length l2 = length l -> exists b, nth_error l2 j = Some b.
  Proof.
    intros H L. destruct (nth_error l2 j) as [b|] eqn:E; [eauto|]. apply nth_error_None in E.
    assert (j < length l)%nat by (apply nth_error_Some; rewrite H; discriminate). lia.
  Qed.

  Lemma igr_quiet m k c i acc secs cur igs cws tms inl cnt err il cl used tm pr ck :
    linked k secs cur -> cs_kind c = CIgr -> ev_proj (EvIngredient i) = denote_comp c ->
    inter_ok k c = true -> tbl_wf igs -> entry_ok ci inherit_igr igs (mk_entry m k c) = true ->
    lock_ok c = true -> quiet_entry ci unit_pq (A.x_advanced x) igs (mk_entry m k c) = true ->
    length il = length igs ->
    D.ingredient_diags ci x unit_pq (DST (ST m secs cur igs cws tms inl (Some (A.BStep acc)) cnt err) il cl used tm pr ck) i = Done [].
  Proof.
    intros Hlk Hk He Hinter Wi Ri1 Hlock Hq Hlen.
    pose proof He as He'. unfold denote_comp in He'. rewrite Hk in He'. cbn [ev_proj] in He'.
    injection He' as Hmods Hinter' Hname Halias Hqty Hnote.
    pose proof (igr_new_raw m i c Hk He) as Hraw.
    assert (Higr : is_igr c = true) by (unfold is_igr; rewrite Hk; reflexivity).
    unfold D.ingredient_diags. cbv zeta. cbn [ds_a ds_iloc].
    set (s0 := ST m secs cur igs cws tms inl (Some (A.BStep acc)) cnt err).
    assert (Hdis : dis_of s0 = negb (in_components m)) by (unfold dis_of, s0; cbn [A.a_define]; rewrite dm_components; reflexivity).
    change (D.ing_new s0 (D.abs_ing i)) with (igr_new (dis_of s0) (abs_igr i)). rewrite Hdis, Hraw.
    change (A.a_ingredients s0) with igs.
    assert (L : match i_qty i with Some q => D.value_diags true (q_val q) | None => [] end = []).
    { destruct (i_qty i) as [q|]; [|reflexivity]. unfold lock_ok in Hlock. rewrite <- Hqty, Higr in Hlock.
      cbn [option_map] in Hlock. unfold qproj in Hlock. exact (lock_quiet true (q_val q) _ _ eq_refl eq_refl Hlock). }
    rewrite L. cbn [app]. clear L.
    unfold inter_ok in Hinter. unfold mk_entry in Ri1, Hq.
    destruct (mods_inter (cs_mods c)) as [[[rel sec] v]|] eqn:Emi.
    - (* intermediate reference *)
      destruct (i_inter i) as [idata|] eqn:Eii; [|discriminate]. cbn [option_map] in Hinter'. injection Hinter' as Hr Hs Hv.
      apply andb_true_iff in Hinter as [Hinter Hsome]. apply andb_true_iff in Hinter as [Hinter Hinv].
      apply negb_true_iff in Hinv.
      destruct (inter_rel k rel sec v) as [r|] eqn:Erel; [|discriminate].
      destruct Hlk as (Hk1 & Hk2 & _).
      assert (Hres : A.resolve_intermediate_ref s0 (abstract_inter idata) = Done (Some r)).
      { rewrite (resolve_inter_sim _ idata k); unfold s0; cbn [A.a_cur A.a_sections]; [|exact Hk1|exact Hk2]. rewrite Hr, Hs, Hv, Erel. reflexivity. }
      rewrite Hres. cbn [obind].
      change (E.mods_intersects (A.c_mods (raw_comp m c)) A.inter_invalid) with (E.mods_intersects (cs_mod_set c) inter_invalid).
      rewrite Hinv. reflexivity.
    - (* definition or reference by name *)
      destruct (i_inter i) as [idata|] eqn:Eii; [discriminate|].
      set (e := {| en_inter := false; en_mode := m; en_comp := raw_comp m c |}) in *.
      assert (Hd : A.a_define s0 = md_define (en_mode e)) by reflexivity.
      assert (Hu : A.a_duplicate s0 = dup_of (md_dupref (en_mode e))) by reflexivity.
      change (raw_comp m c) with (en_comp e).
      rewrite (rr_quiet s0 igs A.inherit_ingredient (A.x_advanced x) e (i_span i) (i_mods_span i) Hd Hu eq_refl Wi Ri1 Hq).
      destruct (resolve_spec ci s0 igs A.inherit_ingredient e Hd Hu eq_refl Wi Ri1)
        as [(Hrr & _)|(j & def & rf & dis & Ef & En & Hl & Erel & Hrf & Hrr & _ & Htag)]; rewrite Hrr; cbn [obind A.rs_target]; [reflexivity|].
      rewrite En. destruct (nth_error_len igs il j def En Hlen) as (dloc & ->).
      pose proof (quiet_link_of igs (A.x_advanced x) e j def eq_refl Hq Ef En Htag) as Hql.
      destruct (link_ok_parts _ _ def Hl) as (Hno & _ & Hcq).
      unfold quiet_link in Hql.
      assert (Eraw : A.c_qty (en_comp e) = option_map (qinfo_of true true) (option_map qproj (i_qty i))).
      { unfold e. cbn [en_comp]. unfold raw_comp. cbn [A.c_qty]. rewrite Higr, Hqty. reflexivity. }
      assert (Enote : i_note i = None).
      { unfold e in Hno. cbn [en_comp] in Hno. unfold raw_comp in Hno. cbn [A.c_note] in Hno. rewrite <- Hnote in Hno.
        destruct (i_note i); [discriminate|reflexivity]. }
      rewrite Enote. rewrite Eraw, Erel in Hql. unfold has_qty, def_in_step in Hcq. rewrite Eraw, Erel in Hcq. rewrite Erel.
      destruct (i_qty i) as [q|]; [|reflexivity].
      cbn [option_map] in Hql, Hcq. cbn [E.is_some] in Hcq. rewrite andb_true_r in Hcq.
      apply andb_true_iff in Hql as [Htx Hun].
      assert (Hud : match A.x_advanced x with
                    | true => D.units_diags unit_pq igs il q (option_map text_trimmed (q_unit q)) (j :: rf)
                    | false => Done []
                    end = Done []).
      { destruct (A.x_advanced x); [|reflexivity]. cbn [negb orb] in Hun. apply units_quiet. exact Hun. }
      rewrite Hud. cbn [obind]. rewrite Hcq.
      destruct (A.c_qty def) as [dq|]; [|reflexivity].
      unfold qinfo_of, qproj in Htx. cbn [A.qi_text] in Htx.
      cbn [abstract_qvalue E.qv_value]. rewrite R.is_text_abstract, Htx. reflexivity.
  Qed.

  Lemma cw_quiet m k c cw acc secs cur igs cws tms inl cnt err il cl used tm pr ck :
    cs_kind c = CCw -> ev_proj (EvCookware cw) = denote_comp c ->
    inter_ok k c = true -> tbl_wf cws -> entry_ok ci inherit_cw cws (mk_entry m k c) = true ->
    lock_ok c = true -> quiet_entry ci unit_pq false cws (mk_entry m k c) = true ->
    length cl = length cws ->
    D.cookware_diags ci (DST (ST m secs cur igs cws tms inl (Some (A.BStep acc)) cnt err) il cl used tm pr ck) cw = Done [].
  Proof.
    intros Hk He Hinter Wc Rc1 Hlock Hq Hlen.
    pose proof He as He'. unfold denote_comp in He'. rewrite Hk in He'. cbn [ev_proj] in He'.
    injection He' as Hmods Hname Halias Hqty Hnote.
    pose proof (R.cw_new_raw m cw c Hk He) as Hraw.
    assert (Higr : is_igr c = false) by (unfold is_igr; rewrite Hk; reflexivity).
    pose proof (inter_ok_none k c Higr Hinter) as Emi. rewrite (entry_plain m k c Emi) in *.
    unfold D.cookware_diags. cbv zeta. cbn [ds_a ds_cloc].
    set (s0 := ST m secs cur igs cws tms inl (Some (A.BStep acc)) cnt err).
    assert (Hdis : dis_of s0 = negb (in_components m)) by (unfold dis_of, s0; cbn [A.a_define]; rewrite dm_components; reflexivity).
    change (D.cw_new s0 (D.abs_cw cw)) with (R.cw_new (dis_of s0) (R.abs_cw cw)). rewrite Hdis, Hraw.
    change (A.a_cookware s0) with cws.
    assert (L : match c_qty cw with Some (v, _) => D.value_diags false v | None => [] end = []).
    { destruct (c_qty cw) as [[v sp]|]; [|reflexivity]. unfold lock_ok in Hlock. rewrite Higr in Hlock.
      destruct (denote_cqty (cs_body c)) as [[[v' l'] u']|]; [|discriminate]. cbn [option_map fst snd] in Hqty.
      injection Hqty as Hv Hl. unfold qvproj in Hv, Hl. cbn [fst snd] in Hv, Hl.
      exact (lock_quiet false v v' l' Hv Hl Hlock). }
    rewrite L. cbn [app]. clear L.
    set (e := {| en_inter := false; en_mode := m; en_comp := raw_comp m c |}) in *.
    assert (Hd : A.a_define s0 = md_define (en_mode e)) by reflexivity.
    assert (Hu : A.a_duplicate s0 = dup_of (md_dupref (en_mode e))) by reflexivity.
    change (raw_comp m c) with (en_comp e).
    rewrite (rr_quiet s0 cws A.inherit_cookware false e (c_span cw) (c_mods_span cw) Hd Hu eq_refl Wc Rc1 Hq).
    destruct (resolve_spec ci s0 cws A.inherit_cookware e Hd Hu eq_refl Wc Rc1)
      as [(Hrr & _)|(j & def & rf & dis & Ef & En & Hl & Erel & Hrf & Hrr & _ & Htag)]; rewrite Hrr; cbn [obind A.rs_target]; [reflexivity|].
    rewrite En. destruct (nth_error_len cws cl j def En Hlen) as (dloc & ->).
    pose proof (quiet_link_of cws false e j def eq_refl Hq Ef En Htag) as Hql.
    destruct (link_ok_parts _ _ def Hl) as (Hno & _ & Hcq).
    unfold quiet_link in Hql.
    assert (Eraw : A.c_qty (en_comp e) = option_map (qinfo_of false false) (denote_cqty (cs_body c))).
    { unfold e. cbn [en_comp]. unfold raw_comp. cbn [A.c_qty]. rewrite Higr. reflexivity. }
    assert (Enote : c_note cw = None).
    { unfold e in Hno. cbn [en_comp] in Hno. unfold raw_comp in Hno. cbn [A.c_note] in Hno. rewrite <- Hnote in Hno.
      destruct (c_note cw); [discriminate|reflexivity]. }
    rewrite Enote. rewrite Eraw in Hql. unfold has_qty, def_in_step in Hcq. rewrite Eraw, Erel in Hcq. rewrite Erel.
    destruct (c_qty cw) as [[v qsp]|].
    - destruct (denote_cqty (cs_body c)) as [[[v' l'] u']|]; [|discriminate]. cbn [option_map fst snd] in Hqty, Hql, Hcq.
      injection Hqty as Hv _. unfold qvproj in Hv. cbn [fst] in Hv.
      cbn [E.is_some] in Hcq. rewrite andb_true_r in Hcq. rewrite Hcq.
      apply andb_true_iff in Hql as [Htx _].
      destruct (A.c_qty def) as [dq|]; [|reflexivity].
      unfold qinfo_of in Htx. cbn [A.qi_text] in Htx.
      cbn [abstract_qvalue E.qv_value]. rewrite R.is_text_abstract, Hv, Htx. reflexivity.
    - reflexivity.
  Qed.

  Lemma tm_quiet c t :
    cs_kind c = CTm -> ev_proj (EvTimer t) = denote_comp c -> timer_ok unit_class x c = true -> lock_ok c = true ->
    D.timer_diags unit_class x t = [].
  Proof.
    intros Hk He Hok Hlock. unfold denote_comp in He. rewrite Hk in He. cbn [ev_proj] in He. injection He as _ Hq.
    assert (Higr : is_igr c = false) by (unfold is_igr; rewrite Hk; reflexivity).
    unfold D.timer_diags. destruct (t_qty t) as [q|]; [|reflexivity].
    unfold lock_ok in Hlock. unfold timer_ok in Hok. rewrite <- Hq in Hlock, Hok. rewrite Higr in Hlock. cbn [option_map] in Hlock, Hok.
    unfold qproj in Hlock, Hok.
    rewrite (lock_quiet false (q_val q) _ _ eq_refl eq_refl Hlock). cbn [app].
    destruct (A.x_advanced x); [|reflexivity]. cbn [negb orb] in Hok. apply andb_true_iff in Hok as [Hv Hu].
    apply negb_true_iff in Hv. cbn [abstract_qvalue E.qv_value]. rewrite R.is_text_abstract, Hv. cbn [app].
    destruct (q_unit q) as [u|]; [|reflexivity]. cbn [option_map] in Hu. rewrite Hu. reflexivity.
  Qed.

  (* ---------------------------------------------------------------- the items of one step block *)
  Lemma drun_items m k items : forall evs acc secs cur igs cws tms inl cnt err il cl used tm pr ck,
    linked k secs cur ->
    map ev_proj evs = map denote_item items ->
    forallb (aitem_ok find_iq unit_class x m k) items = true ->
    forallb (qitem_ok is_alnum m) items = true ->
    tbl_wf igs -> tbl_wf cws ->
    refs_ok ci inherit_igr igs (map (mk_entry m k) (filter is_igr (item_comps items))) = true ->
    refs_ok ci inherit_cw cws (map (mk_entry m k) (filter is_cw (item_comps items))) = true ->
    quiet_refs ci unit_pq inherit_igr (A.x_advanced x) igs (map (mk_entry m k) (filter is_igr (item_comps items))) = true ->
    quiet_refs ci unit_pq inherit_cw false cws (map (mk_entry m k) (filter is_cw (item_comps items))) = true ->
    length il = length igs -> length cl = length cws ->
    exists st', drunF (DST (ST m secs cur igs cws tms inl (Some (A.BStep acc)) cnt err) il cl used tm pr ck) evs = Done (st', []) /\
      length (ds_iloc st') = length (A.a_ingredients (ds_a st')) /\ length (ds_cloc st') = length (A.a_cookware (ds_a st')) /\
      ds_used st' = used /\ ds_time st' = tm /\ ds_prep st' = pr /\ ds_cook st' = ck.
  Proof.
    induction items as [|it items IH]; intros evs acc secs cur igs cws tms inl cnt err il cl used tm pr ck
      Hlk Hev Hok Hqi Wi Wc Ri Rc Qi Qc Li Lc.
    - destruct evs; [|discriminate]. eexists. split; [reflexivity|]. cbn. repeat split; assumption.
    - destruct evs as [|e evs]; [discriminate|]. cbn [map] in Hev. injection Hev as He Hev.
      cbn [forallb] in Hok, Hqi. apply andb_true_iff in Hok as [Hit Hok]. apply andb_true_iff in Hqi as [Hqit Hqi].
      set (st0 := DST (ST m secs cur igs cws tms inl (Some (A.BStep acc)) cnt err) il cl used tm pr ck).
      destruct it as [t|c].
      + (* text *)
        cbn [denote_item] in He. destruct (proj_text e _ He) as (tx & -> & Htx).
        pose proof (step_text ci yaml_ok find_iq unit_class input x m k t tx acc secs cur igs cws tms inl cnt err Htx Hit) as Hst.
        assert (Hed : ediagsF st0 (EvText tx) = Done []).
        { unfold D.ediags, st0. cbn [ds_a A.a_block A.a_define]. rewrite dm_components.
          cbn [qitem_ok] in Hqit. apply negb_true_iff in Hqit. rewrite Htx, Hqit. reflexivity. }
        pose proof (dstep_quiet st0 (EvText tx) _ eq_refl Hst Hed) as Hds.
        cbn [item_comps flat_map app] in Ri, Rc, Qi, Qc. fold (item_comps items) in Ri, Rc, Qi, Qc.
        unfold D.dupd, st0 in Hds. cbn [ds_a ds_iloc ds_cloc ds_used ds_time ds_prep ds_cook] in Hds.
        destruct (in_components m).
        * destruct (IH evs acc secs cur igs cws tms inl cnt err il cl used tm pr ck Hlk Hev Hok Hqi Wi Wc Ri Rc Qi Qc Li Lc) as (st' & Hr & Hrest).
          exists st'. split; [|exact Hrest]. exact (drun_cons_quiet _ _ _ _ _ Hds Hr).
        * destruct (IH evs (acc ++ fst (text_items find_iq (A.x_inline x) (toks_text t) inl)) secs cur igs cws tms
                      (snd (text_items find_iq (A.x_inline x) (toks_text t) inl)) cnt err il cl used tm pr ck
                      Hlk Hev Hok Hqi Wi Wc Ri Rc Qi Qc Li Lc) as (st' & Hr & Hrest).
          exists st'. split; [|exact Hrest]. exact (drun_cons_quiet _ _ _ _ _ Hds Hr).
      + (* component *)
        cbn [aitem_ok] in Hit. apply andb_true_iff in Hit as [Hinter Htm]. cbn [qitem_ok] in Hqit.
        cbn [denote_item] in He.
        cbn [item_comps flat_map app] in Ri, Rc, Qi, Qc. fold (item_comps items) in Ri, Rc, Qi, Qc.
        destruct (cs_kind c) eqn:Hk.
        * (* ingredient *)
          assert (Higr : is_igr c = true) by (unfold is_igr; rewrite Hk; reflexivity).
          assert (Hcw : is_cw c = false) by (unfold is_cw; rewrite Hk; reflexivity).
          cbn [filter] in Ri, Rc, Qi, Qc. rewrite Higr in *. rewrite Hcw in *.
          cbn [map refs_ok quiet_refs] in Ri, Qi. apply andb_true_iff in Ri as [Ri1 Ri]. apply andb_true_iff in Qi as [Qi1 Qi].
          pose proof He as He'. unfold denote_comp in He'. rewrite Hk in He'.
          destruct (proj_ingredient e _ _ _ _ _ _ He') as (i & -> & _).
          destruct (step_igr ci yaml_ok find_iq unit_class input x m k c i acc secs cur igs cws tms inl cnt err Hlk Hk He Hinter Wi Ri1) as [Hst W'].
          assert (Hed : ediagsF st0 (EvIngredient i) = Done []).
          { unfold D.ediags, st0. cbn [ds_a A.a_block].
            exact (igr_quiet m k c i acc secs cur igs cws tms inl cnt err il cl used tm pr ck Hlk Hk He Hinter Wi Ri1 Hqit Qi1 Li). }
          pose proof (dstep_quiet st0 (EvIngredient i) _ eq_refl Hst Hed) as Hds.
          unfold D.dupd, st0 in Hds. cbn [ds_a ds_iloc ds_cloc ds_used ds_time ds_prep ds_cook A.a_block] in Hds.
          destruct (IH evs (acc ++ [A.IIngredient (length igs)]) secs cur (add_entry ci inherit_igr igs (mk_entry m k c)) cws tms inl cnt err
                      (il ++ [i]) cl used tm pr ck Hlk Hev Hok Hqi W' Wc Ri Rc Qi Qc) as (st' & Hr & Hrest); [|exact Lc|].
          { rewrite app_length, add_entry_length, Li. cbn [length]. lia. }
          exists st'. split; [|exact Hrest]. exact (drun_cons_quiet _ _ _ _ _ Hds Hr).
        * (* cookware *)
          assert (Higr : is_igr c = false) by (unfold is_igr; rewrite Hk; reflexivity).
          assert (Hcw : is_cw c = true) by (unfold is_cw; rewrite Hk; reflexivity).
          cbn [filter] in Ri, Rc, Qi, Qc. rewrite Higr in *. rewrite Hcw in *.
          cbn [map refs_ok quiet_refs] in Rc, Qc. apply andb_true_iff in Rc as [Rc1 Rc]. apply andb_true_iff in Qc as [Qc1 Qc].
          pose proof He as He'. unfold denote_comp in He'. rewrite Hk in He'.
          destruct (proj_cookware e _ _ _ _ _ He') as (cw & -> & _).
          destruct (step_cw ci yaml_ok find_iq unit_class input x m k c cw acc secs cur igs cws tms inl cnt err Hk He Hinter Wc Rc1) as [Hst W'].
          assert (Hed : ediagsF st0 (EvCookware cw) = Done []).
          { unfold D.ediags, st0. cbn [ds_a A.a_block].
            exact (cw_quiet m k c cw acc secs cur igs cws tms inl cnt err il cl used tm pr ck Hk He Hinter Wc Rc1 Hqit Qc1 Lc). }
          pose proof (dstep_quiet st0 (EvCookware cw) _ eq_refl Hst Hed) as Hds.
          unfold D.dupd, st0 in Hds. cbn [ds_a ds_iloc ds_cloc ds_used ds_time ds_prep ds_cook A.a_block] in Hds.
          destruct (IH evs (acc ++ [A.ICookware (length cws)]) secs cur igs (add_entry ci inherit_cw cws (mk_entry m k c)) tms inl cnt err
                      il (cl ++ [cw]) used tm pr ck Hlk Hev Hok Hqi Wi W' Ri Rc Qi Qc Li) as (st' & Hr & Hrest).
          { rewrite app_length, add_entry_length, Lc. cbn [length]. lia. }
          exists st'. split; [|exact Hrest]. exact (drun_cons_quiet _ _ _ _ _ Hds Hr).
        * (* timer *)
          assert (Higr : is_igr c = false) by (unfold is_igr; rewrite Hk; reflexivity).
          assert (Hcw : is_cw c = false) by (unfold is_cw; rewrite Hk; reflexivity).
          cbn [filter] in Ri, Rc, Qi, Qc. rewrite Higr in *. rewrite Hcw in *.
          pose proof He as He'. unfold denote_comp in He'. rewrite Hk in He'.
          destruct (proj_timer e _ _ He') as (t & -> & _).
          pose proof (step_tm ci yaml_ok find_iq unit_class input x m c t acc secs cur igs cws tms inl cnt err Hk He Htm) as Hst.
          assert (Hed : ediagsF st0 (EvTimer t) = Done []).
          { unfold D.ediags, st0. cbn [ds_a A.a_block]. rewrite (tm_quiet c t Hk He Htm Hqit). reflexivity. }
          pose proof (dstep_quiet st0 (EvTimer t) _ eq_refl Hst Hed) as Hds.
          unfold D.dupd, st0 in Hds. cbn [ds_a ds_iloc ds_cloc ds_used ds_time ds_prep ds_cook] in Hds.
          destruct (IH evs (acc ++ [A.ITimer (length tms)]) secs cur igs cws (tms ++ [raw_timer c]) inl cnt err
                      il cl used tm pr ck Hlk Hev Hok Hqi Wi Wc Ri Rc Qi Qc Li Lc) as (st' & Hr & Hrest).
          exists st'. split; [|exact Hrest]. exact (drun_cons_quiet _ _ _ _ _ Hds Hr).
  Qed.

  Lemma quiet_refs_app inh units a : forall tbl b,
    quiet_refs ci unit_pq inh units tbl (a ++ b)
    = quiet_refs ci unit_pq inh units tbl a && quiet_refs ci unit_pq inh units (table ci inh tbl a) b.
  Proof.
    induction a as [|r a IH]; intros tbl b; [reflexivity|]. cbn [app quiet_refs table fold_left].
    fold (table ci inh (add_entry ci inh tbl r) a). rewrite IH, andb_assoc. reflexivity.
  Qed.

  (* ---------------------------------------------------------------- one `>` block *)
  Lemma drun_tlines m ls : forall evs acc secs cur igs cws tms inl cnt err il cl used tm pr ck,
    map ev_proj evs = denote_tlines ls ->
    drunF (DST (ST m secs cur igs cws tms inl (Some (A.BText acc)) cnt err) il cl used tm pr ck) evs
    = Done (DST (ST m secs cur igs cws tms inl (Some (A.BText (acc ++ tlines_text ls))) cnt err) il cl used tm pr ck, []).
  Proof.
    induction ls as [|l r IH]; intros evs acc secs cur igs cws tms inl cnt err il cl used tm pr ck Hev.
    - destruct evs; [|discriminate]. cbn. rewrite app_nil_r. reflexivity.
    - destruct evs as [|e evs]; [destruct r; discriminate|].
      assert (Hstep : forall tx, ev_proj e = SText tx ->
                dstepF (DST (ST m secs cur igs cws tms inl (Some (A.BText acc)) cnt err) il cl used tm pr ck) e
                = Done (DST (ST m secs cur igs cws tms inl (Some (A.BText (acc ++ tx))) cnt err) il cl used tm pr ck, [])).
      { intros tx He. destruct (proj_text e _ He) as (t & -> & Ht). unfold D.dstep. cbn [ds_a A.a_halted abstract_event].
        unfold A.step. cbn [A.a_halted A.a_block]. unfold A.in_text. rewrite ParserShape.text_str_abstract, Ht. reflexivity. }
      destruct r as [|l2 r].
      + cbn [denote_tlines map] in Hev. injection Hev as He Hev. destruct evs; [|discriminate].
        cbn [D.drun]. rewrite (Hstep _ He). reflexivity.
      + cbn [denote_tlines map] in Hev. injection Hev as He Hev.
        rewrite (drun_cons_quiet _ _ _ _ _ (Hstep _ He) (IH evs _ secs cur igs cws tms inl cnt err il cl used tm pr ck Hev)).
        cbn [tlines_text]. rewrite <- !app_assoc. reflexivity.
  Qed.

  (* the items of a step block, with the state written out *)
  Lemma drun_items_state m k items evs acc secs cur igs cws tms inl cnt err il cl used tm pr ck :
    linked k secs cur ->
    map ev_proj evs = map denote_item items ->
    forallb (aitem_ok find_iq unit_class x m k) items = true ->
    forallb (qitem_ok is_alnum m) items = true ->
    tbl_wf igs -> tbl_wf cws ->
    refs_ok ci inherit_igr igs (map (mk_entry m k) (filter is_igr (item_comps items))) = true ->
    refs_ok ci inherit_cw cws (map (mk_entry m k) (filter is_cw (item_comps items))) = true ->
    quiet_refs ci unit_pq inherit_igr (A.x_advanced x) igs (map (mk_entry m k) (filter is_igr (item_comps items))) = true ->
    quiet_refs ci unit_pq inherit_cw false cws (map (mk_entry m k) (filter is_cw (item_comps items))) = true ->
    length il = length igs -> length cl = length cws ->
    let igs' := table ci inherit_igr igs (map (mk_entry m k) (filter is_igr (item_comps items))) in
    let cws' := table ci inherit_cw cws (map (mk_entry m k) (filter is_cw (item_comps items))) in
    exists il' cl',
      drunF (DST (ST m secs cur igs cws tms inl (Some (A.BStep acc)) cnt err) il cl used tm pr ck) evs
      = Done (DST (ST m secs cur igs' cws' (tms ++ map raw_timer (filter is_tm (item_comps items)))
                     (n_q (snd (mitems find_iq (A.x_inline x) (in_components m) items (kcnt igs cws tms inl))))
                     (Some (A.BStep (acc ++ fst (mitems find_iq (A.x_inline x) (in_components m) items (kcnt igs cws tms inl))))) cnt err)
                il' cl' used tm pr ck, []) /\
      length il' = length igs' /\ length cl' = length cws' /\ tbl_wf igs' /\ tbl_wf cws'.
  Proof.
    intros Hlk Hev Hok Hqi Wi Wc Ri Rc Qi Qc Li Lc igs' cws'.
    destruct (drun_items m k items evs acc secs cur igs cws tms inl cnt err il cl used tm pr ck Hlk Hev Hok Hqi Wi Wc Ri Rc Qi Qc Li Lc)
      as (st' & Hr & L1 & L2 & Hu & Ht & Hp & Hc).
    destruct (run_items ci yaml_ok find_iq unit_class input x m k items evs acc secs cur igs cws tms inl cnt err Hlk Hev Hok Wi Wc Ri Rc)
      as (Hrun & W1 & W2).
    pose proof (DiagPlaced.drun_run _ _ _ _ _ _ _ _ _ _ _ _ _ _ _ _ _ _ Hr) as Hrr. cbn [ds_a] in Hrr.
    cbv zeta in Hrun. rewrite Hrun in Hrr. injection Hrr as Hrr.
    destruct st' as [a' il' cl' u' t' p' c']. cbn [ds_a ds_iloc ds_cloc ds_used ds_time ds_prep ds_cook] in *. subst a' u' t' p' c'.
    exists il', cl'. split; [exact Hr|]. cbn [A.a_ingredients A.a_cookware] in L1, L2. auto.
  Qed.

  (* ---------------------------------------------------------------- `>>` entries *)
  Definition tlinked (ts : tstate) (tm pr ck : option (text * text)) : Prop :=
    ts_time ts = E.is_some tm /\ ts_prep ts = E.is_some pr /\ ts_cook ts = E.is_some ck.

  Lemma is_config_bracketed key v : is_config x (BkMeta key v) = modes && bracketed (clean (toks_text key)).
  Proof. unfold is_config, block_config, config_of. destruct (bracketed (clean (toks_text key))); reflexivity. Qed.

  Lemma meta_quiet a il cl used tm pr ck tk tv key v ts :
    text_trimmed tk = clean (toks_text key) -> text_outer_trimmed tv = trim (toks_text v) ->
    qmeta_ok x std_check ts (BkMeta key v) = true -> tlinked ts tm pr ck ->
    exists used' tm' pr' ck',
      D.metadata_diags x std_check (DST a il cl used tm pr ck) tk tv = (DST a il cl used' tm' pr' ck', []) /\
      length used' = (length used + (if is_config x (BkMeta key v) then 0 else 1))%nat /\
      tlinked (next_ts x std_check ts (BkMeta key v)) tm' pr' ck'.
  Proof.
    intros Hk Hv Hq (T1 & T2 & T3). unfold D.metadata_diags. cbv zeta. rewrite Hk, Hv.
    rewrite <- andb_assoc, bracketed_split. unfold qmeta_ok, next_ts in *. rewrite is_config_bracketed in *.
    destruct (modes && bracketed (clean (toks_text key))) eqn:Ecfg.
    - (* a config entry with a documented value *)
      apply andb_true_iff in Ecfg as [_ Ebr].
      exists used, tm, pr, ck. split; [|split; [lia|repeat split; assumption]].
      cbn [block_config] in Hq. unfold config_of in Hq. rewrite Ebr in Hq.
      change A.s_define with w_define. change A.s_mode with w_mode. change A.s_duplicate with w_duplicate.
      change A.s_all with w_all. change A.s_default with w_default. change A.s_components with w_components.
      change A.s_ingredients with w_ingredients. change A.s_steps with w_steps. change A.s_text with w_text.
      change A.s_new with w_new. change A.s_reference with w_reference. change A.s_ref with w_ref.
      rewrite !one_of_2 in Hq.
      destruct (str_eqb (removelast (tl (clean (toks_text key)))) w_define || str_eqb (removelast (tl (clean (toks_text key)))) w_mode).
      + destruct (str_eqb (trim (toks_text v)) w_all || str_eqb (trim (toks_text v)) w_default); [reflexivity|]. cbn [orb].
        destruct (str_eqb (trim (toks_text v)) w_components || str_eqb (trim (toks_text v)) w_ingredients); [reflexivity|]. cbn [orb].
        destruct (str_eqb (trim (toks_text v)) w_steps); [reflexivity|]. cbn [orb].
        destruct (str_eqb (trim (toks_text v)) w_text); [reflexivity|discriminate].
      + destruct (str_eqb (removelast (tl (clean (toks_text key)))) w_duplicate); [|discriminate].
        destruct (str_eqb (trim (toks_text v)) w_new || str_eqb (trim (toks_text v)) w_default); [reflexivity|]. cbn [orb].
        destruct (str_eqb (trim (toks_text v)) w_reference || str_eqb (trim (toks_text v)) w_ref); [reflexivity|discriminate].
    - (* an ordinary entry *)
      cbn [meta_kv] in *. cbn [ds_a ds_iloc ds_cloc ds_used ds_time ds_prep ds_cook].
      destruct (std_key (clean (toks_text key))) as [sk|].
      + apply andb_true_iff in Hq as [Hs Hq]. rewrite Hs. cbn [negb].
        destruct sk.
        * apply andb_true_iff in Hq as [H1 H2]. apply negb_true_iff in H1, H2. rewrite T2 in H1. rewrite T3 in H2.
          destruct pr; [discriminate|]. destruct ck; [discriminate|].
          eexists _, _, _, _. split; [reflexivity|]. split; [rewrite app_length; cbn; lia|]. repeat split.
        * apply negb_true_iff in Hq. rewrite T1 in Hq. destruct tm; [discriminate|].
          eexists _, _, _, _. split; [reflexivity|]. split; [rewrite app_length; cbn; lia|]. repeat split; assumption.
        * apply negb_true_iff in Hq. rewrite T1 in Hq. destruct tm; [discriminate|].
          eexists _, _, _, _. split; [reflexivity|]. split; [rewrite app_length; cbn; lia|]. repeat split; assumption.
        * eexists _, _, _, _. split; [reflexivity|]. split; [rewrite app_length; cbn; lia|]. repeat split; assumption.
      + eexists _, _, _, _. split; [reflexivity|]. split; [rewrite app_length; cbn; lia|].
        destruct (std_check _ _); repeat split; assumption.
  Qed.

  Lemma plain_metas_cons b r :
    length (plain_metas x (b :: r))
    = ((match b with BkMeta _ _ => if is_config x b then 0 else 1 | _ => 0 end) + length (plain_metas x r))%nat.
  Proof.
    unfold plain_metas. cbn [filter]. destruct b; cbn [is_meta_block andb]; try reflexivity.
    destruct (is_config x _); reflexivity.
  Qed.

  (* the quiet class never enters text mode *)
  Lemma qmeta_no_text ts b : qmeta_ok x std_check ts b = true -> to_text x b = false.
  Proof.
    unfold qmeta_ok, is_config, to_text. destruct (A.x_modes x); [|reflexivity]. cbn [andb].
    destruct (block_config b) as [[d|r| |]|]; cbn [E.is_some]; try reflexivity.
    destruct d; try reflexivity. discriminate.
  Qed.

  Lemma quiet_never_text d : forall m ts,
    in_text_mode m = false -> qblocks_ok x std_check is_alnum d m ts = true -> text_reached modes d m = false.
  Proof.
    induction d as [|b r IH]; intros m ts Hm Hq; [reflexivity|]. cbn [qblocks_ok] in Hq. apply andb_true_iff in Hq as [Hb Hq].
    cbn [text_reached]. rewrite Hm. cbn [orb].
    assert (Hm' : in_text_mode (next_mode modes m b) = false).
    { destruct b as [key v|n1 nm n2 tr|items|ls].
      - apply next_mode_no_text; [exact Hm|]. exact (qmeta_no_text ts _ Hb).
      - rewrite (next_mode_other modes m (BkSection n1 nm n2 tr) I). exact Hm.
      - rewrite (next_mode_other modes m (BkStep items) I). exact Hm.
      - rewrite (next_mode_other modes m (BkText ls) I). exact Hm. }
    exact (IH _ _ Hm' Hq).
  Qed.

  (* ---------------------------------------------------------------- documents *)
  Lemma drun_blocks d : forall m k ts evs secs name content igs cws tms inl cnt err il cl used tm pr ck,
    in_text_mode m = false ->
    linked k secs {| A.sec_name := name; A.sec_content := content |} ->
    map ev_proj evs = doc_events d ->
    Forall block_ne d -> ablocks_ok find_iq unit_class x d m k = true ->
    qblocks_ok x std_check is_alnum d m ts = true ->
    tbl_wf igs -> tbl_wf cws ->
    refs_ok ci inherit_igr igs (doc_entries modes is_igr d m k) = true ->
    refs_ok ci inherit_cw cws (doc_entries modes is_cw d m k) = true ->
    quiet_refs ci unit_pq inherit_igr (A.x_advanced x) igs (doc_entries modes is_igr d m k) = true ->
    quiet_refs ci unit_pq inherit_cw false cws (doc_entries modes is_cw d m k) = true ->
    length il = length igs -> length cl = length cws -> tlinked ts tm pr ck ->
    (1 <= cnt)%nat -> N.of_nat (cnt + nsteps d) < 4294967296 ->
    exists st',
      drunF (DST (ST m secs {| A.sec_name := name; A.sec_content := content |} igs cws tms inl None cnt err) il cl used tm pr ck) evs
      = Done (st', []) /\
      length (ds_used st') = (length used + length (plain_metas x d))%nat.
  Proof.
    induction d as [|b r IH]; intros m k ts evs secs name content igs cws tms inl cnt err il cl used tm pr ck
      Hm Hlk Hev Hne Hok Hqb Wi Wc Ri Rc Qi Qc Li Lc Htl Hc1 Hcb.
    - destruct evs; [|discriminate]. eexists. split; [reflexivity|]. cbn. lia.
    - unfold doc_events in Hev. cbn [map concat] in Hev. fold (doc_events r) in Hev.
      apply map_eq_app in Hev as (e1 & e2 & -> & He1 & He2).
      inversion Hne as [|? ? Hb Hne']; subst. cbn [ablocks_ok] in Hok. apply andb_true_iff in Hok as [Hbok Hok].
      cbn [qblocks_ok] in Hqb. apply andb_true_iff in Hqb as [Hqb1 Hqb].
      cbn [doc_entries] in Ri, Rc, Qi, Qc. rewrite Hm in Ri, Rc, Qi, Qc.
      rewrite nsteps_cons in Hcb. rewrite plain_metas_cons.
      pose proof (linked_next m k b secs name content Hlk) as Hlk'.
      set (cur := {| A.sec_name := name; A.sec_content := content |}) in *.
      destruct b as [key v | n1 nm n2 trail | items | ls]; cbn [denote_block block_comps app filter map] in He1, Ri, Rc, Qi, Qc.
      + (* `>>` entry *)
        destruct e1 as [|e [|? ?]]; try discriminate. cbn [map] in He1. injection He1 as He.
        destruct (proj_meta e _ _ He) as (tk & tv & -> & Hk & Hv).
        cbn [ablock_ok] in Hbok.
        destruct (meta_quiet (ST m secs cur igs cws tms inl None cnt err) il cl used tm pr ck tk tv key v ts Hk Hv Hqb1 Htl)
          as (used' & tm' & pr' & ck' & Hmd & Hlen & Htl').
        assert (Hds : dstepF (DST (ST m secs cur igs cws tms inl None cnt err) il cl used tm pr ck) (EvMetadata tk tv)
                      = Done (DST (ST (next_mode modes m (BkMeta key v)) secs cur igs cws tms inl None cnt err) il cl used' tm' pr' ck', [])).
        { unfold D.dstep. cbn [ds_a A.a_halted abstract_event]. unfold A.step. cbn [A.a_halted].
          rewrite (metadata_sim x m secs cur igs cws tms inl None cnt err tk tv key v Hk Hv Hbok). cbn [obind].
          unfold D.ediags, D.dupd. rewrite Hmd. cbn [fst snd obind ds_iloc ds_cloc ds_used ds_time ds_prep ds_cook]. reflexivity. }
        destruct (IH _ k _ e2 secs name content igs cws tms inl cnt err il cl used' tm' pr' ck'
                    (next_mode_no_text x m _ Hm (qmeta_no_text ts _ Hqb1)) Hlk' He2 Hne' Hok Hqb Wi Wc Ri Rc Qi Qc Li Lc Htl' Hc1) as (st' & Hr & Hl).
        { cbn [Nat.add] in Hcb. exact Hcb. }
        exists st'. split; [exact (drun_cons_quiet _ _ _ _ _ Hds Hr)|]. rewrite Hl, Hlen. lia.
      + (* section line *)
        rewrite (next_mode_other modes m (BkSection n1 nm n2 trail) I) in *.
        destruct e1 as [|e [|? ?]]; try discriminate. cbn [map] in He1. injection He1 as He.
        destruct (proj_section e _ He) as (tn & -> & Hn).
        assert (Hds : dstepF (DST (ST m secs cur igs cws tms inl None cnt err) il cl used tm pr ck) (EvSection (Some tn))
                      = Done (DST (ST m (secs ++ close_section name content) {| A.sec_name := Some (clean (toks_text nm)); A.sec_content := [] |}
                                     igs cws tms inl None 1%nat err) il cl used tm pr ck, [])).
        { unfold D.dstep. cbn [ds_a A.a_halted abstract_event option_map]. unfold A.step. cbn [A.a_halted obind].
          unfold A.set_sections. cbn [A.a_sections A.a_cur A.a_ingredients A.a_cookware A.a_timers A.a_inline A.a_define A.a_duplicate
                                      A.a_block A.a_counter A.a_errors A.a_halted option_map].
          rewrite R.trimmed_abstract, Hn.
          change (A.pushed_sections (ST m secs cur igs cws tms inl None cnt err)) with (pushed secs cur).
          unfold cur. rewrite pushed_close. reflexivity. }
        destruct (IH m _ (next_ts x std_check ts (BkSection n1 nm n2 trail)) e2 (secs ++ close_section name content) (Some (clean (toks_text nm))) []
                    igs cws tms inl 1%nat err il cl used tm pr ck
                    Hm Hlk' He2 Hne' Hok Hqb Wi Wc Ri Rc Qi Qc Li Lc Htl (le_n 1)) as (st' & Hr & Hl).
        { cbn [Nat.add] in Hcb. lia. }
        exists st'. split; [exact (drun_cons_quiet _ _ _ _ _ Hds Hr)|]. rewrite Hl. lia.
      + (* step block *)
        rewrite (next_mode_other modes m (BkStep items) I) in *.
        cbn [block_ne] in Hb. cbn [ablock_ok] in Hbok. rewrite Hm in Hbok. cbn [orb] in Hbok.
        destruct e1 as [|es e1]; [discriminate|]. cbn [map] in He1. injection He1 as Hes He1.
        apply map_eq_app in He1 as (em & ee & -> & Hem & Hee).
        destruct ee as [|ee [|? ?]]; try discriminate. cbn [map] in Hee. injection Hee as Hee.
        rewrite (proj_start es _ Hes), (proj_end ee _ Hee).
        rewrite refs_ok_app in Ri, Rc. apply andb_true_iff in Ri as [Ri1 Ri2]. apply andb_true_iff in Rc as [Rc1 Rc2].
        rewrite quiet_refs_app in Qi, Qc. apply andb_true_iff in Qi as [Qi1 Qi2]. apply andb_true_iff in Qc as [Qc1 Qc2].
        assert (Hds : dstepF (DST (ST m secs cur igs cws tms inl None cnt err) il cl used tm pr ck) (EvStart true)
                      = Done (DST (ST m secs cur igs cws tms inl (Some (A.BStep [])) cnt err) il cl used tm pr ck, [])).
        { unfold D.dstep. cbn [ds_a A.a_halted abstract_event abstract_kind]. unfold A.step. cbn [A.a_halted A.a_define].
          rewrite dm_text, Hm. reflexivity. }
        destruct (drun_items_state m k items em [] secs cur igs cws tms inl cnt err il cl used tm pr ck
                    Hlk Hem Hbok Hqb1 Wi Wc Ri1 Rc1 Qi1 Qc1 Li Lc) as (il' & cl' & Hit & Li' & Lc' & Wi' & Wc').
        cbv zeta in Hit, Li', Lc', Wi', Wc'. cbn [app] in Hit.
        set (igs' := table ci inherit_igr igs (map (mk_entry m k) (filter is_igr (item_comps items)))) in *.
        set (cws' := table ci inherit_cw cws (map (mk_entry m k) (filter is_cw (item_comps items)))) in *.
        set (tms' := tms ++ map raw_timer (filter is_tm (item_comps items))) in *.
        set (K' := snd (mitems find_iq (A.x_inline x) (in_components m) items (kcnt igs cws tms inl))) in *.
        set (IT := fst (mitems find_iq (A.x_inline x) (in_components m) items (kcnt igs cws tms inl))) in *.
        destruct Hlk' as [Hlkc [Hlkn _]].
        destruct (mode_cases m Hm) as [[Ecm Edm]|[Ecm Edm]].
        * (* components mode *)
          assert (Hde : dstepF (DST (ST m secs cur igs' cws' tms' (n_q K') (Some (A.BStep IT)) cnt err) il' cl' used tm pr ck) (EvEnd true)
                        = Done (DST (ST m secs cur igs' cws' tms' (n_q K') None cnt err) il' cl' used tm pr ck, [])).
          { unfold D.dstep. cbn [ds_a A.a_halted abstract_event abstract_kind]. unfold A.step. cbn [A.a_halted].
            unfold A.end_block. cbn [A.a_block E.block_kind_eqb]. unfold A.finish_block. cbn [A.a_define A.is_text A.is_step].
            rewrite dm_components, Ecm. cbn [negb orb]. rewrite andb_false_r. reflexivity. }
          destruct (IH m _ (next_ts x std_check ts (BkStep items)) e2 secs name content igs' cws' tms' (n_q K') cnt err il' cl' used tm pr ck
                      Hm (Hlkc Ecm) He2 Hne' Hok Hqb Wi' Wc' Ri2 Rc2 Qi2 Qc2 Li' Lc' Htl Hc1) as (st' & Hr & Hl); [lia|].
          exists st'. split; [|rewrite Hl; lia].
          cbn [app]. rewrite <- app_assoc. cbn [app]. apply (drun_cons_quiet _ _ _ _ _ Hds).
          apply (drun_app_quiet em _ (EvEnd true :: e2) _ st' Hit). exact (drun_cons_quiet _ _ _ _ _ Hde Hr).
        * (* all / steps mode *)
          assert (Hde : dstepF (DST (ST m secs cur igs' cws' tms' (n_q K') (Some (A.BStep IT)) cnt err) il' cl' used tm pr ck) (EvEnd true)
                        = Done (DST (ST m secs {| A.sec_name := name; A.sec_content := content ++ [A.CStep {| A.st_items := IT; A.st_number := cnt |}] |}
                                       igs' cws' tms' (n_q K') None (S cnt) err) il' cl' used tm pr ck, [])).
          { unfold D.dstep. cbn [ds_a A.a_halted abstract_event abstract_kind]. unfold A.step. cbn [A.a_halted].
            unfold A.end_block. cbn [A.a_block E.block_kind_eqb A.a_counter]. unfold A.finish_block, A.skipped.
            cbn [A.cfgF A.skip_empty_step A.st_items A.is_step A.is_text A.a_define andb negb orb].
            rewrite dm_components, Ecm. cbn [negb orb andb].
            rewrite (is_nil_ne IT (bitems_ne find_iq unit_class x m k items (kcnt igs cws tms inl) Ecm Hb Hbok)). cbn [negb andb].
            cbn [A.a_counter]. destruct (N.leb_spec 4294967295 (N.of_nat cnt)) as [Hov|_]; [lia|]. reflexivity. }
          destruct (IH m _ (next_ts x std_check ts (BkStep items)) e2 secs name (content ++ [A.CStep {| A.st_items := IT; A.st_number := cnt |}])
                      igs' cws' tms' (n_q K') (S cnt) err il' cl' used tm pr ck
                      Hm (Hlkn Ecm Hm _) He2 Hne' Hok Hqb Wi' Wc' Ri2 Rc2 Qi2 Qc2 Li' Lc' Htl) as (st' & Hr & Hl); [lia|lia|].
          exists st'. split; [|rewrite Hl; lia].
          cbn [app]. rewrite <- app_assoc. cbn [app]. apply (drun_cons_quiet _ _ _ _ _ Hds).
          apply (drun_app_quiet em _ (EvEnd true :: e2) _ st' Hit). exact (drun_cons_quiet _ _ _ _ _ Hde Hr).
      + (* text block *)
        rewrite (next_mode_other modes m (BkText ls) I) in *.
        cbn [block_ne] in Hb.
        destruct e1 as [|es e1]; [discriminate|]. cbn [map] in He1. injection He1 as Hes He1.
        apply map_eq_app in He1 as (em & ee & -> & Hem & Hee).
        destruct ee as [|ee [|? ?]]; try discriminate. cbn [map] in Hee. injection Hee as Hee.
        rewrite (proj_start es _ Hes), (proj_end ee _ Hee).
        assert (Hds : dstepF (DST (ST m secs cur igs cws tms inl None cnt err) il cl used tm pr ck) (EvStart false)
                      = Done (DST (ST m secs cur igs cws tms inl (Some (A.BText [])) cnt err) il cl used tm pr ck, [])).
        { unfold D.dstep. cbn [ds_a A.a_halted abstract_event abstract_kind]. unfold A.step. cbn [A.a_halted A.a_define].
          rewrite dm_text, Hm. reflexivity. }
        assert (Hit : drunF (DST (ST m secs cur igs cws tms inl (Some (A.BText [])) cnt err) il cl used tm pr ck) em
                      = Done (DST (ST m secs cur igs cws tms inl (Some (A.BText (tlines_text ls))) cnt err) il cl used tm pr ck, [])).
        { exact (drun_tlines m ls em [] secs cur igs cws tms inl cnt err il cl used tm pr ck Hem). }
        assert (Hde : dstepF (DST (ST m secs cur igs cws tms inl (Some (A.BText (tlines_text ls))) cnt err) il cl used tm pr ck) (EvEnd false)
                      = Done (DST (ST m secs {| A.sec_name := name; A.sec_content := content ++ [A.CText (tlines_text ls)] |}
                                     igs cws tms inl None cnt err) il cl used tm pr ck, [])).
        { unfold D.dstep. cbn [ds_a A.a_halted abstract_event abstract_kind]. unfold A.step. cbn [A.a_halted].
          unfold A.end_block. cbn [A.a_block E.block_kind_eqb orb]. unfold A.finish_block, A.skipped.
          cbn [A.cfgF A.skip_empty_text A.is_step A.is_text A.a_define andb negb orb].
          rewrite (is_nil_ne _ Hb). rewrite orb_true_r. reflexivity. }
        destruct (IH m _ (next_ts x std_check ts (BkText ls)) e2 secs name (content ++ [A.CText (tlines_text ls)]) igs cws tms inl cnt err
                    il cl used tm pr ck Hm (Hlk' _) He2 Hne' Hok Hqb Wi Wc Ri Rc Qi Qc Li Lc Htl Hc1) as (st' & Hr & Hl).
        { cbn [Nat.add] in Hcb. exact Hcb. }
        exists st'. split; [|rewrite Hl; lia].
        cbn [app]. rewrite <- app_assoc. cbn [app]. apply (drun_cons_quiet _ _ _ _ _ Hds).
        apply (drun_app_quiet em _ (EvEnd false :: e2) _ st' Hit). exact (drun_cons_quiet _ _ _ _ _ Hde Hr).
  Qed.

  (* ---------------------------------------------------------------- through parse_events *)
  Definition not_diag (e : pevent) : bool := match e with EvDiag _ => false | _ => true end.

  Lemma quiet_specs_no_diag evs : forallb spec_quiet (map ev_proj evs) = true -> forallb not_diag evs = true.
  Proof.
    induction evs as [|e r IH]; [reflexivity|]. cbn [map forallb]. intro H. apply andb_true_iff in H as [He Hr].
    rewrite (IH Hr), andb_true_r. destruct e; try reflexivity. discriminate He.
  Qed.

  Lemma printed_no_diag d evs : map ev_proj evs = doc_events d -> forallb not_diag evs = true.
  Proof.
    intro H. apply quiet_specs_no_diag. rewrite H.
    assert (Hp : meta_plain false d = true).
    { unfold meta_plain. apply forallb_forall. intros b _. destruct b; reflexivity. }
    exact (proj1 (doc_events_meta false d Hp)).
  Qed.

  Local Notation astepF := (D.astep ci yaml_ok find_iq unit_class input x A.cfgF dc yaml_err_index yaml_std_bad yaml_has_key std_check is_alnum unit_pq).

  Lemma collect_quiet dbg evs : forall st ctx st',
    r_tag ctx = None -> forallb not_diag evs = true -> drunF st evs = Done (st', []) ->
    collect dstate astepF D.afinish dbg st ctx evs
    = Done {| pr_output := Some st'; pr_report := {| r_buf := r_buf ctx ++ map D.to_sdiag (D.dfinish st'); r_tag := None |} |}.
  Proof.
    induction evs as [|e r IH]; intros st ctx st' Ht Hn Hr.
    - cbn in Hr. injection Hr as <-. cbn [collect]. unfold D.afinish. rewrite (DiagProofs.push_all_none dbg _ ctx Ht). reflexivity.
    - cbn [forallb] in Hn. apply andb_true_iff in Hn as [He Hn]. cbn [D.drun] in Hr.
      destruct (dstepF st e) as [[st1 d1]|] eqn:E1; [|discriminate]. cbn [obind fst snd] in Hr.
      destruct (drunF st1 r) as [[st2 d2]|] eqn:E2; [|discriminate]. cbn [obind fst snd] in Hr. injection Hr as <- Hd.
      apply app_eq_nil in Hd as [-> ->].
      assert (Ha : astepF st e = Done (st1, [])) by (unfold D.astep; rewrite E1; reflexivity).
      destruct e; try discriminate He; cbn [collect]; rewrite Ha; cbn [obind fst snd push_all]; exact (IH st1 ctx st2 Ht Hn E2).
  Qed.

  (* the report holds nothing but the deprecation notice with n labels (n = 0: nothing at all) *)
  Definition notice_only (n : nat) (ds : list sdiag) : Prop :=
    match n with
    | O => ds = []
    | S _ => exists w, ds = [w] /\ sd_sev w = SevWarning /\ sd_stage w = StAnalysis /\ length (sd_labels w) = n
    end.

  Lemma dfinish_notice st : notice_only (length (ds_used st)) (map D.to_sdiag (D.dfinish st)).
  Proof.
    unfold D.dfinish. destruct (ds_used st) as [|u us]; [reflexivity|]. cbn [length notice_only map].
    eexists. split; [reflexivity|]. unfold D.to_sdiag. cbn [sd_sev sd_stage sd_labels D.ad_is_error D.mk D.ad_kind D.kind_is_error D.ad_labels].
    split; [reflexivity|]. split; [reflexivity|]. cbn [map length]. rewrite !map_length. reflexivity.
  Qed.

  Theorem printed_doc_sound U cfg d tp :
    doc_ok U cfg d tp = true -> adoc_ok ci find_iq unit_class x d = true ->
    quiet_doc ci x std_check is_alnum unit_pq d = true ->
    exists res st,
      Diag.parse U cfg dstate astepF D.afinish D.dinit (print_doc d tp) = Done res /\
      pr_output res = Some st /\
      A.output (ds_a st) = Some (denote ci find_iq (A.x_inline x) (A.x_modes x) d) /\
      Diag.is_valid res = true /\
      notice_only (length (plain_metas x d)) (diags res).
  Proof.
    intros Hd Ha Hq. destruct (RoundTripPrintDoc.events_print_doc U cfg d tp Hd) as (evs & Hev & Hp).
    assert (Hbl : Forall (fun b => block_ok cfg b = true) d).
    { unfold doc_ok in Hd. apply andb_true_iff in Hd as [Hd _]. unfold body_ok in Hd. apply andb_true_iff in Hd as [_ Hb].
      exact (blocks_ok_forall cfg d tp 0%nat Hb). }
    pose proof Ha as Ha'. unfold adoc_ok in Ha'. apply andb_true_iff in Ha' as [Hok Hn]. apply andb_true_iff in Hok as [Hok Rc].
    apply andb_true_iff in Hok as [Hok Ri]. apply N.ltb_lt in Hn.
    unfold quiet_doc in Hq. apply andb_true_iff in Hq as [Hq Qc]. apply andb_true_iff in Hq as [Hqb Qi].
    assert (Hne : Forall block_ne d) by (eapply Forall_impl; [|exact Hbl]; intros b; apply block_ok_ne).
    assert (Hlk : linked ictx0 [] {| A.sec_name := None; A.sec_content := [] |}) by (repeat split).
    destruct (drun_blocks d mode0 ictx0 ts0 evs [] None [] [] [] [] 0%nat 1%nat false [] [] [] None None None
                eq_refl Hlk Hp Hne Hok Hqb (Forall_nil _) (Forall_nil _) Ri Rc Qi Qc eq_refl eq_refl) as (st & Hr & Hl);
      [repeat split|lia|lia|].
    change (Build_dstate _ [] [] [] None None None) with D.dinit in Hr. cbn [length Nat.add] in Hl.
    pose proof (collect_quiet (p_debug cfg) evs D.dinit report_empty st eq_refl (printed_no_diag d evs Hp) Hr) as Hc.
    eexists _, st. unfold Diag.parse. rewrite Hev. cbn [obind]. unfold Diag.parse_events. split; [exact Hc|].
    split; [reflexivity|]. split; [|split].
    - pose proof (DiagPlaced.drun_run _ _ _ _ _ _ _ _ _ _ _ _ _ _ _ _ _ _ Hr) as Hrun. cbn [ds_a D.dinit] in Hrun.
      assert (Hnt : text_reached modes d mode0 = true -> Forall2 (src_ok input) evs (doc_srcs d) /\ strips d)
        by (intro Ht; rewrite (quiet_never_text d mode0 ts0 eq_refl Hqb) in Ht; discriminate).
      pose proof (analyse_denote ci yaml_ok find_iq unit_class input x cfg d evs Hp Hnt Hbl Ha) as Han.
      unfold A.analyse in Han. rewrite Hrun in Han. cbn [obind] in Han. injection Han as Han _. exact Han.
    - unfold Diag.is_valid, has_output, has_errors. cbn [pr_output pr_report r_tag r_buf report_empty app andb].
      rewrite DiagPlaced.sd_error_to_sdiag, DiagPlaced.dfinish_warn. reflexivity.
    - unfold diags. cbn [pr_report r_buf report_empty app]. rewrite <- Hl. apply dfinish_notice.
  Qed.

  (* ---------------------------------------------------------------- behind a front matter *)
  Lemma plain_metas_none d : forallb (fun b => negb (is_meta_block b)) d = true -> plain_metas x d = [].
  Proof.
    unfold plain_metas. induction d as [|b r IH]; [reflexivity|]. cbn [forallb filter]. intro H.
    apply andb_true_iff in H as [Hb Hr]. apply negb_true_iff in Hb. rewrite Hb. cbn [andb]. exact (IH Hr).
  Qed.

  (* the front matter is accepted by serde_yaml, every standard key in it has an accepted value, and `time` does
     not come with `prep time` / `cook time` (the three oracles of Model/AnalysisDiag.v) *)
  Definition fm_quiet (y : str) : bool :=
    yaml_ok y && E.is_nil (yaml_std_bad y) &&
    negb (yaml_has_key y s_time && (yaml_has_key y s_prep_time || yaml_has_key y s_cook_time)).

  Theorem printed_fm_doc_sound U cfg y ft d tp :
    fm_doc_ok U cfg y ft d tp = true -> adoc_ok ci find_iq unit_class x d = true ->
    quiet_doc ci x std_check is_alnum unit_pq d = true -> fm_quiet y = true ->
    exists res st,
      Diag.parse U cfg dstate astepF D.afinish D.dinit (print_fm_doc y ft d tp) = Done res /\
      pr_output res = Some st /\
      A.output (ds_a st) = Some (denote ci find_iq (A.x_inline x) (A.x_modes x) d) /\
      Diag.is_valid res = true /\ diags res = [].
  Proof.
    intros Hd Ha Hq Hy. destruct (RoundTripPrintDoc.events_print_fm_doc U cfg y ft d tp Hd) as (evs0 & Hev & Hp0).
    unfold fm_doc_events in Hp0. destruct evs0 as [|e evs]; [discriminate|]. cbn [map] in Hp0. injection Hp0 as He Hp.
    destruct e as [t| | | | | | | | |]; try discriminate. cbn [ev_proj] in He. injection He as He.
    assert (Hbl : Forall (fun b => block_ok cfg b = true) d).
    { unfold fm_doc_ok in Hd. apply andb_true_iff in Hd as [_ Hb]. unfold body_ok in Hb. apply andb_true_iff in Hb as [_ Hb].
      exact (blocks_ok_forall cfg d tp 0%nat Hb). }
    assert (Hnm : plain_metas x d = []).
    { apply plain_metas_none. unfold fm_doc_ok in Hd. apply andb_true_iff in Hd as [Hd _]. apply andb_true_iff in Hd as [_ Hd]. exact Hd. }
    pose proof Ha as Ha'. unfold adoc_ok in Ha'. apply andb_true_iff in Ha' as [Hok Hn]. apply andb_true_iff in Hok as [Hok Rc].
    apply andb_true_iff in Hok as [Hok Ri]. apply N.ltb_lt in Hn.
    unfold quiet_doc in Hq. apply andb_true_iff in Hq as [Hq Qc]. apply andb_true_iff in Hq as [Hqb Qi].
    assert (Hne : Forall block_ne d) by (eapply Forall_impl; [|exact Hbl]; intros b; apply block_ok_ne).
    assert (Hlk : linked ictx0 [] {| A.sec_name := None; A.sec_content := [] |}) by (repeat split).
    unfold fm_quiet in Hy. apply andb_true_iff in Hy as [Hy Hyt]. apply andb_true_iff in Hy as [Hyok Hyb]. apply negb_true_iff in Hyt.
    assert (Hds : dstepF D.dinit (EvYaml t) = Done (D.dinit, [])).
    { unfold D.dstep. cbn [ds_a D.dinit A.init A.a_halted abstract_event]. unfold A.step. cbn [A.a_halted].
      rewrite ParserShape.text_str_abstract, He, Hyok. cbn [negb obind]. unfold D.ediags, D.frontmatter_diags. cbv zeta.
      rewrite He, Hyok. cbn [negb]. destruct (yaml_std_bad y); [|discriminate]. cbn [D.std_bad_diags obind].
      destruct (yaml_has_key y s_time); cbn [andb] in Hyt.
      - apply orb_false_iff in Hyt as [-> ->]. reflexivity.
      - reflexivity. }
    destruct (drun_blocks d mode0 ictx0 ts0 evs [] None [] [] [] [] 0%nat 1%nat false [] [] [] None None None
                eq_refl Hlk Hp Hne Hok Hqb (Forall_nil _) (Forall_nil _) Ri Rc Qi Qc eq_refl eq_refl) as (st & Hr & Hl);
      [repeat split|lia|lia|].
    change (Build_dstate _ [] [] [] None None None) with D.dinit in Hr. rewrite Hnm in Hl. cbn [length Nat.add] in Hl.
    pose proof (drun_cons_quiet _ _ _ _ _ Hds Hr) as Hr'.
    assert (Hnd : forallb not_diag (EvYaml t :: evs) = true) by (cbn [forallb not_diag andb]; exact (printed_no_diag d evs Hp)).
    pose proof (collect_quiet (p_debug cfg) _ D.dinit report_empty st eq_refl Hnd Hr') as Hc.
    eexists _, st. unfold Diag.parse. rewrite Hev. cbn [obind]. unfold Diag.parse_events. split; [exact Hc|].
    split; [reflexivity|]. split; [|split].
    - pose proof (DiagPlaced.drun_run _ _ _ _ _ _ _ _ _ _ _ _ _ _ _ _ _ _ Hr') as Hrun. cbn [ds_a D.dinit] in Hrun.
      assert (Hpf : map ev_proj (EvYaml t :: evs) = fm_doc_events y d) by (unfold fm_doc_events; cbn [map ev_proj]; rewrite He, Hp; reflexivity).
      assert (Hnt : text_reached modes d mode0 = true -> Forall2 (src_ok input) (EvYaml t :: evs) (None :: doc_srcs d) /\ strips d)
        by (intro Ht; rewrite (quiet_never_text d mode0 ts0 eq_refl Hqb) in Ht; discriminate).
      pose proof (analyse_denote_fm ci yaml_ok find_iq unit_class input x cfg y d _ Hpf Hnt Hbl Ha) as Han.
      unfold A.analyse in Han. rewrite Hrun in Han. cbn [obind] in Han. injection Han as Han _. exact Han.
    - unfold Diag.is_valid, has_output, has_errors. cbn [pr_output pr_report r_tag r_buf report_empty app andb].
      rewrite DiagPlaced.sd_error_to_sdiag, DiagPlaced.dfinish_warn. reflexivity.
    - unfold diags. cbn [pr_report r_buf report_empty app]. unfold D.dfinish.
      destruct (ds_used st); [reflexivity|discriminate Hl].
  Qed.

End Sound.

(* ---------------------------------------------------------------- the hypotheses are satisfiable
     >> servings: 2
     >> [mode]: components
     @salt{1%g} - #pot{ }
     >> [mode]: steps
     Add @salt and @+pepper{2%g} in #pot.
     >> [duplicate]: reference
     >> [mode]: default
     Mix @flour{1%g} then @flour{2%g} ~{5%min}.
   is in the three classes under every extension (oracles: ASCII letters and digits are alphanumeric, `g` a mass unit,
   `min` a time unit, every standard value accepted); one `>>` entry is not a config entry, so the report is the
   deprecation notice with one label.  Replayed on the implementation (extensions all, bundled units): valid, one
   warning "The '>>' syntax for metadata is deprecated" with one label, same recipe. *)
From CL Require Gen.CharClass.
Module Ex.
  Definition sp : ptok := (KWs, [32]).
  Definition nl : ptok := (KNewline, [10]).
  Definition wd (s : str) : ptok := (KWord, s).
  Definition lb : ptok := (KPunct, [91]).
  Definition rb : ptok := (KPunct, [93]).
  Definition dot : ptok := (KDot, [46]).
  Definition tape0 : qtape :=
    {| q_lead := []; q_after_lock := []; q_ta := {| n_gap := []; n_bs := []; n_as := [] |};
       q_tb := {| n_gap := []; n_bs := []; n_as := [] |}; q_bd := []; q_ad := []; q_trail := [];
       q_after_pct := []; q_end := []; q_adv := None |}.
  Definition k_mode : list ptok := [sp; lb; wd [109; 111; 100; 101]; rb].
  Definition k_duplicate : list ptok := [sp; lb; wd [100; 117; 112; 108; 105; 99; 97; 116; 101]; rb].
  Definition c_named (k : ckind) (ms : list mitem) (name : str) : cspec :=
    {| cs_kind := k; cs_mods := ms; cs_name := [wd name]; cs_alias := None; cs_body := BWord; cs_note := None |}.
  Definition c_qty (k : ckind) (ms : list mitem) (name : list ptok) (digits unit : str) : cspec :=
    {| cs_kind := k; cs_mods := ms; cs_name := name; cs_alias := None;
       cs_body := BQty {| qs_val := QNum (SInt digits); qs_lock := false; qs_unit := Some [wd unit] |} tape0; cs_note := None |}.
  Definition s_salt : str := [115; 97; 108; 116].
  Definition s_pot : str := [112; 111; 116].
  Definition s_flour : str := [102; 108; 111; 117; 114].
  Definition doc : list block :=
    [BkMeta [sp; wd [115; 101; 114; 118; 105; 110; 103; 115]] [sp; (KInt, [50])];
     BkMeta k_mode [sp; wd [99; 111; 109; 112; 111; 110; 101; 110; 116; 115]];
     BkStep [IComp (c_qty CIgr [] [wd s_salt] [49] [103]); IText [sp; (KMinus, [45]); sp];
             IComp {| cs_kind := CCw; cs_mods := []; cs_name := [wd s_pot]; cs_alias := None; cs_body := BEmpty [sp]; cs_note := None |}];
     BkMeta k_mode [sp; wd [115; 116; 101; 112; 115]];
     BkStep [IText [wd [65; 100; 100]; sp]; IComp (c_named CIgr [] s_salt); IText [sp; wd [97; 110; 100]; sp];
             IComp (c_qty CIgr [MC KPlus] [wd [112; 101; 112; 112; 101; 114]] [50] [103]); IText [sp; wd [105; 110]; sp];
             IComp (c_named CCw [] s_pot); IText [dot]];
     BkMeta k_duplicate [sp; wd [114; 101; 102; 101; 114; 101; 110; 99; 101]];
     BkMeta k_mode [sp; wd [100; 101; 102; 97; 117; 108; 116]];
     BkStep [IText [wd [77; 105; 120]; sp]; IComp (c_qty CIgr [] [wd s_flour] [49] [103]); IText [sp; wd [116; 104; 101; 110]; sp];
             IComp (c_qty CIgr [] [wd s_flour] [50] [103]); IText [sp]; IComp (c_qty CTm [] [] [53] [109; 105; 110]); IText [dot]]].
  Definition tape : dtape := {| dt_lead := []; dt_nl := fun _ => nl; dt_sep := fun _ => []; dt_final := true |}.
  Definition cfg_all : pcfg :=
    {| p_ext := X_ALL; p_debug := true; p_strict_escape := false; p_note_label_old := false; p_fm_anywhere := false |}.
  Definition x_all : A.aext := {| A.x_modes := true; A.x_inline := true; A.x_advanced := true |}.
  Definition uclass (u : str) : N := if str_eqb u [109; 105; 110] then 1 else 2.
  Definition upq (u : str) : option N := if str_eqb u [103] then Some 0 else if str_eqb u [109; 105; 110] then Some 1 else None.
  Definition alnum (c : N) : bool := ((48 <=? c) && (c <=? 57)) || ((65 <=? c) && (c <=? 90)) || ((97 <=? c) && (c <=? 122)).

  Example ex_printed_doc :
    doc_ok Gen.CharClass.U cfg_all doc tape = true /\
    adoc_ok (fun s => s) (fun _ => None) uclass x_all doc = true /\
    quiet_doc (fun s => s) x_all (fun _ _ => true) alnum upq doc = true /\
    length (plain_metas x_all doc) = 1%nat.
  Proof. vm_compute. repeat split. Qed.

  (* each clause of [quiet_doc] excludes something: a `+` in the default mode, a lock on a cookware quantity,
     a letter in the omitted text of a components-mode block *)
  Definition doc_plus : list block := [BkStep [IText [wd [65; 100; 100]; sp]; IComp (c_named CIgr [MC KPlus] s_salt); IText [dot]]].
  Definition doc_letter : list block :=
    [BkMeta k_mode [sp; wd [99; 111; 109; 112; 111; 110; 101; 110; 116; 115]];
     BkStep [IComp (c_qty CIgr [] [wd s_salt] [49] [103]); IText [sp; wd [97]]]].
  Example ex_not_quiet :
    (adoc_ok (fun s => s) (fun _ => None) uclass x_all doc_plus, quiet_doc (fun s => s) x_all (fun _ _ => true) alnum upq doc_plus) = (true, false) /\
    (adoc_ok (fun s => s) (fun _ => None) uclass x_all doc_letter, quiet_doc (fun s => s) x_all (fun _ _ => true) alnum upq doc_letter) = (true, false).
  Proof. vm_compute. split; reflexivity. Qed.
End Ex.
