(* Property C17, event level: the block-level functions of Model/Parser.v map [ksim]-related
   token states to [proj]-equal events (relational reading, see Proofs/EditSimDefs.v). *)
From CL Require Import Base.StrLemmas Model.Lexer Model.PText Model.CommentMask Model.Parser Model.Edits
  Proofs.EditParserProofs Proofs.EditSimDefs.

(* one step: split a bind, solve the first computation with a known lemma *)
Ltac mr_prim :=
  first [ apply MR_peek | apply MR_rest | apply MR_all_tokens | apply MR_parsed | apply MR_current_offset
        | apply MR_next_token | apply MR_bump_any | apply MR_bump | apply MR_consume | apply MR_at_kind
        | apply MR_until | apply MR_consume_while | apply MR_ws_comments | apply MR_consume_rest
        | apply MR_error | apply MR_warn | apply MR_get
        | (apply MR_textM; assumption) ].
Ltac mr_bind := eapply MR_bind; [mr_prim|].

Section Blocks.
  Variable cfg : pcfg.

  (* metadata_entry returns a metadata event with related key and value *)
  Definition mdrel (e1 e2 : pevent) : Prop :=
    match e1, e2 with
    | EvMetadata k1 v1, EvMetadata k2 v2 => trel k1 k2 /\ trel v1 v2
    | _, _ => False
    end.
  Lemma mdrel_erel e1 e2 : mdrel e1 e2 -> erel e1 e2.
  Proof.
    destruct e1, e2; cbn; try contradiction. intros [H1 H2]. unfold erel. cbn.
    rewrite (trel_tx _ _ H1), (trel_outer _ _ H2). reflexivity.
  Qed.

  Lemma metadata_entry_rel : MR (orel mdrel) (metadata_entry cfg) (metadata_entry cfg).
  Proof.
    unfold metadata_entry. eapply MR_obindM; [apply MR_consume|]. intros m1 m2 _.
    mr_bind. intros kp1 kp2 _. mr_bind. intros [k1|] [k2|] Hk; cbn in Hk; try contradiction.
    - eapply MR_bind; [apply MR_textM; exact Hk|]. intros key1 key2 Hkey.
      mr_bind. intros c1 c2 _. mr_bind. intros vp1 vp2 _. mr_bind. intros v1 v2 Hv.
      eapply MR_bind; [apply MR_textM; exact Hv|]. intros val1 val2 Hval.
      eapply MR_bind.
      + rewrite (trel_empty _ _ Hkey), (trel_empty _ _ Hval).
        destruct (is_text_empty key2); [apply MR_error|]. destruct (is_text_empty val2); [apply MR_warn|].
        apply MR_ret. exact I.
      + intros _ _ _. apply MR_ret. cbn. split; assumption.
    - mr_bind. intros a1 a2 _. eapply MR_bind; [apply MR_warn|]. intros _ _ _. apply MR_ret. exact I.
  Qed.

  Lemma section_rel : MR (orel erel) (section_p cfg) (section_p cfg).
  Proof.
    unfold section_p. eapply MR_obindM; [apply MR_consume|]. intros e1 e2 _.
    mr_bind. intros x1 x2 _. mr_bind. intros np1 np2 _. mr_bind. intros n1 n2 Hn.
    eapply MR_bind; [apply MR_textM; exact Hn|]. intros name1 name2 Hname.
    mr_bind. intros y1 y2 _. mr_bind. intros w1 w2 _. mr_bind. intros r1 r2 Hr.
    destruct Hr as [|a b r1 r2 Hab Hr].
    - apply MR_ret. cbn. unfold erel. cbn. rewrite (trel_empty _ _ Hname).
      destruct (is_text_empty name2); [reflexivity|]. cbn. rewrite (trel_tx _ _ Hname). reflexivity.
    - eapply MR_bind; [apply MR_warn|]. intros _ _ _. apply MR_ret. exact I.
  Qed.

  Hypothesis ingredient_rel : MR (orel erel) (ingredient_p cfg) (ingredient_p cfg).
  Hypothesis cookware_rel : MR (orel erel) (cookware_p cfg) (cookware_p cfg).
  Hypothesis timer_rel : MR (orel erel) (timer_p cfg) (timer_p cfg).

  Lemma step_loop_rel fuel : MR anyrel (step_loop cfg fuel) (step_loop cfg fuel).
  Proof.
    induction fuel as [|f IH]; [apply MR_panic_l|]. cbn [step_loop].
    mr_bind. intros r1 r2 Hr. destruct Hr as [|a b r1 r2 Hab Hr]; [apply MR_ret; exact I|].
    mr_bind. intros k1 k2 ->.
    eapply MR_bind with (RA := orel erel).
    { destruct k2; try (apply MR_ret; exact I);
        apply MR_with_recover; [apply ingredient_rel | apply cookware_rel | apply timer_rel]. }
    intros [e1|] [e2|] He; cbn in He; try contradiction.
    - eapply MR_bind; [apply MR_event; exact He|]. intros _ _ _. exact IH.
    - mr_bind. intros st1 st2 _. mr_bind. intros t1 t2 Ht. mr_bind. intros m1 m2 Hm.
      eapply MR_bind; [apply MR_textM; constructor; [exact Ht | exact Hm]|]. intros x1 x2 Hx.
      eapply MR_bind with (RA := anyrel).
      + pose proof Hx as (Hs & _ & Hf).
        destruct (frags x1) eqn:F1, (frags x2) eqn:F2.
        * apply MR_ret. exact I.
        * exfalso. destruct Hf as [Hf _]. specialize (Hf eq_refl). discriminate.
        * exfalso. destruct Hf as [_ Hf]. specialize (Hf eq_refl). discriminate.
        * apply MR_event. unfold erel. cbn. rewrite Hs. reflexivity.
      + intros _ _ _. exact IH.
  Qed.

  Lemma parse_step_rel : MR anyrel (parse_step cfg) (parse_step cfg).
  Proof.
    unfold parse_step. eapply MR_bind; [apply MR_event; reflexivity|]. intros _ _ _.
    mr_bind. intros r1 r2 Hr. rewrite (ksim_length _ _ Hr).
    eapply MR_bind; [apply step_loop_rel|]. intros _ _ _. apply MR_event. reflexivity.
  Qed.

  Lemma text_block_loop_rel fuel : MR anyrel (text_block_loop cfg fuel) (text_block_loop cfg fuel).
  Proof.
    induction fuel as [|f IH]; [apply MR_panic_l|]. cbn [text_block_loop].
    mr_bind. intros r1 r2 Hr. pose proof (ksim_length _ _ Hr) as Hl.
    destruct Hr as [|a b r1 r2 Hab Hr]; [apply MR_ret; exact I|].
    mr_bind. intros g1 g2 Hg.
    eapply MR_bind with (RA := anyrel).
    { destruct g1, g2; cbn in Hg; try contradiction.
      - mr_bind. intros _ _ _. apply MR_ret. exact I.
      - apply MR_ret. exact I. }
    intros _ _ _. mr_bind. intros st1 st2 _. mr_bind. intros l1 l2 Hline. mr_bind. intros n1 n2 Hn.
    eapply MR_bind with (RA := trel).
    { apply MR_textM. destruct n1, n2; cbn in Hn; try contradiction; [|exact Hline].
      apply Forall2_app; [exact Hline | constructor; [exact Hn | constructor]]. }
    intros t1 t2 Ht.
    eapply MR_bind with (RA := anyrel).
    { rewrite (trel_empty _ _ Ht). destruct (is_text_empty t2); [apply MR_ret; exact I|].
      apply MR_event. unfold erel. cbn. destruct Ht as [Hs _]. rewrite Hs. reflexivity. }
    intros _ _ _. mr_bind. intros q1 q2 Hq. rewrite (ksim_length _ _ Hq), Hl.
    destruct (length q2 <? length (b :: r2))%nat; [exact IH | apply MR_panic_l].
  Qed.

  Lemma parse_text_block_rel : MR anyrel (parse_text_block cfg) (parse_text_block cfg).
  Proof.
    unfold parse_text_block. eapply MR_bind; [apply MR_event; reflexivity|]. intros _ _ _.
    mr_bind. intros r1 r2 Hr. rewrite (ksim_length _ _ Hr).
    eapply MR_bind; [apply text_block_loop_rel|]. intros _ _ _. apply MR_event. reflexivity.
  Qed.

  Lemma parse_multiline_block_rel : MR anyrel (parse_multiline_block cfg) (parse_multiline_block cfg).
  Proof.
    unfold parse_multiline_block. mr_bind. intros a1 a2 Ha.
    rewrite (ksim_forallb_kind is_empty_tok _ _ Ha).
    destruct (forallb (fun t => is_empty_tok (kind t)) a2).
    - mr_bind. intros _ _ _. apply MR_ret. exact I.
    - mr_bind. intros k1 k2 ->. destruct k2; first [apply parse_text_block_rel | apply parse_step_rel].
  Qed.

  Lemma parse_block_rel old : MR anyrel (parse_block cfg old) (parse_block cfg old).
  Proof.
    unfold parse_block. mr_bind. intros k1 k2 ->.
    eapply MR_bind with (RA := orel erel).
    { destruct k2; try (apply MR_ret; exact I).
      - apply MR_with_recover. eapply MR_obindM; [apply metadata_entry_rel|].
        intros e1 e2 He. destruct e1, e2; cbn in He; try contradiction.
        destruct He as [Hk Hv]. unfold meta_kept, is_config_key. rewrite (trel_outer _ _ Hk).
        match goal with |- context [if ?c then _ else _] => destruct c end;
          apply MR_ret; cbn; [|exact I]. apply (mdrel_erel (EvMetadata _ _) (EvMetadata _ _)). split; assumption.
      - apply MR_with_recover. apply section_rel. }
    intros [e1|] [e2|] He; cbn in He; try contradiction.
    - apply MR_event. exact He.
    - apply parse_multiline_block_rel.
  Qed.

  (* ---------------------------------------------------------------- blocks *)
  Lemma run_block_rel ts1 ts2 evs1 evs2 m1 m2 :
    ksim ts1 ts2 -> Forall2 erel evs1 evs2 -> MR (@anyrel unit unit) m1 m2 ->
    OR (Forall2 erel) (run_block ts1 evs1 m1) (run_block ts2 evs2 m2).
  Proof.
    intros Ht He Hm. unfold run_block. destruct Ht as [|a b r1 r2 Hab Hr]; [exact I|].
    assert (S0 : SR {| b_all := a :: r1; b_done := []; b_rest := a :: r1; b_evs := evs1 |}
                    {| b_all := b :: r2; b_done := []; b_rest := b :: r2; b_evs := evs2 |}).
    { repeat split; cbn; try assumption; constructor; assumption. }
    specialize (Hm _ _ S0). unfold OR.
    destruct (m1 _) as [[x1 s1']|]; [|exact I]. destruct (m2 _) as [[x2 s2']|]; [|destruct (b_rest s1'); exact I].
    destruct Hm as [_ (_ & _ & Sr & Se)]. destruct Sr; [exact Se | exact I].
  Qed.

  Lemma pull_line_rel ts1 ts2 : ksim ts1 ts2 -> prel ksim ksim (pull_line ts1) (pull_line ts2).
  Proof.
    induction 1 as [|a b r1 r2 Hab Hr IH]; [split; constructor|]. cbn [pull_line].
    rewrite (krel_kind _ _ Hab). destruct (tk_eqb (kind b) KNewline).
    - split; cbn; [constructor; [exact Hab | constructor] | exact Hr].
    - destruct (pull_line r1) as [x1 y1], (pull_line r2) as [x2 y2]. destruct IH as [Hx Hy]. cbn in *.
      split; cbn; [constructor; assumption | assumption].
  Qed.

  Lemma line_is_empty_rel l1 l2 : ksim l1 l2 -> line_is_empty l1 = line_is_empty l2.
  Proof. apply (ksim_forallb_kind is_empty_tok). Qed.
  Lemma single_marker_rel l1 l2 : ksim l1 l2 -> is_single_line_marker l1 = is_single_line_marker l2.
  Proof. destruct 1 as [|a b r1 r2 Hab _]; [reflexivity|]. cbn. rewrite (krel_kind _ _ Hab). reflexivity. Qed.

  Lemma more_lines_rel fuel : forall ts1 ts2, ksim ts1 ts2 ->
    prel ksim ksim (more_lines fuel ts1) (more_lines fuel ts2).
  Proof.
    induction fuel as [|f IH]; intros ts1 ts2 H; [split; [constructor | exact H]|].
    cbn [more_lines]. rewrite (single_marker_rel _ _ H).
    destruct (is_single_line_marker ts2); [split; [constructor | exact H]|].
    pose proof (pull_line_rel _ _ H) as P.
    destruct H as [|a b r1 r2 Hab Hr]; [split; constructor|].
    destruct (pull_line (a :: r1)) as [l1 q1], (pull_line (b :: r2)) as [l2 q2]. destruct P as [Pl Pq]. cbn in Pl, Pq.
    rewrite (line_is_empty_rel _ _ Pl). destruct (line_is_empty l2); [split; [constructor | exact Pq]|].
    specialize (IH _ _ Pq). destruct (more_lines f q1) as [m1 z1], (more_lines f q2) as [m2 z2].
    destruct IH as [Hm Hz]. cbn in Hm, Hz. split; cbn; [apply Forall2_app; assumption | assumption].
  Qed.

  Lemma strip_nl_rel l1 l2 : ksim l1 l2 -> ksim (strip_trailing_newlines l1) (strip_trailing_newlines l2).
  Proof.
    induction 1 as [|a b r1 r2 Hab Hr IH]; [constructor|]. cbn [strip_trailing_newlines].
    rewrite (krel_kind _ _ Hab). destruct (tk_eqb (kind b) KNewline); [exact IH | constructor; assumption].
  Qed.

  Lemma next_block_rel fuel : forall ts1 ts2, ksim ts1 ts2 ->
    orel (prel ksim ksim) (next_block fuel ts1) (next_block fuel ts2).
  Proof.
    induction fuel as [|f IH]; intros ts1 ts2 H; [exact I|]. cbn [next_block].
    pose proof (pull_line_rel _ _ H) as P.
    destruct H as [|a b r1 r2 Hab Hr]; [exact I|].
    destruct (pull_line (a :: r1)) as [l1 q1], (pull_line (b :: r2)) as [l2 q2]. destruct P as [Pl Pq]. cbn in Pl, Pq.
    rewrite (line_is_empty_rel _ _ Pl). destruct (line_is_empty l2); [apply IH; exact Pq|].
    rewrite (single_marker_rel _ _ Pl), (ksim_length _ _ Pq).
    assert (M : prel ksim ksim (if is_single_line_marker l2 then ([], q1) else more_lines (S (length q2)) q1)
                               (if is_single_line_marker l2 then ([], q2) else more_lines (S (length q2)) q2)).
    { destruct (is_single_line_marker l2); [split; [constructor | exact Pq] | apply more_lines_rel; exact Pq]. }
    destruct (if is_single_line_marker l2 then ([], q1) else more_lines (S (length q2)) q1) as [m1 z1].
    destruct (if is_single_line_marker l2 then ([], q2) else more_lines (S (length q2)) q2) as [m2 z2].
    destruct M as [Hm Hz]. cbn in Hm, Hz.
    assert (B : ksim (rev (strip_trailing_newlines (rev (l1 ++ m1)))) (rev (strip_trailing_newlines (rev (l2 ++ m2))))).
    { apply Forall2_rev', strip_nl_rel, Forall2_rev', Forall2_app; assumption. }
    destruct B as [|x y bx by_ Hxy Hb]; [exact I|]. split; cbn; [constructor; assumption | assumption].
  Qed.

  Lemma blocks_loop_rel fuel : forall ts1 ts2 old evs1 evs2,
    ksim ts1 ts2 -> Forall2 erel evs1 evs2 ->
    OR (Forall2 erel) (blocks_loop cfg fuel ts1 old evs1) (blocks_loop cfg fuel ts2 old evs2).
  Proof.
    induction fuel as [|f IH]; intros ts1 ts2 old evs1 evs2 Ht He; [exact I|]. cbn [blocks_loop].
    rewrite (ksim_length _ _ Ht). pose proof (next_block_rel (S (length ts2)) _ _ Ht) as Nb.
    destruct (next_block (S (length ts2)) ts1) as [[b1 q1]|], (next_block (S (length ts2)) ts2) as [[b2 q2]|];
      cbn in Nb; try contradiction; [|exact He].
    destruct Nb as [Hb Hq]. cbn in Hb, Hq.
    pose proof (run_block_rel b1 b2 evs1 evs2 _ _ Hb He (parse_block_rel old)) as R. unfold OR in R.
    destruct (run_block b1 evs1 (parse_block cfg old)) as [e1|]; cbn [obind]; [|exact I].
    destruct (run_block b2 evs2 (parse_block cfg old)) as [e2|]; cbn [obind].
    - apply IH; assumption.
    - unfold OR. destruct (blocks_loop cfg f q1 old e1); exact I.
  Qed.
End Blocks.
