(* Proofs for C07 over Model/Parser.v and Model/Diag.v.
   1. the glue: what parse_events reports and returns (collect_error / collect_no_error);
   2. the event queue of a BlockParser only grows ([keeps]): a diagnostic, once reported, is
      still there when the component / block is finished - with_recover restores the position,
      never the events (block_parser.rs:78-95);
   3. per-construct completeness at component level: empty name, unit on cookware, the timer
      checks, duplicate modifier, alias, division by zero, empty value;
   4. examples: the hypotheses are satisfiable (whole-document evaluation of concrete inputs). *)
From CL Require Import Base.StrLemmas Model.Parser Model.Diag.
Open Scope N_scope.

(* ================================================================ 1. glue *)
Lemma push_none dbg r d : r_tag r = None -> push dbg r d = Done {| r_buf := r_buf r ++ [d]; r_tag := None |}.
Proof. intro H. unfold push. rewrite H. reflexivity. Qed.

Lemma push_all_none dbg ds : forall r, r_tag r = None ->
  push_all dbg r ds = Done {| r_buf := r_buf r ++ ds; r_tag := None |}.
Proof.
  induction ds as [|d ds IH]; intros r H; cbn [push_all].
  - rewrite app_nil_r. destruct r; cbn in *; subst; reflexivity.
  - rewrite (push_none dbg r d H). cbn [obind]. rewrite IH by reflexivity. cbn [r_buf].
    rewrite <- app_assoc. reflexivity.
Qed.

Lemma filter_all_false {A} (f : A -> bool) l : Forall (fun x => f x = false) l -> filter f l = [].
Proof. induction 1; cbn; [reflexivity|]. rewrite H. assumption. Qed.

Lemma filter_all_true {A} (f : A -> bool) l : Forall (fun x => f x = true) l -> filter f l = l.
Proof. induction 1; cbn; [reflexivity|]. rewrite H. f_equal. assumption. Qed.

Lemma of_pdiag_parse d : sd_is_parse (of_pdiag d) = true.
Proof. reflexivity. Qed.

Lemma map_of_pdiag_parse l : Forall (fun x => sd_is_parse x = true) (map of_pdiag l).
Proof. induction l; cbn; constructor; auto. Qed.

Definition is_analysis (d : sdiag) : bool := negb (sd_is_parse d).

Section Glue.
  Variable St : Type.
  Variable astep : St -> pevent -> outcome (St * list sdiag).
  Variable afinish : St -> list sdiag.
  Variable dbg : bool.
  (* event_consumer.rs builds every diagnostic with its own error!/warning! macros (19-43) *)
  Hypothesis astep_stage : forall s e s' ds, astep s e = Done (s', ds) -> Forall (fun d => sd_is_parse d = false) ds.
  Hypothesis afinish_stage : forall s, Forall (fun d => sd_is_parse d = false) (afinish s).

  Notation collect := (Diag.collect St astep afinish dbg).
  Notation atrace := (Diag.atrace St astep afinish).

  Lemma collect_tag evs : forall s ctx res,
    r_tag ctx = None -> collect s ctx evs = Done res -> r_tag (pr_report res) = None.
  Proof.
    induction evs as [|e evs IH]; intros s ctx res Ht H; cbn in H.
    - rewrite (push_all_none dbg _ ctx Ht) in H. cbn in H. injection H as <-. reflexivity.
    - destruct e;
        try (destruct (astep s _) as [[s1 ds]|] eqn:Ha; cbn in H; [|discriminate];
             rewrite (push_all_none dbg _ ctx Ht) in H; cbn in H; eapply IH; [|exact H]; reflexivity).
      destruct (d_err d).
      + rewrite (push_none dbg ctx _ Ht) in H. cbn [obind] in H.
        rewrite push_all_none in H by reflexivity. cbn in H. injection H as <-. reflexivity.
      + rewrite (push_none dbg ctx _ Ht) in H. cbn [obind] in H. eapply IH; [|exact H]. reflexivity.
  Qed.

  (* a parser error anywhere in the stream: no output, and the report is exactly the
     Parse-stage diagnostics seen so far followed by every diagnostic of the parser *)
  Lemma collect_error evs : forall s ctx res,
    r_tag ctx = None -> existsb is_perror evs = true -> collect s ctx evs = Done res ->
    pr_output res = None /\
    diags res = filter sd_is_parse (r_buf ctx) ++ map of_pdiag (pdiags evs).
  Proof.
    induction evs as [|e evs IH]; intros s ctx res Ht He H; [discriminate|]. cbn in H.
    destruct e;
      try (cbn in He; destruct (astep s _) as [[s1 ds]|] eqn:Ha; cbn in H; [|discriminate];
           rewrite (push_all_none dbg _ ctx Ht) in H; cbn in H;
           match type of H with Diag.collect _ _ _ _ _ ?c _ = _ => destruct (IH _ c _ eq_refl He H) as [Ho Hd] end; split; [exact Ho|];
           rewrite Hd; cbn [r_buf pdiags]; rewrite filter_app;
           rewrite (filter_all_false _ _ (astep_stage _ _ _ _ Ha)), app_nil_r; reflexivity).
    cbn in He. destruct (d_err d) eqn:Hd.
    - rewrite (push_none dbg ctx _ Ht) in H. cbn [obind] in H.
      rewrite push_all_none in H by reflexivity. cbn in H. injection H as <-. split; [reflexivity|].
      unfold diags. cbn. rewrite !filter_app. cbn [filter]. rewrite of_pdiag_parse.
      rewrite (filter_all_true _ _ (map_of_pdiag_parse _)). rewrite <- app_assoc. reflexivity.
    - cbn in He. rewrite (push_none dbg ctx _ Ht) in H. cbn [obind] in H.
      match type of H with Diag.collect _ _ _ _ _ ?c _ = _ => destruct (IH _ c _ eq_refl He H) as [Ho Hdd] end. split; [exact Ho|].
      rewrite Hdd. cbn [r_buf pdiags]. rewrite filter_app. cbn [filter]. rewrite of_pdiag_parse.
      rewrite <- app_assoc. reflexivity.
  Qed.

  (* no parser error: the output is kept, the parser's warnings and the diagnostics of the
     analysis are all reported, each family in order *)
  Lemma collect_no_error evs : forall s ctx res,
    r_tag ctx = None -> existsb is_perror evs = false -> collect s ctx evs = Done res ->
    exists s' t, pr_output res = Some s' /\ atrace s evs = Done t /\
      filter sd_is_parse (diags res) = filter sd_is_parse (r_buf ctx) ++ map of_pdiag (pdiags evs) /\
      filter is_analysis (diags res) = filter is_analysis (r_buf ctx) ++ t.
  Proof.
    assert (Hneg : forall l, Forall (fun d => sd_is_parse d = false) l -> Forall (fun d => is_analysis d = true) l).
    { intros l Hl. eapply Forall_impl; [|exact Hl]. cbn. intros a Ha. unfold is_analysis. rewrite Ha. reflexivity. }
    induction evs as [|e evs IH]; intros s ctx res Ht He H; cbn in H.
    - rewrite (push_all_none dbg _ ctx Ht) in H. cbn in H. injection H as <-.
      exists s, (afinish s). repeat split; unfold diags; cbn [pr_report r_buf pdiags map]; rewrite filter_app.
      + rewrite (filter_all_false _ _ (afinish_stage s)). reflexivity.
      + rewrite (filter_all_true _ _ (Hneg _ (afinish_stage s))). reflexivity.
    - destruct e;
        try (cbn in He; destruct (astep s _) as [[s1 ds]|] eqn:Ha; cbn in H; [|discriminate];
             rewrite (push_all_none dbg _ ctx Ht) in H; cbn in H;
             match type of H with Diag.collect _ _ _ _ _ ?c _ = _ => destruct (IH _ c _ eq_refl He H) as (s' & tr & Ho & Hat & Hp & Han) end;
             exists s', (ds ++ tr); split; [exact Ho|]; split;
             [cbn; rewrite Ha; cbn; rewrite Hat; reflexivity|]; split;
             [rewrite Hp; cbn [r_buf pdiags]; rewrite filter_app,
                (filter_all_false _ _ (astep_stage _ _ _ _ Ha)), app_nil_r; reflexivity
             |rewrite Han; cbn [r_buf]; rewrite filter_app,
                (filter_all_true _ _ (Hneg _ (astep_stage _ _ _ _ Ha))), <- app_assoc; reflexivity]).
      cbn in He. destruct (d_err d) eqn:Hd; [discriminate|]. cbn in He.
      rewrite (push_none dbg ctx _ Ht) in H. cbn [obind] in H.
      match type of H with Diag.collect _ _ _ _ _ ?c _ = _ => destruct (IH _ c _ eq_refl He H) as (s' & tr & Ho & Hat & Hp & Han) end.
      exists s', tr. split; [exact Ho|]. split; [exact Hat|]. split.
      + rewrite Hp. cbn [r_buf pdiags]. rewrite filter_app. cbn [filter]. rewrite of_pdiag_parse, <- app_assoc. reflexivity.
      + rewrite Han. cbn [r_buf]. rewrite filter_app. cbn [filter]. unfold is_analysis at 2. rewrite of_pdiag_parse.
        cbn. rewrite app_nil_r. reflexivity.
  Qed.
End Glue.

(* ================================================================ 2. the event queue only grows *)
(* ---------------------------------------------------------------- the event queue only grows *)
Definition keeps {A} (m : M A) : Prop :=
  forall s a s', m s = Done (a, s') -> incl (b_evs s) (b_evs s').

Lemma keeps_ret {A} (a : A) : keeps (ret a).
Proof. intros s a' s' H. injection H as _ <-. apply incl_refl. Qed.

Lemma keeps_bind {A B} (m : M A) (f : A -> M B) : keeps m -> (forall a, keeps (f a)) -> keeps (bind m f).
Proof.
  intros Hm Hf s b s' H. unfold bind in H. destruct (m s) as [[a s1]|] eqn:E; [|discriminate].
  eapply incl_tran; [eapply Hm; exact E | eapply Hf; exact H].
Qed.

Lemma keeps_panic {A} n : keeps (@panic A n).
Proof. intros s a s' H. discriminate. Qed.

Lemma keeps_lift {A} (o : outcome A) : keeps (lift o).
Proof. intros s a s' H. unfold lift in H. destruct o; [|discriminate]. injection H as _ <-. apply incl_refl. Qed.

Lemma keeps_event ev : keeps (event ev).
Proof. intros s a s' H. injection H as _ <-. cbn. apply incl_tl, incl_refl. Qed.

Lemma keeps_state {A} (f : bp -> A) : keeps (fun s => Done (f s, s)).
Proof. intros s a s' H. injection H as _ <-. apply incl_refl. Qed.

Lemma advance_evs n : forall s, b_evs (advance n s) = b_evs s.
Proof. induction n; intro s; cbn; [reflexivity|]. destruct (b_rest s); [reflexivity|]. rewrite IHn. reflexivity. Qed.

Lemma keeps_next_token : keeps next_token.
Proof. intros s a s' H. unfold next_token in H. destruct (b_rest s); injection H as _ <-; apply incl_refl. Qed.

Lemma keeps_until f : keeps (until f).
Proof.
  intros s a s' H. unfold until in H. destruct (position f (b_rest s)); injection H as _ <-.
  - rewrite advance_evs. apply incl_refl.
  - apply incl_refl.
Qed.

Lemma keeps_consume_while f : keeps (consume_while f).
Proof. intros s a s' H. unfold consume_while in H. injection H as _ <-. rewrite advance_evs. apply incl_refl. Qed.

Lemma keeps_with_recover {A} (m : M (option A)) : keeps m -> keeps (with_recover m).
Proof.
  intros Hm s a s' H. unfold with_recover in H. destruct (m s) as [[[x|] s1]|] eqn:E; try discriminate.
  - injection H as _ <-. eapply Hm; exact E.
  - injection H as _ <-. cbn. eapply Hm; exact E.
Qed.

Lemma keeps_sub_block {A} ts (m : M A) : keeps m -> keeps (sub_block ts m).
Proof.
  intros Hm s a s' H. unfold sub_block in H. destruct ts; [discriminate|].
  match type of H with match ?x with _ => _ end = _ => destruct x as [[a1 s2]|] eqn:E end; [|discriminate].
  injection H as _ <-. cbn. apply Hm in E. exact E.
Qed.

Ltac kp :=
  repeat first
    [ apply keeps_ret | apply keeps_panic | apply keeps_lift | apply keeps_event
    | apply keeps_next_token | apply keeps_until | apply keeps_consume_while
    | apply keeps_with_recover | apply keeps_sub_block
    | apply (keeps_state current_offset_of) | apply (keeps_state peek_of)
    | apply (keeps_state b_rest) | apply (keeps_state b_all)
    | apply keeps_bind; [|intro]
    | match goal with
      | |- keeps (match ?x with _ => _ end) => destruct x
      | |- keeps (if ?b then _ else _) => destruct b
      | |- keeps (let '(a, b) := ?x in _) => destruct x
      | |- keeps (fun s => Done (?f s, s)) => apply (keeps_state f)
      end ].

Lemma keeps_current_offset : keeps current_offset. Proof. apply (keeps_state current_offset_of). Qed.
Lemma keeps_peek : keeps peek. Proof. apply (keeps_state peek_of). Qed.
Lemma keeps_at_kind k : keeps (at_kind k). Proof. apply (keeps_state (fun s => tk_eqb (peek_of s) k)). Qed.
Lemma keeps_rest : keeps rest. Proof. apply (keeps_state b_rest). Qed.
Lemma keeps_all_tokens : keeps all_tokens. Proof. apply (keeps_state b_all). Qed.

Lemma keeps_bump_any : keeps bump_any.
Proof. unfold bump_any. kp. Qed.
Lemma keeps_bump k : keeps (bump k).
Proof. unfold bump. apply keeps_bind; [apply keeps_bump_any|intro]. kp. Qed.
Lemma keeps_consume k : keeps (consume k).
Proof. unfold consume. apply keeps_bind; [apply keeps_at_kind|intro]. destruct a; [|kp]. apply keeps_bind; [apply keeps_bump_any|intro; kp]. Qed.
Lemma keeps_obindM {A B} (m : M (option A)) (f : A -> M (option B)) :
  keeps m -> (forall a, keeps (f a)) -> keeps (obindM m f).
Proof. intros Hm Hf. unfold obindM. apply keeps_bind; [exact Hm|]. intros [a|]; [apply Hf|kp]. Qed.

Ltac kp2 :=
  repeat first
    [ apply keeps_current_offset | apply keeps_peek | apply keeps_at_kind | apply keeps_rest
    | apply keeps_all_tokens | apply keeps_bump_any | apply keeps_bump | apply keeps_consume
    | apply keeps_ret | apply keeps_panic | apply keeps_lift | apply keeps_event
    | apply keeps_next_token | apply keeps_until | apply keeps_consume_while
    | apply keeps_with_recover | apply keeps_sub_block
    | apply keeps_obindM; [|intro]
    | apply keeps_bind; [|intro]
    | match goal with
      | |- keeps (match ?x with _ => _ end) => destruct x
      | |- keeps (if ?b then _ else _) => destruct b
      | |- keeps (let '(a, b) := ?x in _) => destruct x
      end ].

Section K.
  Variable cfg : pcfg.

  Lemma keeps_textM off ts : keeps (textM cfg off ts). Proof. unfold textM. kp2. Qed.
  Lemma keeps_error c l : keeps (error c l). Proof. unfold error. kp2. Qed.
  Lemma keeps_warn c l : keeps (warn c l). Proof. unfold warn. kp2. Qed.
  Lemma keeps_ws_comments : keeps ws_comments. Proof. unfold ws_comments. kp2. Qed.
  Lemma keeps_consume_rest : keeps consume_rest. Proof. unfold consume_rest. kp2. Qed.

  Ltac kp3 := repeat first [ apply keeps_textM | apply keeps_error | apply keeps_warn
                           | apply keeps_ws_comments | apply keeps_consume_rest | progress kp2 ].

  Lemma keeps_scaling_lock : keeps scaling_lock. Proof. unfold scaling_lock. kp3. Qed.
  Lemma keeps_text_value ts off : keeps (text_value cfg ts off). Proof. unfold text_value. kp3. Qed.
  Lemma keeps_parse_value ts : keeps (parse_value cfg ts).
  Proof. unfold parse_value. apply keeps_bind; [kp3|intro]. destruct (range_or_numeric cfg ts) as [[e|v]|]; kp3. Qed.
  Lemma keeps_value_p : keeps (value_p cfg).
  Proof. unfold value_p. apply keeps_bind; [apply keeps_scaling_lock|intro]. apply keeps_bind; [kp3|intro].
         apply keeps_bind; [apply keeps_parse_value|intro]. kp3. Qed.
  Lemma keeps_parse_regular_quantity : keeps (parse_regular_quantity cfg).
  Proof. unfold parse_regular_quantity. apply keeps_bind; [apply keeps_value_p|intro]. kp3. Qed.
  Lemma keeps_parse_advanced_quantity : keeps (parse_advanced_quantity cfg).
  Proof. unfold parse_advanced_quantity. apply keeps_bind; [kp3|intro].
         destruct (existsb _ _); [kp3|]. apply keeps_bind; [apply keeps_scaling_lock|intro]. kp3. Qed.
  Lemma keeps_parse_quantity ts : keeps (parse_quantity cfg ts).
  Proof.
    unfold parse_quantity. destruct ts; [kp3|]. apply keeps_sub_block. destruct (has cfg X_ADVANCED_UNITS).
    - apply keeps_bind; [apply keeps_with_recover, keeps_parse_advanced_quantity|intro].
      destruct a; [kp3|apply keeps_parse_regular_quantity].
    - apply keeps_parse_regular_quantity.
  Qed.
End K.

(* ================================================================ 3. components *)
Lemma bind_inv {A B} (m : M A) (f : A -> M B) s r :
  bind m f s = Done r -> exists a s1, m s = Done (a, s1) /\ f a s1 = Done r.
Proof. unfold bind. destruct (m s) as [[a s1]|]; [|discriminate]. intro H. exists a, s1. auto. Qed.

Lemma obindM_some {A B} (m : M (option A)) (f : A -> M (option B)) s b s' :
  obindM m f s = Done (Some b, s') -> exists a s1, m s = Done (Some a, s1) /\ f a s1 = Done (Some b, s').
Proof.
  unfold obindM. intro H. apply bind_inv in H as (o & s1 & Hm & H). destruct o as [a|].
  - exists a, s1. auto.
  - discriminate.
Qed.

Tactic Notation "binv" hyp(H) "as" ident(a) ident(s) ident(E) := apply bind_inv in H as (a & s & E & H).
Tactic Notation "oinv" hyp(H) "as" ident(a) ident(s) ident(E) := apply obindM_some in H as (a & s & E & H).

Section C.
  Variable cfg : pcfg.

  Ltac kk := repeat first [ apply keeps_textM | apply keeps_error | apply keeps_warn
                          | apply keeps_ws_comments | apply keeps_consume_rest
                          | apply keeps_parse_quantity | progress kp2 ].

  Lemma keeps_parse_inter ts : keeps (parse_inter ts).
  Proof. unfold parse_inter. kk. Qed.

  Lemma keeps_parse_mods_loop fuel : forall ts msp mods inter, keeps (parse_mods_loop cfg fuel ts msp mods inter).
  Proof.
    induction fuel as [|f IH]; intros ts msp mods inter; cbn [parse_mods_loop]; [kk|].
    destruct ts as [|t r]; [kk|]. destruct (mod_bit (kind t)); [|kk].
    apply keeps_bind.
    - destruct (_ && _); [apply keeps_parse_inter|kk].
    - intros [i' r']. destruct (_ =? _).
      + apply keeps_bind; [kk|intro]. apply IH.
      + apply IH.
  Qed.

  Lemma keeps_parse_modifiers mts mpos : keeps (parse_modifiers cfg mts mpos).
  Proof. unfold parse_modifiers. destruct mts; [kk|]. apply keeps_bind; [apply keeps_parse_mods_loop|]. intros [m i]. kk. Qed.

  Lemma keeps_parse_alias ts off : keeps (parse_alias cfg ts off).
  Proof. unfold parse_alias. kk. Qed.

  (* ---------------------------------------------------------------- empty name *)
  Lemma check_empty_name_emits name s s' :
    check_empty_name name s = Done (tt, s') -> is_text_empty name = true ->
    In (mkdiag true D_EMPTY_NAME [text_span name]) (b_evs s').
  Proof.
    unfold check_empty_name. intros H He. rewrite He in H. injection H as <-. cbn. left. reflexivity.
  Qed.

  Theorem complete_empty_name_ingredient s i s' :
    ingredient_p cfg s = Done (Some (EvIngredient i), s') ->
    is_text_empty (i_name i) = true ->
    In (mkdiag true D_EMPTY_NAME [text_span (i_name i)]) (b_evs s').
  Proof.
    intros H He. unfold ingredient_p in H.
    binv H as st s1 E1. oinv H as at_ s2 E2. binv H as mpos s3 E3. binv H as mts s4 E4.
    binv H as noff s5 E5. oinv H as bd s6 E6. binv H as nt s7 E7. binv H as en s8 E8.
    binv H as na s9 E9. destruct na as [name alias]. binv H as u s10 E10. destruct u.
    binv H as mm s11 E11. destruct mm as [[m msp] inter]. binv H as q s12 E12.
    injection H as Hi <-. subst i. cbn [i_name] in *.
    pose proof (check_empty_name_emits _ _ _ E10 He) as Hin.
    apply (keeps_parse_modifiers _ _ _ _ _ E11) in Hin.
    assert (K : keeps (match bd_qty bd with
          | Some qts => bind (parse_quantity cfg qts) (fun x => let '(q, _) := x in ret (Some q))
          | None => ret None end)) by kk.
    apply (K _ _ _ E12) in Hin. exact Hin.
  Qed.

  Ltac fwd E Hin :=
    match type of E with
    | ?m ?s = Done _ => let K := fresh "K" in assert (K : keeps m) by kk; apply (K _ _ _ E) in Hin; clear K
    end.

  Lemma keeps_note : keeps (note cfg).
  Proof. unfold note. kk. Qed.
  Lemma keeps_check_note : keeps (check_note cfg).
  Proof. unfold check_note. kk. Qed.

  Theorem complete_empty_name_cookware s c s' :
    cookware_p cfg s = Done (Some (EvCookware c), s') ->
    is_text_empty (c_name c) = true ->
    In (mkdiag true D_EMPTY_NAME [text_span (c_name c)]) (b_evs s').
  Proof.
    intros H He. unfold cookware_p in H.
    binv H as st s1 E1. oinv H as at_ s2 E2. binv H as mpos s3 E3. binv H as mts s4 E4.
    binv H as noff s5 E5. oinv H as bd s6 E6. binv H as nt s7 E7. binv H as en s8 E8.
    binv H as na s9 E9. destruct na as [name alias]. binv H as u s10 E10. destruct u.
    binv H as q s11 E11. binv H as mm s12 E12. destruct mm as [[m msp] inter].
    binv H as u1 s13 E13. binv H as u2 s14 E14.
    injection H as Hi <-. subst c. cbn [c_name] in *.
    pose proof (check_empty_name_emits _ _ _ E10 He) as Hin.
    fwd E11 Hin. apply (keeps_parse_modifiers _ _ _ _ _ E12) in Hin. fwd E13 Hin. fwd E14 Hin. exact Hin.
  Qed.

  (* ---------------------------------------------------------------- unit on cookware *)
  Definition cookware_unit_label (usep : option span) (u : text) : span :=
    match usep with Some sep => (fst sep, snd (text_span u)) | None => text_span u end.

  Theorem complete_cookware_unit s c s' :
    cookware_p cfg s = Done (Some (EvCookware c), s') ->
    exists bd s0 s1, comp_body s0 = Done (Some bd, s1) /\
      match bd_qty bd with
      | None => c_qty c = None
      | Some qts =>
          exists sq q usep sq', parse_quantity cfg qts sq = Done ((q, usep), sq') /\
            c_qty c = Some (q_val q, q_span q) /\
            forall u, q_unit q = Some u ->
              In (mkdiag true D_COOKWARE_UNIT [cookware_unit_label usep u]) (b_evs s')
      end.
  Proof.
    intros H. unfold cookware_p in H.
    binv H as st s1 E1. oinv H as at_ s2 E2. binv H as mpos s3 E3. binv H as mts s4 E4.
    binv H as noff s5 E5. oinv H as bd s6 E6. binv H as nt s7 E7. binv H as en s8 E8.
    binv H as na s9 E9. destruct na as [name alias]. binv H as u s10 E10. destruct u.
    binv H as q s11 E11. binv H as mm s12 E12. destruct mm as [[m msp] inter].
    binv H as u1 s13 E13. binv H as u2 s14 E14.
    injection H as Hi <-. subst c. cbn [c_qty].
    exists bd, s5, s6. split; [exact E6|].
    destruct (bd_qty bd) as [qts|].
    - binv E11 as qq sq' Eq. destruct qq as [q0 usep]. binv E11 as u3 sq2 Eu. injection E11 as <- <-.
      exists s10, q0, usep, sq'. split; [exact Eq|]. split; [reflexivity|].
      intros u Hu. rewrite Hu in Eu.
      assert (Hin : In (mkdiag true D_COOKWARE_UNIT [cookware_unit_label usep u]) (b_evs sq2)).
      { unfold error, event in Eu. injection Eu as _ <-. cbn. left. unfold cookware_unit_label.
        destruct usep; reflexivity. }
      apply (keeps_parse_modifiers _ _ _ _ _ E12) in Hin. fwd E13 Hin. fwd E14 Hin. exact Hin.
    - injection E11 as <- _. reflexivity.
  Qed.

  (* ---------------------------------------------------------------- timers *)
  Definition timer_alias_label (name_ts : list tok) : option span :=
    match position (fun k => tk_eqb k KOr) name_ts with
    | Some sepi => match skipn sepi name_ts with
                   | sep :: _ => Some (tstart sep, tend (last name_ts sep))
                   | [] => None
                   end
    | None => None
    end.

  Definition timer_noqty_label (bd : body) (name : text) : span :=
    match bd_close bd with Some sp => sp | None => let e := snd (text_span name) in (e, e) end.

  Definition timer_neither_label (bd : body) (name_offset : N) : span :=
    match bd_close bd with Some sp => (name_offset, snd sp) | None => (name_offset, name_offset) end.

  Theorem timer_p_inv s t s' :
    timer_p cfg s = Done (Some (EvTimer t), s') ->
    exists mts sm sm' bd s0 s1 name,
      modifiers cfg sm = Done (mts, sm') /\
      comp_body s0 = Done (Some bd, s1) /\
      text_of cfg (current_offset_of s0) (bd_name bd) = Done name /\
      (* modifiers are not allowed on a timer *)
      (mts <> [] -> In (mkdiag true D_MODS_NOT_ALLOWED [tokens_span mts]) (b_evs s')) /\
      (* nor an alias *)
      (has cfg X_COMPONENT_ALIAS = true -> forall sp, timer_alias_label (bd_name bd) = Some sp ->
         In (mkdiag true D_ALIAS_NOT_ALLOWED [sp]) (b_evs s')) /\
      (* a duration needs a unit *)
      (forall qts, bd_qty bd = Some qts ->
         exists sq q usep sq', parse_quantity cfg qts sq = Done ((q, usep), sq') /\ t_qty t = Some q /\
           (q_unit q = None ->
            In (mkdiag true D_TIMER_NO_UNIT [(snd (qv_span (q_val q)), snd (qv_span (q_val q)))]) (b_evs s'))) /\
      (* TIMER_REQUIRES_TIME: a timer without duration *)
      (bd_qty bd = None -> has cfg X_TIMER_REQUIRES_TIME = true ->
         In (mkdiag true D_TIMER_NO_QTY [timer_noqty_label bd name]) (b_evs s')) /\
      (* neither a name nor a duration *)
      (bd_qty bd = None -> has cfg X_TIMER_REQUIRES_TIME = false -> is_text_empty name = true ->
         In (mkdiag true D_TIMER_NEITHER [timer_neither_label bd (current_offset_of s0)]) (b_evs s')).
  Proof.
    intros H. unfold timer_p in H.
    binv H as st s1 E1. oinv H as tl_ s2 E2. binv H as mts s3 E3. binv H as noff s4 E4.
    oinv H as bd s5 E5. binv H as en s6 E6. binv H as u1 s7 E7. binv H as u2 s8 E8.
    binv H as u3 s9 E9. binv H as name s10 E10. binv H as q1 s11 E11. binv H as q2 s12 E12.
    binv H as q3 s13 E13. injection H as Ht <-. subst t. cbn [t_qty].
    unfold current_offset in E4. injection E4 as <- <-.
    exists mts, s2, s3, bd, s3, s5, name.
    split; [exact E3|]. split; [exact E5|].
    assert (Hname : text_of cfg (current_offset_of s3) (bd_name bd) = Done name).
    { unfold textM, lift in E10. destruct (text_of cfg (current_offset_of s3) (bd_name bd)); [|discriminate].
      injection E10 as <- _. reflexivity. }
    split; [exact Hname|].
    split; [|split; [|split; [|split]]].
    - intro Hm. destruct mts as [|m0 mr]; [congruence|].
      assert (Hin : In (mkdiag true D_MODS_NOT_ALLOWED [tokens_span (m0 :: mr)]) (b_evs s7)).
      { unfold error, event in E7. injection E7 as _ <-. left. reflexivity. }
      fwd E8 Hin. apply (keeps_check_note _ _ _ E9) in Hin. apply (keeps_textM _ _ _ _ _ _ E10) in Hin.
      fwd E11 Hin. fwd E12 Hin. fwd E13 Hin. exact Hin.
    - intros Ha sp Hsp. rewrite Ha in E8. unfold timer_alias_label in Hsp.
      destruct (position (fun k => tk_eqb k KOr) (bd_name bd)) as [sepi|]; [|discriminate].
      destruct (skipn sepi (bd_name bd)) as [|sep r]; [discriminate|]. injection Hsp as <-.
      assert (Hin : In (mkdiag true D_ALIAS_NOT_ALLOWED [(tstart sep, tend (last (bd_name bd) sep))]) (b_evs s8)).
      { unfold error, event in E8. injection E8 as _ <-. left. reflexivity. }
      apply (keeps_check_note _ _ _ E9) in Hin. apply (keeps_textM _ _ _ _ _ _ E10) in Hin.
      fwd E11 Hin. fwd E12 Hin. fwd E13 Hin. exact Hin.
    - intros qts Hq. rewrite Hq in E11.
      binv E11 as qq sq' Eq. destruct qq as [q0 usep]. binv E11 as u4 sq2 Eu. injection E11 as <- <-.
      exists s10, q0, usep, sq'. split; [exact Eq|].
      cbn in E12. injection E12 as <- <-.
      assert (Hq3 : q3 = Some q0).
      { destruct (is_text_empty name); cbn in E13; injection E13 as <- _; reflexivity. }
      split; [exact Hq3|]. intro Hu. rewrite Hu in Eu.
      assert (Hin : In (mkdiag true D_TIMER_NO_UNIT
                          [(snd (qv_span (q_val q0)), snd (qv_span (q_val q0)))]) (b_evs sq2)).
      { unfold error, event in Eu. injection Eu as _ <-. left. reflexivity. }
      fwd E13 Hin. exact Hin.
    - intros Hq Ht. rewrite Hq in E11. injection E11 as <- <-. cbn in E12. rewrite Ht in E12.
      binv E12 as u5 sx Ee. injection E12 as <- <-.
      assert (Hin : In (mkdiag true D_TIMER_NO_QTY [timer_noqty_label bd name]) (b_evs sx)).
      { unfold error, event in Ee. injection Ee as _ <-. left. reflexivity. }
      fwd E13 Hin. exact Hin.
    - intros Hq Ht He. rewrite Hq in E11. injection E11 as <- <-. cbn in E12. rewrite Ht in E12.
      injection E12 as <- <-. rewrite He in E13.
      binv E13 as u5 sx Ee. injection E13 as _ <-.
      unfold error, event in Ee. injection Ee as _ <-. left. reflexivity.
  Qed.
End C.

(* ================================================================ duplicate modifiers *)
Lemma land_lor_same m b : N.land (N.lor m b) b = b.
Proof.
  apply N.bits_inj. intro n. rewrite N.land_spec, N.lor_spec.
  destruct (N.testbit m n), (N.testbit b n); reflexivity.
Qed.

Lemma land_lor_keep m b' b : N.land m b = b -> N.land (N.lor m b') b = b.
Proof.
  intro H. apply N.bits_inj. intro n. rewrite N.land_spec, N.lor_spec.
  pose proof (f_equal (fun x => N.testbit x n) H) as Hn. cbn in Hn. rewrite N.land_spec in Hn.
  destruct (N.testbit m n), (N.testbit b' n), (N.testbit b n); cbn in *; congruence.
Qed.

Definition simple_mod (t : tok) : bool :=
  match kind t with KAt | KQuestion | KPlus | KMinus => true | _ => false end.

Lemma simple_mod_bit t : simple_mod t = true -> exists bit, mod_bit (kind t) = Some bit /\ tk_eqb (kind t) KAnd = false.
Proof. unfold simple_mod, mod_bit. destruct (kind t); try discriminate; intros _; eexists; split; reflexivity. Qed.

Section D.
  Variable cfg : pcfg.

  (* one round of the loop on a simple modifier token *)
  Lemma mods_loop_step f t r msp mods inter bit :
    mod_bit (kind t) = Some bit -> tk_eqb (kind t) KAnd = false ->
    parse_mods_loop cfg (S f) (t :: r) msp mods inter =
      (if N.land mods bit =? bit
       then bind (error D_DUP_MOD [msp]) (fun _ => parse_mods_loop cfg f r msp mods inter)
       else parse_mods_loop cfg f r msp (N.lor mods bit) inter).
  Proof. intros Hb Hk. cbn [parse_mods_loop]. rewrite Hb, Hk. cbn [andb]. reflexivity. Qed.

  Lemma mods_loop_dup_now f t r msp mods inter bit s res s' :
    mod_bit (kind t) = Some bit -> tk_eqb (kind t) KAnd = false -> N.land mods bit = bit ->
    parse_mods_loop cfg (S f) (t :: r) msp mods inter s = Done (res, s') ->
    In (mkdiag true D_DUP_MOD [msp]) (b_evs s').
  Proof.
    intros Hb Hk Hl H. rewrite (mods_loop_step _ _ _ _ _ _ _ Hb Hk) in H.
    rewrite Hl, N.eqb_refl in H. apply bind_inv in H as (u & s1 & Ee & H).
    unfold error, event in Ee. injection Ee as _ <-.
    apply (keeps_parse_mods_loop cfg _ _ _ _ _ _ _ _ H). left. reflexivity.
  Qed.

  (* a modifier already in the set, written again anywhere later *)
  Lemma mods_loop_dup_later ts : forall f msp mods inter bit s res s' t2,
    forallb simple_mod ts = true -> In t2 ts -> mod_bit (kind t2) = Some bit -> N.land mods bit = bit ->
    parse_mods_loop cfg f ts msp mods inter s = Done (res, s') ->
    In (mkdiag true D_DUP_MOD [msp]) (b_evs s').
  Proof.
    induction ts as [|t r IH]; intros f msp mods inter bit s res s' t2 Hs Hin Hb Hl H; [destruct Hin|].
    destruct f as [|f]; [discriminate|].
    cbn [forallb] in Hs. apply andb_prop in Hs as [Hst Hsr].
    destruct (simple_mod_bit t Hst) as (bt & Hbt & Hkt).
    destruct Hin as [<-|Hin].
    - rewrite Hb in Hbt. injection Hbt as <-. eapply mods_loop_dup_now; eauto.
    - rewrite (mods_loop_step _ _ _ _ _ _ _ Hbt Hkt) in H. destruct (N.land mods bt =? bt).
      + apply bind_inv in H as (u & s1 & Ee & H). eapply IH; eauto.
      + eapply IH; [exact Hsr|exact Hin|exact Hb| |exact H]. apply land_lor_keep. exact Hl.
  Qed.

  Lemma mods_loop_dup pre : forall f t1 mid t2 post msp mods inter bit s res s',
    forallb simple_mod (pre ++ t1 :: mid ++ t2 :: post) = true ->
    mod_bit (kind t1) = Some bit -> mod_bit (kind t2) = Some bit ->
    parse_mods_loop cfg f (pre ++ t1 :: mid ++ t2 :: post) msp mods inter s = Done (res, s') ->
    In (mkdiag true D_DUP_MOD [msp]) (b_evs s').
  Proof.
    induction pre as [|p pre IH]; intros f t1 mid t2 post msp mods inter bit s res s' Hs H1 H2 H.
    - cbn [app] in *. destruct f as [|f]; [discriminate|].
      cbn [forallb] in Hs. apply andb_prop in Hs as [Hst Hsr].
      destruct (simple_mod_bit t1 Hst) as (bt & Hbt & Hkt). rewrite H1 in Hbt. injection Hbt as <-.
      rewrite (mods_loop_step _ _ _ _ _ _ _ H1 Hkt) in H. destruct (N.land mods bit =? bit) eqn:El.
      + apply bind_inv in H as (u & s1 & Ee & H). unfold error, event in Ee. injection Ee as _ <-.
        apply (keeps_parse_mods_loop cfg _ _ _ _ _ _ _ _ H). left. reflexivity.
      + eapply mods_loop_dup_later; [exact Hsr| |exact H2| |exact H].
        * apply in_or_app. right. left. reflexivity.
        * apply land_lor_same.
    - cbn [app] in *. destruct f as [|f]; [discriminate|].
      cbn [forallb] in Hs. apply andb_prop in Hs as [Hsp Hsr].
      destruct (simple_mod_bit p Hsp) as (bp_ & Hbp & Hkp).
      rewrite (mods_loop_step _ _ _ _ _ _ _ Hbp Hkp) in H. destruct (N.land mods bp_ =? bp_).
      + apply bind_inv in H as (u & s1 & Ee & H). eapply IH; eauto.
      + eapply IH; eauto.
  Qed.

  (* a modifier character written twice among the modifiers of a component (no `&(..)`
     in between): the error is reported, its label is the span of the whole modifier run *)
  Theorem complete_dup_modifier pre t1 mid t2 post mpos bit s res s' :
    let mts := pre ++ t1 :: mid ++ t2 :: post in
    forallb simple_mod mts = true ->
    mod_bit (kind t1) = Some bit -> mod_bit (kind t2) = Some bit ->
    parse_modifiers cfg mts mpos s = Done (res, s') ->
    In (mkdiag true D_DUP_MOD [tokens_span mts]) (b_evs s') /\ snd (fst res) = tokens_span mts.
  Proof.
    intros mts Hs H1 H2 H. unfold parse_modifiers in H.
    destruct mts as [|m0 mr] eqn:Em; [destruct pre; discriminate|]. rewrite <- Em in *.
    apply bind_inv in H as ([m i] & s1 & E & H). injection H as <- <-. split; [|reflexivity].
    subst mts. eapply mods_loop_dup; eauto.
  Qed.
End D.

(* ================================================================ alias, values *)
Section E.
  Variable cfg : pcfg.

  (* ---------------------------------------------------------------- alias *)
  Theorem complete_alias ts off s nt al s' sepi sep alias_ts :
    has cfg X_COMPONENT_ALIAS = true ->
    position (fun k => tk_eqb k KOr) ts = Some sepi -> skipn sepi ts = sep :: alias_ts ->
    parse_alias cfg ts off s = Done ((nt, al), s') ->
    (existsb (fun t => tk_eqb (kind t) KOr) alias_ts = true ->
       al = None /\ In (mkdiag true D_MULTI_ALIAS [(tstart sep, tend (last alias_ts sep))]) (b_evs s')) /\
    (existsb (fun t => tk_eqb (kind t) KOr) alias_ts = false ->
       forall at_, text_of cfg (tend sep) alias_ts = Done at_ -> is_text_empty at_ = true ->
       al = None /\ In (mkdiag true D_EMPTY_ALIAS [tok_span sep]) (b_evs s')).
  Proof.
    intros Ha Hp Hs H. unfold parse_alias in H. rewrite Ha, Hp, Hs in H.
    apply bind_inv in H as (at0 & s1 & E1 & H). apply bind_inv in H as (al0 & s2 & E2 & H).
    apply bind_inv in H as (nt0 & s3 & E3 & H). injection H as <- <- <-.
    assert (Hk : incl (b_evs s2) (b_evs s3)) by (eapply keeps_textM; exact E3).
    split.
    - intro Hm. rewrite Hm in E2. apply bind_inv in E2 as (u & sx & Ee & E2). injection E2 as <- <-.
      split; [reflexivity|]. apply Hk. unfold error, event in Ee. injection Ee as _ <-. left. reflexivity.
    - intros Hm at_ Hat He. rewrite Hm in E2.
      unfold textM, lift in E1. rewrite Hat in E1. injection E1 as <- <-. rewrite He in E2.
      apply bind_inv in E2 as (u & sx & Ee & E2). injection E2 as <- <-.
      split; [reflexivity|]. apply Hk. unfold error, event in Ee. injection Ee as _ <-. left. reflexivity.
  Qed.

  (* ---------------------------------------------------------------- division by zero *)
  Definition div_zero_diag (a b : tok) : diag :=
    {| d_err := true; d_code := D_DIV_ZERO; d_labels := [(tstart a, tend b)] |}.

  Lemma frac_zero a b :
    digits_val (tstr a) <= u32_max -> digits_val (tstr b) = 0 -> frac_of a b = inl (div_zero_diag a b).
  Proof.
    intros Ha Hb. unfold frac_of, int_of. rewrite Hb.
    destruct (digits_val (tstr a) <=? u32_max) eqn:E; [|apply N.leb_gt in E; lia]. reflexivity.
  Qed.

  (* the tokens of a quantity value that spell `a / b` (blanks and comments allowed around
     and between), b = 0 *)
  Lemma numeric_value_div_zero ts a sl b :
    filter not_ws_comment (trim_tokens ts) = [a; sl; b] ->
    kind a = KInt -> kind sl = KSlash -> kind b = KInt ->
    digits_val (tstr a) <= u32_max -> digits_val (tstr b) = 0 ->
    numeric_value ts = Some (inl (div_zero_diag a b)).
  Proof.
    intros Hf Ka Ks Kb Ha Hb. unfold numeric_value.
    destruct (trim_tokens ts) as [|x [|y [|z [|w r]]]] eqn:Et.
    - discriminate.
    - cbn [filter] in Hf. destruct (not_ws_comment x); discriminate.
    - cbn [filter] in Hf. destruct (not_ws_comment x), (not_ws_comment y); discriminate.
    - cbn [filter] in Hf. destruct (not_ws_comment x) eqn:Nx, (not_ws_comment y) eqn:Ny, (not_ws_comment z) eqn:Nz; try discriminate.
      injection Hf as -> -> ->. cbn [filter]. rewrite Nx, Ny, Nz.
      rewrite Ka, Ks, Kb. cbn. rewrite (frac_zero a b Ha Hb). reflexivity.
    - rewrite Hf. rewrite Ka, Ks, Kb. cbn. rewrite (frac_zero a b Ha Hb). reflexivity.
  Qed.

  Lemma parse_value_emits ts e s r s' :
    range_or_numeric cfg ts = Some (inl e) -> parse_value cfg ts s = Done (r, s') ->
    In (EvDiag e) (b_evs s') /\ fst r = value_recover.
  Proof.
    intros Hr H. unfold parse_value in H. apply bind_inv in H as (co & s1 & E1 & H). rewrite Hr in H.
    apply bind_inv in H as (u & s2 & E2 & H). injection H as <- <-.
    unfold event in E2. injection E2 as _ <-. split; [left; reflexivity|reflexivity].
  Qed.

  Theorem complete_div_zero ts a sl b s r s' :
    filter not_ws_comment (trim_tokens ts) = [a; sl; b] ->
    kind a = KInt -> kind sl = KSlash -> kind b = KInt ->
    digits_val (tstr a) <= u32_max -> digits_val (tstr b) = 0 ->
    range_value cfg ts = None ->
    parse_value cfg ts s = Done (r, s') ->
    In (mkdiag true D_DIV_ZERO [(tstart a, tend b)]) (b_evs s').
  Proof.
    intros Hf Ka Ks Kb Ha Hb Hr H.
    assert (Hn : range_or_numeric cfg ts = Some (inl (div_zero_diag a b))).
    { unfold range_or_numeric. rewrite Hr, (numeric_value_div_zero ts a sl b Hf Ka Ks Kb Ha Hb). reflexivity. }
    exact (proj1 (parse_value_emits ts _ s r s' Hn H)).
  Qed.

  (* ---------------------------------------------------------------- empty value *)
  Theorem complete_empty_value s r s' :
    parse_value cfg [] s = Done (r, s') ->
    In (mkdiag true D_EMPTY_VALUE [(current_offset_of s, current_offset_of s)]) (b_evs s').
  Proof.
    intro H. unfold parse_value in H. apply bind_inv in H as (co & s1 & E1 & H).
    unfold current_offset in E1. injection E1 as <- <-.
    assert (Hn : range_or_numeric cfg [] = None).
    { unfold range_or_numeric, range_value. destruct (negb (has cfg X_RANGE_VALUES)); reflexivity. }
    rewrite Hn in H. apply bind_inv in H as (v & s2 & E2 & H). injection H as _ <-.
    unfold text_value in E2. apply bind_inv in E2 as (t & s3 & E3 & E2).
    unfold textM, lift, text_of in E3. injection E3 as <- <-.
    cbn in E2. injection E2 as _ <-. left. reflexivity.
  Qed.
End E.

(* ================================================================ ingredient, examples *)
Section F.
  Variable cfg : pcfg.

  Ltac kk := repeat first [ apply keeps_textM | apply keeps_error | apply keeps_warn
                          | apply keeps_ws_comments | apply keeps_consume_rest
                          | apply keeps_parse_quantity | apply keeps_parse_modifiers | apply keeps_parse_alias
                          | progress kp2 ].
  Ltac fwd E Hin :=
    match type of E with
    | ?m ?s = Done _ => let K := fresh "K" in assert (K : keeps m) by kk; apply (K _ _ _ E) in Hin; clear K
    end.

  (* what an ingredient event was made from: the sub-parsers that ran, on which tokens, and
     that whatever they reported is still in the event queue when the component is returned *)
  Theorem ingredient_p_inv s i s' :
    ingredient_p cfg s = Done (Some (EvIngredient i), s') ->
    exists mts sm sm' bd s0 s1 sa sa' sp sp',
      modifiers cfg sm = Done (mts, sm') /\
      comp_body s0 = Done (Some bd, s1) /\
      parse_alias cfg (bd_name bd) (current_offset_of s0) sa = Done ((i_name i, i_alias i), sa') /\
      incl (b_evs sa') (b_evs s') /\
      parse_modifiers cfg mts (current_offset_of sm) sp = Done ((i_mods i, i_mods_span i, i_inter i), sp') /\
      incl (b_evs sp') (b_evs s') /\
      match bd_qty bd with
      | None => i_qty i = None
      | Some qts => exists sq q usep sq', parse_quantity cfg qts sq = Done ((q, usep), sq') /\
                      i_qty i = Some q /\ incl (b_evs sq') (b_evs s')
      end.
  Proof.
    intros H. unfold ingredient_p in H.
    binv H as st s1 E1. oinv H as at_ s2 E2. binv H as mpos s3 E3. binv H as mts s4 E4.
    binv H as noff s5 E5. oinv H as bd s6 E6. binv H as nt s7 E7. binv H as en s8 E8.
    binv H as na s9 E9. destruct na as [name alias]. binv H as u s10 E10. destruct u.
    binv H as mm s11 E11. destruct mm as [[m msp] inter]. binv H as q s12 E12.
    injection H as Hi <-. subst i. cbn [i_name i_alias i_mods i_mods_span i_inter i_qty].
    unfold current_offset in E3, E5. injection E3 as <- <-. injection E5 as <- <-.
    exists mts, s2, s4, bd, s4, s6, s8, s9, s10, s11.
    split; [exact E4|]. split; [exact E6|]. split; [exact E9|].
    assert (K12 : incl (b_evs s11) (b_evs s12)).
    { match type of E12 with ?mm _ = _ => assert (K : keeps mm) by kk; exact (K _ _ _ E12) end. }
    assert (K11 : incl (b_evs s10) (b_evs s11)) by (eapply keeps_parse_modifiers; exact E11).
    assert (K10 : incl (b_evs s9) (b_evs s10)).
    { match type of E10 with ?mm _ = _ => assert (K : keeps mm) by (unfold check_empty_name; kk); exact (K _ _ _ E10) end. }
    split; [eapply incl_tran; [exact K10|eapply incl_tran; [exact K11|exact K12]]|].
    split; [exact E11|]. split; [exact K12|].
    destruct (bd_qty bd) as [qts|].
    - binv E12 as qq sq' Eq. destruct qq as [q0 usep]. injection E12 as <- <-.
      exists s11, q0, usep, sq'. split; [exact Eq|]. split; [reflexivity|]. apply incl_refl.
    - injection E12 as <- _. reflexivity.
  Qed.

  (* a modifier written twice on an ingredient *)
  Theorem complete_dup_modifier_ingredient s i s' :
    ingredient_p cfg s = Done (Some (EvIngredient i), s') ->
    exists mts sm sm', modifiers cfg sm = Done (mts, sm') /\
      forall pre t1 mid t2 post bit,
        mts = pre ++ t1 :: mid ++ t2 :: post -> forallb simple_mod mts = true ->
        mod_bit (kind t1) = Some bit -> mod_bit (kind t2) = Some bit ->
        In (mkdiag true D_DUP_MOD [i_mods_span i]) (b_evs s') /\ i_mods_span i = tokens_span mts.
  Proof.
    intro H. destruct (ingredient_p_inv s i s' H) as
      (mts & sm & sm' & bd & s0 & s1 & sa & sa' & sp & sp' & Hm & Hb & Ha & Ka & Hp & Kp & Hq).
    exists mts, sm, sm'. split; [exact Hm|]. intros pre t1 mid t2 post bit -> Hs H1 H2.
    destruct (complete_dup_modifier cfg pre t1 mid t2 post _ bit _ _ _ Hs H1 H2 Hp) as [Hin Hsp].
    cbn in Hsp. rewrite Hsp. split; [apply Kp; exact Hin|reflexivity].
  Qed.
End F.

(* ---------------------------------------------------------------- the hypotheses are satisfiable *)
Definition U0 (c : N) : ucls :=
  let al := ((65 <=? c) && (c <=? 90)) || ((97 <=? c) && (c <=? 122)) in
  {| u_alpha := al; u_zs := c =? 32; u_punct := (c =? 44) || (c =? 59) || (c =? 33);
     u_ws := uni_ws c; u_alnum := al || is_digit c |}.

Definition cfg_all : pcfg :=
  {| p_ext := X_ALL; p_debug := true; p_strict_escape := false; p_note_label_old := false; p_fm_anywhere := false |}.

Definition span_eqb (a b : span) : bool := (fst a =? fst b) && (snd a =? snd b).
Fixpoint spans_eqb (a b : list span) : bool :=
  match a, b with
  | [], [] => true
  | x :: a', y :: b' => span_eqb x y && spans_eqb a' b'
  | _, _ => false
  end.

Definition reports (s : str) (err : bool) (code : N) (labels : list span) : bool :=
  match events U0 cfg_all s with
  | Done evs => existsb (fun e => match e with
                                  | EvDiag d => Bool.eqb (d_err d) err && (d_code d =? code) && spans_eqb (d_labels d) labels
                                  | _ => false
                                  end) evs
  | Panic _ => false
  end.

(* "@{1}" *)
Example ex_empty_name : reports [64; 123; 49; 125] true D_EMPTY_NAME [(1, 1)] = true.
Proof. vm_compute. reflexivity. Qed.
(* "@a{1/0}" *)
Example ex_div_zero : reports [64; 97; 123; 49; 47; 48; 125] true D_DIV_ZERO [(3, 6)] = true.
Proof. vm_compute. reflexivity. Qed.
(* "@a{%g}" *)
Example ex_empty_value : reports [64; 97; 123; 37; 103; 125] true D_EMPTY_VALUE [(3, 3)] = true.
Proof. vm_compute. reflexivity. Qed.
(* "#p{1%kg}" *)
Example ex_cookware_unit : reports [35; 112; 123; 49; 37; 107; 103; 125] true D_COOKWARE_UNIT [(4, 7)] = true.
Proof. vm_compute. reflexivity. Qed.
(* "~{5}" *)
Example ex_timer_no_unit : reports [126; 123; 53; 125] true D_TIMER_NO_UNIT [(3, 3)] = true.
Proof. vm_compute. reflexivity. Qed.
(* "~rest" *)
Example ex_timer_no_qty : reports [126; 114; 101; 115; 116] true D_TIMER_NO_QTY [(5, 5)] = true.
Proof. vm_compute. reflexivity. Qed.
(* "~?r{1%m}" *)
Example ex_timer_mods : reports [126; 63; 114; 123; 49; 37; 109; 125] true D_MODS_NOT_ALLOWED [(1, 2)] = true.
Proof. vm_compute. reflexivity. Qed.
(* "~a|b{1%m}" *)
Example ex_timer_alias : reports [126; 97; 124; 98; 123; 49; 37; 109; 125] true D_ALIAS_NOT_ALLOWED [(2, 4)] = true.
Proof. vm_compute. reflexivity. Qed.
(* "@??a{}" *)
Example ex_dup_mod : reports [64; 63; 63; 97; 123; 125] true D_DUP_MOD [(1, 3)] = true.
Proof. vm_compute. reflexivity. Qed.
(* "@a|{}" and "@a|b|c{}" *)
Example ex_alias_empty : reports [64; 97; 124; 123; 125] true D_EMPTY_ALIAS [(2, 3)] = true.
Proof. vm_compute. reflexivity. Qed.
Example ex_alias_multi : reports [64; 97; 124; 98; 124; 99; 123; 125] true D_MULTI_ALIAS [(2, 6)] = true.
Proof. vm_compute. reflexivity. Qed.


(* the glue on a three-event stream with a parser error / without (a collector that reports one
   analysis warning per Start event) *)
Definition toy_astep (s : nat) (e : pevent) : outcome (nat * list sdiag) :=
  match e with
  | EvStart _ => Done (S s, [{| sd_sev := SevWarning; sd_stage := StAnalysis; sd_labels := [] |}])
  | _ => Done (s, [])
  end.
Definition toy_err : diag := {| d_err := true; d_code := D_EMPTY_NAME; d_labels := [(1, 1)] |}.
Definition toy_warn : diag := {| d_err := false; d_code := D_EMPTY_UNIT; d_labels := [(4, 5)] |}.

Example ex_glue_error :
  parse_events nat toy_astep (fun _ => []) true O [EvStart true; EvDiag toy_warn; EvDiag toy_err; EvEnd true]
  = Done {| pr_output := None; pr_report := {| r_buf := [of_pdiag toy_warn; of_pdiag toy_err]; r_tag := None |} |}.
Proof. reflexivity. Qed.

Example ex_glue_no_error :
  parse_events nat toy_astep (fun _ => []) true O [EvStart true; EvDiag toy_warn; EvEnd true]
  = Done {| pr_output := Some 1%nat;
            pr_report := {| r_buf := [{| sd_sev := SevWarning; sd_stage := StAnalysis; sd_labels := [] |}; of_pdiag toy_warn];
                            r_tag := None |} |}.
Proof. reflexivity. Qed.

(* ================================================================ old-style metadata lines
   (src/parser/metadata.rs:5-46): empty key => error on the key position, else empty value =>
   warning on the value position.  "Empty" is Text::is_text_empty: comments contribute no text. *)
Definition is_comment_kind (k : tkind) : bool :=
  match k with KLineComment | KBlockComment => true | _ => false end.

Section Meta.
  Variable cfg : pcfg.

  (* tokens that are all comments contribute no fragment: the text is the empty text at its offset *)
  Lemma text_loop_comments ts : forall off cs t,
    forallb (fun tk => is_comment_kind (kind tk)) ts = true ->
    text_loop cfg ts (text_empty off) cs [] = Done t -> t = text_empty off.
  Proof.
    induction ts as [|tk r IH]; intros off cs t Hc H; cbn [text_loop] in H.
    - unfold append_str, append_fragment in H. cbn in H.
      destruct (off <=? cs); [injection H as <-; reflexivity|discriminate].
    - cbn [forallb] in Hc. apply andb_prop in Hc as [Hk Hr].
      assert (Ha : forall X (f : text -> outcome X) r0, obind (append_str (text_empty off) [] cs) f = Done r0 ->
                     f (text_empty off) = Done r0).
      { intros X f r0 Hf. unfold append_str, append_fragment in Hf. cbn in Hf.
        destruct (off <=? cs); [exact Hf|discriminate]. }
      destruct (kind tk); try discriminate; apply Ha in H; eapply IH; eauto.
  Qed.

  Lemma text_of_comments off ts t :
    forallb (fun tk => is_comment_kind (kind tk)) ts = true -> text_of cfg off ts = Done t -> t = text_empty off.
  Proof.
    intros Hc H. unfold text_of in H. destruct ts as [|t0 r]; [injection H as <-; reflexivity|].
    destruct (off =? tstart t0); [|discriminate]. eapply text_loop_comments; eauto.
  Qed.

  (* what a metadata event was made from *)
  Lemma metadata_entry_inv s key v s' :
    metadata_entry cfg s = Done (Some (EvMetadata key v), s') ->
    exists m s1 kts s2 c s3 vts s4,
      consume KMeta s = Done (Some m, s1) /\
      until (fun k => tk_eqb k KColon) s1 = Done (Some kts, s2) /\
      text_of cfg (current_offset_of s1) kts = Done key /\
      bump KColon s2 = Done (c, s3) /\
      consume_rest s3 = Done (vts, s4) /\
      text_of cfg (current_offset_of s3) vts = Done v /\
      ((is_text_empty key = true -> In (mkdiag true D_EMPTY_META_KEY [text_span key]) (b_evs s')) /\
       (is_text_empty key = false -> is_text_empty v = true ->
          In (mkdiag false D_EMPTY_META_VALUE [text_span v; text_span key]) (b_evs s'))).
  Proof.
    intro H. unfold metadata_entry in H.
    oinv H as m s1 E1. binv H as kp s1' E2. unfold current_offset in E2. injection E2 as <- <-.
    binv H as ko s2 E3. destruct ko as [kts|].
    2:{ binv H as al sx Ex. binv H as u sy Ey. discriminate. }
    binv H as key0 s2' E4. binv H as c s3 E5. binv H as vp s3' E6. unfold current_offset in E6. injection E6 as <- <-.
    binv H as vts s4 E7. binv H as v0 s4' E8. binv H as u s5 E9. injection H as <- <- <-.
    unfold textM, lift in E4, E8.
    destruct (text_of cfg (current_offset_of s1) kts) as [kt|] eqn:Ek; [|discriminate]. injection E4 as <- <-.
    destruct (text_of cfg (current_offset_of s3) vts) as [vt|] eqn:Ev; [|discriminate]. injection E8 as <- <-.
    exists m, s1, kts, s2, c, s3, vts, s4. repeat split; try assumption.
    - intro He. rewrite He in E9. unfold error, event in E9. injection E9 as _ <-. left. reflexivity.
    - intros He Hv. rewrite He, Hv in E9. unfold warn, event in E9. injection E9 as _ <-. left. reflexivity.
  Qed.

  Theorem complete_empty_metadata_key s key v s' :
    metadata_entry cfg s = Done (Some (EvMetadata key v), s') -> is_text_empty key = true ->
    In (mkdiag true D_EMPTY_META_KEY [text_span key]) (b_evs s').
  Proof.
    intros H He. destruct (metadata_entry_inv _ _ _ _ H) as (m & s1 & kts & s2 & c & s3 & vts & s4 & _ & _ & _ & _ & _ & _ & Hk & _).
    exact (Hk He).
  Qed.

  Theorem complete_empty_metadata_value s key v s' :
    metadata_entry cfg s = Done (Some (EvMetadata key v), s') ->
    is_text_empty key = false -> is_text_empty v = true ->
    In (mkdiag false D_EMPTY_META_VALUE [text_span v; text_span key]) (b_evs s').
  Proof.
    intros H He Hv. destruct (metadata_entry_inv _ _ _ _ H) as (m & s1 & kts & s2 & c & s3 & vts & s4 & _ & _ & _ & _ & _ & _ & _ & Hk).
    exact (Hk He Hv).
  Qed.

  (* a key made of comments only (`>>[- k -]: v`): the error, at the position right after `>>` *)
  Theorem complete_comment_only_metadata_key s key v s' :
    metadata_entry cfg s = Done (Some (EvMetadata key v), s') ->
    exists m s1 kts s2,
      consume KMeta s = Done (Some m, s1) /\ until (fun k => tk_eqb k KColon) s1 = Done (Some kts, s2) /\
      (forallb (fun tk => is_comment_kind (kind tk)) kts = true ->
         In (mkdiag true D_EMPTY_META_KEY [(current_offset_of s1, current_offset_of s1)]) (b_evs s')).
  Proof.
    intro H. destruct (metadata_entry_inv _ _ _ _ H) as (m & s1 & kts & s2 & c & s3 & vts & s4 & Hm & Hu & Hk & _ & _ & _ & Hke & _).
    exists m, s1, kts, s2. split; [exact Hm|]. split; [exact Hu|]. intro Hc.
    rewrite (text_of_comments _ _ _ Hc Hk) in Hke. exact (Hke eq_refl).
  Qed.

  (* a value made of comments only (`>> k: -- later`): the warning, at the position right after `:` *)
  Theorem complete_comment_only_metadata_value s key v s' :
    metadata_entry cfg s = Done (Some (EvMetadata key v), s') -> is_text_empty key = false ->
    exists c s3 vts s4,
      consume_rest s3 = Done (vts, s4) /\ current_offset_of s3 = tend c /\ kind c = KColon /\
      (forallb (fun tk => is_comment_kind (kind tk)) vts = true ->
         In (mkdiag false D_EMPTY_META_VALUE [(tend c, tend c); text_span key]) (b_evs s')).
  Proof.
    intros H He. destruct (metadata_entry_inv _ _ _ _ H) as (m & s1 & kts & s2 & c & s3 & vts & s4 & Hm & Hu & Hk & Hb & Hr & Hv & _ & Hve).
    assert (Hc3 : current_offset_of s3 = tend c /\ kind c = KColon).
    { unfold bump in Hb. apply bind_inv in Hb as (t & sx & Eb & Hb). destruct (tk_eqb (kind t) KColon) eqn:Ek; [|discriminate].
      injection Hb as <- <-. unfold bump_any in Eb. apply bind_inv in Eb as (o & sy & En & Eb).
      destruct o as [t'|]; [|discriminate]. injection Eb as <- <-. unfold next_token in En.
      destruct (b_rest s2) as [|t0 r0]; [discriminate|]. injection En as <- <-. split; [reflexivity|].
      destruct (kind t0); try discriminate. reflexivity. }
    destruct Hc3 as [Ho Hkc]. exists c, s3, vts, s4. split; [exact Hr|]. split; [exact Ho|]. split; [exact Hkc|].
    intro Hc. rewrite <- Ho. pose proof (text_of_comments _ _ _ Hc Hv) as ->. exact (Hve He eq_refl).
  Qed.
End Meta.

(* ">>[- k -]: v", ">> k: -- c", ">> k: [- c -]", ">>   : v", ">> k:" *)
Example ex_meta_key_comment :
  reports [62; 62; 91; 45; 32; 107; 32; 45; 93; 58; 32; 118] true D_EMPTY_META_KEY [(2, 2)] = true.
Proof. vm_compute. reflexivity. Qed.
Example ex_meta_value_line_comment :
  reports [62; 62; 32; 107; 58; 32; 45; 45; 32; 99] false D_EMPTY_META_VALUE [(5, 6); (2, 4)] = true.
Proof. vm_compute. reflexivity. Qed.
Example ex_meta_value_block_comment :
  reports [62; 62; 32; 107; 58; 32; 91; 45; 32; 99; 32; 45; 93] false D_EMPTY_META_VALUE [(5, 6); (2, 4)] = true.
Proof. vm_compute. reflexivity. Qed.
Example ex_meta_key_blanks : reports [62; 62; 32; 32; 32; 58; 32; 118] true D_EMPTY_META_KEY [(2, 5)] = true.
Proof. vm_compute. reflexivity. Qed.
Example ex_meta_value_none : reports [62; 62; 32; 107; 58] false D_EMPTY_META_VALUE [(5, 5); (2, 4)] = true.
Proof. vm_compute. reflexivity. Qed.
