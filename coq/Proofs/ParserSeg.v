(* Located token chains: the vocabulary of the parser invariant (C03/C04).
   [bnd src a]: a is a character boundary of the source text; [tok_in src t]: the token t is
   the source slice at its start offset, is not empty, and starts with the one-byte backslash
   when it is an escaped token; [seg src off ts en]: the tokens ts are adjacent, run from byte
   off to byte en, and are all located.  Everything the parser computes a span from is a [seg]. *)
From CL Require Import Base.StrLemmas Model.Lexer Model.Parser Proofs.LexerProofs.

(* ------------------------------------------------------------------ generic list facts *)

Lemma last_snoc {A} (l : list A) (x d : A) : last (l ++ [x]) d = x.
Proof. induction l as [|a l IH]; [reflexivity|]. destruct l as [|b l]; [reflexivity | exact IH]. Qed.

Lemma last_cons_ne {A} (a : A) (l : list A) (d : A) : l <> [] -> last (a :: l) d = last l d.
Proof. destruct l; [congruence|reflexivity]. Qed.

Lemma last_indep {A} (l : list A) (d d' : A) : l <> [] -> last l d = last l d'.
Proof. induction l as [|a l IH]; [congruence|]. intros _. destruct l; [reflexivity|]. cbn [last] in *. apply IH. discriminate. Qed.

Lemma tk_eqb_true a b : tk_eqb a b = true -> a = b.
Proof. apply internal_tkind_dec_bl. Qed.

Lemma tk_eqb_refl a : tk_eqb a a = true.
Proof. apply internal_tkind_dec_lb. reflexivity. Qed.

Lemma tk_eqb_false a b : tk_eqb a b = false -> a <> b.
Proof. intros H E. subst. rewrite tk_eqb_refl in H. discriminate. Qed.

(* ------------------------------------------------------------------ boundaries *)

Section Located.
  Variable src : str.

  Definition bnd (a : N) : Prop := boundary src a.

  Lemma bnd_0 : bnd 0.
  Proof. exists [], src. split; reflexivity. Qed.

  Lemma bnd_le a : bnd a -> a <= blen src.
  Proof. intros (p & q & E & <-). rewrite E, blen_app. lia. Qed.

  Lemma span_ok_intro a b : a <= b -> bnd a -> bnd b -> span_ok src (a, b).
  Proof. intros H Ha Hb. unfold span_ok; cbn [fst snd]. pose proof (bnd_le b Hb). tauto. Qed.

  Lemma span_ok_pos a : bnd a -> span_ok src (a, a).
  Proof. intro H. apply span_ok_intro; [lia| exact H | exact H]. Qed.

  Lemma sub_bnd_l x o : sub src x o -> bnd o.
  Proof. intros (p & q & E & <-). exists p, (x ++ q). split; [exact E|reflexivity]. Qed.

  Lemma sub_bnd_r x o : sub src x o -> bnd (o + blen x).
  Proof. intros (p & q & E & <-). exists (p ++ x), q. rewrite <- app_assoc, blen_app. split; [exact E|reflexivity]. Qed.

  Lemma sub_nil o : bnd o -> sub src [] o.
  Proof. intros (p & q & E & <-). exists p, q. split; [exact E|reflexivity]. Qed.

  Lemma app_blen_inj (u p' q q' : str) : u ++ q = p' ++ q' -> blen u = blen p' -> u = p' /\ q = q'.
  Proof.
    revert p'. induction u as [|c u IH]; intros [|d p'] E L; cbn [app blen] in *.
    - split; [reflexivity | exact E].
    - pose proof (utf8_len_pos d). lia.
    - pose proof (utf8_len_pos c). lia.
    - injection E as -> E. destruct (IH p' E) as [-> ->]; [lia|]. split; reflexivity.
  Qed.

  (* two adjacent located slices form a located slice *)
  Lemma sub_app x y o : sub src x o -> sub src y (o + blen x) -> sub src (x ++ y) o.
  Proof.
    intros (p & q & E & Hp) (p' & q' & E' & Hp').
    rewrite E in E'. rewrite app_assoc in E'.
    apply app_blen_inj in E' as [E1 E2]; [|rewrite blen_app; lia].
    exists p, q'. split; [|exact Hp]. rewrite E, E2, <- app_assoc. reflexivity.
  Qed.

  (* ------------------------------------------------------------------ located token chains *)

  (* a token of the stream: its characters are the source slice at its start, it is not empty,
     and an escaped token begins with the (one-byte) backslash *)
  Definition tok_in (t : tok) : Prop :=
    sub src (tstr t) (tstart t) /\ tstr t <> [] /\ (kind t = KEscaped -> exists r, tstr t = 92 :: r).

  (* [seg off ts en]: the tokens ts are adjacent, run from byte off to byte en, all located *)
  Fixpoint seg (off : N) (ts : list tok) (en : N) : Prop :=
    match ts with
    | [] => off = en /\ bnd off
    | t :: r => tstart t = off /\ tok_in t /\ seg (tend t) r en
    end.

  Lemma tok_in_lt t : tok_in t -> tstart t < tend t.
  Proof.
    intros (_ & H & _). unfold tend. destruct (tstr t) as [|c r]; [congruence|].
    cbn [blen]. pose proof (utf8_len_pos c). lia.
  Qed.

  Lemma tok_in_bnd_l t : tok_in t -> bnd (tstart t).
  Proof. intros (H & _). eapply sub_bnd_l; exact H. Qed.

  Lemma tok_in_bnd_r t : tok_in t -> bnd (tend t).
  Proof. intros (H & _). unfold tend. eapply sub_bnd_r; exact H. Qed.

  Lemma tok_span_ok t : tok_in t -> span_ok src (tok_span t).
  Proof.
    intro H. unfold tok_span. apply span_ok_intro;
      [pose proof (tok_in_lt t H); lia | apply tok_in_bnd_l; exact H | apply tok_in_bnd_r; exact H].
  Qed.

  Lemma seg_app off a b en : seg off (a ++ b) en <-> exists mid, seg off a mid /\ seg mid b en.
  Proof.
    revert off. induction a as [|t a IH]; intro off; cbn [app seg].
    - split.
      + intro H. exists off. split; [split; [reflexivity|]|exact H].
        destruct b as [|u b]; cbn [seg] in H; [tauto|]. destruct H as (<- & H & _). apply tok_in_bnd_l; exact H.
      + intros (mid & (-> & _) & H). exact H.
    - rewrite IH. split.
      + intros (H1 & H2 & mid & H3 & H4). exists mid. tauto.
      + intros (mid & (H1 & H2 & H3) & H4). split; [exact H1|]. split; [exact H2|]. exists mid. tauto.
  Qed.

  Lemma seg_bnd_l off ts en : seg off ts en -> bnd off.
  Proof. destruct ts as [|t r]; cbn [seg]; [tauto|]. intros (<- & H & _). apply tok_in_bnd_l; exact H. Qed.

  Lemma seg_bnd_r off ts en : seg off ts en -> bnd en.
  Proof.
    revert off. induction ts as [|t r IH]; intro off; cbn [seg].
    - intros (<- & H). exact H.
    - intros (_ & _ & H). eapply IH; exact H.
  Qed.

  Lemma seg_le off ts en : seg off ts en -> off <= en.
  Proof.
    revert off. induction ts as [|t r IH]; intro off; cbn [seg].
    - intros (<- & _). lia.
    - intros (<- & H1 & H2). apply IH in H2. pose proof (tok_in_lt t H1). lia.
  Qed.

  Lemma seg_lt off ts en : seg off ts en -> ts <> [] -> off < en.
  Proof.
    destruct ts as [|t r]; [congruence|]. cbn [seg]. intros (<- & H1 & H2) _.
    apply seg_le in H2. pose proof (tok_in_lt t H1). lia.
  Qed.

  Lemma seg_span_ok off ts en : seg off ts en -> span_ok src (off, en).
  Proof. intro H. apply span_ok_intro; [eapply seg_le | eapply seg_bnd_l | eapply seg_bnd_r]; exact H. Qed.

  Lemma seg_fun off ts en en' : seg off ts en -> seg off ts en' -> en = en'.
  Proof.
    revert off. induction ts as [|t r IH]; intro off; cbn [seg].
    - intros (<- & _) (<- & _). reflexivity.
    - intros (_ & _ & H) (_ & _ & H'). eapply IH; eassumption.
  Qed.

  Lemma seg_hd off t r en : seg off (t :: r) en -> tstart t = off.
  Proof. cbn [seg]. tauto. Qed.

  Lemma seg_last off ts en d : seg off ts en -> ts <> [] -> tend (last ts d) = en.
  Proof.
    revert off. induction ts as [|t r IH]; intros off H Hn; [congruence|].
    cbn [seg] in H. destruct H as (_ & _ & H). destruct r as [|u r].
    - cbn [seg] in H. cbn [last]. tauto.
    - rewrite last_cons_ne by discriminate. eapply IH; [exact H|discriminate].
  Qed.

  Lemma seg_In off ts en t : seg off ts en -> In t ts -> tok_in t /\ off <= tstart t /\ tend t <= en.
  Proof.
    revert off. induction ts as [|u r IH]; intros off H Hi; [destruct Hi|].
    cbn [seg] in H. destruct H as (<- & H1 & H2). destruct Hi as [->|Hi].
    - split; [exact H1|]. apply seg_le in H2. lia.
    - destruct (IH _ H2 Hi) as (A & B & C). split; [exact A|]. pose proof (tok_in_lt u H1). lia.
  Qed.

  Lemma seg_Forall off ts en : seg off ts en -> Forall tok_in ts.
  Proof. intro H. apply Forall_forall. intros t Ht. eapply seg_In in Ht; [|exact H]. tauto. Qed.

  Lemma seg_tokens_span off ts en : seg off ts en -> ts <> [] -> tokens_span ts = (off, en).
  Proof.
    intros H Hn. destruct ts as [|t r]; [congruence|]. unfold tokens_span.
    rewrite (seg_last _ _ _ t H Hn). cbn [seg] in H. destruct H as (-> & _). reflexivity.
  Qed.

  Lemma tokens_span_ok off ts en : seg off ts en -> span_ok src (tokens_span ts).
  Proof.
    intro H. destruct ts as [|t r] eqn:E.
    - cbn [tokens_span]. apply span_ok_pos. apply bnd_0.
    - rewrite (seg_tokens_span off _ en H) by discriminate. eapply seg_span_ok; exact H.
  Qed.

  Lemma seg_split off ts en n :
    seg off ts en -> exists mid, seg off (firstn n ts) mid /\ seg mid (skipn n ts) en.
  Proof. intro H. apply seg_app. rewrite firstn_skipn. exact H. Qed.

  Lemma seg_nil off : bnd off -> seg off [] off.
  Proof. intro H. cbn [seg]. tauto. Qed.

  Lemma seg_snoc off ts mid t : seg off ts mid -> tstart t = mid -> tok_in t -> seg off (ts ++ [t]) (tend t).
  Proof.
    intros H1 H2 H3. apply seg_app. exists mid. split; [exact H1|]. cbn [seg].
    split; [exact H2|]. split; [exact H3|]. split; [reflexivity|]. apply tok_in_bnd_r; exact H3.
  Qed.

  (* the tokens of a segment form one located slice *)
  Lemma seg_sub off ts en : seg off ts en -> sub src (concat (map tstr ts)) off /\ en = off + blen (concat (map tstr ts)).
  Proof.
    revert off. induction ts as [|t r IH]; intros off H; cbn [seg map concat] in *.
    - destruct H as (<- & H). split; [apply sub_nil; exact H | cbn [blen]; lia].
    - destruct H as (<- & H1 & H2). destruct (IH _ H2) as (A & B). split.
      + apply sub_app; [apply H1 | exact A].
      + rewrite blen_app. unfold tend in B. lia.
  Qed.
End Located.
