(* Property C17, the padded block comment: the functions of Model/Parser.v below the components (alias,
   intermediate references, modifiers, note, component body) and the single-line and text blocks, under
   [psim] / [qsim], with the logic of EditPadPrim.v.  Functions that get a token list need the list
   relation [qsim] only (a gap is made of blanks and comments: the text builder renders it to blanks, the
   kind tests do not see it); what stands between braces is in lock step, so the quantity functions are
   those of EditTrailQty.v. *)
From Coq Require Import List Lia.
From CL Require Import Base.StrLemmas Model.Lexer Model.PText Model.CommentMask Model.Parser Model.Edits
  Proofs.EditParserProofs Proofs.EditSimDefs Proofs.EditSimQty Proofs.EditSimComp Proofs.EditInsDefs Proofs.EditInsPrim.
From CL Require Import Proofs.EditTrailDefs Proofs.EditTrailStr Proofs.EditTrailPrim Proofs.EditTrailQty Proofs.EditTrailFun
  Proofs.EditTrailLine Proofs.EditPadDefs Proofs.EditPadPrim.
Import ListNotations.

(* ================================================================ logic: `?` with a state predicate that depends on the result *)
Lemma HJ_obindM_d {A1 A2 B1 B2} (P : bp -> bp -> Prop) (RA : A1 -> A2 -> Prop) (PP : option A1 -> bp -> bp -> Prop)
      (m1 : M (option A1)) (m2 : M (option A2)) (f1 : A1 -> M (option B1)) (f2 : A2 -> M (option B2))
      (Q : option B1 -> bp -> option B2 -> bp -> Prop) :
  HJ P m1 m2 (fun o1 s1 o2 s2 => orel RA o1 o2 /\ PP o1 s1 s2) ->
  (forall a1 a2, RA a1 a2 -> HJ (PP (Some a1)) (f1 a1) (f2 a2) Q) ->
  (forall s1 s2, PP None s1 s2 -> Q None s1 None s2) ->
  HJ P (obindM m1 f1) (obindM m2 f2) Q.
Proof.
  intros Hm Hf Hn. unfold obindM. eapply HJ_bind; [exact Hm|].
  intros [a1|] [a2|] s1 s2 [Ho S]; cbn [orel] in Ho; try contradiction.
  - exact (Hf a1 a2 Ho s1 s2 S).
  - cbn. apply Hn. exact S.
Qed.

Lemma HJ_pre {A B} (P P' : bp -> bp -> Prop) (Q : A -> bp -> B -> bp -> Prop) (m1 : M A) (m2 : M B) :
  (forall s1 s2, P' s1 s2 -> P s1 s2) -> HJ P m1 m2 Q -> HJ P' m1 m2 Q.
Proof. intros HP H. eapply HJ_conseq; [exact HP | exact H | auto]. Qed.

Lemma WL_HJ {A B} (T T' : TR) (R : A -> B -> Prop) (m1 : M A) (m2 : M B) :
  WL T R m1 m2 T' -> HJ (Sw T) m1 m2 (fun a s1 b s2 => R a b /\ Sw T' s1 s2).
Proof. intro H. exact H. Qed.

(* from any place *)
Lemma WL_from_psim {A B} m (R : A -> B -> Prop) (m1 : M A) (m2 : M B) (T' : TR) :
  WL pany R m1 m2 T' -> WL (psim m) R m1 m2 T'.
Proof. intro H. eapply WL_pre; [|exact H]. intros l1 l2 X. exists m. exact X. Qed.

Ltac wn_err_ret := eapply WN_bind; [first [apply WN_error_any | apply WN_warn]|]; intros _ _ _; apply WN_ret.

Section Fun.
  Variable cfg : pcfg.

  (* ================================================================ A. functions of a token list *)
  Lemma parse_alias_q ts1 ts2 o1 o2 : qsim ts1 ts2 ->
    WN (prel (trw false) (orel (trw false))) (parse_alias cfg ts1 o1) (parse_alias cfg ts2 o2).
  Proof.
    intro H. unfold parse_alias.
    assert (Hplain : WN (prel (trw false) (orel (trw false))) (nt <- textM cfg o1 ts1 ;; ret (nt, @None text))
                                                              (nt <- textM cfg o2 ts2 ;; ret (nt, @None text))).
    { eapply WN_bind; [apply WN_textM_q; exact H|]. intros t1 t2 Ht. apply WN_ret. split; [exact Ht | exact I]. }
    destruct (has cfg X_COMPONENT_ALIAS); [|exact Hplain].
    pose proof (qsim_split (fun k => tk_eqb k KOr) ts1 ts2 eq_refl eq_refl H) as X.
    destruct (position (fun k => tk_eqb k KOr) ts1) as [n1|] eqn:P1,
             (position (fun k => tk_eqb k KOr) ts2) as [n2|] eqn:P2; try contradiction; [|exact Hplain].
    destruct X as [Xn (sep1 & sep2 & a1 & a2 & E1 & E2 & Hsep & _ & Ha)]. rewrite E1, E2.
    eapply WN_bind; [apply WN_textM_q; exact Ha|]. intros at1 at2 Hat.
    eapply WN_bind with (RA := orel (trw false)).
    - rewrite (qsim_existsb (fun k => tk_eqb k KOr) _ _ eq_refl eq_refl Ha).
      destruct (existsb _ a2); [wn_err_ret; exact I|].
      rewrite (trw_empty _ _ _ Hat). destruct (is_text_empty at2); [wn_err_ret; exact I|].
      apply WN_ret. exact Hat.
    - intros al1 al2 Hal. eapply WN_bind; [apply WN_textM_q; exact Xn|].
      intros t1 t2 Ht. apply WN_ret. split; [exact Ht | exact Hal].
  Qed.

  (* ---------------------------------------------------------------- intermediate references *)
  Lemma inter_tail_q (RA : list tok -> list tok -> Prop) fl1 fl2 sl1 sl2 in1 in2 af1 af2 : ksim fl1 fl2 -> RA af1 af2 ->
    WN (prel (orel irel) RA) (inter_tail fl1 sl1 in1 af1) (inter_tail fl2 sl2 in2 af2).
  Proof.
    intros Hf Haf. pose proof (Forall2_rev' _ _ _ Hf) as Hrv. unfold inter_tail.
    assert (Herr : forall c l1 l2, WN (prel (orel irel) RA) (error c l1 ;;; ret (@None interdata, af1))
                                      (error c l2 ;;; ret (@None interdata, af2))).
    { intros c l1 l2. wn_err_ret. split; [exact I | exact Haf]. }
    assert (Hgood : forall i1 i2 c rl sc, krel i1 i2 -> c && tk_eqb (kind i2) KInt = true ->
      WN (prel (orel irel) RA)
         (if digits_val (tstr i1) <=? i16_max
          then ret (Some {| im_relative := rl; im_section := sc; im_val := digits_val (tstr i1); im_span := tokens_span sl1 |}, af1)
          else error D_INTER_INT [tok_span i1] ;;; ret (None, af1))
         (if digits_val (tstr i2) <=? i16_max
          then ret (Some {| im_relative := rl; im_section := sc; im_val := digits_val (tstr i2); im_span := tokens_span sl2 |}, af2)
          else error D_INTER_INT [tok_span i2] ;;; ret (None, af2))).
    { intros i1 i2 c rl sc Hi E. rewrite (krel_int_tstr _ _ _ Hi E).
      destruct (digits_val (tstr i2) <=? i16_max); [|apply Herr]. apply WN_ret. split; [reflexivity | exact Haf]. }
    destruct Hf as [|a1 a2 g1 g2 Ha Hg]; [apply Herr|].
    destruct Hg as [|b1 b2 g1 g2 Hb Hg].
    { cbv iota. rewrite (krel_kind _ _ Ha). destruct (tk_eqb (kind a2) KInt) eqn:E; [|apply Herr].
      apply (Hgood a1 a2 true); [exact Ha | exact E]. }
    destruct Hg as [|c1 c2 g1 g2 Hc Hg].
    { cbv iota. rewrite (krel_kind _ _ Ha), (krel_kind _ _ Hb).
      destruct (tk_eqb (kind a2) KTilde && tk_eqb (kind b2) KInt) eqn:E1; [apply (Hgood b1 b2 _ _ _ Hb E1)|].
      destruct (tk_eqb (kind a2) KEq && tk_eqb (kind b2) KInt) eqn:E2; [apply (Hgood b1 b2 _ _ _ Hb E2)|].
      destruct ((tk_eqb (kind a2) KMinus || tk_eqb (kind a2) KPlus) && tk_eqb (kind b2) KInt); apply Herr. }
    destruct Hg as [|d1 d2 g1 g2 Hd Hg].
    { cbv iota. rewrite (krel_kind _ _ Ha), (krel_kind _ _ Hb), (krel_kind _ _ Hc).
      destruct (tk_eqb (kind a2) KEq && tk_eqb (kind b2) KTilde && tk_eqb (kind c2) KInt) eqn:E1;
        [apply (Hgood c1 c2 _ _ _ Hc E1)|].
      destruct (tk_eqb (kind a2) KTilde && tk_eqb (kind b2) KEq && tk_eqb (kind c2) KInt); [apply Herr|].
      destruct ((tk_eqb (kind b2) KMinus || tk_eqb (kind b2) KPlus) && tk_eqb (kind c2) KInt); apply Herr. }
    cbv iota zeta.
    remember (rev (a1 :: b1 :: c1 :: d1 :: g1)) as rv1 eqn:Er1. remember (rev (a2 :: b2 :: c2 :: d2 :: g2)) as rv2 eqn:Er2.
    clear Er1 Er2. destruct Hrv as [|i1 i2 w1 w2 Hi Hw]; [apply Herr|].
    destruct Hw as [|s1 s2 w1 w2 Hs Hw]; [apply Herr|].
    rewrite (krel_kind _ _ Hi), (krel_kind _ _ Hs).
    destruct ((tk_eqb (kind s2) KMinus || tk_eqb (kind s2) KPlus) && tk_eqb (kind i2) KInt); apply Herr.
  Qed.

  Lemma qsynced_tl (f : tkind -> bool) l1 l2 n1 n2 : qsynced f (skipn n1 l1) (skipn n2 l2) -> qsim (skipn (S n1) l1) (skipn (S n2) l2).
  Proof.
    intros (a & b & r1 & r2 & E1 & E2 & _ & _ & H). rewrite <- (tl_skipn_tok n1), <- (tl_skipn_tok n2), E1, E2. exact H.
  Qed.

  Lemma parse_inter_q ts1 ts2 : qsim ts1 ts2 -> WN (prel (orel irel) qsim) (parse_inter ts1) (parse_inter ts2).
  Proof.
    intro H. rewrite !parse_inter_unfold. pose proof (qsim_hd _ _ H) as Hh. pose proof (qsim_nil_iff _ _ H) as Hnil.
    destruct ts1 as [|t01 r1], ts2 as [|t02 r2];
      try (exfalso; destruct Hnil as [A B]; first [discriminate (A eq_refl) | discriminate (B eq_refl)]).
    { apply WN_ret. split; [exact I | exact H]. }
    cbn [hdk] in Hh. rewrite <- Hh.
    destruct (tk_eqb (kind t01) KOpenParen) eqn:K0; cbn [negb]; [|apply WN_ret; split; [exact I | exact H]].
    apply tkb_true in K0.
    assert (Kw : kind t01 <> KWs) by (rewrite K0; discriminate).
    destruct (qsim_cons_inv _ _ _ H Kw) as (t02' & r2' & E' & H0 & Hr). inversion E'; subst t02' r2'. clear E'.
    pose proof (qsim_split (fun k => tk_eqb k KCloseParen) _ _ eq_refl eq_refl H) as X.
    destruct (position (fun k => tk_eqb k KCloseParen) (t01 :: r1)) as [n1|] eqn:P1,
             (position (fun k => tk_eqb k KCloseParen) (t02 :: r2)) as [n2|] eqn:P2; try contradiction; [|apply WN_panic_l].
    destruct X as [Xn Xs]. pose proof (qsynced_tl _ _ _ _ _ Xs) as Haf.
    assert (F01 : tk_eqb (kind t01) KCloseParen = false) by (rewrite K0; reflexivity).
    assert (F02 : tk_eqb (kind t02) KCloseParen = false) by (rewrite <- Hh, K0; reflexivity).
    destruct (position_cons_false_w _ _ _ _ F01 P1) as (e1 & -> & Q1).
    destruct (position_cons_false_w _ _ _ _ F02 P2) as (e2 & -> & Q2).
    rewrite !inter_inner_w. cbn [firstn] in Xn.
    assert (Hin : qsim (firstn e1 r1) (firstn e2 r2)).
    { destruct (qsim_cons_inv _ _ _ Xn Kw) as (b' & q' & E' & _ & X'). inversion E'; subst. exact X'. }
    apply inter_tail_q; [|exact Haf]. exact (qsim_filter_nwb _ _ Hin).
  Qed.

  Lemma parse_mods_loop_q : forall f1 f2 ts1 ts2 ms1 ms2 mods i1 i2, qsim ts1 ts2 -> orel irel i1 i2 ->
    WN (prel eq (orel irel)) (parse_mods_loop cfg f1 ts1 ms1 mods i1) (parse_mods_loop cfg f2 ts2 ms2 mods i2).
  Proof.
    induction f1 as [|f1 IH]; intros f2 ts1 ts2 ms1 ms2 mods i1 i2 Hts Hi; [apply WN_panic_l|].
    destruct f2 as [|f2]; [apply WN_panic_r|]. cbn [parse_mods_loop].
    pose proof (qsim_nil_iff _ _ Hts) as Hnil.
    destruct ts1 as [|t1 r1], ts2 as [|t2 r2];
      try (exfalso; destruct Hnil as [A B]; first [discriminate (A eq_refl) | discriminate (B eq_refl)]).
    { apply WN_ret. split; [reflexivity | exact Hi]. }
    destruct (mod_bit (kind t1)) as [bit|] eqn:Eb; [|apply WN_panic_l].
    assert (Kw : kind t1 <> KWs) by (intro E; rewrite E in Eb; discriminate).
    destruct (qsim_cons_inv _ _ _ Hts Kw) as (t2' & r2' & E' & Ht & Hr). inversion E'; subst t2' r2'. clear E'.
    rewrite <- (krel_kind _ _ Ht), Eb.
    eapply WN_bind with (RA := prel (orel irel) qsim).
    - destruct (tk_eqb (kind t1) KAnd && has cfg X_INTERMEDIATE_PREPARATIONS);
        [apply parse_inter_q; exact Hr | apply WN_ret; split; assumption].
    - intros [j1 q1] [j2 q2] [Hj Hq]. cbn [fst snd] in Hj, Hq.
      destruct (N.land mods bit =? bit); [|apply IH; assumption].
      eapply WN_bind; [apply WN_error|]. intros _ _ _. apply IH; assumption.
  Qed.

  Lemma parse_modifiers_q mts1 mts2 p1 p2 : qsim mts1 mts2 ->
    WN mrel (parse_modifiers cfg mts1 p1) (parse_modifiers cfg mts2 p2).
  Proof.
    intro H. unfold parse_modifiers. pose proof (qsim_nil_iff _ _ H) as Hnil.
    destruct mts1 as [|a r1], mts2 as [|b r2];
      try (exfalso; destruct Hnil as [A B]; first [discriminate (A eq_refl) | discriminate (B eq_refl)]).
    { apply WN_ret. split; [reflexivity | exact I]. }
    eapply WN_bind.
    - apply parse_mods_loop_q with (i1 := None) (i2 := None); [exact H | exact I].
    - intros [m1 j1] [m2 j2] [Hm Hj]. apply WN_ret. split; assumption.
  Qed.

  (* ================================================================ B. modifiers *)
  Lemma qsim_one k t1 t2 : krelk k t1 t2 -> qsim [t1] [t2].
  Proof. intros [H _]. apply q_cons; [exact H | constructor]. Qed.

  Lemma paren_group_p : WL pany (orel qsim) paren_group_w paren_group_w pany.
  Proof.
    unfold paren_group_w. apply WL_with_recover.
    eapply WL_obindM; [apply PL_consume; discriminate | | auto]. intros op1 op2 Hop.
    eapply WL_obindM; [apply PL_until; reflexivity | | auto]. intros in1 in2 Hin.
    eapply WL_bind; [apply PL_bump; discriminate|]. intros cp1 cp2 Hcp. apply WL_ret. cbn [orel].
    change (op1 :: in1 ++ [cp1]) with ([op1] ++ in1 ++ [cp1]). change (op2 :: in2 ++ [cp2]) with ([op2] ++ in2 ++ [cp2]).
    apply qsim_app; [exact (qsim_one _ _ _ Hop)|]. apply qsim_app; [exact Hin | exact (qsim_one _ _ _ Hcp)].
  Qed.

  Lemma modifiers_loop_p : forall f1 f2 acc1 acc2, qsim acc1 acc2 ->
    WL pany qsim (modifiers_loop cfg f1 acc1) (modifiers_loop cfg f2 acc2) pany.
  Proof.
    induction f1 as [|f1 IH]; intros f2 acc1 acc2 Hacc; [apply WL_panic_l|].
    destruct f2 as [|f2]; [apply WL_panic_r|]. cbn [modifiers_loop].
    unfold WL. apply HJ_pany_elim. intro m. eapply HJ_bind_d; [apply PJ_peek|]. intros k1 k2 <-. cbv beta.
    assert (Hret : HJ (Sw (phead m k1)) (ret acc1) (ret acc2) (fun a s1 b s2 => qsim a b /\ Sw pany s1 s2)).
    { apply HJ_ret. intros s1 s2 S. split; [exact Hacc|]. eapply Sw_mono; [|exact S]. intros l1 l2 [X _]. exists m. exact X. }
    assert (Hstep : forall k, k <> KWs -> k1 = k ->
              HJ (Sw (phead m k1)) (t <- bump_any ;; modifiers_loop cfg f1 (acc1 ++ [t]))
                                   (t <- bump_any ;; modifiers_loop cfg f2 (acc2 ++ [t]))
                 (fun a s1 b s2 => qsim a b /\ Sw pany s1 s2)).
    { intros k Kk ->. eapply HJ_bind_d; [apply PJ_bump_any_k; exact Kk|]. intros t1 t2 Ht. cbv beta.
      apply (WL_from_psim (pnext m k)). apply IH. apply qsim_app; [exact Hacc | exact (qsim_one _ _ _ Ht)]. }
    destruct k1; try exact Hret;
      try (first [ solve [apply (Hstep KAt); [discriminate | reflexivity]]
                 | solve [apply (Hstep KQuestion); [discriminate | reflexivity]]
                 | solve [apply (Hstep KPlus); [discriminate | reflexivity]]
                 | solve [apply (Hstep KMinus); [discriminate | reflexivity]] ]).
    eapply HJ_bind_d; [apply PJ_bump_any_k; discriminate|]. intros t1 t2 Ht. cbv beta.
    pose proof (qsim_app _ _ _ _ Hacc (qsim_one _ _ _ Ht)) as Hacc'.
    apply (WL_from_psim (pnext m KAnd)).
    destruct (has cfg X_INTERMEDIATE_PREPARATIONS); [|apply IH; exact Hacc'].
    eapply WL_bind; [apply paren_group_p|].
    intros [ts1|] [ts2|] Hts; cbn [orel] in Hts; try contradiction.
    - replace (acc1 ++ t1 :: ts1) with ((acc1 ++ [t1]) ++ ts1) by (rewrite <- app_assoc; reflexivity).
      replace (acc2 ++ t2 :: ts2) with ((acc2 ++ [t2]) ++ ts2) by (rewrite <- app_assoc; reflexivity).
      apply IH. apply qsim_app; assumption.
    - apply IH. exact Hacc'.
  Qed.

  Lemma modifiers_p : WL pany qsim (modifiers cfg) (modifiers cfg) pany.
  Proof.
    unfold modifiers. destruct (negb (has cfg X_COMPONENT_MODIFIERS)); [apply WL_ret; constructor|].
    eapply WL_bind; [apply WL_rest|]. intros r1 r2 _. apply modifiers_loop_p. constructor.
  Qed.

  (* ================================================================ B. notes *)
  Lemma note_p : WL pany (orel (trw false)) (note cfg) (note cfg) pany.
  Proof.
    unfold note. apply WL_with_recover.
    eapply WL_obindM; [apply PL_consume; discriminate | | auto]. intros op1 op2 _.
    eapply WL_bind; [apply WN_of; apply WN_current_offset|]. intros off1 off2 _.
    eapply WL_obindM; [apply PL_until; reflexivity | | auto]. intros n1 n2 Hn.
    eapply WL_bind; [apply PL_bump; discriminate|]. intros cp1 cp2 _.
    eapply WL_bind; [apply WN_of; apply WN_textM_q; exact Hn|]. intros t1 t2 Ht. apply WL_ret. exact Ht.
  Qed.

  Lemma check_note_p : WL pany anyrel (check_note cfg) (check_note cfg) pany.
  Proof.
    unfold check_note. eapply WL_bind with (RA := orel (@anyrel unit unit)); [|intros _ _ _; apply WL_ret; exact I].
    apply WL_with_recover.
    eapply WL_obindM; [apply PL_consume; discriminate | | auto]. intros op1 op2 _.
    eapply WL_obindM; [apply PL_until; reflexivity | | auto]. intros i1 i2 _.
    eapply WL_bind; [apply PL_bump; discriminate|]. intros cp1 cp2 _. cbv zeta.
    eapply WL_bind with (RA := anyrel).
    { destruct (tstart op1 =? 0); [apply WL_panic_l|]. destruct (tstart op2 =? 0); [apply WL_panic_r|]. apply WL_ret. exact I. }
    intros _ _ _. eapply WL_bind; [apply WN_of; apply WN_warn|]. intros _ _ _. apply WL_ret. exact I.
  Qed.

  (* ================================================================ B. the body of a component *)
  Definition brp (b1 b2 : body) : Prop :=
    qsim (bd_name b1) (bd_name b2) /\ (bd_close b1 = None <-> bd_close b2 = None) /\ orel Wi (bd_qty b1) (bd_qty b2).

  Definition braced : M (option body) :=
    name <-? until is_marker_or_open ;;
    ob <-? consume KOpenBrace ;;
    qty <-? until (fun k => tk_eqb k KCloseBrace) ;;
    cb <- bump KCloseBrace ;;
    let not_empty := existsb (fun t => negb (is_ws_block (kind t))) qty in
    ret (Some {| bd_name := name; bd_close := Some (tstart ob, tend cb);
                 bd_qty := if not_empty then Some qty else None |}).

  Lemma braced_p : WL pany (orel brp) braced braced pany.
  Proof.
    unfold WL, braced. apply HJ_pany_elim. intro m.
    eapply HJ_obindM_d with (RA := qsim)
      (PP := fun o s1 s2 => match o with Some l => Sw (psynced is_marker_or_open (pmode_after m l)) s1 s2 | None => Sw pany s1 s2 end).
    - eapply HJ_conseq; [intros s1 s2 X; exact X | apply (PJ_until is_marker_or_open m); reflexivity|].
      intros o1 s1 o2 s2 [Ho S]. destruct o1 as [l1|], o2 as [l2|]; cbn [orel] in *; try contradiction.
      + split; [exact (psim_qsim _ _ _ Ho) | exact S].
      + split; [exact I | exact (Sw_psim_pany _ _ _ S)].
    - intros n1 n2 Hn. set (m' := pmode_after m n1).
      apply (HJ_pre (Sw (psim m'))); [intros s1 s2 S; eapply Sw_mono; [|exact S]; intros x y Hxy; exact (psynced_psim _ _ _ _ Hxy)|].
      eapply HJ_obindM_d with (RA := krelk KOpenBrace)
        (PP := fun o s1 s2 => match o with Some _ => Sw (psim (pnext m' KOpenBrace)) s1 s2 | None => Sw pany s1 s2 end).
      + eapply HJ_conseq; [intros s1 s2 X; exact X | apply (PJ_consume KOpenBrace m'); discriminate|].
        intros o1 s1 o2 s2 [Ho S]. split; [exact Ho|]. destruct o1; [exact S | exact (Sw_psim_pany _ _ _ S)].
      + intros ob1 ob2 Hob.
        eapply HJ_obindM_d with (RA := Wi) (PP := fun _ s1 s2 => Sw pany s1 s2).
        * eapply HJ_conseq; [intros s1 s2 X; exact X | apply (PJ_until_in (fun k => tk_eqb k KCloseBrace) (pnext m' KOpenBrace)); reflexivity|].
          intros o1 s1 o2 s2 X. exact X.
        * intros q1 q2 Hq. eapply HJ_bind_d; [apply PL_bump; discriminate|]. intros cb1 cb2 _. cbv beta.
          apply HJ_ret. intros s1 s2 S. split; [|exact S]. cbn [orel]. split; [exact Hn|]. split; [cbn; split; discriminate|].
          cbn [bd_qty]. rewrite (wi_existsb_nwb _ _ Hq). destruct (existsb _ q2); [exact Hq | exact I].
        * intros s1 s2 S. split; [exact I | exact S].
      + intros s1 s2 S. split; [exact I | exact S].
    - intros s1 s2 S. split; [exact I | exact S].
  Qed.

  Lemma comp_body_p : WL pany (orel brp) comp_body comp_body pany.
  Proof.
    unfold comp_body. eapply WL_bind with (RA := orel brp).
    - apply WL_with_recover. exact braced_p.
    - intros [b1|] [b2|] Hb; cbn [orel] in Hb; try contradiction; [apply WL_ret; exact Hb|].
      apply WL_with_recover.
      eapply WL_bind; [apply (PL_consume_while_stop is_single_word_tok); reflexivity|]. intros ts1 ts2 (_ & Hts & Gts).
      destruct Hts as [|a b r1 r2 Hab Hr].
      + eapply WL_bind; [apply WL_rest|]. intros r1 r2 Hr.
        eapply WL_bind; [apply PL_at_kind; auto|]. intros w1 w2 <-.
        eapply WL_bind with (RA := anyrel); [|intros _ _ _; apply WL_ret; exact I].
        apply WN_of. pose proof (pany_nil_iff _ _ Hr) as Hnil.
        destruct r1 as [|x r1], r2 as [|y r2];
          try (exfalso; destruct Hnil as [A B]; first [discriminate (A eq_refl) | discriminate (B eq_refl)]).
        * apply WN_ret. exact I.
        * destruct w1; [apply WN_ret; exact I|]. eapply WN_bind; [apply WN_current_offset|]. intros c1 c2 _. apply WN_warn.
      + apply WL_ret. cbn [orel]. split; [|split; [cbn; tauto | exact I]]. cbn [bd_name].
        apply ksim_qsim. constructor; assumption.
  Qed.

  (* ================================================================ C. the metadata line *)
  (* the tokens of a line whose place in the line is known *)
  Definition pL (l : lmode) (r1 r2 : list tok) : Prop := (exists m, pln m = l /\ psim m r1 r2) /\ no_nl r1.

  Lemma pL_pany l r1 r2 : pL l r1 r2 -> pany r1 r2.
  Proof. intros [(m & _ & H) _]. exists m. exact H. Qed.

  Definition mdp (e1 e2 : pevent) : Prop :=
    match e1, e2 with
    | EvMetadata k1 v1, EvMetadata k2 v2 => trw false k1 k2 /\ trel v1 v2
    | _, _ => False
    end.

  Lemma mdp_erel e1 e2 : mdp e1 e2 -> erel e1 e2.
  Proof.
    destruct e1, e2; cbn; try contradiction. intros [Hk Hv]. unfold erel. cbn.
    rewrite (trw_tx _ _ _ Hk), (trel_outer _ _ Hv). reflexivity.
  Qed.

  Lemma no_nl_tl a r : no_nl (a :: r) -> no_nl r.
  Proof. unfold no_nl. cbn [forallb]. intro H. apply andb_prop in H as [_ H]. exact H. Qed.

  Lemma pln_after_key l : forall m, pln m = LMeta -> no_nl l ->
    forallb (fun t => negb (tk_eqb (kind t) KColon)) l = true -> pln (pmode_after m l) = LMeta.
  Proof.
    induction l as [|t r IH]; intros m Hm N C; [exact Hm|]. cbn [pmode_after]. cbn [forallb] in C. apply andb_prop in C as [Ct Cr].
    unfold no_nl in N. cbn [forallb] in N. apply andb_prop in N as [Nt Nr]. apply negb_true_iff in Ct, Nt.
    apply IH; [|exact Nr | exact Cr]. cbn [pnext pln]. rewrite Hm. unfold lnext. rewrite Nt, Ct. reflexivity.
  Qed.

  Lemma PJ_consume_meta :
    HJ (Sw (pL LStart)) (consume KMeta) (consume KMeta)
       (fun o1 s1 o2 s2 => orel krel o1 o2 /\ match o1 with Some _ => Sw (pL LMeta) s1 s2 | None => Sw pany s1 s2 end).
  Proof.
    intros s1 s2 S. pose proof S as (((m & Hm & Hr) & N) & _).
    pose proof (PJ_consume KMeta m ltac:(discriminate) s1 s2 (Sw_rest _ _ _ _ S Hr)) as X.
    rewrite !consume_step in *. destruct (b_rest s1) as [|a r1] eqn:E1.
    - cbn [tk_eqb tkind_beq] in *. destruct (b_rest s2) as [|b r2]; [destruct X as [_ X]; split; [exact I | exact (Sw_psim_pany _ _ _ X)]|].
      destruct (tk_eqb (kind b) KMeta); [destruct X as [X _]; contradiction|]. destruct X as [_ X]. split; [exact I | exact (Sw_psim_pany _ _ _ X)].
    - destruct (tk_eqb (kind a) KMeta) eqn:Ea.
      + apply tkb_true in Ea. destruct (b_rest s2) as [|b r2]; [cbn [tk_eqb tkind_beq] in X; destruct X as [X _]; contradiction|].
        destruct (tk_eqb (kind b) KMeta); [|destruct X as [X _]; contradiction]. destruct X as [[Hab _] X]. split; [exact Hab|].
        pose proof X as (Xr & _). apply (Sw_rest _ _ _ _ X). split; [|cbn; exact (no_nl_tl _ _ N)].
        exists (pnext m KMeta). split; [|exact Xr]. cbn [pnext pln]. rewrite Hm. reflexivity.
      + destruct (b_rest s2) as [|b r2]; [cbn [tk_eqb tkind_beq] in X; destruct X as [_ X]; split; [exact I | exact (Sw_psim_pany _ _ _ X)]|].
        destruct (tk_eqb (kind b) KMeta); [destruct X as [X _]; contradiction|]. destruct X as [_ X]. split; [exact I | exact (Sw_psim_pany _ _ _ X)].
  Qed.

  Definition is_colon (k : tkind) : bool := tk_eqb k KColon.

  Lemma PJ_until_colon :
    HJ (Sw (pL LMeta)) (until is_colon) (until is_colon)
       (fun o1 s1 o2 s2 => orel qsim o1 o2 /\ match o1 with Some _ => Sw (pL LMeta) s1 s2 | None => Sw pany s1 s2 end).
  Proof.
    intros s1 s2 S. pose proof S as (((m & Hm & Hr) & N) & _). unfold until.
    pose proof (psim_split is_colon m _ _ eq_refl eq_refl Hr) as X.
    destruct (position is_colon (b_rest s1)) as [n1|] eqn:P1, (position is_colon (b_rest s2)) as [n2|]; try contradiction.
    - destruct X as [X1 X2]. split; [exact (psim_qsim _ _ _ X1)|]. apply (Sw_advance _ _ _ _ _ _ S). split; [|apply no_nl_skipn; exact N].
      exists (pmode_after m (firstn n1 (b_rest s1))). split; [|exact (psynced_psim _ _ _ _ X2)].
      apply pln_after_key; [exact Hm | apply no_nl_firstn; exact N | exact (position_firstn_none is_colon _ _ P1)].
    - split; [exact I|]. eapply Sw_mono; [|exact S]. intros l1 l2. apply pL_pany.
  Qed.

  Lemma PJ_bump_colon :
    HJ (Sw (pL LMeta)) (bump KColon) (bump KColon) (fun a s1 b s2 => krel a b /\ Sw (pL LVal) s1 s2).
  Proof.
    intros s1 s2 S. pose proof S as (((m & Hm & Hr) & N) & _).
    pose proof (PJ_bump KColon m ltac:(discriminate) s1 s2 (Sw_rest _ _ _ _ S Hr)) as X.
    rewrite !bump_step in *. destruct (b_rest s1) as [|a r1] eqn:E1; [exact I|].
    destruct (tk_eqb (kind a) KColon); [|exact I]. destruct (b_rest s2) as [|b r2]; [exact I|].
    destruct (tk_eqb (kind b) KColon); [|exact I]. destruct X as [[Hab _] X]. split; [exact Hab|].
    pose proof X as (Xr & _). apply (Sw_rest _ _ _ _ X). split; [|cbn; exact (no_nl_tl _ _ N)].
    exists (pnext m KColon). split; [|exact Xr]. cbn [pnext pln]. rewrite Hm. reflexivity.
  Qed.

  Lemma PJ_consume_rest_v :
    HJ (Sw (pL LVal)) consume_rest consume_rest (fun l1 s1 l2 s2 => ksim l1 l2 /\ Sw pany s1 s2).
  Proof.
    intros s1 s2 S. pose proof S as (((m & Hm & Hr) & N) & _).
    exact (PJ_consume_rest_val m Hm s1 s2 (conj (Sw_rest _ _ _ _ S Hr) N)).
  Qed.

  Lemma metadata_entry_p :
    HJ (Sw (pL LStart)) (metadata_entry cfg) (metadata_entry cfg) (fun o1 s1 o2 s2 => orel mdp o1 o2 /\ Sw pany s1 s2).
  Proof.
    unfold metadata_entry.
    eapply HJ_obindM_d with (RA := krel) (PP := fun o s1 s2 => match o with Some _ => Sw (pL LMeta) s1 s2 | None => Sw pany s1 s2 end);
      [apply PJ_consume_meta | | intros s1 s2 S; split; [exact I | exact S]].
    intros m1 m2 _. eapply HJ_bind_d; [apply (WN_current_offset (pL LMeta))|]. intros kp1 kp2 _. cbv beta.
    eapply HJ_bind_d with (R := orel qsim)
      (P' := fun o s1 s2 => match o with Some _ => Sw (pL LMeta) s1 s2 | None => Sw pany s1 s2 end); [apply PJ_until_colon|].
    intros [k1|] [k2|] Hk; cbn [orel] in Hk; try contradiction.
    - eapply HJ_bind_d; [apply (WN_textM_q cfg kp1 kp2 _ _ Hk (pL LMeta))|]. intros key1 key2 Hkey. cbv beta.
      eapply HJ_bind_d; [apply PJ_bump_colon|]. intros c1 c2 _. cbv beta.
      eapply HJ_bind_d; [apply (WN_current_offset (pL LVal))|]. intros vp1 vp2 _. cbv beta.
      eapply HJ_bind_d; [apply PJ_consume_rest_v|]. intros v1 v2 Hv. cbv beta.
      apply (WL_HJ pany pany). eapply WL_bind with (RA := trel).
      { apply WN_of. apply WN_lift. apply text_of_rel. exact Hv. }
      intros val1 val2 Hval.
      eapply WL_bind with (RA := anyrel).
      + apply WN_of. rewrite (trw_empty _ _ _ Hkey), (trel_empty _ _ Hval).
        destruct (is_text_empty key2); [apply WN_error|]. destruct (is_text_empty val2); [apply WN_warn|].
        apply WN_ret. exact I.
      + intros _ _ _. apply WL_ret. cbn. split; assumption.
    - apply (WL_HJ pany pany). eapply WL_bind; [apply WN_of; apply WN_all_tokens|]. intros a1 a2 _.
      eapply WL_bind; [apply WN_of; apply WN_warn|]. intros _ _ _. apply WL_ret. exact I.
  Qed.

  (* ================================================================ C. the section header *)
  Lemma section_p_p : WL pany (orel erel) (section_p cfg) (section_p cfg) pany.
  Proof.
    unfold section_p. eapply WL_obindM; [apply PL_consume; discriminate | | auto]. intros e1 e2 _.
    eapply WL_bind; [apply (PL_consume_while_stop (fun k => tk_eqb k KEq)); reflexivity|]. intros x1 x2 _.
    eapply WL_bind; [apply WN_of; apply WN_current_offset|]. intros np1 np2 _.
    eapply WL_bind; [apply (PL_consume_while_pass (fun k => negb (tk_eqb k KEq))); reflexivity|]. intros n1 n2 Hn.
    eapply WL_bind; [apply WN_of; apply WN_textM_q; exact Hn|]. intros name1 name2 Hname.
    eapply WL_bind; [apply (PL_consume_while_stop (fun k => tk_eqb k KEq)); reflexivity|]. intros y1 y2 _.
    unfold WL. eapply HJ_bind; [apply PJ_ws_comments|]. intros _ _ s1 s2 [S Hnil]. revert s1 s2 S Hnil.
    intros s1 s2 S Hnil. unfold bind, rest. destruct (b_rest s1) as [|a r1] eqn:E1, (b_rest s2) as [|b r2] eqn:E2;
      try (exfalso; destruct Hnil as [A B]; first [discriminate (A eq_refl) | discriminate (B eq_refl)]).
    - cbn. split; [|exact S]. unfold erel. cbn. rewrite (trw_empty _ _ _ Hname).
      destruct (is_text_empty name2); [reflexivity|]. cbn. rewrite (trw_tx _ _ _ Hname). reflexivity.
    - pose proof (WN_warn D_SECTION_INVALID [tokens_span (a :: r1)] [tokens_span (b :: r2)] pany s1 s2 S) as X.
      cbn in *. destruct X as [_ X]. split; [exact I | exact X].
  Qed.

  (* ================================================================ C. the paragraph block *)
  Lemma PJ_consume_nog k : k <> KWs \/ True ->
    HJ (Sw pnog) (consume k) (consume k) (fun o1 s1 o2 s2 => orel krel o1 o2 /\ (swt k = false -> Sw pnog s1 s2) /\ Sw pany s1 s2).
  Proof.
    intros _ s1 s2 S. pose proof S as ((m & Hg & Hr) & _).
    assert (K : k = KWs -> gap_ok m = false) by (intros _; unfold gap_ok; rewrite Hg; reflexivity).
    pose proof (PJ_consume k m K s1 s2 (Sw_rest _ _ _ _ S Hr)) as X.
    destruct (consume k s1) as [[o1 s1']|]; [|exact I]. destruct (consume k s2) as [[o2 s2']|]; [|exact I].
    destruct X as [Ho X]. split; [destruct o1, o2; cbn [orel] in *; try contradiction; [exact (proj1 Ho) | exact I]|].
    split; [|exact (Sw_psim_pany _ _ _ X)]. intro Kk. eapply Sw_mono; [|exact X]. intros l1 l2 H.
    destruct o1; [exists (pnext m k); split; [exact Kk | exact H] | exists m; split; assumption].
  Qed.

  Lemma text_block_loop_p : forall f1 f2, WL pnog anyrel (text_block_loop cfg f1) (text_block_loop cfg f2) pnog.
  Proof.
    induction f1 as [|f1 IH]; intro f2; [apply WL_panic_l|]. destruct f2 as [|f2]; [apply WL_panic_r|].
    cbn [text_block_loop].
    eapply WL_bind; [apply WL_rest|]. intros r1 r2 Hr. pose proof (pany_nil_iff _ _ (pnog_pany _ _ Hr)) as Hnil.
    destruct r1 as [|a r1], r2 as [|b r2]; try (exfalso; destruct Hnil as [A B]; first [discriminate (A eq_refl) | discriminate (B eq_refl)]).
    { apply WL_ret. exact I. }
    unfold WL. eapply HJ_bind_d with (R := orel krel) (P' := fun _ s1 s2 => Sw pnog s1 s2).
    { eapply HJ_conseq; [intros s1 s2 X; exact X | apply (PJ_consume_nog KTextStep); right; exact I|].
      intros o1 s1 o2 s2 (Ho & X & _). split; [exact Ho | apply X; reflexivity]. }
    intros g1 g2 Hg. cbv beta.
    eapply HJ_bind_d with (R := anyrel) (P' := fun _ s1 s2 => Sw pany s1 s2).
    { destruct g1, g2; cbn [orel] in Hg; try contradiction.
      - eapply HJ_bind_d with (R := anyrel) (P' := fun _ s1 s2 => Sw pany s1 s2).
        + eapply HJ_conseq; [intros s1 s2 X; exact X | apply (PJ_consume_nog KWs); right; exact I|].
          intros o1 s1 o2 s2 (_ & _ & X). split; [exact I | exact X].
        + intros _ _ _. apply HJ_ret. intros s1 s2 S. split; [exact I | exact S].
      - apply HJ_ret. intros s1 s2 S. split; [exact I|]. eapply Sw_mono; [|exact S]. intros l1 l2. apply pnog_pany. }
    intros _ _ _. cbv beta.
    eapply HJ_bind_d; [apply (WN_current_offset pany)|]. intros st1 st2 _. cbv beta.
    apply HJ_pany_elim. intro m.
    eapply HJ_bind_d with (R := qsim)
      (P' := fun l1 s1 s2 => Sw (psynced (fun k => negb (negb (tk_eqb k KNewline))) (pmode_after m l1)) s1 s2
                             \/ (Sw pany s1 s2 /\ b_rest s1 = [] /\ b_rest s2 = [])).
    { eapply HJ_conseq; [intros s1 s2 X; exact X | apply (PJ_consume_while_pass (fun k => negb (tk_eqb k KNewline)) m); reflexivity|].
      intros l1 s1 l2 s2 [Hl X]. split; [exact (psim_qsim _ _ _ Hl) | exact X]. }
    intros l1 l2 Hline. cbv beta.
    (* the newline token, if there is one *)
    eapply HJ_bind_d with (R := fun n1 n2 => qsim (match n1 with Some n => l1 ++ [n] | None => l1 end) (match n2 with Some n => l2 ++ [n] | None => l2 end))
      (P' := fun _ s1 s2 => Sw pnog s1 s2).
    { intros s1 s2 [S | (S & E1 & E2)].
      - pose proof S as ((a0 & b0 & q1 & q2 & E1 & E2 & Hab & Fa & _ & Hq) & _). rewrite !consume_step, E1, E2.
        rewrite negb_involutive in Fa. rewrite <- (krel_kind _ _ Hab), Fa. split.
        + apply qsim_app; [exact Hline | apply q_cons; [exact Hab | constructor]].
        + apply (Sw_step1 _ _ _ _ _ _ _ _ S). apply tkb_true in Fa. exists (pnext (pmode_after m l1) (kind a0)). split; [rewrite Fa; reflexivity | exact Hq].
      - rewrite !consume_step, E1, E2. cbn [tk_eqb tkind_beq]. split; [exact Hline|]. apply (Sw_rest _ _ _ _ S). rewrite E1, E2. exact pnog_nil. }
    intros n1 n2 Hts. cbv beta. apply (WL_HJ pnog pnog).
    eapply WL_bind; [apply WN_of; apply WN_textM_q; exact Hts|]. intros t1 t2 Ht.
    eapply WL_bind with (RA := anyrel).
    { apply WN_of. rewrite (trw_empty _ _ _ Ht). destruct (is_text_empty t2); [apply WN_ret; exact I|].
      apply WN_event_text. destruct Ht as [Hs _]. exact Hs. }
    intros _ _ _. eapply WL_bind; [apply WL_rest|]. intros q1 q2 Hq.
    destruct (length q1 <? length (a :: r1))%nat; [|apply WL_panic_l].
    destruct (length q2 <? length (b :: r2))%nat; [|apply WL_panic_r].
    apply IH.
  Qed.

  Lemma parse_text_block_p : WL pnog anyrel (parse_text_block cfg) (parse_text_block cfg) pnog.
  Proof.
    unfold parse_text_block. eapply WL_bind; [apply WN_of; apply WN_event; reflexivity|]. intros _ _ _.
    eapply WL_bind; [apply WL_rest|]. intros r1 r2 Hr.
    eapply WL_bind; [apply text_block_loop_p|]. intros _ _ _. apply WN_of. apply WN_event. reflexivity.
  Qed.
End Fun.
