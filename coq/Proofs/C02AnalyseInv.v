(* C02, analysis side: on a stream of "quiet" events the collector of Model/Analysis.v computes
   the same state whatever extension record it is given.  Quiet = the triggers of the three
   gates are absent: no bracketed metadata key (MODES), no number+known-unit phrase in a step
   text (INLINE_QUANTITIES), timers whose quantity is a number with a time unit and no
   reference modifier on ingredients (ADVANCED_UNITS checks).  The modes then stay at their
   defaults (define = all, duplicate = new), which is the invariant of the induction. *)
From CL Require Import Model.Analysis Proofs.C02AnalysisGates.

Section AnalyseInv.
  Variable ci_key : str -> str.
  Variable yaml_ok : str -> bool.
  Variable find_iq : str -> option (str * str).
  Variable unit_class : str -> N.
  Variable input : str.
  Variable cfg : acfg.

  Definition key_bracketed (k : text) : bool :=
    (match text_trimmed k with c :: _ => c =? 91 | [] => false end)
    && (match rev (text_trimmed k) with c :: _ => c =? 93 | [] => false end).

  Definition timer_time_ok (t : p_timer) : bool :=
    match pt_quantity t with
    | Some q => negb (pvalue_is_text (qv_value (pq_value q)))
                && match pq_unit q with Some u => unit_class (text_trimmed u) =? 1 | None => true end
    | None => true
    end.

  Definition quiet_event (e : event) : bool :=
    match e with
    | EMetadata k _ => negb (key_bracketed k)
    | EText t => negb (is_nil (text_str t)) && match find_iq (text_str t) with None => true | Some _ => false end
    | EIngredient ig => negb (m_ref (pi_mods ig)) && match pi_inter ig with None => true | Some _ => false end
    | ETimer t => timer_time_ok t
    | _ => true
    end.

  Definition modes_default (s : astate) : Prop := a_define s = DMAll /\ a_duplicate s = DupNew.

  Lemma metadata_quiet x s k v : key_bracketed k = false -> metadata x s k v = s.
  Proof. intro H. unfold metadata. unfold key_bracketed in H. rewrite <- andb_assoc, H, andb_false_r. reflexivity. Qed.

  Lemma timer_quiet x1 x2 s t : timer_time_ok t = true -> timer unit_class x1 s t = timer unit_class x2 s t.
  Proof.
    intro H. unfold timer, timer_time_ok in *.
    destruct (pt_quantity t) as [q|]; cbn [option_map]; [|reflexivity].
    apply andb_prop in H. destruct H as [H1 H2].
    unfold quantity_info, value_info. cbn [qi_text qi_unit].
    apply negb_true_iff in H1. rewrite H1.
    destruct (pq_unit q) as [u|]; cbn [option_map orb negb]; [rewrite H2|]; cbn [negb]; rewrite !andb_false_r; reflexivity.
  Qed.

  (* without the reference modifier and with the default modes nothing is ever resolved *)
  Lemma resolve_plain s tbl inh new r :
    modes_default s -> m_ref (c_mods new) = false ->
    resolve_reference ci_key s tbl inh new = Done r -> rs_target r = None.
  Proof.
    intros [Hd Hu] Hr. unfold resolve_reference. rewrite Hr, Hd, Hu. rewrite andb_false_r.
    cbn [orb dm_eqb dup_is_ref andb negb].
    destruct (m_new (c_mods new)); intro H; inversion H; reflexivity.
  Qed.

  Lemma ingredient_quiet x1 x2 s ig :
    modes_default s -> m_ref (pi_mods ig) = false -> pi_inter ig = None ->
    ingredient ci_key x1 s ig = ingredient ci_key x2 s ig.
  Proof.
    intros Hm Hr Hi. unfold ingredient. rewrite Hi.
    match goal with |- obind ?R _ = _ => destruct R as [r|p] eqn:E end; cbn [obind]; [|reflexivity].
    assert (T := fun H => resolve_plain _ _ _ _ _ Hm H E). cbn [c_mods] in T. rewrite (T Hr). reflexivity.
  Qed.

  Lemma step_quiet x1 x2 s e :
    modes_default s -> quiet_event e = true ->
    step ci_key yaml_ok find_iq unit_class input x1 cfg s e = step ci_key yaml_ok find_iq unit_class input x2 cfg s e.
  Proof.
    intros Hm Hq. unfold step. destruct (a_halted s); [reflexivity|].
    destruct e; try reflexivity; cbn [quiet_event] in Hq.
    - apply negb_true_iff in Hq. rewrite !(metadata_quiet _ _ _ _ Hq). reflexivity.
    - destruct (a_block s) as [[items|tx]|]; try reflexivity.
      apply andb_prop in Hq. destruct Hq as [Hn Hf]. apply negb_true_iff in Hn.
      destruct (find_iq (text_str t)) eqn:Ef; [discriminate|].
      unfold in_step. destruct (dm_eqb (a_define s) DMComponents); [reflexivity|].
      assert (R : forall x, (if x_inline x
                 then obind (split_iq find_iq (S (length (text_str t))) (text_str t) items (a_inline s))
                        (fun r => let (items', n') := r in Done (set_block (set_inline s n') (Some (BStep items'))))
                 else Done (set_block s (Some (BStep (items ++ [IText (text_str t)])))))
               = Done (set_block s (Some (BStep (items ++ [IText (text_str t)]))))).
      { intro x. destruct (x_inline x); [|reflexivity]. cbn [split_iq]. rewrite Ef, Hn. cbn [obind].
        rewrite set_inline_same. reflexivity. }
      rewrite !R. reflexivity.
    - destruct (a_block s) as [[items|tx]|]; try reflexivity.
      apply andb_prop in Hq. destruct Hq as [Hr Hi]. apply negb_true_iff in Hr.
      destruct (pi_inter i) eqn:Ei; [discriminate|].
      unfold in_step. rewrite (ingredient_quiet x1 x2 s i Hm Hr Ei). reflexivity.
    - destruct (a_block s) as [[items|tx]|]; try reflexivity.
      unfold in_step. rewrite (timer_quiet x1 x2 s t Hq). reflexivity.
  Qed.

  Ltac crunch E :=
    repeat (cbv beta iota zeta in E;
            match type of E with
            | context [match ?x with _ => _ end] => destruct x eqn:?; try discriminate E
            end).

  Ltac fin E Hd Hu :=
    inversion E; subst; split;
    cbn [a_define a_duplicate set_block set_sections set_inline add_error set_ingredients set_cookware
         set_timers set_halted fst snd]; congruence.

  Lemma ingredient_modes x s ig s1 i :
    ingredient ci_key x s ig = Done (s1, i) -> a_define s1 = a_define s /\ a_duplicate s1 = a_duplicate s.
  Proof.
    intro E. unfold ingredient, obind in E. crunch E; inversion E; subst; split; reflexivity.
  Qed.

  Lemma cookware_modes s cw s1 i :
    cookware ci_key s cw = Done (s1, i) -> a_define s1 = a_define s /\ a_duplicate s1 = a_duplicate s.
  Proof.
    intro E. unfold cookware, obind in E. crunch E; inversion E; subst; split; reflexivity.
  Qed.

  (* only a bracketed metadata key ever changes the modes *)
  Lemma step_modes x s e s' :
    step ci_key yaml_ok find_iq unit_class input x cfg s e = Done s' ->
    quiet_event e = true -> modes_default s -> modes_default s'.
  Proof.
    intros E Hq [Hd Hu]. unfold step in E. destruct (a_halted s); [fin E Hd Hu|].
    destruct e; cbn [quiet_event] in Hq.
    - fin E Hd Hu.
    - apply negb_true_iff in Hq. rewrite (metadata_quiet _ _ _ _ Hq) in E. fin E Hd Hu.
    - fin E Hd Hu.
    - fin E Hd Hu.
    - unfold end_block, finish_block in E. crunch E; fin E Hd Hu.
    - unfold in_step, in_text, obind in E. crunch E; fin E Hd Hu.
    - unfold in_step, in_text, obind in E. crunch E;
        try match goal with H : ingredient _ _ _ _ = Done (_, _) |- _ => apply ingredient_modes in H; destruct H end;
        fin E Hd Hu.
    - unfold in_step, in_text, obind in E. crunch E;
        try match goal with H : cookware _ _ _ = Done (_, _) |- _ => apply cookware_modes in H; destruct H end;
        fin E Hd Hu.
    - unfold in_step, in_text, timer, obind in E. crunch E; fin E Hd Hu.
    - fin E Hd Hu.
    - fin E Hd Hu.
  Qed.

  Lemma run_quiet x1 x2 evs : forall s,
    modes_default s -> forallb quiet_event evs = true ->
    run ci_key yaml_ok find_iq unit_class input x1 cfg s evs = run ci_key yaml_ok find_iq unit_class input x2 cfg s evs.
  Proof.
    induction evs as [|e r IH]; intros s Hm Hq; cbn [run]; [reflexivity|].
    cbn [forallb] in Hq. apply andb_prop in Hq. destruct Hq as [He Hr].
    rewrite (step_quiet x1 x2 s e Hm He).
    destruct (step ci_key yaml_ok find_iq unit_class input x2 cfg s e) as [s1|p] eqn:E; cbn [obind]; [|reflexivity].
    apply IH; [exact (step_modes _ _ _ _ E He Hm) | exact Hr].
  Qed.

  Theorem analyse_quiet x1 x2 evs :
    forallb quiet_event evs = true ->
    analyse ci_key yaml_ok find_iq unit_class input x1 cfg evs = analyse ci_key yaml_ok find_iq unit_class input x2 cfg evs.
  Proof.
    intro Hq. unfold analyse. rewrite (run_quiet x1 x2 evs init (conj eq_refl eq_refl) Hq). reflexivity.
  Qed.
End AnalyseInv.
