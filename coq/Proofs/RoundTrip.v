(* Round trips print -> lex -> parse on the models (C01).
   Part 1: the lexer on a concatenation of well-formed tokens (lex_unlex).
   Part 2: numbers: numeric_value on the tokens of a printed number (numeric_print).
   Part 3: Text assembly from tokens (text_of_place), str::trim with blank padding.
   Part 4: parse_quantity on a printed quantity (parse_quantity_print): scaling lock, value
           (number / range / words), unit after `%`, with blanks and comments at every optional
           position, under every extension set (ADVANCED_UNITS falls back to the regular reading). *)
From CL Require Import Base.StrLemmas Model.Lexer Model.Parser Proofs.LexerProofs Proofs.ParserGates Model.Printer.

Lemma span_while_ext p a x r :
  span_while p a = (a, []) -> p x = false -> span_while p (a ++ x :: r) = (a, x :: r).
Proof.
  induction a as [|c a IH]; intros H Hx; cbn [span_while app] in *.
  - rewrite Hx. reflexivity.
  - destruct (p c); [|discriminate].
    destruct (span_while p a) as [a' b'] eqn:E. inversion H; subst.
    rewrite IH; auto.
Qed.

Lemma span_while_self p a b s : span_while p s = (a, b) -> b = [] -> a = s.
Proof. intros H ->. apply span_while_app in H. rewrite app_nil_r in H. auto. Qed.

Lemma bc_closed_ext a rest : bc_closed a = true -> block_body (a ++ rest) = (a, rest).
Proof.
  induction a as [|c a IH]; cbn [bc_closed block_body app]; [discriminate|]. intro H.
  destruct a as [|d a'].
  - cbn [next_is] in *. rewrite andb_false_r in H. cbn in H. discriminate.
  - cbn [next_is app] in *. destruct ((c =? 45) && (d =? 93)) eqn:E.
    + cbn [tl] in *. destruct a'; [|discriminate]. cbn [app].
      apply andb_true_iff in E as [_ E]. apply N.eqb_eq in E. subst. reflexivity.
    + rewrite (IH H). reflexivity.
Qed.

Lemma next_is_app_cons d x t r : next_is d ((x :: t) ++ r) = next_is d (x :: t).
Proof. reflexivity. Qed.

Section Q.
  Variable U : N -> ucls.

  Lemma lex_one_extend c t' k s x rest :
    lex_one U c t' = (k, s, []) -> follow_ok U (c :: t') (Some x) = true ->
    lex_one U c (t' ++ x :: rest) = (k, c :: t', x :: rest).
  Proof.
    intros H F.
    assert (Hs : s = c :: t').
    { apply lex_one_tiles in H as [H _]. rewrite app_nil_r in H. (inversion H; subst; reflexivity). }
    subst s. unfold follow_ok in F. unfold lex_one in *.
    destruct (c =? 92) eqn:E92.
    { destruct t' as [|d t'']; [discriminate|]. destruct t''; [|inversion H]. cbn [app]. inversion H; subst. reflexivity. }
    destruct (c =? 62) eqn:E62.
    { destruct t' as [|d t'']; cbn [next_is app is_nil negb orb tl] in *.
      - destruct (x =? 62); [discriminate|]. (inversion H; subst; reflexivity).
      - destruct (d =? 62); cbn [tl] in *; inversion H; subst; reflexivity. }
    destruct (c =? 45) eqn:E45.
    { destruct t' as [|d t'']; cbn [next_is app is_nil] in *.
      - destruct (x =? 45); [discriminate|]. (inversion H; subst; reflexivity).
      - destruct (d =? 45); [|inversion H].
        destruct (span_while (fun x0 => negb (x0 =? 10)) (d :: t'')) as [a b] eqn:E.
        inversion H; subst. change (d :: t'' ++ x :: rest) with ((d :: t'') ++ x :: rest).
        rewrite (span_while_ext _ _ x rest E); [reflexivity|]. rewrite F. reflexivity. }
    destruct t' as [|d t''].
    - (* single character token *)
      cbn [next_is app is_nil andb tl] in *. rewrite andb_false_r in H. cbn [andb] in F.
      rewrite andb_false_r in F. rewrite !andb_true_r in F.
      destruct (c =? 91) eqn:E91; cbn [andb] in *.
      { destruct (x =? 45); [discriminate|].
        destruct (c =? 10); [inversion H; subst; reflexivity|]. destruct (c =? 13) eqn:E13; cbn [andb] in *.
        { apply N.eqb_eq in E91, E13. congruence. }
        destruct (is_digit c).
        { cbn [span_while] in *. destruct (is_digit x); [discriminate|]. (inversion H; subst; reflexivity). }
        destruct (single_kind c); [inversion H; subst; reflexivity|].
        destruct (is_lex_ws U c).
        { cbn [span_while] in *. destruct (is_lex_ws U x); [discriminate|]. (inversion H; subst; reflexivity). }
        destruct (u_punct (U c)); [inversion H; subst; reflexivity|].
        cbn [span_while] in *. destruct (is_word_char U x); [discriminate|]. (inversion H; subst; reflexivity). }
      destruct (c =? 10); [inversion H; subst; reflexivity|]. destruct (c =? 13) eqn:E13; cbn [andb] in *.
      { destruct (x =? 10); [discriminate|].
        destruct (is_digit c).
        { cbn [span_while] in *. destruct (is_digit x); [discriminate|]. (inversion H; subst; reflexivity). }
        destruct (single_kind c); [inversion H; subst; reflexivity|].
        destruct (is_lex_ws U c).
        { cbn [span_while] in *. destruct (is_lex_ws U x); [discriminate|]. (inversion H; subst; reflexivity). }
        destruct (u_punct (U c)); [inversion H; subst; reflexivity|].
        cbn [span_while] in *. destruct (is_word_char U x); [discriminate|]. (inversion H; subst; reflexivity). }
      destruct (is_digit c).
      { cbn [span_while] in *. destruct (is_digit x); [discriminate|]. (inversion H; subst; reflexivity). }
      destruct (single_kind c); [inversion H; subst; reflexivity|].
      destruct (is_lex_ws U c).
      { cbn [span_while] in *. destruct (is_lex_ws U x); [discriminate|]. (inversion H; subst; reflexivity). }
      destruct (u_punct (U c)); [inversion H; subst; reflexivity|].
      cbn [span_while] in *. destruct (is_word_char U x); [discriminate|]. (inversion H; subst; reflexivity).
    - (* longer token *)
      change ((d :: t'') ++ x :: rest) with (d :: (t'' ++ x :: rest)) in *.
      cbn [next_is is_nil andb tl] in *. rewrite !andb_false_r in F.
      destruct ((c =? 91) && (d =? 45)) eqn:E91.
      { destruct (block_body t'') as [a b] eqn:E. inversion H; subst.
        rewrite (bc_closed_ext _ (x :: rest) F). reflexivity. }
      destruct (c =? 10); [inversion H|].
      destruct ((c =? 13) && (d =? 10)) eqn:E13.
      { inversion H; subst. reflexivity. }
      destruct (is_digit c).
      { destruct (span_while is_digit (d :: t'')) as [a b] eqn:E.
        assert (b = []) by (destruct a; inversion H; reflexivity). subst b.
        pose proof (span_while_self _ _ _ _ E eq_refl). subst a.
        change (d :: t'' ++ x :: rest) with ((d :: t'') ++ x :: rest).
        rewrite (span_while_ext _ _ x rest E); [inversion H; reflexivity|].
        destruct (is_digit x); [discriminate|reflexivity]. }
      destruct (single_kind c); [inversion H|].
      destruct (is_lex_ws U c).
      { destruct (span_while (is_lex_ws U) (d :: t'')) as [a b] eqn:E.
        inversion H; subst.
        change (d :: t'' ++ x :: rest) with ((d :: t'') ++ x :: rest).
        rewrite (span_while_ext _ _ x rest E); [reflexivity|].
        destruct (is_lex_ws U x); [discriminate|reflexivity]. }
      destruct (u_punct (U c)); [inversion H|].
      destruct (span_while (is_word_char U) (d :: t'')) as [a b] eqn:E.
      inversion H; subst.
      change (d :: t'' ++ x :: rest) with ((d :: t'') ++ x :: rest).
      rewrite (span_while_ext _ _ x rest E); [reflexivity|].
      destruct (is_word_char U x); [discriminate|reflexivity].
  Qed.
End Q.

Section R.
  Variable U : N -> ucls.

  Lemma tk_eqb_eq a b : tk_eqb a b = true -> a = b.
  Proof. apply internal_tkind_dec_bl. Qed.

  Lemma tk_eqb_refl a : tk_eqb a a = true.
  Proof. apply internal_tkind_dec_lb. reflexivity. Qed.

  Lemma tok_ok_inv k s :
    tok_ok U (k, s) = true -> exists c t', s = c :: t' /\ lex_one U c t' = (k, s, []).
  Proof.
    unfold tok_ok; cbn [fst snd]. destruct s as [|c t']; [discriminate|].
    destruct (lex_one U c t') as [[k' s'] rest] eqn:E. intro H.
    apply andb_true_iff in H as [H1 H2]. apply tk_eqb_eq in H1. subst k'.
    destruct rest; [|discriminate]. exists c, t'. split; [reflexivity|].
    pose proof (lex_one_tiles U _ _ _ _ _ E) as [Ht _]. rewrite app_nil_r in Ht. subst s'. exact E.
  Qed.

  Lemma lex_fuel_unlex toks : forall fuel off,
    adjacent_ok U toks = true -> (length (unlex toks) <= fuel)%nat ->
    lex_fuel U fuel (unlex toks) off = Some (place off toks).
  Proof.
    induction toks as [|[k s] r IH]; intros fuel off H Hl.
    - destruct fuel; reflexivity.
    - cbn [adjacent_ok snd] in H. apply andb_true_iff in H as [H H3]. apply andb_true_iff in H as [H1 H2].
      destruct (tok_ok_inv _ _ H1) as (c & t' & -> & E).
      unfold unlex in *. cbn [map concat snd] in *. fold (unlex r) in *.
      assert (E' : lex_one U c (t' ++ unlex r) = (k, c :: t', unlex r)).
      { destruct (unlex r) as [|x rest] eqn:Er.
        - rewrite app_nil_r. exact E.
        - cbn [hd_error] in H2. eapply lex_one_extend; eassumption. }
      cbn [app] in *. destruct fuel as [|f]; [cbn in Hl; lia|].
      cbn [lex_fuel]. rewrite E'.
      rewrite (IH f (off + blen (c :: t')) H3).
      + reflexivity.
      + cbn [length] in Hl. rewrite app_length in Hl. lia.
  Qed.

  Theorem lex_unlex toks off :
    adjacent_ok U toks = true -> lex_at U (unlex toks) off = Some (place off toks).
  Proof. intro H. apply lex_fuel_unlex; [exact H | apply le_n]. Qed.
End R.

(* ---------------------------------------------------------------- place *)
Lemma unlex_app a b : unlex (a ++ b) = unlex a ++ unlex b.
Proof. unfold unlex. rewrite map_app, concat_app. reflexivity. Qed.

Lemma place_app a : forall off b, place off (a ++ b) = place off a ++ place (off + blen (unlex a)) b.
Proof.
  induction a as [|t a IH]; intros off b; cbn [place app].
  - unfold unlex; cbn. rewrite N.add_0_r. reflexivity.
  - rewrite IH. unfold unlex; cbn [map concat]. rewrite blen_app, N.add_assoc. reflexivity.
Qed.

Lemma place_forallb (f : tkind -> bool) p : forall off,
  forallb (fun t => f (kind t)) (place off p) = forallb (fun t => f (fst t)) p.
Proof. induction p as [|t p IH]; intro off; cbn [place forallb kind]; [reflexivity|]. rewrite IH. reflexivity. Qed.

Lemma place_existsb (f : tkind -> bool) p : forall off,
  existsb (fun t => f (kind t)) (place off p) = existsb (fun t => f (fst t)) p.
Proof. induction p as [|t p IH]; intro off; cbn [place existsb kind]; [reflexivity|]. rewrite IH. reflexivity. Qed.

Definition blank_t (t : tok) : bool := is_ws_comment (kind t).

Lemma blank_ok_p t : blank_ok t = true -> blank_p t = true.
Proof. unfold blank_ok. intro H. apply andb_true_iff in H as [H _]. apply andb_true_iff in H as [H _]. exact H. Qed.

Lemma forallb_impl {A} (f g : A -> bool) l : (forall x, f x = true -> g x = true) -> forallb f l = true -> forallb g l = true.
Proof. intros Hi H. rewrite forallb_forall in *. auto. Qed.

Lemma place_blank p off : forallb blank_ok p = true -> forallb blank_t (place off p) = true.
Proof.
  intro H. unfold blank_t. rewrite (place_forallb is_ws_comment).
  eapply forallb_impl; [|exact H]. intros x Hx. apply blank_ok_p in Hx. exact Hx.
Qed.

(* ---------------------------------------------------------------- trimming *)
Lemma drop_blank_app a b : forallb blank_t a = true -> drop_ws_comment (a ++ b) = drop_ws_comment b.
Proof.
  induction a as [|t a IH]; cbn [forallb app drop_ws_comment]; [reflexivity|]. intro H.
  apply andb_true_iff in H as [H1 H2]. unfold not_ws_comment. unfold blank_t in H1. rewrite H1. cbn [negb]. auto.
Qed.

Lemma drop_nonblank t r : blank_t t = false -> drop_ws_comment (t :: r) = t :: r.
Proof. intro H. cbn [drop_ws_comment]. unfold not_ws_comment. unfold blank_t in H. rewrite H. reflexivity. Qed.

Lemma forallb_rev {A} (f : A -> bool) l : forallb f (rev l) = forallb f l.
Proof.
  destruct (forallb f l) eqn:E.
  - rewrite forallb_forall in *. intros x Hx. apply E. apply in_rev. exact Hx.
  - destruct (forallb f (rev l)) eqn:E'; [|reflexivity].
    rewrite forallb_forall in E'. assert (forallb f l = true); [|congruence].
    rewrite forallb_forall. intros x Hx. apply E'. apply in_rev. rewrite rev_involutive. exact Hx.
Qed.

Lemma trim_tokens_pad a pre l b :
  forallb blank_t a = true -> forallb blank_t b = true -> blank_t l = false ->
  blank_t (hd l pre) = false ->
  trim_tokens (a ++ (pre ++ [l]) ++ b) = pre ++ [l].
Proof.
  intros Ha Hb Hl Hh. unfold trim_tokens. rewrite (drop_blank_app a _ Ha).
  assert (E : drop_ws_comment ((pre ++ [l]) ++ b) = (pre ++ [l]) ++ b).
  { destruct pre as [|x pre]; cbn [app hd] in *; apply drop_nonblank; assumption. }
  rewrite E, rev_app_distr, rev_unit. rewrite drop_blank_app by (rewrite forallb_rev; exact Hb).
  rewrite drop_nonblank by exact Hl. cbn [rev]. rewrite rev_involutive. reflexivity.
Qed.

Lemma filter_blank l : forallb blank_t l = true -> filter not_ws_comment l = [].
Proof.
  induction l as [|t l IH]; cbn [forallb filter]; [reflexivity|]. intro H.
  apply andb_true_iff in H as [H1 H2]. unfold not_ws_comment. unfold blank_t in H1. rewrite H1. cbn [negb]. auto.
Qed.

Lemma filter_nonblank t l : blank_t t = false -> filter not_ws_comment (t :: l) = t :: filter not_ws_comment l.
Proof. intro H. cbn [filter]. unfold not_ws_comment. unfold blank_t in H. rewrite H. reflexivity. Qed.

(* ---------------------------------------------------------------- numeric_value *)
Definition frac_part (l : list tok) : option (diag + num) :=
  match l with
  | [i; a; s; b] =>
      if tk_eqb (kind i) KInt && tk_eqb (kind a) KInt && tk_eqb (kind s) KSlash && tk_eqb (kind b) KInt
      then Some (match int_of i with
                 | inl e => inl e
                 | inr iv => match frac_of a b with
                             | inl e => inl e
                             | inr (NFrac _ n d) => inr (NFrac iv n d)
                             | inr other => inr other
                             end
                 end)
      else None
  | [a; s; b] =>
      if tk_eqb (kind a) KInt && tk_eqb (kind s) KSlash && tk_eqb (kind b) KInt
      then Some (frac_of a b) else None
  | _ => None
  end.

Lemma nv_long ts core :
  trim_tokens ts = core -> (4 <= length core)%nat ->
  numeric_value ts = frac_part (filter not_ws_comment core).
Proof.
  intros H Hl. unfold numeric_value. rewrite H.
  destruct core as [|a [|b [|c [|d m]]]]; cbn [length] in Hl; try lia. reflexivity.
Qed.

Lemma int_of_ok t : digits_val (tstr t) <=? u32_max = true -> int_of t = inr (digits_val (tstr t)).
Proof. intro H. unfold int_of. rewrite H. reflexivity. Qed.

Lemma frac_of_ok a b :
  digits_val (tstr a) <=? u32_max = true -> digits_val (tstr b) <=? u32_max = true ->
  (digits_val (tstr b) =? 0) = false ->
  frac_of a b = inr (NFrac 0 (digits_val (tstr a)) (digits_val (tstr b))).
Proof. intros Ha Hb Hz. unfold frac_of. rewrite (int_of_ok _ Ha), (int_of_ok _ Hb), Hz. reflexivity. Qed.

Lemma kind_blank_false t k : kind t = k -> is_ws_comment k = false -> blank_t t = false.
Proof. intros <- H. exact H. Qed.

Lemma numeric_int a A b :
  forallb blank_t a = true -> forallb blank_t b = true -> kind A = KInt ->
  numeric_value (a ++ [A] ++ b) = Some (inr (NReg (dec_q (tstr A) []))).
Proof.
  intros Ha Hb HA. unfold numeric_value. change (a ++ [A] ++ b) with (a ++ ([] ++ [A]) ++ b).
  rewrite (trim_tokens_pad a [] A b Ha Hb); try (eapply kind_blank_false; [eassumption|reflexivity]).
  cbn [app]. rewrite HA. reflexivity.
Qed.

Lemma numeric_dec3 a A D F b :
  forallb blank_t a = true -> forallb blank_t b = true ->
  kind A = KInt -> kind D = KDot -> is_int_or_zero (kind F) = true ->
  numeric_value (a ++ [A; D; F] ++ b) = Some (inr (NReg (dec_q (tstr A) (tstr F)))).
Proof.
  intros Ha Hb HA HD HF. unfold numeric_value.
  assert (HbF : blank_t F = false) by (unfold blank_t; destruct (kind F); try discriminate; reflexivity).
  change (a ++ [A; D; F] ++ b) with (a ++ ([A; D] ++ [F]) ++ b).
  rewrite (trim_tokens_pad a [A; D] F b Ha Hb HbF); [|eapply kind_blank_false; [eassumption|reflexivity]].
  cbn [app]. rewrite HA, HD, HF. reflexivity.
Qed.

Lemma numeric_dec2 a D F b :
  forallb blank_t a = true -> forallb blank_t b = true ->
  kind D = KDot -> is_int_or_zero (kind F) = true ->
  numeric_value (a ++ [D; F] ++ b) = Some (inr (NReg (dec_q [] (tstr F)))).
Proof.
  intros Ha Hb HD HF. unfold numeric_value.
  assert (HbF : blank_t F = false) by (unfold blank_t; destruct (kind F); try discriminate; reflexivity).
  change (a ++ [D; F] ++ b) with (a ++ ([D] ++ [F]) ++ b).
  rewrite (trim_tokens_pad a [D] F b Ha Hb HbF); [|eapply kind_blank_false; [eassumption|reflexivity]].
  cbn [app]. rewrite HD, HF. reflexivity.
Qed.

Lemma filter_frac A s1 S s2 B :
  forallb blank_t s1 = true -> forallb blank_t s2 = true ->
  blank_t A = false -> blank_t S = false -> blank_t B = false ->
  filter not_ws_comment (A :: s1 ++ S :: s2 ++ [B]) = [A; S; B].
Proof.
  intros H1 H2 HA HS HB. rewrite (filter_nonblank _ _ HA), filter_app, (filter_blank _ H1).
  cbn [app]. rewrite (filter_nonblank _ _ HS), filter_app, (filter_blank _ H2). cbn [app].
  rewrite (filter_nonblank _ _ HB). reflexivity.
Qed.

Lemma numeric_frac a A s1 S s2 B b :
  forallb blank_t a = true -> forallb blank_t b = true ->
  forallb blank_t s1 = true -> forallb blank_t s2 = true ->
  kind A = KInt -> kind S = KSlash -> kind B = KInt ->
  digits_val (tstr A) <=? u32_max = true -> digits_val (tstr B) <=? u32_max = true ->
  (digits_val (tstr B) =? 0) = false ->
  numeric_value (a ++ (A :: s1 ++ S :: s2 ++ [B]) ++ b)
  = Some (inr (NFrac 0 (digits_val (tstr A)) (digits_val (tstr B)))).
Proof.
  intros Ha Hb H1 H2 HA HS HB BA BB BZ.
  assert (NA : blank_t A = false) by (eapply kind_blank_false; [eassumption|reflexivity]).
  assert (NS : blank_t S = false) by (eapply kind_blank_false; [eassumption|reflexivity]).
  assert (NB : blank_t B = false) by (eapply kind_blank_false; [eassumption|reflexivity]).
  assert (Ht : trim_tokens (a ++ (A :: s1 ++ S :: s2 ++ [B]) ++ b) = A :: s1 ++ S :: s2 ++ [B]).
  { replace (A :: s1 ++ S :: s2 ++ [B]) with ((A :: s1 ++ S :: s2) ++ [B])
      by (cbn [app]; rewrite <- app_assoc; reflexivity).
    apply trim_tokens_pad; assumption. }
  destruct s1 as [|x s1]; [destruct s2 as [|y s2]|].
  - unfold numeric_value. rewrite Ht. cbn [app]. rewrite HA, HS, HB. cbn.
    unfold not_ws_comment. rewrite HA, HS, HB. cbn. rewrite HA, HS, HB. cbn.
    rewrite (frac_of_ok _ _ BA BB BZ). reflexivity.
  - rewrite (nv_long _ _ Ht) by (cbn [app length]; rewrite ?app_length; cbn [app length]; rewrite ?app_length; cbn [length]; lia).
    rewrite (filter_frac A [] S (y :: s2) B H1 H2 NA NS NB). cbn [frac_part]. rewrite HA, HS, HB. cbn.
    rewrite (frac_of_ok _ _ BA BB BZ). reflexivity.
  - rewrite (nv_long _ _ Ht) by (cbn [app length]; rewrite ?app_length; cbn [app length]; rewrite ?app_length; cbn [length]; lia).
    rewrite (filter_frac A (x :: s1) S s2 B H1 H2 NA NS NB). cbn [frac_part]. rewrite HA, HS, HB. cbn.
    rewrite (frac_of_ok _ _ BA BB BZ). reflexivity.
Qed.

Lemma numeric_mixed a W g A s1 S s2 B b :
  forallb blank_t a = true -> forallb blank_t b = true -> forallb blank_t g = true ->
  forallb blank_t s1 = true -> forallb blank_t s2 = true ->
  kind W = KInt -> kind A = KInt -> kind S = KSlash -> kind B = KInt ->
  digits_val (tstr W) <=? u32_max = true ->
  digits_val (tstr A) <=? u32_max = true -> digits_val (tstr B) <=? u32_max = true ->
  (digits_val (tstr B) =? 0) = false ->
  numeric_value (a ++ (W :: g ++ A :: s1 ++ S :: s2 ++ [B]) ++ b)
  = Some (inr (NFrac (digits_val (tstr W)) (digits_val (tstr A)) (digits_val (tstr B)))).
Proof.
  intros Ha Hb Hg H1 H2 HW HA HS HB BW BA BB BZ.
  assert (NW : blank_t W = false) by (eapply kind_blank_false; [eassumption|reflexivity]).
  assert (NA : blank_t A = false) by (eapply kind_blank_false; [eassumption|reflexivity]).
  assert (NS : blank_t S = false) by (eapply kind_blank_false; [eassumption|reflexivity]).
  assert (NB : blank_t B = false) by (eapply kind_blank_false; [eassumption|reflexivity]).
  assert (Ht : trim_tokens (a ++ (W :: g ++ A :: s1 ++ S :: s2 ++ [B]) ++ b) = W :: g ++ A :: s1 ++ S :: s2 ++ [B]).
  { replace (W :: g ++ A :: s1 ++ S :: s2 ++ [B]) with ((W :: g ++ A :: s1 ++ S :: s2) ++ [B]).
    - apply trim_tokens_pad; assumption.
    - cbn [app]. rewrite <- !app_assoc. cbn [app]. rewrite <- !app_assoc. reflexivity. }
  rewrite (nv_long _ _ Ht).
  2:{ cbn [length]. rewrite app_length. cbn [length]. rewrite app_length. cbn [length]. rewrite app_length. cbn. lia. }
  rewrite (filter_nonblank _ _ NW), filter_app, (filter_blank _ Hg). cbn [app].
  rewrite (filter_frac A s1 S s2 B H1 H2 NA NS NB). cbn [frac_part]. rewrite HW, HA, HS, HB. cbn.
  rewrite (int_of_ok _ BW), (frac_of_ok _ _ BA BB BZ). reflexivity.
Qed.

Lemma digits_kind_ioz fp : is_int_or_zero (digits_kind fp) = true.
Proof. unfold digits_kind. destruct fp as [|c [|d r]]; try reflexivity. destruct (c =? 48); reflexivity. Qed.

Ltac split_and H :=
  repeat match type of H with
  | _ && _ = true => let H1 := fresh H in apply andb_true_iff in H as [H H1]
  end.

Lemma numeric_print n tp a b off :
  num_wf n tp = true -> forallb blank_ok a = true -> forallb blank_ok b = true ->
  numeric_value (place off (a ++ print_num n tp ++ b)) = Some (inr (denote_num n)).
Proof.
  intros W Ha Hb. unfold num_wf in W.
  apply andb_true_iff in W as [W Wn]. apply andb_true_iff in W as [W Was]. apply andb_true_iff in W as [Wg Wbs].
  rewrite !place_app.
  set (o1 := off + blen (unlex a)). set (o2 := o1 + blen (unlex (print_num n tp))).
  pose proof (place_blank a off Ha) as Pa. pose proof (place_blank b o2 Hb) as Pb.
  clearbody o2.
  destruct n as [ds | ip fp | x y | w x y]; cbn [print_num denote_num].
  - cbn [place fst snd]. erewrite numeric_int; [reflexivity| | |]; auto.
  - destruct ip as [|i ip]; cbn [place fst snd].
    + erewrite numeric_dec2; [reflexivity| | | |]; auto. apply digits_kind_ioz.
    + erewrite numeric_dec3; [reflexivity| | | | |]; auto. apply digits_kind_ioz.
  - apply andb_true_iff in Wn as [Wn Wz]. apply andb_true_iff in Wn as [Wx Wy].
    cbn [place fst snd]. rewrite place_app. cbn [place fst snd]. rewrite place_app. cbn [place fst snd].
    erewrite numeric_frac; [reflexivity| | | | | | | | | |]; auto using place_blank.
    cbn [tstr]. destruct (digits_val y =? 0); [discriminate|reflexivity].
  - apply andb_true_iff in Wn as [Wn Wz]. apply andb_true_iff in Wn as [Wn Wy]. apply andb_true_iff in Wn as [Ww Wx].
    cbn [place fst snd]. rewrite place_app. cbn [place fst snd]. rewrite place_app. cbn [place fst snd].
    rewrite place_app. cbn [place fst snd].
    erewrite numeric_mixed; [reflexivity| | | | | | | | | | | | |]; auto using place_blank.
    cbn [tstr]. destruct (digits_val y =? 0); [discriminate|reflexivity].
Qed.

(* ---------------------------------------------------------------- Text *)
Definition soft_ok (t : text) : bool := forallb (fun f => negb (fsoft f) || str_blank (ftext f)) (frags t).

Lemma str_blank_app a b : str_blank (a ++ b) = str_blank a && str_blank b.
Proof. unfold str_blank. apply forallb_app. Qed.

Lemma is_text_empty_str t : soft_ok t = true -> is_text_empty t = str_blank (text_str t).
Proof.
  unfold soft_ok, is_text_empty, text_str. induction (frags t) as [|f l IH]; cbn [forallb map concat]; [reflexivity|].
  intro H. apply andb_true_iff in H as [H1 H2]. rewrite str_blank_app, (IH H2). f_equal.
  destruct (fsoft f); cbn [negb orb] in *; [|reflexivity]. rewrite H1. reflexivity.
Qed.

Lemma text_span_snoc t f :
  snd (text_span {| toff := toff t; frags := frags t ++ [f] |}) = frag_end f.
Proof.
  unfold text_span; cbn [frags]. destruct (frags t) as [|f0 l]; cbn [app]; [reflexivity|].
  cbn [snd]. f_equal. change (f0 :: l ++ [f]) with ((f0 :: l) ++ [f]). apply last_last.
Qed.

Lemma text_str_snoc t f :
  text_str {| toff := toff t; frags := frags t ++ [f] |} = text_str t ++ (if fsoft f then [32] else ftext f).
Proof. unfold text_str; cbn [frags]. rewrite map_app, concat_app. cbn. rewrite app_nil_r. reflexivity. Qed.

Lemma soft_ok_snoc t f :
  soft_ok t = true -> negb (fsoft f) || str_blank (ftext f) = true ->
  soft_ok {| toff := toff t; frags := frags t ++ [f] |} = true.
Proof. unfold soft_ok; cbn [frags]. intros H1 H2. rewrite forallb_app, H1. cbn. rewrite H2. reflexivity. Qed.

Lemma append_fragment_ok t f :
  snd (text_span t) <= foff f -> soft_ok t = true -> negb (fsoft f) || str_blank (ftext f) = true ->
  exists t1, append_fragment t f = Done t1 /\
             text_str t1 = text_str t ++ (match ftext f with [] => [] | _ => if fsoft f then [32] else ftext f end) /\
             snd (text_span t1) <= foff f + blen (ftext f) /\ soft_ok t1 = true /\ toff t1 = toff t.
Proof.
  intros Hs Hk Hf. unfold append_fragment. apply N.leb_le in Hs. rewrite Hs. apply N.leb_le in Hs.
  destruct (ftext f) as [|c r] eqn:E.
  - exists t. rewrite app_nil_r. cbn [blen]. repeat split; auto. lia.
  - eexists. split; [reflexivity|]. rewrite text_span_snoc, text_str_snoc. unfold frag_end. rewrite E.
    repeat split; auto; [lia|]. apply soft_ok_snoc; auto. rewrite E. exact Hf.
Qed.

Lemma append_str_ok t cur cs :
  snd (text_span t) <= cs -> soft_ok t = true ->
  exists t1, append_str t cur cs = Done t1 /\ text_str t1 = text_str t ++ cur /\
             snd (text_span t1) <= cs + blen cur /\ soft_ok t1 = true /\ toff t1 = toff t.
Proof.
  intros Hs Hk. unfold append_str.
  destruct (append_fragment_ok t {| ftext := cur; foff := cs; fsoft := false |} Hs Hk eq_refl)
    as (t1 & E & Ht & Hsp & Hso & Hto).
  exists t1. cbn [ftext foff fsoft] in *. repeat split; auto. rewrite Ht. destruct cur; reflexivity.
Qed.

Lemma shape_ok_nonempty t : shape_ok t = true -> snd t <> [].
Proof. unfold shape_ok. destruct (snd t); [discriminate|discriminate]. Qed.

Section TextLoop.
  Variable cfg : pcfg.
  Hypothesis Hstrict : p_strict_escape cfg = false.

  Lemma text_loop_ok : forall p t cs cur,
    forallb shape_ok p = true -> snd (text_span t) <= cs -> soft_ok t = true ->
    exists t', text_loop cfg (place (cs + blen cur) p) t cs cur = Done t' /\
               text_str t' = text_str t ++ cur ++ toks_text p /\ soft_ok t' = true /\ toff t' = toff t.
  Proof.
    induction p as [|[k s] r IH]; intros t cs cur Hp Hs Hk.
    - cbn [place text_loop]. destruct (append_str_ok t cur cs Hs Hk) as (t1 & E & Ht & _ & Hso & Hto).
      exists t1. unfold toks_text; cbn [map concat]. rewrite app_nil_r. auto.
    - cbn [forallb] in Hp. apply andb_true_iff in Hp as [Hsh Hp].
      pose proof (shape_ok_nonempty _ Hsh) as Hne. cbn [snd] in Hne.
      unfold shape_ok in Hsh; cbn [fst snd] in Hsh. apply andb_true_iff in Hsh as [_ Hsh].
      cbn [place fst snd]. unfold toks_text; cbn [map concat]. fold (toks_text r).
      destruct (append_str_ok t cur cs Hs Hk) as (t1 & E1 & Ht1 & Hs1 & Hk1 & Ho1).
      assert (Other : tok_text (k, s) = s ->
                (forall tk, kind tk = k -> tstr tk = s ->
                   text_loop cfg (tk :: place (cs + blen cur + blen s) r) t cs cur
                   = text_loop cfg (place (cs + blen cur + blen s) r) t cs (cur ++ s)) ->
                exists t', text_loop cfg ({| kind := k; tstr := s; tstart := cs + blen cur |}
                                            :: place (cs + blen cur + blen s) r) t cs cur = Done t' /\
                   text_str t' = text_str t ++ cur ++ tok_text (k, s) ++ toks_text r /\ soft_ok t' = true /\ toff t' = toff t).
      { intros Et Hstep. rewrite Hstep by reflexivity. rewrite Et.
        replace (cs + blen cur + blen s) with (cs + blen (cur ++ s)) by (rewrite blen_app; lia).
        destruct (IH t cs (cur ++ s) Hp Hs Hk) as (t' & E & Ht & Hso & Hto).
        exists t'. rewrite <- app_assoc in Ht. auto. }
      destruct k; try (apply Other; [reflexivity | intros tk Hk' Hs'; cbn [text_loop]; rewrite Hk', Hs'; reflexivity]).
      + (* KEscaped *)
        cbn [text_loop kind tstr tstart]. rewrite E1. cbn [obind]. rewrite Hstrict, andb_false_r. cbn [andb].
        destruct s as [|c0 s']; [contradiction|]. cbn [next_is] in Hsh. apply N.eqb_eq in Hsh. subst c0.
        cbn [tl]. replace (cs + blen cur + blen (92 :: s')) with ((cs + blen cur + 1) + blen s')
          by (cbn [blen]; change (utf8_len 92) with 1; lia).
        destruct (IH t1 (cs + blen cur + 1) s' Hp) as (t' & E & Ht & Hso & Hto); [lia|exact Hk1|].
        exists t'. rewrite E. unfold tok_text; cbn [fst snd tl]. rewrite Ht, Ht1, <- !app_assoc. repeat split; auto. congruence.
      + (* KNewline *)
        cbn [text_loop kind tstr tstart]. rewrite E1. cbn [obind].
        destruct (append_fragment_ok t1 {| ftext := s; foff := cs + blen cur; fsoft := true |})
          as (t2 & E2 & Ht2 & Hs2 & Hk2 & Ho2); [exact Hs1 | exact Hk1 | exact Hsh |].
        rewrite E2. cbn [obind ftext foff fsoft] in *. unfold tend; cbn [tstart tstr].
        destruct (IH t2 (cs + blen cur + blen s) [] Hp Hs2 Hk2) as (t' & E & Ht & Hso & Hto).
        change (blen []) with 0 in E; rewrite N.add_0_r in E.
        exists t'. rewrite E. unfold tok_text; cbn [fst]. rewrite Ht, Ht2, Ht1.
        destruct s; [contradiction|]. rewrite <- !app_assoc. cbn [app]. repeat split; auto. congruence.
      + (* KLineComment *)
        cbn [text_loop kind tstr tstart]. rewrite E1. cbn [obind]. unfold tend; cbn [tstart tstr].
        destruct (IH t1 (cs + blen cur + blen s) [] Hp) as (t' & E & Ht & Hso & Hto); [lia|exact Hk1|].
        change (blen []) with 0 in E; rewrite N.add_0_r in E.
        exists t'. rewrite E. unfold tok_text; cbn [fst]. rewrite Ht, Ht1, <- !app_assoc. cbn [app]. repeat split; auto. congruence.
      + (* KBlockComment *)
        cbn [text_loop kind tstr tstart]. rewrite E1. cbn [obind]. unfold tend; cbn [tstart tstr].
        destruct (IH t1 (cs + blen cur + blen s) [] Hp) as (t' & E & Ht & Hso & Hto); [lia|exact Hk1|].
        change (blen []) with 0 in E; rewrite N.add_0_r in E.
        exists t'. rewrite E. unfold tok_text; cbn [fst]. rewrite Ht, Ht1, <- !app_assoc. cbn [app]. repeat split; auto. congruence.
  Qed.

  Lemma text_of_place p off :
    forallb shape_ok p = true ->
    exists t, text_of cfg off (place off p) = Done t /\ text_str t = toks_text p /\ soft_ok t = true /\
              toff t = off.
  Proof.
    intro Hp. destruct p as [|t0 r].
    - exists (text_empty off). repeat split; reflexivity.
    - unfold text_of. cbn [place tstart]. rewrite N.eqb_refl.
      change ({| kind := fst t0; tstr := snd t0; tstart := off |} :: place (off + blen (snd t0)) r)
        with (place off (t0 :: r)).
      destruct (text_loop_ok (t0 :: r) (text_empty off) off [] Hp) as (t' & E & Ht & Hso & Hto);
        [cbn; lia | reflexivity |].
      change (blen []) with 0 in E; rewrite N.add_0_r in E.
      exists t'. rewrite Ht. repeat split; auto.
  Qed.
End TextLoop.

(* ---------------------------------------------------------------- trim *)
Lemma drop_while_blank s : str_blank s = true -> drop_while uni_ws s = [].
Proof.
  induction s as [|c s IH]; cbn [str_blank forallb drop_while]; [reflexivity|]. intro H.
  apply andb_true_iff in H as [H1 H2]. rewrite H1. apply IH. exact H2.
Qed.

Lemma drop_while_app x b :
  drop_while uni_ws (x ++ b) = if str_blank x then drop_while uni_ws b else drop_while uni_ws x ++ b.
Proof.
  induction x as [|c x IH]; cbn [app drop_while]; [reflexivity|].
  unfold str_blank; cbn [forallb]. destruct (uni_ws c); cbn [andb]; [exact IH | reflexivity].
Qed.

Lemma trim_end_blank b : str_blank b = true -> trim_end_ws b = [].
Proof.
  induction b as [|c b IH]; cbn [str_blank forallb trim_end_ws]; [reflexivity|]. intro H.
  apply andb_true_iff in H as [H1 H2]. rewrite (IH H2), H1. reflexivity.
Qed.

Lemma trim_end_blank_app x b : str_blank b = true -> trim_end_ws (x ++ b) = trim_end_ws x.
Proof.
  intro Hb. induction x as [|c x IH]; cbn [app trim_end_ws]; [apply trim_end_blank; exact Hb|].
  rewrite IH. reflexivity.
Qed.

Lemma trim_pad a x b : str_blank a = true -> str_blank b = true -> trim (a ++ x ++ b) = trim x.
Proof.
  intros Ha Hb. unfold trim. rewrite drop_while_app, Ha, drop_while_app.
  destruct (str_blank x) eqn:Ex.
  - rewrite (drop_while_blank b Hb), (drop_while_blank x Ex). reflexivity.
  - apply trim_end_blank_app. exact Hb.
Qed.

Lemma blank_toks_text p : forallb blank_ok p = true -> str_blank (toks_text p) = true.
Proof.
  induction p as [|t p IH]; cbn [forallb]; [reflexivity|]. intro H. apply andb_true_iff in H as [H1 H2].
  unfold toks_text; cbn [map concat]. fold (toks_text p). rewrite str_blank_app, (IH H2), andb_true_r.
  unfold blank_ok in H1. apply andb_true_iff in H1 as [H1 H3]. apply andb_true_iff in H1 as [H1 _].
  unfold blank_p in H1. unfold tok_text. destruct (fst t); try discriminate; try reflexivity. exact H3.
Qed.

Lemma blank_ok_shape p : forallb blank_ok p = true -> forallb shape_ok p = true.
Proof.
  apply forallb_impl. intros x H. unfold blank_ok in H. apply andb_true_iff in H as [H _].
  apply andb_true_iff in H as [_ H]. exact H.
Qed.

Lemma toks_text_app a b : toks_text (a ++ b) = toks_text a ++ toks_text b.
Proof. unfold toks_text. rewrite map_app, concat_app. reflexivity. Qed.

(* ---------------------------------------------------------------- block parser state *)
Definition St (al dn rs : list tok) (ev : list pevent) : bp :=
  {| b_all := al; b_done := dn; b_rest := rs; b_evs := ev |}.

Lemma advance_split A : forall B al dn ev,
  advance (length A) (St al dn (A ++ B) ev) = St al (rev A ++ dn) B ev.
Proof.
  induction A as [|a A IH]; intros B al dn ev; cbn [length advance app rev]; [reflexivity|].
  unfold St at 1; cbn [b_rest b_all b_done b_evs]. fold (St al (a :: dn) (A ++ B) ev).
  rewrite IH, <- app_assoc. reflexivity.
Qed.

Lemma position_none g A : forallb (fun t => negb (g (kind t))) A = true -> position g A = None.
Proof.
  induction A as [|a A IH]; cbn [forallb position]; [reflexivity|]. intro H.
  apply andb_true_iff in H as [H1 H2]. destruct (g (kind a)); [discriminate|]. rewrite (IH H2). reflexivity.
Qed.

Lemma position_split g A t B :
  forallb (fun t => negb (g (kind t))) A = true -> g (kind t) = true ->
  position g (A ++ t :: B) = Some (length A).
Proof.
  intros HA Ht. induction A as [|a A IH]; cbn [forallb position app length] in *.
  - rewrite Ht. reflexivity.
  - apply andb_true_iff in HA as [H1 H2]. destruct (g (kind a)); [discriminate|]. rewrite (IH H2). reflexivity.
Qed.

Lemma firstn_length_app {A} (l r : list A) : firstn (length l) (l ++ r) = l.
Proof. induction l as [|x l IH]; cbn; [reflexivity|]. rewrite IH. reflexivity. Qed.

Lemma forallb_negb_negb (f : tkind -> bool) A :
  forallb (fun t => f (kind t)) A = true -> forallb (fun t => negb (negb (f (kind t)))) A = true.
Proof. apply forallb_impl. intros x H. rewrite H. reflexivity. Qed.

Lemma consume_while_all f A al dn ev :
  forallb (fun t => f (kind t)) A = true ->
  consume_while f (St al dn A ev) = Done (A, St al (rev A ++ dn) [] ev).
Proof.
  intro H. unfold consume_while. cbn [b_rest St].
  rewrite (position_none (fun k => negb (f k)) A (forallb_negb_negb f A H)).
  rewrite <- (app_nil_r A) at 2 3 4. rewrite firstn_length_app.
  fold (St al dn (A ++ []) ev). rewrite app_nil_r at 1. rewrite (advance_split A [] al dn ev). reflexivity.
Qed.

Lemma consume_while_stop f A t B al dn ev :
  forallb (fun t => f (kind t)) A = true -> f (kind t) = false ->
  consume_while f (St al dn (A ++ t :: B) ev) = Done (A, St al (rev A ++ dn) (t :: B) ev).
Proof.
  intros H Ht. unfold consume_while. cbn [b_rest St].
  rewrite (position_split (fun k => negb (f k)) A t B (forallb_negb_negb f A H)) by (rewrite Ht; reflexivity).
  rewrite firstn_length_app. fold (St al dn (A ++ t :: B) ev). rewrite advance_split. reflexivity.
Qed.

(* ---------------------------------------------------------------- quantity *)
Lemma consume_while_split f A B al dn ev :
  forallb (fun t => f (kind t)) A = true ->
  match B with [] => True | t :: _ => f (kind t) = false end ->
  consume_while f (St al dn (A ++ B) ev) = Done (A, St al (rev A ++ dn) B ev).
Proof.
  intros HA HB. destruct B as [|t B].
  - rewrite app_nil_r. apply consume_while_all. exact HA.
  - apply consume_while_stop; assumption.
Qed.

Lemma scaling_lock_eq L e R al dn ev :
  forallb blank_t L = true -> kind e = KEq ->
  scaling_lock (St al dn (L ++ e :: R) ev) = Done (Some (tok_span e), St al (e :: rev L ++ dn) R ev).
Proof.
  intros HL He. unfold scaling_lock, bind, ws_comments.
  rewrite (consume_while_stop is_ws_comment L e R al dn ev HL) by (rewrite He; reflexivity).
  unfold peek, peek_of. cbn [b_rest St]. rewrite He. unfold bind, bump_any, bind, next_token. cbn [b_rest St].
  reflexivity.
Qed.

Lemma scaling_lock_none L x R al dn ev :
  forallb blank_t L = true -> blank_t x = false -> kind x <> KEq ->
  scaling_lock (St al dn (L ++ x :: R) ev) = Done (None, St al (rev L ++ dn) (x :: R) ev).
Proof.
  intros HL Hx He. unfold scaling_lock, bind, ws_comments.
  rewrite (consume_while_stop is_ws_comment L x R al dn ev HL Hx).
  unfold peek, peek_of. cbn [b_rest St]. destruct (kind x); try congruence; reflexivity.
Qed.

Section Qty.
  Variable cfg : pcfg.

  Definition value_reads (VV : list tok) (v : value) : Prop :=
    range_or_numeric cfg VV = Some (inr v) \/
    (range_or_numeric cfg VV = None /\
     exists t, text_of cfg (match VV with x :: _ => tstart x | [] => 0 end) VV = Done t /\
               is_text_empty t = false /\ v = VText (text_trimmed t)).

  Lemma parse_value_ok VV v s :
    VV <> [] -> value_reads VV v -> exists sp, parse_value cfg VV s = Done ((v, sp), s).
  Proof.
    intros Hne [H | (H & t & Ht & He & ->)]; unfold parse_value, bind, current_offset; rewrite H.
    - eexists. reflexivity.
    - destruct VV as [|x VV]; [contradiction|]. unfold text_value, bind, textM, lift. rewrite Ht, He.
      eexists. reflexivity.
  Qed.

  Definition unit_reads (P : list tok) (uo : option str) : Prop :=
    (P = [] /\ uo = None) \/
    (exists pct UU ut, P = pct :: UU /\ kind pct = KPercent /\ text_of cfg (tend pct) UU = Done ut /\
                       is_text_empty ut = false /\ uo = Some (text_trimmed ut)).

  Lemma regular_ok L E VV P al dn ev v uo :
    forallb blank_t L = true ->
    (E = [] \/ exists e, E = [e] /\ kind e = KEq) ->
    (E = [] -> match VV with x :: _ => blank_t x = false /\ kind x <> KEq | [] => False end) ->
    VV <> [] -> forallb (fun t => negb (tk_eqb (kind t) KPercent)) VV = true ->
    value_reads VV v -> unit_reads P uo ->
    exists q sep,
      parse_regular_quantity cfg (St al dn (L ++ E ++ VV ++ P) ev)
      = Done ((q, sep), St al (rev (L ++ E ++ VV ++ P) ++ dn) [] ev) /\
      qv (q_val q) = v /\
      (match qlock (q_val q) with Some _ => true | None => false end) = negb (is_nil E) /\
      option_map text_trimmed (q_unit q) = uo.
  Proof.
    intros HL HE HEV Hne Hnp Hv Hu.
    assert (HP : match P with [] => True | t :: _ => negb (tk_eqb (kind t) KPercent) = false end).
    { destruct Hu as [[-> _] | (pct & UU & ut & -> & Hk & _)]; [exact I|]. rewrite Hk. reflexivity. }
    (* value_p *)
    assert (Hval : exists lock sp dn',
               value_p cfg (St al dn (L ++ E ++ VV ++ P) ev)
               = Done ({| qv := v; qv_span := sp; qlock := lock |}, St al dn' P ev) /\
               dn' = rev (L ++ E ++ VV) ++ dn /\
               (match lock with Some _ => true | None => false end) = negb (is_nil E)).
    { unfold value_p, bind.
      destruct HE as [-> | (e & -> & He)].
      - cbn [app]. destruct VV as [|x VV']; [contradiction|]. destruct (HEV eq_refl) as [Hx Hxe].
        cbn [app]. rewrite (scaling_lock_none L x (VV' ++ P) al dn ev HL Hx Hxe).
        change (x :: VV' ++ P) with ((x :: VV') ++ P).
        rewrite (consume_while_split _ (x :: VV') P al (rev L ++ dn) ev Hnp HP).
        destruct (parse_value_ok (x :: VV') v (St al (rev (x :: VV') ++ rev L ++ dn) P ev) Hne Hv) as (sp & Hpv).
        rewrite Hpv. eexists _, _, _. split; [reflexivity|]. split; [|reflexivity].
        rewrite rev_app_distr, <- app_assoc. reflexivity.
      - cbn [app]. rewrite (scaling_lock_eq L e (VV ++ P) al dn ev HL He).
        rewrite (consume_while_split _ VV P al (e :: rev L ++ dn) ev Hnp HP).
        destruct (parse_value_ok VV v (St al (rev VV ++ e :: rev L ++ dn) P ev) Hne Hv) as (sp & Hpv).
        rewrite Hpv. eexists _, _, _. split; [reflexivity|]. split; [|reflexivity].
        rewrite !rev_app_distr. cbn [rev app]. rewrite <- !app_assoc. reflexivity. }
    destruct Hval as (lock & sp & dn' & Hvp & Hdn & Hlock).
    unfold parse_regular_quantity, bind. rewrite Hvp.
    destruct Hu as [[-> ->] | (pct & UU & ut & -> & Hk & Htx & Hem & ->)].
    - unfold peek, peek_of. cbn [b_rest St]. unfold ret, all_tokens. cbn [b_all St].
      rewrite !app_nil_r. subst dn'.
      eexists _, _. split; [reflexivity|]. split; [reflexivity|split; [exact Hlock|reflexivity]].
    - unfold peek, peek_of. cbn [b_rest St]. rewrite Hk. unfold bind, bump_any, bind, next_token. cbn [b_rest b_all b_done b_evs St].
      unfold ret, consume_rest. fold (St al (pct :: dn') UU ev).
      rewrite (consume_while_all (fun _ => true) UU al (pct :: dn') ev) by (apply forallb_forall; reflexivity).
      unfold textM, lift. rewrite Htx. unfold all_tokens. cbn [b_all St]. rewrite Hem. unfold ret.
      assert (Hst : rev (L ++ E ++ VV ++ pct :: UU) ++ dn = rev UU ++ pct :: dn').
      { subst dn'. replace (L ++ E ++ VV ++ pct :: UU) with ((L ++ E ++ VV) ++ pct :: UU)
          by (rewrite <- !app_assoc; reflexivity).
        rewrite rev_app_distr. cbn [rev]. rewrite <- !app_assoc. reflexivity. }
      rewrite Hst.
      eexists _, _. split; [reflexivity|]. split; [reflexivity|split; [exact Hlock|reflexivity]].
  Qed.
End Qty.

(* ---------------------------------------------------------------- kinds of printed values *)
Lemma blank_numk p : forallb blank_ok p = true -> forallb numk_p p = true.
Proof.
  apply forallb_impl. intros x H. apply blank_ok_p in H. unfold blank_p in H.
  unfold numk_p. destruct (fst x); try discriminate; reflexivity.
Qed.

Lemma digits_kind_numk ds : numk (digits_kind ds) = true.
Proof. unfold digits_kind. destruct ds as [|c [|d r]]; try reflexivity. destruct (c =? 48); reflexivity. Qed.

Lemma print_num_numk n tp : num_wf n tp = true -> forallb numk_p (print_num n tp) = true.
Proof.
  intro W. unfold num_wf in W.
  apply andb_true_iff in W as [W _]. apply andb_true_iff in W as [W Was]. apply andb_true_iff in W as [Wg Wbs].
  apply blank_numk in Wg, Wbs, Was.
  destruct n as [ds | ip fp | x y | w x y]; cbn [print_num].
  - reflexivity.
  - destruct ip; unfold numk_p; cbn [forallb fst dot_p numk andb]; rewrite digits_kind_numk; reflexivity.
  - cbn [forallb fst numk numk_p andb]. rewrite forallb_app, Wbs. cbn [forallb fst slash_p numk numk_p andb].
    rewrite forallb_app, Was. reflexivity.
  - cbn [forallb fst numk numk_p andb]. rewrite forallb_app, Wg. cbn [forallb fst numk numk_p andb].
    rewrite forallb_app, Wbs. cbn [forallb fst slash_p numk numk_p andb]. rewrite forallb_app, Was. reflexivity.
Qed.

Lemma print_num_head n tp :
  exists t r, print_num n tp = t :: r /\ blank_p t = false /\ fst t <> KEq.
Proof.
  destruct n as [ds | ip fp | x y | w x y]; cbn [print_num].
  - eexists _, _. split; [reflexivity|]. split; [reflexivity|discriminate].
  - destruct ip; eexists _, _; (split; [reflexivity|]); (split; [reflexivity|discriminate]).
  - eexists _, _. split; [reflexivity|]. split; [reflexivity|discriminate].
  - eexists _, _. split; [reflexivity|]. split; [reflexivity|discriminate].
Qed.

Definition notk (k0 : tkind) (t : ptok) : bool := negb (tk_eqb (fst t) k0).

Lemma numk_not k0 p :
  numk k0 = false -> forallb numk_p p = true ->
  forallb (notk k0) p = true.
Proof.
  intros Hk. apply forallb_impl. intros x H. unfold notk. destruct (tk_eqb (fst x) k0) eqn:E; [|reflexivity].
  apply internal_tkind_dec_bl in E. unfold numk_p in H. rewrite E in H. congruence.
Qed.

Lemma place_position_none k0 p off :
  forallb (notk k0) p = true ->
  position (fun k => tk_eqb k k0) (place off p) = None.
Proof.
  intro H. apply position_none. rewrite (place_forallb (fun k => negb (tk_eqb k k0))). exact H.
Qed.

Lemma place_length p : forall off, length (place off p) = length p.
Proof. induction p as [|t p IH]; intro off; cbn [place length]; [reflexivity|]. rewrite IH. reflexivity. Qed.

(* ---------------------------------------------------------------- a word first: not a number *)
Lemma drop_keeps_last A W : blank_t W = false -> exists A', drop_ws_comment (A ++ [W]) = A' ++ [W].
Proof.
  intro HW. induction A as [|a A IH]; cbn [app].
  - exists []. apply drop_nonblank. exact HW.
  - cbn [drop_ws_comment]. destruct (not_ws_comment a).
    + exists (a :: A). reflexivity.
    + exact IH.
Qed.

Lemma numeric_word_first a W r :
  forallb blank_t a = true -> kind W = KWord -> numeric_value (a ++ W :: r) = None.
Proof.
  intros Ha HW.
  assert (NW : blank_t W = false) by (eapply kind_blank_false; [eassumption|reflexivity]).
  assert (Htr : exists m, trim_tokens (a ++ W :: r) = W :: m).
  { unfold trim_tokens. rewrite (drop_blank_app a _ Ha), (drop_nonblank W r NW).
    cbn [rev]. destruct (drop_keeps_last (rev r) W NW) as (A' & E). rewrite E, rev_unit. eexists. reflexivity. }
  destruct Htr as (m & Htr). unfold numeric_value. rewrite Htr.
  rewrite (filter_nonblank W m NW). generalize (filter not_ws_comment m). intro fm.
  destruct m as [|b [|c [|d m']]]; destruct fm as [|x [|y [|z [|u l]]]]; cbn; rewrite ?HW; cbn; reflexivity.
Qed.

(* ---------------------------------------------------------------- printed values are read back *)
Lemma skipn_length_app {A} (l : list A) x r : skipn (S (length l)) (l ++ x :: r) = r.
Proof. induction l as [|y l IH]; cbn [length app skipn]; [reflexivity|]. exact IH. Qed.

Lemma place_start p off : p <> [] -> match place off p with x :: _ => tstart x | [] => 0 end = off.
Proof. destruct p; [contradiction|]. reflexivity. Qed.

Lemma kind_in_forallb k0 p : kind_in k0 p = false -> forallb (notk k0) p = true.
Proof.
  unfold kind_in. induction p as [|t p IH]; cbn [existsb forallb]; [reflexivity|]. intro H.
  apply orb_false_iff in H as [H1 H2]. unfold notk at 1. rewrite H1, (IH H2). reflexivity.
Qed.

Lemma blank_not k0 p : is_ws_comment k0 = false -> forallb blank_ok p = true ->
  forallb (notk k0) p = true.
Proof.
  intros Hk. apply forallb_impl. intros x H. apply blank_ok_p in H. unfold blank_p in H.
  unfold notk. destruct (tk_eqb (fst x) k0) eqn:E; [|reflexivity]. apply internal_tkind_dec_bl in E. rewrite E in H. congruence.
Qed.


(* ---------------------------------------------------------------- a foreign token: not a number *)
Definition nonnum_t (t : tok) : bool := negb (numk (kind t)).

Lemma nonnum_facts k : numk k = false ->
  tk_eqb k KInt = false /\ tk_eqb k KDot = false /\ tk_eqb k KSlash = false /\ is_int_or_zero k = false /\
  is_ws_comment k = false.
Proof. destruct k; cbn; intro H; try discriminate; repeat split; reflexivity. Qed.

Lemma drop_keeps_in x ts : In x ts -> blank_t x = false -> In x (drop_ws_comment ts).
Proof.
  intros Hin Hx. induction ts as [|t r IH]; [contradiction|]. cbn [drop_ws_comment].
  destruct (not_ws_comment t) eqn:E; [exact Hin|]. destruct Hin as [<-|Hin]; [|exact (IH Hin)].
  unfold not_ws_comment in E. unfold blank_t in Hx. rewrite Hx in E. discriminate.
Qed.

Lemma trim_keeps_in x ts : In x ts -> blank_t x = false -> In x (trim_tokens ts).
Proof.
  intros Hin Hx. unfold trim_tokens. apply in_rev. rewrite rev_involutive.
  apply drop_keeps_in; [|exact Hx]. apply -> in_rev. apply drop_keeps_in; assumption.
Qed.

Definition simple_part (tr : list tok) : option num :=
  match tr with
  | [a] => if tk_eqb (kind a) KInt then Some (NReg (dec_q (tstr a) [])) else None
  | [a; b] =>
      if tk_eqb (kind a) KDot && is_int_or_zero (kind b)
      then Some (NReg (dec_q [] (tstr b))) else None
  | [a; b; c] =>
      if tk_eqb (kind a) KInt && tk_eqb (kind b) KDot && is_int_or_zero (kind c)
      then Some (NReg (dec_q (tstr a) (tstr c))) else None
  | _ => None
  end.

Lemma nv_shape ts :
  numeric_value ts =
  match trim_tokens ts with
  | [] => None
  | tr => match simple_part tr with
          | Some n => Some (inr n)
          | None => frac_part (filter not_ws_comment tr)
          end
  end.
Proof. unfold numeric_value. destruct (trim_tokens ts); reflexivity. Qed.

Ltac kill_nonnum x :=
  let H := fresh in
  match goal with Hx : numk (kind x) = false |- _ =>
    destruct (nonnum_facts _ Hx) as (H & ?H & ?H & ?H & ?H) end;
  repeat match goal with Hf : _ (kind x) _ = false |- _ => rewrite Hf | Hf : is_int_or_zero (kind x) = false |- _ => rewrite Hf end;
  rewrite ?andb_false_r; cbn [andb]; try reflexivity;
  repeat match goal with |- context [tk_eqb ?a ?b] => destruct (tk_eqb a b); cbn [andb]; try reflexivity end.

Lemma simple_part_nonnum x l : In x l -> numk (kind x) = false -> simple_part l = None.
Proof.
  intros Hin Hx. destruct l as [|a [|b [|c [|d m]]]]; cbn [simple_part]; try reflexivity; cbn [In] in Hin.
  - destruct Hin as [<-|[]]. kill_nonnum a.
  - destruct Hin as [<-|[<-|[]]]; [kill_nonnum a | kill_nonnum b].
  - destruct Hin as [<-|[<-|[<-|[]]]]; [kill_nonnum a | kill_nonnum b | kill_nonnum c].
Qed.

Lemma frac_part_nonnum x l : In x l -> numk (kind x) = false -> frac_part l = None.
Proof.
  intros Hin Hx. destruct l as [|a [|b [|c [|d [|e m]]]]]; cbn [frac_part]; try reflexivity; cbn [In] in Hin.
  - destruct Hin as [<-|[<-|[<-|[]]]]; [kill_nonnum a | kill_nonnum b | kill_nonnum c].
  - destruct Hin as [<-|[<-|[<-|[<-|[]]]]]; [kill_nonnum a | kill_nonnum b | kill_nonnum c | kill_nonnum d].
Qed.

Lemma numeric_nonnum ts : existsb nonnum_t ts = true -> numeric_value ts = None.
Proof.
  intro H. apply existsb_exists in H as (x & Hin & Hx). unfold nonnum_t in Hx.
  assert (Hk : numk (kind x) = false) by (destruct (numk (kind x)); [discriminate|reflexivity]).
  assert (Hb : blank_t x = false) by (unfold blank_t; apply (nonnum_facts _ Hk)).
  pose proof (trim_keeps_in x ts Hin Hb) as Htr. rewrite nv_shape.
  destruct (trim_tokens ts) as [|t0 tr] eqn:E; [reflexivity|]. cbv zeta.
  rewrite (simple_part_nonnum x (t0 :: tr) Htr Hk).
  apply (frac_part_nonnum x); [|exact Hk]. apply filter_In. split; [exact Htr|].
  unfold not_ws_comment. unfold blank_t in Hb. rewrite Hb. reflexivity.
Qed.

(* the first token that is not part of a number is not `-`: no range start *)
Fixpoint first_nonnum_t (ts : list tok) : option tkind :=
  match ts with
  | [] => None
  | t :: r => if numk (kind t) then first_nonnum_t r else Some (kind t)
  end.

Lemma first_nonnum_position ts k :
  first_nonnum_t ts = Some k -> k <> KMinus ->
  match position (fun k => tk_eqb k KMinus) ts with
  | None => True
  | Some mid => existsb nonnum_t (firstn mid ts) = true
  end.
Proof.
  intros H Hk. induction ts as [|t r IH]; [discriminate|]. cbn [first_nonnum_t position] in *.
  destruct (numk (kind t)) eqn:En.
  - assert (tk_eqb (kind t) KMinus = false) by (destruct (kind t); try discriminate; reflexivity).
    rewrite H0. specialize (IH H). destruct (position _ r); cbn [option_map]; [|exact I].
    cbn [firstn existsb]. rewrite IH. apply orb_true_r.
  - inversion H; subst k. assert (tk_eqb (kind t) KMinus = false).
    { destruct (tk_eqb (kind t) KMinus) eqn:E; [|reflexivity]. apply internal_tkind_dec_bl in E. contradiction. }
    rewrite H0. destruct (position _ r); cbn [option_map]; [|exact I].
    cbn [firstn existsb]. unfold nonnum_t at 1. rewrite En. reflexivity.
Qed.

Lemma first_nonnum_place p : forall off, first_nonnum_t (place off p) = first_nonnum p.
Proof. induction p as [|t p IH]; intro off; cbn [place first_nonnum_t first_nonnum kind]; [reflexivity|]. rewrite IH. reflexivity. Qed.

Lemma first_nonnum_app a b : forallb numk_p a = true -> first_nonnum (a ++ b) = first_nonnum b.
Proof.
  induction a as [|t a IH]; cbn [forallb app first_nonnum]; [reflexivity|]. intro H.
  apply andb_true_iff in H as [H1 H2]. unfold numk_p in H1. rewrite H1. exact (IH H2).
Qed.

Lemma first_nonnum_app_some a b k : first_nonnum a = Some k -> first_nonnum (a ++ b) = Some k.
Proof.
  induction a as [|t a IH]; cbn [app first_nonnum]; [discriminate|]. destruct (numk (fst t)); [exact IH|auto].
Qed.

Lemma first_nonnum_exists p k : first_nonnum p = Some k -> existsb (fun t => negb (numk (fst t))) p = true.
Proof.
  induction p as [|t p IH]; cbn [first_nonnum existsb]; [discriminate|]. destruct (numk (fst t)); cbn [negb orb]; auto.
Qed.

Section TextValue.
  Variable cfg : pcfg.

  Lemma range_or_numeric_text ts k :
    first_nonnum_t ts = Some k -> (has cfg X_RANGE_VALUES = false \/ k <> KMinus) ->
    range_or_numeric cfg ts = None.
  Proof.
    intros Hf Hk.
    assert (Hn : numeric_value ts = None).
    { apply numeric_nonnum. clear Hk. induction ts as [|t r IH]; [discriminate|]. cbn [first_nonnum_t existsb] in *.
      unfold nonnum_t at 1. destruct (numk (kind t)); cbn [negb orb]; auto. }
    unfold range_or_numeric. rewrite Hn.
    assert (Hr : range_value cfg ts = None); [|rewrite Hr; reflexivity].
    destruct Hk as [Hoff | Hk]; [apply range_off; exact Hoff|].
    unfold range_value. destruct (negb (has cfg X_RANGE_VALUES)); [reflexivity|].
    pose proof (first_nonnum_position ts k Hf Hk) as Hp.
    destruct (position (fun k0 => tk_eqb k0 KMinus) ts) as [mid|]; [|reflexivity].
    rewrite (numeric_nonnum _ Hp). reflexivity.
  Qed.
End TextValue.

Section Final.
  Variable cfg : pcfg.
  Hypothesis Hstrict : p_strict_escape cfg = false.

  Lemma text_reads p o :
    forallb shape_ok p = true ->
    exists t, text_of cfg o (place o p) = Done t /\ is_text_empty t = str_blank (toks_text p) /\
              text_trimmed t = clean (toks_text p).
  Proof.
    intros Hp. destruct (text_of_place cfg Hstrict p o Hp) as (t & E & Ht & Hso & _).
    exists t. split; [exact E|]. split.
    - rewrite (is_text_empty_str t Hso), Ht. reflexivity.
    - unfold text_trimmed, text_outer_trimmed, clean. rewrite Ht. reflexivity.
  Qed.

  Definition value_wf (pct : bool) (v : vspec) (tp : qtape) : bool :=
    match v with
    | QNum n => num_wf n (q_ta tp)
    | QRange a b => has cfg X_RANGE_VALUES && num_wf a (q_ta tp) && num_wf b (q_tb tp) &&
                    forallb blank_ok (q_bd tp) && forallb blank_ok (q_ad tp)
    | QText toks => text_ok cfg pct toks
    end.

  Lemma value_reads_print pct pre v tp T o :
    forallb blank_ok pre = true -> forallb blank_ok T = true -> value_wf pct v tp = true ->
    value_reads cfg (place o (pre ++ print_value v tp ++ T)) (denote_value v).
  Proof.
    intros Hpre HT W. destruct v as [n | a b | toks]; cbn [value_wf print_value denote_value] in *.
    - left. rewrite range_or_numeric_untriggered.
      + rewrite (numeric_print n (q_ta tp) pre T o W Hpre HT). reflexivity.
      + apply place_position_none. apply numk_not; [reflexivity|].
        rewrite !forallb_app, (blank_numk _ Hpre), (blank_numk _ HT), (print_num_numk _ _ W). reflexivity.
    - left. apply andb_true_iff in W as [W Had]. apply andb_true_iff in W as [W Hbd].
      apply andb_true_iff in W as [W Wb]. apply andb_true_iff in W as [HR Wa].
      unfold range_or_numeric, range_value. rewrite HR. cbn [negb].
      replace (pre ++ (print_num a (q_ta tp) ++ q_bd tp ++ minus_p :: q_ad tp ++ print_num b (q_tb tp)) ++ T)
        with ((pre ++ print_num a (q_ta tp) ++ q_bd tp) ++ minus_p :: (q_ad tp ++ print_num b (q_tb tp) ++ T))
        by (rewrite <- !app_assoc; cbn [app]; rewrite <- !app_assoc; reflexivity).
      rewrite place_app. cbn [place fst snd minus_p].
      set (A := place o (pre ++ print_num a (q_ta tp) ++ q_bd tp)).
      set (m := {| kind := KMinus; tstr := [45]; tstart := _ |}).
      set (B := place _ (q_ad tp ++ print_num b (q_tb tp) ++ T)).
      rewrite (position_split (fun k => tk_eqb k KMinus) A m B).
      + rewrite firstn_length_app, skipn_length_app. unfold A, B.
        rewrite (numeric_print a (q_ta tp) pre (q_bd tp) o Wa Hpre Hbd).
        rewrite (numeric_print b (q_tb tp) (q_ad tp) T _ Wb Had HT). reflexivity.
      + unfold A. rewrite (place_forallb (fun k => negb (tk_eqb k KMinus))).
        apply numk_not; [reflexivity|].
        rewrite !forallb_app, (blank_numk _ Hpre), (blank_numk _ Hbd), (print_num_numk _ _ Wa). reflexivity.
      + reflexivity.
    - right. unfold text_ok in W.
      apply andb_true_iff in W as [W _]. apply andb_true_iff in W as [W Wfirst].
      apply andb_true_iff in W as [W _]. apply andb_true_iff in W as [W Wnbl].
      apply andb_true_iff in W as [W Wnb]. apply andb_true_iff in W as [Wsh Wpct].
      destruct (first_nonnum toks) as [k|] eqn:Ef; [|discriminate].
      assert (toks <> []) by (destruct toks; [discriminate|discriminate]).
      split.
      + apply (range_or_numeric_text cfg _ k).
        * rewrite first_nonnum_place, (first_nonnum_app pre) by (apply blank_numk; exact Hpre).
          apply first_nonnum_app_some. exact Ef.
        * destruct (has cfg X_RANGE_VALUES); [right|left; reflexivity]. cbn [negb orb] in Wfirst.
          intros ->. discriminate.
      + rewrite place_start by (destruct pre; [destruct toks; [contradiction|discriminate]|discriminate]).
        destruct (text_reads (pre ++ toks ++ T) o) as (t & E & Hem & Htr).
        { rewrite !forallb_app, (blank_ok_shape _ Hpre), (blank_ok_shape _ HT), Wsh. reflexivity. }
        exists t. split; [exact E|]. rewrite !toks_text_app in Hem, Htr. split.
        * rewrite Hem, !str_blank_app. destruct (str_blank (toks_text toks)); [discriminate|].
          rewrite andb_false_r. reflexivity.
        * rewrite Htr. unfold clean. rewrite trim_pad; [reflexivity | apply blank_toks_text; exact Hpre | apply blank_toks_text; exact HT].
  Qed.

  Lemma unit_reads_print a u e o :
    forallb blank_ok a = true -> forallb blank_ok e = true -> forallb shape_ok u = true ->
    str_blank (toks_text u) = false ->
    unit_reads cfg (place o (pct_p :: a ++ u ++ e)) (Some (clean (toks_text u))).
  Proof.
    intros Ha He Hu Hnb. right. cbn [place fst snd pct_p].
    destruct (text_reads (a ++ u ++ e) (o + blen [37])) as (t & E & Hem & Htr).
    { rewrite !forallb_app, (blank_ok_shape _ Ha), (blank_ok_shape _ He), Hu. reflexivity. }
    eexists _, _, t. split; [reflexivity|]. split; [reflexivity|]. split; [exact E|].
    rewrite !toks_text_app in Hem, Htr. split.
    - rewrite Hem, !str_blank_app, Hnb, andb_false_r. reflexivity.
    - rewrite Htr. unfold clean. rewrite trim_pad; [reflexivity | apply blank_toks_text; exact Ha | apply blank_toks_text; exact He].
  Qed.
End Final.

(* ---------------------------------------------------------------- ADVANCED_UNITS without `%`:
   a quantity that has no unit is not read as "value unit" *)
Lemma drop_block_keeps_last A x :
  is_ws_block (kind x) = false -> exists A', drop_ws_block (A ++ [x]) = A' ++ [x].
Proof.
  intro Hx. induction A as [|a A IH]; cbn [app drop_ws_block].
  - rewrite Hx. exists []. reflexivity.
  - destruct (is_ws_block (kind a)); [exact IH|]. exists (a :: A). reflexivity.
Qed.

Lemma ws_comments_stop B x R al dn ev :
  forallb blank_t B = true -> blank_t x = false ->
  ws_comments (St al dn (B ++ x :: R) ev) = Done (B, St al (rev B ++ dn) (x :: R) ev).
Proof. intros HB Hx. unfold ws_comments. apply consume_while_stop; assumption. Qed.

Section Adv.
  Variable cfg : pcfg.

  (* after the optional lock: blanks, then a value that starts with a word, or contains no word *)
  Lemma advanced_tail_none lock B x R al dn ev :
    forallb blank_t B = true -> blank_t x = false ->
    (kind x = KWord \/ forallb (fun t => negb (tk_eqb (kind t) KWord)) (x :: R) = true) ->
    exists s',
      (bind ws_comments (fun _ =>
       bind (consume_while (fun k => negb (tk_eqb k KWord))) (fun vts =>
         match rev vts with
         | [] => ret None
         | l :: _ =>
             if negb (tk_eqb (kind l) KWs) then ret None
             else
               let vts' := rev (drop_ws_block (rev vts)) in
               match vts' with
               | [] => panic site_adv_rposition
               | _ =>
                   bind consume_rest (fun uts =>
                   match uts with
                   | [] => ret None
                   | u0 :: _ =>
                       let vspan := tokens_span vts' in
                       match range_or_numeric cfg vts' with
                       | None => ret None
                       | Some r =>
                           bind (match r with
                                 | inr v => ret v
                                 | inl e => bind (event (EvDiag e)) (fun _ => ret value_recover)
                                 end) (fun v =>
                           bind (textM cfg (tstart u0) uts) (fun ut =>
                           ret (Some ({| q_val := {| qv := v; qv_span := vspan; qlock := lock |};
                                         q_unit := Some ut; q_span := tokens_span al |}, @None span))))
                       end
                   end)
               end
         end))) (St al dn (B ++ x :: R) ev)
      = Done (None, s') /\ b_evs s' = ev.
  Proof.
    intros HB Hx Hw. unfold bind at 1. rewrite (ws_comments_stop B x R al dn ev HB Hx).
    destruct Hw as [Hw | Hw].
    - unfold bind at 1.
      assert (Hc := consume_while_stop (fun k => negb (tk_eqb k KWord)) [] x R al (rev B ++ dn) ev eq_refl).
      cbn [app rev] in Hc. rewrite Hc by (rewrite Hw; reflexivity).
      cbn [rev]. eexists. split; reflexivity.
    - unfold bind at 1.
      rewrite (consume_while_all (fun k => negb (tk_eqb k KWord)) (x :: R) al (rev B ++ dn) ev Hw).
      cbn [rev]. destruct (rev R) as [|l m] eqn:Er; cbn [app].
      + assert (Hk : tk_eqb (kind x) KWs = false).
        { unfold blank_t in Hx. destruct (kind x); try discriminate; reflexivity. }
        rewrite Hk. cbn [negb]. eexists. split; reflexivity.
      + destruct (negb (tk_eqb (kind l) KWs)); [eexists; split; reflexivity|].
        assert (Hxb : is_ws_block (kind x) = false).
        { unfold blank_t in Hx. destruct (kind x); try discriminate; reflexivity. }
        change (l :: m ++ [x]) with ((l :: m) ++ [x]).
        destruct (drop_block_keeps_last (l :: m) x Hxb) as (A' & E). rewrite E, rev_unit.
        unfold bind, consume_rest.
        rewrite (consume_while_all (fun _ => true) [] al _ ev eq_refl). eexists. split; reflexivity.
  Qed.
End Adv.

Section Adv2.
  Variable cfg : pcfg.

  Lemma advanced_none L E B x R al dn ev :
    existsb (fun t => tk_eqb (kind t) KPercent) al = false ->
    forallb blank_t L = true ->
    (E = [] /\ B = [] /\ kind x <> KEq \/ exists e, E = [e] /\ kind e = KEq) ->
    forallb blank_t B = true -> blank_t x = false ->
    (kind x = KWord \/ forallb (fun t => negb (tk_eqb (kind t) KWord)) (x :: R) = true) ->
    exists s', parse_advanced_quantity cfg (St al dn (L ++ E ++ B ++ x :: R) ev) = Done (None, s') /\ b_evs s' = ev.
  Proof.
    intros Hpct HL HE HB Hx Hw. unfold parse_advanced_quantity.
    unfold bind at 1. unfold all_tokens. cbn [b_all St]. rewrite Hpct.
    unfold bind at 1.
    destruct HE as [(-> & -> & Hxe) | (e & -> & He)]; cbn [app].
    - rewrite (scaling_lock_none L x R al dn ev HL Hx Hxe).
      apply (advanced_tail_none cfg None [] x R al (rev L ++ dn) ev eq_refl Hx Hw).
    - rewrite (scaling_lock_eq L e (B ++ x :: R) al dn ev HL He).
      apply (advanced_tail_none cfg (Some (tok_span e)) B x R al (e :: rev L ++ dn) ev HB Hx Hw).
  Qed.
End Adv2.


(* ---------------------------------------------------------------- numbers and ranges between
   arbitrary blank tokens *)
Lemma numeric_print_tok n tp A B o :
  num_wf n tp = true -> forallb blank_t A = true -> forallb blank_t B = true ->
  numeric_value (A ++ place o (print_num n tp) ++ B) = Some (inr (denote_num n)).
Proof.
  intros W Pa Pb. unfold num_wf in W.
  apply andb_true_iff in W as [W Wn]. apply andb_true_iff in W as [W Was]. apply andb_true_iff in W as [Wg Wbs].
  destruct n as [ds | ip fp | x y | w x y]; cbn [print_num denote_num].
  - cbn [place fst snd]. erewrite numeric_int; [reflexivity| | |]; auto.
  - destruct ip as [|i ip]; cbn [place fst snd].
    + erewrite numeric_dec2; [reflexivity| | | |]; auto. apply digits_kind_ioz.
    + erewrite numeric_dec3; [reflexivity| | | | |]; auto. apply digits_kind_ioz.
  - apply andb_true_iff in Wn as [Wn Wz]. apply andb_true_iff in Wn as [Wx Wy].
    cbn [place fst snd]. rewrite place_app. cbn [place fst snd]. rewrite place_app. cbn [place fst snd].
    erewrite numeric_frac; [reflexivity| | | | | | | | | |]; auto using place_blank.
    cbn [tstr]. destruct (digits_val y =? 0); [discriminate|reflexivity].
  - apply andb_true_iff in Wn as [Wn Wz]. apply andb_true_iff in Wn as [Wn Wy]. apply andb_true_iff in Wn as [Ww Wx].
    cbn [place fst snd]. rewrite place_app. cbn [place fst snd]. rewrite place_app. cbn [place fst snd].
    rewrite place_app. cbn [place fst snd].
    erewrite numeric_mixed; [reflexivity| | | | | | | | | | | | |]; auto using place_blank.
    cbn [tstr]. destruct (digits_val y =? 0); [discriminate|reflexivity].
Qed.

Lemma blank_t_notk k0 A : is_ws_comment k0 = false -> forallb blank_t A = true ->
  forallb (fun t => negb (tk_eqb (kind t) k0)) A = true.
Proof.
  intro Hk. apply forallb_impl. intros x H. unfold blank_t in H.
  destruct (tk_eqb (kind x) k0) eqn:E; [|reflexivity]. apply internal_tkind_dec_bl in E. rewrite E in H. congruence.
Qed.

Lemma place_notk k0 p o : forallb (notk k0) p = true -> forallb (fun t => negb (tk_eqb (kind t) k0)) (place o p) = true.
Proof. intro H. rewrite (place_forallb (fun k => negb (tk_eqb k k0))). exact H. Qed.

Section NumTok.
  Variable cfg : pcfg.

  Definition numval_wf (v : vspec) (tp : qtape) : bool :=
    match v with
    | QNum n => num_wf n (q_ta tp)
    | QRange a b => has cfg X_RANGE_VALUES && num_wf a (q_ta tp) && num_wf b (q_tb tp) &&
                    forallb blank_ok (q_bd tp) && forallb blank_ok (q_ad tp)
    | QText _ => false
    end.

  Lemma numval_reads_tok v tp A B o :
    numval_wf v tp = true -> forallb blank_t A = true -> forallb blank_t B = true ->
    range_or_numeric cfg (A ++ place o (print_value v tp) ++ B) = Some (inr (denote_value v)).
  Proof.
    intros W HA HB. destruct v as [n | a b | toks]; cbn [numval_wf print_value denote_value] in *; [| |discriminate].
    - rewrite range_or_numeric_untriggered.
      + rewrite (numeric_print_tok n (q_ta tp) A B o W HA HB). reflexivity.
      + apply position_none. rewrite !forallb_app, (blank_t_notk KMinus A eq_refl HA), (blank_t_notk KMinus B eq_refl HB).
        rewrite (place_notk KMinus); [reflexivity|]. apply numk_not; [reflexivity|]. apply print_num_numk. exact W.
    - apply andb_true_iff in W as [W Had]. apply andb_true_iff in W as [W Hbd].
      apply andb_true_iff in W as [W Wb]. apply andb_true_iff in W as [HR Wa].
      unfold range_or_numeric, range_value. rewrite HR. cbn [negb].
      rewrite place_app, place_app. cbn [place fst snd minus_p].
      set (NA := place o (print_num a (q_ta tp))). set (BD := place _ (q_bd tp)).
      set (m := {| kind := KMinus; tstr := [45]; tstart := _ |}).
      rewrite place_app. set (AD := place _ (q_ad tp)). set (NB := place _ (print_num b (q_tb tp))).
      replace (A ++ (NA ++ BD ++ m :: AD ++ NB) ++ B) with ((A ++ NA ++ BD) ++ m :: (AD ++ NB ++ B))
        by (rewrite <- !app_assoc; cbn [app]; rewrite <- !app_assoc; reflexivity).
      rewrite (position_split (fun k => tk_eqb k KMinus) (A ++ NA ++ BD) m (AD ++ NB ++ B)).
      + rewrite firstn_length_app, skipn_length_app. unfold NA, NB, BD, AD.
        rewrite (numeric_print_tok a (q_ta tp) A _ o Wa HA (place_blank _ _ Hbd)).
        rewrite (numeric_print_tok b (q_tb tp) _ B _ Wb (place_blank _ _ Had) HB). reflexivity.
      + rewrite !forallb_app, (blank_t_notk KMinus A eq_refl HA).
        unfold BD. rewrite (blank_t_notk KMinus _ eq_refl (place_blank _ _ Hbd)).
        unfold NA. rewrite (place_notk KMinus); [reflexivity|]. apply numk_not; [reflexivity|]. apply print_num_numk. exact Wa.
      + reflexivity.
  Qed.
End NumTok.

(* ---------------------------------------------------------------- ADVANCED_UNITS: `{1 g}` *)
Lemma drop_block_prefix_le G X :
  match X with x :: _ => is_ws_block (kind x) = false | [] => False end ->
  exists n, (n <= length G)%nat /\ drop_ws_block (rev G ++ X) = rev (firstn n G) ++ X.
Proof.
  intro HX. induction G as [|g G0 IH] using rev_ind.
  - exists O. split; [apply le_n|]. cbn [rev app firstn]. destruct X as [|x X']; [contradiction|]. cbn [drop_ws_block]. rewrite HX. reflexivity.
  - rewrite rev_unit. cbn [app drop_ws_block]. destruct (is_ws_block (kind g)).
    + destruct IH as (n & Hn & IH). exists n. rewrite app_length. split; [lia|].
      rewrite IH. f_equal. f_equal. rewrite firstn_app.
      replace (n - length G0)%nat with O by lia. cbn [firstn]. rewrite app_nil_r. reflexivity.
    + exists (length (G0 ++ [g])). split; [apply le_n|]. rewrite firstn_all, rev_unit. reflexivity.
Qed.

Lemma drop_block_prefix G X :
  match X with x :: _ => is_ws_block (kind x) = false | [] => False end ->
  exists n, drop_ws_block (rev G ++ X) = rev (firstn n G) ++ X.
Proof. intro H. destruct (drop_block_prefix_le G X H) as (n & _ & E). exists n. exact E. Qed.

Section AdvSome.
  Variable cfg : pcfg.

  Lemma advanced_some L E B V G u0 U al dn ev v ut :
    existsb (fun t => tk_eqb (kind t) KPercent) al = false ->
    forallb blank_t L = true ->
    (E = [] /\ B = [] /\ (match V with x :: _ => kind x <> KEq | [] => False end) \/ exists e, E = [e] /\ kind e = KEq) ->
    forallb blank_t B = true ->
    (match V with x :: _ => blank_t x = false | [] => False end) ->
    (match rev V with x :: _ => is_ws_block (kind x) = false | [] => False end) ->
    forallb (fun t => negb (tk_eqb (kind t) KWord)) (V ++ G) = true ->
    forallb blank_t G = true -> (match rev G with g :: _ => kind g = KWs | [] => False end) ->
    kind u0 = KWord ->
    (forall n, range_or_numeric cfg (V ++ firstn n G) = Some (inr v)) ->
    text_of cfg (tstart u0) (u0 :: U) = Done ut ->
    exists q,
      parse_advanced_quantity cfg (St al dn (L ++ E ++ B ++ V ++ G ++ u0 :: U) ev)
      = Done (Some (q, None), St al (rev (L ++ E ++ B ++ V ++ G ++ u0 :: U) ++ dn) [] ev) /\
      qv (q_val q) = v /\ q_unit q = Some ut /\
      (match qlock (q_val q) with Some _ => true | None => false end) = negb (is_nil E).
  Proof.
    intros Hpct HL HE HB HV0 HVl Hnw HG HGl Hu0 Hval Htx.
    destruct V as [|x V']; [contradiction|].
    unfold parse_advanced_quantity. unfold bind at 1. unfold all_tokens. cbn [b_all St]. rewrite Hpct.
    unfold bind at 1.
    assert (Hlock : exists lock dn1,
               scaling_lock (St al dn (L ++ E ++ B ++ (x :: V') ++ G ++ u0 :: U) ev)
               = Done (lock, St al dn1 (B ++ (x :: V') ++ G ++ u0 :: U) ev) /\
               dn1 = rev (L ++ E) ++ dn /\
               (match lock with Some _ => true | None => false end) = negb (is_nil E)).
    { destruct HE as [(-> & -> & Hxe) | (e & -> & He)]; cbn [app].
      - rewrite (scaling_lock_none L x _ al dn ev HL HV0 Hxe). eexists _, _. split; [reflexivity|].
        rewrite app_nil_r. split; reflexivity.
      - rewrite (scaling_lock_eq L e _ al dn ev HL He). eexists _, _. split; [reflexivity|].
        rewrite rev_app_distr. cbn [rev app]. split; reflexivity. }
    destruct Hlock as (lock & dn1 & Hsl & Hdn1 & Hlk). rewrite Hsl.
    unfold bind at 1. cbn [app].
    rewrite (ws_comments_stop B x (V' ++ G ++ u0 :: U) al dn1 ev HB HV0).
    unfold bind at 1.
    replace (x :: V' ++ G ++ u0 :: U) with (((x :: V') ++ G) ++ u0 :: U) by (rewrite <- app_assoc; reflexivity).
    rewrite (consume_while_stop (fun k => negb (tk_eqb k KWord)) ((x :: V') ++ G) u0 U al _ ev Hnw)
      by (rewrite Hu0; reflexivity).
    rewrite rev_app_distr. destruct (rev G) as [|g RG] eqn:ErG; [contradiction|]. cbn [app].
    rewrite HGl. cbn [tk_eqb tkind_beq negb].
    assert (Hd : exists n, drop_ws_block (g :: RG ++ rev (x :: V')) = rev (firstn n G) ++ rev (x :: V')).
    { change (g :: RG ++ rev (x :: V')) with ((g :: RG) ++ rev (x :: V')). rewrite <- ErG.
      apply drop_block_prefix. exact HVl. }
    destruct Hd as (n & Hd). rewrite Hd. rewrite rev_app_distr, !rev_involutive.
    cbn [app]. unfold bind at 1. unfold consume_rest.
    rewrite (consume_while_all (fun _ => true) (u0 :: U) al _ ev) by (apply forallb_forall; reflexivity).
    change (x :: V' ++ firstn n G) with ((x :: V') ++ firstn n G). rewrite (Hval n).
    unfold bind at 1. unfold ret at 1. unfold bind at 1. unfold textM, lift. rewrite Htx. unfold ret.
    match goal with |- exists q, Done (_, St _ ?a _ _) = Done (_, St _ ?b _ _) /\ _ =>
      assert (Hst : b = a) end.
    { subst dn1.
      replace (L ++ E ++ B ++ x :: (V' ++ G) ++ u0 :: U) with ((L ++ E) ++ B ++ ((x :: V') ++ G) ++ u0 :: U)
        by (rewrite <- !app_assoc; reflexivity).
      rewrite !rev_app_distr, <- ?app_assoc, ErG. cbn [app]. rewrite <- ?app_assoc. reflexivity. }
    rewrite Hst.
    eexists. split; [reflexivity|]. split; [reflexivity|split; [reflexivity|exact Hlk]].
  Qed.
End AdvSome.

(* ---------------------------------------------------------------- the quantity round trip *)
Lemma negb_true b : negb b = true -> b = false.
Proof. destruct b; [discriminate|reflexivity]. Qed.

Lemma text_ok_parts cfg pct p :
  text_ok cfg pct p = true ->
  forallb shape_ok p = true /\ kind_in KPercent p = false /\ str_blank (toks_text p) = false /\
  is_ws_comment (head_kind p) = false /\ head_kind p <> KEq /\
  (exists k, first_nonnum p = Some k /\ (has cfg X_RANGE_VALUES = false \/ k <> KMinus)) /\
  (has cfg X_ADVANCED_UNITS = false \/ pct = true \/ head_kind p = KWord \/ kind_in KWord p = false) /\
  p <> [].
Proof.
  unfold text_ok. intro W.
  apply andb_true_iff in W as [W Wadv]. apply andb_true_iff in W as [W Wfirst].
  apply andb_true_iff in W as [W Weq]. apply andb_true_iff in W as [W Wnbl].
  apply andb_true_iff in W as [W Wnb]. apply andb_true_iff in W as [Wsh Wpct].
  apply negb_true in Wpct, Wnb, Wnbl, Weq.
  repeat split; auto.
  - intro E. rewrite E in Weq. discriminate.
  - destruct (first_nonnum p) as [k|]; [|discriminate]. exists k. split; [reflexivity|].
    destruct (has cfg X_RANGE_VALUES); [right|left; reflexivity]. cbn [negb orb] in Wfirst.
    intros ->. discriminate.
  - destruct (has cfg X_ADVANCED_UNITS); [|left; reflexivity]. right. cbn [negb orb] in Wadv.
    destruct pct; [left; reflexivity|right]. cbn [orb] in Wadv. apply orb_true_iff in Wadv as [H|H].
    + left. apply internal_tkind_dec_bl in H. exact H.
    + right. apply negb_true in H. exact H.
  - intros ->. discriminate.
Qed.

Definition lock_p (q : qspec) : list ptok := if qs_lock q then [eq_p] else [].
Definition pre_p (q : qspec) (tp : qtape) : list ptok := if qs_lock q then q_after_lock tp else [].
Definition has_unit (q : qspec) : bool := match qs_unit q with Some _ => true | None => false end.

Lemma print_value_head cfg pct v tp :
  value_wf cfg pct v tp = true -> exists t r, print_value v tp = t :: r /\ blank_p t = false /\ fst t <> KEq.
Proof.
  destruct v as [n | a b | toks]; cbn [print_value value_wf]; intro W.
  - apply print_num_head.
  - destruct (print_num_head a (q_ta tp)) as (t & r & E & H1 & H2). rewrite E. cbn [app].
    eexists _, _. split; [reflexivity|]. split; assumption.
  - destruct (text_ok_parts _ _ _ W) as (_ & _ & _ & Hb & He & _ & _ & Hne).
    destruct toks as [|w r]; [contradiction|]. eexists _, _. split; [reflexivity|]. split; assumption.
Qed.

Lemma print_value_nopct cfg pct v tp : value_wf cfg pct v tp = true -> forallb (notk KPercent) (print_value v tp) = true.
Proof.
  destruct v as [n | a b | toks]; cbn [print_value value_wf]; intro W.
  - apply numk_not; [reflexivity|]. apply print_num_numk. exact W.
  - apply andb_true_iff in W as [W Had]. apply andb_true_iff in W as [W Hbd].
    apply andb_true_iff in W as [W Wb]. apply andb_true_iff in W as [_ Wa].
    rewrite forallb_app, (numk_not KPercent _ eq_refl (print_num_numk _ _ Wa)).
    rewrite forallb_app, (blank_not KPercent _ eq_refl Hbd). cbn [forallb]. unfold notk at 1. cbn [fst minus_p tk_eqb tkind_beq negb andb].
    rewrite forallb_app, (blank_not KPercent _ eq_refl Had), (numk_not KPercent _ eq_refl (print_num_numk _ _ Wb)). reflexivity.
  - destruct (text_ok_parts _ _ _ W) as (_ & Hp & _). apply kind_in_forallb. exact Hp.
Qed.

Lemma numval_noword cfg v tp : numval_wf cfg v tp = true -> forallb (notk KWord) (print_value v tp) = true.
Proof.
  destruct v as [n | a b | toks]; cbn [print_value numval_wf]; intro W; [| |discriminate].
  - apply numk_not; [reflexivity|]. apply print_num_numk. exact W.
  - apply andb_true_iff in W as [W Had]. apply andb_true_iff in W as [W Hbd].
    apply andb_true_iff in W as [W Wb]. apply andb_true_iff in W as [_ Wa].
    rewrite forallb_app, (numk_not KWord _ eq_refl (print_num_numk _ _ Wa)).
    rewrite forallb_app, (blank_not KWord _ eq_refl Hbd). cbn [forallb]. unfold notk at 1. cbn [fst minus_p tk_eqb tkind_beq negb andb].
    rewrite forallb_app, (blank_not KWord _ eq_refl Had), (numk_not KWord _ eq_refl (print_num_numk _ _ Wb)). reflexivity.
Qed.

(* without a `%` unit: the value starts with a word, or contains none (ADVANCED_UNITS on) *)
Lemma print_value_word cfg v tp :
  has cfg X_ADVANCED_UNITS = true -> value_wf cfg false v tp = true ->
  (exists t r, print_value v tp = t :: r /\ fst t = KWord) \/ forallb (notk KWord) (print_value v tp) = true.
Proof.
  intros Ha W. destruct v as [n | a b | toks].
  - right. apply (numval_noword cfg (QNum n)). exact W.
  - right. apply (numval_noword cfg (QRange a b)). exact W.
  - cbn [value_wf print_value] in *.
    destruct (text_ok_parts _ _ _ W) as (_ & _ & _ & _ & _ & _ & [H|[H|[H|H]]] & Hne); try congruence.
    + left. destruct toks as [|w r]; [contradiction|]. eexists _, _. split; [reflexivity|exact H].
    + right. apply kind_in_forallb. exact H.
Qed.

Lemma forallb_negb_existsb {A} (f : A -> bool) l : forallb (fun t => negb (f t)) l = true -> existsb f l = false.
Proof.
  induction l as [|x l IH]; cbn [forallb existsb]; [reflexivity|]. intro H. apply andb_true_iff in H as [H1 H2].
  destruct (f x); [discriminate|]. exact (IH H2).
Qed.

(* the last token of a printed number is a digit string *)
Lemma print_num_last n tp : exists pre l, print_num n tp = pre ++ [l] /\ is_ws_block (fst l) = false.
Proof.
  assert (Hd : forall ds, is_ws_block (digits_kind ds) = false).
  { intro ds. unfold digits_kind. destruct ds as [|c [|d r]]; try reflexivity. destruct (c =? 48); reflexivity. }
  destruct n as [ds | ip fp | x y | w x y]; cbn [print_num].
  - exists [], (KInt, ds). split; reflexivity.
  - destruct ip.
    + exists [dot_p], (digits_kind fp, fp). split; [reflexivity|apply Hd].
    + exists [(KInt, n :: ip); dot_p], (digits_kind fp, fp). split; [reflexivity|apply Hd].
  - exists ((KInt, x) :: n_bs tp ++ slash_p :: n_as tp), (KInt, y). split; [|reflexivity].
    cbn [app]. rewrite <- app_assoc. reflexivity.
  - exists ((KInt, w) :: n_gap tp ++ (KInt, x) :: n_bs tp ++ slash_p :: n_as tp), (KInt, y). split; [|reflexivity].
    cbn [app]. rewrite <- !app_assoc. cbn [app]. rewrite <- !app_assoc. reflexivity.
Qed.

Lemma numval_last cfg v tp :
  numval_wf cfg v tp = true -> exists pre l, print_value v tp = pre ++ [l] /\ is_ws_block (fst l) = false.
Proof.
  destruct v as [n | a b | toks]; cbn [numval_wf print_value]; intro W; [| |discriminate].
  - apply print_num_last.
  - destruct (print_num_last b (q_tb tp)) as (pre & l & E & Hl). rewrite E.
    exists (print_num a (q_ta tp) ++ q_bd tp ++ minus_p :: q_ad tp ++ pre), l. split; [|exact Hl].
    rewrite <- !app_assoc. cbn [app]. rewrite <- !app_assoc. reflexivity.
Qed.

Definition vv_p (q : qspec) (tp : qtape) : list ptok :=
  (if qs_lock q then q_after_lock tp else []) ++ print_value (qs_val q) tp ++ q_trail tp.
Definition unit_p (q : qspec) (tp : qtape) : list ptok :=
  match qs_unit q with Some u => pct_p :: q_after_pct tp ++ u ++ q_end tp | None => [] end.

Lemma print_qty_split q tp :
  (q_adv tp = None \/ qs_unit q = None) ->
  print_qty q tp = q_lead tp ++ lock_p q ++ vv_p q tp ++ unit_p q tp.
Proof.
  intro H. unfold print_qty, print_unit, lock_p, vv_p, unit_p.
  destruct (qs_unit q) as [u|]; [destruct H as [->|H]; [|discriminate]|];
    destruct (qs_lock q); cbn [app]; rewrite <- ?app_assoc; cbn [app]; rewrite ?app_nil_r; reflexivity.
Qed.

Section Main.
  Variable cfg : pcfg.

  Lemma pq_regular q tp off s :
    qty_wf cfg q tp = true -> (q_adv tp = None \/ qs_unit q = None) ->
    exists q' sep, parse_quantity cfg (place off (print_qty q tp)) s = Done ((q', sep), s) /\
                   qproj q' = denote_qty q.
  Proof.
    intros W Hreg0. unfold qty_wf in W.
    apply andb_true_iff in W as [W _]. apply andb_true_iff in W as [W Wunit].
    apply andb_true_iff in W as [W Wval]. apply andb_true_iff in W as [W Wend].
    apply andb_true_iff in W as [W Wap]. apply andb_true_iff in W as [W Wtrail].
    apply andb_true_iff in W as [W Wad]. apply andb_true_iff in W as [W Wbd].
    apply andb_true_iff in W as [W Wal]. apply andb_true_iff in W as [Wstrict Wlead].
    assert (Hstrict : p_strict_escape cfg = false) by (destruct (p_strict_escape cfg); [discriminate|reflexivity]).
    assert (Wv : value_wf cfg (has_unit q) (qs_val q) tp = true).
    { unfold value_wf. destruct (qs_val q); [exact Wval | | exact Wval]. rewrite Wval, Wbd, Wad. reflexivity. }
    set (pre := if qs_lock q then q_after_lock tp else []).
    assert (Hpre : forallb blank_ok pre = true) by (unfold pre; destruct (qs_lock q); [exact Wal|reflexivity]).
    rewrite (print_qty_split q tp Hreg0). rewrite !place_app.
    set (o1 := off + blen (unlex (q_lead tp))).
    set (o2 := o1 + blen (unlex (lock_p q))).
    set (o3 := o2 + blen (unlex (vv_p q tp))).
    set (TL := place off (q_lead tp)). set (TE := place o1 (lock_p q)).
    set (TV := place o2 (vv_p q tp)). set (TP := place o3 (unit_p q tp)).
    (* the pieces *)
    assert (HL : forallb blank_t TL = true) by (apply place_blank; exact Wlead).
    assert (HE : TE = [] \/ exists e, TE = [e] /\ kind e = KEq).
    { unfold TE, lock_p. destruct (qs_lock q); [right|left; reflexivity]. eexists. split; reflexivity. }
    destruct (print_value_head cfg _ _ _ Wv) as (t0 & r0 & Eh & Hb0 & Hk0).
    assert (HEV : TE = [] -> match TV with x :: _ => blank_t x = false /\ kind x <> KEq | [] => False end).
    { unfold TE, TV, lock_p, vv_p. destruct (qs_lock q); [discriminate|]. intros _. cbn [app]. rewrite Eh.
      cbn [app place kind]. split; assumption. }
    assert (Hne : TV <> []).
    { unfold TV, vv_p. rewrite Eh. destruct (if qs_lock q then q_after_lock tp else []); discriminate. }
    assert (Hnp : forallb (fun t => negb (tk_eqb (kind t) KPercent)) TV = true).
    { unfold TV. rewrite (place_forallb (fun k => negb (tk_eqb k KPercent))). unfold vv_p. fold pre.
      change (forallb (notk KPercent) (pre ++ print_value (qs_val q) tp ++ q_trail tp) = true).
      rewrite !forallb_app, (blank_not KPercent _ eq_refl Hpre), (blank_not KPercent _ eq_refl Wtrail),
        (print_value_nopct cfg _ _ _ Wv). reflexivity. }
    assert (Hv : value_reads cfg TV (denote_value (qs_val q))).
    { unfold TV, vv_p. fold pre. apply (value_reads_print cfg Hstrict (has_unit q)); assumption. }
    assert (Hu : unit_reads cfg TP (option_map (fun u => clean (toks_text u)) (qs_unit q))).
    { unfold TP, unit_p. destruct (qs_unit q) as [u|]; cbn [option_map].
      - apply andb_true_iff in Wunit as [Wu1 Wu3]. apply andb_true_iff in Wu1 as [Wu1 Wu2]. apply unit_reads_print; auto.
        destruct (str_blank (toks_text u)); [discriminate|reflexivity].
      - left. split; reflexivity. }
    set (ts := TL ++ TE ++ TV ++ TP).
    assert (Hts : ts <> []).
    { unfold ts. destruct TL; [|discriminate]. destruct TE; [|discriminate]. destruct TV; [contradiction|discriminate]. }
    destruct (regular_ok cfg TL TE TV TP ts [] (b_evs s) _ _ HL HE HEV Hne Hnp Hv Hu) as (q' & sep & Hreg & Hqv & Hlk & Hun).
    fold ts in Hreg.
    assert (Hinner :
      (if has cfg X_ADVANCED_UNITS
       then bind (with_recover (parse_advanced_quantity cfg))
                 (fun o => match o with Some r => ret r | None => parse_regular_quantity cfg end)
       else parse_regular_quantity cfg) (St ts [] ts (b_evs s))
      = Done ((q', sep), St ts (rev ts ++ []) [] (b_evs s))).
    { destruct (has cfg X_ADVANCED_UNITS) eqn:Ha; [|exact Hreg].
      unfold bind, with_recover.
      destruct (qs_unit q) as [u|] eqn:Eu.
      - rewrite advanced_untriggered.
        + cbn [b_all b_done b_rest b_evs St]. exact Hreg.
        + cbn [b_all St]. unfold ts. rewrite !existsb_app. unfold TP, unit_p. rewrite Eu.
          cbn [place existsb kind fst pct_p tk_eqb tkind_beq]. rewrite !orb_true_r. reflexivity.
      - (* no unit: the advanced reading gives up without a diagnostic *)
        assert (HTP : TP = []) by (unfold TP, unit_p; rewrite Eu; reflexivity).
        assert (Hdec : exists TB x R, TV = TB ++ x :: R /\ forallb blank_t TB = true /\ blank_t x = false /\
                   (TE = [] -> TB = [] /\ kind x <> KEq) /\
                   (kind x = KWord \/ forallb (fun t => negb (tk_eqb (kind t) KWord)) (x :: R) = true)).
        { unfold TV, vv_p. fold pre. rewrite Eh, place_app. cbn [app place].
          eexists _, _, _. split; [reflexivity|]. split; [apply place_blank; exact Hpre|]. split; [exact Hb0|].
          split.
          - intro HTE. unfold pre. unfold TE, lock_p in HTE. destruct (qs_lock q); [discriminate|].
            split; [reflexivity|exact Hk0].
          - cbn [kind]. assert (Wv0 : value_wf cfg false (qs_val q) tp = true) by (unfold has_unit in Wv; rewrite Eu in Wv; exact Wv).
            destruct (print_value_word cfg _ _ Ha Wv0) as [(t1 & r1 & E1 & Hw1) | Hnw].
            + left. rewrite Eh in E1. inversion E1; subst. exact Hw1.
            + right. rewrite Eh in Hnw.
              change ({| kind := fst t0; tstr := snd t0; tstart := o2 + blen (unlex pre) |}
                        :: place (o2 + blen (unlex pre) + blen (snd t0)) (r0 ++ q_trail tp))
                with (place (o2 + blen (unlex pre)) ((t0 :: r0) ++ q_trail tp)).
              rewrite (place_forallb (fun k => negb (tk_eqb k KWord))).
              change (forallb (notk KWord) ((t0 :: r0) ++ q_trail tp) = true).
              rewrite forallb_app, Hnw, (blank_not KWord _ eq_refl Wtrail). reflexivity. }
        destruct Hdec as (TB & x & R & ETV & HTB & Hxb & HxE & Hxw).
        assert (Hpct : existsb (fun t => tk_eqb (kind t) KPercent) ts = false).
        { apply forallb_negb_existsb. unfold ts. rewrite HTP, app_nil_r, !forallb_app, Hnp.
          assert (H1 : forallb (fun t => negb (tk_eqb (kind t) KPercent)) TL = true).
          { unfold TL. rewrite (place_forallb (fun k => negb (tk_eqb k KPercent))).
            exact (blank_not KPercent _ eq_refl Wlead). }
          rewrite H1. destruct HE as [-> | (e & -> & He)]; [reflexivity|]. cbn [forallb]. rewrite He. reflexivity. }
        destruct (advanced_none cfg TL TE TB x R ts [] (b_evs s) Hpct HL) as (s' & Hadv & Hev); auto.
        { destruct HE as [HE | HE]; [left|right; exact HE]. destruct (HxE HE) as [-> Hk]. auto. }
        assert (Hts2 : TL ++ TE ++ TB ++ x :: R = ts).
        { unfold ts. rewrite HTP, app_nil_r, ETV. reflexivity. }
        rewrite Hts2 in Hadv. rewrite Hadv. cbn [b_all b_done b_rest b_evs St]. rewrite Hev. exact Hreg. }
    exists q', sep. split.
    - unfold parse_quantity. fold ts. destruct ts as [|t1 ts'] eqn:Ets; [contradiction|]. rewrite <- Ets in *.
      unfold sub_block. rewrite Ets at 1. fold (St ts [] ts (b_evs s)).
      rewrite Hinner. destruct s; reflexivity.
    - unfold qproj, denote_qty. rewrite Hqv, Hlk, Hun. f_equal. f_equal.
      unfold TE, lock_p. destruct (qs_lock q); reflexivity.
  Qed.



  Lemma forallb_firstn {A} (f : A -> bool) n l : forallb f l = true -> forallb f (firstn n l) = true.
  Proof.
    revert n. induction l as [|x l IH]; intros [|n] H; cbn [firstn forallb] in *; auto.
    apply andb_true_iff in H as [H1 H2]. rewrite H1, (IH n H2). reflexivity.
  Qed.

  Lemma place_last_kind p : forall o k, p <> [] -> last_kind p = k ->
    match rev (place o p) with g :: _ => kind g = k | [] => False end.
  Proof.
    induction p as [|t p0 _] using rev_ind; intros o k Hne Hk; [contradiction|].
    rewrite place_app. cbn [place]. rewrite rev_unit. cbn [kind].
    unfold last_kind in Hk. rewrite rev_unit in Hk. exact Hk.
  Qed.

  Lemma pq_advanced q tp off s u gap :
    qty_wf cfg q tp = true -> qs_unit q = Some u -> q_adv tp = Some gap ->
    exists q' sep, parse_quantity cfg (place off (print_qty q tp)) s = Done ((q', sep), s) /\
                   qproj q' = denote_qty q.
  Proof.
    intros W Eu Eg. unfold qty_wf in W. rewrite Eu, Eg in W.
    apply andb_true_iff in W as [W Wadv]. apply andb_true_iff in W as [W Wunit].
    apply andb_true_iff in W as [W Wval]. apply andb_true_iff in W as [W Wend].
    apply andb_true_iff in W as [W Wap]. apply andb_true_iff in W as [W Wtrail].
    apply andb_true_iff in W as [W Wad]. apply andb_true_iff in W as [W Wbd].
    apply andb_true_iff in W as [W Wal]. apply andb_true_iff in W as [Wstrict Wlead].
    assert (Hstrict : p_strict_escape cfg = false) by (destruct (p_strict_escape cfg); [discriminate|reflexivity]).
    apply andb_true_iff in Wadv as [Wadv Wuw]. apply andb_true_iff in Wadv as [Wadv Wgl].
    apply andb_true_iff in Wadv as [Wadv Wgb]. apply andb_true_iff in Wadv as [Ha Wnt].
    apply andb_true_iff in Wunit as [Wu1 Wu3]. apply andb_true_iff in Wu1 as [Wu1 Wu2].
    apply internal_tkind_dec_bl in Wgl, Wuw. apply negb_true in Wu3.
    assert (Wn : numval_wf cfg (qs_val q) tp = true).
    { unfold numval_wf. destruct (qs_val q); [exact Wval | | discriminate]. rewrite Wval, Wbd, Wad. reflexivity. }
    destruct u as [|u0 ur]; [discriminate|]. cbn [head_kind] in Wuw.
    assert (Hgne : gap <> []) by (intros ->; discriminate).
    set (pre := pre_p q tp).
    assert (Hpre : forallb blank_ok pre = true) by (unfold pre, pre_p; destruct (qs_lock q); [exact Wal|reflexivity]).
    assert (Epr : print_qty q tp = q_lead tp ++ lock_p q ++ pre ++ print_value (qs_val q) tp ++ gap ++ (u0 :: ur) ++ q_end tp).
    { unfold print_qty, print_unit, lock_p, pre, pre_p. rewrite Eu, Eg. destruct (qs_lock q); cbn [app]; reflexivity. }
    rewrite Epr. rewrite !place_app.
    set (TL := place off (q_lead tp)). set (TE := place _ (lock_p q)). set (TB := place _ pre).
    set (oV := off + blen (unlex (q_lead tp)) + blen (unlex (lock_p q)) + blen (unlex pre)).
    set (TV := place oV (print_value (qs_val q) tp)). set (TG := place _ gap).
    set (oU := oV + blen (unlex (print_value (qs_val q) tp)) + blen (unlex gap)).
    rewrite <- (place_app (u0 :: ur) oU (q_end tp)).
    change (place oU ((u0 :: ur) ++ q_end tp)) with
      ({| kind := fst u0; tstr := snd u0; tstart := oU |} :: place (oU + blen (snd u0)) (ur ++ q_end tp)).
    set (U0 := {| kind := fst u0; tstr := snd u0; tstart := oU |}). set (TU := place (oU + blen (snd u0)) (ur ++ q_end tp)).
    destruct (print_value_head cfg true _ _ (ltac:(destruct (qs_val q); [exact Wn|exact Wn|discriminate])
                                             : value_wf cfg true (qs_val q) tp = true))
      as (t0 & r0 & Eh & Hb0 & Hk0).
    destruct (numval_last cfg _ _ Wn) as (vp & vl & Evl & Hvl).
    destruct (text_reads cfg Hstrict ((u0 :: ur) ++ q_end tp) oU) as (ut & Etx & Hem & Htr).
    { rewrite forallb_app, Wu1, (blank_ok_shape _ Wend). reflexivity. }
    set (ts := TL ++ TE ++ TB ++ TV ++ TG ++ U0 :: TU).
    assert (HL : forallb blank_t TL = true) by (apply place_blank; exact Wlead).
    assert (HB : forallb blank_t TB = true) by (apply place_blank; exact Hpre).
    assert (HG : forallb blank_t TG = true) by (apply place_blank; exact Wgb).
    assert (Hnw : forallb (fun t => negb (tk_eqb (kind t) KWord)) (TV ++ TG) = true).
    { rewrite forallb_app. unfold TV, TG. rewrite (place_notk KWord _ _ (numval_noword cfg _ _ Wn)).
      rewrite (place_notk KWord _ _ (blank_not KWord _ eq_refl Wgb)). reflexivity. }
    assert (Hpct : existsb (fun t => tk_eqb (kind t) KPercent) ts = false).
    { apply forallb_negb_existsb. unfold ts. rewrite !forallb_app.
      unfold TL, TE, TB, TV, TG.
      rewrite (place_notk KPercent _ _ (blank_not KPercent _ eq_refl Wlead)).
      rewrite (place_notk KPercent _ _ (blank_not KPercent _ eq_refl Hpre)).
      rewrite (place_notk KPercent _ _ (blank_not KPercent _ eq_refl Wgb)).
      rewrite (place_notk KPercent (print_value (qs_val q) tp)).
      2:{ apply (print_value_nopct cfg true). destruct (qs_val q); [exact Wn|exact Wn|discriminate]. }
      rewrite (place_notk KPercent (lock_p q)) by (unfold lock_p; destruct (qs_lock q); reflexivity).
      change (U0 :: TU) with (place oU ((u0 :: ur) ++ q_end tp)).
      rewrite (place_notk KPercent); [reflexivity|].
      rewrite forallb_app, (kind_in_forallb _ _ Wu3), (blank_not KPercent _ eq_refl Wend). reflexivity. }
    destruct (advanced_some cfg TL TE TB TV TG U0 TU ts [] (b_evs s) (denote_value (qs_val q)) ut Hpct HL)
      as (q' & Hadv & Hqv & Hqu & Hlk); auto.
    - unfold TE, TB, TV, pre, pre_p, lock_p. destruct (qs_lock q).
      + right. eexists. split; reflexivity.
      + left. split; [reflexivity|]. split; [reflexivity|]. rewrite Eh. cbn [place kind]. exact Hk0.
    - unfold TV. rewrite Eh. cbn [place kind]. exact Hb0.
    - unfold TV. rewrite Evl, place_app. cbn [place]. rewrite rev_unit. cbn [kind]. exact Hvl.
    - unfold TG. apply place_last_kind; assumption.
    - intro n. change (TV ++ firstn n TG) with ([] ++ TV ++ firstn n TG). unfold TV.
      apply (numval_reads_tok cfg _ tp [] (firstn n TG) oV Wn eq_refl). apply forallb_firstn. exact HG.
    - change (TL ++ TE ++ TB ++ TV ++ TG ++ U0 :: TU) with ts in Hadv.
      exists q', None. split.
      + unfold parse_quantity.
        assert (Hts : ts <> []) by (unfold ts; destruct TL; [|discriminate]; destruct TE; [|discriminate];
                                    destruct TB; [|discriminate]; destruct TV; [|discriminate]; destruct TG; discriminate).
        destruct ts as [|t1 ts'] eqn:Ets; [contradiction|]. rewrite <- Ets in *.
        unfold sub_block. rewrite Ets at 1. fold (St ts [] ts (b_evs s)). rewrite Ha.
        unfold bind, with_recover. rewrite Hadv. unfold ret. destruct s; reflexivity.
      + unfold qproj, denote_qty. rewrite Hqv, Hlk, Hqu, Eu. cbn [option_map]. f_equal; [f_equal|].
        * unfold TE, lock_p. destruct (qs_lock q); reflexivity.
        * f_equal. rewrite Htr, toks_text_app. unfold clean.
          change (toks_text (u0 :: ur) ++ toks_text (q_end tp)) with ([] ++ toks_text (u0 :: ur) ++ toks_text (q_end tp)).
          rewrite trim_pad; [reflexivity|reflexivity|apply blank_toks_text; exact Wend].
  Qed.

  Theorem parse_quantity_print q tp off s :
    qty_wf cfg q tp = true ->
    exists q' sep, parse_quantity cfg (place off (print_qty q tp)) s = Done ((q', sep), s) /\
                   qproj q' = denote_qty q.
  Proof.
    intro W. destruct (qs_unit q) as [u|] eqn:Eu; [destruct (q_adv tp) as [gap|] eqn:Eg|].
    - eapply pq_advanced; eassumption.
    - apply pq_regular; [exact W|left; exact Eg].
    - apply pq_regular; [exact W|right; exact Eu].
  Qed.
End Main.
(* ---------------------------------------------------------------- the u32 bound *)
Lemma numeric_frac_gen a A s1 S s2 B b :
  forallb blank_t a = true -> forallb blank_t b = true ->
  forallb blank_t s1 = true -> forallb blank_t s2 = true ->
  kind A = KInt -> kind S = KSlash -> kind B = KInt ->
  numeric_value (a ++ (A :: s1 ++ S :: s2 ++ [B]) ++ b) = Some (frac_of A B).
Proof.
  intros Ha Hb H1 H2 HA HS HB.
  assert (NA : blank_t A = false) by (eapply kind_blank_false; [eassumption|reflexivity]).
  assert (NS : blank_t S = false) by (eapply kind_blank_false; [eassumption|reflexivity]).
  assert (NB : blank_t B = false) by (eapply kind_blank_false; [eassumption|reflexivity]).
  assert (Ht : trim_tokens (a ++ (A :: s1 ++ S :: s2 ++ [B]) ++ b) = A :: s1 ++ S :: s2 ++ [B]).
  { replace (A :: s1 ++ S :: s2 ++ [B]) with ((A :: s1 ++ S :: s2) ++ [B])
      by (cbn [app]; rewrite <- app_assoc; reflexivity).
    apply trim_tokens_pad; assumption. }
  destruct s1 as [|x s1]; [destruct s2 as [|y s2]|].
  - unfold numeric_value. rewrite Ht. cbn [app]. rewrite HA, HS, HB. cbn.
    unfold not_ws_comment. rewrite HA, HS, HB. cbn. rewrite HA, HS, HB. reflexivity.
  - rewrite (nv_long _ _ Ht) by (cbn [app length]; rewrite ?app_length; cbn [app length]; rewrite ?app_length; cbn [length]; lia).
    rewrite (filter_frac A [] S (y :: s2) B H1 H2 NA NS NB). cbn [frac_part]. rewrite HA, HS, HB. reflexivity.
  - rewrite (nv_long _ _ Ht) by (cbn [app length]; rewrite ?app_length; cbn [app length]; rewrite ?app_length; cbn [length]; lia).
    rewrite (filter_frac A (x :: s1) S s2 B H1 H2 NA NS NB). cbn [frac_part]. rewrite HA, HS, HB. reflexivity.
Qed.

(* a fraction whose numerator does not fit u32 is reported (parse::<u32>() fails), not read *)
Lemma numeric_print_overflow x y tp a b off :
  forallb blank_ok (n_bs tp) = true -> forallb blank_ok (n_as tp) = true ->
  forallb blank_ok a = true -> forallb blank_ok b = true ->
  fits_u32 x = false ->
  exists d, numeric_value (place off (a ++ print_num (SFrac x y) tp ++ b)) = Some (inl d) /\
            d_err d = true /\ d_code d = D_INT_PARSE.
Proof.
  intros Wbs Was Ha Hb Hx. rewrite !place_app. cbn [print_num place fst snd].
  rewrite place_app. cbn [place fst snd]. rewrite place_app. cbn [place fst snd].
  erewrite numeric_frac_gen; try reflexivity; auto using place_blank.
  unfold frac_of, int_of at 1. cbn [tstr]. unfold fits_u32 in Hx. rewrite Hx.
  eexists. split; [reflexivity|]. split; reflexivity.
Qed.

(* ---------------------------------------------------------------- decimal digits of a natural number *)
Lemma digits_val_acc s : forall init,
  fold_left (fun acc c => acc * 10 + (c - 48)) s init = init * 10 ^ N.of_nat (length s) + digits_val s.
Proof.
  unfold digits_val. induction s as [|c s IH]; intro init; cbn [fold_left length].
  - cbn. lia.
  - rewrite IH. rewrite (IH (0 * 10 + (c - 48))). rewrite Nat2N.inj_succ, N.pow_succ_r'. lia.
Qed.

Lemma digits_val_cons c s : digits_val (c :: s) = (c - 48) * 10 ^ N.of_nat (length s) + digits_val s.
Proof. unfold digits_val at 1. cbn [fold_left]. rewrite digits_val_acc. lia. Qed.

Lemma log2_div10 n : 10 <= n -> N.log2 (n / 10) < N.log2 n.
Proof.
  intro H. assert (Hq : 0 < n / 10) by (apply N.div_str_pos; lia).
  apply N.log2_lt_pow2; [exact Hq|].
  assert (Hn : 0 < n) by lia. destruct (N.log2_spec n Hn) as [_ Hu].
  rewrite N.pow_succ_r' in Hu. apply N.div_lt_upper_bound; lia.
Qed.

Lemma digits_fuel_val : forall fuel n acc,
  (N.to_nat (N.log2 n) < fuel)%nat ->
  digits_val (digits_fuel fuel n acc) = n * 10 ^ N.of_nat (length acc) + digits_val acc.
Proof.
  induction fuel as [|f IH]; intros n acc Hf; [lia|]. cbn [digits_fuel].
  assert (Hd : n mod 10 < 10) by (apply N.mod_lt; lia).
  destruct (n <? 10) eqn:E.
  - apply N.ltb_lt in E. rewrite digits_val_cons. rewrite (N.mod_small n 10 E). f_equal. f_equal. lia.
  - apply N.ltb_ge in E. rewrite IH.
    + rewrite digits_val_cons. cbn [length]. rewrite Nat2N.inj_succ, N.pow_succ_r'.
      rewrite (N.add_comm 48 (n mod 10)), N.add_sub.
      pose proof (N.div_mod n 10 ltac:(lia)) as Hdm. nia.
    + pose proof (log2_div10 n E). lia.
Qed.

Theorem digits_of_val n : digits_val (digits_of n) = n.
Proof. unfold digits_of. rewrite digits_fuel_val by lia. cbn. lia. Qed.

Lemma digits_fuel_shape : forall fuel n acc,
  (N.to_nat (N.log2 n) < fuel)%nat -> forallb is_digit acc = true -> (n = 0 -> acc = []) ->
  exists c t', digits_fuel fuel n acc = c :: t' /\ is_digit c = true /\ forallb is_digit t' = true /\
               ((c =? 48) = false \/ t' = []).
Proof.
  induction fuel as [|f IH]; intros n acc Hf Ha Hz; [lia|]. cbn [digits_fuel].
  assert (Hd : n mod 10 < 10) by (apply N.mod_lt; lia).
  remember (n mod 10) as d eqn:Ed.
  assert (Hdig : is_digit (48 + d) = true).
  { unfold is_digit. apply andb_true_iff. split; apply N.leb_le; lia. }
  destruct (n <? 10) eqn:E.
  - apply N.ltb_lt in E. eexists _, _. split; [reflexivity|]. split; [exact Hdig|]. split; [exact Ha|].
    rewrite (N.mod_small n 10 E) in Ed. subst d. destruct (N.eq_dec n 0) as [->|Hn]; [right; auto|].
    left. apply N.eqb_neq. lia.
  - apply N.ltb_ge in E. apply IH.
    + pose proof (log2_div10 n E). lia.
    + cbn [forallb]. rewrite Hdig, Ha. reflexivity.
    + intro H0. assert (0 < n / 10) by (apply N.div_str_pos; lia). lia.
Qed.

Lemma span_while_all_true p s : forallb p s = true -> span_while p s = (s, []).
Proof.
  induction s as [|c s IH]; cbn [forallb span_while]; [reflexivity|]. intro H.
  apply andb_true_iff in H as [H1 H2]. rewrite H1, (IH H2). reflexivity.
Qed.

Theorem digits_of_tok_ok U n : tok_ok U (KInt, digits_of n) = true.
Proof.
  unfold digits_of.
  destruct (digits_fuel_shape (S (N.to_nat (N.log2 n))) n []) as (c & t' & E & Hc & Ht & Hz);
    [lia | reflexivity | reflexivity |].
  rewrite E. unfold tok_ok. cbn [fst snd]. unfold lex_one.
  unfold is_digit in Hc. apply andb_true_iff in Hc as [H1 H2]. apply N.leb_le in H1, H2.
  replace (c =? 92) with false by (symmetry; apply N.eqb_neq; lia).
  replace (c =? 62) with false by (symmetry; apply N.eqb_neq; lia).
  replace (c =? 45) with false by (symmetry; apply N.eqb_neq; lia).
  replace (c =? 91) with false by (symmetry; apply N.eqb_neq; lia).
  replace (c =? 10) with false by (symmetry; apply N.eqb_neq; lia).
  replace (c =? 13) with false by (symmetry; apply N.eqb_neq; lia).
  cbn [andb]. replace (is_digit c) with true by (symmetry; unfold is_digit; apply andb_true_iff; split; apply N.leb_le; lia).
  rewrite (span_while_all_true _ _ Ht). destruct Hz as [Hz | ->]; [|reflexivity].
  rewrite Hz. destruct t'; reflexivity.
Qed.

(* ---------------------------------------------------------------- components: ingredient, braces form *)
Lemma until_stop f A t B al dn ev :
  forallb (fun x => negb (f (kind x))) A = true -> f (kind t) = true ->
  until f (St al dn (A ++ t :: B) ev) = Done (Some A, St al (rev A ++ dn) (t :: B) ev).
Proof.
  intros HA Ht. unfold until. cbn [b_rest St]. rewrite (position_split f A t B HA Ht).
  rewrite firstn_length_app. fold (St al dn (A ++ t :: B) ev). rewrite advance_split. reflexivity.
Qed.

Lemma comp_body_braces NM ob Q cb R al dn ev :
  forallb (fun x => negb (is_marker_or_open (kind x))) NM = true -> kind ob = KOpenBrace ->
  forallb (fun x => negb (tk_eqb (kind x) KCloseBrace)) Q = true -> kind cb = KCloseBrace ->
  comp_body (St al dn (NM ++ ob :: Q ++ cb :: R) ev)
  = Done (Some {| bd_name := NM; bd_close := Some (tstart ob, tend cb);
                  bd_qty := if existsb (fun t => negb (is_ws_block (kind t))) Q then Some Q else None |},
          St al (cb :: rev Q ++ ob :: rev NM ++ dn) R ev).
Proof.
  intros HN Hob HQ Hcb. unfold comp_body. unfold bind at 1. unfold with_recover.
  unfold obindM at 1. unfold bind at 1.
  rewrite (until_stop is_marker_or_open NM ob (Q ++ cb :: R) al dn ev HN) by (rewrite Hob; reflexivity).
  unfold obindM at 1. unfold bind at 1. unfold consume. unfold bind at 1. unfold at_kind, peek_of.
  cbn [b_rest St]. rewrite Hob. cbn [tk_eqb tkind_beq]. unfold bind at 1. unfold bump_any, bind, next_token.
  cbn [b_rest b_all b_done b_evs St]. unfold ret at 1 2.
  unfold obindM at 1. fold (St al (ob :: rev NM ++ dn) (Q ++ cb :: R) ev). unfold bind at 1.
  rewrite (until_stop (fun k => tk_eqb k KCloseBrace) Q cb R al _ ev HQ) by (rewrite Hcb; reflexivity).
  unfold bump, bind, bump_any, bind, next_token. cbn [b_rest b_all b_done b_evs St]. unfold ret.
  rewrite Hcb. cbn [tk_eqb tkind_beq]. reflexivity.
Qed.

Lemma note_absent cfg s :
  tk_eqb (peek_of s) KOpenParen = false -> note cfg s = Done (None, s).
Proof.
  intro H. unfold note, with_recover, obindM, bind, consume, bind, at_kind. rewrite H. unfold ret.
  destruct s; reflexivity.
Qed.

Section Igr.
  Variable cfg : pcfg.

  Lemma ingredient_braces at_ n0 NM ob Q cb R al dn ev name (qres : option quantity) :
    kind at_ = KAt ->
    forallb (fun x => negb (is_marker_or_open (kind x))) (n0 :: NM) = true ->
    is_modifier_kind (kind n0) = false ->
    position (fun k => tk_eqb k KOr) (n0 :: NM) = None ->
    kind ob = KOpenBrace ->
    forallb (fun x => negb (tk_eqb (kind x) KCloseBrace)) Q = true -> kind cb = KCloseBrace ->
    tk_eqb (match R with t :: _ => kind t | [] => KEof end) KOpenParen = false ->
    text_of cfg (tend at_) (n0 :: NM) = Done name -> is_text_empty name = false ->
    (if existsb (fun t => negb (is_ws_block (kind t))) Q
     then exists q' sep, qres = Some q' /\
            let s := St al (cb :: rev Q ++ ob :: rev (n0 :: NM) ++ at_ :: dn) R ev in
            parse_quantity cfg Q s = Done ((q', sep), s)
     else qres = None) ->
    exists i,
      ingredient_p cfg (St al dn (at_ :: (n0 :: NM) ++ ob :: Q ++ cb :: R) ev)
      = Done (Some (EvIngredient i), St al (cb :: rev Q ++ ob :: rev (n0 :: NM) ++ at_ :: dn) R ev) /\
      i_name i = name /\ i_alias i = None /\ i_mods i = 0 /\ i_inter i = None /\ i_note i = None /\
      i_qty i = qres.
  Proof.
    intros Hat HN Hmod Hor Hob HQ Hcb Hnote Htx Hem Hq.
    unfold ingredient_p, obindM, bind, current_offset, consume, bind, at_kind, bump_any, bind, next_token, ret.
    unfold peek_of at 1. unfold St at 1. cbn [b_rest]. rewrite Hat. cbn [tk_eqb tkind_beq].
    unfold St. cbn [b_rest b_all b_done b_evs].
    fold (St al (at_ :: dn) ((n0 :: NM) ++ ob :: Q ++ cb :: R) ev).
    rewrite (modifiers_untriggered cfg (St al (at_ :: dn) ((n0 :: NM) ++ ob :: Q ++ cb :: R) ev))
      by (unfold peek_of; cbn [b_rest St app]; exact Hmod).
    rewrite (comp_body_braces (n0 :: NM) ob Q cb R al (at_ :: dn) ev HN Hob HQ Hcb).
    rewrite note_absent by (unfold peek_of; cbn [b_rest St]; exact Hnote).
    cbn [bd_name bd_qty].
    rewrite (alias_untriggered cfg (n0 :: NM) _ Hor). unfold bind, textM, lift, ret.
    unfold current_offset_of at 1. cbn [b_done St].
    rewrite Htx. unfold check_empty_name. rewrite Hem. unfold ret, parse_modifiers, ret.
    destruct (existsb (fun t => negb (is_ws_block (kind t))) Q).
    - destruct Hq as (q' & sep & -> & Hpq). cbn zeta in Hpq. rewrite Hpq.
      eexists. split; [reflexivity|]. cbn. repeat split; reflexivity.
    - subst qres. eexists. split; [reflexivity|]. cbn. repeat split; reflexivity.
  Qed.
End Igr.

