(* C01, document level: the document printer of Model/Printer.v ([print_doc]: blocks, the newline
   that ends each, empty or comment-only lines before and between them) produces a token stream
   with the layout [doc_toks] of Proofs/RoundTripDoc.v, so the event stream of the printed text is
   the intended one under the decidable condition [doc_ok]. *)
From CL Require Import Base.StrLemmas Model.Lexer Model.Parser Proofs.LexerProofs Proofs.ParserGates.
From CL Require Import Model.Printer Proofs.RoundTrip Proofs.RoundTripComp Proofs.RoundTripDoc.
From CL Require Import Proofs.MetaIterProofs.
From CL Require Proofs.ParserFM.

Lemma is_empty_k_tok k : is_empty_k k = is_empty_tok k.
Proof. destruct k; reflexivity. Qed.

Lemma fence_list_none ls : forall off, forallb (fun l => negb (is_fence l)) ls = true -> fence_list ls off = [].
Proof.
  induction ls as [|l r IH]; intros off H; [reflexivity|]. cbn [forallb] in H. apply andb_true_iff in H as [Hl Hr].
  cbn [fence_list]. apply negb_true in Hl. rewrite Hl. apply IH. exact Hr.
Qed.

Lemma no_fence_fm_free cfg s : no_fence_line s = true -> fm_free cfg s = true.
Proof. intro H. unfold fm_free, parse_frontmatter. rewrite (fence_list_none _ 0 H). reflexivity. Qed.

Lemma fm_free_none cfg s : fm_free cfg s = true -> parse_frontmatter cfg s = None.
Proof. unfold fm_free. destruct (parse_frontmatter cfg s); [discriminate|reflexivity]. Qed.

(* ---- empty lines *)
Lemma place_eline e o :
  eline_ok e = true ->
  eline (place o (fst e)) /\ nlk {| kind := fst (snd e); tstr := snd (snd e); tstart := o + blen (unlex (fst e)) |} = true.
Proof.
  unfold eline_ok. intro H. apply andb_true_iff in H as [H1 H2]. split; [|exact H2].
  unfold eline. rewrite (place_forallb (fun k => is_empty_tok k && negb (tk_eqb k KNewline))).
  eapply forallb_impl; [|exact H1]. intros x Hx. cbv beta in Hx |- *. rewrite <- is_empty_k_tok. exact Hx.
Qed.

Lemma print_elines_cons e l : print_elines (e :: l) = fst e ++ snd e :: print_elines l.
Proof. unfold print_elines, print_eline. cbn [map concat]. rewrite <- app_assoc. reflexivity. Qed.

Lemma place_elines l : forall o, forallb eline_ok l = true -> elines (place o (print_elines l)).
Proof.
  induction l as [|e l IH]; intros o H; [constructor|].
  cbn [forallb] in H. apply andb_true_iff in H as [He Hl].
  rewrite print_elines_cons, place_app. cbn [place].
  destruct (place_eline e o He) as [H1 H2].
  apply el_cons; [exact H1|exact H2|apply IH; exact Hl].
Qed.

(* ---- lines of a multi-line block, on tokens *)
Fixpoint mlines_t (p : list tok) (start seen : bool) : bool :=
  match p with
  | [] => seen
  | t :: r =>
      if nlk t then seen && mlines_t r true false
      else negb (start && is_slm_k (kind t)) && mlines_t r false (seen || negb (is_empty_tok (kind t)))
  end.

Lemma mlines_place p : forall o st sn, mlines_t (place o p) st sn = mlines_aux p st sn.
Proof.
  induction p as [|t r IH]; intros o st sn; [reflexivity|]. cbn [place mlines_t mlines_aux]. unfold nlk, is_nl_k. cbn [kind].
  rewrite !IH. reflexivity.
Qed.

Lemma slm_single t : is_single_line_marker [t] = is_slm_k (kind t).
Proof. reflexivity. Qed.

Lemma mlines_segs p : forall cur st sn n0,
  forallb (fun t => negb (nlk t)) cur = true ->
  st = is_nil cur -> sn = negb (forallb (fun t => is_empty_tok (kind t)) cur) ->
  is_single_line_marker cur = false ->
  mlines_t p st sn = true -> nlk n0 = true -> segs (cur ++ p ++ [n0]).
Proof.
  induction p as [|t r IH]; intros cur st sn n0 Hnn Hst Hsn Hm H Hn0.
  - cbn [mlines_t] in H. subst sn. apply negb_true in H. cbn [app].
    apply sg_cons; [split; assumption|exact Hn0|exact Hm|constructor].
  - cbn [mlines_t] in H. destruct (nlk t) eqn:Ent.
    + apply andb_true_iff in H as [Hs H]. subst sn. apply negb_true in Hs. cbn [app].
      apply sg_cons; [split; assumption|exact Ent|exact Hm|].
      apply (IH [] true false n0); auto.
    + apply andb_true_iff in H as [Hk H].
      replace (cur ++ (t :: r) ++ [n0]) with ((cur ++ [t]) ++ r ++ [n0]) by (rewrite <- app_assoc; reflexivity).
      apply (IH (cur ++ [t]) false (sn || negb (is_empty_tok (kind t))) n0); auto.
      * rewrite forallb_app, Hnn. cbn [forallb]. rewrite Ent. reflexivity.
      * destruct cur; reflexivity.
      * subst sn. rewrite forallb_app. cbn [forallb]. rewrite andb_true_r, negb_andb. reflexivity.
      * destruct cur as [|c cur']; [|exact Hm]. cbn [app]. rewrite slm_single. subst st. cbn [is_nil andb] in Hk.
        apply negb_true in Hk. exact Hk.
Qed.

Lemma mlines_last p : forall st sn, mlines_t p st sn = true -> p <> [] ->
  exists p' t, p = p' ++ [t] /\ nlk t = false.
Proof.
  induction p as [|t r IH]; intros st sn H Hne; [contradiction|]. cbn [mlines_t] in H.
  destruct (nlk t) eqn:Ent.
  - apply andb_true_iff in H as [_ H]. destruct r as [|t2 r2]; [discriminate|].
    destruct (IH _ _ H ltac:(discriminate)) as (p' & t' & E & Ht'). exists (t :: p'), t'. rewrite E. split; [reflexivity|exact Ht'].
  - apply andb_true_iff in H as [_ H]. destruct r as [|t2 r2].
    + exists [], t. split; [reflexivity|exact Ent].
    + destruct (IH _ _ H ltac:(discriminate)) as (p' & t' & E & Ht'). exists (t :: p'), t'. rewrite E. split; [reflexivity|exact Ht'].
Qed.

(* what dt_multi needs of the block B followed by its newline *)
Lemma multi_parts B n0 :
  mlines_t B true false = true -> nlk n0 = true ->
  exists L1 n1 S, B ++ [n0] = L1 ++ n1 :: S /\ line L1 /\ nlk n1 = true /\ is_single_line_marker L1 = false /\ segs S /\
                  match rev B with t :: _ => nlk t = false | [] => False end.
Proof.
  intros H Hn0.
  assert (HB : B <> []) by (intros ->; discriminate).
  pose proof (mlines_segs B [] true false n0 eq_refl eq_refl eq_refl eq_refl H Hn0) as HS. cbn [app] in HS.
  destruct (mlines_last B _ _ H HB) as (p' & t & E & Ht).
  inversion HS as [E0 | L n S HL Hn Hm HS' E0].
  - destruct B; discriminate.
  - exists L, n, S. repeat split; auto; try apply HL.
    rewrite E, rev_unit. exact Ht.
Qed.

Lemma no_nl_line B :
  forallb (fun t => negb (nlk t)) B = true -> is_single_line_marker B = true -> line B.
Proof.
  intros H Hm. split; [exact H|]. destruct B as [|t B']; [discriminate|]. cbn [forallb].
  cbn [is_single_line_marker] in Hm. destruct (kind t); try discriminate; reflexivity.
Qed.

Section Layout.
  Variable cfg : pcfg.
  Hypothesis Hstrict : p_strict_escape cfg = false.

  Lemma single_head b o : is_single_block b = true -> is_single_line_marker (place o (print_block b)) = true.
  Proof. destruct b; try discriminate; intros _; reflexivity. Qed.

  Lemma single_head_app b o Y : is_single_block b = true -> is_single_line_marker (place o (print_block b) ++ Y) = true.
  Proof. destruct b; try discriminate; intros _; reflexivity. Qed.

  Lemma multi_open B :
    mlines_t B true false = true ->
    line B \/ exists L1 n1 S L, B = L1 ++ n1 :: S ++ L /\ line L1 /\ nlk n1 = true /\ is_single_line_marker L1 = false /\
                                segs S /\ line L /\ is_single_line_marker L = false.
  Proof.
    intro H.
    assert (G : forall p cur st sn,
              forallb (fun t => negb (nlk t)) cur = true ->
              st = is_nil cur -> sn = negb (forallb (fun t => is_empty_tok (kind t)) cur) ->
              is_single_line_marker cur = false ->
              mlines_t p st sn = true ->
              exists S L, cur ++ p = S ++ L /\ segs S /\ line L /\ is_single_line_marker L = false).
    { induction p as [|t r IH]; intros cur st sn Hnn Hst Hsn Hm Hp.
      - cbn [mlines_t] in Hp. subst sn. apply negb_true in Hp. exists [], cur. rewrite app_nil_r.
        split; [reflexivity|]. split; [constructor|]. split; [split; assumption|exact Hm].
      - cbn [mlines_t] in Hp. destruct (nlk t) eqn:Ent.
        + apply andb_true_iff in Hp as [Hs Hp]. subst sn. apply negb_true in Hs.
          destruct (IH [] true false eq_refl eq_refl eq_refl eq_refl Hp) as (S & L & E & HS & HL & HmL). cbn [app] in E.
          exists (cur ++ t :: S), L. rewrite E, <- app_assoc. split; [reflexivity|]. split; [|split; assumption].
          apply sg_cons; [split; assumption|exact Ent|exact Hm|exact HS].
        + apply andb_true_iff in Hp as [Hk Hp].
          destruct (IH (cur ++ [t]) false (sn || negb (is_empty_tok (kind t)))) as (S & L & E & HS & HL & HmL); auto.
          * rewrite forallb_app, Hnn. cbn [forallb]. rewrite Ent. reflexivity.
          * destruct cur; reflexivity.
          * subst sn. rewrite forallb_app. cbn [forallb]. rewrite andb_true_r, negb_andb. reflexivity.
          * destruct cur as [|c cur']; [|exact Hm]. cbn [app]. rewrite slm_single. subst st. cbn [is_nil andb] in Hk.
            apply negb_true in Hk. exact Hk.
          * exists S, L. rewrite <- E, <- app_assoc. split; [reflexivity|]. split; [exact HS|]. split; assumption. }
    destruct (G B [] true false eq_refl eq_refl eq_refl eq_refl H) as (S & L & E & HS & HL & HmL). cbn [app] in E.
    inversion HS as [E0 | L1 n1 S' HL1 Hn1 Hm1 HS' E0]; subst.
    - left. exact HL.
    - right. exists L1, n1, S', L. rewrite <- app_assoc. cbn [app]. split; [reflexivity|]. repeat (split; [assumption|]). assumption.
  Qed.

  Lemma layout d : forall tp n o lead,
    forallb eline_ok lead = true -> blocks_ok cfg d tp n = true ->
    exists bl, doc_toks (place o (print_elines lead ++ print_blocks d tp n)) bl /\ Forall2 prints bl d /\
               Forall (fun b => block_ok cfg b = true /\ sec_trail_ok b) d.
  Proof.
    induction d as [|b r IH]; intros tp n o lead Hlead Hok.
    - exists []. cbn [print_blocks]. rewrite app_nil_r. split; [|split; constructor].
      apply dt_end. apply place_elines. exact Hlead.
    - cbn [blocks_ok] in Hok.
      apply andb_true_iff in Hok as [Hok Hr]. apply andb_true_iff in Hok as [Hok Hrest].
      apply andb_true_iff in Hok as [Hok Hlines]. apply andb_true_iff in Hok as [Hb Htrail].
      assert (Hst : sec_trail_ok b).
      { destruct b; try exact I. cbn [sec_trail_okb sec_trail_ok] in *. intros ->. cbn in Htrail. destruct trail; [reflexivity|discriminate]. }
      cbn [print_blocks]. rewrite place_app.
      set (o1 := o + blen (unlex (print_elines lead))).
      pose proof (place_elines lead o Hlead) as HEL.
      destruct (open_end r tp) eqn:Eopen.
      { (* the text ends right after this block *)
        unfold open_end in Eopen. apply andb_true_iff in Eopen as [Enil _]. destruct r; [|discriminate].
        rewrite app_nil_r. set (B := place o1 (print_block b)).
        exists [B]. split; [|split].
        - destruct (is_single_block b) eqn:Esb.
          + apply dt_last_line; [exact HEL|]. apply no_nl_line; [|apply single_head; exact Esb].
            unfold block_lines_ok in Hlines. rewrite Esb in Hlines. unfold B.
            rewrite (place_forallb (fun k => negb (tk_eqb k KNewline))).
            eapply forallb_impl; [|exact Hlines]. intros x Hx. cbn [existsb] in Hx. rewrite orb_false_r in Hx. exact Hx.
          + unfold block_lines_ok in Hlines. rewrite Esb in Hlines. unfold mlines_ok in Hlines.
            rewrite <- (mlines_place _ o1) in Hlines. fold B in Hlines.
            destruct (multi_open B Hlines) as [HB | (L1 & n1 & S & L & -> & HL1 & Hn1 & Hm1 & HS & HL & HmL)].
            * apply dt_last_line; assumption.
            * apply dt_last_multi; assumption.
        - constructor; [exists o1; reflexivity|constructor].
        - constructor; [split; assumption|constructor]. }
      cbn [orb] in Hrest. apply andb_true_iff in Hrest as [Hrest Hsep]. apply andb_true_iff in Hrest as [Hnl Hel].
      rewrite place_app. cbn [place].
      set (B := place o1 (print_block b)).
      set (o2 := o1 + blen (unlex (print_block b))).
      set (N0 := {| kind := fst (dt_nl tp n); tstr := snd (dt_nl tp n); tstart := o2 |}).
      set (o3 := o2 + blen (snd (dt_nl tp n))).
      assert (HN0 : nlk N0 = true) by exact Hnl.
      destruct (is_single_block b) eqn:Esb.
      + (* a `>>` or `=` line *)
        destruct (IH tp (S n) o3 (dt_sep tp n) Hel Hr) as (bl & Hd & Hp & Hf).
        exists (B :: bl). split; [|split].
        * apply dt_single; auto.
          -- apply no_nl_line; [|apply single_head; exact Esb].
             unfold block_lines_ok in Hlines. rewrite Esb in Hlines. unfold B.
             rewrite (place_forallb (fun k => negb (tk_eqb k KNewline))).
             eapply forallb_impl; [|exact Hlines]. intros x Hx. cbn [existsb] in Hx. rewrite orb_false_r in Hx. exact Hx.
          -- apply single_head; exact Esb.
        * constructor; [exists o1; reflexivity|exact Hp].
        * constructor; [split; assumption|exact Hf].
      + (* a step or text block *)
        unfold block_lines_ok in Hlines. rewrite Esb in Hlines. unfold mlines_ok in Hlines.
        rewrite <- (mlines_place _ o1) in Hlines. fold B in Hlines.
        destruct (multi_parts B N0 Hlines HN0) as (L1 & n1 & SG & EB & HL1 & Hn1 & Hm1 & HSG & Hlast).
        unfold sep_ok in Hsep. rewrite Esb in Hsep. cbn [orb] in Hsep.
        destruct (dt_sep tp n) as [|e sep'] eqn:Esep.
        * cbn [is_nil negb orb print_elines map concat app] in Hsep |- *.
          destruct r as [|b2 r'].
          -- (* last block *)
             exists [B]. cbn [print_blocks place]. split; [|split].
             ++ apply (dt_multi _ B N0 L1 n1 SG [] [] [] []); auto; [apply am_end|apply (dt_end []); constructor].
             ++ constructor; [exists o1; reflexivity|constructor].
             ++ constructor; [split; assumption|constructor].
          -- (* next is a single-line block *)
             destruct (IH tp (S n) o3 [] eq_refl Hr) as (bl & Hd & Hp & Hf). cbn [print_elines map concat app] in Hd.
             exists (B :: bl). split; [|split].
             ++ apply (dt_multi _ B N0 L1 n1 SG [] (place o3 (print_blocks (b2 :: r') tp (S n))) [] bl); auto.
                apply am_marker. cbn [print_blocks]. rewrite place_app. apply single_head_app. exact Hsep.
             ++ constructor; [exists o1; reflexivity|exact Hp].
             ++ constructor; [split; assumption|exact Hf].
        * (* an empty line follows *)
          cbn [forallb] in Hel. apply andb_true_iff in Hel as [He Hel'].
          rewrite print_elines_cons, <- app_assoc. cbn [app]. rewrite place_app. cbn [place].
          destruct (place_eline e o3 He) as [HE HNe].
          set (o4 := o3 + blen (unlex (fst e)) + blen (snd (snd e))).
          destruct (IH tp (S n) o4 sep' Hel' Hr) as (bl & Hd & Hp & Hf).
          exists (B :: bl). split; [|split].
          -- set (NE := {| kind := fst (snd e); tstr := snd (snd e); tstart := o3 + blen (unlex (fst e)) |}) in *.
             set (REST := place o4 (print_elines sep' ++ print_blocks r tp (S n))) in *.
             replace (place o3 (fst e) ++ NE :: REST) with ((place o3 (fst e) ++ NE :: REST) ++ []) by apply app_nil_r.
             apply (dt_multi _ B N0 L1 n1 SG (place o3 (fst e) ++ NE :: REST) [] REST bl); auto.
             ++ apply am_empty; assumption.
             ++ rewrite app_nil_r. exact Hd.
          -- constructor; [exists o1; reflexivity|exact Hp].
          -- constructor; [split; assumption|exact Hf].
  Qed.

  Lemma body_layout U d tp o :
    body_ok U cfg d tp = true ->
    adjacent_ok U (print_doc_toks d tp) = true /\
    exists bl, doc_toks (place o (print_doc_toks d tp)) bl /\ Forall2 prints bl d /\
               Forall (fun b => block_ok cfg b = true /\ sec_trail_ok b) d.
  Proof.
    unfold body_ok. intro H.
    apply andb_true_iff in H as [H Hb]. apply andb_true_iff in H as [H Hl]. apply andb_true_iff in H as [_ Hadj].
    split; [exact Hadj|]. exact (layout d tp 0%nat o (dt_lead tp) Hl Hb).
  Qed.

  Theorem events_print_doc_s U d tp :
    doc_ok U cfg d tp = true ->
    exists evs, events U cfg (print_doc d tp) = Done evs /\ map ev_proj evs = doc_events d.
  Proof.
    unfold doc_ok. intro H. apply andb_true_iff in H as [Hb Hfm].
    destruct (body_layout U d tp 0 Hb) as (Hadj & bl & Hd & Hp & Hf).
    apply (events_layout cfg Hstrict U (print_doc d tp) d (place 0 (print_doc_toks d tp)) bl).
    - apply fm_free_none. exact Hfm.
    - apply lex_unlex. exact Hadj.
    - exact Hd.
    - exact Hp.
    - exact Hf.
  Qed.
End Layout.

Lemma body_ok_strict U cfg d tp : body_ok U cfg d tp = true -> p_strict_escape cfg = false.
Proof. unfold body_ok. intro H. repeat (apply andb_true_iff in H as [H _]). apply negb_true in H. exact H. Qed.

Theorem events_print_doc U cfg d tp :
  doc_ok U cfg d tp = true ->
  exists evs, events U cfg (print_doc d tp) = Done evs /\ map ev_proj evs = doc_events d.
Proof.
  intro H. apply events_print_doc_s; [|exact H]. unfold doc_ok in H. apply andb_true_iff in H as [H _].
  exact (body_ok_strict U cfg d tp H).
Qed.

(* ---------------------------------------------------------------- front matter *)
Lemma lines_app_lf p y :
  lines_inclusive ((p ++ [10]) ++ y) = lines_inclusive (p ++ [10]) ++ lines_inclusive y.
Proof.
  induction p as [|c r IH]; [reflexivity|].
  cbn [app lines_inclusive]. cbn [app] in IH. destruct (c =? 10).
  - rewrite IH. reflexivity.
  - rewrite IH. destruct (lines_inclusive (r ++ [10])) as [|l0 ls0] eqn:E; [|reflexivity].
    assert (E' : concat (lines_inclusive (r ++ [10])) = r ++ [10]) by apply ParserFM.lines_inclusive_concat.
    rewrite E in E'. destruct r; discriminate.
Qed.

Lemma lines_single l : existsb (N.eqb 10) l = false -> lines_inclusive (l ++ [10]) = [l ++ [10]].
Proof.
  induction l as [|c r IH]; intro H; [reflexivity|]. cbn [existsb] in H. apply orb_false_iff in H as [Hc Hr].
  cbn [app lines_inclusive]. rewrite N.eqb_sym in Hc. rewrite Hc, (IH Hr). reflexivity.
Qed.

Lemma fence_list_app a : forall b off, fence_list (a ++ b) off = fence_list a off ++ fence_list b (off + blen (concat a)).
Proof.
  induction a as [|l r IH]; intros b off.
  - cbn [app fence_list concat blen]. rewrite N.add_0_r. reflexivity.
  - cbn [app fence_list concat]. rewrite IH, blen_app, N.add_assoc. destruct (is_fence l); reflexivity.
Qed.

Lemma ends_nl_cases y : ends_nl y = true -> y = [] \/ exists p, y = p ++ [10].
Proof.
  unfold ends_nl. intro H. destruct (rev y) as [|c l] eqn:E.
  - left. apply (f_equal (@rev N)) in E. rewrite rev_involutive in E. exact E.
  - right. apply N.eqb_eq in H. subst c. exists (rev l). apply (f_equal (@rev N)) in E. rewrite rev_involutive in E. exact E.
Qed.

Lemma fence_line_is_fence ws : str_blank ws = true -> is_fence (fence_line ws) = true.
Proof.
  intro H. unfold is_fence, fence_line. rewrite trim_end_blank_app; [reflexivity|].
  rewrite str_blank_app, H. reflexivity.
Qed.

Lemma fence_line_lines ws y :
  hblank ws = true -> lines_inclusive (fence_line ws ++ y) = fence_line ws :: lines_inclusive y.
Proof.
  unfold hblank. intro H. apply andb_true_iff in H as [_ H]. apply negb_true in H.
  unfold fence_line. rewrite app_assoc, lines_app_lf. rewrite lines_single; [reflexivity|].
  cbn [app existsb]. exact H.
Qed.

Lemma parse_frontmatter_printed cfg y ft body :
  hblank (fm_ws1 ft) = true -> hblank (fm_ws2 ft) = true -> no_fence_line y = true -> ends_nl y = true ->
  parse_frontmatter cfg (fence_line (fm_ws1 ft) ++ y ++ fence_line (fm_ws2 ft) ++ body)
  = Some {| yaml_text := y; yaml_off := blen (fence_line (fm_ws1 ft)); cook_text := body;
            cook_off := blen (fence_line (fm_ws1 ft)) + blen y + blen (fence_line (fm_ws2 ft)) |}.
Proof.
  intros H1 H2 Hy He. set (F1 := fence_line (fm_ws1 ft)). set (F2 := fence_line (fm_ws2 ft)).
  assert (B1 : is_fence F1 = true) by (apply fence_line_is_fence; apply andb_true_iff in H1 as [H1 _]; exact H1).
  assert (B2 : is_fence F2 = true) by (apply fence_line_is_fence; apply andb_true_iff in H2 as [H2 _]; exact H2).
  assert (EL : lines_inclusive (F1 ++ y ++ F2 ++ body) = F1 :: lines_inclusive y ++ F2 :: lines_inclusive body).
  { unfold F1. rewrite fence_line_lines by exact H1. f_equal.
    destruct (ends_nl_cases y He) as [-> | (p & ->)].
    - cbn [app lines_inclusive]. unfold F2. apply fence_line_lines. exact H2.
    - rewrite lines_app_lf. f_equal. unfold F2. apply fence_line_lines. exact H2. }
  unfold parse_frontmatter. rewrite EL. cbn [fence_list]. rewrite B1, fence_list_app.
  rewrite (fence_list_none _ _ Hy). cbn [app fence_list]. rewrite B2, ParserFM.lines_inclusive_concat.
  rewrite N.add_0_l.
  assert (Hb : str_blank (take_bytes (F1 ++ y ++ F2 ++ body) 0) = true).
  { destruct (F1 ++ y ++ F2 ++ body); reflexivity. }
  rewrite Hb, orb_true_r. f_equal.
  replace (blen F1 + blen y - blen F1) with (blen y) by lia.
  rewrite ParserFM.drop_bytes_app, ParserFM.take_bytes_app.
  replace (blen F1 + blen y + blen F2) with (blen (F1 ++ y ++ F2)) by (rewrite !blen_app; lia).
  replace (F1 ++ y ++ F2 ++ body) with ((F1 ++ y ++ F2) ++ body) by (rewrite <- !app_assoc; reflexivity).
  rewrite ParserFM.drop_bytes_app. reflexivity.
Qed.

Lemma text_str_from_str y off : text_str (text_from_str y off) = y.
Proof. destruct y; [reflexivity|]. unfold text_from_str, text_str. cbn [frags map fsoft ftext concat]. apply app_nil_r. Qed.

Theorem events_print_fm_doc U cfg y ft d tp :
  fm_doc_ok U cfg y ft d tp = true ->
  exists evs, events U cfg (print_fm_doc y ft d tp) = Done evs /\ map ev_proj evs = fm_doc_events y d.
Proof.
  unfold fm_doc_ok. intro H.
  apply andb_true_iff in H as [H Hb]. apply andb_true_iff in H as [H Hnm]. apply andb_true_iff in H as [H He].
  apply andb_true_iff in H as [H Hy]. apply andb_true_iff in H as [H1 H2].
  pose proof (body_ok_strict U cfg d tp Hb) as Hstrict.
  set (off := blen (fence_line (fm_ws1 ft)) + blen y + blen (fence_line (fm_ws2 ft))).
  destruct (body_layout cfg U d tp off Hb) as (Hadj & bl & Hd & Hp & Hf).
  rewrite events_blocks. unfold print_fm_doc. rewrite (parse_frontmatter_printed cfg y ft (print_doc d tp) H1 H2 Hy He).
  cbn [cook_text cook_off]. fold off. unfold print_doc. rewrite (lex_unlex U _ off Hadj).
  assert (Hbl : blocks (place off (print_doc_toks d tp)) = bl) by (unfold blocks; apply blocks_doc; [exact Hd|lia]).
  rewrite Hbl.
  assert (Hnm' : Forall (not_meta) d).
  { apply Forall_forall. intros b Hin. rewrite forallb_forall in Hnm. specialize (Hnm b Hin). destruct b; try exact I. discriminate. }
  destruct (fold_print_gen cfg Hstrict false bl d Hp Hf (or_intror Hnm') [yaml_event {| yaml_text := y; yaml_off := blen (fence_line (fm_ws1 ft)); cook_text := unlex (print_doc_toks d tp); cook_off := off |}])
    as (evs' & Hfold & Hproj).
  rewrite Hfold. cbn [obind]. eexists. split; [reflexivity|].
  rewrite rev_app_distr. cbn [rev app map]. unfold yaml_event. cbn [ev_proj yaml_text yaml_off].
  rewrite text_str_from_str, Hproj. reflexivity.
Qed.
