(* C10 x C09: Quantity::fit as modelled in Model/Convert.v, plugged into the
   [fitq] parameter of GroupedQuantity::fit (Model/Group.v).  The amount
   preservation that Properties/C10.v assumes of the oracle is here a theorem
   about the modelled fit (both ends of a range), from the C09 lemmas. *)
From CL Require Import Base.StrLemmas.
From CL Require Model.Convert Proofs.ConvertProofs.
From CL Require Import Model.Aisle Model.Group Proofs.GroupProofs.
From Coq Require Import QArith Lia Lqa Setoid Morphisms.
Module C := CL.Model.Convert.
Module CP := CL.Proofs.ConvertProofs.
Local Open Scope Q_scope.

(* ---------------------------------------------------------------- the bridge *)

Definition pq_of (p : C.pq) : pq :=
  match p with
  | C.Volume => Volume | C.Mass => Mass | C.Length => Length | C.Temperature => Temperature | C.Time => Time
  end.

Definition uinfo_of (id : N) (u : C.unit) : uinfo :=
  {| uid := id; ratio := C.u_ratio u; difference := C.u_diff u; upq := pq_of (C.u_pq u) |}.

(* the table of Model/Group.v: every key of the index with the unit it resolves to
   (what the harness dumps from the live converter) *)
Fixpoint table_from (us : list C.unit) (ix : list (str * N)) : table :=
  match ix with
  | [] => []
  | (k, id) :: r =>
      match nth_error us (N.to_nat id) with
      | Some u => (k, uinfo_of id u) :: table_from us r
      | None => table_from us r
      end
  end.
Definition table_of (c : C.converter) : table := table_from (C.all_units c) (C.unit_index c).

Definition to_v (v : value) : C.value :=
  match v with
  | VNum x => C.VNumber (C.Regular x)
  | VRange s e => C.VRange (C.Regular s) (C.Regular e)
  | VText t => C.VText t
  end.
Definition of_v (v : C.value) : value :=
  match v with
  | C.VNumber n => VNum (C.num_value n)
  | C.VRange s e => VRange (C.num_value s) (C.num_value e)
  | C.VText t => VText t
  end.
Definition to_q (q : qty) : C.quantity := {| C.q_value := to_v (qval q); C.q_unit := qunit q |}.
Definition of_q (q : C.quantity) : qty := {| qval := of_v (C.q_value q); qunit := C.q_unit q |}.

Lemma of_to_q q : of_q (to_q q) = q.
Proof. destruct q as [[x|s e|t] u]; reflexivity. Qed.

Lemma find_table_some us ix k id u :
  C.assoc_str k ix = Some id -> nth_error us (N.to_nat id) = Some u ->
  find_unit (table_from us ix) k = Some (uinfo_of id u).
Proof.
  induction ix as [|[k' id'] r IH]; cbn [C.assoc_str table_from]; [discriminate|].
  destruct (str_eqb k k') eqn:E.
  - intros H Hn. inversion H; subst id'. rewrite Hn. cbn [find_unit]. rewrite E. reflexivity.
  - intros H Hn. destruct (nth_error us (N.to_nat id')); [cbn [find_unit]; rewrite E|]; apply IH; assumption.
Qed.

Lemma find_table_inv us ix k ui :
  find_unit (table_from us ix) k = Some ui ->
  exists id u, nth_error us (N.to_nat id) = Some u /\ ui = uinfo_of id u.
Proof.
  induction ix as [|[k' id'] r IH]; cbn [table_from]; [discriminate|].
  destruct (nth_error us (N.to_nat id')) as [u|] eqn:Hn; [|exact IH].
  cbn [find_unit]. destruct (str_eqb k k'); [|exact IH].
  intro H; inversion H; subst. eauto.
Qed.

Section RealFit.
  Variable approx : Q -> C.frac_cfg -> outcome (option C.number).
  (* what C12 proves about Number::new_approx: the recorded error makes the value exact *)
  Hypothesis approx_exact : forall v cfg n, approx v cfg = Done (Some n) -> C.num_value n == v.
  Variable c : C.converter.
  Hypothesis Hpos : CP.ratios_pos c.
  Hypothesis Hidx : CP.index_consistent c.

  Let T := table_of c.

  (* Quantity::fit on a quantity of the grouping model; None = Err (the quantity
     is then unchanged, C09_failures_frame) or a panic of the modelled code *)
  Definition fitq_real (q : qty) : option qty :=
    match C.fit approx c (to_q q) with
    | Done (q', C.Ok tt) => Some (of_q q')
    | _ => None
    end.

  (* a text value with a resolvable unit makes fit fail *)
  Lemma fit_text q u t :
    C.unit_info c q = Done (Some u) -> C.q_value q = C.VText t ->
    forall q' r, C.fit approx c q = Done (q', r) -> exists e, r = C.Err e.
  Proof.
    intros Hu Hv q' r. destruct (CP.unit_info_spec _ _ _ Hu) as (k & Hk & Hid & Hr).
    destruct (CP.unit_at_spec _ _ _ Hr) as [_ Hn].
    assert (Conv : forall to, C.convert_impl approx c q to = Done (q, C.Err (C.ETextValue t))).
    { intro to. eapply CP.convert_fails_text; eauto. }
    unfold C.fit. rewrite Hu. cbn [obind].
    destruct (C.fractions_config c (snd u)) as [cfg|]; cbn [obind]; [|discriminate].
    destruct (C.fc_enabled cfg) eqn:En; [|rewrite Conv; intro H; inversion H; eauto].
    unfold C.fit_fraction. destruct (C.u_sys (snd u)) as [sys|].
    - rewrite Hv. cbn [obind fst snd]. intro H; inversion H; eauto.
    - unfold C.try_fraction. rewrite Hu. cbn [obind].
      destruct (C.fractions_config c (snd u)) as [cfg2|]; cbn [obind]; [|discriminate].
      destruct (negb (C.fc_enabled cfg2)); cbn [obind fst snd]; [rewrite Conv; intro H; inversion H; eauto|].
      rewrite Hv. cbn [obind fst snd]. rewrite Conv. intro H; inversion H; eauto.
  Qed.

  (* fit stays within the physical quantity *)
  Lemma fit_same_pq q q' u :
    C.unit_info c q = Done (Some u) -> C.fit approx c q = Done (q', C.Ok tt) ->
    exists nu, C.unit_info c q' = Done (Some nu) /\ C.u_pq (snd nu) = C.u_pq (snd u).
  Proof.
    intros Hu H.
    assert (Conv : forall q0, C.unit_info c q0 = Done (Some u) ->
              C.convert_impl approx c q0 C.ToSame = Done (q', C.Ok tt) ->
              exists nu, C.unit_info c q' = Done (Some nu) /\ C.u_pq (snd nu) = C.u_pq (snd u)).
    { intros q0 Hu0 Hc.
      destruct (CP.convert_impl_spec approx approx_exact c q0 C.ToSame q' (C.Ok tt) Hpos Hidx I Hc) as [_ K].
      destruct (K eq_refl) as (u1 & nu & U1 & U2 & _ & _ & P & _). rewrite Hu0 in U1. inversion U1; subst u1.
      exists nu. auto. }
    unfold C.fit in H. rewrite Hu in H. cbn [obind] in H.
    destruct (C.fractions_config c (snd u)) as [cfg|]; cbn [obind] in H; [|discriminate].
    destruct (C.fc_enabled cfg); [|apply (Conv q Hu H)].
    destruct (C.fit_fraction approx c q u (C.u_sys (snd u))) as [[q1 r1]|] eqn:F; cbn [obind fst snd] in H; [|discriminate].
    destruct (CP.fit_fraction_spec approx approx_exact c q u _ q1 r1 Hpos Hidx Hu F) as (_ & _ & Hfalse & Htrue).
    destruct r1 as [[|]|e]; [| |discriminate].
    - inversion H; subst q1. destruct (C.u_sys (snd u)) as [sys|] eqn:S.
      + destruct (Htrue eq_refl sys eq_refl) as (nu & U & P & _). exists nu. auto.
      + (* try_fraction keeps the unit *)
        unfold C.fit_fraction in F. destruct (C.try_fraction approx c q) as [[q2 b]|] eqn:Tf; cbn [obind fst snd] in F; [|discriminate].
        inversion F; subst q2. destruct (CP.try_fraction_spec approx approx_exact c q q' b Tf) as [Un _].
        exists u. split; [|reflexivity]. unfold C.unit_info in *. rewrite Un. exact Hu.
    - rewrite (Hfalse eq_refl) in H. apply (Conv q Hu H).
  Qed.

  Lemma pq_of_inj a b : a = b -> pq_of a = pq_of b.
  Proof. intros ->; reflexivity. Qed.

  (* the oracle hypotheses of C10_fit_preserves / C10_list, for the modelled fit *)
  Lemma fitq_real_spec q q1 :
    q_free T q -> fitq_real q = Some q1 -> contrib T q1 ≡ contrib T q /\ q_free T q1.
  Proof.
    intros Hf. unfold fitq_real.
    destruct (C.fit approx c (to_q q)) as [[q' [[]|e]]|] eqn:F; try discriminate.
    intro H; inversion H; subst q1; clear H.
    destruct (C.unit_info c (to_q q)) as [[u|]|] eqn:Hu.
    2:{ (* no unit or unknown unit: untouched *)
        unfold C.fit in F. rewrite Hu in F. cbn [obind] in F. inversion F; subst q'.
        rewrite of_to_q. split; [reflexivity | exact Hf]. }
    2:{ unfold C.fit in F. rewrite Hu in F. discriminate. }
    destruct (CP.unit_info_spec _ _ _ Hu) as (k & Hk & Hid & Hr). cbn [to_q C.q_unit] in Hk.
    destruct (CP.unit_at_spec _ _ _ Hr) as [_ Hn].
    destruct (is_text (qval q)) eqn:Tx.
    { exfalso. destruct (qval q) as [x|s e|t] eqn:V; try discriminate.
      destruct (fit_text (to_q q) u t Hu) with (q' := q') (r := @C.Ok Datatypes.unit tt) as [e He];
        [cbn [to_q C.q_value]; rewrite V; reflexivity | exact F | discriminate]. }
    destruct (fit_same_pq _ _ _ Hu F) as (nu & Hnu & Ppq).
    destruct (CP.unit_info_spec _ _ _ Hnu) as (k' & Hk' & Hid' & Hr').
    destruct (CP.unit_at_spec _ _ _ Hr') as [_ Hn'].
    pose proof (CP.fit_spec approx approx_exact c (to_q q) q' (C.Ok tt) Hpos Hidx F) as (Am & _ & _).
    rewrite (CP.q_amount_known _ _ _ Hu), (CP.q_amount_known _ _ _ Hnu) in Am.
    (* the two units in the table *)
    assert (Fk : find_unit T k = Some (uinfo_of (fst u) (snd u))) by (apply find_table_some; assumption).
    assert (Fk' : find_unit T k' = Some (uinfo_of (fst nu) (snd nu))) by (apply find_table_some; assumption).
    pose proof (Hf k _ Hk Fk) as Free. cbn [uinfo_of upq] in Free.
    assert (D : C.u_diff (snd u) == 0) by (apply (Free k _ Fk); reflexivity).
    assert (D' : C.u_diff (snd nu) == 0).
    { apply (Free k' _ Fk'). cbn [uinfo_of upq]. rewrite Ppq. reflexivity. }
    split.
    - unfold contrib. cbn [of_q qval qunit]. rewrite Hk', Hk.
      cbn [to_q C.q_value] in Am.
      destruct (qval q) as [x|s e|t] eqn:V; [| |discriminate]; cbn [to_v CP.val_amount] in Am;
        destruct (C.q_value q') as [n'|s' e'|t'] eqn:V'; cbn [CP.val_amount CP.amt_eq] in Am; try contradiction;
        cbn [of_v]; unfold bucket.
      all: rewrite Fk; rewrite Fk'; cbn [uinfo_of upq ratio]; rewrite Ppq;
        apply s_at_known_proper; destruct Am as [A1 A2]; cbn [fst snd C.num_value] in A1, A2;
        unfold C.to_base in A1, A2; rewrite D, D' in A1, A2; split; unfold pscale; cbn [fst snd]; lra.
    - intros k2 u2 Hk2 Fk2. cbn [of_q qunit] in Hk2. rewrite Hk' in Hk2. inversion Hk2; subst k2.
      rewrite Fk' in Fk2. inversion Fk2; subst u2. cbn [uinfo_of upq]. rewrite Ppq. exact Free.
  Qed.

  (* GroupedQuantity::fit with the modelled Quantity::fit: the total (both ends
     of every range) is kept, whatever unit each slot ends in *)
  Lemma fit_real_total g :
    gfree T g -> total T (fst (fit fitq_real g)) ≡ total T g /\ gfree T (fst (fit fitq_real g)).
  Proof. apply (fit_free_total T fitq_real). intros q q' Hq F. apply fitq_real_spec; assumption. Qed.
End RealFit.

(* ---------------------------------------------------------------- the shipped table *)
From CL Require Proofs.ScaleProofs.
From Coq Require Import String.

(* with the modelled Number::new_approx and the converter built from the regenerated
   units.toml nothing is assumed any more *)
Lemma fit_real_bundled g :
  gfree (table_of CP.bundled_conv) g ->
  total (table_of CP.bundled_conv) (fst (fit (fitq_real C.new_approx CP.bundled_conv) g))
    ≡ total (table_of CP.bundled_conv) g
  /\ gfree (table_of CP.bundled_conv) (fst (fit (fitq_real C.new_approx CP.bundled_conv) g)).
Proof.
  apply fit_real_total;
    [exact CL.Proofs.ScaleProofs.new_approx_exact | exact CP.bundled_ratios_pos | exact CP.bundled_index_consistent].
Qed.

(* 1-1.25 tsp + 2-2.25 tsp = 3-3.5 tsp: fit moves the total to tbsp (the start is
   1 tbsp exactly) and the end is 3.5 tsp expressed in tbsp (7/6), not 3.5 *)
Definition tsp_range : qty := {| qval := VRange 3 (7 # 2); qunit := Some (s_of "tsp") |}.

Lemma fit_moves_range :
  exists s e, fitq_real C.new_approx CP.bundled_conv tsp_range
              = Some {| qval := VRange s e; qunit := Some (s_of "tbsp") |}
              /\ s == 3 * (4928921 # 1000000000) / (14786764 # 1000000000)
              /\ e == (7 # 2) * (4928921 # 1000000000) / (14786764 # 1000000000)
              /\ ~ e == 7 # 2.
Proof.
  eexists. eexists. split; [vm_compute; reflexivity|].
  split; [vm_compute; reflexivity|]. split; [vm_compute; reflexivity|]. vm_compute. discriminate.
Qed.

Lemma tsp_range_free : q_free (table_of CP.bundled_conv) tsp_range.
Proof.
  intros k u Hk Fu. inversion Hk; subst k. vm_compute in Fu. inversion Fu; subst u.
  apply pq_free_b_ok. vm_compute. reflexivity.
Qed.

(* the hypothesis `sane` of the C10 theorems holds for the table of the shipped converter *)
Lemma bundled_table_sane : sane (table_of CP.bundled_conv) = true.
Proof. vm_compute. reflexivity. Qed.

Lemma fitq_bundled_ok q q' :
  q_free (table_of CP.bundled_conv) q -> fitq_real C.new_approx CP.bundled_conv q = Some q' ->
  contrib (table_of CP.bundled_conv) q' ≡ contrib (table_of CP.bundled_conv) q /\ q_free (table_of CP.bundled_conv) q'.
Proof.
  apply fitq_real_spec;
    [exact CL.Proofs.ScaleProofs.new_approx_exact | exact CP.bundled_ratios_pos | exact CP.bundled_index_consistent].
Qed.

(* IngredientList over the shipped converter with the modelled fit: no oracle left *)
Lemma list_bundled rs l :
  recipes_ok (table_of CP.bundled_conv) rs ->
  exists l', add_recipes (table_of CP.bundled_conv) (fitq_real C.new_approx CP.bundled_conv) l rs = Done l' /\
    forall n, name_total (table_of CP.bundled_conv) n l'
              ≡ name_total (table_of CP.bundled_conv) n l
                ⊕ ssum (map (fun all => recipe_lists (table_of CP.bundled_conv) all n) rs).
Proof. apply add_recipes_spec; [exact bundled_table_sane | exact fitq_bundled_ok]. Qed.
